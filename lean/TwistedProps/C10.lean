import TwistedModel.Reactor.Looping
import TwistedProps.C10.Gen
/-!
C10 — LoopingCall keeps cadence without overlap and counts skipped intervals.

Model: `TwistedModel/Reactor/Looping.lean` (`LoopingCall` + `Clock.advance`, integer ticks).
All theorems quantify over every script of the looped function, every history of
`start / advance / fire / fail / stop / reset` operations that satisfies the decidable
well-formedness predicate `HistOk` (positive or negative — never zero — intervals, advances ≥ 0,
`start` not issued while the function's Deferred is unfired), and every next operation.
The last part (`Re-entrancy`) extends them to histories in which callbacks attached to the Deferreds
returned by `start()` restart / stop / reset the LoopingCall synchronously from inside the firing
(`HistOkR`, `looping_call_cadence_reentrant`).

`gen_*`: the arithmetic kernels `_intervalOf` and `howLong` are regenerated from task.py on every run
(`Generated.Looping`, harness/py2lean.py) and proved equal to the model's functions
(`TwistedProps/C10/Gen.lean`); the wrappers below restate the boundary arithmetic and the skip count
directly over the generated definitions.
-/
namespace TwistedProps.C10
open Twisted.Reactor.Looping

/-! ## arithmetic of the boundary grid -/

/-- the first boundary `st + k*I` strictly after time `c` -/
def nextBoundary (st I c : Int) : Int := st + ((c - st) / I + 1) * I

theorem nb_eq (st I c : Int) : c + (I - (c - st) % I) = nextBoundary st I c := by
  unfold nextBoundary
  have h := Int.ediv_mul_add_emod (c - st) I
  rw [Int.add_mul]
  omega

theorem nextBoundary_gt (st I c : Int) (hI : 0 < I) : c < nextBoundary st I c := by
  have := Int.lt_ediv_add_one_mul_self (c - st) hI
  unfold nextBoundary; omega

theorem nextBoundary_sub_le (st I c : Int) (hI : 0 < I) : nextBoundary st I c - I ≤ c := by
  have := Int.ediv_mul_le (c - st) (Int.ne_of_gt hI)
  unfold nextBoundary; rw [Int.add_mul]; omega

/-- `nextBoundary` really is the FIRST grid point strictly after `c` -/
theorem nextBoundary_first (st I c k : Int) (hI : 0 < I) (h : c < st + k * I) :
    nextBoundary st I c ≤ st + k * I := by
  have h1 : (c - st) / I < k := (Int.ediv_lt_iff_lt_mul hI).2 (by omega)
  have h2 : ((c - st) / I + 1) * I ≤ k * I := Int.mul_le_mul_of_nonneg_right (by omega) (Int.le_of_lt hI)
  unfold nextBoundary; omega

/-- moving the clock without reaching the boundary does not change which boundary is next -/
theorem nextBoundary_mono_stable (st I c c' : Int) (hI : 0 < I) (h1 : c ≤ c')
    (h2 : c' < nextBoundary st I c) : nextBoundary st I c' = nextBoundary st I c := by
  have ha : nextBoundary st I c' ≤ nextBoundary st I c := nextBoundary_first st I c' _ hI h2
  have hb : (c - st) / I ≤ (c' - st) / I := Int.ediv_le_ediv hI (by omega)
  have hc : ((c - st) / I + 1) * I ≤ ((c' - st) / I + 1) * I :=
    Int.mul_le_mul_of_nonneg_right (by omega) (Int.le_of_lt hI)
  unfold nextBoundary at *; omega

theorem tdiv_nonpos (a I : Int) (ha : a ≤ 0) (hI : 0 < I) : a.tdiv I ≤ 0 := by
  have : a = -(-a) := by omega
  rw [this, Int.neg_tdiv]
  have := @Int.tdiv_nonneg (-a) I (by omega) (by omega)
  omega

theorem tdiv_neg_self (I : Int) (hI : 0 < I) : (-I).tdiv I = -1 := by
  rw [Int.neg_tdiv, Int.tdiv_self (by omega)]

/-- `howLong` as a function of the three numbers it reads -/
def hl (I st w : Int) : Int :=
  if I == 0 then 0 else if I - (w - st) % I == 0 then I else I - (w - st) % I

theorem howLong_def (s : St) (w : Int) : howLong s w = hl s.interval s.starttime w := rfl

/-- `untilNextInterval` is never 0 on exact arithmetic: the `when == when + untilNextInterval`
    branch of `howLong` is dead, and the delay always leads to the next boundary -/
theorem untilNext_pos (I st w : Int) (hI : 0 < I) : 0 < I - (w - st) % I ∧ I - (w - st) % I ≤ I := by
  have h1 := Int.emod_lt_of_pos (w - st) hI
  have h2 := Int.emod_nonneg (w - st) (Int.ne_of_gt hI)
  omega

theorem hl_eq (I st w : Int) (hI : 0 < I) : w + hl I st w = nextBoundary st I w := by
  have h1 := Int.emod_lt_of_pos (w - st) hI
  have h2 : (I == 0) = false := by simp; omega
  have h3 : (I - (w - st) % I == 0) = false := by simp; omega
  simp only [hl, h2, h3]
  exact nb_eq _ _ _

/-! ## the translator-regenerated kernels (see `TwistedProps/C10/Gen.lean`) -/

/-- generated `_intervalOf` = model `intervalOf` -/
theorem gen_intervalOf (s : St) (t : Int) :
    Generated.Looping.intervalOf s.starttime s.interval t = intervalOf s t := gen_intervalOf_eq s t

/-- generated `howLong` = model `howLong` for every interval `start()` accepts -/
theorem gen_howLong (s : St) (when : Int) (hI : 0 ≤ s.interval) :
    Generated.Looping.howLong s.starttime s.interval when = howLong s when := gen_howLong_eq s when hI

/-- `_scheduleFrom(when)` arms the call at `now + ` the generated `howLong` -/
theorem gen_scheduleFrom (s : St) (when : Int) (hI : 0 ≤ s.interval) :
    (scheduleFrom s when).call = some (s.now + Generated.Looping.howLong s.starttime s.interval when) :=
  gen_scheduleFrom_eq s when hI

/-- no drift, over the generated definition: the delay computed by task.py's `howLong` leads from `when`
    exactly to the first boundary `starttime + k*interval` strictly after `when` -/
theorem gen_howLong_next_boundary (st I w : Int) (hI : 0 < I) :
    w + Generated.Looping.howLong st I w = nextBoundary st I w := by
  have h := gen_howLong_eq { interval := I, starttime := st } w (Int.le_of_lt hI)
  simp only at h
  rw [h, howLong_def]
  exact hl_eq I st w hI

/-! ## the pieces of `__call__` -/

def countOf (s : St) : Int := intervalOf s s.now - intervalOf s (lastTime s)

/-- the count handed to the user function is the difference of the GENERATED `_intervalOf` at `now` and at
    `lastTime` (the two `self._intervalOf(..)` calls of `counter()`) -/
theorem gen_countOf (s : St) :
    countOf s = Generated.Looping.intervalOf s.starttime s.interval s.now
                - Generated.Looping.intervalOf s.starttime s.interval (lastTime s) := rfl

theorem counter_pos (s : St) (hI : 0 < s.interval) (hc : 0 < countOf s) :
    counter s = ({ s with realLastTime := some s.now }, some (countOf s)) := by
  have h2 : (s.interval == 0) = false := by simp; omega
  unfold countOf at hc
  simp only [counter, h2, countOf, Bool.false_eq_true, if_false]
  rw [if_pos hc]

theorem userCall_cases (s : St) (hc : s.call = none) (hr : s.running = true) :
    ∃ sc rn, userCall s = ({ s with script := sc, running := rn }, .value) ∨
             userCall s = ({ s with script := sc }, .failure) ∨
             userCall s = ({ s with script := sc, running := rn, inflight := true }, .pending) := by
  unfold userCall stop
  cases hs : s.script with
  | nil => exact ⟨[], true, Or.inl (by simp [← hr, ← hs])⟩
  | cons b r =>
    cases b
    · exact ⟨r, true, Or.inl (by simp [← hr])⟩
    · exact ⟨r, true, Or.inr (Or.inl (by simp))⟩
    · exact ⟨r, true, Or.inr (Or.inr (by simp [← hr]))⟩
    · exact ⟨r, false, Or.inl (by simp [hr, hc])⟩
    · exact ⟨r, false, Or.inr (Or.inr (by simp [hr, hc]))⟩

def afterCount (s : St) : St :=
  { s with call := none, realLastTime := if s.withCount then some s.now else s.realLastTime }

def evCall (s : St) : Ev := Ev.call s.now (if s.withCount then some (countOf s) else none)

theorem callOp_cases (s : St) (hr : s.running = true) (hd : s.deferred = true) (hI : 0 < s.interval)
    (hc : s.withCount = true → 0 < countOf s) :
    ∃ sc rn,
      callOp s = ({ (afterCount s) with script := sc, call := some (nextBoundary s.starttime s.interval s.now) }, [evCall s]) ∨
      callOp s = ({ (afterCount s) with script := sc, running := false, deferred := false },
                    [evCall s, .fired true]) ∨
      callOp s = ({ (afterCount s) with script := sc, running := false, deferred := false },
                    [evCall s, .fired false]) ∨
      callOp s = ({ (afterCount s) with script := sc, running := rn, inflight := true }, [evCall s]) := by
  have hh := hl_eq s.interval s.starttime s.now hI
  unfold callOp
  by_cases hw : s.withCount = true
  rotate_left
  · rw [if_neg hw]
    obtain ⟨sc, rn, h | h | h⟩ := userCall_cases { s with call := none } rfl hr
    · rw [h]
      cases rn
      · refine ⟨sc, false, Or.inr (Or.inl ?_)⟩
        simp [finish, hw, hr, cb, hd, afterCount, evCall]
      · refine ⟨sc, true, Or.inl ?_⟩
        simp [finish, hw, hr, cb, scheduleFrom, howLong_def, hh, afterCount, evCall]
    · rw [h]
      refine ⟨sc, true, Or.inr (Or.inr (Or.inl ?_))⟩
      simp [finish, hw, hr, eb, hd, afterCount, evCall]
    · rw [h]
      refine ⟨sc, rn, Or.inr (Or.inr (Or.inr ?_))⟩
      simp [finish, hw, hr, afterCount, evCall]
  · rw [if_pos hw]
    have hcp : 0 < countOf { s with call := none } := hc hw
    rw [counter_pos { s with call := none } hI hcp]
    simp only []
    obtain ⟨sc, rn, h | h | h⟩ := userCall_cases { s with call := none, realLastTime := some s.now } rfl hr
    · rw [h]
      cases rn
      · refine ⟨sc, false, Or.inr (Or.inl ?_)⟩
        simp [finish, hw, hr, cb, hd, afterCount, evCall, countOf, intervalOf, lastTime]
      · refine ⟨sc, true, Or.inl ?_⟩
        simp [finish, hw, hr, cb, scheduleFrom, howLong_def, hh, afterCount, evCall, countOf, intervalOf, lastTime]
    · rw [h]
      refine ⟨sc, true, Or.inr (Or.inr (Or.inl ?_))⟩
      simp [finish, hw, hr, eb, hd, afterCount, evCall, countOf, intervalOf, lastTime]
    · rw [h]
      refine ⟨sc, rn, Or.inr (Or.inr (Or.inr ?_))⟩
      simp [finish, hw, hr, afterCount, evCall, countOf, intervalOf, lastTime]

/-! ## the count -/

def ras01 (s : St) : Int := if s.runAtStart then 1 else 0

/-- what the counts handed out so far in this run must add up to, read off `_realLastTime` -/
def passed (s : St) : Int :=
  match s.realLastTime with
  | some l => (l - s.starttime) / s.interval + ras01 s
  | none => 0

/-- the grid boundaries `starttime + k*interval ≤ t` (`k ≥ 0` with an immediate first call, else `k ≥ 1`) -/
def boundariesElapsed (s : St) (t : Int) : Int := (t - s.starttime) / s.interval + ras01 s

theorem countOf_eq (s : St) (hI : 0 < s.interval) (hst : s.starttime ≤ s.now)
    (hl : ∀ l, s.realLastTime = some l → s.starttime ≤ l) :
    countOf s = boundariesElapsed s s.now - passed s := by
  unfold countOf boundariesElapsed passed intervalOf lastTime ras01
  rw [Int.tdiv_eq_ediv_of_nonneg (by omega)]
  cases h : s.realLastTime with
  | some l =>
    have := hl l h
    simp only []
    rw [Int.tdiv_eq_ediv_of_nonneg (by omega)]
    omega
  | none =>
    simp only []
    cases s.runAtStart
    · simp
    · simp only [if_true]
      have : s.starttime - s.interval - s.starttime = -s.interval := by omega
      rw [this, tdiv_neg_self _ hI]; omega

/-- a call that became due (clock reached the boundary computed at an earlier clock value `c`)
    always has a positive count: the user function is never skipped -/
theorem countOf_pos_of_due (s : St) (c : Int) (hI : 0 < s.interval) (hst : s.starttime ≤ c)
    (hdue : nextBoundary s.starttime s.interval c ≤ s.now)
    (hl : ∀ l, s.realLastTime = some l → l ≤ c) : 0 < countOf s := by
  have hk0 : 0 ≤ (c - s.starttime) / s.interval := Int.ediv_nonneg (by omega) (by omega)
  have hk : (c - s.starttime) / s.interval + 1 ≤ (s.now - s.starttime) / s.interval := by
    apply (Int.le_ediv_iff_mul_le hI).2
    unfold nextBoundary at hdue; omega
  have hcn := nextBoundary_gt s.starttime s.interval c hI
  unfold countOf intervalOf lastTime
  rw [Int.tdiv_eq_ediv_of_nonneg (by omega)]
  cases h : s.realLastTime with
  | some l =>
    have hlc := hl l h
    simp only []
    by_cases hls : s.starttime ≤ l
    · rw [Int.tdiv_eq_ediv_of_nonneg (by omega)]
      have : (l - s.starttime) / s.interval ≤ (c - s.starttime) / s.interval :=
        Int.ediv_le_ediv hI (by omega)
      omega
    · have := tdiv_nonpos (l - s.starttime) s.interval (by omega) hI
      omega
  | none =>
    simp only []
    cases s.runAtStart
    · simp; omega
    · simp only [if_true]
      have : s.starttime - s.interval - s.starttime = -s.interval := by omega
      rw [this, tdiv_neg_self _ hI]; omega

/-! ## state invariant -/

structure Inv (s : St) : Prop where
  ipos : s.deferred = true → 0 < s.interval
  idef : s.deferred = (s.running || s.inflight)
  icall : ∀ t, s.call = some t → s.running = true ∧ s.inflight = false ∧
            t = nextBoundary s.starttime s.interval s.now
  irun : s.running = true → s.inflight = false → s.call.isSome = true
  ist : s.deferred = true → s.starttime ≤ s.now
  ilast : ∀ l, s.realLastTime = some l → l ≤ s.now

/-- what `__call__` needs of the state it is entered in -/
structure Pre (s : St) : Prop where
  run : s.running = true
  dfr : s.deferred = true
  nfl : s.inflight = false
  pos : 0 < s.interval
  st : s.starttime ≤ s.now
  last : ∀ l, s.realLastTime = some l → l ≤ s.now
  cnt : s.withCount = true → 0 < countOf s

theorem callOp_inv (s : St) (h : Pre s) : Inv (callOp s).1 := by
  obtain ⟨h1, h2, h3, h4, h5, h6, h7⟩ := h
  have hgt := nextBoundary_gt s.starttime s.interval s.now h4
  obtain ⟨sc, rn, h | h | h | h⟩ := callOp_cases s h1 h2 h4 h7 <;> rw [h] <;>
    constructor <;> simp [afterCount, h1, h2, h3] <;> try omega
  all_goals (first | (intro l hl; split at hl <;> simp_all <;> omega) | skip)

/-- well-formedness of the next operation -/
def OpOk (s : St) : Op → Prop
  | .start i _ => i ≠ 0 ∧ s.inflight = false
  | .advance a => 0 ≤ a
  | _ => True

instance (s : St) (op : Op) : Decidable (OpOk s op) := by
  cases op <;> unfold OpOk <;> infer_instance

/-- well-formedness of a history -/
def HistOk : St → List Op → Prop
  | _, [] => True
  | s, op :: ops => OpOk s op ∧ HistOk (step s op).1 ops

instance : ∀ (s : St) (ops : List Op), Decidable (HistOk s ops)
  | _, [] => isTrue trivial
  | s, op :: ops => by
    unfold HistOk
    have := instDecidableHistOk (step s op).1 ops
    infer_instance

theorem Inv.call_gt {s : St} (h : Inv s) {t : Int} (ht : s.call = some t) : s.now < t := by
  obtain ⟨hr, _, he⟩ := h.icall t ht
  have hd : s.deferred = true := by rw [h.idef, hr]; rfl
  rw [he]; exact nextBoundary_gt _ _ _ (h.ipos hd)

theorem runDue_idle (n : Nat) (s : St) (h : ∀ t, s.call = some t → s.now < t) :
    runDue n s = (s, []) := by
  cases n with
  | zero => rfl
  | succ n =>
    unfold runDue
    cases hc : s.call with
    | none => rfl
    | some t =>
      have := h t hc
      simp only []
      rw [if_neg (by omega)]

/-- the clock moved to `now + a` -/
def tick (s : St) (a : Int) : St := { s with now := s.now + a }

theorem pre_of_due (s : St) (a t : Int) (hi : Inv s) (ha : 0 ≤ a) (hc : s.call = some t)
    (hdue : t ≤ s.now + a) : Pre (tick s a) := by
  obtain ⟨hr, hf, he⟩ := hi.icall t hc
  have hd : s.deferred = true := by rw [hi.idef, hr]; rfl
  have hI := hi.ipos hd
  have hst := hi.ist hd
  refine ⟨hr, hd, hf, hI, ?_, ?_, ?_⟩
  · simp only [tick]; omega
  · intro l hl; have := hi.ilast l hl; simp only [tick]; omega
  · intro _
    apply countOf_pos_of_due (tick s a) s.now hI hst
    · simp only [tick]; omega
    · exact hi.ilast

/-- `Clock.advance`: the loop body runs at most once — exactly when the pending call is due -/
theorem advance_due (s : St) (a t : Int) (hi : Inv s) (ha : 0 ≤ a) (hc : s.call = some t)
    (hdue : t ≤ s.now + a) : advance s a = callOp (tick s a) := by
  have hp := pre_of_due s a t hi ha hc hdue
  have hi' := callOp_inv _ hp
  unfold advance advanceFuel
  show runDue 3 (tick s a) = _
  unfold runDue
  have hc' : (tick s a).call = some t := hc
  rw [hc']
  simp only []
  rw [if_pos (by simpa [tick] using hdue)]
  rw [runDue_idle 2 _ (fun t ht => hi'.call_gt ht)]
  simp

theorem advance_idle (s : St) (a : Int) (h : ∀ t, s.call = some t → s.now + a < t) :
    advance s a = (tick s a, []) := by
  unfold advance
  exact runDue_idle _ _ h

theorem advance_inv (s : St) (a : Int) (hi : Inv s) (ha : 0 ≤ a) : Inv (advance s a).1 := by
  cases hc : s.call with
  | none =>
    rw [advance_idle s a (by simp [hc])]
    obtain ⟨h1, h2, h3, h4, h5, h6⟩ := hi
    constructor <;> simp_all [tick] <;> try omega
    · intro hd; have := h5 hd; omega
    · intro l hl; have := h6 l hl; omega
  | some t =>
    by_cases hdue : t ≤ s.now + a
    · rw [advance_due s a t hi ha hc hdue]
      exact callOp_inv _ (pre_of_due s a t hi ha hc hdue)
    · rw [advance_idle s a (by intro t' ht'; simp [hc] at ht'; omega)]
      obtain ⟨hr, hf, he⟩ := hi.icall t hc
      have hd : s.deferred = true := by rw [hi.idef, hr]; rfl
      have hI := hi.ipos hd
      have hst := hi.ist hd
      have hstab := nextBoundary_mono_stable s.starttime s.interval s.now (s.now + a) hI (by omega)
        (by rw [← he]; omega)
      obtain ⟨h1, h2, h3, h4, h5, h6⟩ := hi
      constructor <;> simp_all [tick] <;> try omega
      intro l hl; have := h6 l hl; omega

/-- the state `start(i, now)` builds before the first call / scheduling -/
def started (s : St) (i : Int) (n : Bool) : St :=
  { s with running := true, deferred := true, starttime := s.now, interval := i,
           runAtStart := n, realLastTime := none }

theorem start_eq (s : St) (i : Int) (n : Bool) (hr : s.running = false) (hi : 0 < i) :
    start s i n = if n then callOp (started s i n) else (scheduleFrom (started s i n) s.now, []) := by
  unfold start started
  rw [hr]
  simp only [Bool.false_eq_true, if_false]
  rw [if_neg (by omega)]

theorem countOf_started (s : St) (i : Int) (hi : 0 < i) : countOf (started s i true) = 1 := by
  unfold countOf intervalOf lastTime started
  simp only [if_true]
  have : s.now - i - s.now = -i := by omega
  rw [this, tdiv_neg_self _ hi]
  simp

theorem pre_started (s : St) (i : Int) (hi : 0 < i) (hf : s.inflight = false) :
    Pre (started s i true) := by
  refine ⟨rfl, rfl, hf, hi, ?_, ?_, ?_⟩
  · simp [started]
  · intro l hl; simp [started] at hl
  · intro _; rw [countOf_started s i hi]; omega

theorem start_inv (s : St) (i : Int) (n : Bool) (hinv : Inv s) (h0 : i ≠ 0) (hf : s.inflight = false) :
    Inv (start s i n).1 := by
  by_cases hr : s.running = true
  · unfold start; rw [if_pos hr]; exact hinv
  · have hr' : s.running = false := by simpa using hr
    by_cases hi : 0 < i
    · rw [start_eq s i n hr' hi]
      cases n
      · simp only [Bool.false_eq_true, if_false, scheduleFrom, howLong_def]
        have := hl_eq i s.now s.now hi
        constructor <;> simp [started, hf, hi, this]
      · simp only [if_true]
        exact callOp_inv _ (pre_started s i hi hf)
    · unfold start; rw [hr']; simp only [Bool.false_eq_true, if_false]
      rw [if_pos (by omega)]; exact hinv

theorem stop_inv (s : St) (hinv : Inv s) : Inv (stop s).1 := by
  obtain ⟨h1, h2, h3, h4, h5, h6⟩ := hinv
  unfold stop
  by_cases hr : s.running = true
  · simp only [hr, Bool.not_true, Bool.false_eq_true, if_false]
    cases hc : s.call with
    | none =>
      simp only []
      have hfl : s.inflight = true := by
        cases hfl : s.inflight
        · have := h4 hr hfl; simp [hc] at this
        · rfl
      constructor <;> simp_all
    | some t =>
      simp only []
      have := h3 t hc
      constructor <;> simp_all
  · have : s.running = false := by simpa using hr
    simp only [this, Bool.not_false, if_true]
    exact ⟨h1, h2, h3, h4, h5, h6⟩

theorem reset_inv (s : St) (hinv : Inv s) : Inv (reset s).1 := by
  unfold reset
  by_cases hr : s.running = true
  · simp only [hr, Bool.not_true, Bool.false_eq_true, if_false]
    cases hc : s.call with
    | none => exact hinv
    | some t =>
      simp only [scheduleFrom, howLong_def]
      obtain ⟨_, hf, _⟩ := hinv.icall t hc
      have hd : s.deferred = true := by rw [hinv.idef, hr]; rfl
      have hI := hinv.ipos hd
      have := hl_eq s.interval s.now s.now hI
      obtain ⟨h1, h2, h3, h4, h5, h6⟩ := hinv
      constructor <;> simp_all
  · have : s.running = false := by simpa using hr
    simp only [this, Bool.not_false, if_true]
    exact hinv

theorem fire_inv (s : St) (hinv : Inv s) : Inv (fire s).1 := by
  unfold fire
  by_cases hf : s.inflight = true
  · rw [if_pos hf]
    have hd : s.deferred = true := by rw [hinv.idef, hf]; simp
    have hI := hinv.ipos hd
    have hc : s.call = none := by
      cases hc : s.call with
      | none => rfl
      | some t => have := (hinv.icall t hc).2.1; simp [hf] at this
    have := hl_eq s.interval s.starttime s.now hI
    obtain ⟨h1, h2, h3, h4, h5, h6⟩ := hinv
    unfold cb
    by_cases hr : s.running = true
    · simp only [hr, if_true, scheduleFrom, howLong_def]
      constructor <;> simp_all
    · have hr' : s.running = false := by simpa using hr
      simp only [hr', Bool.false_eq_true, if_false, hd, if_true]
      constructor <;> simp_all
  · rw [if_neg hf]; exact hinv

theorem fail_inv (s : St) (hinv : Inv s) : Inv (fail s).1 := by
  unfold fail
  by_cases hf : s.inflight = true
  · rw [if_pos hf]
    have hd : s.deferred = true := by rw [hinv.idef, hf]; simp
    have hc : s.call = none := by
      cases hc : s.call with
      | none => rfl
      | some t => have := (hinv.icall t hc).2.1; simp [hf] at this
    obtain ⟨h1, h2, h3, h4, h5, h6⟩ := hinv
    unfold eb
    simp only [hd, if_true]
    constructor <;> simp_all
  · rw [if_neg hf]; exact hinv

theorem step_inv (s : St) (op : Op) (hinv : Inv s) (hok : OpOk s op) : Inv (step s op).1 := by
  cases op with
  | start i n => exact start_inv s i n hinv hok.1 hok.2
  | advance a => exact advance_inv s a hinv hok
  | fire => exact fire_inv s hinv
  | fail => exact fail_inv s hinv
  | stop => exact stop_inv s hinv
  | reset => exact reset_inv s hinv

theorem init_inv (wc : Bool) (script : List Beh) : Inv (init wc script) := by
  constructor <;> simp [init]

theorem run_inv (s : St) (ops : List Op) (hinv : Inv s) (hok : HistOk s ops) : Inv (run s ops).1 := by
  induction ops generalizing s with
  | nil => exact hinv
  | cons op ops ih =>
    obtain ⟨h1, h2⟩ := hok
    exact ih _ (step_inv s op hinv h1) h2

/-! ## events -/

/-- the function (or, under withCount, `counter`) was entered -/
def isCall : Ev → Bool
  | .call _ _ => true
  | .skip _ => true
  | _ => false

def isSkip : Ev → Bool
  | .skip _ => true
  | _ => false

def isFired : Ev → Bool
  | .fired _ => true
  | _ => false

/-- sum of the counts passed to the function -/
def countsOf : List Ev → Int
  | [] => 0
  | .call _ (some c) :: r => c + countsOf r
  | _ :: r => countsOf r

def firedOf (evs : List Ev) : Nat := (evs.filter isFired).length
def callsOf (evs : List Ev) : Nat := (evs.filter isCall).length

/-- everything the theorems need to know about one `__call__` -/
theorem callOp_frame (s : St) (h : Pre s) :
    (callOp s).1.now = s.now ∧ (callOp s).1.withCount = s.withCount ∧
    (callOp s).1.interval = s.interval ∧ (callOp s).1.starttime = s.starttime ∧
    (callOp s).1.runAtStart = s.runAtStart ∧
    (callOp s).1.realLastTime = (if s.withCount then some s.now else s.realLastTime) ∧
    (((callOp s).2 = [evCall s] ∧ (callOp s).1.deferred = true) ∨
     (∃ b, (callOp s).2 = [evCall s, .fired b] ∧ (callOp s).1.deferred = false)) := by
  obtain ⟨h1, h2, h3, h4, h5, h6, h7⟩ := h
  obtain ⟨sc, rn, h | h | h | h⟩ := callOp_cases s h1 h2 h4 h7 <;> rw [h] <;> simp [afterCount, h2]

theorem evCall_facts (s : St) :
    isCall (evCall s) = true ∧ isSkip (evCall s) = false ∧ isFired (evCall s) = false ∧
    countsOf [evCall s] = (if s.withCount then countOf s else 0) ∧
    (∀ b, countsOf [evCall s, .fired b] = (if s.withCount then countOf s else 0)) := by
  unfold evCall
  cases s.withCount <;> simp [isCall, isSkip, isFired, countsOf]

/-- `start` that really starts a run -/
def fresh (s : St) : Op → Bool
  | .start i _ => !s.running && decide (0 < i)
  | _ => false

/-- `reset` that really reschedules -/
def resetOk (s : St) : Op → Bool
  | .reset => s.running && s.call.isSome
  | _ => false

/-- an operation during which the function is not entered -/
structure Quiet (s : St) (op : Op) : Prop where
  nocall : ∀ e ∈ (step s op).2, isCall e = false
  counts : countsOf (step s op).2 = 0
  wc : (step s op).1.withCount = s.withCount
  rlt : (step s op).1.realLastTime = if fresh s op then none else s.realLastTime
  grid : fresh s op = false → resetOk s op = false →
    (step s op).1.starttime = s.starttime ∧ (step s op).1.interval = s.interval ∧
    (step s op).1.runAtStart = s.runAtStart
  fired : firedOf (step s op).2 = if (fresh s op || s.deferred) && !(step s op).1.deferred then 1 else 0
  dmono : (step s op).1.deferred = true → (fresh s op || s.deferred) = true

/-- an operation during which `__call__` runs, exactly once, entered in state `s1` -/
structure Called (s : St) (op : Op) (s1 : St) : Prop where
  pre : Pre s1
  eq : step s op = callOp s1
  nfl : s.inflight = false
  why : (∃ a t, op = .advance a ∧ 0 ≤ a ∧ s.call = some t ∧ t ≤ s.now + a ∧ s1 = tick s a) ∨
        (∃ i, op = .start i true ∧ s.running = false ∧ 0 < i ∧ s1 = started s i true)

theorem step_kind (s : St) (op : Op) (hinv : Inv s) (hok : OpOk s op) :
    Quiet s op ∨ ∃ s1, Called s op s1 := by
  cases op with
  | start i n =>
    obtain ⟨h0, hf⟩ := hok
    by_cases hr : s.running = true
    · left
      have : step s (.start i n) = (s, [.assertion]) := by simp [step, start, hr]
      constructor <;> simp [this, fresh, resetOk, hr, isCall, countsOf, firedOf, isFired]
    · have hr' : s.running = false := by simpa using hr
      by_cases hi : 0 < i
      · cases n
        · left
          have : step s (.start i false) = (scheduleFrom (started s i false) s.now, []) := by
            simp [step, start_eq s i false hr' hi]
          constructor <;> simp [this, fresh, resetOk, hr', hi, countsOf, firedOf, scheduleFrom, started]
        · right
          refine ⟨started s i true, pre_started s i hi hf, ?_, hf, Or.inr ⟨i, rfl, hr', hi, rfl⟩⟩
          simp [step, start_eq s i true hr' hi]
      · left
        have : step s (.start i n) = (s, [.valueError]) := by
          simp only [step, start, hr', Bool.false_eq_true, if_false]
          rw [if_pos (by omega)]
        constructor <;> simp [this, fresh, resetOk, hr', hi, isCall, countsOf, firedOf, isFired]
  | advance a =>
    have ha : 0 ≤ a := hok
    cases hc : s.call with
    | none =>
      left
      have : step s (.advance a) = (tick s a, []) := by
        simp only [step]; exact advance_idle s a (by simp [hc])
      constructor <;> simp [this, fresh, resetOk, countsOf, firedOf, tick]
    | some t =>
      by_cases hdue : t ≤ s.now + a
      · right
        exact ⟨tick s a, pre_of_due s a t hinv ha hc hdue, by simp only [step]; exact advance_due s a t hinv ha hc hdue,
          (hinv.icall t hc).2.1, Or.inl ⟨a, t, rfl, ha, hc, hdue, rfl⟩⟩
      · left
        have : step s (.advance a) = (tick s a, []) := by
          simp only [step]; exact advance_idle s a (by intro t' ht'; simp [hc] at ht'; omega)
        constructor <;> simp [this, fresh, resetOk, countsOf, firedOf, tick]
  | fire =>
    left
    by_cases hf : s.inflight = true
    · have hd : s.deferred = true := by rw [hinv.idef, hf]; simp
      by_cases hr : s.running = true
      · have : step s .fire = (scheduleFrom { s with inflight := false } s.now, []) := by
          simp [step, fire, hf, cb, hr]
        constructor <;> simp [this, fresh, resetOk, countsOf, firedOf, scheduleFrom, hd]
      · have hr' : s.running = false := by simpa using hr
        have : step s .fire = ({ s with inflight := false, deferred := false }, [.fired true]) := by
          simp [step, fire, hf, cb, hr', hd]
        constructor <;> simp [this, fresh, resetOk, countsOf, firedOf, isCall, isFired, List.filter, hd]
    · have : step s .fire = (s, []) := by simp [step, fire, hf]
      constructor <;> simp [this, fresh, resetOk, countsOf, firedOf]
  | fail =>
    left
    by_cases hf : s.inflight = true
    · have hd : s.deferred = true := by rw [hinv.idef, hf]; simp
      have : step s .fail = ({ s with inflight := false, running := false, deferred := false }, [.fired false]) := by
        simp [step, fail, hf, eb, hd]
      constructor <;> simp [this, fresh, resetOk, countsOf, firedOf, isCall, isFired, List.filter, hd]
    · have : step s .fail = (s, []) := by simp [step, fail, hf]
      constructor <;> simp [this, fresh, resetOk, countsOf, firedOf]
  | stop =>
    left
    by_cases hr : s.running = true
    · have hd : s.deferred = true := by rw [hinv.idef, hr]; simp
      cases hc : s.call with
      | none =>
        have : step s .stop = ({ s with running := false }, []) := by simp [step, stop, hr, hc]
        constructor <;> simp [this, fresh, resetOk, countsOf, firedOf, hd]
      | some t =>
        have : step s .stop = ({ s with running := false, call := none, deferred := false }, [.fired true]) := by
          simp [step, stop, hr, hc]
        constructor <;> simp [this, fresh, resetOk, countsOf, firedOf, isCall, isFired, List.filter, hd]
    · have hr' : s.running = false := by simpa using hr
      have : step s .stop = (s, [.assertion]) := by simp [step, stop, hr']
      constructor <;> simp [this, fresh, resetOk, countsOf, firedOf, isCall, isFired]
  | reset =>
    left
    by_cases hr : s.running = true
    · have hd : s.deferred = true := by rw [hinv.idef, hr]; simp
      cases hc : s.call with
      | none =>
        have : step s .reset = (s, []) := by simp [step, reset, hr, hc]
        constructor <;> simp [this, fresh, resetOk, countsOf, firedOf, hc]
      | some t =>
        have : step s .reset = (scheduleFrom { s with call := none, starttime := s.now } s.now, []) := by
          simp [step, reset, hr, hc]
        constructor <;> simp [this, fresh, resetOk, countsOf, firedOf, hr, hc, scheduleFrom, hd]
    · have hr' : s.running = false := by simpa using hr
      have : step s .reset = (s, [.assertion]) := by simp [step, reset, hr']
      constructor <;> simp [this, fresh, resetOk, countsOf, firedOf, isCall, isFired]

theorem firedOf_evCall (s : St) : firedOf [evCall s] = 0 ∧ ∀ b, firedOf [evCall s, .fired b] = 1 := by
  simp [firedOf, evCall, isFired, List.filter]

theorem callsOf_evCall (s : St) : callsOf [evCall s] = 1 ∧ ∀ b, callsOf [evCall s, .fired b] = 1 := by
  simp [callsOf, evCall, isCall, List.filter]

theorem step_withCount (s : St) (op : Op) (hinv : Inv s) (hok : OpOk s op) :
    (step s op).1.withCount = s.withCount := by
  rcases step_kind s op hinv hok with q | ⟨s1, c⟩
  · exact q.wc
  · rw [c.eq, (callOp_frame s1 c.pre).2.1]
    rcases c.why with ⟨a, t, _, _, _, _, rfl⟩ | ⟨i, _, _, _, rfl⟩ <;> rfl

/-! ## ghost monitor: what an observer of the events accumulates -/

structure G where
  s : St
  begun : Bool := false      -- some `start()` took effect
  sum : Int := 0             -- Σ counts passed to the function since the latest effective `start()`
  fires : Nat := 0           -- how often the Deferred returned by the latest effective `start()` fired
  resets : Bool := false     -- a `reset()` rescheduled since the latest effective `start()`

def gstep (g : G) (op : Op) : G :=
  { s := (step g.s op).1,
    begun := g.begun || fresh g.s op,
    sum := (if fresh g.s op then 0 else g.sum) + countsOf (step g.s op).2,
    fires := (if fresh g.s op then 0 else g.fires) + firedOf (step g.s op).2,
    resets := (if fresh g.s op then false else g.resets) || resetOk g.s op }

def grun : G → List Op → G
  | g, [] => g
  | g, op :: ops => grun (gstep g op) ops

def ginit (wc : Bool) (script : List Beh) : G := { s := init wc script }

theorem grun_s (g : G) (ops : List Op) : (grun g ops).s = (run g.s ops).1 := by
  induction ops generalizing g with
  | nil => rfl
  | cons op ops ih => simp only [grun, run]; rw [ih]; rfl

structure GInv (g : G) : Prop where
  inv : Inv g.s
  beg : g.s.deferred = true → g.begun = true
  fire : g.fires = if g.begun && !g.s.deferred then 1 else 0
  sum : g.s.withCount = true → g.resets = false →
    g.sum = passed g.s ∧ ∀ l, g.s.realLastTime = some l → g.s.starttime ≤ l

theorem passed_started_call (s1 : St) (i : Int) (s : St) (h1 : s1.realLastTime = some s.now)
    (h2 : s1.starttime = s.now) (_h3 : s1.interval = i) (h4 : s1.runAtStart = true) : passed s1 = 1 := by
  simp [passed, h1, h2, ras01, h4]

theorem gstep_inv (g : G) (op : Op) (h : GInv g) (hok : OpOk g.s op) : GInv (gstep g op) := by
  obtain ⟨hinv, hbeg, hfire, hsum⟩ := h
  have hinv' := step_inv g.s op hinv hok
  rcases step_kind g.s op hinv hok with q | ⟨s1, c⟩
  · refine ⟨hinv', ?_, ?_, ?_⟩
    · intro hd
      have := q.dmono hd
      simp only [gstep]
      cases hfr : fresh g.s op <;> simp_all
    · simp only [gstep, q.fired]
      cases hfr : fresh g.s op <;> cases hd : g.s.deferred <;> cases hd' : (step g.s op).1.deferred <;>
        cases hb : g.begun <;> simp_all
      have := q.dmono; simp_all
    · intro hw hres
      simp only [gstep] at hw hres ⊢
      rw [q.wc] at hw
      cases hfr : fresh g.s op
      · simp only [hfr, Bool.false_eq_true, if_false, Bool.or_eq_false_iff] at hres
        obtain ⟨hg, hro⟩ := hres
        obtain ⟨e1, e2, e3⟩ := q.grid hfr hro
        obtain ⟨hs1, hs2⟩ := hsum hw hg
        have hr := q.rlt; rw [hfr] at hr; simp only [Bool.false_eq_true, if_false] at hr
        simp only [Bool.false_eq_true, if_false, q.counts, passed, ras01, hr, e1, e2, e3]
        refine ⟨?_, hs2⟩
        rw [hs1]; simp [passed, ras01]
      · have hr := q.rlt; rw [hfr] at hr; simp only [if_true] at hr
        simp [q.counts, passed, hr]
  · have hf := callOp_frame s1 c.pre
    obtain ⟨f1, f2, f3, f4, f5, f6, f7⟩ := hf
    have hev := evCall_facts s1
    have hst : (gstep g op).s = (callOp s1).1 := by simp only [gstep]; rw [c.eq]
    refine ⟨hinv', ?_, ?_, ?_⟩
    · intro _
      rcases c.why with ⟨a, t, rfl, _, hc, _, rfl⟩ | ⟨i, rfl, hr, hi, rfl⟩
      · have := (hinv.icall t hc).1
        have hd : g.s.deferred = true := by rw [hinv.idef, this]; rfl
        simp [gstep, hbeg hd]
      · simp [gstep, fresh, hr, hi]
    · rcases c.why with ⟨a, t, rfl, _, hc, _, rfl⟩ | ⟨i, rfl, hr, hi, rfl⟩
      · have := (hinv.icall t hc).1
        have hd : g.s.deferred = true := by rw [hinv.idef, this]; rfl
        have hb := hbeg hd
        simp only [gstep, fresh, Bool.false_eq_true, if_false, Bool.or_false, hb, hfire, hd]
        rw [c.eq]
        rcases f7 with ⟨e, d⟩ | ⟨b, e, d⟩ <;> rw [e, d]
        · rw [(firedOf_evCall _).1]; simp
        · rw [(firedOf_evCall _).2]; simp
      · simp only [gstep, fresh, hr, hi]
        rw [c.eq]
        rcases f7 with ⟨e, d⟩ | ⟨b, e, d⟩ <;> rw [e, d]
        · rw [(firedOf_evCall _).1]; simp
        · rw [(firedOf_evCall _).2]; simp
    · intro hw hres
      rw [hst, f2] at hw
      simp only [gstep] at hres ⊢
      rw [c.eq]
      have hcnt : countsOf (callOp s1).2 = countOf s1 := by
        rcases f7 with ⟨e, _⟩ | ⟨b, e, _⟩ <;> rw [e]
        · rw [hev.2.2.2.1, if_pos hw]
        · rw [hev.2.2.2.2 b, if_pos hw]
      rw [hcnt]
      have hrl : (callOp s1).1.realLastTime = some s1.now := by rw [f6, if_pos hw]
      rcases c.why with ⟨a, t, rfl, ha, hc, hdue, rfl⟩ | ⟨i, rfl, hr, hi, rfl⟩
      · simp only [fresh, resetOk, Bool.false_eq_true, if_false, Bool.or_false] at hres ⊢
        obtain ⟨hs1, hs2⟩ := hsum hw hres
        have hce := countOf_eq (tick g.s a) c.pre.pos c.pre.st hs2
        have hp : passed (tick g.s a) = passed g.s := rfl
        refine ⟨?_, ?_⟩
        · rw [hce, hp, hs1]
          simp only [passed, hrl, f3, f4, ras01, f5, boundariesElapsed]
          omega
        · intro l hl; rw [hrl] at hl; injection hl with hl; subst hl
          rw [f4]; exact c.pre.st
      · simp only [fresh, hr, hi, Bool.not_false, decide_true, Bool.and_self, if_true]
        rw [countOf_started g.s i hi]
        refine ⟨?_, ?_⟩
        · rw [passed_started_call (callOp (started g.s i true)).1 i g.s hrl f4 f3 f5]; omega
        · intro l hl; rw [hrl] at hl; injection hl with hl; subst hl
          rw [f4]; exact Int.le_refl _

theorem ginit_inv (wc : Bool) (script : List Beh) : GInv (ginit wc script) := by
  refine ⟨init_inv wc script, ?_, ?_, ?_⟩ <;> simp [ginit, init, passed]

theorem grun_inv (g : G) (ops : List Op) (h : GInv g) (hok : HistOk g.s ops) : GInv (grun g ops) := by
  induction ops generalizing g with
  | nil => exact h
  | cons op ops ih =>
    obtain ⟨h1, h2⟩ := hok
    exact ih _ (gstep_inv g op h h1) h2

/-! ## the property -/

/-- the state after a history run on a fresh `LoopingCall` (`withCount` or plain) with the given script -/
def after (wc : Bool) (script : List Beh) (ops : List Op) : St := (run (init wc script) ops).1

/-- the observer's tallies after the same history -/
def tally (wc : Bool) (script : List Beh) (ops : List Op) : G := grun (ginit wc script) ops

theorem tally_s (wc : Bool) (script : List Beh) (ops : List Op) :
    (tally wc script ops).s = after wc script ops := grun_s _ _

theorem after_inv (wc : Bool) (script : List Beh) (ops : List Op) (h : HistOk (init wc script) ops) :
    Inv (after wc script ops) := run_inv _ _ (init_inv wc script) h

theorem tally_inv (wc : Bool) (script : List Beh) (ops : List Op) (h : HistOk (init wc script) ops) :
    GInv (tally wc script ops) := grun_inv _ _ (ginit_inv wc script) h

/-- **No overlap.**  After any well-formed history, while the Deferred returned by the previous
    invocation is unfired, no operation enters the function (nor `counter`). -/
theorem no_overlap (wc : Bool) (script : List Beh) (ops : List Op) (op : Op)
    (h : HistOk (init wc script) ops) (hop : OpOk (after wc script ops) op)
    (hfl : (after wc script ops).inflight = true) :
    ∀ e ∈ (step (after wc script ops) op).2, isCall e = false := by
  rcases step_kind _ op (after_inv wc script ops h) hop with q | ⟨s1, c⟩
  · exact q.nocall
  · have := c.nfl; rw [hfl] at this; cases this

/-- … and no operation enters it twice. -/
theorem at_most_one_call_per_op (wc : Bool) (script : List Beh) (ops : List Op) (op : Op)
    (h : HistOk (init wc script) ops) (hop : OpOk (after wc script ops) op) :
    callsOf (step (after wc script ops) op).2 ≤ 1 := by
  rcases step_kind _ op (after_inv wc script ops h) hop with q | ⟨s1, c⟩
  · have : (step (after wc script ops) op).2.filter isCall = [] :=
      List.filter_eq_nil_iff.2 (fun e he => by simp [q.nocall e he])
    simp [callsOf, this]
  · rw [c.eq]
    rcases (callOp_frame s1 c.pre).2.2.2.2.2.2 with ⟨e, _⟩ | ⟨b, e, _⟩ <;> rw [e]
    · rw [(callsOf_evCall s1).1]; omega
    · rw [(callsOf_evCall s1).2]; omega

/-- **Cadence (no drift).**  Whenever the loop is running and no invocation is in flight — in
    particular at the moment an invocation completed, `start(now=False)` returned or `reset()`
    rescheduled — the next call is pending at `t = starttime + k*interval`, the FIRST boundary strictly
    after the current clock time (hence strictly after that completion), however late or far the
    clock had jumped. -/
theorem next_call_on_first_boundary_after_completion (wc : Bool) (script : List Beh) (ops : List Op)
    (h : HistOk (init wc script) ops)
    (hr : (after wc script ops).running = true) (hf : (after wc script ops).inflight = false) :
    ∃ t, (after wc script ops).call = some t ∧
      t = (after wc script ops).starttime +
            (((after wc script ops).now - (after wc script ops).starttime) / (after wc script ops).interval + 1) *
              (after wc script ops).interval ∧
      (after wc script ops).now < t ∧ t - (after wc script ops).interval ≤ (after wc script ops).now ∧
      ∀ k : Int, (after wc script ops).now < (after wc script ops).starttime + k * (after wc script ops).interval →
        t ≤ (after wc script ops).starttime + k * (after wc script ops).interval := by
  have hinv := after_inv wc script ops h
  generalize after wc script ops = s at *
  have hd : s.deferred = true := by rw [hinv.idef, hr]; rfl
  have hI := hinv.ipos hd
  have hs := hinv.irun hr hf
  cases hc : s.call with
  | none => simp [hc] at hs
  | some t =>
    obtain ⟨_, _, he⟩ := hinv.icall t hc
    refine ⟨t, rfl, he, ?_, ?_, ?_⟩
    · rw [he]; exact nextBoundary_gt _ _ _ hI
    · rw [he]; exact nextBoundary_sub_le _ _ _ hI
    · intro k hk; rw [he]; exact nextBoundary_first _ _ _ k hI hk

/-- The pending call stays where it is until the clock reaches it: advances that fall short of it
    and firing attempts leave it untouched (only `stop`/`reset` remove or move it). -/
theorem pending_call_persists (wc : Bool) (script : List Beh) (ops : List Op) (op : Op) (t : Int)
    (h : HistOk (init wc script) ops) (hc : (after wc script ops).call = some t)
    (hop : (∃ a, op = .advance a ∧ (after wc script ops).now + a < t) ∨ op = .fire ∨ op = .fail) :
    (step (after wc script ops) op).1.call = some t := by
  have hinv := after_inv wc script ops h
  generalize after wc script ops = s at *
  have hfl := (hinv.icall t hc).2.1
  rcases hop with ⟨a, rfl, ha⟩ | rfl | rfl
  · simp only [step]
    rw [advance_idle s a (by intro t' ht'; rw [hc] at ht'; injection ht' with e; omega)]
    exact hc
  · simp [step, fire, hfl, hc]
  · simp [step, fail, hfl, hc]

/-- The function is entered ONLY by the advance that reaches the pending boundary, or by an
    effective `start(now=True)`; the event carries the clock time of that operation. -/
theorem calls_only_when_due (wc : Bool) (script : List Beh) (ops : List Op) (op : Op)
    (h : HistOk (init wc script) ops) (hop : OpOk (after wc script ops) op) :
    ∀ e ∈ (step (after wc script ops) op).2, isCall e = true →
      (∃ a t, op = .advance a ∧ (after wc script ops).call = some t ∧ t ≤ (after wc script ops).now + a ∧
          e = evCall (tick (after wc script ops) a)) ∨
      (∃ i, op = .start i true ∧ (after wc script ops).running = false ∧ 0 < i ∧
          e = evCall (started (after wc script ops) i true)) := by
  intro e he hcall
  rcases step_kind _ op (after_inv wc script ops h) hop with q | ⟨s1, c⟩
  · rw [q.nocall e he] at hcall; cases hcall
  · rw [c.eq] at he
    have hev : e = evCall s1 := by
      rcases (callOp_frame s1 c.pre).2.2.2.2.2.2 with ⟨e', _⟩ | ⟨b, e', _⟩ <;> rw [e'] at he
      · simpa using he
      · rcases List.mem_cons.1 he with r | r
        · exact r
        · simp at r; subst r; simp [isCall] at hcall
    rcases c.why with ⟨a, t, rfl, _, hc, hdue, rfl⟩ | ⟨i, rfl, hr, hi, rfl⟩
    · exact Or.inl ⟨a, t, rfl, hc, hdue, hev⟩
    · exact Or.inr ⟨i, rfl, hr, hi, hev⟩

/-- The advance that reaches the pending boundary does call the function, at the clock time it
    lands on (`now + a ≥ t`: the first advance to reach `t`, since `now < t` before it). -/
theorem due_call_happens (wc : Bool) (script : List Beh) (ops : List Op) (a t : Int)
    (h : HistOk (init wc script) ops) (ha : 0 ≤ a) (hc : (after wc script ops).call = some t)
    (hdue : t ≤ (after wc script ops).now + a) :
    ∃ c, Ev.call ((after wc script ops).now + a) c ∈ (step (after wc script ops) (.advance a)).2 := by
  have hinv := after_inv wc script ops h
  generalize after wc script ops = s at *
  have hp := pre_of_due s a t hinv ha hc hdue
  simp only [step]
  rw [advance_due s a t hinv ha hc hdue]
  rcases (callOp_frame _ hp).2.2.2.2.2.2 with ⟨e, _⟩ | ⟨b, e, _⟩ <;> rw [e] <;>
    exact ⟨_, List.mem_cons_self⟩

/-- `start(interval, now=True)` on a stopped loop calls the function at once. -/
theorem immediate_call_happens (wc : Bool) (script : List Beh) (ops : List Op) (i : Int)
    (_h : HistOk (init wc script) ops) (hi : 0 < i) (hr : (after wc script ops).running = false)
    (hf : (after wc script ops).inflight = false) :
    ∃ c, Ev.call (after wc script ops).now c ∈ (step (after wc script ops) (.start i true)).2 := by
  generalize after wc script ops = s at *
  have hp := pre_started s i hi hf
  simp only [step]
  rw [start_eq s i true hr hi]
  simp only [if_true]
  rcases (callOp_frame _ hp).2.2.2.2.2.2 with ⟨e, _⟩ | ⟨b, e, _⟩ <;> rw [e] <;>
    exact ⟨_, List.mem_cons_self⟩

/-- **withCount never swallows a call**: `counter` always finds `count > 0`, so the user function
    is invoked at every call, and every count handed out is at least 1. -/
theorem withCount_never_skips (wc : Bool) (script : List Beh) (ops : List Op) (op : Op)
    (h : HistOk (init wc script) ops) (hop : OpOk (after wc script ops) op) :
    ∀ e ∈ (step (after wc script ops) op).2,
      isSkip e = false ∧ ∀ T c, e = Ev.call T (some c) → 1 ≤ c := by
  intro e he
  rcases step_kind _ op (after_inv wc script ops h) hop with q | ⟨s1, c⟩
  · have := q.nocall e he
    cases e <;> simp_all [isCall, isSkip]
  · rw [c.eq] at he
    have hev : e = evCall s1 ∨ ∃ b, e = .fired b := by
      rcases (callOp_frame s1 c.pre).2.2.2.2.2.2 with ⟨e', _⟩ | ⟨b, e', _⟩ <;> rw [e'] at he
      · left; simpa using he
      · rcases List.mem_cons.1 he with r | r
        · exact Or.inl r
        · right; exact ⟨b, by simpa using r⟩
    rcases hev with rfl | ⟨b, rfl⟩
    · refine ⟨(evCall_facts s1).2.1, ?_⟩
      intro T c' hc'
      unfold evCall at hc'
      by_cases hw : s1.withCount = true
      · rw [if_pos hw] at hc'
        injection hc' with _ h2; injection h2 with h2
        have := c.pre.cnt hw; omega
      · rw [if_neg hw] at hc'; injection hc' with _ h2; cases h2
    · simp [isSkip]

/-- **withCount sum.**  Within a run (since the latest effective `start()`, no `reset()`), when the
    function is called at clock time `T`, the counts passed so far in this run add up to the number
    of grid boundaries `starttime + k*interval ≤ T` (`k ≥ 0` if the run began with an immediate call,
    else `k ≥ 1`). -/
theorem withCount_sum_eq_boundaries_elapsed (wc : Bool) (script : List Beh) (ops : List Op) (op : Op)
    (T c : Int) (h : HistOk (init wc script) ops) (hop : OpOk (after wc script ops) op)
    (hev : Ev.call T (some c) ∈ (step (after wc script ops) op).2)
    (hres : (gstep (tally wc script ops) op).resets = false) :
    (gstep (tally wc script ops) op).sum =
      (T - (step (after wc script ops) op).1.starttime) / (step (after wc script ops) op).1.interval +
        (if (step (after wc script ops) op).1.runAtStart then 1 else 0) := by
  have hg := tally_inv wc script ops h
  have hts := tally_s wc script ops
  rw [← hts] at hop hev ⊢
  generalize tally wc script ops = g at *
  have hg' := gstep_inv g op hg hop
  rcases step_kind _ op hg.inv hop with q | ⟨s1, cc⟩
  · have := q.nocall _ hev; simp [isCall] at this
  · have hf := callOp_frame s1 cc.pre
    obtain ⟨f1, f2, f3, f4, f5, f6, f7⟩ := hf
    rw [cc.eq] at hev
    have he : Ev.call T (some c) = evCall s1 := by
      rcases f7 with ⟨e', _⟩ | ⟨b, e', _⟩ <;> rw [e'] at hev
      · simpa using hev
      · rcases List.mem_cons.1 hev with r | r
        · exact r
        · simp at r
    unfold evCall at he
    by_cases hw : s1.withCount = true
    · rw [if_pos hw] at he
      injection he with hT _
      have hs : (gstep g op).s = (callOp s1).1 := by simp only [gstep]; rw [cc.eq]
      have hw' : (gstep g op).s.withCount = true := by rw [hs, f2]; exact hw
      obtain ⟨e1, _⟩ := hg'.sum hw' hres
      rw [e1]
      have hrl : (callOp s1).1.realLastTime = some s1.now := by rw [f6, if_pos hw]
      rw [cc.eq]
      simp only [passed, hs, hrl, ras01, hT]
    · rw [if_neg hw] at he; injection he with _ h2; cases h2

/-- **start()'s Deferred fires exactly once.**  It is unfired exactly while the loop is running or
    an invocation is in flight; once the run is over (stopped or failed, last Deferred settled) it
    has fired exactly once — never twice, never zero times. -/
theorem start_deferred_fires_once (wc : Bool) (script : List Beh) (ops : List Op)
    (h : HistOk (init wc script) ops) :
    (tally wc script ops).fires ≤ 1 ∧
    ((after wc script ops).running = true ∨ (after wc script ops).inflight = true →
        (tally wc script ops).fires = 0) ∧
    ((tally wc script ops).begun = true → (after wc script ops).running = false →
        (after wc script ops).inflight = false → (tally wc script ops).fires = 1) := by
  have hg := tally_inv wc script ops h
  have hts := tally_s wc script ops
  rw [← hts]
  generalize tally wc script ops = g at *
  have hf := hg.fire
  have hd := hg.inv.idef
  refine ⟨?_, ?_, ?_⟩
  · rw [hf]; split <;> omega
  · intro hro
    have : g.s.deferred = true := by rw [hd]; rcases hro with r | r <;> simp [r]
    rw [hf, this]; simp
  · intro hb hr hi
    have : g.s.deferred = false := by rw [hd, hr, hi]; rfl
    rw [hf, hb, this]; simp

/-- **Nothing happens after the end.**  Once start()'s Deferred has fired (or before any start),
    no operation other than an effective `start()` calls the function or fires a Deferred. -/
theorem no_call_after_stop_or_failure (wc : Bool) (script : List Beh) (ops : List Op) (op : Op)
    (h : HistOk (init wc script) ops) (hop : OpOk (after wc script ops) op)
    (hdone : (after wc script ops).running = false) (hfl : (after wc script ops).inflight = false)
    (hns : fresh (after wc script ops) op = false) :
    ∀ e ∈ (step (after wc script ops) op).2, isCall e = false ∧ isFired e = false := by
  have hinv := after_inv wc script ops h
  generalize after wc script ops = s at *
  have hd : s.deferred = false := by rw [hinv.idef, hdone, hfl]; rfl
  rcases step_kind _ op hinv hop with q | ⟨s1, c⟩
  · intro e he
    refine ⟨q.nocall e he, ?_⟩
    have hfz := q.fired
    rw [hns, hd] at hfz
    simp only [Bool.or_false, Bool.false_and, Bool.false_eq_true, if_false] at hfz
    have : (step s op).2.filter isFired = [] := List.length_eq_zero_iff.1 hfz
    have := List.filter_eq_nil_iff.1 this e he
    simpa using this
  · rcases c.why with ⟨a, t, rfl, _, hc, _, rfl⟩ | ⟨i, rfl, hr, hi, rfl⟩
    · have := (hinv.icall t hc).1; rw [hdone] at this; cases this
    · simp [fresh, hr, hi] at hns

/-- **stop() ends the run.**  With a call pending, `stop()` cancels it and fires start()'s Deferred
    at once; with an invocation in flight it only clears `running`, and the Deferred fires when that
    invocation's Deferred settles (callback or errback). -/
theorem stop_fires_deferred (wc : Bool) (script : List Beh) (ops : List Op)
    (h : HistOk (init wc script) ops) (hr : (after wc script ops).running = true) :
    ((after wc script ops).inflight = false →
      (step (after wc script ops) .stop).2 = [.fired true] ∧
      (step (after wc script ops) .stop).1.call = none ∧
      (step (after wc script ops) .stop).1.running = false) ∧
    ((after wc script ops).inflight = true →
      (step (after wc script ops) .stop).2 = [] ∧
      (step (step (after wc script ops) .stop).1 .fire).2 = [.fired true] ∧
      (step (step (after wc script ops) .stop).1 .fail).2 = [.fired false]) := by
  have hinv := after_inv wc script ops h
  generalize after wc script ops = s at *
  have hd : s.deferred = true := by rw [hinv.idef, hr]; rfl
  constructor
  · intro hf
    have := hinv.irun hr hf
    cases hc : s.call with
    | none => simp [hc] at this
    | some t => simp [step, stop, hr, hc]
  · intro hf
    have hc : s.call = none := by
      cases hc : s.call with
      | none => rfl
      | some t => have := (hinv.icall t hc).2.1; rw [hf] at this; cases this
    simp [step, stop, hr, hc, fire, fail, hf, cb, eb, hd]

/-- **A failure ends the run.**  An errback of the in-flight Deferred fires start()'s Deferred with
    the failure and clears `running`; no call is left pending. -/
theorem failure_fires_deferred (wc : Bool) (script : List Beh) (ops : List Op)
    (h : HistOk (init wc script) ops) (hf : (after wc script ops).inflight = true) :
    (step (after wc script ops) .fail).2 = [.fired false] ∧
    (step (after wc script ops) .fail).1.running = false ∧
    (step (after wc script ops) .fail).1.call = none ∧
    (step (after wc script ops) .fail).1.inflight = false := by
  have hinv := after_inv wc script ops h
  generalize after wc script ops = s at *
  have hd : s.deferred = true := by rw [hinv.idef, hf]; simp
  have hc : s.call = none := by
    cases hc : s.call with
    | none => rfl
    | some t => have := (hinv.icall t hc).2.1; rw [hf] at this; cases this
  simp [step, fail, hf, eb, hd, hc]

/-- **Headline.**  For every script of the looped function, every well-formed history and every next
    operation: no overlap, at most one call per operation, the pending call sits on the first boundary
    strictly after the current time, withCount never swallows a call, and start()'s Deferred has fired
    at most once — exactly once when the run is over. -/
theorem looping_call_cadence (wc : Bool) (script : List Beh) (ops : List Op) (op : Op)
    (h : HistOk (init wc script) ops) (hop : OpOk (after wc script ops) op) :
    ((after wc script ops).inflight = true → ∀ e ∈ (step (after wc script ops) op).2, isCall e = false) ∧
    callsOf (step (after wc script ops) op).2 ≤ 1 ∧
    (∀ t, (after wc script ops).call = some t →
        t = nextBoundary (after wc script ops).starttime (after wc script ops).interval (after wc script ops).now ∧
        (after wc script ops).now < t) ∧
    ((after wc script ops).running = true → (after wc script ops).inflight = false →
        (after wc script ops).call.isSome = true) ∧
    (∀ e ∈ (step (after wc script ops) op).2, isSkip e = false) ∧
    (tally wc script ops).fires = (if (tally wc script ops).begun && !((after wc script ops).running || (after wc script ops).inflight) then 1 else 0) := by
  have hinv := after_inv wc script ops h
  refine ⟨no_overlap wc script ops op h hop, at_most_one_call_per_op wc script ops op h hop, ?_, hinv.irun,
    fun e he => (withCount_never_skips wc script ops op h hop e he).1, ?_⟩
  · intro t ht
    exact ⟨(hinv.icall t ht).2.2, hinv.call_gt ht⟩
  · have hg := tally_inv wc script ops h
    have := hg.fire
    rw [tally_s, hinv.idef] at this
    exact this

/-! ## non-vacuity: concrete histories -/

/-- interval 4, immediate call; sub-interval steps; the second call returns a Deferred that stays
    unfired over two boundaries (8, 12) and fires at 13; the third call comes at 16 with count 3. -/
def exOps : List Op := [.start 4 true, .advance 3, .advance 1, .advance 9, .fire, .advance 3]
def exScript : List Beh := [.ret, .defer, .ret]

example : HistOk (init true exScript) exOps := by decide
example : (run (init true exScript) exOps).2 =
    [[.call 0 (some 1)], [], [.call 4 (some 1)], [], [], [.call 16 (some 3)]] := by decide
-- no_overlap: in flight after the second call, the 9-tick jump over two boundaries calls nothing
example : (after true exScript (exOps.take 3)).inflight = true ∧
    (step (after true exScript (exOps.take 3)) (.advance 9)).2 = [] := by decide
-- cadence: completion at 13 schedules 16 = 0 + (13/4 + 1)*4, not 13 + 4
example : (after true exScript (exOps.take 5)).call = some 16 ∧ (after true exScript (exOps.take 5)).now = 13 := by decide
-- pending_call_persists / calls_only_when_due / due_call_happens
example : (step (after true exScript (exOps.take 5)) (.advance 2)).1.call = some 16 ∧
    (step (after true exScript (exOps.take 5)) (.advance 2)).2 = [] ∧
    (step (after true exScript (exOps.take 5)) (.advance 40)).2 = [.call 53 (some 12)] := by decide
-- withCount sum: counts 1 + 1 + 3 = 5 = 16/4 + 1 boundaries (0, 4, 8, 12, 16)
example : (tally true exScript exOps).sum = 5 ∧ (tally true exScript exOps).resets = false ∧
    (16 - (after true exScript exOps).starttime) / (after true exScript exOps).interval + 1 = 5 := by decide
-- start Deferred: stop with a call pending fires it once; a later advance calls nothing
example : (tally true exScript (exOps ++ [.stop, .advance 100])).fires = 1 ∧
    (run (init true exScript) (exOps ++ [.stop, .advance 100])).2.drop 6 = [[.fired true], []] := by decide
-- failure: the function raises on the second call; stop in flight; restart afterwards counts afresh
example : (run (init true [.ret, .raise]) [.start 2 false, .advance 2, .advance 5, .advance 9, .start 2 true]).2 =
    [[], [.call 2 (some 1)], [.call 7 (some 2), .fired false], [], [.call 16 (some 1)]] := by decide
example : HistOk (init false [.defer]) [.start 2 true, .stop, .advance 5, .fire, .advance 5] ∧
    (run (init false [.defer]) [.start 2 true, .stop, .advance 5, .fire, .advance 5]).2 =
      [[.call 0 none], [], [], [.fired true], []] := by decide
example : (step (after false [.defer] [.start 2 true, .advance 5]) .fail).2 = [.fired false] := by decide

/-- The unrepaired `start()` (which left `_realLastTime` alone) for comparison: restarting a
    withCount loop within one interval of its last call computed `count = 0` and swallowed the
    immediate call — the witness the check found on the original tree. -/
def startUnrepaired (s : St) (interval : Int) (now : Bool) : St × List Ev :=
  if s.running then (s, [.assertion]) else
  if interval < 0 then (s, [.valueError]) else
  let s := { s with running := true, deferred := true, starttime := s.now,
                    interval := interval, runAtStart := now }
  if now then callOp s else (scheduleFrom s s.starttime, [])

theorem unrepaired_restart_counterexample :
    (startUnrepaired (after true [] [.start 1 true, .stop]) 1 true).2 = [.skip 0] ∧
    (step (after true [] [.start 1 true, .stop]) (.start 1 true)).2 = [.call 0 (some 1)] := by decide

/-! # Re-entrancy: callbacks of start()'s Deferred acting on the LoopingCall from inside the firing

The second half of the model (`stopK … stepK`, `fireStart`, `stepR`, `runR`) transcribes the same code with the
application's callback on start()'s Deferred run synchronously at the three firing sites.  Below:
* frame lemmas (the plain operations neither read nor write the waiting callbacks),
* `stepK_eq_splice` — tail position: the firing is the last effect of every operation,
* `stepR_flat`, `reentrant_history_is_plain` — every re-entrant history is a well-formed plain history,
* `looping_call_cadence_reentrant` and the `reentrant_*` theorems — the property over re-entrant histories.
-/

/-- the same LoopingCall with other callbacks waiting on start()'s Deferred -/
def withR (s : St) (r : List (List ROp)) (o : Bool) : St := { s with reactions := r, outside := o }

def lift (x : St × List Ev) (r : List (List ROp)) (o : Bool) : St × List Ev := (withR x.1 r o, x.2)

theorem stop_frame (s : St) (r o) : stop (withR s r o) = lift (stop s) r o := by
  unfold stop lift
  cases hr : s.running <;> cases hc : s.call <;> simp [withR, hr, hc]

theorem scheduleFrom_frame (s : St) (w : Int) (r o) : scheduleFrom (withR s r o) w = withR (scheduleFrom s w) r o := by
  simp [scheduleFrom, withR, howLong]

theorem reset_frame (s : St) (r o) : reset (withR s r o) = lift (reset s) r o := by
  unfold reset lift
  cases hr : s.running <;> cases hc : s.call <;> simp [withR, hr, hc, scheduleFrom, howLong]

theorem userCall_frame (s : St) (r o) : userCall (withR s r o) = (withR (userCall s).1 r o, (userCall s).2) := by
  unfold userCall
  cases hs : s.script with
  | nil => simp [withR, hs]
  | cons b t =>
    cases b <;> simp [withR, hs]
    all_goals (have := stop_frame { s with script := t } r o; simp [withR, lift] at this; simp [this])

theorem counter_frame (s : St) (r o) : counter (withR s r o) = (withR (counter s).1 r o, (counter s).2) := by
  unfold counter
  by_cases h : (s.interval == 0) = true
  · simp [withR, h]
  · have hc : intervalOf (withR s r o) (withR s r o).now - intervalOf (withR s r o) (lastTime (withR s r o)) =
        intervalOf s s.now - intervalOf s (lastTime s) := rfl
    simp only [hc]
    have h' : ((withR s r o).interval == 0) = (s.interval == 0) := rfl
    rw [h']
    simp only [h]
    by_cases hlt : intervalOf s s.now - intervalOf s (lastTime s) > 0
    · simp only [hlt, if_true]; rfl
    · simp only [hlt, if_false]; rfl

theorem cb_frame (s : St) (r o) : cb (withR s r o) = lift (cb s) r o := by
  unfold cb lift
  cases hr : s.running <;> cases hd : s.deferred <;> simp [withR, hr, hd, scheduleFrom, howLong]

theorem eb_frame (s : St) (r o) : eb (withR s r o) = lift (eb s) r o := by
  unfold eb lift
  cases hd : s.deferred <;> simp [withR, hd]

theorem finish_frame (s : St) (evs) (res : Res) (r o) : finish (withR s r o) evs res = lift (finish s evs res) r o := by
  cases res <;> simp [finish, cb_frame, eb_frame, lift]

theorem callOp_frame_r (s : St) (r o) : callOp (withR s r o) = lift (callOp s) r o := by
  unfold callOp
  have e1 : ({ withR s r o with call := none } : St) = withR { s with call := none } r o := rfl
  simp only [e1]
  have e2 : (withR s r o).withCount = s.withCount := rfl
  have e3 : (withR s r o).now = s.now := rfl
  rw [e2, e3]
  cases hw : s.withCount
  · simp only [Bool.false_eq_true, if_false]
    rw [userCall_frame, finish_frame]
  · simp only [if_true]
    rw [counter_frame]
    generalize counter _ = cc
    obtain ⟨s1, c⟩ := cc
    cases c with
    | none => show finish _ _ _ = _; rw [finish_frame]; rfl
    | some c => show finish _ _ _ = _; rw [userCall_frame, finish_frame]; rfl

theorem start_frame (s : St) (i n) (r o) : start (withR s r o) i n = lift (start s i n) r o := by
  unfold start
  have e2 : (withR s r o).running = s.running := rfl
  rw [e2]
  cases hr : s.running
  · simp only [Bool.false_eq_true, if_false]
    by_cases hi : i < 0
    · simp [hi, lift]
    · simp only [hi, if_false]
      cases n
      · simp [lift, withR, scheduleFrom, howLong]
      · simp only [if_true]
        exact callOp_frame_r (started s i true) r o
  · simp [lift]

theorem runDue_frame (n : Nat) (s : St) (r o) : runDue n (withR s r o) = lift (runDue n s) r o := by
  induction n generalizing s with
  | zero => rfl
  | succ n ih =>
    unfold runDue
    have e : (withR s r o).call = s.call := rfl
    have e' : (withR s r o).now = s.now := rfl
    rw [e, e']
    cases hc : s.call with
    | none => rfl
    | some t =>
      simp only []
      by_cases h : t ≤ s.now
      · simp only [h, if_true]
        rw [callOp_frame_r]
        simp only [lift]
        rw [ih]
        simp [lift]
      · simp [h, lift]

theorem step_frame (s : St) (op : Op) (r o) : step (withR s r o) op = lift (step s op) r o := by
  cases op with
  | start i n => exact start_frame s i n r o
  | advance a => exact runDue_frame _ { s with now := s.now + a } r o
  | fire =>
    simp only [step, fire]
    have e : (withR s r o).inflight = s.inflight := rfl
    rw [e]; cases hf : s.inflight
    · simp [lift]
    · simp only [if_true]; exact cb_frame { s with inflight := false } r o
  | fail =>
    simp only [step, fail]
    have e : (withR s r o).inflight = s.inflight := rfl
    rw [e]; cases hf : s.inflight
    · simp [lift]
    · simp only [if_true]; exact eb_frame { s with inflight := false } r o
  | stop => exact stop_frame s r o
  | reset => exact reset_frame s r o


/-- replace a trailing `fired ok` of a plain step by what the continuation does at that point -/
def splice (k : Cont) (r : St × List Ev) : St × List Ev :=
  match r.2.getLast? with
  | some (.fired ok) => ((k r.1 ok).1, r.2.dropLast ++ (k r.1 ok).2)
  | _ => r

theorem splice_nil (k : Cont) (s : St) : splice k (s, []) = (s, []) := rfl

theorem splice_one_fired (k : Cont) (s : St) (ok : Bool) : splice k (s, [.fired ok]) = k s ok := by
  simp [splice]

theorem splice_cons (k : Cont) (s : St) (e : Ev) (es : List Ev) (he : isFired e = false) :
    splice k (s, e :: es) = ((splice k (s, es)).1, e :: (splice k (s, es)).2) := by
  cases es with
  | nil => cases e <;> simp [splice, isFired] at *
  | cons e' t =>
    unfold splice
    simp only [List.getLast?_cons_cons, List.dropLast_cons_cons]
    split <;> simp

theorem splice_cases (k : Cont) (r : St × List Ev) :
    splice k r = r ∨ ∃ pre ok, r.2 = pre ++ [.fired ok] ∧ splice k r = ((k r.1 ok).1, pre ++ (k r.1 ok).2) := by
  unfold splice
  split
  · rename_i ok h
    right
    obtain ⟨ys, hy⟩ := List.getLast?_eq_some_iff.1 h
    exact ⟨ys, ok, hy, by rw [hy]; simp⟩
  · left; rfl

theorem stopK_eq (k : Cont) (s : St) : stopK k s = splice k (stop s) := by
  unfold stopK stop
  cases hr : s.running <;> cases hc : s.call <;> simp [splice]

theorem userCallK_eq (k : Cont) (s : St) (hc : s.call = none) : userCallK k s = userCall s := by
  unfold userCallK userCall
  cases hs : s.script with
  | nil => rfl
  | cons b t =>
    have : stopK k { s with script := t } = stop { s with script := t } := by
      unfold stopK stop; cases hr : s.running <;> simp [hc]
    cases b <;> simp [this]

theorem cbK_eq (k : Cont) (s : St) : cbK k s = splice k (cb s) := by
  unfold cbK cb
  cases hr : s.running <;> cases hd : s.deferred <;> simp [splice]

theorem ebK_eq (k : Cont) (s : St) : ebK k s = splice k (eb s) := by
  unfold ebK eb
  cases hd : s.deferred <;> simp [splice]

theorem finishK_eq (k : Cont) (s : St) (e : Ev) (res : Res) (he : isFired e = false) :
    finishK k s [e] res = splice k (finish s [e] res) := by
  cases res with
  | value =>
    simp only [finishK, finish, cbK_eq, List.singleton_append]
    rw [splice_cons k _ e _ he]
  | failure =>
    simp only [finishK, finish, ebK_eq, List.singleton_append]
    rw [splice_cons k _ e _ he]
  | pending =>
    simp only [finishK, finish]
    rw [splice_cons k _ e _ he]; rfl

theorem counter_call (s : St) : (counter s).1.call = s.call := by
  unfold counter
  split
  · rfl
  · simp only []
    split <;> rfl

theorem callOpK_eq (k : Cont) (s : St) : callOpK k s = splice k (callOp s) := by
  unfold callOpK callOp
  cases hw : s.withCount
  · simp only [Bool.false_eq_true, if_false]
    rw [userCallK_eq k _ rfl]
    exact finishK_eq k _ (Ev.call s.now none) _ rfl
  · simp only [if_true]
    have hcc : ∀ x : St, x.call = none → (counter x).1.call = none := fun x hx => by rw [counter_call]; exact hx
    generalize hg : counter _ = cc
    have hcc : cc.1.call = none := by rw [← hg]; exact hcc _ rfl
    obtain ⟨s1, c⟩ := cc
    cases c with
    | none => exact finishK_eq k s1 (Ev.skip s1.now) _ rfl
    | some c =>
      show finishK k _ _ _ = splice k (finish _ _ _)
      rw [userCallK_eq k s1 hcc]
      exact finishK_eq k _ (Ev.call s1.now (some c)) _ rfl

theorem startK_eq (k : Cont) (s : St) (i : Int) (n : Bool) : startK k s i n = splice k (start s i n) := by
  unfold startK start
  cases hr : s.running
  · simp only [Bool.false_eq_true, if_false]
    by_cases hi : i < 0
    · simp [hi, splice]
    · simp only [hi, if_false]
      cases n
      · simp [splice]
      · simp only [if_true]; exact callOpK_eq k _
  · simp [splice]

theorem fireK_eq (k : Cont) (s : St) : fireK k s = splice k (fire s) := by
  unfold fireK fire
  cases hf : s.inflight
  · simp [splice]
  · simp only [if_true]; exact cbK_eq k _

theorem failK_eq (k : Cont) (s : St) : failK k s = splice k (fail s) := by
  unfold failK fail
  cases hf : s.inflight
  · simp [splice]
  · simp only [if_true]; exact ebK_eq k _

/-- the continuation keeps the state invariant (true of `k0` and of every `fireStart n`) -/
def KGood (k : Cont) : Prop := ∀ s ok, Inv s → Inv (k s ok).1

theorem splice_inv (k : Cont) (hk : KGood k) (r : St × List Ev) (h : Inv r.1) : Inv (splice k r).1 := by
  rcases splice_cases k r with e | ⟨pre, ok, _, e⟩ <;> rw [e]
  · exact h
  · exact hk _ _ h

theorem runDueK_idle (k : Cont) (n : Nat) (s : St) (h : ∀ t, s.call = some t → s.now < t) :
    runDueK k n s = (s, []) := by
  cases n with
  | zero => rfl
  | succ n =>
    unfold runDueK
    cases hc : s.call with
    | none => rfl
    | some t =>
      have := h t hc
      simp only []
      rw [if_neg (by omega)]

theorem advanceK_eq (k : Cont) (hk : KGood k) (s : St) (a : Int) (hi : Inv s) (ha : 0 ≤ a) :
    advanceK k s a = splice k (advance s a) := by
  by_cases hdue : ∃ t, s.call = some t ∧ t ≤ s.now + a
  · obtain ⟨t, hc, hdue⟩ := hdue
    rw [advance_due s a t hi ha hc hdue]
    have hp := pre_of_due s a t hi ha hc hdue
    have hi' : Inv (callOpK k (tick s a)).1 := by
      rw [callOpK_eq]; exact splice_inv k hk _ (callOp_inv _ hp)
    unfold advanceK advanceFuel
    show runDueK k 3 (tick s a) = _
    unfold runDueK
    have hc' : (tick s a).call = some t := hc
    rw [hc']
    simp only []
    rw [if_pos (by simpa [tick] using hdue)]
    rw [runDueK_idle k 2 _ (fun t ht => hi'.call_gt ht)]
    simp [callOpK_eq]
  · have hidle : ∀ t, s.call = some t → s.now + a < t := by
      intro t ht
      by_cases h : t ≤ s.now + a
      · exact absurd ⟨t, ht, h⟩ hdue
      · omega
    rw [advance_idle s a hidle]
    unfold advanceK
    rw [runDueK_idle k _ _ hidle]
    rfl

/-- **Tail position.**  Every operation of the re-entrant transcription is the plain operation with the firing of
    start()'s Deferred — always its LAST effect — replaced by the continuation: nothing in `stop()`, `cb`, `eb`,
    `__call__`, `start()` or the `Clock.advance` loop touches the LoopingCall after `d.callback` / `d.errback`
    returned. -/
theorem stepK_eq_splice (k : Cont) (hk : KGood k) (s : St) (op : Op) (hi : Inv s) (hok : OpOk s op) :
    stepK k s op = splice k (step s op) := by
  cases op with
  | start i n => exact startK_eq k s i n
  | advance a => exact advanceK_eq k hk s a hi hok
  | fire => exact fireK_eq k s
  | fail => exact failK_eq k s
  | stop => exact stopK_eq k s
  | reset =>
    simp only [stepK, step]
    unfold reset splice
    cases hr : s.running <;> cases hc : s.call <;> simp

theorem k0_good : KGood k0 := fun _ _ h => h

/-- with nobody listening the re-entrant transcription IS the plain one -/
theorem stepK_k0 (s : St) (op : Op) (hi : Inv s) (hok : OpOk s op) : stepK k0 s op = step s op := by
  rw [stepK_eq_splice k0 k0_good s op hi hok]
  rcases splice_cases k0 (step s op) with e | ⟨pre, ok, h, e⟩ <;> rw [e]
  simp only [k0]
  rw [← h]


/-! ## re-entrant histories are plain histories -/

theorem inv_withR (s : St) (r o) (h : Inv s) : Inv (withR s r o) :=
  ⟨h.ipos, h.idef, h.icall, h.irun, h.ist, h.ilast⟩

theorem withR_withR (s : St) (r o r' o') : withR (withR s r o) r' o' = withR s r' o' := rfl
theorem withR_self (s : St) : withR s s.reactions s.outside = s := rfl

theorem run_frame (s : St) (ops : List Op) (r o) :
    run (withR s r o) ops = (withR (run s ops).1 r o, (run s ops).2) := by
  induction ops generalizing s with
  | nil => rfl
  | cons op ops ih =>
    simp only [run]
    rw [step_frame]
    simp only [lift]
    rw [ih]

theorem opOk_frame (s : St) (op : Op) (r o) : OpOk (withR s r o) op ↔ OpOk s op := by
  cases op <;> exact Iff.rfl

theorem histOk_frame (s : St) (ops : List Op) (r o) : HistOk (withR s r o) ops ↔ HistOk s ops := by
  induction ops generalizing s with
  | nil => exact Iff.rfl
  | cons op ops ih =>
    simp only [HistOk]
    rw [step_frame, opOk_frame]
    simp only [lift]
    rw [ih]

theorem run_append (s : St) (a b : List Op) :
    run s (a ++ b) = ((run (run s a).1 b).1, (run s a).2 ++ (run (run s a).1 b).2) := by
  induction a generalizing s with
  | nil => rfl
  | cons op a ih =>
    simp only [List.cons_append, run]
    rw [ih]

theorem histOk_append (s : St) (a b : List Op) :
    HistOk s (a ++ b) ↔ HistOk s a ∧ HistOk (run s a).1 b := by
  induction a generalizing s with
  | nil => simp [HistOk, run]
  | cons op a ih =>
    simp only [List.cons_append, HistOk, run]
    rw [ih, and_assoc]

/-- `x` (a state and the events that led to it from `s`) is what some well-formed PLAIN history produces from `s`,
    up to the callbacks still waiting -/
def Flat (s : St) (x : St × List Ev) : Prop :=
  ∃ ops r o, HistOk s ops ∧ x = (withR (run s ops).1 r o, (run s ops).2.flatten)

theorem Flat.frame {s : St} {r o} {x} (h : Flat (withR s r o) x) : Flat s x := by
  obtain ⟨ops, r', o', h1, h2⟩ := h
  refine ⟨ops, r', o', (histOk_frame s ops r o).1 h1, ?_⟩
  rw [h2, run_frame]; rfl

theorem Flat.nil (s : St) (r o) : Flat s (withR s r o, []) := ⟨[], r, o, trivial, rfl⟩

theorem Flat.one (s : St) (op : Op) (hok : OpOk s op) : Flat s (step s op) :=
  ⟨[op], (step s op).1.reactions, (step s op).1.outside, ⟨hok, trivial⟩, by simp [run]; rfl⟩

theorem Flat.seq {s : St} {x y : St × List Ev} (hx : Flat s x) (hy : Flat x.1 y) : Flat s (y.1, x.2 ++ y.2) := by
  obtain ⟨a, r, o, ha, ea⟩ := hx
  rw [ea] at hy
  obtain ⟨b, r', o', hb, eb⟩ := Flat.frame hy
  refine ⟨a ++ b, r', o', (histOk_append s a b).2 ⟨ha, hb⟩, ?_⟩
  rw [run_append, ea, eb]
  simp

theorem Flat.inv {s : St} {x} (hi : Inv s) (h : Flat s x) : Inv x.1 := by
  obtain ⟨ops, r, o, h1, h2⟩ := h
  rw [h2]
  exact inv_withR _ _ _ (run_inv s ops hi h1)

/-- what the theorems need of a continuation: it keeps the invariant, and what it does is a plain history -/
def KFlat (k : Cont) : Prop :=
  ∀ s ok, Inv s → ∃ x, Flat s x ∧ k s ok = (x.1, .fired ok :: x.2)

theorem KFlat.good {k : Cont} (h : KFlat k) : KGood k := by
  intro s ok hi
  obtain ⟨x, hx, e⟩ := h s ok hi
  rw [e]; exact (Flat.inv hi hx : Inv x.1)

theorem stepK_flat (k : Cont) (hk : KFlat k) (s : St) (op : Op) (hi : Inv s) (hok : OpOk s op) :
    Flat s (stepK k s op) := by
  rw [stepK_eq_splice k hk.good s op hi hok]
  rcases splice_cases k (step s op) with e | ⟨pre, ok, h, e⟩ <;> rw [e]
  · exact Flat.one s op hok
  · obtain ⟨x, hx, ek⟩ := hk (step s op).1 ok (step_inv s op hi hok)
    rw [ek]
    have := Flat.seq (Flat.one s op hok) hx
    rw [h] at this
    simpa using this

/-- … a plain history that BEGINS with `op` -/
def FlatFrom (s : St) (op : Op) (x : St × List Ev) : Prop :=
  ∃ more r o, HistOk s (op :: more) ∧ x = (withR (run s (op :: more)).1 r o, (run s (op :: more)).2.flatten)

theorem FlatFrom.frame {s : St} {op : Op} {r o} {x} (h : FlatFrom (withR s r o) op x) : FlatFrom s op x := by
  obtain ⟨ops, r', o', h1, h2⟩ := h
  refine ⟨ops, r', o', (histOk_frame s _ r o).1 h1, ?_⟩
  rw [h2, run_frame]; rfl

theorem flatFrom_after_step (s : St) (op : Op) (hok : OpOk s op) (y : St × List Ev) (hy : Flat (step s op).1 y) :
    FlatFrom s op (y.1, (step s op).2 ++ y.2) := by
  obtain ⟨b, r, o, hb, eb⟩ := hy
  refine ⟨b, r, o, ⟨hok, hb⟩, ?_⟩
  rw [eb]; simp [run]

theorem stepK_flatFrom (k : Cont) (hk : KFlat k) (s : St) (op : Op) (hi : Inv s) (hok : OpOk s op) :
    FlatFrom s op (stepK k s op) := by
  rw [stepK_eq_splice k hk.good s op hi hok]
  rcases splice_cases k (step s op) with e | ⟨pre, ok, h, e⟩ <;> rw [e]
  · have := flatFrom_after_step s op hok _ (Flat.nil (step s op).1 (step s op).1.reactions (step s op).1.outside)
    simpa [withR_self] using this
  · obtain ⟨x, hx, ek⟩ := hk (step s op).1 ok (step_inv s op hi hok)
    rw [ek]
    have := flatFrom_after_step s op hok x hx
    rw [h] at this
    simpa using this

theorem rop_ok (s : St) (r : ROp) (h : r.ok s = true) : OpOk s r.toOp := by
  cases r with
  | start i n =>
    simp [ROp.ok] at h
    exact ⟨h.1, h.2⟩
  | stop => trivial
  | reset => trivial

theorem runReaction_flat (f : St → Op → St × List Ev)
    (hf : ∀ s op, Inv s → OpOk s op → Flat s (f s op)) (s : St) (rs : List ROp) (hi : Inv s) :
    Flat s (runReaction f s rs) := by
  induction rs generalizing s with
  | nil => exact Flat.nil s s.reactions s.outside
  | cons r rs ih =>
    unfold runReaction
    by_cases h : r.ok s = true
    · rw [if_pos h]
      have h1 := hf s r.toOp hi (rop_ok s r h)
      have h2 := ih (f s r.toOp).1 (h1.inv hi)
      exact Flat.seq h1 h2
    · rw [if_neg h]
      exact Flat.frame (ih (withR s s.reactions true) (inv_withR _ _ _ hi))

theorem fireStart_flat (n : Nat) : KFlat (fireStart n) := by
  induction n with
  | zero => intro s ok _; exact ⟨(s, []), Flat.nil s s.reactions s.outside, rfl⟩
  | succ n ih =>
    intro s ok hi
    unfold fireStart
    cases hr : s.reactions with
    | nil => exact ⟨(s, []), Flat.nil s s.reactions s.outside, rfl⟩
    | cons r rs =>
      refine ⟨runReaction (stepK (fireStart n)) (withR s rs s.outside) r, ?_, rfl⟩
      exact Flat.frame (runReaction_flat _ (fun s op => stepK_flat _ ih s op) _ r (inv_withR _ _ _ hi))

/-- **One re-entrant operation = a plain history.**  A top-level operation whose firing(s) of start()'s Deferred
    run the application's callbacks synchronously (restarting, stopping, resetting the loop from inside
    `d.callback`, nested to any depth) ends in the state, and produces the events, of a well-formed plain history
    that begins with the same operation. -/
theorem stepR_flat (s : St) (op : Op) (hi : Inv s) (hok : OpOk s op) : Flat s (stepR s op) :=
  stepK_flat _ (fireStart_flat _) s op hi hok

theorem stepR_inv (s : St) (op : Op) (hi : Inv s) (hok : OpOk s op) : Inv (stepR s op).1 :=
  (stepR_flat s op hi hok).inv hi

/-! ## the property over re-entrant histories -/

/-- well-formedness of a history whose firings run the application's callbacks: the same decidable condition on
    every top-level operation (a `start` made by a callback with interval 0 or while the function's Deferred is
    unfired is skipped and recorded in `St.outside`) -/
def HistOkR : St → List Op → Prop
  | _, [] => True
  | s, op :: ops => OpOk s op ∧ HistOkR (stepR s op).1 ops

instance : ∀ (s : St) (ops : List Op), Decidable (HistOkR s ops)
  | _, [] => isTrue trivial
  | s, op :: ops => by
    unfold HistOkR
    have := instDecidableHistOkR (stepR s op).1 ops
    infer_instance

/-- the state after a re-entrant history on a fresh LoopingCall whose start() Deferreds carry the callbacks `reacts` -/
def afterR (wc : Bool) (script : List Beh) (reacts : List (List ROp)) (ops : List Op) : St :=
  (runR (initR wc script reacts) ops).1

theorem runR_flat (s : St) (ops : List Op) (hi : Inv s) (h : HistOkR s ops) :
    Flat s ((runR s ops).1, (runR s ops).2.flatten) := by
  induction ops generalizing s with
  | nil => exact Flat.nil s s.reactions s.outside
  | cons op ops ih =>
    obtain ⟨h1, h2⟩ := h
    have f1 := stepR_flat s op hi h1
    have f2 := ih (stepR s op).1 (f1.inv hi) h2
    have := Flat.seq f1 f2
    simpa [runR] using this

theorem runR_inv (s : St) (ops : List Op) (hi : Inv s) (h : HistOkR s ops) : Inv (runR s ops).1 :=
  (runR_flat s ops hi h).inv hi

theorem afterR_inv (wc : Bool) (script : List Beh) (reacts : List (List ROp)) (ops : List Op)
    (h : HistOkR (initR wc script reacts) ops) : Inv (afterR wc script reacts ops) :=
  runR_inv _ _ (inv_withR (init wc script) reacts false (init_inv wc script)) h

/-- **Re-entrant histories are plain histories.**  Whatever the callbacks of start()'s Deferreds do to the
    LoopingCall from inside the firing (restart, stop, reset; nested), the state reached and the events observed
    are those of a well-formed history of the plain operations, in which every operation a callback made follows
    the operation whose firing ran it. -/
theorem reentrant_history_is_plain (wc : Bool) (script : List Beh) (reacts : List (List ROp)) (ops : List Op)
    (h : HistOkR (initR wc script reacts) ops) :
    ∃ ops' r o, HistOk (init wc script) ops' ∧
      afterR wc script reacts ops = withR (after wc script ops') r o ∧
      (runR (initR wc script reacts) ops).2.flatten = (run (init wc script) ops').2.flatten := by
  have hf : Flat (withR (init wc script) reacts false) _ :=
    runR_flat (initR wc script reacts) ops (inv_withR (init wc script) reacts false (init_inv wc script)) h
  obtain ⟨ops', r, o, h1, h2⟩ := Flat.frame hf
  refine ⟨ops', r, o, h1, ?_, ?_⟩
  · exact congrArg Prod.fst h2
  · exact congrArg Prod.snd h2

theorem histOk_prefix (s : St) (a b : List Op) (h : HistOk s (a ++ b)) : HistOk s a :=
  ((histOk_append s a b).1 h).1

theorem histOk_opOk (s : St) (a : List Op) (o : Op) (b : List Op) (h : HistOk s (a ++ o :: b)) :
    OpOk (run s a).1 o := ((histOk_append s a (o :: b)).1 h).2.1

/-- the conclusion of `looping_call_cadence` for the operation `op` made after the plain history `ops` -/
def Headline (wc : Bool) (script : List Beh) (ops : List Op) (op : Op) : Prop :=
    ((after wc script ops).inflight = true → ∀ e ∈ (step (after wc script ops) op).2, isCall e = false) ∧
    callsOf (step (after wc script ops) op).2 ≤ 1 ∧
    (∀ t, (after wc script ops).call = some t →
        t = nextBoundary (after wc script ops).starttime (after wc script ops).interval (after wc script ops).now ∧
        (after wc script ops).now < t) ∧
    ((after wc script ops).running = true → (after wc script ops).inflight = false →
        (after wc script ops).call.isSome = true) ∧
    (∀ e ∈ (step (after wc script ops) op).2, isSkip e = false) ∧
    (tally wc script ops).fires = (if (tally wc script ops).begun && !((after wc script ops).running || (after wc script ops).inflight) then 1 else 0)

/-- **Headline over re-entrant histories.**  For every script of the looped function, every script of callbacks on
    start()'s Deferreds, every well-formed re-entrant history and every next operation `op`: the history so far is a
    well-formed plain history `ops'`; the next operation, callbacks included, is the plain history `op :: more`
    continued from there (same events, same final state); and EVERY plain step of it — the operation itself and
    each operation a callback made, at whatever nesting depth — satisfies the headline: no overlap, at most one
    call, the pending call on the first boundary after the current time, withCount never swallows a call, and the
    Deferred of the LATEST effective `start()` (also one made from inside the previous Deferred's callback) has
    fired at most once — exactly once when that run is over. -/
theorem looping_call_cadence_reentrant (wc : Bool) (script : List Beh) (reacts : List (List ROp)) (ops : List Op)
    (op : Op) (h : HistOkR (initR wc script reacts) ops) (hop : OpOk (afterR wc script reacts ops) op) :
    ∃ ops' more r o r' o',
      HistOk (init wc script) (ops' ++ op :: more) ∧
      afterR wc script reacts ops = withR (after wc script ops') r o ∧
      (stepR (afterR wc script reacts ops) op).1 = withR (after wc script (ops' ++ op :: more)) r' o' ∧
      (stepR (afterR wc script reacts ops) op).2 = (run (after wc script ops') (op :: more)).2.flatten ∧
      ∀ pre o post, op :: more = pre ++ o :: post → Headline wc script (ops' ++ pre) o := by
  obtain ⟨ops', r, o, h1, h2, _⟩ := reentrant_history_is_plain wc script reacts ops h
  have hi := after_inv wc script ops' h1
  rw [h2] at hop ⊢
  have hop' : OpOk (after wc script ops') op := (opOk_frame _ op r o).1 hop
  obtain ⟨more, r', o', m1, m2⟩ :=
    FlatFrom.frame (stepK_flatFrom _ (fireStart_flat _) _ op (inv_withR _ r o hi) hop)
  have m2 : stepR (withR (after wc script ops') r o) op = _ := m2
  have hall : HistOk (init wc script) (ops' ++ op :: more) := (histOk_append _ ops' _).2 ⟨h1, m1⟩
  refine ⟨ops', more, r, o, r', o', hall, rfl, ?_, ?_, ?_⟩
  · rw [m2]
    show withR _ r' o' = withR (run (init wc script) (ops' ++ op :: more)).1 r' o'
    rw [run_append]; rfl
  · rw [m2]
  · intro pre o1 post e
    rw [e, ← List.append_assoc] at hall
    exact looping_call_cadence wc script (ops' ++ pre) o1 (histOk_prefix _ _ _ hall) (histOk_opOk _ _ _ _ hall)

theorem fireStart_head (n : Nat) (s : St) (ok : Bool) : ∃ tl, (fireStart n s ok).2 = .fired ok :: tl := by
  cases n with
  | zero => exact ⟨[], rfl⟩
  | succ n =>
    unfold fireStart
    cases s.reactions with
    | nil => exact ⟨[], rfl⟩
    | cons r rs => exact ⟨_, rfl⟩

/-- **Cadence over re-entrant histories**: as `next_call_on_first_boundary_after_completion`, for a loop that may
    have been (re)started from inside a callback of the previous run's start() Deferred. -/
theorem reentrant_next_call_on_first_boundary (wc : Bool) (script : List Beh) (reacts : List (List ROp))
    (ops : List Op) (h : HistOkR (initR wc script reacts) ops)
    (hr : (afterR wc script reacts ops).running = true) (hf : (afterR wc script reacts ops).inflight = false) :
    ∃ t, (afterR wc script reacts ops).call = some t ∧
      t = nextBoundary (afterR wc script reacts ops).starttime (afterR wc script reacts ops).interval
            (afterR wc script reacts ops).now ∧
      (afterR wc script reacts ops).now < t ∧
      t - (afterR wc script reacts ops).interval ≤ (afterR wc script reacts ops).now ∧
      ∀ k : Int, (afterR wc script reacts ops).now <
          (afterR wc script reacts ops).starttime + k * (afterR wc script reacts ops).interval →
        t ≤ (afterR wc script reacts ops).starttime + k * (afterR wc script reacts ops).interval := by
  have hinv := afterR_inv wc script reacts ops h
  generalize afterR wc script reacts ops = s at *
  have hd : s.deferred = true := by rw [hinv.idef, hr]; rfl
  have hI := hinv.ipos hd
  have hs := hinv.irun hr hf
  cases hc : s.call with
  | none => simp [hc] at hs
  | some t =>
    obtain ⟨_, _, he⟩ := hinv.icall t hc
    refine ⟨t, rfl, he, ?_, ?_, ?_⟩
    · rw [he]; exact nextBoundary_gt _ _ _ hI
    · rw [he]; exact nextBoundary_sub_le _ _ _ hI
    · intro k hk; rw [he]; exact nextBoundary_first _ _ _ k hI hk

/-- **stop() ends a run however it was started.**  After any re-entrant history in which the loop is running —
    in particular when this run was started from inside a callback of the PREVIOUS run's start() Deferred, while
    that Deferred was being fired by `stop()`, `cb` or `eb` — `stop()` does not raise and this run's own Deferred
    fires: at once (first event of the operation, before its callback acts) when no invocation is in flight;
    otherwise when the invocation's Deferred settles, with callback or errback accordingly. -/
theorem reentrant_stop_fires_deferred (wc : Bool) (script : List Beh) (reacts : List (List ROp)) (ops : List Op)
    (h : HistOkR (initR wc script reacts) ops) (hr : (afterR wc script reacts ops).running = true) :
    ((afterR wc script reacts ops).inflight = false →
      ∃ tl, (stepR (afterR wc script reacts ops) .stop).2 = .fired true :: tl) ∧
    ((afterR wc script reacts ops).inflight = true →
      (stepR (afterR wc script reacts ops) .stop).2 = [] ∧
      (∃ tl, (stepR (stepR (afterR wc script reacts ops) .stop).1 .fire).2 = .fired true :: tl) ∧
      (∃ tl, (stepR (stepR (afterR wc script reacts ops) .stop).1 .fail).2 = .fired false :: tl)) := by
  have hinv := afterR_inv wc script reacts ops h
  generalize afterR wc script reacts ops = s at *
  have hd : s.deferred = true := by rw [hinv.idef, hr]; rfl
  constructor
  · intro hf
    have := hinv.irun hr hf
    cases hc : s.call with
    | none => simp [hc] at this
    | some t =>
      have e : stepR s .stop = fireStart s.reactions.length { s with running := false, call := none, deferred := false } true := by
        simp [stepR, stepK, stopK, hr, hc]
      rw [e]; exact fireStart_head _ _ _
  · intro hf
    have hc : s.call = none := by
      cases hc : s.call with
      | none => rfl
      | some t => have := (hinv.icall t hc).2.1; rw [hf] at this; cases this
    have e : stepR s .stop = ({ s with running := false }, []) := by simp [stepR, stepK, stopK, hr, hc]
    rw [e]
    refine ⟨rfl, ?_, ?_⟩
    · have e2 : stepR { s with running := false } .fire =
          fireStart s.reactions.length { s with running := false, inflight := false, deferred := false } true := by
        simp [stepR, stepK, fireK, cbK, hf, hd]
      rw [e2]; exact fireStart_head _ _ _
    · have e2 : stepR { s with running := false } .fail =
          fireStart s.reactions.length { s with running := false, inflight := false, deferred := false } false := by
        simp [stepR, stepK, failK, ebK, hf, hd]
      rw [e2]; exact fireStart_head _ _ _

/-- **A failure ends a run however it was started**: the errback of the in-flight Deferred fires this run's start()
    Deferred with the failure, first thing. -/
theorem reentrant_failure_fires_deferred (wc : Bool) (script : List Beh) (reacts : List (List ROp)) (ops : List Op)
    (h : HistOkR (initR wc script reacts) ops) (hf : (afterR wc script reacts ops).inflight = true) :
    ∃ tl, (stepR (afterR wc script reacts ops) .fail).2 = .fired false :: tl := by
  have hinv := afterR_inv wc script reacts ops h
  generalize afterR wc script reacts ops = s at *
  have hd : s.deferred = true := by rw [hinv.idef, hf]; simp
  have e2 : stepR s .fail =
      fireStart s.reactions.length { s with running := false, inflight := false, deferred := false } false := by
    simp [stepR, stepK, failK, ebK, hf, hd]
  rw [e2]; exact fireStart_head _ _ _

/-! ### non-vacuity: the restart-on-failure and restart-on-stop patterns -/

/-- f fails on its second call; the errback of start()'s Deferred restarts the loop (interval 1, no immediate call)
    from inside the firing; the restarted loop keeps cadence and its own Deferred fires when it is stopped -/
def reOps : List Op := [.start 2 true, .advance 2, .advance 1, .advance 1, .stop, .advance 3]

example : HistOkR (initR false [.ret, .raise] [[.start 1 false]]) reOps := by decide
example : (runR (initR false [.ret, .raise] [[.start 1 false]]) reOps).2 =
    [[.call 0 none], [.call 2 none, .fired false], [.call 3 none], [.call 4 none], [.fired true], []] := by decide
-- the same events and state as the plain history with the restart written out after the failing advance
example : (run (init false [.ret, .raise]) [.start 2 true, .advance 2, .start 1 false, .advance 1, .advance 1, .stop, .advance 3]).2 =
    [[.call 0 none], [.call 2 none, .fired false], [], [.call 3 none], [.call 4 none], [.fired true], []] := by decide
/-- stop() while the call's Deferred is unfired; its callback restarts with an immediate call (withCount); then the
    restarted run fails: nested firing, second callback does nothing -/
example : (runR (initR true [.ret, .defer, .ret, .ret, .raise] [[.start 4 true], []])
      [.start 2 true, .advance 2, .advance 1, .stop, .advance 1, .fire, .advance 4, .advance 4, .advance 9]).2 =
    [[.call 0 (some 1)], [.call 2 (some 1)], [], [], [], [.fired true, .call 4 (some 1)], [.call 8 (some 1)],
     [.call 12 (some 1), .fired false], []] := by decide
/-- a chain of restarts inside one operation: every restarted run fails in its immediate call -/
example : (runR (initR false [.raise, .raise, .raise, .ret] [[.start 2 true], [.start 3 true], [.start 5 true]])
      [.start 1 true, .advance 5, .stop]).2 =
    [[.call 0 none, .fired false, .call 0 none, .fired false, .call 0 none, .fired false, .call 0 none],
     [.call 5 none], [.fired true]] := by decide
/-- a callback that restarts while the function's Deferred is unfired leaves the histories considered -/
example : (runR (initR false [.stopDefer, .defer] [[.start 1 true, .stop, .start 1 true]])
      [.start 1 true, .fire]).1.outside = true := by decide

/-! ### fuel of `fireStart` -/

theorem step_reactions (s : St) (op : Op) : (step s op).1.reactions = s.reactions := by
  have h := congrArg (fun x => x.1.reactions) (step_frame s op s.reactions s.outside)
  exact h

/-- two continuations agree on every invariant state with at most `L` callbacks waiting, and do not add callbacks -/
def KAgree (L : Nat) (k k' : Cont) : Prop :=
  ∀ s ok, Inv s → s.reactions.length ≤ L → k s ok = k' s ok ∧ (k s ok).1.reactions.length ≤ s.reactions.length

theorem stepK_agree (L : Nat) (k k' : Cont) (hk : KGood k) (hk' : KGood k') (ha : KAgree L k k')
    (s : St) (op : Op) (hi : Inv s) (hok : OpOk s op) (hl : s.reactions.length ≤ L) :
    stepK k s op = stepK k' s op ∧ (stepK k s op).1.reactions.length ≤ s.reactions.length := by
  rw [stepK_eq_splice k hk s op hi hok, stepK_eq_splice k' hk' s op hi hok]
  have hi' := step_inv s op hi hok
  have hr := step_reactions s op
  unfold splice
  cases hgl : (step s op).2.getLast? with
  | none => simp [hr]
  | some e =>
    cases e with
    | fired ok =>
      simp only []
      obtain ⟨h1, h2⟩ := ha _ ok hi' (by rw [hr]; exact hl)
      rw [← h1]
      exact ⟨rfl, by rw [hr] at h2; exact h2⟩
    | _ => simp [hr]

theorem runReaction_agree (L : Nat) (k k' : Cont) (hk : KGood k) (hk' : KGood k') (ha : KAgree L k k')
    (s : St) (rs : List ROp) (hi : Inv s) (hl : s.reactions.length ≤ L) :
    runReaction (stepK k) s rs = runReaction (stepK k') s rs ∧
    (runReaction (stepK k) s rs).1.reactions.length ≤ s.reactions.length := by
  induction rs generalizing s with
  | nil => exact ⟨rfl, Nat.le_refl _⟩
  | cons r rs ih =>
    unfold runReaction
    by_cases h : r.ok s = true
    · simp only [h, if_true]
      obtain ⟨e1, l1⟩ := stepK_agree L k k' hk hk' ha s r.toOp hi (rop_ok s r h) hl
      have hi1 : Inv (stepK k s r.toOp).1 := by
        rw [stepK_eq_splice k hk s _ hi (rop_ok s r h)]
        exact splice_inv k hk _ (step_inv s _ hi (rop_ok s r h))
      obtain ⟨e2, l2⟩ := ih (stepK k s r.toOp).1 hi1 (Nat.le_trans l1 hl)
      rw [← e1, ← e2]
      exact ⟨rfl, Nat.le_trans l2 l1⟩
    · simp only [h]
      exact ih (withR s s.reactions true) (inv_withR _ _ _ hi) hl

/-- **Fuel.**  `fireStart` needs one unit of fuel per nested firing; any amount ≥ the number of callbacks waiting gives
    the same result (`stepR` passes exactly that number), and firing never adds callbacks. -/
theorem fireStart_fuel (n m : Nat) : KAgree (min n m) (fireStart n) (fireStart m) := by
  induction n generalizing m with
  | zero =>
    intro s ok _ hl
    have : s.reactions = [] := List.eq_nil_of_length_eq_zero (by omega)
    cases m <;> simp [fireStart, this]
  | succ n ih =>
    intro s ok hi hl
    cases m with
    | zero =>
      have : s.reactions = [] := List.eq_nil_of_length_eq_zero (by omega)
      simp [fireStart, this]
    | succ m =>
      unfold fireStart
      cases hr : s.reactions with
      | nil => simp [hr]
      | cons r rs =>
        simp only []
        rw [hr] at hl
        have hl' : rs.length ≤ min n m := by simp at hl ⊢; omega
        obtain ⟨e, l⟩ := runReaction_agree (min n m) _ _ (fireStart_flat n).good (fireStart_flat m).good (ih m)
          (withR s rs s.outside) r (inv_withR _ _ _ hi) hl'
        have e' : runReaction (stepK (fireStart n)) { s with reactions := rs } r =
            runReaction (stepK (fireStart m)) { s with reactions := rs } r := e
        rw [e']
        refine ⟨rfl, ?_⟩
        have l' : (runReaction (stepK (fireStart n)) { s with reactions := rs } r).1.reactions.length ≤ rs.length := l
        rw [e'] at l'
        simp; omega


/-- Why the order matters (the variant `eb` that fires start()'s Deferred FIRST and forgets it AFTERWARDS — not
    what task.py does): a callback restarting the loop from inside the firing has the new run's Deferred wiped; the
    loop runs on with no Deferred to fire (`running ∧ ¬deferred`, excluded by `Inv.idef`), so `stop()` trips over
    `assert d is not None`.  The transcription of the real order keeps it. -/
def ebFireThenClear (k : Cont) (s : St) : St × List Ev :=
  let s := { s with running := false }
  if s.deferred then ({ (k s false).1 with deferred := false }, (k s false).2) else (s, [.assertion])

theorem fire_then_clear_counterexample :
    (ebFireThenClear (fireStart 1)
        { afterR false [.defer] [[.start 1 false]] [.start 2 true] with inflight := false }).1.running = true ∧
    (ebFireThenClear (fireStart 1)
        { afterR false [.defer] [[.start 1 false]] [.start 2 true] with inflight := false }).1.deferred = false ∧
    (stepR (afterR false [.defer] [[.start 1 false]] [.start 2 true]) .fail).1.running = true ∧
    (stepR (afterR false [.defer] [[.start 1 false]] [.start 2 true]) .fail).1.deferred = true := by decide

end TwistedProps.C10
