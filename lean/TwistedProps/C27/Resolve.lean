import TwistedModel.Http.Redirect
/-!
C27 — lemmas about `urljoin` (the model of `client._urljoin` = `urllib.parse.urljoin` +
fragment inheritance): which components of the target come from the `Location`, which from
the base, and the normal form of a merged path.
-/
namespace TwistedProps.C27
open Twisted.Http.Redirect

theorem urljoin_abs (b : Uri) (r : Ref) (s : Scheme) (a : Authority) (hk : r.kind = .abs s a) :
    (urljoin b r).scheme = s ∧ (urljoin b r).auth = a ∧ (urljoin b r).path = r.path ∧
    (urljoin b r).query = r.query := by
  simp [urljoin, urljoinCore, hk]

theorem urljoin_net (b : Uri) (r : Ref) (a : Authority) (hk : r.kind = .net a) :
    (urljoin b r).scheme = b.scheme ∧ (urljoin b r).auth = a ∧ (urljoin b r).path = r.path ∧
    (urljoin b r).query = r.query := by
  simp [urljoin, urljoinCore, hk]

theorem urljoin_rel (b : Uri) (r : Ref) (hk : r.kind = .rel) :
    (urljoin b r).scheme = b.scheme ∧ (urljoin b r).auth = b.auth := by
  unfold urljoin urljoinCore
  simp only [hk]
  split <;> simp

/-- a path-only `Location` never leaves the origin of the request that received it -/
theorem urljoin_rel_origin (b : Uri) (r : Ref) (hk : r.kind = .rel) :
    (urljoin b r).origin = b.origin := by
  obtain ⟨h1, h2⟩ := urljoin_rel b r hk
  simp [Uri.origin, h1, h2]

/-- RFC 7231 §7.1.2: the `Location`'s fragment, or else the fragment of the request URI -/
theorem urljoin_frag (b : Uri) (r : Ref) :
    (urljoin b r).frag = if r.frag = "" then b.frag else r.frag := by
  unfold urljoin urljoinCore
  cases hk : r.kind with
  | abs s a => rfl
  | net a => rfl
  | rel =>
    by_cases hp : r.path = [""] ∨ r.path = []
    · simp only [if_pos hp]
    · simp only [if_neg hp]

/-- an empty path keeps the base path; the base query survives only if the reference has none -/
theorem urljoin_rel_empty (b : Uri) (r : Ref) (hk : r.kind = .rel) (hp : r.path = [""]) :
    (urljoin b r).path = b.path ∧ (urljoin b r).query = if r.query = "" then b.query else r.query := by
  simp [urljoin, urljoinCore, hk, hp]

def DotFree (l : List String) : Prop := ∀ s ∈ l, s ≠ "." ∧ s ≠ ".."

theorem dotFree_dropLast {l : List String} (h : DotFree l) : DotFree l.dropLast :=
  fun s hs => h s (List.dropLast_subset l hs)

theorem walk_dotFree : ∀ (segs acc : List String), DotFree acc → DotFree (walk segs acc) := by
  intro segs
  induction segs with
  | nil => intro acc h; simpa [walk] using h
  | cons seg rest ih =>
    intro acc h
    unfold walk
    split
    · exact ih _ (dotFree_dropLast h)
    · split
      · exact ih _ h
      · rename_i h1 h2
        apply ih
        intro s hs
        simp at hs
        rcases hs with hs | hs
        · exact h s hs
        · subst hs; exact ⟨h2, h1⟩

theorem finishPath_spec (l : List String) (h : DotFree l) :
    DotFree (finishPath l) ∧ (finishPath l).head? = some "" := by
  unfold finishPath
  split
  · exact ⟨by intro s hs; simp at hs; subst hs; decide, rfl⟩
  · exact ⟨by intro s hs; simp at hs; subst hs; decide, rfl⟩
  · exact ⟨h, rfl⟩
  · refine ⟨?_, rfl⟩
    intro s hs
    simp at hs
    rcases hs with hs | hs
    · subst hs; decide
    · exact h s hs

theorem dotFree_trailing (w : List String) (c : Prop) [Decidable c] (h : DotFree w) :
    DotFree (if c then w ++ [""] else w) := by
  split
  · intro s hs
    simp at hs
    rcases hs with hs | hs
    · exact h s hs
    · subst hs; decide
  · exact h

/-- the merged path is absolute and contains no `.` / `..` segment -/
theorem mergePath_normal (bpath rpath : List String) :
    DotFree (mergePath bpath rpath) ∧ (mergePath bpath rpath).head? = some "" := by
  unfold mergePath
  apply finishPath_spec
  exact dotFree_trailing _ _ (walk_dotFree _ [] (by intro s hs; simp at hs))

/-- a path-only, non-empty `Location` is followed to a normalised absolute path -/
theorem urljoin_rel_path_normal (b : Uri) (r : Ref) (hk : r.kind = .rel)
    (hp : r.path ≠ [""] ∧ r.path ≠ []) :
    (urljoin b r).path = mergePath b.path r.path ∧ DotFree (urljoin b r).path ∧
    (urljoin b r).path.head? = some "" := by
  have : (urljoin b r).path = mergePath b.path r.path := by
    simp [urljoin, urljoinCore, hk, hp.1, hp.2]
  rw [this]
  exact ⟨rfl, mergePath_normal _ _⟩

/-- ordinary segments: not `.`, not `..`, not empty -/
def Plain (l : List String) : Prop := ∀ s ∈ l, s ≠ "." ∧ s ≠ ".." ∧ s ≠ ""

theorem walk_plain : ∀ (l acc : List String), DotFree l → walk l acc = acc ++ l := by
  intro l
  induction l with
  | nil => intro acc _; simp [walk]
  | cons s rest ih =>
    intro acc h
    have hs := h s (by simp)
    have hr : DotFree rest := fun x hx => h x (by simp [hx])
    unfold walk
    simp only [hs.1, hs.2, if_false]
    rw [ih _ hr]
    simp

theorem filter_plain (l : List String) (h : Plain l) : l.filter (· ≠ "") = l := by
  apply List.filter_eq_self.mpr
  intro s hs
  simp [(h s hs).2.2]

theorem baseParts_file (dir : List String) (leaf : String) (hl : leaf ≠ "") :
    baseParts (dir ++ [leaf]) = dir := by
  unfold baseParts
  simp only [List.getLast?_append, List.getLast?_singleton, Option.some_or]
  simp

theorem baseParts_dir (dir : List String) : baseParts (dir ++ [""]) = dir ++ [""] := by
  unfold baseParts
  simp

theorem filterInterior_plain (ds : List String) (g : String) (h : Plain ds) :
    filterInterior ("" :: ds ++ [g]) = "" :: ds ++ [g] := by
  cases ds with
  | nil => simp [filterInterior]
  | cons d ds =>
    simp only [List.cons_append, filterInterior]
    have : ((d :: (ds ++ [g])).dropLast) = d :: ds := by
      rw [show d :: (ds ++ [g]) = (d :: ds) ++ [g] by simp, List.dropLast_concat]
    have hg : (d :: (ds ++ [g])).getLast? = some g := by
      rw [show d :: (ds ++ [g]) = (d :: ds) ++ [g] by simp, List.getLast?_concat]
    rw [this, filter_plain _ h, hg]
    simp


/-- RFC 3986 §5.4 "g": a one-segment relative `Location` replaces the last segment of a
    file-like base path -/
theorem mergePath_sibling (ds : List String) (leaf g : String) (hd : Plain ds) (hl : leaf ≠ "")
    (hg : Plain [g]) : mergePath ("" :: ds ++ [leaf]) [g] = "" :: ds ++ [g] := by
  have hg' := hg g (by simp)
  have hdf : DotFree ("" :: ds ++ [g]) := by
    intro s hs
    simp at hs
    rcases hs with hs | hs | hs
    · subst hs; decide
    · exact ⟨(hd s hs).1, (hd s hs).2.1⟩
    · subst hs; exact ⟨hg'.1, hg'.2.1⟩
  unfold mergePath
  have h1 : ([g] : List String).head? ≠ some "" := by simp [hg'.2.2]
  simp only [h1, if_false]
  rw [show "" :: ds ++ [leaf] = ("" :: ds) ++ [leaf] by simp, baseParts_file _ _ hl,
    show ("" :: ds) ++ [g] = "" :: ds ++ [g] by simp, filterInterior_plain _ _ hd,
    walk_plain _ _ hdf]
  have h2 : ("" :: ds ++ [g]).getLast? = some g := by
    rw [show "" :: ds ++ [g] = ("" :: ds) ++ [g] by simp, List.getLast?_concat]
  simp only [h2, List.nil_append]
  have h3 : ¬ (some g = some "." ∨ some g = some "..") := by simp [hg'.1, hg'.2.1]
  simp only [h3, if_false]
  cases ds with
  | nil => simp [finishPath]
  | cons d ds => simp [finishPath]

end TwistedProps.C27
