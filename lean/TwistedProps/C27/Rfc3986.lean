import TwistedProps.C27.Resolve
/-!
C27 — `client._urljoin` (the model `urljoin`, a transcription of `urllib.parse.urljoin`) against
RFC 3986 §5.2 reference resolution, transcribed here independently (`rfcResolve`,
`rfcMerge`, `removeDots`).  They agree (`urljoin_eq_rfc3986`) whenever
  * the base path is empty or absolute with non-empty interior segments (urllib drops empty
    interior segments of the merged path, the RFC keeps them), and
  * a `Location` with an authority has no `.`/`..` segments (urllib returns such a reference
    verbatim, the RFC normalises it), and a path-only `Location` has non-empty interior segments.
urllib's own quirks — popping the empty segment in front of the leading `/` on a `..` at the
root and restoring it in `urlunsplit`, `'/'.join(...) or '/'` — are shown to be harmless.
-/
namespace TwistedProps.C27
open Twisted.Http.Redirect

/-! RFC 3986 §5.2.4 `remove_dot_segments` for an absolute path, on the segments after the
leading `/` (`/a/b` = `["a","b"]`, `/` = `[""]`).  `out` is the output buffer, one entry per
`/segment` moved to it.  Rules 2B / 2C for a complete segment in the middle (`/./`, `/../`),
and for the final one (`/.`, `/..` — replaced by `/`, i.e. a final empty segment); 2E
otherwise.  Rules 2A / 2D never apply: the input always begins with `/`. -/
def removeDots : List String → List String → List String
  | [], out => out
  | [s], out =>
    if s = "." then out ++ [""] else if s = ".." then out.dropLast ++ [""] else out ++ [s]
  | s :: t :: rest, out =>
    if s = "." then removeDots (t :: rest) out
    else if s = ".." then removeDots (t :: rest) out.dropLast
    else removeDots (t :: rest) (out ++ [s])

/-- urllib's stack walk + its trailing-slash post-processing -/
def W (segs acc : List String) : List String :=
  if segs.getLast? = some "." ∨ segs.getLast? = some ".." then walk segs acc ++ [""] else walk segs acc

theorem W_single (s : String) (acc : List String) :
    W [s] acc = if s = "." then acc ++ [""] else if s = ".." then acc.dropLast ++ [""] else acc ++ [s] := by
  unfold W
  by_cases h1 : s = "."
  · subst h1; simp [walk]
  · by_cases h2 : s = ".."
    · subst h2; simp [walk]
    · simp [walk, h1, h2]

theorem W_cons (s t : String) (rest acc : List String) :
    W (s :: t :: rest) acc =
      if s = "." then W (t :: rest) acc
      else if s = ".." then W (t :: rest) acc.dropLast
      else W (t :: rest) (acc ++ [s]) := by
  unfold W
  have : (s :: t :: rest).getLast? = (t :: rest).getLast? := by simp [List.getLast?_cons_cons]
  rw [this]
  by_cases h1 : s = "."
  · subst h1; simp [walk]
  · by_cases h2 : s = ".."
    · subst h2; simp [walk]
    · simp only [h1, h2, if_false]
      conv => lhs; rw [walk]
      simp [h1, h2]


def AllNE (l : List String) : Prop := ∀ s ∈ l, s ≠ ""

/-- urllib's stack vs the RFC output buffer: the same, except that urllib's stack also holds
    the empty segment before the leading `/` until a `..` pops it -/
def Rel (acc out : List String) : Prop := (acc = out ∨ acc = "" :: out) ∧ AllNE out

theorem Rel.dropLast {acc out : List String} (h : Rel acc out) : Rel acc.dropLast out.dropLast := by
  obtain ⟨h1, h2⟩ := h
  refine ⟨?_, fun s hs => h2 s (List.dropLast_subset _ hs)⟩
  rcases h1 with h1 | h1
  · left; rw [h1]
  · cases out with
    | nil => left; rw [h1]; rfl
    | cons o os => right; rw [h1]; rfl

theorem Rel.push {acc out : List String} (h : Rel acc out) (s : String) (hs : s ≠ "") :
    Rel (acc ++ [s]) (out ++ [s]) := by
  obtain ⟨h1, h2⟩ := h
  refine ⟨?_, ?_⟩
  · rcases h1 with h1 | h1
    · left; rw [h1]
    · right; rw [h1]; rfl
  · intro x hx
    simp at hx
    rcases hx with hx | hx
    · exact h2 x hx
    · subst hx; exact hs

/-- final shapes: `X ++ [e]` with `X` free of empty segments -/
theorem finish_eq {acc X : List String} {e : String} (hX : AllNE X)
    (h : acc = X ++ [e] ∨ acc = "" :: (X ++ [e])) : finishPath acc = "" :: (X ++ [e]) := by
  rcases h with h | h
  · subst h
    cases X with
    | nil =>
      by_cases he : e = ""
      · subst he; rfl
      · simp only [List.nil_append]
        unfold finishPath
        split
        · rename_i h; cases h
        · rename_i h; injection h with h; exact absurd h he
        · rename_i h; injection h with h; exact absurd h he
        · rfl
    | cons x xs =>
      have hx : x ≠ "" := hX x (by simp)
      simp only [List.cons_append]
      unfold finishPath
      split
      · rename_i h; cases h
      · rename_i h; injection h with h; exact absurd h hx
      · rename_i h; injection h with h; exact absurd h hx
      · rfl
  · subst h
    cases X with
    | nil => simp [finishPath]
    | cons x xs => simp [finishPath]

theorem core : ∀ (segs acc out : List String), segs ≠ [] → AllNE segs.dropLast → Rel acc out →
    finishPath (W segs acc) = "" :: removeDots segs out := by
  intro segs
  induction segs with
  | nil => intro _ _ h; exact absurd rfl h
  | cons s rest ih =>
    intro acc out _ hne hrel
    cases rest with
    | nil =>
      rw [W_single]
      simp only [removeDots]
      by_cases h1 : s = "."
      · simp only [h1, if_true]
        exact finish_eq hrel.2 (by rcases hrel.1 with h | h <;> simp [h])
      · by_cases h2 : s = ".."
        · simp only [h2, if_true]
          have hr := hrel.dropLast
          simp only [show (".." : String) = "." ↔ False by decide, if_false]
          exact finish_eq hr.2 (by rcases hr.1 with h | h <;> simp [h])
        · simp only [h1, h2, if_false]
          exact finish_eq hrel.2 (by rcases hrel.1 with h | h <;> simp [h])
    | cons t rest =>
      have hs : s ≠ "" := hne s (by simp)
      have hne' : AllNE (t :: rest).dropLast := by
        intro x hx
        apply hne x
        cases rest with
        | nil => simp at hx
        | cons u rest => simp at hx ⊢; right; exact hx
      rw [W_cons]
      simp only [removeDots]
      by_cases h1 : s = "."
      · simp only [h1, if_true]
        exact ih acc out (by simp) hne' hrel
      · by_cases h2 : s = ".."
        · simp only [h2, if_true, show (".." : String) = "." ↔ False by decide, if_false]
          exact ih _ _ (by simp) hne' hrel.dropLast
        · simp only [h1, h2, if_false]
          exact ih _ _ (by simp) hne' (hrel.push s hs)


theorem mergePath_eq_W (bp rp : List String) :
    mergePath bp rp =
      finishPath (W (if rp.head? = some "" then rp else filterInterior (baseParts bp ++ rp)) []) := rfl

/-- an absolute path (`/` + `segs`, interior segments non-empty): urllib = RFC -/
theorem core_abs (segs : List String) (h0 : segs ≠ []) (hne : AllNE segs.dropLast) :
    finishPath (W ("" :: segs) []) = "" :: removeDots segs [] := by
  cases segs with
  | nil => exact absurd rfl h0
  | cons s rest =>
    rw [W_cons]
    simp only [show ("" : String) = "." ↔ False by decide, show ("" : String) = ".." ↔ False by decide,
      if_false, List.nil_append]
    exact core (s :: rest) [""] [] h0 hne ⟨Or.inr rfl, fun _ h => by simp at h⟩

theorem filterInterior_mid (a e : String) (mid : List String) :
    filterInterior (a :: (mid ++ [e])) = a :: (mid.filter (· ≠ "") ++ [e]) := by
  cases mid with
  | nil => simp [filterInterior]
  | cons m ms =>
    simp only [List.cons_append, filterInterior]
    have h1 : (m :: (ms ++ [e])).dropLast = m :: ms := by
      rw [show m :: (ms ++ [e]) = (m :: ms) ++ [e] by simp, List.dropLast_concat]
    have h2 : (m :: (ms ++ [e])).getLast? = some e := by
      rw [show m :: (ms ++ [e]) = (m :: ms) ++ [e] by simp, List.getLast?_concat]
    rw [h1, h2]
    simp

theorem filter_allNE (l : List String) (h : AllNE l) : l.filter (· ≠ "") = l := by
  apply List.filter_eq_self.mpr
  intro s hs
  simp [h s hs]

/-- RFC 3986 §5.2.3 `merge` for a base with an authority -/
def rfcMerge (bp rp : List String) : List String :=
  if bp = [""] then "" :: rp else bp.dropLast ++ rp

/-- base path: empty, or absolute with non-empty interior segments -/
def WfBasePath (bp : List String) : Prop :=
  bp = [""] ∨ ∃ bmid bl, bp = "" :: (bmid ++ [bl]) ∧ AllNE bmid

theorem segments_eq_merge (bp rmid : List String) (re : String) (hb : WfBasePath bp) (hr : AllNE rmid) :
    filterInterior (baseParts bp ++ (rmid ++ [re])) = rfcMerge bp (rmid ++ [re]) := by
  rcases hb with hb | ⟨bmid, bl, hb, hbm⟩
  · subst hb
    simp only [rfcMerge, if_true]
    have : baseParts [""] = [""] := by decide
    rw [this]
    simp only [List.singleton_append]
    rw [filterInterior_mid, filter_allNE _ hr]
  · subst hb
    have hne : ("" :: (bmid ++ [bl])) ≠ [""] := by
      intro h; injection h with _ h; simp at h
    simp only [rfcMerge, hne, if_false]
    have hd : ("" :: (bmid ++ [bl])).dropLast = "" :: bmid := by
      rw [show "" :: (bmid ++ [bl]) = ("" :: bmid) ++ [bl] by simp, List.dropLast_concat]
    rw [hd]
    by_cases hbl : bl = ""
    · subst hbl
      have : baseParts ("" :: (bmid ++ [""])) = "" :: (bmid ++ [""]) := by
        rw [show "" :: (bmid ++ [""]) = ("" :: bmid) ++ [""] by simp, baseParts_dir]
      rw [this]
      rw [show "" :: (bmid ++ [""]) ++ (rmid ++ [re]) = "" :: ((bmid ++ [""] ++ rmid) ++ [re]) by simp,
        filterInterior_mid]
      simp only [List.filter_append, filter_allNE _ hbm, filter_allNE _ hr]
      simp
    · have : baseParts ("" :: (bmid ++ [bl])) = "" :: bmid := by
        rw [show "" :: (bmid ++ [bl]) = ("" :: bmid) ++ [bl] by simp, baseParts_file _ _ hbl]
      rw [this]
      rw [show "" :: bmid ++ (rmid ++ [re]) = "" :: ((bmid ++ rmid) ++ [re]) by simp, filterInterior_mid]
      simp only [List.filter_append, filter_allNE _ hbm, filter_allNE _ hr]


/-- `remove_dot_segments` on a path that is empty or absolute -/
def rfcPath : List String → List String
  | "" :: s :: segs => "" :: removeDots (s :: segs) []
  | p => p

/-- RFC 3986 §5.2.2 "Transform References" (strict), for a base `http(s)://authority…`;
    `""` is an undefined query.  The fragment is the reference's (§5.2.2), or else — RFC 7231
    §7.1.2, for `Location` — the one of the request URI. -/
def rfcResolve (b : Uri) (r : Ref) : Uri :=
  let frag := if r.frag = "" then b.frag else r.frag
  match r.kind with
  | .abs s a => { scheme := s, auth := a, path := rfcPath r.path, query := r.query, frag := frag }
  | .net a => { scheme := b.scheme, auth := a, path := rfcPath r.path, query := r.query, frag := frag }
  | .rel =>
    if r.path = [""] then
      { scheme := b.scheme, auth := b.auth, path := b.path,
        query := if r.query = "" then b.query else r.query, frag := frag }
    else if r.path.head? = some "" then
      { scheme := b.scheme, auth := b.auth, path := rfcPath r.path, query := r.query, frag := frag }
    else
      { scheme := b.scheme, auth := b.auth, path := rfcPath (rfcMerge b.path r.path),
        query := r.query, frag := frag }

theorem removeDots_dotFree : ∀ (segs out : List String), DotFree segs → removeDots segs out = out ++ segs := by
  intro segs
  induction segs with
  | nil => intro out _; simp [removeDots]
  | cons s rest ih =>
    intro out h
    have hs := h s (by simp)
    have hr : DotFree rest := fun x hx => h x (by simp [hx])
    cases rest with
    | nil => simp [removeDots, hs.1, hs.2]
    | cons t rest =>
      simp only [removeDots, hs.1, hs.2, if_false]
      rw [ih _ hr]
      simp

theorem rfcPath_dotFree (p : List String) (h : DotFree p) : rfcPath p = p := by
  unfold rfcPath
  split
  · rename_i s segs
    rw [removeDots_dotFree _ _ (fun x hx => h x (by simp at hx ⊢; right; exact hx))]
    simp
  · rfl

/-- a reference path: non-empty list of segments whose interior ones are non-empty
    (`a/b`, `a/b/`, `../x`, `/a/b` — not `a//b`) -/
def WfRelPath (rp : List String) : Prop :=
  (∃ segs, rp = "" :: segs ∧ segs ≠ [] ∧ AllNE segs.dropLast) ∨
  (rp ≠ [] ∧ rp.head? ≠ some "" ∧ AllNE rp.dropLast)

def WfRef (r : Ref) : Prop :=
  match r.kind with
  | .abs _ _ => DotFree r.path          -- urllib returns these paths verbatim
  | .net _ => DotFree r.path
  | .rel => r.path = [""] ∨ WfRelPath r.path

theorem mergePath_rfc (bp rp : List String) (hb : WfBasePath bp) (hr : WfRelPath rp) :
    mergePath bp rp = if rp.head? = some "" then rfcPath rp else rfcPath (rfcMerge bp rp) := by
  rw [mergePath_eq_W]
  rcases hr with ⟨segs, h1, h2, h3⟩ | ⟨h1, h2, h3⟩
  · subst h1
    simp only [List.head?_cons, if_true]
    rw [core_abs segs h2 h3]
    cases segs with
    | nil => exact absurd rfl h2
    | cons s rest => rfl
  · simp only [h2, if_false]
    obtain ⟨rmid, re, hrp⟩ : ∃ rmid re, rp = rmid ++ [re] :=
      ⟨rp.dropLast, rp.getLast h1, (List.dropLast_concat_getLast h1).symm⟩
    have hmid : AllNE rmid := by
      have : rp.dropLast = rmid := by rw [hrp, List.dropLast_concat]
      rw [← this]; exact h3
    rw [hrp, segments_eq_merge bp rmid re hb hmid]
    -- the merged path is `"" :: (bmid ++ rmid ++ [re])`
    rcases hb with hb | ⟨bmid, bl, hb, hbm⟩
    · subst hb
      simp only [rfcMerge, if_true]
      have hne : AllNE (rmid ++ [re]).dropLast := by rw [List.dropLast_concat]; exact hmid
      rw [core_abs (rmid ++ [re]) (by simp) hne]
      cases rmid <;> rfl
    · subst hb
      have hne0 : ("" :: (bmid ++ [bl])) ≠ [""] := by
        intro h; injection h with _ h; simp at h
      have hd : ("" :: (bmid ++ [bl])).dropLast = "" :: bmid := by
        rw [show "" :: (bmid ++ [bl]) = ("" :: bmid) ++ [bl] by simp, List.dropLast_concat]
      simp only [rfcMerge, hne0, if_false, hd]
      have e : "" :: bmid ++ (rmid ++ [re]) = "" :: ((bmid ++ rmid) ++ [re]) := by simp
      rw [e]
      have hne : AllNE ((bmid ++ rmid) ++ [re]).dropLast := by
        rw [List.dropLast_concat]
        intro x hx
        simp at hx
        rcases hx with hx | hx
        · exact hbm x hx
        · exact hmid x hx
      rw [core_abs _ (by simp) hne]
      cases h : bmid ++ rmid <;> rfl

/-- **`_urljoin` is RFC 3986 reference resolution** on well-formed input. -/
theorem urljoin_eq_rfc3986 (b : Uri) (r : Ref) (hb : WfBasePath b.path) (hr : WfRef r) :
    urljoin b r = rfcResolve b r := by
  unfold urljoin urljoinCore rfcResolve WfRef at *
  cases hk : r.kind with
  | abs s a =>
    simp only [hk] at hr ⊢
    rw [rfcPath_dotFree _ hr]
  | net a =>
    simp only [hk] at hr ⊢
    rw [rfcPath_dotFree _ hr]
  | rel =>
    simp only [hk] at hr ⊢
    rcases hr with hr | hr
    · simp [hr]
    · have hne : ¬ (r.path = [""] ∨ r.path = []) := by
        rcases hr with ⟨segs, h1, h2, _⟩ | ⟨h1, h2, _⟩
        · rw [h1]; simp [h2]
        · intro h; rcases h with h | h
          · rw [h] at h2; simp at h2
          · exact h1 h
      have hne1 : r.path ≠ [""] := fun h => hne (Or.inl h)
      rw [if_neg hne, if_neg hne1, mergePath_rfc _ _ hb hr]
      by_cases hh : r.path.head? = some ""
      · simp only [hh, if_true]
      · simp only [hh, if_false]

end TwistedProps.C27
