import TwistedProps.C27.Chain
/-!
C27 — several requests through ONE agent object, answered by the inner agent in any interleaving.

The agent object is its configuration (`Config`): `request` / `_handleResponse` / `_handleRedirect` keep all
per-request state in the callback arguments.  `schedule cfg pool sched` delivers the scripted responses to the
chains in flight in the order `sched` names them.  The lemmas here: a delivery to chain `i` leaves every other
chain untouched, so after any schedule chain `j` is where `sched.count j` deliveries take it on its own; the
requests it has sent are always a prefix of what `run` sends, and all of them (with `run`'s outcome) once it has
had as many deliveries as its script is long.
-/
namespace TwistedProps.C27
open Twisted.Http.Redirect

/-- `n` deliveries to one chain -/
def iter (cfg : Config) : Nat → Flight → Flight
  | 0, f => f
  | n + 1, f => iter cfg n (f.advance cfg)

theorem advance_done (cfg : Config) (f : Flight) (o : Outcome) (h : f.done = some o) : f.advance cfg = f := by
  unfold Flight.advance
  rw [h]

theorem iter_done (cfg : Config) (o : Outcome) : ∀ (n : Nat) (f : Flight), f.done = some o → iter cfg n f = f := by
  intro n
  induction n with
  | zero => intro f _; rfl
  | succ n ih => intro f h; simp only [iter]; rw [advance_done cfg f o h]; exact ih f h

theorem advance_exhausted (cfg : Config) (f : Flight) (h : f.rest = []) : f.advance cfg = f := by
  unfold Flight.advance
  rw [h]
  cases f.done <;> rfl

theorem iter_exhausted (cfg : Config) : ∀ (n : Nat) (f : Flight), f.rest = [] → iter cfg n f = f := by
  intro n
  induction n with
  | zero => intro f _; rfl
  | succ n ih => intro f h; simp only [iter]; rw [advance_exhausted cfg f h]; exact ih f h

theorem advance_cons (cfg : Config) (h : Hop) (r : Resp) (rs : List Resp) (i : Nat) (sent : List Req) :
    Flight.advance cfg { hop := h, rest := r :: rs, index := i, sent := sent, done := none } =
      match handleResponse cfg h r i with
      | .stop o => { hop := h, rest := rs, index := i, sent := sent, done := some o }
      | .next h' => { hop := h', rest := rs, index := i + 1, sent := sent ++ [h'.req], done := none } := by
  simp only [Flight.advance]
  cases handleResponse cfg h r i <;> rfl

theorem follow_cons (cfg : Config) (h : Hop) (r : Resp) (rs : List Resp) (i : Nat) :
    follow cfg h (r :: rs) i =
      match handleResponse cfg h r i with
      | .stop o => ([], o)
      | .next h' => (h'.req :: (follow cfg h' rs (i + 1)).1, (follow cfg h' rs (i + 1)).2) := by
  simp only [follow]
  cases handleResponse cfg h r i <;> rfl

/-- enough deliveries: the chain has sent exactly the requests of `follow` and ended as `follow` ends -/
theorem iter_follow (cfg : Config) : ∀ (rs : List Resp) (h : Hop) (i : Nat) (sent : List Req) (n : Nat),
    rs.length ≤ n →
    (iter cfg n { hop := h, rest := rs, index := i, sent := sent, done := none }).result =
      (sent ++ (follow cfg h rs i).1, (follow cfg h rs i).2) := by
  intro rs
  induction rs with
  | nil =>
    intro h i sent n _
    rw [iter_exhausted cfg n _ rfl]
    simp [Flight.result, follow]
  | cons r rs ih =>
    intro h i sent n hn
    cases n with
    | zero => simp at hn
    | succ n =>
      simp only [iter]
      rw [advance_cons, follow_cons]
      cases e : handleResponse cfg h r i with
      | stop o =>
        simp only []
        rw [iter_done cfg o n _ rfl]
        simp [Flight.result]
      | next h' =>
        simp only []
        rw [ih h' (i + 1) (sent ++ [h'.req]) n (by simpa using hn)]
        simp

/-- any number of deliveries: what the chain has sent so far is a prefix of what `follow` sends -/
theorem iter_sent_prefix (cfg : Config) : ∀ (n : Nat) (rs : List Resp) (h : Hop) (i : Nat) (sent : List Req),
    (iter cfg n { hop := h, rest := rs, index := i, sent := sent, done := none }).sent <+:
      sent ++ (follow cfg h rs i).1 := by
  intro n
  induction n with
  | zero => intro rs h i sent; exact List.prefix_append _ _
  | succ n ih =>
    intro rs h i sent
    cases rs with
    | nil =>
      simp only [iter]
      rw [advance_exhausted cfg _ rfl]
      exact ih [] h i sent
    | cons r rs =>
      simp only [iter]
      rw [advance_cons, follow_cons]
      cases e : handleResponse cfg h r i with
      | stop o =>
        simp only []
        rw [iter_done cfg o n _ rfl]
        exact List.prefix_append _ _
      | next h' =>
        simp only []
        have := ih rs h' (i + 1) (sent ++ [h'.req])
        simpa using this

/-- a delivery to chain `i` advances chain `i` and touches no other chain -/
theorem deliver_getElem? (cfg : Config) : ∀ (pool : List Flight) (i j : Nat),
    (deliver cfg pool i)[j]? = if j = i then (pool[j]?).map (Flight.advance cfg) else pool[j]? := by
  intro pool
  induction pool with
  | nil => intro i j; simp [deliver]
  | cons f fs ih =>
    intro i j
    cases i with
    | zero =>
      cases j with
      | zero => simp [deliver]
      | succ j => simp [deliver]
    | succ i =>
      cases j with
      | zero => simp [deliver]
      | succ j => simp [deliver, ih i j]

theorem iter_advance (cfg : Config) : ∀ (n : Nat) (f : Flight),
    iter cfg n (f.advance cfg) = iter cfg (n + 1) f := by
  intro n f; rfl

/-- after any schedule, chain `j` is where its own `sched.count j` deliveries take it -/
theorem schedule_getElem? (cfg : Config) : ∀ (sched : List Nat) (pool : List Flight) (j : Nat),
    (schedule cfg pool sched)[j]? = (pool[j]?).map (iter cfg (sched.count j)) := by
  intro sched
  induction sched with
  | nil => intro pool j; simp [schedule, iter]
  | cons i sched ih =>
    intro pool j
    have step : schedule cfg pool (i :: sched) = schedule cfg (deliver cfg pool i) sched := rfl
    rw [step, ih (deliver cfg pool i) j, deliver_getElem?]
    by_cases hji : j = i
    · subst hji
      simp only [if_true, List.count_cons_self]
      cases pool[j]? with
      | none => rfl
      | some f => rfl
    · have : (i == j) = false := by simpa using fun h => hji h.symm
      simp [hji, List.count_cons, this]

end TwistedProps.C27
