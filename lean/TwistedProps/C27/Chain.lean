import TwistedModel.Http.Redirect
/-!
C27 — lemmas: what one followed redirect does (`Followed`), and the induction over the chain
of responses that lifts it to every pair of consecutive requests / every request.
-/
namespace TwistedProps.C27
open Twisted.Http.Redirect

/-- what one followed redirect does to the arguments the agent carries from hop to hop -/
structure Followed (cfg : Config) (h : Hop) (r : Resp) (h' : Hop) : Prop where
  uri : h'.uri = h.uri
  count : h'.count = h.count + 1
  below : h.count < cfg.limit
  target : ∃ l ls, r.locs = l :: ls ∧ h'.requestURI = urljoin h.requestURI l
  method : (r.code ∈ cfg.redirectCodes ∧ h'.method = h.method ∧ (h.method = "GET" ∨ h.method = "HEAD")) ∨
           (r.code ∉ cfg.redirectCodes ∧ r.code ∈ cfg.seeOtherCodes ∧ h'.method = "GET")
  headers : (h.headers = none ∧ h'.headers = none) ∨
            ∃ hs, h.headers = some hs ∧
              ((h.uri.origin = h'.requestURI.origin ∧ h'.headers = some hs) ∨
               (h.uri.origin ≠ h'.requestURI.origin ∧
                 h'.headers = some (hs.filter fun p => ¬ p.1 ∈ cfg.sensitive)))

theorem handleRedirect_next {cfg : Config} {h h' : Hop} {m : String} {r : Resp}
    (e : handleRedirect cfg h m r = .next h') :
    h'.uri = h.uri ∧ h'.count = h.count + 1 ∧ h.count < cfg.limit ∧ h'.method = m ∧
    (∃ l ls, r.locs = l :: ls ∧ h'.requestURI = urljoin h.requestURI l) ∧
    ((h.headers = none ∧ h'.headers = none) ∨
      ∃ hs, h.headers = some hs ∧
        ((h.uri.origin = h'.requestURI.origin ∧ h'.headers = some hs) ∨
         (h.uri.origin ≠ h'.requestURI.origin ∧
           h'.headers = some (hs.filter fun p => ¬ p.1 ∈ cfg.sensitive)))) := by
  unfold handleRedirect at e
  split at e
  · cases e
  · split at e
    · cases e
    · rename_i l ls hl
      injection e with e
      subst e
      refine ⟨rfl, rfl, by omega, rfl, ⟨l, ls, hl, rfl⟩, ?_⟩
      cases hh : h.headers with
      | none => left; simp
      | some hs =>
        right
        refine ⟨hs, rfl, ?_⟩
        by_cases ho : h.uri.origin = (urljoin h.requestURI l).origin
        · left; simp [ho]
        · right; simp [ho]

theorem handleResponse_next {cfg : Config} {h h' : Hop} {r : Resp} {i : Nat}
    (e : handleResponse cfg h r i = .next h') : Followed cfg h r h' := by
  unfold handleResponse at e
  split at e
  · rename_i hc
    split at e
    · cases e
    · rename_i hm
      obtain ⟨a, b, c, d, t, hd⟩ := handleRedirect_next e
      refine ⟨a, b, c, t, Or.inl ⟨hc, d, ?_⟩, hd⟩
      by_cases h1 : h.method = "GET"
      · exact Or.inl h1
      · by_cases h2 : h.method = "HEAD"
        · exact Or.inr h2
        · exact absurd ⟨h1, h2⟩ hm
  · rename_i hc
    split at e
    · rename_i hs
      obtain ⟨a, b, c, d, t, hd⟩ := handleRedirect_next e
      exact ⟨a, b, c, t, Or.inr ⟨hc, hs, d⟩, hd⟩
    · cases e

/-- the requests the inner agent receives from hop `h` on (the request of `h` itself first) -/
def reqsFrom (cfg : Config) (h : Hop) (rs : List Resp) (i : Nat) : List Req :=
  h.req :: (follow cfg h rs i).1

theorem reqsFrom_nil (cfg : Config) (h : Hop) (i : Nat) : reqsFrom cfg h [] i = [h.req] := rfl

theorem reqsFrom_cons (cfg : Config) (h : Hop) (r : Resp) (rs : List Resp) (i : Nat) :
    reqsFrom cfg h (r :: rs) i =
      match handleResponse cfg h r i with
      | .stop _ => [h.req]
      | .next h' => h.req :: reqsFrom cfg h' rs (i + 1) := by
  unfold reqsFrom
  simp only [follow]
  cases handleResponse cfg h r i <;> rfl

theorem run_requests (cfg : Config) (m : String) (u : Uri) (hd : Option (List Header)) (rs : List Resp) :
    (run cfg m u hd rs).1 = reqsFrom cfg (start m u hd) rs 0 := rfl

/-- two consecutive requests are the two ends of one followed redirect, answered by the
    response with the same index as the first of them -/
theorem adjacent (cfg : Config) : ∀ (rs : List Resp) (h : Hop) (i k : Nat) (req req' : Req),
    (reqsFrom cfg h rs i)[k]? = some req → (reqsFrom cfg h rs i)[k + 1]? = some req' →
    ∃ hk hk' r, rs[k]? = some r ∧ Followed cfg hk r hk' ∧ hk.req = req ∧ hk'.req = req' ∧
      hk.uri = h.uri := by
  intro rs
  induction rs with
  | nil => intro h i k req req' _ h2; simp [reqsFrom_nil] at h2
  | cons r rs ih =>
    intro h i k req req' h1 h2
    rw [reqsFrom_cons] at h1 h2
    cases e : handleResponse cfg h r i with
    | stop o => simp [e] at h2
    | next h' =>
      simp only [e] at h1 h2
      have f := handleResponse_next e
      cases k with
      | zero =>
        simp at h1
        have h2' : (reqsFrom cfg h' rs (i + 1))[0]? = some req' := by simpa using h2
        simp [reqsFrom] at h2'
        exact ⟨h, h', r, by simp, f, h1, h2', rfl⟩
      | succ k =>
        have h1' : (reqsFrom cfg h' rs (i + 1))[k]? = some req := by simpa using h1
        have h2' : (reqsFrom cfg h' rs (i + 1))[k + 1]? = some req' := by simpa using h2
        obtain ⟨hk, hk', r', a, b, c, d, e'⟩ := ih h' (i + 1) k req req' h1' h2'
        exact ⟨hk, hk', r', by simpa using a, b, c, d, e'.trans f.uri⟩

/-- the number of requests after hop `h` is bounded by what is left of the limit -/
theorem length_le (cfg : Config) : ∀ (rs : List Resp) (h : Hop) (i : Nat),
    h.count ≤ cfg.limit → (reqsFrom cfg h rs i).length + h.count ≤ cfg.limit + 1 := by
  intro rs
  induction rs with
  | nil => intro h i hc; simp [reqsFrom_nil]; omega
  | cons r rs ih =>
    intro h i hc
    rw [reqsFrom_cons]
    cases e : handleResponse cfg h r i with
    | stop o => simp; omega
    | next h' =>
      have f := handleResponse_next e
      have := ih h' (i + 1) (by have := f.count; have := f.below; omega)
      simp only [List.length_cons]
      have := f.count
      omega

/-- a request carries a sensitive header only if it goes to the origin of `orig` -/
def Confined (cfg : Config) (orig : Uri) (req : Req) : Prop :=
  ∀ hs, req.headers = some hs → ∀ p ∈ hs, p.1 ∈ cfg.sensitive → req.uri.origin = orig.origin

theorem Followed.confined {cfg : Config} {h h' : Hop} {r : Resp} (f : Followed cfg h r h') :
    Confined cfg h.uri h'.req := by
  intro hs hh p hp hsens
  rcases f.headers with ⟨_, hn⟩ | ⟨hs0, _, ⟨ho, _⟩ | ⟨_, hf⟩⟩
  · simp [Hop.req, hn] at hh
  · exact ho.symm
  · simp only [Hop.req] at hh
    rw [hf] at hh
    injection hh with hh
    subst hh
    simp at hp
    exact absurd hsens hp.2

theorem confined_all (cfg : Config) : ∀ (rs : List Resp) (h : Hop) (i : Nat),
    Confined cfg h.uri h.req → ∀ req ∈ reqsFrom cfg h rs i, Confined cfg h.uri req := by
  intro rs
  induction rs with
  | nil => intro h i hc req hm; simp [reqsFrom_nil] at hm; subst hm; exact hc
  | cons r rs ih =>
    intro h i hc req hm
    rw [reqsFrom_cons] at hm
    cases e : handleResponse cfg h r i with
    | stop o => simp [e] at hm; subst hm; exact hc
    | next h' =>
      simp only [e, List.mem_cons] at hm
      have f := handleResponse_next e
      rcases hm with hm | hm
      · subst hm; exact hc
      · have := ih h' (i + 1) (by rw [f.uri]; exact f.confined) req hm
        rw [f.uri] at this
        exact this

/-- relation between the headers the caller gave and the headers on a later request:
    `None` stays `None`; otherwise nothing is invented, only sensitive names may be missing -/
def HeadersKept (cfg : Config) (given sent : Option (List Header)) : Prop :=
  (given = none ∧ sent = none) ∨
  ∃ hs hs', given = some hs ∧ sent = some hs' ∧ (∀ p ∈ hs', p ∈ hs) ∧
    (∀ p ∈ hs, ¬ p.1 ∈ cfg.sensitive → p ∈ hs')

theorem HeadersKept.refl (cfg : Config) (a : Option (List Header)) : HeadersKept cfg a a := by
  cases a with
  | none => exact Or.inl ⟨rfl, rfl⟩
  | some hs => exact Or.inr ⟨hs, hs, rfl, rfl, fun _ h => h, fun _ h _ => h⟩

theorem HeadersKept.trans {cfg : Config} {a b c : Option (List Header)}
    (h1 : HeadersKept cfg a b) (h2 : HeadersKept cfg b c) : HeadersKept cfg a c := by
  rcases h1 with ⟨ha, hb⟩ | ⟨hs, hs', ha, hb, s1, k1⟩
  · rcases h2 with ⟨_, hc⟩ | ⟨x, _, hb', _⟩
    · exact Or.inl ⟨ha, hc⟩
    · rw [hb] at hb'; cases hb'
  · rcases h2 with ⟨hb', _⟩ | ⟨x, y, hb', hc, s2, k2⟩
    · rw [hb] at hb'; cases hb'
    · rw [hb] at hb'
      injection hb' with hb'
      subst hb'
      exact Or.inr ⟨hs, y, ha, hc, fun p hp => s1 p (s2 p hp), fun p hp hn => k2 p (k1 p hp hn) hn⟩

theorem Followed.kept {cfg : Config} {h h' : Hop} {r : Resp} (f : Followed cfg h r h') :
    HeadersKept cfg h.headers h'.headers := by
  rcases f.headers with ⟨a, b⟩ | ⟨hs, a, ⟨_, b⟩ | ⟨_, b⟩⟩
  · exact Or.inl ⟨a, b⟩
  · rw [a, b]; exact HeadersKept.refl cfg _
  · refine Or.inr ⟨hs, _, a, b, ?_, ?_⟩
    · intro p hp; simp at hp; exact hp.1
    · intro p hp hn; simp; exact ⟨hp, hn⟩

theorem kept_all (cfg : Config) : ∀ (rs : List Resp) (h : Hop) (i : Nat),
    ∀ req ∈ reqsFrom cfg h rs i, HeadersKept cfg h.headers req.headers := by
  intro rs
  induction rs with
  | nil => intro h i req hm; simp [reqsFrom_nil] at hm; subst hm; exact HeadersKept.refl cfg _
  | cons r rs ih =>
    intro h i req hm
    rw [reqsFrom_cons] at hm
    cases e : handleResponse cfg h r i with
    | stop o => simp [e] at hm; subst hm; exact HeadersKept.refl cfg _
    | next h' =>
      simp only [e, List.mem_cons] at hm
      have f := handleResponse_next e
      rcases hm with hm | hm
      · subst hm; exact HeadersKept.refl cfg _
      · exact f.kept.trans (ih h' (i + 1) req hm)

/-- as long as every request so far went to the original origin, the headers are untouched -/
theorem same_origin_keeps (cfg : Config) : ∀ (rs : List Resp) (h : Hop) (i : Nat),
    (∀ req ∈ reqsFrom cfg h rs i, req.uri.origin = h.uri.origin) →
    ∀ req ∈ reqsFrom cfg h rs i, req.headers = h.headers := by
  intro rs
  induction rs with
  | nil => intro h i _ req hm; simp [reqsFrom_nil] at hm; subst hm; rfl
  | cons r rs ih =>
    intro h i hall req hm
    rw [reqsFrom_cons] at hm hall
    cases e : handleResponse cfg h r i with
    | stop o => simp [e] at hm; subst hm; rfl
    | next h' =>
      simp only [e, List.mem_cons] at hm hall
      have f := handleResponse_next e
      rcases hm with hm | hm
      · subst hm; rfl
      · have hall' : ∀ req ∈ reqsFrom cfg h' rs (i + 1), req.uri.origin = h'.uri.origin := by
          intro q hq; rw [f.uri]; exact hall q (Or.inr hq)
        have h0 : h'.req.uri.origin = h.uri.origin :=
          hall h'.req (Or.inr (by simp [reqsFrom]))
        have hh : h'.headers = h.headers := by
          rcases f.headers with ⟨a, b⟩ | ⟨hs, a, ⟨_, b⟩ | ⟨ne, _⟩⟩
          · rw [a, b]
          · rw [a, b]
          · exact absurd h0.symm ne
        rw [ih h' (i + 1) hall' req hm, hh]

end TwistedProps.C27
