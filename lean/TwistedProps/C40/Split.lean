import TwistedModel.Mail.SmtpData
/-!
C40, receiver side, part 1: `bytes.split(b"\r\n")` as used by `LineOnlyReceiver.dataReceived` is
compositional — splitting `x ++ y` is splitting `x`, then splitting (remainder of `x`) ++ `y`.
This is what makes the line sequence independent of how the stream is cut into `dataReceived` calls.
-/
namespace TwistedProps.C40
open Twisted.Mail.SmtpData

theorem splitLines_nil : splitLines [] = ([], []) := rfl

theorem splitLines_crlf (r : Bytes) :
    splitLines (13 :: 10 :: r) = ([] :: (splitLines r).1, (splitLines r).2) := by
  simp [splitLines]

theorem splitLines_other (b : UInt8) (r : Bytes) (h : ¬ (b = 13 ∧ r.take 1 = [10])) :
    splitLines (b :: r) = consB b (splitLines r) := by
  cases r with
  | nil => simp [splitLines, consB]
  | cons c r' =>
    have : ¬ (b = 13 ∧ c = 10) := by simpa using h
    simp only [splitLines, this, if_false]

/-- no LF, no complete line -/
theorem splitLines_no_lf (x : Bytes) (h : 10 ∉ x) : splitLines x = ([], x) := by
  induction x with
  | nil => exact splitLines_nil
  | cons b r ih =>
    have hr : 10 ∉ r := fun e => h (List.mem_cons_of_mem _ e)
    have hc : ¬ (b = 13 ∧ r.take 1 = [10]) := by
      rintro ⟨_, h2⟩
      cases r with
      | nil => simp at h2
      | cons c r' => simp at h2; exact hr (by simp [h2])
    rw [splitLines_other b r hc, ih hr]; rfl

/-- no complete line: the remainder is everything -/
theorem splitLines_rem_of_no_lines (x : Bytes) : (splitLines x).1 = [] → (splitLines x).2 = x := by
  induction x with
  | nil => intro _; rw [splitLines_nil]
  | cons b r ih =>
    intro h
    by_cases hc : b = 13 ∧ r.take 1 = [10]
    · obtain ⟨hb, hr⟩ := hc
      cases r with
      | nil => simp at hr
      | cons c r' =>
        simp at hr; subst hb hr
        rw [splitLines_crlf] at h; simp at h
    · rw [splitLines_other b r hc] at h ⊢
      unfold consB at h ⊢
      cases hl : (splitLines r).1 with
      | nil => simp only [hl]; rw [ih hl]
      | cons l ls => simp [hl] at h

theorem split_append_aux (y : Bytes) : ∀ n (x : Bytes), x.length ≤ n →
    splitLines (x ++ y) =
      ((splitLines x).1 ++ (splitLines ((splitLines x).2 ++ y)).1,
       (splitLines ((splitLines x).2 ++ y)).2) := by
  intro n
  induction n with
  | zero =>
    intro x hx
    have : x = [] := List.eq_nil_of_length_eq_zero (by omega)
    subst this; simp [splitLines_nil]
  | succ n ih =>
    intro x hx
    by_cases h0 : (splitLines x).1 = []
    · rw [h0, splitLines_rem_of_no_lines x h0]; simp
    · cases x with
      | nil => rw [splitLines_nil] at h0; exact absurd rfl h0
      | cons b r =>
        by_cases hc : b = 13 ∧ r.take 1 = [10]
        · obtain ⟨hb, hr⟩ := hc
          cases r with
          | nil => simp at hr
          | cons c r' =>
            simp at hr; subst hb hr
            have hlen : r'.length ≤ n := by simp at hx; omega
            simp only [List.cons_append]
            rw [splitLines_crlf, splitLines_crlf, ih r' hlen]
            simp
        · have hlen : r.length ≤ n := by simp at hx; omega
          rw [splitLines_other b r hc] at h0 ⊢
          cases hl : (splitLines r).1 with
          | nil => simp [consB, hl] at h0
          | cons l ls =>
            have hrne : r ≠ [] := by
              intro e; subst e; rw [splitLines_nil] at hl; simp at hl
            have hc' : ¬ (b = 13 ∧ (r ++ y).take 1 = [10]) := by
              cases r with
              | nil => exact absurd rfl hrne
              | cons c r' => simpa using hc
            simp only [List.cons_append]
            rw [splitLines_other b (r ++ y) hc', ih r hlen]
            simp [consB, hl]

/-- **split is compositional** -/
theorem split_append (x y : Bytes) :
    splitLines (x ++ y) =
      ((splitLines x).1 ++ (splitLines ((splitLines x).2 ++ y)).1,
       (splitLines ((splitLines x).2 ++ y)).2) :=
  split_append_aux y x.length x (Nat.le_refl _)

/-- the remainder holds no complete line -/
theorem splitLines_rem_no_lines (x : Bytes) : (splitLines (splitLines x).2).1 = [] := by
  have h := split_append x []
  simp only [List.append_nil] at h
  have h1 := congrArg Prod.fst h
  simp only at h1
  exact List.self_eq_append_right.mp h1

/-- a line without LF, its CR LF, then the rest -/
theorem split_line (x rest : Bytes) (h : 10 ∉ x) :
    splitLines (x ++ 13 :: 10 :: rest) = (x :: (splitLines rest).1, (splitLines rest).2) := by
  induction x with
  | nil => simp [splitLines_crlf]
  | cons b r ih =>
    have hr : 10 ∉ r := fun e => h (List.mem_cons_of_mem _ e)
    have hc : ¬ (b = 13 ∧ (r ++ 13 :: 10 :: rest).take 1 = [10]) := by
      rintro ⟨_, h2⟩
      cases r with
      | nil => simp at h2
      | cons c r' => simp at h2; exact hr (by simp [h2])
    simp only [List.cons_append]
    rw [splitLines_other b _ hc, ih hr]; rfl

end TwistedProps.C40
