import TwistedProps.C40.Split
/-!
C40, receiver side, part 2: as long as no line-length limit is hit, feeding a stream to
`LineOnlyReceiver.dataReceived` in ANY segmentation runs `lineReceived` on the complete lines of the
stream, in order, and leaves the remainder in `_buffer` (`feed_eq`); for a stream of CR LF terminated
lines of at most `MAX_LENGTH` bytes no segmentation hits a limit (`lineStream_prefix_ok`).
-/
namespace TwistedProps.C40
open Twisted.Mail.SmtpData

/-- `lineReceived` on each line in turn -/
def runLines : Srv → List Bytes → Srv × List Ev
  | s, [] => (s, [])
  | s, l :: ls =>
    let r := lineReceived s l
    let q := runLines r.1 ls
    (q.1, r.2 ++ q.2)

def withBuf (s : Srv) (b : Bytes) : Srv := { s with buffer := b }

@[simp] theorem withBuf_buffer (s : Srv) (b : Bytes) : (withBuf s b).buffer = b := rfl
@[simp] theorem withBuf_mode (s : Srv) (b : Bytes) : (withBuf s b).mode = s.mode := rfl
@[simp] theorem withBuf_withBuf (s : Srv) (a b : Bytes) : withBuf (withBuf s a) b = withBuf s b := rfl
theorem withBuf_self (s : Srv) : withBuf s s.buffer = s := rfl

theorem runLines_append (xs ys : List Bytes) : ∀ s, runLines s (xs ++ ys) =
    ((runLines (runLines s xs).1 ys).1, (runLines s xs).2 ++ (runLines (runLines s xs).1 ys).2) := by
  induction xs with
  | nil => intro s; simp [runLines]
  | cons l ls ih => intro s; simp [runLines, ih]

theorem bodyLine_withBuf (s : Srv) (b l : Bytes) :
    bodyLine (withBuf s b) l = (withBuf (bodyLine s l).1 b, (bodyLine s l).2) := by
  obtain ⟨buf, mode, ih, ib⟩ := s
  by_cases h3 : l = [] <;> by_cases h5 : (58 : UInt8) ∈ l <;> cases ih <;> cases ib <;>
    simp [withBuf, bodyLine, h3, h5]

/-- `lineReceived` neither reads nor writes `_buffer` -/
theorem lineReceived_withBuf (s : Srv) (b l : Bytes) :
    lineReceived (withBuf s b) l = (withBuf (lineReceived s l).1 b, (lineReceived s l).2) := by
  cases hm : s.mode with
  | command => simp [lineReceived, hm]
  | data =>
    simp only [lineReceived, hm, withBuf_mode, dataLine]
    by_cases h1 : l.take 1 = [46]
    · by_cases h2 : l = [46]
      · simp only [h2, if_true]; rfl
      · simp only [h1, h2, if_true, if_false]; exact bodyLine_withBuf s b _
    · simp only [h1, if_false]; exact bodyLine_withBuf s b _

theorem runLines_withBuf (ls : List Bytes) : ∀ (s : Srv) (b : Bytes),
    runLines (withBuf s b) ls = (withBuf (runLines s ls).1 b, (runLines s ls).2) := by
  induction ls with
  | nil => intro s b; rfl
  | cons l ls ih => intro s b; simp [runLines, lineReceived_withBuf, ih]

theorem procLines_ok (maxLen : Nat) (ls : List Bytes) (h : ∀ l ∈ ls, l.length ≤ maxLen) : ∀ s,
    procLines maxLen s ls = ((runLines s ls).1, (runLines s ls).2, false) := by
  induction ls with
  | nil => intro s; rfl
  | cons l ls ih =>
    intro s
    have hl : ¬ l.length > maxLen := by have := h l (by simp); omega
    have ih' := ih (fun x hx => h x (List.mem_cons_of_mem _ hx))
    simp [procLines, runLines, hl, ih']

/-- nothing over-long in this delivery: complete lines and the remaining buffer -/
def OK (maxLen : Nat) (x : Bytes) : Prop :=
  (∀ l ∈ (splitLines x).1, l.length ≤ maxLen) ∧ (splitLines x).2.length < maxLen + 2

theorem dataReceived_ok (maxLen : Nat) (s : Srv) (d : Bytes) (h : OK maxLen (s.buffer ++ d)) :
    dataReceived maxLen s d =
      (withBuf (runLines s (splitLines (s.buffer ++ d)).1).1 (splitLines (s.buffer ++ d)).2,
       (runLines s (splitLines (s.buffer ++ d)).1).2) := by
  unfold dataReceived
  have e : ({ s with buffer := (splitLines (s.buffer ++ d)).2 } : Srv) = withBuf s (splitLines (s.buffer ++ d)).2 := rfl
  simp only [e, procLines_ok maxLen _ h.1, runLines_withBuf]
  have : ¬ (splitLines (s.buffer ++ d)).2.length ≥ maxLen + 2 := by have := h.2; omega
  simp [this]

/-- no delivery of this segmentation hits a limit (what the buffer holds is tracked) -/
def Fits (maxLen : Nat) : Bytes → List Bytes → Prop
  | _, [] => True
  | b, d :: ds => OK maxLen (b ++ d) ∧ Fits maxLen (splitLines (b ++ d)).2 ds

instance (maxLen : Nat) (x : Bytes) : Decidable (OK maxLen x) := by unfold OK; infer_instance

instance decFits (maxLen : Nat) : ∀ (b : Bytes) (segs : List Bytes), Decidable (Fits maxLen b segs)
  | _, [] => isTrue trivial
  | b, d :: ds => by
    unfold Fits
    exact @instDecidableAnd _ _ _ (decFits maxLen _ ds)

/-- **Segmentation invariance.** If no delivery hits a length limit, then any segmentation of a
    stream runs `lineReceived` on exactly the complete lines of (buffer ++ stream), in order. -/
theorem feed_eq (maxLen : Nat) (segs : List Bytes) : ∀ (s : Srv), (splitLines s.buffer).1 = [] →
    Fits maxLen s.buffer segs →
    feed maxLen s segs =
      (withBuf (runLines s (splitLines (s.buffer ++ segs.flatten)).1).1 (splitLines (s.buffer ++ segs.flatten)).2,
       (runLines s (splitLines (s.buffer ++ segs.flatten)).1).2) := by
  induction segs with
  | nil =>
    intro s hb _
    simp only [feed, List.flatten_nil, List.append_nil, hb, runLines]
    rw [splitLines_rem_of_no_lines _ hb]; rfl
  | cons d ds ih =>
    intro s hb hf
    obtain ⟨hok, hf'⟩ := hf
    simp only [feed, dataReceived_ok maxLen s d hok]
    have hb' : (splitLines (withBuf (runLines s (splitLines (s.buffer ++ d)).1).1 (splitLines (s.buffer ++ d)).2).buffer).1 = [] := by
      simp [splitLines_rem_no_lines]
    rw [ih _ hb' (by simpa using hf')]
    simp only [withBuf_buffer, List.flatten_cons, ← List.append_assoc]
    rw [split_append (s.buffer ++ d) ds.flatten]
    simp only [runLines_withBuf, withBuf_withBuf, runLines_append]

/-- a segmentation-free criterion: every prefix of the stream is OK -/
theorem fits_of_prefixes (maxLen : Nat) (segs : List Bytes) : ∀ (b : Bytes),
    (∀ p q, segs.flatten = p ++ q → OK maxLen (b ++ p)) → Fits maxLen b segs := by
  induction segs with
  | nil => intro b _; trivial
  | cons d ds ih =>
    intro b h
    have h1 : OK maxLen (b ++ d) := h d ds.flatten (by simp)
    refine ⟨h1, ih _ ?_⟩
    intro p q hpq
    have h2 : OK maxLen (b ++ (d ++ p)) := h (d ++ p) q (by simp [hpq])
    rw [← List.append_assoc, OK, split_append (b ++ d) p] at h2
    exact ⟨fun l hl => h2.1 l (List.mem_append_right _ hl), h2.2⟩

/-! ### streams of CR LF terminated lines -/

def lineStream (xs : List Bytes) : Bytes := xs.flatMap fun x => x ++ [13, 10]

theorem lineStream_cons (x : Bytes) (xs : List Bytes) : lineStream (x :: xs) = x ++ 13 :: 10 :: lineStream xs := by
  simp [lineStream]

theorem split_lineStream (xs : List Bytes) (h : ∀ x ∈ xs, 10 ∉ x) : splitLines (lineStream xs) = (xs, []) := by
  induction xs with
  | nil => simp [lineStream, splitLines_nil]
  | cons x xs ih =>
    rw [lineStream_cons, split_line x _ (h x (by simp)), ih (fun y hy => h y (List.mem_cons_of_mem _ hy))]

/-- every prefix of a stream of lines within the limit is OK: the buffer never holds more than a line and its CR -/
theorem lineStream_prefix_ok (maxLen : Nat) (xs : List Bytes) (h10 : ∀ x ∈ xs, 10 ∉ x)
    (hlen : ∀ x ∈ xs, x.length ≤ maxLen) : ∀ p q, lineStream xs = p ++ q → OK maxLen p := by
  induction xs with
  | nil =>
    intro p q h
    have : p = [] := by
      have : ([] : Bytes) = p ++ q := by simpa [lineStream] using h
      exact (List.append_eq_nil_iff.mp this.symm).1
    subst this; simp [OK, splitLines_nil]
  | cons x xs ih =>
    intro p q h
    have hx10 : 10 ∉ x := h10 x (by simp)
    have hxlen : x.length ≤ maxLen := hlen x (by simp)
    have ih' := ih (fun y hy => h10 y (List.mem_cons_of_mem _ hy)) (fun y hy => hlen y (List.mem_cons_of_mem _ hy))
    rw [lineStream_cons, show x ++ 13 :: 10 :: lineStream xs = (x ++ [13, 10]) ++ lineStream xs by simp] at h
    rcases List.append_eq_append_iff.mp h with ⟨a', h1, h2⟩ | ⟨c', h1, h2⟩
    · -- `p` reaches into the rest
      have hp : p = x ++ 13 :: 10 :: a' := by simp [h1]
      have hok := ih' a' q h2
      rw [hp, OK, split_line x a' hx10]
      refine ⟨?_, hok.2⟩
      intro l hl
      rcases List.mem_cons.mp hl with e | e
      · subst e; omega
      · exact hok.1 l e
    · -- `p` is a prefix of the first line and its CR LF
      by_cases hc : c' = []
      · subst hc
        have hp : p = x ++ 13 :: 10 :: [] := by simpa using h1.symm
        rw [hp, OK, split_line x [] hx10, splitLines_nil]
        refine ⟨?_, by simp⟩
        intro l hl
        have : l = x := by simpa using hl
        subst this; omega
      · have hd : p ++ c'.dropLast = x ++ [13] := by
          have := congrArg List.dropLast h1
          rw [List.dropLast_append_of_ne_nil hc] at this
          rw [← this, show x ++ [13, 10] = (x ++ [13]) ++ [10] by simp, List.dropLast_concat]
        have hp10 : 10 ∉ p := by
          intro hm
          have : (10 : UInt8) ∈ x ++ [13] := by rw [← hd]; exact List.mem_append_left _ hm
          rcases List.mem_append.mp this with e | e
          · exact hx10 e
          · simp at e
        have hplen : p.length ≤ x.length + 1 := by
          have := congrArg List.length hd
          simp at this; omega
        rw [OK, splitLines_no_lf p hp10]
        exact ⟨by simp, by simp; omega⟩

/-- **Receiver framing.** A stream of CR LF terminated, LF-free lines of at most `MAX_LENGTH` bytes, cut
    anywhere and delivered in any segmentation up to the cut: `lineReceived` runs on the complete
    lines before the cut; the rest waits in the buffer. -/
theorem feed_lineStream_prefix (maxLen : Nat) (xs : List Bytes) (h10 : ∀ x ∈ xs, 10 ∉ x)
    (hlen : ∀ x ∈ xs, x.length ≤ maxLen) (segs : List Bytes) (q : Bytes)
    (hs : lineStream xs = segs.flatten ++ q) (s : Srv) (hb : s.buffer = []) :
    feed maxLen s segs =
      (withBuf (runLines s (splitLines segs.flatten).1).1 (splitLines segs.flatten).2,
       (runLines s (splitLines segs.flatten).1).2) := by
  have hf : Fits maxLen s.buffer segs := by
    apply fits_of_prefixes
    intro p q' hpq
    rw [hb, List.nil_append]
    exact lineStream_prefix_ok maxLen xs h10 hlen p (q' ++ q) (by rw [hs, hpq]; simp)
  have := feed_eq maxLen segs s (by rw [hb, splitLines_nil]) hf
  rw [hb, List.nil_append] at this
  exact this

/-- non-vacuity of `feed_eq`: a stream with bare CRs and LFs, cut inside a CR LF -/
example :
    let segs : List Bytes := [[97, 13], [10, 13, 13], [10, 10, 98]]
    Fits 3 [] segs ∧ (feed 3 initData segs).2 = [Ev.line [], Ev.line [97], Ev.line [13]] ∧
    (feed 3 initData segs).1.buffer = [10, 98] ∧ feed 3 initData segs = feed 3 initData [segs.flatten] := by
  decide

end TwistedProps.C40
