import TwistedModel.Mail.SmtpData
/-!
C40, sender side: `FileSender` + `SMTPClient.transformChunk` + `finishedFileTransfer` write, for every
chunking of the reads, the dot-stuffed CR LF image of the body followed by the terminator.

Proof shape: the per-chunk `replace`/`replace` code with its carried `_lastChunkByte` is shown equal
to a byte transducer `enc` with one bit of state ("at the beginning of a line"), which is
compositional over concatenation; on a body of LF-terminated lines the transducer produces the
stuffed lines.
-/
namespace TwistedProps.C40
open Twisted.Mail.SmtpData

/-- the body: every line followed by LF -/
def joinLF (ls : List Bytes) : Bytes := ls.flatMap fun l => l ++ [10]

/-- dot-stuffing of one line (RFC 5321 §4.5.2) -/
def stuff (l : Bytes) : Bytes := if l.take 1 = [46] then 46 :: l else l

/-- what has to travel: every line stuffed and CR LF terminated, then the terminator line -/
def wire (ls : List Bytes) : Bytes := (ls.flatMap fun l => stuff l ++ [13, 10]) ++ [46, 13, 10]

/-- a line of the body: no CR (the property's precondition), no LF (it is a line) -/
def LineOK (l : Bytes) : Prop := 13 ∉ l ∧ 10 ∉ l

instance (l : Bytes) : Decidable (LineOK l) := by unfold LineOK; infer_instance

/-- byte transducer: LF ↦ CR LF, a '.' at the beginning of a line is doubled -/
def enc : Bool → Bytes → Bytes
  | _, [] => []
  | atStart, b :: r =>
    if b = 10 then 13 :: 10 :: enc true r
    else if b = 46 ∧ atStart = true then 46 :: 46 :: enc false r
    else b :: enc false r

/-- the transducer's state after `c` -/
def after : Bool → Bytes → Bool
  | a, [] => a
  | _, b :: r => after (b == 10) r

theorem enc_append (x y : Bytes) : ∀ a, enc a (x ++ y) = enc a x ++ enc (after a x) y := by
  induction x with
  | nil => intro a; simp [enc, after]
  | cons b r ih =>
    intro a
    simp only [List.cons_append, enc, after]
    by_cases h10 : b = 10
    · subst h10; simp [ih]
    · have h : (b == 10) = false := by simp [h10]
      by_cases h46 : b = 46 ∧ a = true
      · simp [h46, ih]
      · simp [h10, h46, h, ih]

theorem after_append (x y : Bytes) : ∀ a, after a (x ++ y) = after (after a x) y := by
  induction x with
  | nil => intro a; simp [after]
  | cons b r ih => intro a; simp [after, ih]

/-! ### the two `bytes.replace` calls are the transducer -/

theorem stuffDots_nil : stuffDots [] = [] := rfl

theorem stuffDots_hit (r : Bytes) : stuffDots (13 :: 10 :: 46 :: r) = 13 :: 10 :: 46 :: 46 :: stuffDots r := by
  simp [stuffDots]

theorem stuffDots_miss (b : UInt8) (r : Bytes) (h : ¬ (b = 13 ∧ r.take 2 = [10, 46])) :
    stuffDots (b :: r) = b :: stuffDots r := by
  cases r with
  | nil => simp [stuffDots]
  | cons c r =>
    cases r with
    | nil => simp [stuffDots]
    | cons d r =>
      have : ¬ (b = 13 ∧ c = 10 ∧ d = 46) := by simpa using h
      simp only [stuffDots, this, if_false]

theorem lfToCrlf_cons_lf (r : Bytes) : lfToCrlf (10 :: r) = 13 :: 10 :: lfToCrlf r := by simp [lfToCrlf]
theorem lfToCrlf_cons_other (b : UInt8) (r : Bytes) (h : b ≠ 10) : lfToCrlf (b :: r) = b :: lfToCrlf r := by
  simp [lfToCrlf, h]

/-- on CR-free input, `chunk.replace(b"\n", b"\r\n").replace(b"\r\n.", b"\r\n..")` is the transducer
    started in the middle of a line; and with a CR LF in front, the transducer started at a line start -/
theorem replace_replace_eq_enc (c : Bytes) (hc : 13 ∉ c) :
    stuffDots (lfToCrlf c) = enc false c ∧
    stuffDots (13 :: 10 :: lfToCrlf c) = 13 :: 10 :: enc true c := by
  induction c with
  | nil =>
    refine ⟨by simp [lfToCrlf, enc, stuffDots_nil], ?_⟩
    simp only [lfToCrlf, enc]
    rw [stuffDots_miss _ _ (by simp), stuffDots_miss _ _ (by simp), stuffDots_nil]
  | cons b r ih =>
    have hr : 13 ∉ r := fun h => hc (List.mem_cons_of_mem _ h)
    have hb : b ≠ 13 := fun h => hc (by simp [h])
    obtain ⟨ih1, ih2⟩ := ih hr
    by_cases h10 : b = 10
    · subst h10
      rw [lfToCrlf_cons_lf]
      refine ⟨by simp [enc, ih2], ?_⟩
      rw [stuffDots_miss _ _ (by simp), stuffDots_miss _ _ (by simp), ih2]
      simp [enc]
    · rw [lfToCrlf_cons_other _ _ h10]
      by_cases h46 : b = 46
      · subst h46
        refine ⟨?_, ?_⟩
        · rw [stuffDots_miss _ _ (by simp), ih1]; simp [enc]
        · rw [stuffDots_hit, ih1]; simp [enc]
      · refine ⟨?_, ?_⟩
        · rw [stuffDots_miss _ _ (by simp [hb]), ih1]; simp [enc, h10, h46]
        · rw [stuffDots_miss _ _ (by simp [h46]), stuffDots_miss _ _ (by simp),
            stuffDots_miss _ _ (by simp [hb]), ih1]
          simp [enc, h10, h46]

/-- the repaired prefixing step: a transducer started at a line start differs from one started in
    mid-line only by doubling a leading '.' -/
theorem enc_true_eq (c : Bytes) :
    enc true c = if (enc false c).take 1 = [46] then 46 :: enc false c else enc false c := by
  cases c with
  | nil => simp [enc]
  | cons b r =>
    by_cases h10 : b = 10
    · subst h10; simp [enc]
    · by_cases h46 : b = 46
      · subst h46; simp [enc]
      · simp [enc, h10, h46]

theorem enc_ne_nil (a : Bool) (c : Bytes) (h : c ≠ []) : enc a c ≠ [] := by
  cases c with
  | nil => exact absurd rfl h
  | cons b r =>
    simp only [enc]
    by_cases h10 : b = 10
    · simp [h10]
    · by_cases h46 : b = 46 ∧ a = true <;> simp [h10, h46]

theorem lastByte_append_of_ne_nil (x y : Bytes) (h : y ≠ []) : lastByte (x ++ y) = lastByte y := by
  unfold lastByte
  rw [List.getLast?_append]
  cases y with
  | nil => exact absurd rfl h
  | cons b r =>
    cases hl : (b :: r).getLast? with
    | none => simp at hl
    | some v => simp

/-- the transducer's last output byte is the last input byte -/
theorem lastByte_enc (c : Bytes) : ∀ a, c ≠ [] → lastByte (enc a c) = lastByte c := by
  induction c with
  | nil => intro a h; exact absurd rfl h
  | cons b r ih =>
    intro a _
    by_cases hr : r = []
    · subst hr
      by_cases h10 : b = 10
      · subst h10; simp [enc, lastByte]
      · by_cases h46 : b = 46 ∧ a = true
        · simp [enc, lastByte, h46]
        · simp [enc, lastByte, h10, h46]
    · have e1 : lastByte (b :: r) = lastByte r := lastByte_append_of_ne_nil [b] r hr
      rw [e1]
      simp only [enc]
      by_cases h10 : b = 10
      · simp only [h10, if_true]
        rw [show (13 : UInt8) :: 10 :: enc true r = [13, 10] ++ enc true r from rfl,
          lastByte_append_of_ne_nil _ _ (enc_ne_nil _ _ hr)]
        exact ih true hr
      · by_cases h46 : b = 46 ∧ a = true
        · obtain ⟨h46, ha⟩ := h46
          subst h46 ha
          simp only [show ¬ ((46 : UInt8) = 10) by decide, and_self, if_true, if_false]
          rw [show (46 : UInt8) :: 46 :: enc false r = [46, 46] ++ enc false r from rfl,
            lastByte_append_of_ne_nil _ _ (enc_ne_nil _ _ hr)]
          exact ih false hr
        · simp only [h10, h46, if_false]
          rw [show b :: enc false r = [b] ++ enc false r from rfl,
            lastByte_append_of_ne_nil _ _ (enc_ne_nil _ _ hr)]
          exact ih false hr

theorem after_eq_lastByte (c : Bytes) : ∀ a, c ≠ [] → after a c = decide (lastByte c = [10]) := by
  induction c with
  | nil => intro a h; exact absurd rfl h
  | cons b r ih =>
    intro a _
    by_cases hr : r = []
    · subst hr; simp [after, lastByte, Bool.beq_eq_decide_eq]
    · rw [show lastByte (b :: r) = lastByte r from lastByte_append_of_ne_nil [b] r hr]
      simp only [after]
      exact ih _ hr

/-- `SMTPClient.transformChunk` with its carried `_lastChunkByte` is one run of the transducer -/
theorem transformChunk_eq (carry c : Bytes) (hc : 13 ∉ c) (hne : c ≠ []) :
    transformChunk carry c = (enc (decide (carry = [10])) c, lastByte c) := by
  have h1 := (replace_replace_eq_enc c hc).1
  have key : (if (enc false c).take 1 = [46] ∧ carry = [10] then 46 :: enc false c else enc false c)
      = enc (decide (carry = [10])) c := by
    by_cases hcar : carry = [10]
    · simp only [hcar, and_true, decide_true]; exact (enc_true_eq c).symm
    · simp [hcar]
  unfold transformChunk
  simp only [h1, key]
  simp [enc_ne_nil _ _ hne, lastByte_enc _ _ hne]

theorem sendFileAux_eq (cs : List Bytes) (h13 : ∀ c ∈ cs, 13 ∉ c) (hne : ∀ c ∈ cs, c ≠ []) :
    ∀ carry lastSent, sendFileAux cs carry lastSent =
      enc (decide (carry = [10])) cs.flatten ++
        finished (if cs.flatten = [] then lastSent else lastByte cs.flatten) := by
  induction cs with
  | nil => intro carry lastSent; simp [sendFileAux, enc]
  | cons c rest ih =>
    intro carry lastSent
    have hc13 : 13 ∉ c := h13 c (by simp)
    have hcne : c ≠ [] := hne c (by simp)
    have ih' := ih (fun x hx => h13 x (List.mem_cons_of_mem _ hx)) (fun x hx => hne x (List.mem_cons_of_mem _ hx))
    rw [sendFileAux]
    simp only [hcne, if_false, transformChunk_eq carry c hc13 hcne]
    rw [ih', List.flatten_cons, enc_append, after_eq_lastByte c _ hcne, lastByte_enc _ _ hcne]
    have hne2 : c ++ rest.flatten ≠ [] := by simp [hcne]
    simp only [hne2, if_false, List.append_assoc]
    congr 2
    by_cases hr : rest.flatten = []
    · simp [hr]
    · simp only [hr, if_false]; rw [lastByte_append_of_ne_nil _ _ hr]

theorem enc_false_line (l : Bytes) (h : 10 ∉ l) : enc false l = l := by
  induction l with
  | nil => rfl
  | cons b r ih =>
    have hb : b ≠ 10 := fun e => h (by simp [e])
    have hr : 10 ∉ r := fun e => h (List.mem_cons_of_mem _ e)
    simp [enc, hb, ih hr]

theorem enc_true_line (l : Bytes) (h : 10 ∉ l) : enc true l = stuff l := by
  rw [enc_true_eq, enc_false_line l h]; rfl

theorem after_line (a : Bool) (l : Bytes) : after a (l ++ [10]) = true := by
  rw [after_append]; simp [after]

theorem enc_joinLF (ls : List Bytes) (h : ∀ l ∈ ls, LineOK l) :
    enc true (joinLF ls) = ls.flatMap fun l => stuff l ++ [13, 10] := by
  induction ls with
  | nil => simp [joinLF, enc]
  | cons l rest ih =>
    have hl : 10 ∉ l := (h l (by simp)).2
    have ih' := ih (fun x hx => h x (List.mem_cons_of_mem _ hx))
    unfold joinLF at ih' ⊢
    simp only [List.flatMap_cons]
    rw [enc_append, after_line, ih', enc_append, enc_true_line l hl]
    simp [enc]

theorem joinLF_no_cr (ls : List Bytes) (h : ∀ l ∈ ls, LineOK l) : 13 ∉ joinLF ls := by
  unfold joinLF
  intro hm
  rw [List.mem_flatMap] at hm
  obtain ⟨l, hl, hm⟩ := hm
  rw [List.mem_append] at hm
  rcases hm with hm | hm
  · exact (h l hl).1 hm
  · simp at hm

theorem lastByte_joinLF (ls : List Bytes) (h : ls ≠ []) : lastByte (joinLF ls) = [10] := by
  induction ls with
  | nil => exact absurd rfl h
  | cons l rest ih =>
    unfold joinLF at ih ⊢
    simp only [List.flatMap_cons]
    by_cases hr : rest = []
    · subst hr; simp [lastByte]
    · have : (rest.flatMap fun l => l ++ [10]) ≠ [] := by
        cases rest with
        | nil => exact absurd rfl hr
        | cons x xs => simp
      rw [lastByte_append_of_ne_nil _ _ this]; exact ih hr

/-- **Sender.** For every body of CR-free LF-terminated lines and every way the client's reads cut
    it into (non-empty) chunks, what the client writes after `354` is the stuffed lines and the
    terminator — in particular a '.' at the start of the message or of a chunk is doubled. -/
theorem client_wire (ls : List Bytes) (cs : List Bytes) (hl : ∀ l ∈ ls, LineOK l)
    (hne : ∀ c ∈ cs, c ≠ []) (hcs : cs.flatten = joinLF ls) : sendFile cs = wire ls := by
  have h13 : ∀ c ∈ cs, 13 ∉ c := by
    intro c hc hm
    apply joinLF_no_cr ls hl
    rw [← hcs]; exact List.mem_flatten.mpr ⟨c, hc, hm⟩
  unfold sendFile wire
  rw [sendFileAux_eq cs h13 hne, hcs]
  simp only [decide_true, enc_joinLF ls hl]
  congr 1
  by_cases he : ls = []
  · subst he; simp [joinLF, finished]
  · have : joinLF ls ≠ [] := by
      intro e; have := lastByte_joinLF ls he; rw [e] at this; simp [lastByte] at this
    simp [this, lastByte_joinLF ls he, finished]

/-- non-vacuity: dots at the start, after a read boundary, doubled already; 3-byte reads -/
example :
    let ls : List Bytes := [[46], [97, 46], [46, 46], []]
    let cs : List Bytes := [[46, 10, 97], [46, 10], [46, 46, 10], [10]]
    (∀ l ∈ ls, LineOK l) ∧ cs.flatten = joinLF ls ∧
    sendFile cs = [46, 46, 13, 10, 97, 46, 13, 10, 46, 46, 46, 13, 10, 13, 10, 46, 13, 10] ∧ sendFile cs = wire ls := by
  decide

end TwistedProps.C40
