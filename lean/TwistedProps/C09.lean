import TwistedProps.C09.Fifo
import TwistedProps.C09.NonNeg
/-!
C09 — `task.Clock` runs scheduled calls exactly once, in time order.

Statement (fixed): for any sequence of callLater, cancel, reset, delay and advance on a
`task.Clock`, including calls scheduled or modified from inside running calls, each call runs
exactly once if and only if it is not cancelled first, during the first advance that reaches its
currently scheduled time, and calls run in nondecreasing scheduled time.  Calls created by
callLater for the same time and never rescheduled run in creation order, and getDelayedCalls
lists exactly the pending calls.

Setting.  `run h` is the model state (`TwistedModel/Reactor/Clock.lean`) after the history `h`
on a fresh clock: `h : List Top` is any list of `advance a`, `pump [a, …]` and scripts; a script is
any finite sequence of `callLater delay body` (with `body` again a script — what the scheduled
callable does when it runs), `cancel i`, `reset i secs`, `delay i secs`, `look`, where `i` names the
i-th created call (or nothing yet).  All delays, resets and advances are arbitrary integers
(ticks), negative ones included.  `(run h).log` is the execution log, newest event first.
Every theorem below is for ALL histories; the proofs are inductions over the atomic steps of the
model (`TwistedProps/C09/Steps.lean`, `Lift.lean`), with the loop of `advance` handled by its
measure (`Measure.lean`); `Guarded.lean` is the same induction for histories whose operation
parameters are constrained (`ClosedG`), `NonNeg.lean` uses it to prove `causal`.

Hypotheses.  Only `run_order_nondecreasing` / `pending_not_before_ran` / `run_pairs_ordered` have one:
`causal` — no operation (re)schedules a call to a time earlier than the scheduled time of a call
that already ran (decidable on the log).  It is *discharged* on the property's own domain:
`causal_of_nonneg` proves it for every history in which no negative number is written (`NonNeg h`, a
syntactic condition on the history: every `callLater` delay, `reset`/`delay` argument and
`advance`/`pump` amount, at any nesting depth, is `≥ 0`), and `causal_of_admissible` for the larger
class `Admissible h` (negative `delay()` arguments allowed as long as the call stays at or after
`seconds()`; a computable function of the history, evaluated where each operation executes).  So
`run_order_nondecreasing_nonneg`, `pending_not_before_ran_nonneg` and `run_pairs_ordered_nonneg`
(time order, then creation order among same-time never-rescheduled calls) have no hypothesis on the
execution at all.  Outside that domain the clause is false for every implementation (a running call
may `delay(-x)` a pending one to before its own time: `order_needs_causal_counterexample`, which is
neither `NonNeg` nor `Admissible`); what holds unconditionally there is `advance_settles` +
`never_runs_early` + the loop always taking the earliest pending call.
Outside the model (see `ASSUMES` in `harness/corr/C09.py`): callables that raise, re-entrant
`advance`.
-/
namespace TwistedProps.C09
open Twisted.Reactor.Clock

theorem runFrom_append (st : St) (h1 h2 : List Top) : runFrom st (h1 ++ h2) = runFrom (runFrom st h1) h2 := by
  induction h1 generalizing st with
  | nil => rfl
  | cons t ts ih => exact ih _

theorem run_snoc (h : List Top) (t : Top) : run (h ++ [t]) = t.apply (run h) := by
  unfold run; rw [runFrom_append]; rfl

/-! ### getDelayedCalls lists exactly the pending calls -/

/-- After any history `getDelayedCalls()` holds no call twice and holds exactly the created calls
    whose `active()` is true (neither cancelled nor called). -/
theorem getDelayedCalls_eq_pending (h : List Top) :
    (run h).calls.Nodup ∧
      ∀ i, i ∈ (run h).calls ↔ ∃ d : DC, (run h).objs[i]? = some d ∧ d.active = true := by
  have hi := inv_run h
  refine ⟨hi.nodup, fun i => ?_⟩
  rw [hi.mem_iff]
  constructor
  · rintro ⟨d, hd, h1, h2⟩; exact ⟨d, hd, by simp [DC.active, h1, h2]⟩
  · rintro ⟨d, hd, ha⟩
    simp [DC.active] at ha
    exact ⟨d, hd, ha.1, ha.2⟩

/-- … and at every moment it was looked at — between operations of the test or from inside a
    running call — it was a permutation of the ids whose `active()` was true at that moment. -/
theorem getDelayedCalls_eq_pending_whenever_observed (h : List Top) (c a : List Nat)
    (hl : Ev.look c a ∈ (run h).log) : c.Perm a :=
  (inv_run h).looks c a hl

/-! ### each call runs exactly once iff it is not cancelled first -/

/-- Every created call is in exactly one of three conditions: it ran exactly once, was never
    successfully cancelled, and is no longer listed; or it was cancelled, never ran, and is no longer
    listed; or it has neither run nor been cancelled and is listed by `getDelayedCalls()`. -/
theorem clock_runs_once_iff_not_cancelled (h : List Top) (i : Nat) (hi : i < (run h).objs.length) :
    (runCount (run h).log i = 1 ∧ Ev.cancelled i ∉ (run h).log ∧ i ∉ (run h).calls) ∨
    (runCount (run h).log i = 0 ∧ Ev.cancelled i ∈ (run h).log ∧ i ∉ (run h).calls) ∨
    (runCount (run h).log i = 0 ∧ Ev.cancelled i ∉ (run h).log ∧ i ∈ (run h).calls) := by
  have hv := inv_run h
  obtain ⟨d, hd⟩ : ∃ d, (run h).objs[i]? = some d := ⟨_, List.getElem?_eq_getElem hi⟩
  have hr := hv.runs i
  have hc := hv.canc i
  have hm := hv.mem_iff i
  have hx := hv.excl i d hd
  rw [hd] at hr hc
  simp only [Option.any_some] at hr hc
  rw [hc, hm]
  cases h1 : d.called <;> cases h2 : d.cancelled <;> simp [h1, h2] at hr hx ⊢ <;> simp [hr, hd, h1, h2]

/-- a call that was never created never runs -/
theorem uncreated_never_runs (h : List Top) (i : Nat) (hi : (run h).objs.length ≤ i) :
    runCount (run h).log i = 0 := by
  have hr := (inv_run h).runs i
  rw [List.getElem?_eq_none_iff.2 hi] at hr
  simpa using hr

/-- `cancel()` never fails with the `ValueError` of `self.calls.remove(dc)`: a call that is neither
    cancelled nor called is always in `Clock.calls`. -/
theorem cancel_never_raises_valueError (h : List Top) (i : Nat) :
    Ev.refused i .valueError ∉ (run h).log :=
  (inv_run h).noVE i

/-! ### … during the first advance that reaches its currently scheduled time -/

/-- no call ever starts before its currently scheduled time -/
theorem never_runs_early (h : List Top) (i : Nat) (t now : Int)
    (hr : Ev.run i t now ∈ (run h).log) : t ≤ now :=
  (inv_run h).notEarly i t now hr

/-- `advance` always terminates through its loop condition — whatever the running calls schedule,
    cancel, reset or delay (scripts are finite) — … -/
theorem advance_terminates (h : List Top) : Ev.stuck ∉ (run h).log := noStuck_run h

/-- … and when it returns, every call still pending is scheduled strictly after the clock's time:
    a call whose current time an advance has reached ran during that advance (or was cancelled). -/
theorem advance_settles (h : List Top) (a : Int) :
    ∀ i ∈ (run (h ++ [.advance a])).calls,
      (run (h ++ [.advance a])).now < (run (h ++ [.advance a])).key i := by
  rw [run_snoc]
  exact advance_settled (inv_run h) a

theorem pump_settles (h : List Top) (ts : List Int) (a : Int) :
    ∀ i ∈ (run (h ++ [.pump (ts ++ [a])])).calls,
      (run (h ++ [.pump (ts ++ [a])])).now < (run (h ++ [.pump (ts ++ [a])])).key i := by
  rw [run_snoc]
  show Settled (pump (run h) (ts ++ [a]))
  have : ∀ (ts : List Int) (st : St), Inv st → Settled (pump st (ts ++ [a])) := by
    intro ts
    induction ts with
    | nil => intro st hi; exact advance_settled hi a
    | cons x xs ih => intro st hi; exact ih _ (inv_closed.advance (fun _ h => h) st x hi)
  exact this ts _ (inv_run h)

/-! ### calls run in nondecreasing scheduled time -/

/-- For causal histories the scheduled times of the calls that ran, in the order they ran, never
    decrease (the log is newest first) — across all advances of the history. -/
theorem run_order_nondecreasing (h : List Top) (hc : causal (run h).log = true) :
    (runTimes (run h).log).Pairwise (· ≥ ·) :=
  ((ordered_run h).2 hc).mono

/-- … and nothing still pending is scheduled earlier than any call that ran. -/
theorem pending_not_before_ran (h : List Top) (hc : causal (run h).log = true) :
    ∀ y ∈ runTimes (run h).log, ∀ i ∈ (run h).calls, y ≤ (run h).key i :=
  ((ordered_run h).2 hc).floor

/-! ### … unconditionally for non-negative (more generally: admissible) histories -/

/-- In an admissible history — every `callLater` delay, `reset` argument and `advance` amount `≥ 0`,
    every effective `delay()` with a non-negative argument or leaving the call at or after the
    clock's current time — no operation ever puts a call before one that already ran. -/
theorem causal_of_admissible (h : List Top) (ha : Admissible h = true) : causal (run h).log = true :=
  (fwd_run h ha).causal

/-- The static corollary: a history in which no negative number is written is causal. -/
theorem causal_of_nonneg (h : List Top) (hn : NonNeg h = true) : causal (run h).log = true :=
  causal_of_admissible h (admissible_of_nonneg h hn)

theorem nonneg_prefix (h1 h2 : List Top) (hn : NonNeg (h1 ++ h2) = true) : NonNeg h1 = true := by
  unfold NonNeg at hn ⊢
  rw [List.all_append, Bool.and_eq_true] at hn
  exact hn.1

/-- … at every point: after every prefix `h1` of a non-negative history, and at every earlier moment
    of that run — between operations or in the middle of an `advance` (the log only grows at its
    head, so those moments are the suffixes `older` of the log) — `causal` holds. -/
theorem causal_at_every_point_nonneg (h1 h2 : List Top) (hn : NonNeg (h1 ++ h2) = true)
    (newer older : List Ev) (hs : (run h1).log = newer ++ older) : causal older = true := by
  have := causal_of_nonneg h1 (nonneg_prefix h1 h2 hn)
  rw [hs] at this
  exact causal_suffix newer older this

/-- **Calls run in nondecreasing scheduled time** — for every history without negative numbers,
    with no hypothesis about the execution. -/
theorem run_order_nondecreasing_nonneg (h : List Top) (hn : NonNeg h = true) :
    (runTimes (run h).log).Pairwise (· ≥ ·) :=
  run_order_nondecreasing h (causal_of_nonneg h hn)

theorem run_order_nondecreasing_admissible (h : List Top) (ha : Admissible h = true) :
    (runTimes (run h).log).Pairwise (· ≥ ·) :=
  run_order_nondecreasing h (causal_of_admissible h ha)

/-- … and nothing still pending is scheduled earlier than any call that ran. -/
theorem pending_not_before_ran_nonneg (h : List Top) (hn : NonNeg h = true) :
    ∀ y ∈ runTimes (run h).log, ∀ i ∈ (run h).calls, y ≤ (run h).key i :=
  pending_not_before_ran h (causal_of_nonneg h hn)

theorem pending_not_before_ran_admissible (h : List Top) (ha : Admissible h = true) :
    ∀ y ∈ runTimes (run h).log, ∀ i ∈ (run h).calls, y ≤ (run h).key i :=
  pending_not_before_ran h (causal_of_admissible h ha)

/-- … and every call that ran was scheduled no later than the clock's final time (the clock never
    went back). -/
theorem ran_not_after_now_admissible (h : List Top) (ha : Admissible h = true) :
    ∀ y ∈ runTimes (run h).log, y ≤ (run h).now :=
  (fwd_run h ha).past

/-! ### same time, never rescheduled ⇒ creation order -/

/-- If `i` was created before `j`, both by `callLater` for the same time `t`, and neither was ever
    rescheduled, then at the moment `i` started running `j` had not run: whenever both run, `i`
    runs first. -/
theorem same_time_unrescheduled_fifo (h : List Top) (i j : Nat) (t : Int) (hij : i < j)
    (hsi : Ev.sched i t ∈ (run h).log) (hsj : Ev.sched j t ∈ (run h).log)
    (hui : unresched (run h).log i) (huj : unresched (run h).log j)
    (l1 l2 : List Ev) (ti ni : Int) (hsplit : (run h).log = l1 ++ Ev.run i ti ni :: l2) :
    ¬ ran l2 j :=
  (fifo_run h).2.before i j hij ⟨t, hsi, hsj, hui, huj⟩ l1 l2 ti ni hsplit

/-- … and once `j` has run, `i` is no longer pending (it ran before, or was cancelled). -/
theorem same_time_unrescheduled_earlier_done (h : List Top) (i j : Nat) (t : Int) (hij : i < j)
    (hsi : Ev.sched i t ∈ (run h).log) (hsj : Ev.sched j t ∈ (run h).log)
    (hui : unresched (run h).log i) (huj : unresched (run h).log j) (hr : ran (run h).log j) :
    i ∉ (run h).calls :=
  (fifo_run h).2.done i j hij ⟨t, hsi, hsj, hui, huj⟩ hr

theorem runTimes_append (l1 l2 : List Ev) : runTimes (l1 ++ l2) = runTimes l1 ++ runTimes l2 := by
  simp [runTimes, List.filterMap_append]

/-- Both ordering clauses as one statement about any two calls that ran, `i` before `j` (the log is
    newest first): `i` was scheduled no later than `j`, and if both were created by `callLater` for
    the same time and never rescheduled then `i` was created first. -/
theorem run_pairs_ordered (h : List Top) (hc : causal (run h).log = true)
    (l1 l2 : List Ev) (i j : Nat) (ti tj ni nj : Int)
    (hsplit : (run h).log = l1 ++ Ev.run j tj nj :: l2) (hi : Ev.run i ti ni ∈ l2) :
    ti ≤ tj ∧ (SameSlot (run h).log i j → i < j) := by
  constructor
  · have hp := ((ordered_run h).2 hc).mono
    rw [hsplit, runTimes_append] at hp
    have h2 := (List.pairwise_append.1 hp).2.1
    have h3 : runTimes (Ev.run j tj nj :: l2) = tj :: runTimes l2 := by simp [runTimes, runTime?]
    rw [h3] at h2
    have : ti ∈ runTimes l2 := by
      unfold runTimes
      rw [List.mem_filterMap]
      exact ⟨_, hi, rfl⟩
    exact (List.pairwise_cons.1 h2).1 ti this
  · intro hs
    have hne : i ≠ j := by
      intro he
      subst he
      have hr := (inv_run h).runs i
      have hle : runCount (run h).log i ≤ 1 := by rw [hr]; split <;> omega
      rw [hsplit] at hle
      unfold runCount at hle
      rw [List.countP_append, List.countP_cons] at hle
      have : 0 < List.countP (isRun i) l2 := List.countP_pos_iff.2 ⟨_, hi, by simp [isRun]⟩
      simp [isRun] at hle
      omega
    rcases Nat.lt_or_gt_of_ne hne with hlt | hgt
    · exact hlt
    · exact absurd ⟨ti, ni, hi⟩ ((fifo_run h).2.before j i hgt hs.symm l1 l2 tj nj hsplit)

/-- **Time order, then creation order** — for every history without negative numbers, with no
    hypothesis about the execution (the creation-order half never needed one:
    `same_time_unrescheduled_fifo`). -/
theorem run_pairs_ordered_nonneg (h : List Top) (hn : NonNeg h = true)
    (l1 l2 : List Ev) (i j : Nat) (ti tj ni nj : Int)
    (hsplit : (run h).log = l1 ++ Ev.run j tj nj :: l2) (hi : Ev.run i ti ni ∈ l2) :
    ti ≤ tj ∧ (SameSlot (run h).log i j → i < j) :=
  run_pairs_ordered h (causal_of_nonneg h hn) l1 l2 i j ti tj ni nj hsplit hi

theorem run_pairs_ordered_admissible (h : List Top) (ha : Admissible h = true)
    (l1 l2 : List Ev) (i j : Nat) (ti tj ni nj : Int)
    (hsplit : (run h).log = l1 ++ Ev.run j tj nj :: l2) (hi : Ev.run i ti ni ∈ l2) :
    ti ≤ tj ∧ (SameSlot (run h).log i j → i < j) :=
  run_pairs_ordered h (causal_of_admissible h ha) l1 l2 i j ti tj ni nj hsplit hi

/-- Boolean test for `unresched` (used for the concrete example) -/
theorem unresched_of_all (log : List Ev) (i : Nat)
    (h : log.all (fun e => match e with | .resched _ j _ => j != i | _ => true) = true) :
    unresched log i := by
  intro b t hm
  have := List.all_eq_true.1 h _ hm
  simp at this

/-! ### non-vacuity: a concrete history exercising every clause -/

/-- #0@4 {cancel #1; callLater 0 {}}, #1@4 {}, #2@4 {look}, #3@2 {delay #0 by 1};
    advance 2 (runs #3, which moves #0 to 5); look; advance 3 (runs #1, #2, #0, and #4 which #0
    created for "now"); cancel #2 (already called) -/
def ex1 : List Top :=
  [ .script (.callLater 4 (.cancel 1 (.callLater 0 .nil .nil))
      (.callLater 4 .nil (.callLater 4 (.look .nil) (.callLater 2 (.delay 0 1 .nil) .nil)))),
    .advance 2, .script (.look .nil), .advance 3, .script (.cancel 2 .nil) ]

def ex2 : List Top :=
  [ .script (.callLater 3 .nil (.callLater 3 .nil (.cancel 0 (.callLater 9 .nil .nil)))), .advance 3 ]

example : (run ex1).trace =
    [.sched 0 4, .sched 1 4, .sched 2 4, .sched 3 2,
     .advBegin, .run 3 2 2, .resched true 0 5, .endrun 3, .advEnd 2,
     .look [1, 2, 0] [0, 1, 2],
     .advBegin, .run 1 4 5, .endrun 1, .run 2 4 5, .look [0] [0], .endrun 2,
     .run 0 5 5, .refused 1 .alreadyCalled, .sched 4 5, .endrun 0, .run 4 5 5, .endrun 4, .advEnd 5,
     .refused 2 .alreadyCalled] := by decide

-- getDelayedCalls_eq_pending: a non-empty pending set
example : (run ex2).calls = [2] ∧ (run ex2).objs.length = 3 := by decide
-- clock_runs_once_iff_not_cancelled: all three conditions occur
example : runCount (run ex1).log 0 = 1 ∧ Ev.cancelled 0 ∈ (run ex2).log ∧ runCount (run ex2).log 0 = 0 ∧
    runCount (run ex2).log 1 = 1 ∧ 2 ∈ (run ex2).calls := by decide
-- never_runs_early / advance_settles: a call left pending after an advance, strictly later
example : (run ex2).now = 3 ∧ (run ex2).key 2 = 9 := by decide
-- run_order_nondecreasing: the hypothesis holds on a history with a delay() from inside a call
example : causal (run ex1).log = true ∧ runTimes (run ex1).log = [5, 5, 4, 4, 2] := by decide
-- same_time_unrescheduled_fifo: #1 and #2, same time 4, never rescheduled, both ran, #1 first
example : Ev.sched 1 4 ∈ (run ex1).log ∧ Ev.sched 2 4 ∈ (run ex1).log ∧
    unresched (run ex1).log 1 ∧ unresched (run ex1).log 2 ∧
    runCount (run ex1).log 1 = 1 ∧ runCount (run ex1).log 2 = 1 :=
  ⟨by decide, by decide, unresched_of_all _ _ (by decide), unresched_of_all _ _ (by decide), by decide, by decide⟩

/-- Why `run_order_nondecreasing` needs `causal`: #0@2 delays #1 (due at 8) by −7 while running
    inside `advance 10`; #1 then runs with scheduled time 1 after #0 ran with scheduled time 2.
    (`delay(negative)` is supported API; no scheduler can run #1 before #0 here.) -/
def ex3 : List Top :=
  [ .script (.callLater 2 (.delay 1 (-7) .nil) (.callLater 8 .nil .nil)), .advance 10 ]

/-- admissible but not `NonNeg`: #0@2, run by `advance 2`, delays #1 (due at 8) by −3 to 5 — still
    after the clock's time 2; #1 then runs at 5 ≥ 2 -/
def ex4 : List Top :=
  [ .script (.callLater 2 (.delay 1 (-3) .nil) (.callLater 8 .nil .nil)), .advance 2, .advance 8 ]

-- run_order_nondecreasing_nonneg / run_pairs_ordered_nonneg: `ex1` (nested scripts, a `delay()` from
-- inside a call, same-time groups, five calls run over two advances) satisfies the static hypothesis
example : NonNeg ex1 = true ∧ Admissible ex1 = true ∧ runTimes (run ex1).log = [5, 5, 4, 4, 2] := by decide
-- run_order_nondecreasing_admissible: strictly larger domain
example : NonNeg ex4 = false ∧ Admissible ex4 = true ∧ runTimes (run ex4).log = [5, 2] := by decide
-- the counterexample below is outside both
example : NonNeg ex3 = false ∧ Admissible ex3 = false := by decide

theorem order_needs_causal_counterexample :
    causal (run ex3).log = false ∧ ¬ (runTimes (run ex3).log).Pairwise (· ≥ ·) := by
  constructor
  · decide
  · have : runTimes (run ex3).log = [1, 2] := by decide
    rw [this]; decide

end TwistedProps.C09
