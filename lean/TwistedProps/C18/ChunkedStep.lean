import TwistedProps.C18.ChunkedFind
/-!
C18 lemmas: one call of a `_dataReceived_<STATE>` handler of `_ChunkedTransferDecoder`, compared
with the same call when more bytes `b` are already in the buffer (`Step`), for every state.
-/
namespace TwistedProps.C18
open Twisted.Http.Chunked hiding St
open TwistedProps.C22 (loop_eq)

/-- the decoders `dataReceived` can be called on while the body is not complete: `finishCallback`
    has not fired; `_start` points into the buffer and is 0 outside CHUNK_LENGTH -/
def chunkedOK (s : Dec) : Prop :=
  s.state ≠ .finished ∧ s.fin = [] ∧ s.start ≤ s.buffer.length - 1 ∧ (s.state ≠ .chunkLength → s.start = 0)

theorem chunkedOK_init : chunkedOK Twisted.Http.Chunked.init := by
  refine ⟨by decide, rfl, by decide, fun _ => rfl⟩

theorem chunkedOK_append (s : Dec) (b : Bytes) (h : chunkedOK s) : chunkedOK (s.append b) := by
  obtain ⟨h1, h2, h3, h4⟩ := h
  refine ⟨h1, h2, ?_, h4⟩
  simp only [Dec.append, List.length_append]; omega

theorem append_nil (s : Dec) : s.append [] = s := by simp [Dec.append]

theorem append_append (s : Dec) (a b : Bytes) : (s.append a).append b = s.append (a ++ b) := by
  simp [Dec.append]

/-- what a call of `dataReceived` lets its caller observe: the decoder afterwards, or the exception
    class together with what the two callbacks had received before the raise -/
def outc (s : Dec) : Except (Err × Bytes × List Bytes) Dec :=
  match loop s with
  | .ok s' => .ok s'
  | .error (e, s1) => .error (e, s1.data, s1.fin)

theorem outc_eq (s : Dec) : outc s =
    if s.buffer = [] then .ok s else
    match handler s with
    | .error e => .error (e, s.data, s.fin)
    | .ok (false, s') => .ok s'
    | .ok (true, s') => outc s' := by
  unfold outc
  rw [loop_eq s]
  by_cases hb : s.buffer = []
  · simp [hb]
  · simp only [hb, if_false]
    cases handler s with
    | error e => rfl
    | ok p =>
      obtain ⟨g, s'⟩ := p
      cases g <;> rfl

theorem outc_congr (s t : Dec) (hne : s.buffer ≠ []) (hb : s.buffer = t.buffer) (hh : handler s = handler t)
    (hd : s.data = t.data) (hf : s.fin = t.fin) : outc s = outc t := by
  rw [outc_eq s, outc_eq t, ← hb, hh, hd, hf, if_neg hne, if_neg hne]

/-- equal except for the attribute `length`, which may differ only while it is dead (outside BODY:
    `_dataReceived_BODY` leaves `self.length` as it is when it delivers the end of a chunk, so it
    holds the chunk size after a one-piece delivery and what was missing after a split one; the
    next read of it comes after CHUNK_LENGTH has overwritten it) -/
def lenEq (d1 d2 : Dec) : Prop :=
  d2 = { d1 with length := d2.length } ∧ (d1.state = .body → d2.length = d1.length)

theorem lenEq.refl (d : Dec) : lenEq d d := ⟨rfl, fun _ => rfl⟩

theorem lenEq.symm {d1 d2 : Dec} (h : lenEq d1 d2) : lenEq d2 d1 := by
  obtain ⟨h1, h2⟩ := h
  refine ⟨?_, fun hb => ?_⟩
  · rw [h1]
  · have : d1.state = .body := by rw [h1] at hb; exact hb
    exact (h2 this).symm

theorem lenEq.trans {d1 d2 d3 : Dec} (h : lenEq d1 d2) (h' : lenEq d2 d3) : lenEq d1 d3 := by
  obtain ⟨h1, h2⟩ := h
  obtain ⟨g1, g2⟩ := h'
  refine ⟨?_, fun hb => ?_⟩
  · rw [g1, h1]
  · have : d2.state = .body := by rw [h1]; exact hb
    rw [g2 this, h2 hb]

theorem lenEq_of_eq_length {d1 d2 : Dec} (h : lenEq d1 d2) (hl : d2.length = d1.length) : d1 = d2 := by
  obtain ⟨h1, _⟩ := h
  rw [h1, hl]

theorem chunkedOK_lenEq {d1 d2 : Dec} (h : lenEq d1 d2) (hok : chunkedOK d1) : chunkedOK d2 := by
  obtain ⟨h1, _⟩ := h
  rw [h1]; exact hok

/-- outcomes of `dataReceived` that a caller cannot tell apart -/
def resRel : Except (Err × Bytes × List Bytes) Dec → Except (Err × Bytes × List Bytes) Dec → Prop
  | .ok a, .ok b => lenEq a b
  | .error x, .error y => x = y
  | _, _ => False

theorem resRel.refl (r : Except (Err × Bytes × List Bytes) Dec) : resRel r r := by
  cases r with
  | ok a => exact lenEq.refl a
  | error x => rfl

theorem resRel_of_eq {r1 r2 : Except (Err × Bytes × List Bytes) Dec} (h : r1 = r2) : resRel r1 r2 := by
  subst h; exact resRel.refl _

/-- handler results that differ at most in a dead `length` -/
def stepRel : Except Err (Bool × Dec) → Except Err (Bool × Dec) → Prop
  | .ok (g1, a), .ok (g2, b) => g1 = g2 ∧ lenEq a b
  | .error e1, .error e2 => e1 = e2
  | _, _ => False

theorem stepRel.refl (r : Except Err (Bool × Dec)) : stepRel r r := by
  cases r with
  | ok p => exact ⟨rfl, lenEq.refl _⟩
  | error x => rfl

/-- no handler but `_dataReceived_BODY` reads `length` -/
theorem handler_lenEq (d1 d2 : Dec) (h : lenEq d1 d2) : stepRel (handler d1) (handler d2) := by
  by_cases hb : d1.state = .body
  · have := lenEq_of_eq_length h (h.2 hb)
    subst this; exact stepRel.refl _
  · obtain ⟨h1, _⟩ := h
    generalize d2.length = n at h1
    subst h1
    rcases d1 with ⟨st, buf, start, len, rt, dat, fn⟩
    cases st with
    | body => exact absurd rfl hb
    | finished => simp [handler, stepRel]
    | chunkLength =>
      simp only [handler, handleChunkLength]
      split
      · split
        · simp [stepRel]
        · simp [stepRel, lenEq]
      · split
        · simp [stepRel]
        · split
          · simp [stepRel]
          · split
            · simp [stepRel]
            · simp [stepRel, lenEq]
    | crlf =>
      simp only [handler, handleCRLF]
      split
      · split
        · simp [stepRel, lenEq]
        · simp [stepRel]
      · simp [stepRel, lenEq]
    | trailer =>
      simp only [handler, handleTrailer]
      split
      · split
        · simp [stepRel]
        · simp [stepRel, lenEq]
      · simp [stepRel, lenEq]
      · split
        · simp [stepRel]
        · simp [stepRel, lenEq]

theorem measure_lenEq {d1 d2 : Dec} (h : lenEq d1 d2) : measure d2 = measure d1 := by
  rw [h.1]; rfl

/-- `dataReceived` cannot tell decoders apart that differ in a dead `length` -/
theorem outc_lenEq : ∀ (n : Nat) (d1 d2 : Dec), measure d1 < n → lenEq d1 d2 → resRel (outc d1) (outc d2) := by
  intro n
  induction n with
  | zero => intro d1 d2 h; omega
  | succ n ih =>
    intro d1 d2 hn h
    have hbuf : d2.buffer = d1.buffer := by rw [h.1]
    have hdat : d2.data = d1.data := by rw [h.1]
    have hfn : d2.fin = d1.fin := by rw [h.1]
    rw [outc_eq d1, outc_eq d2, hbuf, hdat, hfn]
    by_cases hne : d1.buffer = []
    · simp only [hne, if_true]; exact h
    · simp only [hne, if_false]
      have hs := handler_lenEq d1 d2 h
      cases h1 : handler d1 with
      | error e1 =>
        cases h2 : handler d2 with
        | error e2 => rw [h1, h2] at hs; simp only [stepRel] at hs; subst hs; rfl
        | ok p => rw [h1, h2] at hs; simp [stepRel] at hs
      | ok p =>
        cases h2 : handler d2 with
        | error e2 => rw [h1, h2] at hs; simp [stepRel] at hs
        | ok q =>
          obtain ⟨g1, a⟩ := p
          obtain ⟨g2, b⟩ := q
          rw [h1, h2] at hs
          obtain ⟨hg, hab⟩ := hs
          subst hg
          cases g1 with
          | false => exact hab
          | true =>
            have := handler_decreases d1 a hne h1
            exact ih a b (by omega) hab

/-- one handler call on a non-empty buffer, and the same call with `b` appended -/
inductive Step (s : Dec) (b : Bytes) : Prop where
  /-- consumed something and goes on: the same with `b` appended -/
  | go (s' : Dec) (h : handler s = .ok (true, s')) (hok : chunkedOK s')
      (hlen : s'.buffer.length ≤ s.buffer.length)
      (happ : handler (s.append b) = .ok (true, s'.append b))
  /-- BODY with less than the chunk buffered: everything is delivered, the buffer is empty -/
  | part (s' : Dec) (h : handler s = .ok (true, s')) (hok : chunkedOK s') (hnil : s'.buffer = [])
      (happ : resRel (outc (s'.append b)) (outc (s.append b)))
  /-- needs more bytes -/
  | wait (s' : Dec) (h : handler s = .ok (false, s')) (hok : chunkedOK s')
      (happ : resRel (outc (s'.append b)) (outc (s.append b)))
      (hstuck : ∀ t', handler (s.append b) = .ok (true, t') → t'.buffer.length < b.length)
      (hstuckF : ∀ t', handler (s.append b) = .ok (false, t') → t'.state = .finished →
        ∀ extra, t'.fin = [extra] → extra.length < b.length)
  /-- the terminating CRLF: `finishCallback(rest of the buffer)` -/
  | fin (s' : Dec) (h : handler s = .ok (false, s')) (hst : s'.state = .finished)
      (hfin : s'.fin = [s.buffer.drop 2]) (hlen : 2 ≤ s.buffer.length)
      (happ : handler (s.append b) = .ok (false, { s' with fin := [s.buffer.drop 2 ++ b] }))
  | err (h : handler s = .error .malformed) (happ : handler (s.append b) = .error .malformed)

/-- BODY with less than the chunk buffered -/
def partBody (s : Dec) : Dec :=
  { s with length := s.length - s.buffer.length, buffer := [], data := s.data ++ s.buffer }

theorem step_chunkLength (s : Dec) (b : Bytes) (hI : chunkedOK s) (hne : s.buffer ≠ [])
    (hst : s.state = .chunkLength) : Step s b := by
  obtain ⟨hnf, hfin, hstart, _⟩ := hI
  have hpos : 0 < s.buffer.length := List.length_pos_iff.mpr hne
  have hlt : s.start < s.buffer.length := by omega
  cases hf : findCRLF s.buffer s.start with
  | none =>
    by_cases hbig : s.buffer.length > maxChunkSizeLineLength
    · have h : handler s = .error .malformed := by
        simp [handler, hst, handleChunkLength, hf, hbig]
      refine .err h ?_
      cases hf2 : findCRLF (s.buffer ++ b) s.start with
      | none =>
        simp only [handler, Dec.append, hst, handleChunkLength, hf2]
        rw [if_pos (by simp; omega)]
      | some e =>
        have := findCRLF_append_none _ _ _ _ (Nat.le_of_lt hlt) hf hf2
        simp only [handler, Dec.append, hst, handleChunkLength, hf2]
        rw [if_pos (by simp [maxChunkSizeLineLength] at hbig ⊢; omega)]
    · have h : handler s = .ok (false, { s with start := s.buffer.length - 1 }) := by
        simp [handler, hst, handleChunkLength, hf, hbig]
      refine .wait _ h ⟨hnf, hfin, by simp, fun hh => absurd hst hh⟩ ?_ ?_ ?_
      · apply resRel_of_eq
        apply outc_congr
        · simp [Dec.append, hne]
        · rfl
        · have hr := findCRLF_restart s.buffer b s.start hlt hf
          simp only [handler, Dec.append, hst, handleChunkLength, hr]
        · rfl
        · rfl
      · intro t' ht
        simp only [handler, Dec.append, hst, handleChunkLength] at ht
        cases hf2 : findCRLF (s.buffer ++ b) s.start with
        | none => rw [hf2] at ht; simp only at ht; split at ht <;> simp at ht
        | some e =>
          have hb1 := findCRLF_append_none _ _ _ _ (Nat.le_of_lt hlt) hf hf2
          have hb2 := (findCRLF_bounds (s.buffer ++ b) _ _ (by simp; omega) hf2).2
          rw [hf2] at ht
          simp only at ht
          split at ht
          · simp at ht
          · split at ht
            · simp at ht
            · split at ht
              · simp at ht
              · simp only [Except.ok.injEq, Prod.mk.injEq, true_and] at ht
                subst ht
                simp only [List.length_drop, List.length_append] at hb2 ⊢
                omega
      · intro t' ht hfin'
        simp only [handler, Dec.append, hst, handleChunkLength] at ht
        cases hf2 : findCRLF (s.buffer ++ b) s.start with
        | none =>
          rw [hf2] at ht; simp only at ht
          split at ht
          · simp at ht
          · simp only [Except.ok.injEq, Prod.mk.injEq, true_and] at ht
            subst ht; simp at hfin'
        | some e =>
          rw [hf2] at ht
          simp only at ht
          split at ht
          · simp at ht
          · split at ht
            · simp at ht
            · split at ht <;> simp at ht
  | some e =>
    obtain ⟨h1, h2⟩ := findCRLF_bounds _ _ _ (Nat.le_of_lt hlt) hf
    have hf2 := findCRLF_append_some _ b _ _ (Nat.le_of_lt hlt) hf
    have htake : (s.buffer ++ b).take e = s.buffer.take e := List.take_append_of_le_length (by omega)
    have hdrop : (s.buffer ++ b).drop (e + 2) = s.buffer.drop (e + 2) ++ b :=
      List.drop_append_of_le_length h2
    by_cases hbig : e ≥ maxChunkSizeLineLength
    · refine .err ?_ ?_
      · simp [handler, hst, handleChunkLength, hf, hbig]
      · simp [handler, Dec.append, hst, handleChunkLength, hf2, hbig]
    · cases hx : hexint (splitSemi (s.buffer.take e)).1 with
      | none =>
        refine .err ?_ ?_
        · simp [handler, hst, handleChunkLength, hf, hbig, hx]
        · simp [handler, Dec.append, hst, handleChunkLength, hf2, hbig, htake, hx]
      | some n =>
        by_cases hext : (splitSemi (s.buffer.take e)).2.all chunkExtChar = true
        · refine .go { s with state := if n = 0 then .trailer else .body, length := n,
                              buffer := s.buffer.drop (e + 2), start := 0 } ?_ ?_ ?_ ?_
          · simp [handler, hst, handleChunkLength, hf, hbig, hx, hext]
          · refine ⟨?_, hfin, by simp, fun _ => rfl⟩
            simp only; split <;> simp
          · simp
          · simp only [handler, Dec.append, hst, handleChunkLength, hf2, htake, hx, hdrop]
            simp [hbig, hext]
        · refine .err ?_ ?_
          · simp [handler, hst, handleChunkLength, hf, hbig, hx, hext]
          · simp only [handler, Dec.append, hst, handleChunkLength, hf2, htake, hx]
            simp [hbig, hext]

theorem step_crlf (s : Dec) (b : Bytes) (hI : chunkedOK s) (hne : s.buffer ≠ [])
    (hst : s.state = .crlf) : Step s b := by
  obtain ⟨hnf, hfin, hstart, hs0⟩ := hI
  have h0 : s.start = 0 := hs0 (by simp [hst])
  match hb : s.buffer, hne with
  | [c], _ =>
    refine .wait s ?_ ⟨hnf, hfin, hstart, hs0⟩ (resRel.refl _) ?_ ?_
    · simp [handler, hst, handleCRLF, hb]
    · intro t' ht
      cases b with
      | nil => simp [handler, Dec.append, hst, handleCRLF, hb] at ht
      | cons d rest =>
        simp only [handler, Dec.append, hst, handleCRLF, hb, List.cons_append, List.nil_append] at ht
        split at ht
        · simp only [Except.ok.injEq, Prod.mk.injEq, true_and] at ht
          subst ht; simp
        · simp at ht
    · intro t' ht hfin'
      cases b with
      | nil =>
        simp only [handler, Dec.append, hst, handleCRLF, hb, List.append_nil] at ht
        simp only [Except.ok.injEq, Prod.mk.injEq, true_and] at ht
        subst ht; simp at hfin'
      | cons d rest =>
        simp only [handler, Dec.append, hst, handleCRLF, hb, List.cons_append, List.nil_append] at ht
        split at ht <;> simp at ht
  | c :: d :: rest, _ =>
    by_cases hcd : c = CR ∧ d = LF
    · refine .go { s with state := .chunkLength, buffer := rest } ?_ ?_ ?_ ?_
      · simp [handler, hst, handleCRLF, hb, hcd]
      · exact ⟨by simp, hfin, by simp [h0], fun _ => h0⟩
      · simp [hb]; omega
      · simp [handler, Dec.append, hst, handleCRLF, hb, hcd]
    · refine .err ?_ ?_
      · simp only [handler, hst, handleCRLF, hb]; rw [if_neg hcd]
      · simp only [handler, Dec.append, hst, handleCRLF, hb, List.cons_append]; rw [if_neg hcd]

theorem step_body (s : Dec) (b : Bytes) (hI : chunkedOK s) (hne : s.buffer ≠ [])
    (hst : s.state = .body) : Step s b := by
  obtain ⟨hnf, hfin, hstart, hs0⟩ := hI
  have h0 : s.start = 0 := hs0 (by simp [hst])
  by_cases hlong : s.buffer.length ≥ s.length
  · refine .go { s with state := .crlf, buffer := s.buffer.drop s.length,
                        data := s.data ++ s.buffer.take s.length } ?_ ?_ ?_ ?_
    · simp [handler, hst, handleBody, hlong]
    · exact ⟨by simp, hfin, by simp [h0], fun _ => h0⟩
    · simp
    · have : (s.buffer ++ b).length ≥ s.length := by simp; omega
      simp only [handler, Dec.append, hst, handleBody, this, if_true]
      rw [List.take_append_of_le_length hlong, List.drop_append_of_le_length hlong]
  · have h : handler s = .ok (true, partBody s) := by
      simp [handler, hst, handleBody, hlong, partBody]
    refine .part _ h ⟨by simp [hst, partBody], hfin, by simp [h0, partBody], fun _ => h0⟩ rfl ?_
    by_cases hbn : b = []
    · subst hbn
      rw [append_nil, append_nil, outc_eq s, if_neg hne, h]
      exact resRel.refl _
    · have e1 : ((partBody s).append b).buffer ≠ [] := by simpa [Dec.append, partBody] using hbn
      have e2 : (s.append b).buffer ≠ [] := by simp [Dec.append, hne]
      rw [outc_eq (Dec.append _ b), outc_eq (s.append b), if_neg e1, if_neg e2]
      by_cases hb2 : b.length ≥ s.length - s.buffer.length
      · have hl : (s.buffer ++ b).length ≥ s.length := by simp; omega
        have hle : s.buffer.length ≤ s.length := by omega
        have g1 : handler ((partBody s).append b) = .ok (true, { s with state := .crlf, length := s.length - s.buffer.length, buffer := (s.buffer ++ b).drop s.length, data := s.data ++ (s.buffer ++ b).take s.length }) := by
          simp only [handler, Dec.append, partBody, hst, handleBody, List.nil_append, hb2, if_true]
          rw [List.take_append, List.drop_append, List.take_of_length_le hle, List.drop_of_length_le hle]
          simp [List.append_assoc]
        have g2 : handler (s.append b) = .ok (true, { s with state := .crlf, buffer := (s.buffer ++ b).drop s.length, data := s.data ++ (s.buffer ++ b).take s.length }) := by
          simp only [handler, Dec.append, hst, handleBody, hl, if_true]
        rw [g1, g2]
        exact outc_lenEq _ _ _ (Nat.lt_succ_self _) ⟨rfl, fun hh => by simp at hh⟩
      · have hl : ¬ (s.buffer ++ b).length ≥ s.length := by simp; omega
        have g1 : handler ((partBody s).append b) = .ok (true, { s with length := s.length - (s.buffer ++ b).length, buffer := [], data := s.data ++ (s.buffer ++ b) }) := by
          simp only [handler, Dec.append, partBody, hst, handleBody, List.nil_append, hb2, if_false]
          simp [List.append_assoc]; omega
        have g2 : handler (s.append b) = .ok (true, { s with length := s.length - (s.buffer ++ b).length, buffer := [], data := s.data ++ (s.buffer ++ b) }) := by
          simp only [handler, Dec.append, hst, handleBody, hl, if_false]
        rw [g1, g2]
        exact resRel.refl _

theorem slack_le (x : Bytes) : 1 ≤ trailerSlack x ∧ trailerSlack x ≤ 2 := by
  unfold trailerSlack; split <;> omega

theorem step_trailer (s : Dec) (b : Bytes) (hI : chunkedOK s) (hne : s.buffer ≠ [])
    (hst : s.state = .trailer) : Step s b := by
  obtain ⟨hnf, hfin, hstart, hs0⟩ := hI
  have h0 : s.start = 0 := hs0 (by simp [hst])
  have hpos : 0 < s.buffer.length := List.length_pos_iff.mpr hne
  have hle : s.start ≤ s.buffer.length := by omega
  have hle2 : s.start ≤ (s.buffer ++ b).length := by simp; omega
  cases hf : findCRLF s.buffer s.start with
  | none =>
    by_cases hbig : s.buffer ≠ [CR] ∧ s.recvTrailer + s.buffer.length + trailerSlack s.buffer > maxTrailerHeadersSize
    · refine .err ?_ ?_
      · simp only [handler, hst, handleTrailer, hf]; rw [if_pos hbig]
      · cases hf2 : findCRLF (s.buffer ++ b) s.start with
        | none =>
          simp only [handler, Dec.append, hst, handleTrailer, hf2]
          rw [if_pos]
          refine ⟨?_, ?_⟩
          · intro hh
            have hl := congrArg List.length hh
            simp only [List.length_append, List.length_cons, List.length_nil] at hl
            have hb0 : b = [] := List.eq_nil_of_length_eq_zero (by omega)
            subst hb0
            exact hbig.1 (by simpa using hh)
          · by_cases hb0 : b = []
            · subst hb0; simpa using hbig.2
            · have hbpos : 0 < b.length := List.length_pos_iff.mpr hb0
              have := slack_le s.buffer
              have := slack_le (s.buffer ++ b)
              simp only [List.length_append]
              omega
        | some e =>
          have hb1 := findCRLF_append_none _ _ _ _ hle hf hf2
          cases e with
          | zero =>
            exfalso
            obtain ⟨rest, hr⟩ := findCRLF_at_zero _ _ hle2 hf2
            have h1 : s.buffer.length = 1 := by omega
            match hsb : s.buffer, h1 with
            | [c], _ =>
              rw [hsb] at hr
              simp only [List.cons_append, List.nil_append, List.cons.injEq] at hr
              exact hbig.1 (by rw [hsb, hr.1])
          | succ e =>
            simp only [handler, Dec.append, hst, handleTrailer, hf2]
            rw [if_pos]
            by_cases hcr : s.buffer.getLast? = some CR
            · have : trailerSlack s.buffer = 1 := by simp [trailerSlack, hcr]
              omega
            · -- the buffer does not end in CR: the terminator lies wholly in `b`
              have : trailerSlack s.buffer = 2 := by simp [trailerSlack, hcr]
              have hb2 : s.buffer.length ≤ e + 1 :=
                findCRLF_append_none_noCR _ _ _ _ (by omega) hf hcr hf2
              omega
    · have h : handler s = .ok (false, s) := by
        simp only [handler, hst, handleTrailer, hf]; rw [if_neg hbig]
      refine .wait s h ⟨hnf, hfin, hstart, hs0⟩ (resRel.refl _) ?_ ?_
      · intro t' ht
        simp only [handler, Dec.append, hst, handleTrailer] at ht
        cases hf2 : findCRLF (s.buffer ++ b) s.start with
        | none => rw [hf2] at ht; simp only at ht; split at ht <;> simp at ht
        | some e =>
          have hb1 := findCRLF_append_none _ _ _ _ hle hf hf2
          have hb2 := (findCRLF_bounds (s.buffer ++ b) _ _ hle2 hf2).2
          rw [hf2] at ht
          cases e with
          | zero => simp at ht
          | succ e =>
            simp only at ht
            split at ht
            · simp at ht
            · simp only [Except.ok.injEq, Prod.mk.injEq, true_and] at ht
              subst ht
              simp only [List.length_drop, List.length_append] at hb2 ⊢
              omega
      · intro t' ht hfin' extra hex
        simp only [handler, Dec.append, hst, handleTrailer] at ht
        cases hf2 : findCRLF (s.buffer ++ b) s.start with
        | none =>
          rw [hf2] at ht; simp only at ht
          split at ht
          · simp at ht
          · simp only [Except.ok.injEq, Prod.mk.injEq, true_and] at ht
            subst ht; simp at hfin'
        | some e =>
          have hb1 := findCRLF_append_none _ _ _ _ hle hf hf2
          have hb2 := (findCRLF_bounds (s.buffer ++ b) _ _ hle2 hf2).2
          rw [hf2] at ht
          cases e with
          | zero =>
            simp only [Except.ok.injEq, Prod.mk.injEq, true_and] at ht
            subst ht
            simp only [hfin, List.nil_append, List.cons.injEq, and_true] at hex
            subst hex
            simp only [List.length_drop, List.length_append] at hb2 ⊢
            omega
          | succ e =>
            simp only at ht
            split at ht <;> simp at ht
  | some e =>
    obtain ⟨h1, h2⟩ := findCRLF_bounds _ _ _ hle hf
    have hf2 := findCRLF_append_some _ b _ _ hle hf
    cases e with
    | zero =>
      refine .fin { s with state := .finished, buffer := [], fin := s.fin ++ [s.buffer.drop 2] } ?_ rfl ?_ h2 ?_
      · simp only [handler, hst, handleTrailer, hf]
      · simp [hfin]
      · simp only [handler, Dec.append, hst, handleTrailer, hf2, hfin, List.nil_append]
        rw [List.drop_append_of_le_length h2]
    | succ e =>
      by_cases hbig : s.recvTrailer + (e + 1 + 2) > maxTrailerHeadersSize
      · refine .err ?_ ?_
        · simp only [handler, hst, handleTrailer, hf]; rw [if_pos hbig]
        · simp only [handler, Dec.append, hst, handleTrailer, hf2]; rw [if_pos hbig]
      · refine .go { s with buffer := s.buffer.drop (e + 1 + 2), start := 0, recvTrailer := s.recvTrailer + (e + 1 + 2) } ?_ ?_ ?_ ?_
        · simp only [handler, hst, handleTrailer, hf]; rw [if_neg hbig]
        · exact ⟨hnf, hfin, by simp, fun _ => rfl⟩
        · simp
        · simp only [handler, Dec.append, hst, handleTrailer, hf2]; rw [if_neg hbig]
          rw [List.drop_append_of_le_length h2]

/-- one handler call on a non-empty buffer of a decoder that has not finished -/
theorem step_any (s : Dec) (b : Bytes) (hI : chunkedOK s) (hne : s.buffer ≠ []) : Step s b := by
  cases hst : s.state with
  | chunkLength => exact step_chunkLength s b hI hne hst
  | crlf => exact step_crlf s b hI hne hst
  | trailer => exact step_trailer s b hI hne hst
  | body => exact step_body s b hI hne hst
  | finished => exact absurd hst hI.1

end TwistedProps.C18
