import TwistedProps.C18.ChunkedStep
/-!
C18 lemmas: the `while` loop of `_ChunkedTransferDecoder.dataReceived` commutes with appending to
its buffer — `dataReceived(B); dataReceived(b)` against `dataReceived(B + b)` — by induction over
the loop, from the per-handler facts of `ChunkedStep.lean`.
-/
namespace TwistedProps.C18
open Twisted.Http.Chunked hiding St

theorem handler_ok (s s' : Dec) (hI : chunkedOK s) (hne : s.buffer ≠ []) (h : handler s = .ok (true, s')) :
    chunkedOK s' ∧ s'.buffer.length ≤ s.buffer.length := by
  cases step_any s [] hI hne with
  | go s2 h2 hok hlen _ =>
    rw [h2] at h; simp only [Except.ok.injEq, Prod.mk.injEq, true_and] at h
    subst h; exact ⟨hok, hlen⟩
  | part s2 h2 hok hnil _ =>
    rw [h2] at h; simp only [Except.ok.injEq, Prod.mk.injEq, true_and] at h
    subst h; exact ⟨hok, by simp [hnil]⟩
  | wait s2 h2 => rw [h2] at h; simp at h
  | fin s2 h2 => rw [h2] at h; simp at h
  | err h2 => rw [h2] at h; simp at h

theorem outc_nil (s : Dec) (h : s.buffer = []) : outc s = .ok s := by rw [outc_eq, if_pos h]

theorem outc_go (s s' : Dec) (hne : s.buffer ≠ []) (h : handler s = .ok (true, s')) : outc s = outc s' := by
  rw [outc_eq s, if_neg hne, h]

theorem outc_stop (s s' : Dec) (hne : s.buffer ≠ []) (h : handler s = .ok (false, s')) : outc s = .ok s' := by
  rw [outc_eq s, if_neg hne, h]

theorem outc_err (s : Dec) (e : Err) (hne : s.buffer ≠ []) (h : handler s = .error e) :
    outc s = .error (e, s.data, s.fin) := by
  rw [outc_eq s, if_neg hne, h]

theorem append_ne (s : Dec) (b : Bytes) (hne : s.buffer ≠ []) : (s.append b).buffer ≠ [] := by
  simp [Dec.append, hne]

/-- `finishCallback` gets what follows the terminating CRLF: at least two buffered bytes are not in it -/
theorem fin_bound : ∀ (n : Nat) (t : Dec), measure t < n → chunkedOK t → ∀ t', outc t = .ok t' →
    t'.state = .finished → ∃ extra, t'.fin = [extra] ∧ extra.length + 2 ≤ t.buffer.length := by
  intro n
  induction n with
  | zero => intro t h; omega
  | succ n ih =>
    intro t hn hI t' ho hf
    by_cases hne : t.buffer = []
    · rw [outc_nil t hne] at ho
      simp only [Except.ok.injEq] at ho
      subst ho; exact absurd hf hI.1
    · cases step_any t [] hI hne with
      | go s2 h2 hok hlen _ =>
        rw [outc_go t s2 hne h2] at ho
        have hm := handler_decreases t s2 hne h2
        obtain ⟨extra, e1, e2⟩ := ih s2 (by omega) hok t' ho hf
        exact ⟨extra, e1, by omega⟩
      | part s2 h2 hok hnil _ =>
        rw [outc_go t s2 hne h2, outc_nil s2 hnil] at ho
        simp only [Except.ok.injEq] at ho
        subst ho; exact absurd hf hok.1
      | wait s2 h2 hok =>
        rw [outc_stop t s2 hne h2] at ho
        simp only [Except.ok.injEq] at ho
        subst ho; exact absurd hf hok.1
      | fin s2 h2 hst hfin hlen _ =>
        rw [outc_stop t s2 hne h2] at ho
        simp only [Except.ok.injEq] at ho
        subst ho
        exact ⟨_, hfin, by simp only [List.length_drop]; omega⟩
      | err h2 => rw [outc_err t _ hne h2] at ho; simp at ho

/-- a decoder that wants more bytes completes only by consuming some of them -/
def Stuck (s' : Dec) : Prop :=
  ∀ b t' extra, outc (s'.append b) = .ok t' → t'.state = .finished → t'.fin = [extra] → extra.length < b.length

theorem stuck_nil (s : Dec) (hI : chunkedOK s) (h : s.buffer = []) : Stuck s := by
  intro b t' extra ho hf hfin
  obtain ⟨ex, e1, e2⟩ := fin_bound _ (s.append b) (Nat.lt_succ_self _) (chunkedOK_append s b hI) t' ho hf
  rw [hfin] at e1
  simp only [List.cons.injEq, and_true] at e1
  subst e1
  simp only [Dec.append, h, List.nil_append] at e2
  omega

theorem outc_stuck : ∀ (n : Nat) (s : Dec), measure s < n → chunkedOK s → ∀ s', outc s = .ok s' →
    s'.state ≠ .finished → Stuck s' := by
  intro n
  induction n with
  | zero => intro s h; omega
  | succ n ih =>
    intro s hn hI s' ho hnf
    by_cases hne : s.buffer = []
    · rw [outc_nil s hne] at ho
      simp only [Except.ok.injEq] at ho
      subst ho; exact stuck_nil s hI hne
    · intro b t' extra hob hf hfin
      cases step_any s b hI hne with
      | go s2 h2 hok hlen _ =>
        rw [outc_go s s2 hne h2] at ho
        have hm := handler_decreases s s2 hne h2
        exact ih s2 (by omega) hok s' ho hnf b t' extra hob hf hfin
      | part s2 h2 hok hnil _ =>
        rw [outc_go s s2 hne h2, outc_nil s2 hnil] at ho
        simp only [Except.ok.injEq] at ho
        subst ho
        exact stuck_nil s2 hok hnil b t' extra hob hf hfin
      | wait s2 h2 hok happ hstuck hstuckF =>
        rw [outc_stop s s2 hne h2] at ho
        simp only [Except.ok.injEq] at ho
        subst ho
        rw [hob] at happ
        cases hos : outc (s.append b) with
        | error x => rw [hos] at happ; simp [resRel] at happ
        | ok t2 =>
          rw [hos] at happ
          simp only [resRel] at happ
          have hf2 : t2.state = .finished := by rw [happ.1]; exact hf
          have hfin2 : t2.fin = [extra] := by rw [happ.1]; exact hfin
          have hne2 := append_ne s b hne
          cases hh : handler (s.append b) with
          | error e => rw [outc_err _ _ hne2 hh] at hos; simp at hos
          | ok p =>
            obtain ⟨g, u⟩ := p
            cases g with
            | false =>
              rw [outc_stop _ _ hne2 hh] at hos
              simp only [Except.ok.injEq] at hos
              subst hos
              exact hstuckF u hh hf2 extra hfin2
            | true =>
              rw [outc_go _ _ hne2 hh] at hos
              have hu := (handler_ok _ u (chunkedOK_append s b hI) hne2 hh).1
              obtain ⟨ex, e1, e2⟩ := fin_bound _ u (Nat.lt_succ_self _) hu t2 hos hf2
              rw [hfin2] at e1
              simp only [List.cons.injEq, and_true] at e1
              subst e1
              have := hstuck u hh
              omega
      | fin s2 h2 hst =>
        rw [outc_stop s s2 hne h2] at ho
        simp only [Except.ok.injEq] at ho
        subst ho; exact absurd hst hnf
      | err h2 => rw [outc_err s _ hne h2] at ho; simp at ho

/-- **the loop of `dataReceived` commutes with appending to the buffer**, for every decoder that
    has not finished and every buffer content, malformed or not -/
theorem outc_split : ∀ (n : Nat) (s : Dec), measure s < n → chunkedOK s → ∀ b,
    (∀ s', outc s = .ok s' → s'.state ≠ .finished →
      chunkedOK s' ∧ resRel (outc (s'.append b)) (outc (s.append b))) ∧
    (∀ s', outc s = .ok s' → s'.state = .finished →
      ∃ extra, s'.fin = [extra] ∧ outc (s.append b) = .ok { s' with fin := [extra ++ b] }) ∧
    (∀ x, outc s = .error x → x.1 = .malformed ∧ outc (s.append b) = .error x) := by
  intro n
  induction n with
  | zero => intro s h; omega
  | succ n ih =>
    intro s hn hI b
    by_cases hne : s.buffer = []
    · rw [outc_nil s hne]
      refine ⟨?_, ?_, ?_⟩
      · intro s' ho _
        simp only [Except.ok.injEq] at ho
        subst ho; exact ⟨hI, resRel.refl _⟩
      · intro s' ho hf
        simp only [Except.ok.injEq] at ho
        subst ho; exact absurd hf hI.1
      · intro x ho; simp at ho
    · have hne2 := append_ne s b hne
      cases step_any s b hI hne with
      | go s2 h2 hok hlen happ =>
        rw [outc_go s s2 hne h2, outc_go _ _ hne2 happ]
        have hm := handler_decreases s s2 hne h2
        exact ih s2 (by omega) hok b
      | part s2 h2 hok hnil happ =>
        rw [outc_go s s2 hne h2, outc_nil s2 hnil]
        refine ⟨?_, ?_, ?_⟩
        · intro s' ho _
          simp only [Except.ok.injEq] at ho
          subst ho; exact ⟨hok, happ⟩
        · intro s' ho hf
          simp only [Except.ok.injEq] at ho
          subst ho; exact absurd hf hok.1
        · intro x ho; simp at ho
      | wait s2 h2 hok happ =>
        rw [outc_stop s s2 hne h2]
        refine ⟨?_, ?_, ?_⟩
        · intro s' ho _
          simp only [Except.ok.injEq] at ho
          subst ho; exact ⟨hok, happ⟩
        · intro s' ho hf
          simp only [Except.ok.injEq] at ho
          subst ho; exact absurd hf hok.1
        · intro x ho; simp at ho
      | fin s2 h2 hst hfin hlen happ =>
        rw [outc_stop s s2 hne h2]
        refine ⟨?_, ?_, ?_⟩
        · intro s' ho hnf
          simp only [Except.ok.injEq] at ho
          subst ho; exact absurd hst hnf
        · intro s' ho _
          simp only [Except.ok.injEq] at ho
          subst ho
          exact ⟨_, hfin, outc_stop _ _ hne2 happ⟩
        · intro x ho; simp at ho
      | err h2 happ =>
        rw [outc_err s _ hne h2]
        refine ⟨?_, ?_, ?_⟩
        · intro s' ho; simp at ho
        · intro s' ho; simp at ho
        · intro x ho
          simp only [Except.error.injEq] at ho
          subst ho
          exact ⟨rfl, outc_err _ _ hne2 happ⟩

end TwistedProps.C18
