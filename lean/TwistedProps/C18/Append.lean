import TwistedProps.C18.Main
/-!
C18 lemmas, part 5: delivering `B ++ b` at once agrees with delivering `B`, then `b`.
-/
namespace TwistedProps.C18
open Twisted.Http.Chunked hiding St
open Twisted.Http.Channel

theorem step_line_none_long (app : App) (c : Chan) (B : Bytes) (hm : c.lineMode = true)
    (hf : findCRLF B 0 = none) (hlen : B.length ≥ maxLength + 2) :
    stepLoop app c B = ⟨{ c with closed := true }, [], [.lose], false⟩ := by
  simp [stepLoop, hm, hf, hlen]

theorem step_line_none_short (app : App) (c : Chan) (B : Bytes) (hm : c.lineMode = true)
    (hf : findCRLF B 0 = none) (hlen : ¬ B.length ≥ maxLength + 2) :
    stepLoop app c B = ⟨c, B, [], false⟩ := by
  simp [stepLoop, hm, hf, hlen]

theorem step_line_some_long (app : App) (c : Chan) (B : Bytes) (i : Nat) (hm : c.lineMode = true)
    (hf : findCRLF B 0 = some i) (hi : i > maxLength) :
    stepLoop app c B = ⟨{ c with closed := true }, [], [.lose], false⟩ := by
  simp [stepLoop, hm, hf, hi]

theorem step_line_some (app : App) (c : Chan) (B : Bytes) (i : Nat) (hm : c.lineMode = true)
    (hf : findCRLF B 0 = some i) (hi : ¬ i > maxLength) :
    stepLoop app c B =
      ⟨{ (lineReceived app c (B.take i)).1 with requeue := [] },
        B.drop (i + 2) ++ (lineReceived app c (B.take i)).1.requeue, (lineReceived app c (B.take i)).2,
        !(lineReceived app c (B.take i)).1.closed && (lineReceived app c (B.take i)).1.raised.isNone⟩ := by
  simp [stepLoop, hm, hf, hi]

theorem step_fin (app : App) (c : Chan) (X body e : Bytes) (hm : c.lineMode = false) (hh : c.handling = false)
    (hres : decFeed c.decoder X = .fin body e) :
    stepLoop app c X =
      ⟨{ (allContentReceived app { c with decoder := ofBody body, dataBuffer := c.dataBuffer ++ e }).1 with requeue := [] },
        (allContentReceived app { c with decoder := ofBody body, dataBuffer := c.dataBuffer ++ e }).1.requeue,
        (allContentReceived app { c with decoder := ofBody body, dataBuffer := c.dataBuffer ++ e }).2,
        (allContentReceived app { c with decoder := ofBody body, dataBuffer := c.dataBuffer ++ e }).1.raised.isNone⟩ := by
  rw [stepLoop_raw app c X hm, raw_eq' app c X hh, hres]
  rfl

theorem step_more (app : App) (c : Chan) (X : Bytes) (d : Decoder) (hm : c.lineMode = false) (hh : c.handling = false)
    (hres : decFeed c.decoder X = .more d) :
    stepLoop app c X = ⟨{ c with decoder := d, requeue := [] }, c.requeue, [], c.raised.isNone⟩ := by
  rw [stepLoop_raw app c X hm, raw_eq' app c X hh, hres]
  rfl

theorem step_bad (app : App) (c : Chan) (X : Bytes) (hm : c.lineMode = false) (hh : c.handling = false)
    (hres : decFeed c.decoder X = .bad) :
    stepLoop app c X = ⟨{ c with closed := true, requeue := [] }, c.requeue, [.write badRequestBytes, .lose], c.raised.isNone⟩ := by
  rw [stepLoop_raw app c X hm, raw_eq' app c X hh, hres]
  rfl

theorem step_exc (app : App) (c : Chan) (X : Bytes) (e : Exc) (hm : c.lineMode = false) (hh : c.handling = false)
    (hres : decFeed c.decoder X = .exc e) :
    stepLoop app c X = ⟨{ c with raised := some e, requeue := [] }, c.requeue, [], false⟩ := by
  rw [stepLoop_raw app c X hm, raw_eq' app c X hh, hres]
  rfl

/-- the raw step with a decoder that finishes: the three ways it goes on -/
theorem fin_agree (ok : Decoder → Prop) (H : SplitOK ok) (app : App) (n : Nat)
    (ih : ∀ (c : Chan) (B b : Bytes), B.length < n → Inv ok c → live c →
      Agree (D app c (B ++ b)) (seq app (D app c B) b))
    (c : Chan) (B b body extra : Bytes) (hn : B.length < n + 1) (hi : Inv ok c) (hl : live c) (hB : B ≠ [])
    (hm : c.lineMode = false) (hh : c.handling = false)
    (h1 : decFeed c.decoder B = .fin body extra) (h2 : decFeed c.decoder (B ++ b) = .fin body (extra ++ b)) :
    Agree (D app c (B ++ b)) (seq app (D app c B) b) := by
  have hBb : B ++ b ≠ [] := by simp [hB]
  have s1 := step_fin app c B body extra hm hh h1
  have s2 := step_fin app c (B ++ b) body (extra ++ b) hm hh h2
  obtain ⟨hlc, hlr⟩ := hl
  have hq := hi.i5
  have hdb := hi.i2 hh
  -- the channel handed to `allContentReceived`, without `_dataBuffer`
  generalize hcc : ({ c with decoder := ofBody body } : Chan) = cc at s1 s2
  have e1 : ({ c with decoder := ofBody body, dataBuffer := c.dataBuffer ++ extra } : Chan) =
      { cc with dataBuffer := c.dataBuffer ++ extra } := by rw [← hcc]
  have e2 : ({ c with decoder := ofBody body, dataBuffer := c.dataBuffer ++ (extra ++ b) } : Chan) =
      { cc with dataBuffer := c.dataBuffer ++ (extra ++ b) } := by rw [← hcc]
  rw [e1] at s1
  rw [e2] at s2
  have hccq : cc.requeue = [] := by rw [← hcc]; exact hq
  have hccc : cc.closed = false := by rw [← hcc]; exact hlc
  have hccr : cc.raised = none := by rw [← hcc]; exact hlr
  have hccd : cc.dead = false := by rw [← hcc]; exact hi.i4
  cases hd : doneNow app cc with
  | false =>
    rw [acr_later app cc _ hd] at s1 s2
    obtain ⟨f1, f2, f3, f4, f5⟩ := acr_later_fields app cc hd
    have g1 : (stepLoop app c B).goOn = true := by rw [s1]; simp [f5, hccr]
    have b1 : (stepLoop app c B).buffer = [] := by rw [s1]; simp [f3, hccq]
    have g2 : (stepLoop app c (B ++ b)).goOn = true := by rw [s2]; simp [f5, hccr]
    have b2 : (stepLoop app c (B ++ b)).buffer = [] := by rw [s2]; simp [f3, hccq]
    rw [D_go_nil app c B hB g1 b1, D_go_nil app c (B ++ b) hBb g2 b2, s1, s2]
    simp only
    have hlive : live ({ (allContentReceived app cc).1 with dataBuffer := c.dataBuffer ++ extra, requeue := [] } : Chan) :=
      ⟨by simp [f4, hccc], by simp [f5, hccr]⟩
    rw [seq_live _ _ _ hlive]
    by_cases hb : b = []
    · subst hb
      simp only [List.append_nil, D_nil, pre]
      exact Agree.refl _
    · obtain ⟨o, ho, hco⟩ := D_handling app
        ({ (allContentReceived app cc).1 with dataBuffer := c.dataBuffer ++ extra, requeue := [] } : Chan) b hb
        (by simp [f2]) (by simp [f1]) (by simp [f5, hccr]) rfl
      simp only [List.nil_append]
      rw [ho]
      refine ⟨rfl, rfl, ?_, fun _ => ⟨Or.inl ?_, rfl⟩⟩
      · simp [pre, core_append, hco]
      · simp [pre, List.append_assoc]
  | true =>
    cases hp : cc.persistent with
    | false =>
      rw [acr_close app cc _ hd hp] at s1 s2
      obtain ⟨f1, f2, f3⟩ := acr_close_fields app cc hd hp
      have g1 : (stepLoop app c B).goOn = true := by rw [s1]; simp [f3, hccr]
      have b1 : (stepLoop app c B).buffer = [] := by rw [s1]; simp [f2, hccq]
      have g2 : (stepLoop app c (B ++ b)).goOn = true := by rw [s2]; simp [f3, hccr]
      have b2 : (stepLoop app c (B ++ b)).buffer = [] := by rw [s2]; simp [f2, hccq]
      rw [D_go_nil app c B hB g1 b1, D_go_nil app c (B ++ b) hBb g2 b2, s1, s2]
      simp only
      have hdead : ¬ live ({ (allContentReceived app cc).1 with dataBuffer := c.dataBuffer ++ extra, requeue := [] } : Chan) := by
        intro h; have := h.1; simp [f1] at this
      rw [seq_dead _ _ _ hdead]
      exact agree_stopped _ _ rfl rfl rfl hdead
    | true =>
      rw [acr_next app cc _ hd hp] at s1 s2
      obtain ⟨f1, f2, f3, f4, f5, f6, f7, f8⟩ := acr_next_fields app cc hd hp
      rw [hccq] at s1 s2
      simp only [List.nil_append] at s1 s2
      -- the channel after the step does not depend on what followed the body
      generalize hc2 : ({ (allContentReceived app cc).1 with requeue := [] } : Chan) = c2 at s1 s2
      have s1' : stepLoop app c B = ⟨c2, c.dataBuffer ++ extra, (allContentReceived app cc).2, true⟩ := by
        rw [s1]; simp [← hc2, f6, hccr]
      have s2' : stepLoop app c (B ++ b) = ⟨c2, c.dataBuffer ++ (extra ++ b), (allContentReceived app cc).2, true⟩ := by
        rw [s2]; simp [← hc2, f6, hccr]
      have hl2 : live c2 := by rw [← hc2]; exact ⟨by simp [f5, hccc], by simp [f6, hccr]⟩
      have hi2 : Inv ok c2 := by
        rw [← hc2]
        exact ⟨fun _ => by simp [f1], fun _ => by simp [f3], fun _ _ => Or.inl (by simp [f4]),
          by simp [f7, hccd], rfl, by simp [f8]; exact H.none⟩
      by_cases hlt : (c.dataBuffer ++ extra).length < B.length
      · have hlt2 : (c.dataBuffer ++ (extra ++ b)).length < (B ++ b).length := by
          simp only [List.length_append] at hlt ⊢; omega
        rw [D_go app c B hB (by rw [s1']) (by rw [s1']; exact hlt),
            D_go app c (B ++ b) hBb (by rw [s2']) (by rw [s2']; exact hlt2), s1', s2']
        simp only
        rw [seq_pre, ← List.append_assoc]
        exact Agree.pre _ _ rfl (ih c2 _ b (by omega) hi2 hl2)
      · have hlt2 : ¬ (c.dataBuffer ++ (extra ++ b)).length < (B ++ b).length := by
          simp only [List.length_append] at hlt ⊢; omega
        rw [D_stuck app c B hB (by rw [s1']) (by rw [s1']; exact hlt),
            D_stuck app c (B ++ b) hBb (by rw [s2']) (by rw [s2']; exact hlt2), s1', s2']
        simp only
        have hdead : ¬ live ({ c2 with raised := some .stuck } : Chan) := by
          intro h; have := h.2; simp at this
        rw [seq_dead _ _ _ hdead]
        exact agree_stopped _ _ rfl rfl rfl hdead


/-- a raw step whose decoder verdict is the same on both sides, on channels that differ only in
    the decoder being replaced: the loops agree (used after a `more` verdict) -/
theorem second_raw_agree (ok : Decoder → Prop) (H : SplitOK ok) (app : App)
    (c : Chan) (d' : Decoder) (B b : Bytes) (hi : Inv ok c) (hl : live c) (hb : b ≠ [])
    (hm : c.lineMode = false) (hh : c.handling = false)
    (h1 : decFeed c.decoder B = .more d') :
    Agree (D app c (B ++ b)) (D app { c with decoder := d', requeue := [] } b) := by
  have hBb : B ++ b ≠ [] := by simp [hb]
  obtain ⟨hlc, hlr⟩ := hl
  have hq := hi.i5
  have hR := H.more _ B b _ hi.i6 h1
  have hc1 : ({ c with decoder := d', requeue := [] } : Chan) = { c with decoder := d' } := requeue_reset { c with decoder := d' } hq
  rw [hc1]
  cases hres : decFeed d' b with
  | bad =>
    rw [hres] at hR
    have hR := DRes.rel_bad hR
    have s1 := step_bad app { c with decoder := d' } b hm hh hres
    have s2 := step_bad app c (B ++ b) hm hh hR
    rw [D_go_nil app _ b hb (by rw [s1]; simp [hlr]) (by rw [s1]; exact hq),
        D_go_nil app c _ hBb (by rw [s2]; simp [hlr]) (by rw [s2]; exact hq), s1, s2]
    exact agree_stopped _ _ rfl rfl rfl (fun h => by have := h.1; simp at this)
  | exc e =>
    rw [hres] at hR
    have hR := DRes.rel_exc hR
    have s1 := step_exc app { c with decoder := d' } b e hm hh hres
    have s2 := step_exc app c (B ++ b) e hm hh hR
    rw [D_stop app _ b hb (by rw [s1]), D_stop app c _ hBb (by rw [s2]), s1, s2]
    exact agree_stopped _ _ rfl rfl rfl (fun h => by have := h.2; simp at this)
  | more d2 =>
    rw [hres] at hR
    obtain ⟨d3, hR, hrel⟩ := DRes.rel_more hR
    have s1 := step_more app { c with decoder := d' } b d2 hm hh hres
    have s2 := step_more app c (B ++ b) d3 hm hh hR
    rw [D_go_nil app _ b hb (by rw [s1]; simp [hlr]) (by rw [s1]; exact hq),
        D_go_nil app c _ hBb (by rw [s2]; simp [hlr]) (by rw [s2]; exact hq), s1, s2]
    refine ⟨rfl, rfl, rfl, fun _ => ⟨?_, rfl⟩⟩
    rcases hrel.symm with he | ⟨x, y, h1, h2, h3⟩
    · subst he; exact chanRel.refl _
    · subst h1 h2
      exact Or.inr ⟨hm, hh, x, y, rfl, rfl, h3⟩
  | fin body e =>
    rw [hres] at hR
    have hR := DRes.rel_fin hR
    have s1 := step_fin app { c with decoder := d' } b body e hm hh hres
    have s2 := step_fin app c (B ++ b) body e hm hh hR
    have hprog := H.prog _ B b _ body e hi.i6 h1 hres
    have hdb := hi.i2 hh
    -- both steps are the same step
    have hs : stepLoop app c (B ++ b) = stepLoop app { c with decoder := d' } b := by rw [s1, s2]
    generalize hcc : ({ c with decoder := ofBody body } : Chan) = cc at s1 s2
    have hccq : cc.requeue = [] := by rw [← hcc]; exact hq
    have e1 : ({ c with decoder := ofBody body, dataBuffer := c.dataBuffer ++ e } : Chan) =
        { cc with dataBuffer := e } := by rw [← hcc, hdb]; rfl
    have e1' : ∀ x : Chan, x = { c with decoder := d' } →
        ({ x with decoder := ofBody body, dataBuffer := x.dataBuffer ++ e } : Chan) = { cc with dataBuffer := e } := by
      intro x hx; rw [← hcc, hx]; simp [hdb]
    rw [e1' _ rfl] at s1
    -- the buffer the step leaves is shorter than `b`
    have hshort : (stepLoop app { c with decoder := d' } b).buffer.length < b.length := by
      rw [s1]
      simp only
      cases hd : doneNow app cc with
      | false =>
        rw [acr_later app cc _ hd]
        have := (acr_later_fields app cc hd).2.2.1
        simp only [this, hccq]
        exact List.length_pos_iff.mpr hb
      | true =>
        by_cases hp : cc.persistent = true
        · rw [acr_next app cc _ hd hp]
          simp only [hccq, List.nil_append]
          exact hprog
        · have hp' : cc.persistent = false := by simpa using hp
          rw [acr_close app cc _ hd hp']
          have := (acr_close_fields app cc hd hp').2.1
          simp only [this, hccq]
          exact List.length_pos_iff.mpr hb
    have hshort2 : (stepLoop app c (B ++ b)).buffer.length < (B ++ b).length := by
      rw [hs]; simp only [List.length_append]; omega
    by_cases hgo : (stepLoop app { c with decoder := d' } b).goOn = true
    · rw [D_go app _ b hb hgo hshort, D_go app c _ hBb (by rw [hs]; exact hgo) hshort2, hs]
      exact Agree.refl _
    · have hgo' : (stepLoop app { c with decoder := d' } b).goOn = false := Bool.eq_false_iff.mpr hgo
      rw [D_stop app _ b hb hgo', D_stop app c _ hBb (by rw [hs]; exact hgo'), hs]
      exact Agree.refl _

/-- **the receive loop commutes with appending**: running it on `B ++ b` agrees with running it
    on `B` and then (if the connection is still up) on what is left followed by `b` -/
theorem D_append (ok : Decoder → Prop) (H : SplitOK ok) (app : App) :
    ∀ (n : Nat) (c : Chan) (B b : Bytes), B.length < n → Inv ok c → live c →
      Agree (D app c (B ++ b)) (seq app (D app c B) b) := by
  intro n
  induction n with
  | zero => intro c B b h; omega
  | succ n ih =>
    intro c B b hn hi hl
    by_cases hB : B = []
    · subst hB
      rw [D_nil, seq_live _ _ _ hl]
      exact Agree.refl _
    · have hBb : B ++ b ≠ [] := by simp [hB]
      have hBpos : 0 < B.length := List.length_pos_iff.mpr hB
      by_cases hm : c.lineMode = true
      · -- line mode
        cases hf : findCRLF B 0 with
        | none =>
          by_cases hlen : B.length ≥ maxLength + 2
          · have s1 := step_line_none_long app c B hm hf hlen
            have s2 : stepLoop app c (B ++ b) = ⟨{ c with closed := true }, [], [.lose], false⟩ := by
              cases hf2 : findCRLF (B ++ b) 0 with
              | none => exact step_line_none_long app c _ hm hf2 (by simp only [List.length_append]; omega)
              | some j =>
                have := find0_append_none B b j hf hf2
                exact step_line_some_long app c _ j hm hf2 (by omega)
            rw [D_stop app c B hB (by rw [s1]), D_stop app c _ hBb (by rw [s2]), s1, s2]
            have hdead : ¬ live ({ c with closed := true } : Chan) := fun h => by have := h.1; simp at this
            rw [seq_dead _ _ _ hdead]
            exact Agree.refl _
          · have s1 := step_line_none_short app c B hm hf hlen
            rw [D_stop app c B hB (by rw [s1]), s1]
            simp only
            rw [seq_live _ _ _ hl]
            exact Agree.refl _
        | some i =>
          obtain ⟨hf2, hle⟩ := find0_append_some B b i hf
          by_cases hi' : i > maxLength
          · have s1 := step_line_some_long app c B i hm hf hi'
            have s2 := step_line_some_long app c (B ++ b) i hm hf2 hi'
            rw [D_stop app c B hB (by rw [s1]), D_stop app c _ hBb (by rw [s2]), s1, s2]
            have hdead : ¬ live ({ c with closed := true } : Chan) := fun h => by have := h.1; simp at this
            rw [seq_dead _ _ _ hdead]
            exact Agree.refl _
          · have s1 := step_line_some app c B i hm hf hi'
            have s2 := step_line_some app c (B ++ b) i hm hf2 hi'
            have ht : (B ++ b).take i = B.take i := List.take_append_of_le_length (by omega)
            have hdr : (B ++ b).drop (i + 2) = B.drop (i + 2) ++ b := List.drop_append_of_le_length hle
            rw [ht, hdr] at s2
            have hinv := lineReceived_inv ok H app c (B.take i) hi hl hm
            generalize hr : lineReceived app c (B.take i) = r at s1 s2 hinv
            have hrq : r.1.requeue = [] := hinv.i5
            rw [hrq, requeue_reset r.1 hrq] at s1 s2
            simp only [List.append_nil] at s1 s2
            have hlt : (B.drop (i + 2)).length < B.length := by simp only [List.length_drop]; omega
            have hlt2 : (B.drop (i + 2) ++ b).length < (B ++ b).length := by
              simp only [List.length_append, List.length_drop]; omega
            by_cases hgo : (!r.1.closed && r.1.raised.isNone) = true
            · have hl1 : live r.1 := by
                simp only [Bool.and_eq_true, Bool.not_eq_true', Option.isNone_iff_eq_none] at hgo
                exact hgo
              rw [D_go app c B hB (by rw [s1]; exact hgo) (by rw [s1]; exact hlt),
                  D_go app c _ hBb (by rw [s2]; exact hgo) (by rw [s2]; exact hlt2), s1, s2]
              simp only
              rw [seq_pre]
              exact Agree.pre _ _ rfl (ih r.1 _ b (by omega) hinv hl1)
            · have hgo' : (!r.1.closed && r.1.raised.isNone) = false := Bool.eq_false_iff.mpr hgo
              rw [D_stop app c B hB (by rw [s1]; exact hgo'), D_stop app c _ hBb (by rw [s2]; exact hgo'), s1, s2]
              simp only
              have hdead : ¬ live r.1 := by
                intro h
                simp [h.1, h.2] at hgo'
              rw [seq_dead _ _ _ hdead]
              exact agree_stopped _ _ rfl rfl rfl hdead
      · -- raw mode
        have hm' : c.lineMode = false := by simpa using hm
        obtain ⟨hlc, hlr⟩ := hl
        have hq := hi.i5
        by_cases hh : c.handling = true
        · obtain ⟨o1, ho1, hc1⟩ := D_handling app c B hB hm' hh hlr hq
          rw [ho1]
          have hl1 : live ({ c with dataBuffer := c.dataBuffer ++ B } : Chan) := ⟨hlc, hlr⟩
          rw [seq_live _ _ _ hl1]
          simp only [List.nil_append]
          obtain ⟨o2, ho2, hc2⟩ := D_handling app c (B ++ b) hBb hm' hh hlr hq
          rw [ho2]
          by_cases hb : b = []
          · subst hb
            rw [D_nil]
            refine ⟨rfl, rfl, ?_, fun _ => ⟨Or.inl (by simp [pre]), by simp [pre]⟩⟩
            simp [pre, hc1, hc2]
          · obtain ⟨o3, ho3, hc3⟩ := D_handling app { c with dataBuffer := c.dataBuffer ++ B } b hb hm' hh hlr hq
            rw [ho3]
            refine ⟨rfl, rfl, ?_, fun _ => ⟨Or.inl (by simp [pre, List.append_assoc]), by simp [pre]⟩⟩
            simp [pre, core_append, hc1, hc2, hc3]
        · have hh' : c.handling = false := by simpa using hh
          cases hres : decFeed c.decoder B with
          | bad =>
            have s1 := step_bad app c B hm' hh' hres
            have s2 := step_bad app c (B ++ b) hm' hh' (H.bad _ B b hi.i6 hres)
            rw [D_go_nil app c B hB (by rw [s1]; simp [hlr]) (by rw [s1]; exact hq),
                D_go_nil app c _ hBb (by rw [s2]; simp [hlr]) (by rw [s2]; exact hq), s1, s2]
            simp only
            have hdead : ¬ live ({ c with closed := true, requeue := [] } : Chan) := fun h => by have := h.1; simp at this
            rw [seq_dead _ _ _ hdead]
            exact Agree.refl _
          | exc e =>
            have s1 := step_exc app c B e hm' hh' hres
            have s2 := step_exc app c (B ++ b) e hm' hh' (H.exc _ B b e hi.i6 hres)
            rw [D_stop app c B hB (by rw [s1]), D_stop app c _ hBb (by rw [s2]), s1, s2]
            simp only
            have hdead : ¬ live ({ c with raised := some e, requeue := [] } : Chan) := fun h => by have := h.2; simp at this
            rw [seq_dead _ _ _ hdead]
            exact Agree.refl _
          | more d' =>
            have s1 := step_more app c B d' hm' hh' hres
            rw [D_go_nil app c B hB (by rw [s1]; simp [hlr]) (by rw [s1]; exact hq), s1]
            simp only
            have hl1 : live ({ c with decoder := d', requeue := [] } : Chan) := ⟨hlc, hlr⟩
            rw [seq_live _ _ _ hl1]
            simp only [List.nil_append, pre_nil]
            by_cases hb : b = []
            · subst hb
              rw [D_nil, List.append_nil, D_go_nil app c B hB (by rw [s1]; simp [hlr]) (by rw [s1]; exact hq), s1]
              exact Agree.refl _
            · exact second_raw_agree ok H app c d' B b hi ⟨hlc, hlr⟩ hb hm' hh' hres
          | fin body extra =>
            exact fin_agree ok H app n ih c B b body extra hn hi ⟨hlc, hlr⟩ hB hm' hh' hres
              (H.fin _ B b body extra hi.i6 hres)

/-- **related channels run alike**: in raw mode the whole delivery goes to the decoder, whose
    verdicts are related (`SplitOK.cong`); a completed body, a rejection or an exception leave no
    trace of the decoder -/
theorem D_rel (ok : Decoder → Prop) (H : SplitOK ok) (app : App) (c1 c2 : Chan) (Y : Bytes)
    (h : chanRel c1 c2) (hi : Inv ok c2) (hl : live c2) : Agree (D app c1 Y) (D app c2 Y) := by
  rcases h with h | ⟨hm, hh, a, b, h1, h2, h3⟩
  · subst h; exact Agree.refl _
  · by_cases hY : Y = []
    · subst hY
      rw [D_nil, D_nil]
      exact ⟨by rw [h2], by rw [h2], rfl, fun _ => ⟨Or.inr ⟨hm, hh, a, b, h1, h2, h3⟩, rfl⟩⟩
    · obtain ⟨hlc, hlr⟩ := hl
      have hq := hi.i5
      have hm2 : c2.lineMode = false := by rw [h2]; exact hm
      have hh2 : c2.handling = false := by rw [h2]; exact hh
      have hd2 : c2.decoder = .chunked b := by rw [h2]
      have hq1 : c1.requeue = [] := by rw [h2] at hq; exact hq
      have hlr1 : c1.raised = none := by rw [h2] at hlr; exact hlr
      have hrel : DRes.rel (decFeed c1.decoder Y) (decFeed c2.decoder Y) := by
        rw [h1, hd2]
        exact H.cong _ _ Y (by rw [← hd2]; exact hi.i6) (Or.inr ⟨a, b, rfl, rfl, h3⟩)
      cases hres : decFeed c1.decoder Y with
      | bad =>
        rw [hres] at hrel
        have s1 := step_bad app c1 Y hm hh hres
        have s2 := step_bad app c2 Y hm2 hh2 (DRes.rel_bad hrel)
        rw [D_go_nil app c1 Y hY (by rw [s1]; simp [hlr1]) (by rw [s1]; exact hq1),
            D_go_nil app c2 Y hY (by rw [s2]; simp [hlr]) (by rw [s2]; exact hq), s1, s2]
        exact agree_stopped _ _ rfl (by simp [hlr, hlr1]) rfl (fun h => by have := h.1; simp at this)
      | exc e =>
        rw [hres] at hrel
        have s1 := step_exc app c1 Y e hm hh hres
        have s2 := step_exc app c2 Y e hm2 hh2 (DRes.rel_exc hrel)
        rw [D_stop app c1 Y hY (by rw [s1]), D_stop app c2 Y hY (by rw [s2]), s1, s2]
        exact agree_stopped _ _ (by rw [h2]) rfl rfl (fun h => by have := h.2; simp at this)
      | more d1 =>
        rw [hres] at hrel
        obtain ⟨d3, hR, hr⟩ := DRes.rel_more hrel
        have s1 := step_more app c1 Y d1 hm hh hres
        have s2 := step_more app c2 Y d3 hm2 hh2 hR
        rw [D_go_nil app c1 Y hY (by rw [s1]; simp [hlr1]) (by rw [s1]; exact hq1),
            D_go_nil app c2 Y hY (by rw [s2]; simp [hlr]) (by rw [s2]; exact hq), s1, s2]
        refine ⟨by rw [h2], by rw [h2], rfl, fun _ => ⟨?_, rfl⟩⟩
        rcases hr with he | ⟨x, y, g1, g2, g3⟩
        · subst he; rw [h2]; exact chanRel.refl _
        · subst g1 g2
          rw [h2]
          exact Or.inr ⟨hm, hh, x, y, rfl, rfl, g3⟩
      | fin body e =>
        rw [hres] at hrel
        have s1 := step_fin app c1 Y body e hm hh hres
        have s2 := step_fin app c2 Y body e hm2 hh2 (DRes.rel_fin hrel)
        have hs : stepLoop app c1 Y = stepLoop app c2 Y := by
          rw [s1, s2, h2]
        have hE : ¬ (Y.isEmpty = true) := by simpa using hY
        rw [D_eq app c1 Y, D_eq app c2 Y, if_neg hE, if_neg hE, hs]
        exact Agree.refl _

end TwistedProps.C18
