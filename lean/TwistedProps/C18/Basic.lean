import TwistedModel.Http.Channel
/-!
C18 lemmas, part 1: `find(b"\r\n")` under appending, fuel of the receive loop, outputs without
producer calls.
-/
namespace TwistedProps.C18
open Twisted.Http.Chunked hiding St
open Twisted.Http.Channel

/-! ### `findCRLF` and appending -/

theorem find_append_some (B b : Bytes) (k i : Nat) (h : findCRLFFrom B k = some i) :
    findCRLFFrom (B ++ b) k = some i := by
  induction B generalizing k with
  | nil => simp [findCRLFFrom] at h
  | cons c rest ih =>
    simp only [findCRLFFrom, List.cons_append] at h ⊢
    split at h
    · rename_i hc
      have : (rest ++ b).head? = some LF := by
        cases rest with
        | nil => simp at hc
        | cons d r => simpa using hc.2
      simp [hc.1, this]; simpa using h
    · rename_i hc
      have hc' : ¬(c = CR ∧ (rest ++ b).head? = some LF) ∨ rest = [] := by
        cases rest with
        | nil => exact Or.inr rfl
        | cons d r => left; simpa using hc
      rcases hc' with hc' | hr
      · rw [if_neg hc']; exact ih _ h
      · subst hr; simp [findCRLFFrom] at h

theorem find_append_none (B b : Bytes) (k i : Nat) (h : findCRLFFrom B k = none)
    (h2 : findCRLFFrom (B ++ b) k = some i) : k + B.length ≤ i + 1 := by
  induction B generalizing k with
  | nil =>
    have := findCRLFFrom_lt _ _ _ h2
    simp at h2 ⊢
    clear this
    -- the index of an occurrence is at least the start index
    have : ∀ (l : Bytes) (k i : Nat), findCRLFFrom l k = some i → k ≤ i := by
      intro l
      induction l with
      | nil => intro k i h; simp [findCRLFFrom] at h
      | cons c r ih =>
        intro k i h
        simp only [findCRLFFrom] at h
        split at h
        · simp at h; omega
        · have := ih _ _ h; omega
    have := this _ _ _ h2
    omega
  | cons c rest ih =>
    simp only [findCRLFFrom, List.cons_append] at h h2
    split at h
    · simp at h
    · rename_i hc
      split at h2
      · rename_i hc2
        simp at h2
        subst h2
        -- `c = CR`, next byte is LF in `rest ++ b` but not in `rest`: `rest = []`
        cases rest with
        | nil => simp
        | cons d r => exact absurd ⟨hc2.1, by simpa using hc2.2⟩ hc
      · have := ih _ h h2
        simp; omega

theorem findCRLF_zero (B : Bytes) : findCRLF B 0 = findCRLFFrom B 0 := by simp [findCRLF]

theorem find0_append_some (B b : Bytes) (i : Nat) (h : findCRLF B 0 = some i) :
    findCRLF (B ++ b) 0 = some i ∧ i + 2 ≤ B.length := by
  rw [findCRLF_zero] at h ⊢
  exact ⟨find_append_some _ _ _ _ h, by have := findCRLFFrom_lt _ _ _ h; omega⟩

theorem find0_append_none (B b : Bytes) (i : Nat) (h : findCRLF B 0 = none)
    (h2 : findCRLF (B ++ b) 0 = some i) : B.length ≤ i + 1 := by
  rw [findCRLF_zero] at h h2
  have := find_append_none _ _ _ _ h h2
  omega

/-! ### fuel of the receive loop -/

theorem drain_fuel (app : App) : ∀ (n m : Nat) (c : Chan) (B : Bytes), B.length < n → B.length < m →
    drain app n c B = drain app m c B := by
  intro n
  induction n with
  | zero => intro m c B h; omega
  | succ n ih =>
    intro m c B hn hm
    cases m with
    | zero => omega
    | succ m =>
      simp only [drain]
      split
      · rfl
      · split
        · rfl
        · split
          · rename_i hlt
            rw [ih m _ _ (by omega) (by omega)]
          · rfl

/-- the loop with the fuel `dataReceived` gives it -/
def D (app : App) (c : Chan) (B : Bytes) : Chan × Bytes × List Out := drain app (B.length + 1) c B

theorem drain_succ (app : App) (n : Nat) (c : Chan) (B : Bytes) :
    drain app (n + 1) c B =
      if B.isEmpty then (c, B, [])
      else
        let r := stepLoop app c B
        if !r.goOn then (r.chan, r.buffer, r.outs)
        else if r.buffer.length < B.length then
          ((drain app n r.chan r.buffer).1, (drain app n r.chan r.buffer).2.1, r.outs ++ (drain app n r.chan r.buffer).2.2)
        else ({ r.chan with raised := some .stuck }, r.buffer, r.outs) := rfl

theorem D_eq (app : App) (c : Chan) (B : Bytes) :
    D app c B =
      if B.isEmpty then (c, B, [])
      else
        let r := stepLoop app c B
        if !r.goOn then (r.chan, r.buffer, r.outs)
        else if r.buffer.length < B.length then
          ((D app r.chan r.buffer).1, (D app r.chan r.buffer).2.1, r.outs ++ (D app r.chan r.buffer).2.2)
        else ({ r.chan with raised := some .stuck }, r.buffer, r.outs) := by
  show drain app (B.length + 1) c B = _
  rw [drain_succ]
  by_cases hB : B.isEmpty = true
  · simp [hB]
  · simp only [hB]
    by_cases hg : (!(stepLoop app c B).goOn) = true
    · simp [hg]
    · simp only [hg]
      by_cases hlt : (stepLoop app c B).buffer.length < B.length
      · simp only [hlt, if_true]
        rw [drain_fuel app B.length ((stepLoop app c B).buffer.length + 1) _ _ hlt (by omega)]
        rfl
      · simp only [hlt, if_false]

theorem D_nil (app : App) (c : Chan) : D app c [] = (c, [], []) := by
  rw [D_eq]; simp

/-! ### outputs without the producer calls on the transport -/

def isTp : Out → Bool
  | .tpause _ => true
  | _ => false

/-- everything the connection did except `transport.pauseProducing()/resumeProducing()` -/
def core (o : List Out) : List Out := o.filter fun x => !isTp x

theorem core_append (a b : List Out) : core (a ++ b) = core a ++ core b := by simp [core]

theorem written_core (o : List Out) : written (core o) = written o := by
  induction o with
  | nil => rfl
  | cons x r ih => cases x <;> simp [core, isTp, written] at ih ⊢ <;> simp [ih]

theorem delivered_core (o : List Out) : delivered (core o) = delivered o := by
  induction o with
  | nil => rfl
  | cons x r ih => cases x <;> simp [core, isTp, delivered] at ih ⊢ <;> simp [ih]

end TwistedProps.C18
