import TwistedProps.C18.Basic
import TwistedProps.C22.Run
/-!
C18 lemmas: `bytes.find(b"\r\n", start)` of the chunked decoder under appending to its buffer
(a found terminator stays where it is; a missing one can only appear at the last buffered byte or
later, so restarting the search at `len(buffer) - 1` — what `_start` does — loses nothing).
-/
namespace TwistedProps.C18
open Twisted.Http.Chunked hiding St
open TwistedProps.C22 (loop_eq)

/-! ### `buf.find(b"\r\n", start)` and appending -/

theorem findFrom_ge (x : Bytes) (i e : Nat) (h : findCRLFFrom x i = some e) : i ≤ e := by
  induction x generalizing i with
  | nil => simp [findCRLFFrom] at h
  | cons c x ih =>
    simp only [findCRLFFrom] at h
    split at h
    · simp at h; omega
    · have := ih _ h; omega

/-- restarting the search at the last buffered byte loses nothing when the buffered bytes had no match -/
theorem findFrom_restart (x b : Bytes) (i : Nat) (h : findCRLFFrom x i = none) (hx : x ≠ []) :
    findCRLFFrom (x ++ b) i = findCRLFFrom ((x ++ b).drop (x.length - 1)) (i + (x.length - 1)) := by
  induction x generalizing i with
  | nil => exact absurd rfl hx
  | cons c x ih =>
    cases x with
    | nil => simp
    | cons d x =>
      simp only [findCRLFFrom] at h
      split at h
      · simp at h
      · rename_i hc
        have hc' : ¬ (c = CR ∧ (d :: x ++ b).head? = some LF) := by simpa using hc
        rw [List.cons_append, findCRLFFrom, if_neg hc']
        rw [ih _ h (by simp)]
        simp only [List.length_cons, Nat.add_sub_cancel]
        have : i + 1 + x.length = i + (x.length + 1) := by omega
        rw [this]
        rfl

theorem findCRLF_append_some (buf b : Bytes) (st e : Nat) (hst : st ≤ buf.length)
    (h : findCRLF buf st = some e) : findCRLF (buf ++ b) st = some e := by
  unfold findCRLF at h ⊢
  rw [List.drop_append_of_le_length hst]
  exact find_append_some _ _ _ _ h

theorem findCRLF_bounds (buf : Bytes) (st e : Nat) (hst : st ≤ buf.length)
    (h : findCRLF buf st = some e) : st ≤ e ∧ e + 2 ≤ buf.length := by
  refine ⟨findFrom_ge _ _ _ h, ?_⟩
  rcases findCRLF_lt _ _ _ h with h1 | h1
  · exact h1
  · have := findCRLFFrom_lt _ _ _ h
    simp at this; omega

theorem findCRLF_append_none (buf b : Bytes) (st e : Nat) (hst : st ≤ buf.length)
    (h : findCRLF buf st = none) (h2 : findCRLF (buf ++ b) st = some e) : buf.length ≤ e + 1 := by
  unfold findCRLF at h h2
  rw [List.drop_append_of_le_length hst] at h2
  have := find_append_none _ _ _ _ h h2
  simp at this; omega

theorem findCRLF_restart (buf b : Bytes) (st : Nat) (hst : st < buf.length)
    (h : findCRLF buf st = none) : findCRLF (buf ++ b) st = findCRLF (buf ++ b) (buf.length - 1) := by
  unfold findCRLF at h ⊢
  rw [List.drop_append_of_le_length (Nat.le_of_lt hst)]
  have hne : buf.drop st ≠ [] := by
    intro hh
    have := congrArg List.length hh
    simp at this; omega
  rw [findFrom_restart _ b st h hne]
  have e1 : st + ((buf.drop st).length - 1) = buf.length - 1 := by simp; omega
  rw [e1]
  congr 1
  rw [← List.drop_append_of_le_length (Nat.le_of_lt hst), List.drop_drop, e1]

/-- a match at index 0 means the buffer starts with CRLF -/
theorem findCRLF_at_zero (buf : Bytes) (st : Nat) (hst : st ≤ buf.length) (h : findCRLF buf st = some 0) :
    ∃ rest, buf = CR :: LF :: rest := by
  have h0 : st = 0 := by have := (findCRLF_bounds _ _ _ hst h).1; omega
  subst h0
  unfold findCRLF at h
  simp only [List.drop_zero] at h
  cases buf with
  | nil => simp [findCRLFFrom] at h
  | cons c x =>
    simp only [findCRLFFrom] at h
    split at h
    · rename_i hc
      cases x with
      | nil => simp at hc
      | cons d x => simp at hc; exact ⟨x, by rw [hc.1, hc.2]⟩
    · have := findFrom_ge _ _ _ h; omega

/-- … and when the buffered bytes do not end in CR, it starts after them -/
theorem findFrom_append_none_noCR (x b : Bytes) (i e : Nat) (h : findCRLFFrom x i = none)
    (hcr : x.getLast? ≠ some CR) (h2 : findCRLFFrom (x ++ b) i = some e) : i + x.length ≤ e := by
  induction x generalizing i with
  | nil => have := findFrom_ge _ _ _ h2; simpa using this
  | cons c x ih =>
    simp only [findCRLFFrom] at h
    split at h
    · simp at h
    · rename_i hc
      simp only [List.cons_append, findCRLFFrom] at h2
      split at h2
      · rename_i hc2
        cases x with
        | nil => simp [hc2.1] at hcr
        | cons d x => exact absurd ⟨hc2.1, by simpa using hc2.2⟩ hc
      · have hcr' : x.getLast? ≠ some CR := by
          cases x with
          | nil => simp
          | cons d x => simpa [List.getLast?_cons_cons] using hcr
        have := ih _ h hcr' h2
        simp; omega

theorem findCRLF_append_none_noCR (buf b : Bytes) (st e : Nat) (hst : st < buf.length)
    (h : findCRLF buf st = none) (hcr : buf.getLast? ≠ some CR)
    (h2 : findCRLF (buf ++ b) st = some e) : buf.length ≤ e := by
  unfold findCRLF at h h2
  rw [List.drop_append_of_le_length (Nat.le_of_lt hst)] at h2
  have hcr' : (buf.drop st).getLast? ≠ some CR := by
    rw [List.getLast?_drop]; simp [hst]
    intro hh; exact hcr hh
  have := findFrom_append_none_noCR _ _ _ _ h hcr' h2
  simp at this; omega

end TwistedProps.C18
