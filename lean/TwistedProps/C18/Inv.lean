import TwistedProps.C18.Dec
/-!
C18 lemmas, part 3: the invariant of the channel between iterations of the receive loop.
-/
namespace TwistedProps.C18
open Twisted.Http.Chunked hiding St
open Twisted.Http.Channel

structure Inv (ok : Decoder → Prop) (c : Chan) : Prop where
  /-- line mode only while no request is being handled -/
  i1 : c.lineMode = true → c.handling = false
  /-- `_dataBuffer` is empty unless a request is being handled -/
  i2 : c.handling = false → c.dataBuffer = []
  /-- a first line is only awaited on a persistent (or already closing) connection -/
  i3 : c.lineMode = true → c.firstLine ≠ 0 → c.persistent = true ∨ c.closed = true
  i4 : c.dead = false
  i5 : c.requeue = []
  i6 : ok c.decoder

/-- still open and no exception -/
def live (c : Chan) : Prop := c.closed = false ∧ c.raised = none

/-- the fields the invariant talks about are untouched -/
def Same (c c' : Chan) : Prop :=
  c'.lineMode = c.lineMode ∧ c'.handling = c.handling ∧ c'.dataBuffer = c.dataBuffer ∧
  c'.firstLine = c.firstLine ∧ c'.persistent = c.persistent ∧ c'.dead = c.dead ∧ c'.requeue = c.requeue

theorem Same.refl (c : Chan) : Same c c := ⟨rfl, rfl, rfl, rfl, rfl, rfl, rfl⟩

theorem same_badRequest (c : Chan) : Same c (badRequest c).1 := ⟨rfl, rfl, rfl, rfl, rfl, rfl, rfl⟩
theorem same_failChoose (c : Chan) : Same c (failChoose c).1 := ⟨rfl, rfl, rfl, rfl, rfl, rfl, rfl⟩

theorem maybeChoose_same (ok : Decoder → Prop) (H : SplitOK ok) (c : Chan) (h d : Bytes) :
    Same c (maybeChoose c h d).1.1 ∧ (ok c.decoder → ok (maybeChoose c h d).1.1.decoder) := by
  unfold maybeChoose
  split
  · split
    · exact ⟨same_failChoose c, id⟩
    · split
      · exact ⟨same_failChoose c, id⟩
      · split
        · exact ⟨same_failChoose c, id⟩
        · exact ⟨Same.refl c, fun _ => H.ident _⟩
  · split
    · split
      · split
        · exact ⟨same_failChoose c, id⟩
        · exact ⟨Same.refl c, fun _ => H.chunked⟩
      · split
        · exact ⟨Same.refl c, id⟩
        · exact ⟨same_failChoose c, id⟩
    · exact ⟨Same.refl c, id⟩

theorem headerReceived_same (ok : Decoder → Prop) (H : SplitOK ok) (c : Chan) (l : Bytes) :
    Same c (headerReceived c l).1.1 ∧ (ok c.decoder → ok (headerReceived c l).1.1.decoder) := by
  unfold headerReceived
  cases hs : splitOnce COLON l with
  | none => exact ⟨same_badRequest c, id⟩
  | some p =>
    obtain ⟨name, data⟩ := p
    dsimp only
    cases he : encodeName name with
    | none => exact ⟨same_badRequest c, id⟩
    | some header =>
      dsimp only
      split
      · exact ⟨same_badRequest c, id⟩
      · have hm := maybeChoose_same ok H c header (stripSpTab data)
        split
        · rename_i heq
          rw [heq] at hm
          exact hm
        · rename_i heq
          rw [heq] at hm
          split
          · exact hm
          · exact hm

/-- the three ways `allContentReceived` leaves the channel -/
theorem acr_cases (app : App) (c : Chan) :
    let r := (allContentReceived app c).1
    r.dead = c.dead ∧ r.decoder = .none ∧ r.firstLine = 1 ∧ r.raised = c.raised ∧
    ((r.handling = true ∧ r.lineMode = false ∧ r.requeue = c.requeue ∧ r.dataBuffer = c.dataBuffer) ∨
     (r.handling = false ∧ r.lineMode = true ∧ r.requeue = c.requeue ++ c.dataBuffer ∧ r.dataBuffer = [] ∧
        r.persistent = true ∧ r.closed = c.closed)) := by
  unfold allContentReceived
  dsimp only
  split
  · by_cases hp : c.persistent = true
    · simp [requestDoneBusy, requestDoneCore, hp]
    · simp [requestDoneBusy, requestDoneCore, hp]
  · simp

theorem lineReceived_inv (ok : Decoder → Prop) (H : SplitOK ok) (app : App) (c : Chan) (l : Bytes)
    (hi : Inv ok c) (hl : live c) (hm : c.lineMode = true) : Inv ok (lineReceived app c l).1 := by
  obtain ⟨i1, i2, i3, i4, i5, i6⟩ := hi
  have hh := i1 hm
  have hdb := i2 hh
  unfold lineReceived
  rw [if_neg (by simp [i4])]
  simp only
  split
  · exact ⟨i1, i2, fun a b => (i3 a b).elim Or.inl (fun _ => Or.inr rfl), i4, i5, i6⟩
  · split
    · rename_i hf
      have hp : c.persistent = true := by
        rcases i3 hm hf with h | h
        · exact h
        · rw [hl.1] at h; exact absurd h (by simp)
      rw [if_neg (by simp [hp])]
      split
      · exact ⟨i1, i2, fun _ _ => Or.inl hp, i4, i5, i6⟩
      · split
        · exact ⟨i1, i2, fun _ h => absurd rfl h, i4, i5, i6⟩
        · exact ⟨i1, i2, fun _ h => absurd rfl h, i4, i5, i6⟩
    · rename_i hf
      have hf0 : c.firstLine = 0 := by simpa using hf
      split
      · -- blank line: end of headers
        have hr : ∀ r : (Chan × List Out) × Bool,
            (Same { c with hdrSize := c.hdrSize + l.length } r.1.1 ∧ ok r.1.1.decoder ∧ r.1.1.firstLine = 0) →
            Inv ok (if !r.2 then r.1 else
              let h := allHeadersReceived { r.1.1 with header := [] }
              if h.1.length = some 0 then
                ((allContentReceived app h.1).1, r.1.2 ++ h.2 ++ (allContentReceived app h.1).2)
              else ({ h.1 with lineMode := false }, r.1.2 ++ h.2)).1 := by
          intro r ⟨hs, hok, hfl⟩
          obtain ⟨s1, s2, s3, s4, s5, s6, s7⟩ := hs
          simp only at s1 s2 s3 s4 s5 s6 s7
          split
          · exact ⟨fun _ => by rw [s2]; exact hh, fun _ => by rw [s3]; exact hdb,
              fun _ h => absurd hfl h, by rw [s6]; exact i4, by rw [s7]; exact i5, hok⟩
          · simp only
            split
            · have := acr_cases app (allHeadersReceived { r.1.1 with header := [] }).1
              simp only [allHeadersReceived] at this ⊢
              obtain ⟨a1, a2, a3, a4, a5⟩ := this
              rcases a5 with ⟨b1, b2, b3, b4⟩ | ⟨b1, b2, b3, b4, b5, b6⟩
              · exact ⟨fun h => by rw [b2] at h; exact absurd h (by simp), fun h => by rw [b1] at h; exact absurd h (by simp),
                  fun h => by rw [b2] at h; exact absurd h (by simp), by rw [a1, s6]; exact i4,
                  by rw [b3, s7]; exact i5, by rw [a2]; exact H.none⟩
              · exact ⟨fun _ => b1, fun _ => b4, fun _ _ => Or.inl b5, by rw [a1, s6]; exact i4,
                  by rw [b3, s7, s3, i5, hdb]; rfl, by rw [a2]; exact H.none⟩
            · simp only [allHeadersReceived]
              exact ⟨fun h => by simp at h, fun _ => by simp; rw [s3]; exact hdb, fun h => by simp at h,
                by simp; rw [s6]; exact i4, by simp; rw [s7]; exact i5, by simpa using hok⟩
        by_cases hhe : c.header.isEmpty = true
        · simp only [hhe, if_true]
          exact hr (({ c with hdrSize := c.hdrSize + l.length }, []), true) ⟨Same.refl _, i6, hf0⟩
        · simp only [hhe, Bool.false_eq_true, if_false]
          have := headerReceived_same ok H { c with hdrSize := c.hdrSize + l.length } c.header
          exact hr _ ⟨this.1, this.2 i6, this.1.2.2.2.1.trans hf0⟩
      · split
        · exact ⟨i1, i2, fun _ h => absurd hf0 h, i4, i5, i6⟩
        · by_cases hhe : c.header.isEmpty = true
          · simp only [hhe, if_true]
            exact ⟨i1, i2, fun _ h => absurd hf0 h, i4, i5, i6⟩
          · simp only [hhe, Bool.false_eq_true, if_false]
            have := headerReceived_same ok H { c with hdrSize := c.hdrSize + l.length } c.header
            obtain ⟨⟨s1, s2, s3, s4, s5, s6, s7⟩, hok⟩ := this
            simp only at s1 s2 s3 s4 s5 s6 s7
            exact ⟨fun _ => by simp; rw [s2]; exact hh, fun _ => by simp; rw [s3]; exact hdb,
              fun _ h => by simp at h; rw [s4] at h; exact absurd hf0 h, by simp; rw [s6]; exact i4,
              by simp; rw [s7]; exact i5, by simpa using hok i6⟩

end TwistedProps.C18
