import TwistedProps.C18.Dec
/-!
C18 lemmas: `_ChunkedTransferDecoder` has the splitting property `rawDataReceived` needs
(`SplitOK`), from `outc_split` / `outc_stuck` / `outc_lenEq` of `ChunkedLoop.lean`.
-/
namespace TwistedProps.C18
open Twisted.Http.Chunked hiding St
open Twisted.Http.Channel

/-- the verdict `rawDataReceived` draws from the outcome of `dataReceived` -/
def ofOutc : Except (Err × Bytes × List Bytes) Dec → DRes
  | .error (.malformed, _) => .bad
  | .error _ => .exc .runtimeError
  | .ok d' =>
    match d'.fin with
    | [] => .more (.chunked d')
    | extra :: _ => .fin d'.data extra

theorem decFeed_chunked (d : Dec) (X : Bytes) : decFeed (.chunked d) X = ofOutc (outc (d.append X)) := by
  have : ∀ r : Except (Err × Dec) Dec,
      (match r with
        | .error (.malformed, _) => DRes.bad
        | .error _ => .exc .runtimeError
        | .ok d' =>
          match d'.fin with
          | [] => .more (.chunked d')
          | extra :: _ => .fin d'.data extra) =
      ofOutc (match r with
        | .ok s' => .ok s'
        | .error (e, s1) => .error (e, s1.data, s1.fin)) := by
    intro r
    cases r with
    | ok d' => rfl
    | error p =>
      obtain ⟨e, s1⟩ := p
      cases e <;> rfl
  exact this (loop (d.append X))

theorem ofOutc_rel {r1 r2 : Except (Err × Bytes × List Bytes) Dec} (h : resRel r1 r2) :
    DRes.rel (ofOutc r1) (ofOutc r2) := by
  cases r1 with
  | error x =>
    cases r2 with
    | error y => simp only [resRel] at h; subst h; exact DRes.rel.refl _
    | ok b => simp [resRel] at h
  | ok a =>
    cases r2 with
    | error y => simp [resRel] at h
    | ok b =>
      simp only [resRel] at h
      have hf : b.fin = a.fin := by rw [h.1]
      have hd : b.data = a.data := by rw [h.1]
      simp only [ofOutc, hf, hd]
      cases a.fin with
      | nil => exact Or.inr ⟨a, b, rfl, rfl, h⟩
      | cons e r => exact DRes.rel.refl _

/-- what `dataReceived` leaves of a decoder that had not finished -/
theorem outc_ok_cases (s s' : Dec) (hI : chunkedOK s) (ho : outc s = .ok s') :
    (s'.state ≠ .finished ∧ chunkedOK s' ∧ s'.fin = []) ∨ (s'.state = .finished ∧ ∃ extra, s'.fin = [extra]) := by
  obtain ⟨h1, h2, _⟩ := outc_split _ s (Nat.lt_succ_self _) hI []
  by_cases hf : s'.state = .finished
  · obtain ⟨extra, he, _⟩ := h2 s' ho hf
    exact Or.inr ⟨hf, extra, he⟩
  · have := (h1 s' ho hf).1
    exact Or.inl ⟨hf, this, this.2.1⟩

theorem ofOutc_more {r : Except (Err × Bytes × List Bytes) Dec} {d' : Decoder} (h : ofOutc r = .more d') :
    ∃ s', r = .ok s' ∧ s'.fin = [] ∧ d' = .chunked s' := by
  cases r with
  | error x =>
    obtain ⟨e, y⟩ := x
    cases e <;> simp [ofOutc] at h
  | ok s' =>
    simp only [ofOutc] at h
    cases hf : s'.fin with
    | nil => rw [hf] at h; simp only [DRes.more.injEq] at h; exact ⟨s', rfl, hf, h.symm⟩
    | cons e r => rw [hf] at h; simp at h

theorem ofOutc_fin {r : Except (Err × Bytes × List Bytes) Dec} {body extra : Bytes} (h : ofOutc r = .fin body extra) :
    ∃ s' rest, r = .ok s' ∧ s'.fin = extra :: rest ∧ s'.data = body := by
  cases r with
  | error x =>
    obtain ⟨e, y⟩ := x
    cases e <;> simp [ofOutc] at h
  | ok s' =>
    simp only [ofOutc] at h
    cases hf : s'.fin with
    | nil => rw [hf] at h; simp at h
    | cons e r =>
      rw [hf] at h
      simp only [DRes.fin.injEq] at h
      exact ⟨s', r, rfl, by rw [← h.2]; exact hf, h.1⟩

theorem chunk_more (d : Dec) (B b : Bytes) (d' : Decoder) (hok : chunkedOK d)
    (h : decFeed (.chunked d) B = .more d') :
    DRes.rel (decFeed d' b) (decFeed (.chunked d) (B ++ b)) ∧ ∃ d2, d' = .chunked d2 ∧ chunkedOK d2 ∧ Stuck d2 := by
  rw [decFeed_chunked] at h
  obtain ⟨s', ho, hfin, hd⟩ := ofOutc_more h
  have hI := chunkedOK_append d B hok
  rcases outc_ok_cases _ s' hI ho with ⟨hnf, hok', _⟩ | ⟨_, extra, he⟩
  · obtain ⟨h1, _, _⟩ := outc_split _ (d.append B) (Nat.lt_succ_self _) hI b
    obtain ⟨_, hr⟩ := h1 s' ho hnf
    subst hd
    refine ⟨?_, s', rfl, hok', outc_stuck _ _ (Nat.lt_succ_self _) hI s' ho hnf⟩
    rw [decFeed_chunked, decFeed_chunked, ← append_append]
    exact ofOutc_rel hr
  · rw [he] at hfin; simp at hfin

theorem chunk_fin (d : Dec) (B b body extra : Bytes) (hok : chunkedOK d)
    (h : decFeed (.chunked d) B = .fin body extra) : decFeed (.chunked d) (B ++ b) = .fin body (extra ++ b) := by
  rw [decFeed_chunked] at h
  obtain ⟨s', rest, ho, hfin, hdat⟩ := ofOutc_fin h
  have hI := chunkedOK_append d B hok
  rcases outc_ok_cases _ s' hI ho with ⟨_, _, he⟩ | ⟨hf, ex, he⟩
  · rw [he] at hfin; simp at hfin
  · obtain ⟨_, h2, _⟩ := outc_split _ (d.append B) (Nat.lt_succ_self _) hI b
    obtain ⟨ex', he', hr⟩ := h2 s' ho hf
    rw [he'] at hfin
    simp only [List.cons.injEq] at hfin
    rw [decFeed_chunked, ← append_append, hr, hfin.1]
    simp [ofOutc, hdat]

theorem ofOutc_err {r : Except (Err × Bytes × List Bytes) Dec} (h : ∀ s', r ≠ .ok s') : ∃ x, r = .error x := by
  cases r with
  | error x => exact ⟨x, rfl⟩
  | ok s' => exact absurd rfl (h s')

theorem chunk_bad (d : Dec) (B b : Bytes) (hok : chunkedOK d)
    (h : decFeed (.chunked d) B = .bad) : decFeed (.chunked d) (B ++ b) = .bad := by
  rw [decFeed_chunked] at h ⊢
  have hI := chunkedOK_append d B hok
  obtain ⟨_, _, h3⟩ := outc_split _ (d.append B) (Nat.lt_succ_self _) hI b
  cases ho : outc (d.append B) with
  | ok s' =>
    rw [ho] at h
    simp only [ofOutc] at h
    split at h <;> simp at h
  | error x =>
    obtain ⟨_, hr⟩ := h3 x ho
    rw [← append_append, hr, ← ho]; exact h

theorem chunk_exc (d : Dec) (B b : Bytes) (e : Exc) (hok : chunkedOK d)
    (h : decFeed (.chunked d) B = .exc e) : decFeed (.chunked d) (B ++ b) = .exc e := by
  rw [decFeed_chunked] at h ⊢
  have hI := chunkedOK_append d B hok
  obtain ⟨_, _, h3⟩ := outc_split _ (d.append B) (Nat.lt_succ_self _) hI b
  cases ho : outc (d.append B) with
  | ok s' =>
    rw [ho] at h
    simp only [ofOutc] at h
    split at h <;> simp at h
  | error x =>
    obtain ⟨_, hr⟩ := h3 x ho
    rw [← append_append, hr, ← ho]; exact h

theorem chunk_prog (d : Dec) (B b body extra : Bytes) (d' : Decoder) (hok : chunkedOK d)
    (h : decFeed (.chunked d) B = .more d') (h2 : decFeed d' b = .fin body extra) : extra.length < b.length := by
  obtain ⟨_, d2, hd, hok2, hstuck⟩ := chunk_more d B b d' hok h
  subst hd
  rw [decFeed_chunked] at h2
  obtain ⟨t', rest, ho, hfin, _⟩ := ofOutc_fin h2
  rcases outc_ok_cases _ t' (chunkedOK_append d2 b hok2) ho with ⟨_, _, he⟩ | ⟨hf, ex, he⟩
  · rw [he] at hfin; simp at hfin
  · rw [he] at hfin
    simp only [List.cons.injEq] at hfin
    rw [hfin.1] at he
    exact hstuck b t' extra ho hf he

theorem chunk_cong (d1 : Decoder) (d2 : Dec) (Y : Bytes) (h : decRel d1 (.chunked d2)) :
    DRes.rel (decFeed d1 Y) (decFeed (.chunked d2) Y) := by
  rcases h with h | ⟨a, b, h1, h2, h3⟩
  · subst h; exact DRes.rel.refl _
  · simp only [Decoder.chunked.injEq] at h2
    subst h1 h2
    rw [decFeed_chunked, decFeed_chunked]
    apply ofOutc_rel
    apply outc_lenEq _ _ _ (Nat.lt_succ_self _)
    obtain ⟨g1, g2⟩ := h3
    refine ⟨?_, g2⟩
    simp only [Dec.append]
    rw [g1]

/-- the decoders `rawDataReceived` may hold -/
def okAll : Decoder → Prop
  | .none => True
  | .ident d => identOK d
  | .chunked d => chunkedOK d

theorem decRel_ident {d1 : Decoder} {d : Ident} (h : decRel d1 (.ident d)) : d1 = .ident d := by
  rcases h with h | ⟨a, b, _, h2, _⟩
  · exact h
  · simp at h2

theorem decRel_none {d1 : Decoder} (h : decRel d1 .none) : d1 = .none := by
  rcases h with h | ⟨a, b, _, h2, _⟩
  · exact h
  · simp at h2

end TwistedProps.C18
