import TwistedProps.C18.Append
/-!
C18 lemmas, part 6: the invariant holds after the receive loop (as long as the connection is up).
-/
namespace TwistedProps.C18
open Twisted.Http.Chunked hiding St
open Twisted.Http.Channel

theorem D_inv (ok : Decoder → Prop) (H : SplitOK ok) (app : App) :
    ∀ (n : Nat) (c : Chan) (B : Bytes), B.length < n → Inv ok c → live c →
      live (D app c B).1 → Inv ok (D app c B).1 := by
  intro n
  induction n with
  | zero => intro c B h; omega
  | succ n ih =>
    intro c B hn hi hl
    by_cases hB : B = []
    · subst hB; rw [D_nil]; exact fun _ => hi
    · have hBpos : 0 < B.length := List.length_pos_iff.mpr hB
      by_cases hm : c.lineMode = true
      · cases hf : findCRLF B 0 with
        | none =>
          by_cases hlen : B.length ≥ maxLength + 2
          · have s1 := step_line_none_long app c B hm hf hlen
            rw [D_stop app c B hB (by rw [s1]), s1]
            intro h; have := h.1; simp at this
          · have s1 := step_line_none_short app c B hm hf hlen
            rw [D_stop app c B hB (by rw [s1]), s1]
            exact fun _ => hi
        | some i =>
          have hle : i + 2 ≤ B.length := (find0_append_some B [] i hf).2
          by_cases hi' : i > maxLength
          · have s1 := step_line_some_long app c B i hm hf hi'
            rw [D_stop app c B hB (by rw [s1]), s1]
            intro h; have := h.1; simp at this
          · have s1 := step_line_some app c B i hm hf hi'
            have hinv := lineReceived_inv ok H app c (B.take i) hi hl hm
            generalize hr : lineReceived app c (B.take i) = r at s1 hinv
            have hrq : r.1.requeue = [] := hinv.i5
            rw [hrq, requeue_reset r.1 hrq] at s1
            simp only [List.append_nil] at s1
            have hlt : (B.drop (i + 2)).length < B.length := by simp only [List.length_drop]; omega
            by_cases hgo : (!r.1.closed && r.1.raised.isNone) = true
            · have hl1 : live r.1 := by
                simp only [Bool.and_eq_true, Bool.not_eq_true', Option.isNone_iff_eq_none] at hgo
                exact hgo
              rw [D_go app c B hB (by rw [s1]; exact hgo) (by rw [s1]; exact hlt), s1]
              exact ih r.1 (B.drop (i + 2)) (by omega) hinv hl1
            · have hgo' : (!r.1.closed && r.1.raised.isNone) = false := Bool.eq_false_iff.mpr hgo
              rw [D_stop app c B hB (by rw [s1]; exact hgo'), s1]
              exact fun _ => hinv
      · have hm' : c.lineMode = false := by simpa using hm
        obtain ⟨hlc, hlr⟩ := hl
        have hq := hi.i5
        by_cases hh : c.handling = true
        · obtain ⟨o1, ho1, _⟩ := D_handling app c B hB hm' hh hlr hq
          rw [ho1]
          exact fun _ => ⟨fun h => by simp [hm'] at h, fun h => by simp [hh] at h, fun h => by simp [hm'] at h,
            hi.i4, hi.i5, hi.i6⟩
        · have hh' : c.handling = false := by simpa using hh
          cases hres : decFeed c.decoder B with
          | bad =>
            have s1 := step_bad app c B hm' hh' hres
            rw [D_go_nil app c B hB (by rw [s1]; simp [hlr]) (by rw [s1]; exact hq), s1]
            intro h; have := h.1; simp at this
          | exc e =>
            have s1 := step_exc app c B e hm' hh' hres
            rw [D_stop app c B hB (by rw [s1]), s1]
            intro h; have := h.2; simp at this
          | more d' =>
            have s1 := step_more app c B d' hm' hh' hres
            rw [D_go_nil app c B hB (by rw [s1]; simp [hlr]) (by rw [s1]; exact hq), s1]
            exact fun _ => ⟨fun h => by simp [hm'] at h, fun _ => hi.i2 hh', fun h => by simp [hm'] at h,
              hi.i4, rfl, H.keep _ B d' hi.i6 hres⟩
          | fin body extra =>
            have s1 := step_fin app c B body extra hm' hh' hres
            generalize hcc : ({ c with decoder := ofBody body, dataBuffer := c.dataBuffer ++ extra } : Chan) = cc at s1
            have hccq : cc.requeue = [] := by rw [← hcc]; exact hq
            have hccc : cc.closed = false := by rw [← hcc]; exact hlc
            have hccr : cc.raised = none := by rw [← hcc]; exact hlr
            have hccd : cc.dead = false := by rw [← hcc]; exact hi.i4
            obtain ⟨a1, a2, a3, a4, a5⟩ := acr_cases app cc
            have hgo : (stepLoop app c B).goOn = true := by rw [s1]; simp [a4, hccr]
            rcases a5 with ⟨b1, b2, b3, b4⟩ | ⟨b1, b2, b3, b4, b5, b6⟩
            · have hbuf : (stepLoop app c B).buffer = [] := by rw [s1]; simp [b3, hccq]
              rw [D_go_nil app c B hB hgo hbuf, s1]
              exact fun _ => ⟨fun h => by simp [b2] at h, fun h => by simp [b1] at h, fun h => by simp [b2] at h,
                by simp [a1, hccd], rfl, by simp [a2]; exact H.none⟩
            · have hi2 : Inv ok ({ (allContentReceived app cc).1 with requeue := [] } : Chan) :=
                ⟨fun _ => by simp [b1], fun _ => by simp [b4], fun _ _ => Or.inl (by simp [b5]),
                  by simp [a1, hccd], rfl, by simp [a2]; exact H.none⟩
              have hl2 : live ({ (allContentReceived app cc).1 with requeue := [] } : Chan) :=
                ⟨by simp [b6, hccc], by simp [a4, hccr]⟩
              by_cases hlt : (stepLoop app c B).buffer.length < B.length
              · rw [D_go app c B hB hgo hlt, s1]
                rw [s1] at hlt
                exact ih _ (allContentReceived app cc).1.requeue (by simp only at hlt; omega) hi2 hl2
              · rw [D_stuck app c B hB hgo hlt]
                intro h; have := h.2; simp at this

end TwistedProps.C18
