import TwistedProps.C18.Inv
/-!
C18 lemmas, part 4: the receive loop commutes with appending to the buffer.
-/
namespace TwistedProps.C18
open Twisted.Http.Chunked hiding St
open Twisted.Http.Channel

abbrev Res := Chan × Bytes × List Out

instance (c : Chan) : Decidable (live c) := by unfold live; exact inferInstance

/-- channels that behave alike from here on: equal, or — in raw mode, while a body is being
    received — holding chunked decoders that differ in the dead `length` attribute only (`lenEq`) -/
def chanRel (c1 c2 : Chan) : Prop :=
  c1 = c2 ∨ (c1.lineMode = false ∧ c1.handling = false ∧
    ∃ a b, c1.decoder = .chunked a ∧ c2 = { c1 with decoder := .chunked b } ∧ lenEq a b)

theorem chanRel.refl (c : Chan) : chanRel c c := Or.inl rfl

theorem chanRel.live {c1 c2 : Chan} (h : chanRel c1 c2) : live c1 ↔ live c2 := by
  rcases h with h | ⟨_, _, a, b, _, h2, _⟩
  · rw [h]
  · rw [h2]; exact Iff.rfl

theorem chanRel.trans {c1 c2 c3 : Chan} (h : chanRel c1 c2) (h' : chanRel c2 c3) : chanRel c1 c3 := by
  rcases h with h | ⟨m1, m2, a, b, h1, h2, h3⟩
  · subst h; exact h'
  · rcases h' with h' | ⟨_, _, a', b', g1, g2, g3⟩
    · subst h'; exact Or.inr ⟨m1, m2, a, b, h1, h2, h3⟩
    · have hb : a' = b := by
        rw [h2] at g1
        simp only [Decoder.chunked.injEq] at g1
        exact g1.symm
      subst hb
      refine Or.inr ⟨m1, m2, a, b', h1, ?_, h3.trans g3⟩
      rw [g2, h2]

/-- `x` (one run) agrees with `y` (another run of the same stream): same closing, same exception,
    same outputs apart from producer calls, and — unless stopped — the same buffer and the same
    channel (up to `chanRel`) -/
def Agree (x y : Res) : Prop :=
  x.1.closed = y.1.closed ∧ x.1.raised = y.1.raised ∧ core x.2.2 = core y.2.2 ∧
  (live y.1 → chanRel x.1 y.1 ∧ x.2.1 = y.2.1)

theorem Agree.refl (x : Res) : Agree x x := ⟨rfl, rfl, rfl, fun _ => ⟨chanRel.refl _, rfl⟩⟩

theorem Agree.trans {x y z : Res} (h1 : Agree x y) (h2 : Agree y z) : Agree x z := by
  obtain ⟨a1, a2, a3, a4⟩ := h1
  obtain ⟨b1, b2, b3, b4⟩ := h2
  refine ⟨a1.trans b1, a2.trans b2, a3.trans b3, fun hl => ?_⟩
  obtain ⟨e1, e2⟩ := b4 hl
  have : live y.1 := e1.live.mpr hl
  obtain ⟨f1, f2⟩ := a4 this
  exact ⟨f1.trans e1, f2.trans e2⟩

/-- put outputs `o` in front -/
def pre (o : List Out) (x : Res) : Res := (x.1, x.2.1, o ++ x.2.2)

theorem Agree.pre {x y : Res} (o o' : List Out) (ho : core o = core o') (h : Agree x y) :
    Agree (pre o x) (pre o' y) := by
  obtain ⟨a1, a2, a3, a4⟩ := h
  refine ⟨a1, a2, ?_, a4⟩
  show core (o ++ x.2.2) = core (o' ++ y.2.2)
  rw [core_append, core_append, ho, a3]

/-- deliver `b` after a run that ended in `x`, if the connection is still up -/
def seq (app : App) (x : Res) (b : Bytes) : Res :=
  if live x.1 then pre x.2.2 (D app x.1 (x.2.1 ++ b)) else x

theorem seq_live (app : App) (x : Res) (b : Bytes) (h : live x.1) :
    seq app x b = pre x.2.2 (D app x.1 (x.2.1 ++ b)) := by simp [seq, h]

theorem seq_dead (app : App) (x : Res) (b : Bytes) (h : ¬ live x.1) : seq app x b = x := by simp [seq, h]

theorem seq_pre (app : App) (o : List Out) (x : Res) (b : Bytes) : seq app (pre o x) b = pre o (seq app x b) := by
  unfold seq
  by_cases h : live x.1
  · have : live (pre o x).1 := h
    simp only [this, h, if_true]
    simp [pre]
  · have : ¬ live (pre o x).1 := h
    simp only [this, h, if_false]

/-- stopped runs agree as soon as they stopped the same way -/
theorem agree_stopped (x y : Res) (h1 : x.1.closed = y.1.closed) (h2 : x.1.raised = y.1.raised)
    (h3 : core x.2.2 = core y.2.2) (h4 : ¬ live y.1) : Agree x y := ⟨h1, h2, h3, fun h => absurd h h4⟩

/-! ### the loop, one iteration unfolded -/

theorem D_stop (app : App) (c : Chan) (B : Bytes) (hB : B ≠ []) (h : (stepLoop app c B).goOn = false) :
    D app c B = ((stepLoop app c B).chan, (stepLoop app c B).buffer, (stepLoop app c B).outs) := by
  rw [D_eq]; simp [hB, h]

theorem D_go (app : App) (c : Chan) (B : Bytes) (hB : B ≠ []) (h : (stepLoop app c B).goOn = true)
    (hlt : (stepLoop app c B).buffer.length < B.length) :
    D app c B = pre (stepLoop app c B).outs (D app (stepLoop app c B).chan (stepLoop app c B).buffer) := by
  rw [D_eq]; simp [hB, h, hlt, pre]

theorem D_stuck (app : App) (c : Chan) (B : Bytes) (hB : B ≠ []) (h : (stepLoop app c B).goOn = true)
    (hlt : ¬ (stepLoop app c B).buffer.length < B.length) :
    D app c B = ({ (stepLoop app c B).chan with raised := some .stuck }, (stepLoop app c B).buffer, (stepLoop app c B).outs) := by
  rw [D_eq]; simp [hB, h, hlt]

/-- a step that leaves the buffer empty ends the loop -/
theorem D_go_nil (app : App) (c : Chan) (B : Bytes) (hB : B ≠ []) (h : (stepLoop app c B).goOn = true)
    (he : (stepLoop app c B).buffer = []) :
    D app c B = ((stepLoop app c B).chan, [], (stepLoop app c B).outs) := by
  have hlt : (stepLoop app c B).buffer.length < B.length := by
    rw [he]; exact List.length_pos_iff.mpr hB
  rw [D_go app c B hB h hlt, he, D_nil]
  simp [pre]

theorem stepLoop_raw (app : App) (c : Chan) (B : Bytes) (h : c.lineMode = false) :
    stepLoop app c B =
      ⟨{ (rawDataReceived app c B).1 with requeue := [] }, (rawDataReceived app c B).1.requeue,
        (rawDataReceived app c B).2, (rawDataReceived app c B).1.raised.isNone⟩ := by
  simp [stepLoop, h]

/-- the decoder's verdict turned into what `rawDataReceived` does -/
def rawOf (app : App) (c : Chan) : DRes → Chan × List Out
  | .bad => badRequest c
  | .exc e => ({ c with raised := some e }, [])
  | .more d => ({ c with decoder := d }, [])
  | .fin body extra => finishRequestBody app { c with decoder := ofBody body } extra

theorem raw_eq' (app : App) (c : Chan) (data : Bytes) (h : c.handling = false) :
    rawDataReceived app c data = rawOf app c (decFeed c.decoder data) := by
  rw [raw_eq app c data h]
  cases decFeed c.decoder data <;> rfl

/-- `rawOf` does not look at the decoder it replaces -/
theorem rawOf_decoder (app : App) (c : Chan) (d : Decoder) (r : DRes) (hr : ∀ e, r ≠ .exc e) (hb : r ≠ .bad) :
    rawOf app { c with decoder := d } r = rawOf app c r := by
  cases r with
  | bad => exact absurd rfl hb
  | exc e => exact absurd rfl (hr e)
  | more d' => rfl
  | fin body extra => rfl


/-! ### how `allContentReceived` depends on `_dataBuffer` -/

/-- does the application finish the request inside `requestReceived` -/
def doneNow (app : App) (c : Chan) : Bool :=
  (app.onRequest c.nreq ⟨c.command, c.path, c.version, c.reqHeaders, c.decoder.body⟩).2

theorem acr_later (app : App) (c : Chan) (e : Bytes) (h : doneNow app c = false) :
    allContentReceived app { c with dataBuffer := e } =
      ({ (allContentReceived app c).1 with dataBuffer := e }, (allContentReceived app c).2) := by
  unfold doneNow at h
  simp [allContentReceived, h]

theorem acr_close (app : App) (c : Chan) (e : Bytes) (h : doneNow app c = true) (hp : c.persistent = false) :
    allContentReceived app { c with dataBuffer := e } =
      ({ (allContentReceived app c).1 with dataBuffer := e }, (allContentReceived app c).2) := by
  unfold doneNow at h
  simp [allContentReceived, h, requestDoneBusy, requestDoneCore, hp]

theorem acr_next (app : App) (c : Chan) (e : Bytes) (h : doneNow app c = true) (hp : c.persistent = true) :
    allContentReceived app { c with dataBuffer := e } =
      ({ (allContentReceived app c).1 with requeue := c.requeue ++ e }, (allContentReceived app c).2) := by
  unfold doneNow at h
  simp [allContentReceived, h, requestDoneBusy, requestDoneCore, hp]

theorem acr_later_fields (app : App) (c : Chan) (h : doneNow app c = false) :
    let A := (allContentReceived app c).1
    A.handling = true ∧ A.lineMode = false ∧ A.requeue = c.requeue ∧ A.closed = c.closed ∧ A.raised = c.raised := by
  unfold doneNow at h
  simp [allContentReceived, h]

theorem acr_close_fields (app : App) (c : Chan) (h : doneNow app c = true) (hp : c.persistent = false) :
    let A := (allContentReceived app c).1
    A.closed = true ∧ A.requeue = c.requeue ∧ A.raised = c.raised := by
  unfold doneNow at h
  simp [allContentReceived, h, requestDoneBusy, requestDoneCore, hp]

theorem acr_next_fields (app : App) (c : Chan) (h : doneNow app c = true) (hp : c.persistent = true) :
    let A := (allContentReceived app c).1
    A.handling = false ∧ A.lineMode = true ∧ A.dataBuffer = [] ∧ A.persistent = true ∧ A.closed = c.closed ∧
    A.raised = c.raised ∧ A.dead = c.dead ∧ A.decoder = .none := by
  unfold doneNow at h
  simp [allContentReceived, h, requestDoneBusy, requestDoneCore, hp]

theorem requeue_reset (c : Chan) (h : c.requeue = []) : { c with requeue := [] } = c := by
  cases c; simp_all

theorem pre_nil (x : Res) : pre [] x = x := rfl

theorem core_tp (p : Prop) [Decidable p] (q : Bool) : core (if p then [Out.tpause q] else []) = [] := by
  split <;> simp [core, isTp]

/-- raw mode while a request is being handled: everything goes to `_dataBuffer` -/
theorem D_handling (app : App) (c : Chan) (X : Bytes) (hX : X ≠ []) (hm : c.lineMode = false)
    (hh : c.handling = true) (hr : c.raised = none) (hq : c.requeue = []) :
    ∃ o, D app c X = ({ c with dataBuffer := c.dataBuffer ++ X }, [], o) ∧ core o = [] := by
  have hs := stepLoop_raw app c X hm
  have hraw : rawDataReceived app c X = ({ c with dataBuffer := c.dataBuffer ++ X },
      if (c.dataBuffer ++ X).length > optimisticEagerReadSize ∧ (!c.waiting) = true then [.tpause true] else []) := by
    simp [rawDataReceived, hh]
  rw [hraw] at hs
  refine ⟨if (c.dataBuffer ++ X).length > optimisticEagerReadSize ∧ (!c.waiting) = true then [.tpause true] else [],
    ?_, core_tp _ true⟩
  have hgo : (stepLoop app c X).goOn = true := by rw [hs]; simp [hr]
  have hbuf : (stepLoop app c X).buffer = [] := by rw [hs]; exact hq
  rw [D_go_nil app c X hX hgo hbuf, hs]
  simp only
  congr 1
  exact requeue_reset { c with dataBuffer := c.dataBuffer ++ X } hq

end TwistedProps.C18
