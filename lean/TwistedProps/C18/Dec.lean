import TwistedProps.C18.ChunkedLoop
/-!
C18 lemmas, part 2: the body decoders seen through one interface (`decFeed`), the splitting
property a decoder must have (`SplitOK`), and its proof for `_IdentityTransferDecoder`
(for `_ChunkedTransferDecoder`: `ChunkedFind/Step/Loop/Split.lean`).  "Same decoder" is up to the dead
`length` attribute of a chunked decoder (`decRel`, `DRes.rel`).
-/
namespace TwistedProps.C18
open Twisted.Http.Chunked hiding St
open Twisted.Http.Channel

/-- what `rawDataReceived` gets out of the decoder for one delivery -/
inductive DRes where
  | bad                              -- `_MalformedChunkedDataError`: 400
  | exc (e : Exc)                    -- another exception escapes
  | more (d : Decoder)               -- body not complete
  | fin (body extra : Bytes)         -- `finishCallback(extra)` after the whole body
  deriving DecidableEq

def decFeed (d : Decoder) (data : Bytes) : DRes :=
  match d with
  | .none => .exc .attributeError
  | .ident d =>
    match Ident.dataReceived d data with
    | .error _ => .exc .runtimeError
    | .ok d' =>
      match d'.fin with
      | [] => .more (.ident d')
      | extra :: _ => .fin d'.data extra
  | .chunked d =>
    match Twisted.Http.Chunked.dataReceived d data with
    | .error (.malformed, _) => .bad
    | .error _ => .exc .runtimeError
    | .ok d' =>
      match d'.fin with
      | [] => .more (.chunked d')
      | extra :: _ => .fin d'.data extra

/-- a decoder whose body is `body` (what `allContentReceived` reads of it) -/
def ofBody (body : Bytes) : Decoder := .ident { contentLength := none, active := false, data := body, fin := [] }

theorem acr_decoder (app : App) (c : Chan) (d1 d2 : Decoder) (db : Bytes) (h : d1.body = d2.body) :
    allContentReceived app { c with decoder := d1, dataBuffer := db } =
      allContentReceived app { c with decoder := d2, dataBuffer := db } := by
  simp [allContentReceived, h]

theorem raw_eq (app : App) (c : Chan) (data : Bytes) (h : c.handling = false) :
    rawDataReceived app c data =
      match decFeed c.decoder data with
      | .bad => badRequest c
      | .exc e => ({ c with raised := some e }, [])
      | .more d => ({ c with decoder := d }, [])
      | .fin body extra => finishRequestBody app { c with decoder := ofBody body } extra := by
  unfold rawDataReceived
  rw [if_neg (by simp [h])]
  unfold decFeed
  cases hd : c.decoder with
  | none => rfl
  | ident d =>
    simp only
    cases hr : Ident.dataReceived d data with
    | error e => rfl
    | ok d' =>
      simp only
      cases hf : d'.fin with
      | nil => rfl
      | cons extra rest =>
        simp only [finishRequestBody]
        exact acr_decoder app c (.ident d') (ofBody d'.data) _ rfl
  | chunked d =>
    simp only
    cases hr : Twisted.Http.Chunked.dataReceived d data with
    | error e =>
      obtain ⟨e1, e2⟩ := e
      cases e1 <;> rfl
    | ok d' =>
      simp only
      cases hf : d'.fin with
      | nil => rfl
      | cons extra rest =>
        simp only [finishRequestBody]
        exact acr_decoder app c (.chunked d') (ofBody d'.data) _ rfl

/-- decoders a caller of `dataReceived` cannot tell apart: equal, or chunked decoders that differ
    in the dead `length` attribute only (`lenEq`, `C18/ChunkedStep.lean`) -/
def decRel (d1 d2 : Decoder) : Prop :=
  d1 = d2 ∨ ∃ a b, d1 = .chunked a ∧ d2 = .chunked b ∧ lenEq a b

theorem decRel.refl (d : Decoder) : decRel d d := Or.inl rfl

theorem decRel.symm {d1 d2 : Decoder} (h : decRel d1 d2) : decRel d2 d1 := by
  rcases h with h | ⟨a, b, h1, h2, h3⟩
  · exact Or.inl h.symm
  · exact Or.inr ⟨b, a, h2, h1, h3.symm⟩

theorem decRel.trans {d1 d2 d3 : Decoder} (h : decRel d1 d2) (h' : decRel d2 d3) : decRel d1 d3 := by
  rcases h with h | ⟨a, b, h1, h2, h3⟩
  · subst h; exact h'
  · rcases h' with h' | ⟨a', b', g1, g2, g3⟩
    · subst h'; exact Or.inr ⟨a, b, h1, h2, h3⟩
    · rw [h2] at g1
      simp only [Decoder.chunked.injEq] at g1
      subst g1
      exact Or.inr ⟨a, b', h1, g2, h3.trans g3⟩

/-- verdicts that lead `rawDataReceived` to the same behaviour: equal, or `more` with decoders
    related by `decRel` -/
def DRes.rel (r1 r2 : DRes) : Prop :=
  r1 = r2 ∨ ∃ a b, r1 = .more (.chunked a) ∧ r2 = .more (.chunked b) ∧ lenEq a b

theorem DRes.rel.refl (r : DRes) : DRes.rel r r := Or.inl rfl

theorem DRes.rel_bad {r : DRes} (h : DRes.rel .bad r) : r = .bad := by
  rcases h with h | ⟨a, b, h1, _⟩
  · exact h.symm
  · simp at h1

theorem DRes.rel_exc {r : DRes} {e : Exc} (h : DRes.rel (.exc e) r) : r = .exc e := by
  rcases h with h | ⟨a, b, h1, _⟩
  · exact h.symm
  · simp at h1

theorem DRes.rel_fin {r : DRes} {body extra : Bytes} (h : DRes.rel (.fin body extra) r) : r = .fin body extra := by
  rcases h with h | ⟨a, b, h1, _⟩
  · exact h.symm
  · simp at h1

theorem DRes.rel_more {r : DRes} {d : Decoder} (h : DRes.rel (.more d) r) : ∃ d', r = .more d' ∧ decRel d d' := by
  rcases h with h | ⟨a, b, h1, h2, h3⟩
  · exact ⟨d, h.symm, decRel.refl d⟩
  · simp only [DRes.more.injEq] at h1
    exact ⟨.chunked b, h2, Or.inr ⟨a, b, h1, rfl, h3⟩⟩

/-- the splitting property of the body decoders, for decoders satisfying `ok` -/
structure SplitOK (ok : Decoder → Prop) : Prop where
  more : ∀ d B b d', ok d → decFeed d B = .more d' → DRes.rel (decFeed d' b) (decFeed d (B ++ b))
  /-- related decoders give related verdicts -/
  cong : ∀ d1 d2 Y, ok d2 → decRel d1 d2 → DRes.rel (decFeed d1 Y) (decFeed d2 Y)
  fin : ∀ d B b body extra, ok d → decFeed d B = .fin body extra → decFeed d (B ++ b) = .fin body (extra ++ b)
  bad : ∀ d B b, ok d → decFeed d B = .bad → decFeed d (B ++ b) = .bad
  exc : ∀ d B b e, ok d → decFeed d B = .exc e → decFeed d (B ++ b) = .exc e
  keep : ∀ d B d', ok d → decFeed d B = .more d' → ok d'
  /-- a decoder that wanted more finishes only by consuming something -/
  prog : ∀ d B b d' body extra, ok d → decFeed d B = .more d' → decFeed d' b = .fin body extra →
    extra.length < b.length
  none : ok .none
  ident : ∀ n, ok (.ident (Ident.init (some n)))
  chunked : ok (.chunked Twisted.Http.Chunked.init)

/-! ### `_IdentityTransferDecoder` -/

def identOK (d : Ident) : Prop := d.active = true ∧ d.fin = []

theorem ident_more (d : Ident) (B b : Bytes) (d' : Decoder) (hok : identOK d)
    (h : decFeed (.ident d) B = .more d') : decFeed d' b = decFeed (.ident d) (B ++ b) ∧
      ∃ d2, d' = .ident d2 ∧ identOK d2 := by
  obtain ⟨ha, hf⟩ := hok
  unfold decFeed at h
  simp only [Ident.dataReceived, ha] at h
  cases hc : d.contentLength with
  | none =>
    simp only [hc, hf] at h
    simp at h
    subst h
    refine ⟨?_, _, rfl, ⟨by simp [ha], by simp [hf]⟩⟩
    simp [decFeed, Ident.dataReceived, ha, hc, hf]
  | some n =>
    simp only [hc] at h
    by_cases hlt : B.length < n
    · simp [hlt, hf] at h
      subst h
      refine ⟨?_, _, rfl, ⟨by simp [ha], by simp [hf]⟩⟩
      simp only [decFeed, Ident.dataReceived, ha, hc, List.length_append]
      by_cases h2 : b.length < n - B.length
      · have : B.length + b.length < n := by omega
        simp [h2, this, hf]
        omega
      · have : ¬ B.length + b.length < n := by omega
        simp [h2, this, hf]
        have hle : B.length ≤ n := by omega
        constructor
        · rw [List.take_append, List.take_of_length_le hle]
        · rw [List.drop_append, List.drop_of_length_le hle]; simp
    · simp [hlt, hf] at h

theorem ident_fin (d : Ident) (B b body extra : Bytes) (hok : identOK d)
    (h : decFeed (.ident d) B = .fin body extra) : decFeed (.ident d) (B ++ b) = .fin body (extra ++ b) := by
  obtain ⟨ha, hf⟩ := hok
  unfold decFeed at h ⊢
  simp only [Ident.dataReceived, ha] at h ⊢
  cases hc : d.contentLength with
  | none => simp [hc, hf] at h
  | some n =>
    simp only [hc] at h ⊢
    by_cases hlt : B.length < n
    · simp [hlt, hf] at h
    · simp [hlt, hf] at h
      have : ¬ (B ++ b).length < n := by simp; omega
      simp only [this]
      simp [hf]
      have hle : n ≤ B.length := by omega
      obtain ⟨h1, h2⟩ := h
      subst h1 h2
      constructor
      · rw [List.take_append_of_le_length hle]
      · rw [List.drop_append_of_le_length hle]

theorem ident_exc (d : Ident) (B b : Bytes) (e : Exc)
    (h : decFeed (.ident d) B = .exc e) : decFeed (.ident d) (B ++ b) = .exc e := by
  unfold decFeed at h ⊢
  simp only [Ident.dataReceived] at h ⊢
  by_cases ha : d.active = true
  · simp only [ha] at h
    cases hc : d.contentLength with
    | none => simp [hc] at h; split at h <;> simp at h
    | some n =>
      simp only [hc] at h
      by_cases hlt : B.length < n
      · simp [hlt] at h; split at h <;> simp at h
      · simp [hlt] at h; split at h <;> simp at h
  · simp [ha] at h ⊢
    exact h

theorem ident_not_bad (d : Ident) (B : Bytes) : decFeed (.ident d) B ≠ .bad := by
  unfold decFeed
  simp only
  split
  · simp
  · split <;> simp

end TwistedProps.C18
