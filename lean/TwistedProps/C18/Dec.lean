import TwistedProps.C18.Basic
/-!
C18 lemmas, part 2: the body decoders seen through one interface (`decFeed`), the splitting
property a decoder must have (`SplitOK`), and its proof for `_IdentityTransferDecoder`.
-/
namespace TwistedProps.C18
open Twisted.Http.Chunked hiding St
open Twisted.Http.Channel

/-- what `rawDataReceived` gets out of the decoder for one delivery -/
inductive DRes where
  | bad                              -- `_MalformedChunkedDataError`: 400
  | exc (e : Exc)                    -- another exception escapes
  | more (d : Decoder)               -- body not complete
  | fin (body extra : Bytes)         -- `finishCallback(extra)` after the whole body
  deriving DecidableEq

def decFeed (d : Decoder) (data : Bytes) : DRes :=
  match d with
  | .none => .exc .attributeError
  | .ident d =>
    match Ident.dataReceived d data with
    | .error _ => .exc .runtimeError
    | .ok d' =>
      match d'.fin with
      | [] => .more (.ident d')
      | extra :: _ => .fin d'.data extra
  | .chunked d =>
    match Twisted.Http.Chunked.dataReceived d data with
    | .error (.malformed, _) => .bad
    | .error _ => .exc .runtimeError
    | .ok d' =>
      match d'.fin with
      | [] => .more (.chunked d')
      | extra :: _ => .fin d'.data extra

/-- a decoder whose body is `body` (what `allContentReceived` reads of it) -/
def ofBody (body : Bytes) : Decoder := .ident { contentLength := none, active := false, data := body, fin := [] }

theorem acr_decoder (app : App) (c : Chan) (d1 d2 : Decoder) (db : Bytes) (h : d1.body = d2.body) :
    allContentReceived app { c with decoder := d1, dataBuffer := db } =
      allContentReceived app { c with decoder := d2, dataBuffer := db } := by
  simp [allContentReceived, h]

theorem raw_eq (app : App) (c : Chan) (data : Bytes) (h : c.handling = false) :
    rawDataReceived app c data =
      match decFeed c.decoder data with
      | .bad => badRequest c
      | .exc e => ({ c with raised := some e }, [])
      | .more d => ({ c with decoder := d }, [])
      | .fin body extra => finishRequestBody app { c with decoder := ofBody body } extra := by
  unfold rawDataReceived
  rw [if_neg (by simp [h])]
  unfold decFeed
  cases hd : c.decoder with
  | none => rfl
  | ident d =>
    simp only
    cases hr : Ident.dataReceived d data with
    | error e => rfl
    | ok d' =>
      simp only
      cases hf : d'.fin with
      | nil => rfl
      | cons extra rest =>
        simp only [finishRequestBody]
        exact acr_decoder app c (.ident d') (ofBody d'.data) _ rfl
  | chunked d =>
    simp only
    cases hr : Twisted.Http.Chunked.dataReceived d data with
    | error e =>
      obtain ⟨e1, e2⟩ := e
      cases e1 <;> rfl
    | ok d' =>
      simp only
      cases hf : d'.fin with
      | nil => rfl
      | cons extra rest =>
        simp only [finishRequestBody]
        exact acr_decoder app c (.chunked d') (ofBody d'.data) _ rfl

/-- the splitting property of the body decoders, for decoders satisfying `ok` -/
structure SplitOK (ok : Decoder → Prop) : Prop where
  more : ∀ d B b d', ok d → decFeed d B = .more d' → decFeed d' b = decFeed d (B ++ b)
  fin : ∀ d B b body extra, ok d → decFeed d B = .fin body extra → decFeed d (B ++ b) = .fin body (extra ++ b)
  bad : ∀ d B b, ok d → decFeed d B = .bad → decFeed d (B ++ b) = .bad
  exc : ∀ d B b e, ok d → decFeed d B = .exc e → decFeed d (B ++ b) = .exc e
  keep : ∀ d B d', ok d → decFeed d B = .more d' → ok d'
  /-- a decoder that wanted more finishes only by consuming something -/
  prog : ∀ d B b d' body extra, ok d → decFeed d B = .more d' → decFeed d' b = .fin body extra →
    extra.length < b.length
  none : ok .none
  ident : ∀ n, ok (.ident (Ident.init (some n)))
  chunked : ok (.chunked Twisted.Http.Chunked.init)

/-! ### `_IdentityTransferDecoder` -/

def identOK (d : Ident) : Prop := d.active = true ∧ d.fin = []

theorem ident_more (d : Ident) (B b : Bytes) (d' : Decoder) (hok : identOK d)
    (h : decFeed (.ident d) B = .more d') : decFeed d' b = decFeed (.ident d) (B ++ b) ∧
      ∃ d2, d' = .ident d2 ∧ identOK d2 := by
  obtain ⟨ha, hf⟩ := hok
  unfold decFeed at h
  simp only [Ident.dataReceived, ha] at h
  cases hc : d.contentLength with
  | none =>
    simp only [hc, hf] at h
    simp at h
    subst h
    refine ⟨?_, _, rfl, ⟨by simp [ha], by simp [hf]⟩⟩
    simp [decFeed, Ident.dataReceived, ha, hc, hf]
  | some n =>
    simp only [hc] at h
    by_cases hlt : B.length < n
    · simp [hlt, hf] at h
      subst h
      refine ⟨?_, _, rfl, ⟨by simp [ha], by simp [hf]⟩⟩
      simp only [decFeed, Ident.dataReceived, ha, hc, List.length_append]
      by_cases h2 : b.length < n - B.length
      · have : B.length + b.length < n := by omega
        simp [h2, this, hf]
        omega
      · have : ¬ B.length + b.length < n := by omega
        simp [h2, this, hf]
        have hle : B.length ≤ n := by omega
        constructor
        · rw [List.take_append, List.take_of_length_le hle]
        · rw [List.drop_append, List.drop_of_length_le hle]; simp
    · simp [hlt, hf] at h

theorem ident_fin (d : Ident) (B b body extra : Bytes) (hok : identOK d)
    (h : decFeed (.ident d) B = .fin body extra) : decFeed (.ident d) (B ++ b) = .fin body (extra ++ b) := by
  obtain ⟨ha, hf⟩ := hok
  unfold decFeed at h ⊢
  simp only [Ident.dataReceived, ha] at h ⊢
  cases hc : d.contentLength with
  | none => simp [hc, hf] at h
  | some n =>
    simp only [hc] at h ⊢
    by_cases hlt : B.length < n
    · simp [hlt, hf] at h
    · simp [hlt, hf] at h
      have : ¬ (B ++ b).length < n := by simp; omega
      simp only [this]
      simp [hf]
      have hle : n ≤ B.length := by omega
      obtain ⟨h1, h2⟩ := h
      subst h1 h2
      constructor
      · rw [List.take_append_of_le_length hle]
      · rw [List.drop_append_of_le_length hle]

theorem ident_exc (d : Ident) (B b : Bytes) (e : Exc)
    (h : decFeed (.ident d) B = .exc e) : decFeed (.ident d) (B ++ b) = .exc e := by
  unfold decFeed at h ⊢
  simp only [Ident.dataReceived] at h ⊢
  by_cases ha : d.active = true
  · simp only [ha] at h
    cases hc : d.contentLength with
    | none => simp [hc] at h; split at h <;> simp at h
    | some n =>
      simp only [hc] at h
      by_cases hlt : B.length < n
      · simp [hlt] at h; split at h <;> simp at h
      · simp [hlt] at h; split at h <;> simp at h
  · simp [ha] at h ⊢
    exact h

theorem ident_not_bad (d : Ident) (B : Bytes) : decFeed (.ident d) B ≠ .bad := by
  unfold decFeed
  simp only
  split
  · simp
  · split <;> simp

end TwistedProps.C18
