import TwistedProps.C08.Loop
/-!
C08 — the lazy-deletion counter `ReactorBase._cancellations` (`Sys.canc`).

The intended reading "`_cancellations` = number of cancelled entries still stored in
`_pendingTimedCalls ++ _newTimedCalls`" is false on the real code: the compaction at the end of
`runUntilCurrent` zeroes the counter but filters the heap only, so a call created *and cancelled*
inside the iteration whose end compacts is still staged (cancelled) when the counter is zeroed, and
the next `_insertNewDelayedCalls` drives the counter to -1 (`counter_negative_witness`).

What does hold, for every history (`deficit_exec`): the *deficit*
`cancelledStored - _cancellations` is left unchanged by every operation except a compaction, which
sets it to the number of cancelled entries that are staged at that moment.
-/
namespace TwistedProps.C08
open Twisted.Reactor.Timers

/-! ### counting cancelled entries -/

/-- number of cancelled entries of `l`, the flags read from the store `cf` -/
def cnt (cf : Nat → Call) (l : List Nat) : Nat := l.countP fun id => (cf id).cancelled

theorem cancelledIn_eq (s : Sys) (l : List Nat) : cancelledIn s l = cnt s.call l := rfl

theorem cnt_nil (cf : Nat → Call) : cnt cf [] = 0 := rfl

theorem cnt_append (cf : Nat → Call) (a b : List Nat) : cnt cf (a ++ b) = cnt cf a + cnt cf b := by
  unfold cnt; exact List.countP_append

theorem cnt_cons (cf : Nat → Call) (a : Nat) (l : List Nat) :
    cnt cf (a :: l) = cnt cf l + (if (cf a).cancelled = true then 1 else 0) := by
  unfold cnt; rw [List.countP_cons]

theorem cnt_perm (cf : Nat → Call) {l l' : List Nat} (h : l.Perm l') : cnt cf l = cnt cf l' := by
  unfold cnt; exact h.countP_eq _

theorem cnt_congr (cf cf' : Nat → Call) (l : List Nat)
    (h : ∀ j ∈ l, (cf' j).cancelled = (cf j).cancelled) : cnt cf' l = cnt cf l := by
  induction l with
  | nil => rfl
  | cons x xs ih =>
    rw [cnt_cons, cnt_cons, ih (fun j hj => h j (List.mem_cons_of_mem _ hj)), h x (by simp)]

/-- a record is replaced, its `cancelled` flag unchanged -/
theorem cnt_upd_same (cf : Nat → Call) (id : Nat) (c' : Call) (l : List Nat)
    (hx : c'.cancelled = (cf id).cancelled) : cnt (upd cf id c') l = cnt cf l := by
  apply cnt_congr
  intro j _
  by_cases e : j = id
  · subst e; simp only [upd, if_true]; exact hx
  · simp only [upd, e, if_false]

/-- a record outside the list is replaced -/
theorem cnt_upd_notmem (cf : Nat → Call) (id : Nat) (c' : Call) (l : List Nat)
    (hn : id ∉ l) : cnt (upd cf id c') l = cnt cf l := by
  apply cnt_congr
  intro j hj
  have e : j ≠ id := fun e => hn (e ▸ hj)
  simp only [upd, e, if_false]

/-- the flag of an entry stored exactly once flips from false to true -/
theorem cnt_upd_flip (cf : Nat → Call) (id : Nat) (c' : Call) (l : List Nat)
    (hnd : l.Nodup) (hm : id ∈ l) (h0 : (cf id).cancelled = false) (h1 : c'.cancelled = true) :
    cnt (upd cf id c') l = cnt cf l + 1 := by
  induction l with
  | nil => simp at hm
  | cons x xs ih =>
    have hn := List.nodup_cons.mp hnd
    rw [cnt_cons, cnt_cons]
    by_cases e : x = id
    · subst e
      rw [cnt_upd_notmem cf x c' xs hn.1, h0]
      have : (upd cf x c' x).cancelled = true := by simp only [upd, if_true]; exact h1
      rw [this]; simp
    · have hm' : id ∈ xs := by
        rcases List.mem_cons.mp hm with h | h
        · exact absurd h.symm e
        · exact h
      rw [ih hn.2 hm']
      have : upd cf id c' x = cf x := by simp only [upd, e, if_false]
      rw [this]; omega

theorem heappush_perm (key : Nat → Int) (h : List Nat) (x : Nat) :
    (heappush key h x).Perm (x :: h) := by
  unfold heappush
  exact (siftdown_perm key 0 _ _ _ (by simp)).trans (List.perm_append_singleton x h)

/-! ### the deficit -/

/-- number of cancelled entries stored in `_pendingTimedCalls` and `_newTimedCalls` -/
def cancelledStored (s : Sys) : Int := ((cancelledIn s s.heap + cancelledIn s s.staged : Nat) : Int)

/-- by how much `_cancellations` undercounts the cancelled entries stored -/
def deficit (s : Sys) : Int := cancelledStored s - s.canc

theorem cancelledStored_eq (s : Sys) :
    cancelledStored s = ((cnt s.call (s.heap ++ s.staged) : Nat) : Int) := by
  unfold cancelledStored; rw [cnt_append]; rfl

theorem cancelledStored_nonneg (s : Sys) : 0 ≤ cancelledStored s := by
  unfold cancelledStored; omega

/-- the stored count and the counter move together by `k` -/
theorem deficit_eq (s s' : Sys) (k : Int)
    (h1 : ((cnt s'.call (s'.heap ++ s'.staged) : Nat) : Int) =
      ((cnt s.call (s.heap ++ s.staged) : Nat) : Int) + k)
    (h2 : s'.canc = s.canc + k) : deficit s' = deficit s := by
  unfold deficit; rw [cancelledStored_eq, cancelledStored_eq, h1, h2]; omega

/-- one record replaced without touching its `cancelled` flag, the heap permuted -/
theorem deficit_same (s s' : Sys) (id : Nat) (c' : Call) (hcall : s'.call = upd s.call id c')
    (hx : c'.cancelled = (s.call id).cancelled) (hh : s'.heap.Perm s.heap)
    (hs : s'.staged = s.staged) (hc : s'.canc = s.canc) : deficit s' = deficit s := by
  apply deficit_eq s s' 0 _ (by rw [hc]; omega)
  rw [hcall, hs, cnt_upd_same _ _ _ _ hx, cnt_perm _ (hh.append_right s.staged)]; omega

theorem deficit_init (base : Int) (scripts : List (List Op)) : deficit (Sys.init base scripts) = 0 := rfl

/-! ### user operations -/

theorem deficit_callLater_aux (s : Sys) (c : Call) (I : Inv s) (hc : c.cancelled = false) :
    deficit { s with calls := s.calls ++ [c], staged := s.staged ++ [s.calls.length] } = deficit s := by
  have h1 : ({ s with calls := s.calls ++ [c], staged := s.staged ++ [s.calls.length] } : Sys).call =
      upd s.call s.calls.length c := funext (call_append s c)
  apply deficit_eq s _ 0 _ (by show s.canc = s.canc + 0; omega)
  rw [h1]
  show ((cnt (upd s.call s.calls.length c) (s.heap ++ (s.staged ++ [s.calls.length])) : Nat) : Int) = _
  have hnin : s.calls.length ∉ s.heap ++ s.staged := fun hm => by have := I.bound _ hm; omega
  rw [← List.append_assoc, cnt_append, cnt_upd_notmem _ _ _ _ hnin, cnt_cons, cnt_nil]
  have : (upd s.call s.calls.length c s.calls.length).cancelled = false := by
    simp only [upd, if_true]; exact hc
  rw [this]; simp

theorem deficit_callLater (s : Sys) (d : Int) (k : Nat) (I : Inv s) :
    deficit (callLater s d k).1 = deficit s := by
  unfold callLater
  split
  · rfl
  · exact deficit_callLater_aux s _ I rfl

theorem deficit_cancel (s : Sys) (id : Nat) (I : Inv s) (hid : id < s.calls.length) :
    deficit (cancel s id).1 = deficit s := by
  unfold cancel
  simp only
  split
  · rfl
  · rename_i hx
    split
    · rfl
    · rename_i hc
      have hpend : pendingC (s.call id) = true := by
        rw [pendingC_iff]; exact ⟨by simpa using hx, by simpa using hc⟩
      apply deficit_eq s _ 1 _ rfl
      show ((cnt (s.setCall id { s.call id with cancelled := true }).call (s.heap ++ s.staged) : Nat) : Int) = _
      rw [call_setCall s id _ hid,
        cnt_upd_flip s.call id _ _ I.nodup (I.pend id hpend) (by simpa using hx) rfl]
      omega

theorem moveSooner_staged (s : Sys) (id : Nat) : (moveSooner s id).staged = s.staged := by
  unfold moveSooner; simp only; split <;> rfl

theorem moveSooner_canc (s : Sys) (id : Nat) : (moveSooner s id).canc = s.canc := by
  unfold moveSooner; simp only; split <;> rfl

theorem deficit_setCall (s : Sys) (id : Nat) (c' : Call) (hid : id < s.calls.length)
    (hx : c'.cancelled = (s.call id).cancelled) : deficit (s.setCall id c') = deficit s :=
  deficit_same s _ id c' (call_setCall s id c' hid) hx (List.Perm.refl _) rfl rfl

theorem deficit_reset (s : Sys) (id : Nat) (secs : Int) (I : Inv s) (hid : id < s.calls.length) :
    deficit (reset s id secs).1 = deficit s := by
  unfold reset
  simp only
  split
  · rfl
  · rename_i hx
    split
    · rfl
    · rename_i hc
      have hpend : pendingC (s.call id) = true := by
        rw [pendingC_iff]; exact ⟨by simpa using hx, by simpa using hc⟩
      split
      · rename_i hlt
        have M := moveSooner_spec s id { s.call id with delayed := 0, time := s.now + secs } I hid
          (by simp; omega) rfl (fun _ => hpend) (Int.le_refl 0) (fun h => h)
        exact deficit_same s _ id _ M.2.2 rfl M.2.1.heap (moveSooner_staged _ _) (moveSooner_canc _ _)
      · exact deficit_setCall s id _ hid rfl

theorem deficit_delay (s : Sys) (id : Nat) (secs : Int) (I : Inv s) (hid : id < s.calls.length) :
    deficit (delay s id secs).1 = deficit s := by
  unfold delay
  simp only
  split
  · rfl
  · rename_i hx
    split
    · rfl
    · rename_i hc
      have hpend : pendingC (s.call id) = true := by
        rw [pendingC_iff]; exact ⟨by simpa using hx, by simpa using hc⟩
      split
      · rename_i hlt
        have M := moveSooner_spec s id
          { s.call id with time := (s.call id).time + ((s.call id).delayed + secs), delayed := 0 } I hid
          (by simp; omega) rfl (fun _ => hpend) (Int.le_refl 0) (fun h => h)
        exact deficit_same s _ id _ M.2.2 rfl M.2.1.heap (moveSooner_staged _ _) (moveSooner_canc _ _)
      · exact deficit_setCall s id _ hid rfl

/-- 1. user operations (callLater / cancel / reset / delay) leave the deficit unchanged -/
theorem deficit_applyOp (s : Sys) (o : Op) (I : Inv s) : deficit (applyOp s o).1 = deficit s := by
  cases o with
  | callLater d k => exact deficit_callLater s d k I
  | cancel ref =>
    simp only [applyOp]
    split
    · rfl
    · rename_i id h; exact deficit_cancel s id I (resolve_lt s ref id h)
  | reset ref secs =>
    simp only [applyOp]
    split
    · rfl
    · rename_i id h; exact deficit_reset s id secs I (resolve_lt s ref id h)
  | delay ref secs =>
    simp only [applyOp]
    split
    · rfl
    · rename_i id h; exact deficit_delay s id secs I (resolve_lt s ref id h)

/-- 2. the body of a running call leaves the deficit unchanged -/
theorem deficit_runScript : ∀ (ops : List Op) (s : Sys), Inv s →
    deficit (runScript s ops).1 = deficit s
  | [], _, _ => rfl
  | o :: os, s, I => by
    simp only [runScript]
    rw [deficit_runScript os (applyOp s o).1 (applyOp_spec s o I).1, deficit_applyOp s o I]

/-! ### `_insertNewDelayedCalls` -/

/-- the deficit while `rest` is what remains of the staging list being walked -/
def dfc (s : Sys) (rest : List Nat) : Int := ((cnt s.call (s.heap ++ rest) : Nat) : Int) - s.canc

theorem deficit_eq_dfc (s : Sys) : deficit s = dfc s s.staged := by
  unfold deficit dfc; rw [cancelledStored_eq]

theorem dfc_insertOne (s : Sys) (id : Nat) (rest : List Nat)
    (I : InvF s.call s.calls.length s.heap (id :: rest)) :
    dfc (insertOne s id) rest = dfc s (id :: rest) := by
  have hid : id < s.calls.length := I.bound id (by simp)
  have hmid : cnt s.call (s.heap ++ id :: rest) =
      cnt s.call (s.heap ++ rest) + (if (s.call id).cancelled = true then 1 else 0) := by
    rw [cnt_perm s.call (List.perm_middle : (s.heap ++ id :: rest).Perm (id :: (s.heap ++ rest))), cnt_cons]
  unfold insertOne
  simp only
  split
  · rename_i hx
    show ((cnt s.call (s.heap ++ rest) : Nat) : Int) - (s.canc - 1) =
      ((cnt s.call (s.heap ++ id :: rest) : Nat) : Int) - s.canc
    rw [hmid, if_pos hx]; omega
  · rename_i hx
    show ((cnt (s.setCall id { s.call id with time := (s.call id).time + (s.call id).delayed, delayed := 0 }).call
        (heappush (s.setCall id { s.call id with time := (s.call id).time + (s.call id).delayed, delayed := 0 }).key
          s.heap id ++ rest) : Nat) : Int) - s.canc =
      ((cnt s.call (s.heap ++ id :: rest) : Nat) : Int) - s.canc
    rw [call_setCall s id _ hid,
      cnt_upd_same s.call id { s.call id with time := (s.call id).time + (s.call id).delayed, delayed := 0 } _ rfl,
      cnt_perm s.call ((heappush_perm _ s.heap id).append_right rest), hmid]
    show ((cnt s.call (id :: (s.heap ++ rest)) : Nat) : Int) - s.canc = _
    rw [cnt_cons]

theorem dfc_fold : ∀ (rest : List Nat) (s : Sys), InvF s.call s.calls.length s.heap rest →
    dfc (rest.foldl insertOne s) [] = dfc s rest
  | [], _, _ => rfl
  | id :: rest, s, I => by
    simp only [List.foldl_cons]
    rw [dfc_fold rest (insertOne s id) (insertOne_spec s id rest I).1, dfc_insertOne s id rest I]

/-- 3. `_insertNewDelayedCalls` leaves the deficit unchanged: a cancelled staged entry is dropped
    and counted off; the others move to the heap -/
theorem deficit_insertNew (s : Sys) (I : Inv s) : deficit (insertNew s) = deficit s := by
  rw [deficit_eq_dfc s, ← dfc_fold s.staged s I, deficit_eq_dfc]
  rfl

/-- 6. `timeout()` -/
theorem deficit_timeout (s : Sys) (I : Inv s) : deficit (timeout s).1 = deficit s := by
  unfold timeout
  simp only
  split <;> exact deficit_insertNew s I

/-! ### the `runUntilCurrent` loop -/

theorem deficit_turn (n0 : Nat) (s s' : Sys) (evs : List Ev) (R : Pre n0 s)
    (h : turn s = some (s', evs)) : deficit s' = deficit s := by
  obtain ⟨root, tl, id, heap', hh, hdue, hpop⟩ := turn_cases s s' evs h
  rw [turn_eq s root tl id heap' hh hdue hpop] at h
  have P := heappop_spec s.key s.heap R.inv.isHeap id heap' hpop
  have hidmem : id ∈ s.heap := P.1.mem_iff.mpr (by simp)
  have hidn : id < s.calls.length := R.inv.bound id (List.mem_append_left _ hidmem)
  have hcallS : ∀ c, (({ s with heap := heap' } : Sys).setCall id c).call = upd s.call id c :=
    fun c => call_setCall { s with heap := heap' } id c hidn
  have hlenS : ∀ c, (({ s with heap := heap' } : Sys).setCall id c).calls.length = s.calls.length := by
    intro c; simp [Sys.setCall]
  have hcnt : cnt s.call (s.heap ++ s.staged) =
      cnt s.call (heap' ++ s.staged) + (if (s.call id).cancelled = true then 1 else 0) := by
    rw [cnt_perm s.call (P.1.append_right s.staged)]
    exact cnt_cons s.call id (heap' ++ s.staged)
  split at h
  · -- cancelled: dropped and counted off
    rename_i hx
    simp only [Option.some.injEq, Prod.mk.injEq] at h
    obtain ⟨rfl, rfl⟩ := h
    apply deficit_eq s _ (-1) _ (by show s.canc - 1 = s.canc + -1; omega)
    show ((cnt s.call (heap' ++ s.staged) : Nat) : Int) = _
    rw [hcnt, if_pos hx]; omega
  · rename_i hx
    split at h
    · -- delayed: activated and pushed back
      rename_i hdel
      simp only [Option.some.injEq, Prod.mk.injEq] at h
      obtain ⟨rfl, rfl⟩ := h
      exact deficit_same s _ id _ (hcallS _) rfl ((heappush_perm _ heap' id).trans P.1.symm) rfl rfl
    · -- run
      rename_i hdel
      simp only [Option.some.injEq, Prod.mk.injEq] at h
      obtain ⟨rfl, rfl⟩ := h
      have I1 := inv_remove s.call s.calls.length s.heap heap' s.staged id
        { s.call id with called := true } R.inv P.1 P.2.1 (by simp [pendingC]) (R.inv.dnn id)
      have I2 : Inv (({ s with heap := heap' } : Sys).setCall id { s.call id with called := true }) := by
        show InvF (({ s with heap := heap' } : Sys).setCall id _).call
          (({ s with heap := heap' } : Sys).setCall id _).calls.length heap' s.staged
        rw [hcallS, hlenS]; exact I1
      rw [deficit_runScript _ _ I2]
      apply deficit_eq s _ 0 _ (by show s.canc = s.canc + 0; omega)
      show ((cnt (({ s with heap := heap' } : Sys).setCall id { s.call id with called := true }).call
        (heap' ++ s.staged) : Nat) : Int) = _
      rw [hcallS, cnt_upd_same s.call id { s.call id with called := true } _ rfl, hcnt, if_neg hx]; omega

/-- 4. the `while` loop of `runUntilCurrent` leaves the deficit unchanged -/
theorem deficit_runLoop (n0 : Nat) : ∀ (fuel : Nat) (s : Sys), Pre n0 s →
    deficit (runLoop fuel s).1 = deficit s
  | 0, s, _ => by
    rw [runLoop_zero]
    split <;> rfl
  | fuel + 1, s, R => by
    rw [runLoop_succ]
    split
    · rfl
    · rename_i s' evs ht
      show deficit (runLoop fuel s').1 = deficit s
      rw [deficit_runLoop n0 fuel s' (turn_spec n0 s s' evs R ht).pre, deficit_turn n0 s s' evs R ht]

/-! ### the compaction -/

/-- 5a. when the compaction fires it zeroes the counter and removes every cancelled entry from
    the heap — but it does not look at the staging list -/
theorem compact_fire (s : Sys) (h : s.canc > 50 ∧ s.canc > ((s.heap.length / 2 : Nat) : Int)) :
    (compact s).canc = 0 ∧ cancelledIn (compact s) (compact s).heap = 0 ∧
    (compact s).staged = s.staged ∧ (compact s).call = s.call ∧
    deficit (compact s) = ((cancelledIn s s.staged : Nat) : Int) := by
  have hc : compact s =
      { s with canc := 0, heap := heapify s.key (s.heap.filter fun id => !(s.call id).cancelled) } := by
    unfold compact; rw [if_pos h]
  have H := heapify_spec s.key (s.heap.filter fun id => !(s.call id).cancelled)
  have h0 : cnt s.call (heapify s.key (s.heap.filter fun id => !(s.call id).cancelled)) = 0 := by
    rw [cnt_perm s.call H.2]
    unfold cnt
    rw [List.countP_eq_zero]
    intro a ha
    have := (List.mem_filter.mp ha).2
    simpa using this
  rw [hc]
  refine ⟨rfl, h0, rfl, rfl, ?_⟩
  unfold deficit cancelledStored
  show ((cnt s.call (heapify s.key (s.heap.filter fun id => !(s.call id).cancelled)) +
    cancelledIn s s.staged : Nat) : Int) - 0 = _
  rw [h0]; omega

/-- 5b. otherwise it does nothing -/
theorem compact_skip (s : Sys) (h : ¬ (s.canc > 50 ∧ s.canc > ((s.heap.length / 2 : Nat) : Int))) :
    compact s = s := by
  unfold compact; rw [if_neg h]

/-! ### histories -/

/-- whether the iteration started in `s` ends with a compaction -/
def compactsAfter (s : Sys) : Bool :=
  let m := (runLoop (loopFuel (insertNew s)) (insertNew s)).1
  decide (m.canc > 50 ∧ m.canc > ((m.heap.length / 2 : Nat) : Int))

/-- the ghost debt: the number of cancelled entries that were still staged at the most recent
    compaction -/
def debtStep (s : Sys) (d : Int) : Top → Int
  | .iterate =>
    if compactsAfter s then
      ((cancelledIn (runUntilCurrent s).1 (runUntilCurrent s).1.staged : Nat) : Int)
    else d
  | _ => d

def debtAfter : Sys → Int → List Top → Int
  | _, d, [] => d
  | s, d, t :: ts => debtAfter (step s t).1 (debtStep s d t) ts

theorem deficit_iterate (s : Sys) (d : Int) (I : Inv s) (hd : deficit s = d) (h0 : 0 ≤ d) :
    deficit (runUntilCurrent s).1 = debtStep s d .iterate ∧ 0 ≤ debtStep s d .iterate := by
  have N := insertNew_spec s I
  have hpre : Pre s.calls.length (insertNew s) :=
    ⟨N.1, fun j hj => by rw [← N.2.1.len]; exact N.1.bound j (List.mem_append_left _ hj),
     fun j hj => by rw [N.2.2] at hj; simp at hj, by rw [N.2.1.len]; exact Nat.le_refl _⟩
  have hL : deficit (runLoop (loopFuel (insertNew s)) (insertNew s)).1 = d := by
    rw [deficit_runLoop s.calls.length _ _ hpre, deficit_insertNew s I, hd]
  have hru : (runUntilCurrent s).1 = compact (runLoop (loopFuel (insertNew s)) (insertNew s)).1 := rfl
  have hca : compactsAfter s =
      decide ((runLoop (loopFuel (insertNew s)) (insertNew s)).1.canc > 50 ∧
        (runLoop (loopFuel (insertNew s)) (insertNew s)).1.canc >
          (((runLoop (loopFuel (insertNew s)) (insertNew s)).1.heap.length / 2 : Nat) : Int)) := rfl
  show deficit (runUntilCurrent s).1 =
      (if compactsAfter s = true then
        ((cancelledIn (runUntilCurrent s).1 (runUntilCurrent s).1.staged : Nat) : Int) else d) ∧
    0 ≤ (if compactsAfter s = true then
        ((cancelledIn (runUntilCurrent s).1 (runUntilCurrent s).1.staged : Nat) : Int) else d)
  by_cases hc : (runLoop (loopFuel (insertNew s)) (insertNew s)).1.canc > 50 ∧
      (runLoop (loopFuel (insertNew s)) (insertNew s)).1.canc >
        (((runLoop (loopFuel (insertNew s)) (insertNew s)).1.heap.length / 2 : Nat) : Int)
  · have C := compact_fire _ hc
    rw [if_pos (by rw [hca]; exact decide_eq_true hc), hru, C.2.2.2.2, cancelledIn_eq, cancelledIn_eq,
      C.2.2.2.1, C.2.2.1]
    exact ⟨rfl, by omega⟩
  · rw [if_neg (by rw [hca, decide_eq_false hc]; simp), hru, compact_skip _ hc]
    exact ⟨hL, h0⟩

theorem deficit_step (s : Sys) (t : Top) (d : Int) (I : Inv s) (hd : deficit s = d) (h0 : 0 ≤ d) :
    deficit (step s t).1 = debtStep s d t ∧ 0 ≤ debtStep s d t := by
  cases t with
  | user o => exact ⟨(deficit_applyOp s o I).trans hd, h0⟩
  | advance dt => exact ⟨hd, h0⟩
  | iterate => exact deficit_iterate s d I hd h0
  | timeout => exact ⟨(deficit_timeout s I).trans hd, h0⟩
  | getDelayedCalls => exact ⟨hd, h0⟩
  | counter => exact ⟨hd, h0⟩

/-- 7. along any history on which the invariant is preserved, the deficit equals the ghost debt,
    which is never negative -/
theorem deficit_exec
    (stepInv : ∀ s t, Inv s → s.stuck = false → Inv (step s t).1 ∧ (step s t).1.stuck = false) :
    ∀ (ops : List Top) (s : Sys) (d : Int), Inv s → s.stuck = false → deficit s = d → 0 ≤ d →
      deficit (exec s ops).1 = debtAfter s d ops ∧ 0 ≤ debtAfter s d ops
  | [], _, _, _, _, hd, h0 => ⟨hd, h0⟩
  | t :: ts, s, d, I, hs, hd, h0 => by
    have A := stepInv s t I hs
    have B := deficit_step s t d I hd h0
    exact deficit_exec stepInv ts (step s t).1 (debtStep s d t) A.1 A.2 B.1 B.2

/-- `_cancellations = stored − debt`, read off `deficit_exec` -/
theorem canc_of_deficit (s : Sys) (d : Int) (h : deficit s = d) : s.canc = cancelledStored s - d := by
  unfold deficit at h; omega

/-- the two global statements, for any initial state satisfying the invariant (instantiate
    `stepInv` with `step_spec` and `hinit` with `init_inv`) -/
theorem cancellations_counter_exact_of
    (stepInv : ∀ s t, Inv s → s.stuck = false → Inv (step s t).1 ∧ (step s t).1.stuck = false)
    (base : Int) (scripts : List (List Op)) (hinit : Inv (Sys.init base scripts)) (ops : List Top) :
    let s := (exec (Sys.init base scripts) ops).1
    s.canc = cancelledStored s - debtAfter (Sys.init base scripts) 0 ops ∧
      0 ≤ debtAfter (Sys.init base scripts) 0 ops := by
  intro s
  have A := deficit_exec stepInv ops (Sys.init base scripts) 0 hinit rfl (deficit_init base scripts)
    (Int.le_refl 0)
  exact ⟨canc_of_deficit s _ A.1, A.2⟩

theorem cancellations_counter_le_of
    (stepInv : ∀ s t, Inv s → s.stuck = false → Inv (step s t).1 ∧ (step s t).1.stuck = false)
    (base : Int) (scripts : List (List Op)) (hinit : Inv (Sys.init base scripts)) (ops : List Top) :
    let s := (exec (Sys.init base scripts) ops).1
    s.canc ≤ cancelledStored s := by
  intro s
  have A := cancellations_counter_exact_of stepInv base scripts hinit ops
  have h1 : s.canc = cancelledStored s - debtAfter (Sys.init base scripts) 0 ops := A.1
  have h2 := A.2
  omega

/-! ### the counter does go negative -/

/-- script 0 (run by call 0): schedule a call and cancel it at once (it is call 61) -/
def wScripts : List (List Op) := [[Op.callLater 3 1, Op.cancel 61], []]

/-- call 0 due at 1; 60 more calls due later; an iteration moves them all into the heap; 55 of
    them are cancelled (`_cancellations = 55 > 50`); the clock reaches 1 and the next iteration
    runs call 0, whose body creates and cancels call 61 (`_cancellations = 56`, call 61 staged);
    the iteration ends with the compaction (`56 > 60 / 2`): counter zeroed, heap filtered, call 61
    still staged; the following iteration drops call 61 from the staging list: -1 -/
def wOps : List Top :=
  [Top.user (Op.callLater 1 0)]
  ++ (List.range 60).map (fun i => Top.user (Op.callLater (10 + ((i * 7 % 13 : Nat) : Int)) 1))
  ++ [Top.iterate]
  ++ (List.range 55).map (fun i => Top.user (Op.cancel (i + 1)))
  ++ [Top.advance 1, Top.iterate, Top.iterate]

/-- 8. a history after which `_cancellations = -1` although no cancelled entry is stored (found on
    the real `ReactorBase`), and on which the ghost debt is 1 -/
theorem counter_negative_witness :
    (exec (Sys.init 0 wScripts) wOps).1.canc = -1 ∧
    cancelledStored (exec (Sys.init 0 wScripts) wOps).1 = 0 ∧
    debtAfter (Sys.init 0 wScripts) 0 wOps = 1 := by decide +kernel

end TwistedProps.C08
