import TwistedProps.C08.Heap
/-!
C08 — the bookkeeping invariant of the timer state and its preservation by every operation.
-/
namespace TwistedProps.C08
open Twisted.Reactor.Timers

def pendingC (c : Call) : Bool := !c.cancelled && !c.called

/-- `cf` with the record of call `id` replaced (mutation of one `DelayedCall` object) -/
def upd (cf : Nat → Call) (id : Nat) (c : Call) : Nat → Call := fun j => if j = id then c else cf j

/-- The invariant, over the store read as a function `cf`, the number `n` of calls created, the
    heap and the staging list:
    heap order on `.time`; no call is stored twice; stored indices exist and have not been called;
    every pending call is stored; `delayed_time ≥ 0`. -/
structure InvF (cf : Nat → Call) (n : Nat) (heap staged : List Nat) : Prop where
  isHeap : IsHeap (fun j => (cf j).time) heap
  nodup : (heap ++ staged).Nodup
  bound : ∀ id ∈ heap ++ staged, id < n
  live : ∀ id ∈ heap ++ staged, (cf id).called = false
  pend : ∀ id, pendingC (cf id) = true → id ∈ heap ++ staged
  dnn : ∀ id, 0 ≤ (cf id).delayed
  out : ∀ id, n ≤ id → cf id = dead

abbrev Inv (s : Sys) : Prop := InvF s.call s.calls.length s.heap s.staged

theorem getD_mem (h : List Nat) (i : Nat) (hi : i < h.length) : h.getD i 0 ∈ h := by
  simp [List.getD_eq_getElem?_getD, hi]

theorem heapFrom_congr (key key' : Nat → Int) (p : Nat) (h : List Nat)
    (hk : ∀ j ∈ h, key j = key' j) (H : HeapFrom key p h) : HeapFrom key' p h := by
  intro i hi0 hil hpi
  rw [← hk _ (getD_mem h i hil), ← hk _ (getD_mem h _ (by omega))]
  exact H i hi0 hil hpi

theorem push_core (cf : Nat → Call) (n : Nat) (heap' staged' : List Nat) (id : Nat) (c' : Call)
    (H1 : IsHeap (fun j => (cf j).time) heap')
    (H2 : (id :: (heap' ++ staged')).Nodup)
    (H3 : ∀ j ∈ id :: (heap' ++ staged'), j < n)
    (H4 : ∀ j ∈ heap' ++ staged', (cf j).called = false)
    (H5 : ∀ j, pendingC (cf j) = true → j ∈ id :: (heap' ++ staged'))
    (H6 : ∀ j, 0 ≤ (cf j).delayed)
    (H7 : ∀ j, n ≤ j → cf j = dead)
    (hc : c'.called = false) (hd : 0 ≤ c'.delayed) :
    InvF (upd cf id c') n (heappush (fun j => (upd cf id c' j).time) heap' id) staged' := by
  have hid : id ∉ heap' ++ staged' := (List.nodup_cons.mp H2).1
  have hk : ∀ j ∈ heap', (cf j).time = (upd cf id c' j).time := by
    intro j hj
    have : j ≠ id := fun e => hid (by rw [← e]; exact List.mem_append_left _ hj)
    simp [upd, this]
  have P := heappush_spec (fun j => (upd cf id c' j).time) heap' id
    (heapFrom_congr _ _ 0 heap' hk H1)
  have hperm : (heappush (fun j => (upd cf id c' j).time) heap' id ++ staged').Perm
      (id :: (heap' ++ staged')) := by
    have := P.2.append_right staged'
    simpa using this
  refine ⟨P.1, hperm.nodup_iff.mpr H2, ?_, ?_, ?_, ?_, ?_⟩
  · intro j hj; exact H3 j (hperm.mem_iff.mp hj)
  · intro j hj
    have hj' := hperm.mem_iff.mp hj
    by_cases e : j = id
    · subst e; simp [upd, hc]
    · simp only [upd, e, if_false]
      exact H4 j (by simpa [e] using hj')
  · intro j hj
    apply hperm.mem_iff.mpr
    by_cases e : j = id
    · subst e; simp
    · simp only [upd, e, if_false] at hj
      exact H5 j hj
  · intro j
    by_cases e : j = id
    · subst e; simp [upd, hd]
    · simp only [upd, e, if_false]; exact H6 j
  · intro j hj
    have : j ≠ id := by have := H3 id (by simp); omega
    simp only [upd, this, if_false]; exact H7 j hj

/-- a call leaves the heap for good (it was cancelled, or it is being run) -/
theorem inv_remove (cf : Nat → Call) (n : Nat) (heap heap' staged : List Nat) (id : Nat) (c' : Call)
    (I : InvF cf n heap staged) (P : heap.Perm (id :: heap'))
    (H : IsHeap (fun j => (cf j).time) heap')
    (hp : pendingC c' = false) (hd : 0 ≤ c'.delayed) :
    InvF (upd cf id c') n heap' staged := by
  have hperm : (heap ++ staged).Perm (id :: (heap' ++ staged)) := by
    simpa using P.append_right staged
  have hnd := hperm.nodup_iff.mp I.nodup
  have hid : id ∉ heap' ++ staged := (List.nodup_cons.mp hnd).1
  have hsub : ∀ j, j ∈ heap' ++ staged → j ∈ heap ++ staged ∧ j ≠ id := by
    intro j hj
    exact ⟨hperm.mem_iff.mpr (List.mem_cons_of_mem _ hj), fun e => hid (e ▸ hj)⟩
  have hidn : id < n := I.bound id (hperm.mem_iff.mpr (by simp))
  have hk : ∀ j ∈ heap', (cf j).time = (upd cf id c' j).time := by
    intro j hj
    have := (hsub j (List.mem_append_left _ hj)).2
    simp [upd, this]
  refine ⟨heapFrom_congr _ _ 0 heap' hk H, (List.nodup_cons.mp hnd).2, ?_, ?_, ?_, ?_, ?_⟩
  · intro j hj; exact I.bound j (hsub j hj).1
  · intro j hj
    simp only [upd, (hsub j hj).2, if_false]; exact I.live j (hsub j hj).1
  · intro j hj
    by_cases e : j = id
    · subst e; simp only [upd, if_true] at hj; rw [hp] at hj; exact absurd hj (by simp)
    · simp only [upd, e, if_false] at hj
      have := hperm.mem_iff.mp (I.pend j hj)
      simpa [e] using this
  · intro j
    by_cases e : j = id
    · subst e; simp [upd, hd]
    · simp only [upd, e, if_false]; exact I.dnn j
  · intro j hj
    have : j ≠ id := by omega
    simp only [upd, this, if_false]; exact I.out j hj

theorem upd_self (cf : Nat → Call) (id : Nat) : upd cf id (cf id) = cf := by
  funext j; unfold upd; split
  · rename_i h; rw [h]
  · rfl

/-- the popped call goes back into the heap with a new `.time` (`activate_delay`) -/
theorem inv_repush (cf : Nat → Call) (n : Nat) (heap heap' staged : List Nat) (id : Nat) (c' : Call)
    (I : InvF cf n heap staged) (P : heap.Perm (id :: heap'))
    (H : IsHeap (fun j => (cf j).time) heap')
    (hc : c'.called = false) (hd : 0 ≤ c'.delayed) :
    InvF (upd cf id c') n (heappush (fun j => (upd cf id c' j).time) heap' id) staged := by
  have hperm : (heap ++ staged).Perm (id :: (heap' ++ staged)) := by
    simpa using P.append_right staged
  have hnd := hperm.nodup_iff.mp I.nodup
  apply push_core cf n heap' staged id c' H hnd
  · intro j hj; exact I.bound j (hperm.mem_iff.mpr hj)
  · intro j hj; exact I.live j (hperm.mem_iff.mpr (List.mem_cons_of_mem _ hj))
  · intro j hj; exact hperm.mem_iff.mp (I.pend j hj)
  · exact I.dnn
  · exact I.out
  · exact hc
  · exact hd

/-- a staged call is inserted into the heap -/
theorem inv_insert (cf : Nat → Call) (n : Nat) (heap rest : List Nat) (id : Nat) (c' : Call)
    (I : InvF cf n heap (id :: rest)) (hc : c'.called = false) (hd : 0 ≤ c'.delayed) :
    InvF (upd cf id c') n (heappush (fun j => (upd cf id c' j).time) heap id) rest := by
  have hperm : (heap ++ id :: rest).Perm (id :: (heap ++ rest)) := List.perm_middle
  have hnd := hperm.nodup_iff.mp I.nodup
  apply push_core cf n heap rest id c' I.isHeap hnd
  · intro j hj; exact I.bound j (hperm.mem_iff.mpr hj)
  · intro j hj; exact I.live j (hperm.mem_iff.mpr (List.mem_cons_of_mem _ hj))
  · intro j hj; exact hperm.mem_iff.mp (I.pend j hj)
  · exact I.dnn
  · exact I.out
  · exact hc
  · exact hd

/-- a cancelled staged call is dropped -/
theorem inv_drop (cf : Nat → Call) (n : Nat) (heap rest : List Nat) (id : Nat)
    (I : InvF cf n heap (id :: rest)) (hx : pendingC (cf id) = false) :
    InvF cf n heap rest := by
  have hperm : (heap ++ id :: rest).Perm (id :: (heap ++ rest)) := List.perm_middle
  have hnd := hperm.nodup_iff.mp I.nodup
  have hid : id ∉ heap ++ rest := (List.nodup_cons.mp hnd).1
  refine ⟨I.isHeap, (List.nodup_cons.mp hnd).2, ?_, ?_, ?_, I.dnn, I.out⟩
  · intro j hj; exact I.bound j (hperm.mem_iff.mpr (List.mem_cons_of_mem _ hj))
  · intro j hj; exact I.live j (hperm.mem_iff.mpr (List.mem_cons_of_mem _ hj))
  · intro j hj
    have := hperm.mem_iff.mp (I.pend j hj)
    have e : j ≠ id := fun e => by subst e; rw [hx] at hj; exact absurd hj (by simp)
    simpa [e] using this

/-- mutate a stored call (not reviving it, `called` unchanged) while the heap is rearranged into a
    permutation that is ordered for the new times -/
theorem inv_upd_perm (cf : Nat → Call) (n : Nat) (heap heap' staged : List Nat) (id : Nat) (c' : Call)
    (I : InvF cf n heap staged) (hid : id < n) (P : heap'.Perm heap)
    (H' : IsHeap (fun j => (upd cf id c' j).time) heap')
    (hc : c'.called = (cf id).called) (hp : pendingC c' = true → pendingC (cf id) = true)
    (hd : 0 ≤ c'.delayed) :
    InvF (upd cf id c') n heap' staged := by
  have hperm : (heap' ++ staged).Perm (heap ++ staged) := P.append_right staged
  refine ⟨H', hperm.nodup_iff.mpr I.nodup, ?_, ?_, ?_, ?_, ?_⟩
  · intro j hj; exact I.bound j (hperm.mem_iff.mp hj)
  · intro j hj
    have hj' := hperm.mem_iff.mp hj
    by_cases e : j = id
    · subst e; simp only [upd, if_true]; rw [hc]; exact I.live j hj'
    · simp only [upd, e, if_false]; exact I.live j hj'
  · intro j hj
    apply hperm.mem_iff.mpr
    by_cases e : j = id
    · subst e; simp only [upd, if_true] at hj; exact I.pend j (hp hj)
    · simp only [upd, e, if_false] at hj; exact I.pend j hj
  · intro j
    by_cases e : j = id
    · subst e; simp [upd, hd]
    · simp only [upd, e, if_false]; exact I.dnn j
  · intro j hj
    have : j ≠ id := by omega
    simp only [upd, this, if_false]; exact I.out j hj

theorem nodup_getD_inj (h : List Nat) (hn : h.Nodup) (i j : Nat) (hi : i < h.length)
    (hj : j < h.length) (e : h.getD i 0 = h.getD j 0) : i = j := by
  exact (List.getD_inj hi hj hn).mp e

/-- `reset`/`delay` to an earlier time, followed by `_moveCallLaterSooner` -/
theorem inv_decrease (cf : Nat → Call) (n : Nat) (heap staged : List Nat) (id : Nat) (c' : Call)
    (I : InvF cf n heap staged) (hid : id < n)
    (ht : c'.time ≤ (cf id).time) (hc : c'.called = (cf id).called)
    (hp : pendingC c' = true → pendingC (cf id) = true) (hd : 0 ≤ c'.delayed) :
    InvF (upd cf id c') n
      (if heap.idxOf id < heap.length then
        moveLoop (fun j => (upd cf id c' j).time) id (heap.idxOf id + 1) heap (heap.idxOf id)
       else heap) staged := by
  have hkne : ∀ j, j ≠ id → (upd cf id c' j).time = (cf j).time := by
    intro j e; simp [upd, e]
  have hkid : (upd cf id c' id).time = c'.time := by simp [upd]
  split
  · rename_i hpos
    have hget : heap[heap.idxOf id] = id := List.getElem_idxOf hpos
    have hgetD : heap.getD (heap.idxOf id) 0 = id := by
      simp [List.getD_eq_getElem?_getD, hpos, hget]
    have hset : heap.set (heap.idxOf id) id = heap := by
      have := List.set_getElem_self hpos
      rw [hget] at this
      exact this
    rw [moveLoop_eq _ _ _ _ _ hpos, hset]
    have hnd : heap.Nodup := (List.nodup_append.mp I.nodup).1
    have hother : ∀ i, i < heap.length → i ≠ heap.idxOf id → heap.getD i 0 ≠ id := by
      intro i hi hne e
      exact hne (nodup_getD_inj heap hnd i _ hi hpos (by rw [e, hgetD]))
    generalize heap.idxOf id = pos at *
    have B : Bub (fun j => (upd cf id c' j).time) 0 heap pos := by
      refine ⟨hpos, desc_zero _, ?_, ?_, ?_⟩
      · intro i hi0 hil hpi hip hpp
        rw [hkne _ (hother i hil hip), hkne _ (hother _ (by omega) hpp)]
        exact I.isHeap i hi0 hil hpi
      · intro hp0 c hc0 hcl hcp
        rw [hkne _ (hother c hcl (by omega)), hkne _ (hother _ (by omega) (by omega))]
        have h1 := I.isHeap pos (by omega) hpos (by omega)
        have h2 := I.isHeap c hc0 hcl (by omega)
        rw [hcp] at h2
        exact Int.le_trans h1 h2
      · intro c hc0 hcl hcp
        rw [hgetD, hkid, hkne _ (hother c hcl (by omega))]
        have h2 := I.isHeap c hc0 hcl (by omega)
        rw [hcp, hgetD] at h2
        have h2' : (cf id).time ≤ (cf (heap.getD c 0)).time := h2
        omega
    exact inv_upd_perm cf n heap _ staged id c' I hid (siftdown_perm _ 0 _ _ _ hpos)
      (siftdown_heap _ 0 _ _ _ (by omega) B) hc hp hd
  · rename_i hpos
    have hnot : id ∉ heap := fun hm => hpos (List.idxOf_lt_length_iff.mpr hm)
    have hk : ∀ j ∈ heap, (cf j).time = (upd cf id c' j).time := by
      intro j hj
      have : j ≠ id := fun e => hnot (e ▸ hj)
      rw [hkne j this]
    exact inv_upd_perm cf n heap heap staged id c' I hid (List.Perm.refl _)
      (heapFrom_congr _ _ 0 heap hk I.isHeap) hc hp hd

theorem inv_same (cf : Nat → Call) (n : Nat) (heap staged : List Nat) (id : Nat) (c' : Call)
    (I : InvF cf n heap staged) (hid : id < n)
    (ht : c'.time = (cf id).time) (hc : c'.called = (cf id).called)
    (hp : pendingC c' = true → pendingC (cf id) = true) (hd : 0 ≤ c'.delayed) :
    InvF (upd cf id c') n heap staged := by
  have hk : ∀ j ∈ heap, (cf j).time = (upd cf id c' j).time := by
    intro j _
    by_cases e : j = id
    · subst e; simp [upd, ht]
    · simp [upd, e]
  exact inv_upd_perm cf n heap heap staged id c' I hid (List.Perm.refl _)
    (heapFrom_congr _ _ 0 heap hk I.isHeap) hc hp hd

/-- `callLater`: a fresh call is staged -/
theorem inv_callLater (cf : Nat → Call) (n : Nat) (heap staged : List Nat) (c : Call)
    (I : InvF cf n heap staged) (hc : c.called = false) (hd : 0 ≤ c.delayed) :
    InvF (upd cf n c) (n + 1) heap (staged ++ [n]) := by
  have hnin : n ∉ heap ++ staged := fun hm => by have := I.bound n hm; omega
  have hne : ∀ j ∈ heap ++ staged, j ≠ n := fun j hj e => hnin (e ▸ hj)
  have hk : ∀ j ∈ heap, (cf j).time = (upd cf n c j).time := by
    intro j hj
    simp [upd, hne j (List.mem_append_left _ hj)]
  have happ : heap ++ (staged ++ [n]) = (heap ++ staged) ++ [n] := by simp
  refine ⟨heapFrom_congr _ _ 0 heap hk I.isHeap, ?_, ?_, ?_, ?_, ?_, ?_⟩
  · rw [happ]
    apply List.nodup_append.mpr
    refine ⟨I.nodup, by simp, ?_⟩
    intro a ha b hb
    simp at hb; subst hb
    exact hne a ha
  · intro j hj
    rw [happ] at hj
    rcases List.mem_append.mp hj with h | h
    · have := I.bound j h; omega
    · simp at h; omega
  · intro j hj
    rw [happ] at hj
    rcases List.mem_append.mp hj with h | h
    · simp only [upd, hne j h, if_false]; exact I.live j h
    · simp at h; subst h; simp [upd, hc]
  · intro j hj
    rw [happ]
    by_cases e : j = n
    · subst e; simp
    · simp only [upd, e, if_false] at hj
      exact List.mem_append_left _ (I.pend j hj)
  · intro j
    by_cases e : j = n
    · subst e; simp [upd, hd]
    · simp only [upd, e, if_false]; exact I.dnn j
  · intro j hj
    have : j ≠ n := by omega
    simp only [upd, this, if_false]; exact I.out j (by omega)

end TwistedProps.C08
