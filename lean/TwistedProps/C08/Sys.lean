import TwistedProps.C08.Inv
/-!
C08 — every operation of the model preserves the invariant (`Inv`) and a frame (`Frame`):
clock, script table and `stuck` untouched, the heap permuted, only fresh indices staged.
-/
namespace TwistedProps.C08
open Twisted.Reactor.Timers

theorem inv_of_eq (s' : Sys) (cf : Nat → Call) (n : Nat) (heap staged : List Nat)
    (h1 : s'.call = cf) (h2 : s'.calls.length = n) (h3 : s'.heap = heap) (h4 : s'.staged = staged)
    (I : InvF cf n heap staged) : Inv s' := by
  subst h1 h2 h3 h4; exact I

theorem call_setCall (s : Sys) (id : Nat) (c : Call) (h : id < s.calls.length) :
    (s.setCall id c).call = upd s.call id c := by
  funext j
  simp only [Sys.call, Sys.setCall, upd, List.getD_eq_getElem?_getD, List.getElem?_set]
  by_cases e : id = j
  · subst e; simp [h]
  · have : ¬ j = id := fun x => e x.symm
    simp [e, this]

theorem key_setCall (s : Sys) (id : Nat) (c : Call) (h : id < s.calls.length) :
    (s.setCall id c).key = fun j => (upd s.call id c j).time := by
  funext j
  show ((s.setCall id c).call j).time = _
  rw [call_setCall s id c h]

theorem call_append (s : Sys) (c : Call) (j : Nat) :
    (s.calls ++ [c]).getD j dead = upd s.call s.calls.length c j := by
  simp only [Sys.call, upd, List.getD_eq_getElem?_getD]
  by_cases h1 : j < s.calls.length
  · have : j ≠ s.calls.length := by omega
    simp [List.getElem?_append_left h1, this]
  · by_cases h2 : j = s.calls.length
    · subst h2; simp
    · have h3 : s.calls.length + 1 ≤ j := by omega
      have : (s.calls ++ [c])[j]? = none := by
        apply List.getElem?_eq_none; simp; omega
      have h4 : s.calls[j]? = none := by
        apply List.getElem?_eq_none; omega
      simp [this, h2, h4]

/-- what no operation changes, and how the stored indices may move -/
structure Frame (s s' : Sys) : Prop where
  now : s'.now = s.now
  stuck : s'.stuck = s.stuck
  scripts : s'.scripts = s.scripts
  len : s.calls.length ≤ s'.calls.length
  heap : s'.heap.Perm s.heap
  staged : ∀ j ∈ s'.staged, j ∈ s.staged ∨ s.calls.length ≤ j
  /-- `called` and `cancelled` are never reset -/
  called : ∀ j, j < s.calls.length → (s.call j).called = true → (s'.call j).called = true
  cancelled : ∀ j, j < s.calls.length → (s.call j).cancelled = true → (s'.call j).cancelled = true

theorem Frame.refl (s : Sys) : Frame s s :=
  ⟨rfl, rfl, rfl, Nat.le_refl _, List.Perm.refl _, fun _ h => Or.inl h, fun _ _ h => h, fun _ _ h => h⟩

theorem Frame.trans {a b c : Sys} (f : Frame a b) (g : Frame b c) : Frame a c :=
  ⟨g.now.trans f.now, g.stuck.trans f.stuck, g.scripts.trans f.scripts, Nat.le_trans f.len g.len,
   g.heap.trans f.heap, fun j hj => by
    rcases g.staged j hj with h | h
    · exact f.staged j h
    · exact Or.inr (Nat.le_trans f.len h),
   fun j hj h => g.called j (Nat.lt_of_lt_of_le hj f.len) (f.called j hj h),
   fun j hj h => g.cancelled j (Nat.lt_of_lt_of_le hj f.len) (f.cancelled j hj h)⟩

theorem upd_flags (cf : Nat → Call) (id : Nat) (c' : Call)
    (hc : c'.called = (cf id).called) (hx : (cf id).cancelled = true → c'.cancelled = true) :
    (∀ j, (cf j).called = true → (upd cf id c' j).called = true) ∧
    (∀ j, (cf j).cancelled = true → (upd cf id c' j).cancelled = true) := by
  constructor
  · intro j h
    by_cases e : j = id
    · subst e; simp only [upd, if_true]; rw [hc]; exact h
    · simp only [upd, e, if_false]; exact h
  · intro j h
    by_cases e : j = id
    · subst e; simp only [upd, if_true]; exact hx h
    · simp only [upd, e, if_false]; exact h

theorem moveSooner_spec (s : Sys) (id : Nat) (c' : Call) (I : Inv s) (hid : id < s.calls.length)
    (ht : c'.time ≤ (s.call id).time) (hc : c'.called = (s.call id).called)
    (hp : pendingC c' = true → pendingC (s.call id) = true) (hd : 0 ≤ c'.delayed)
    (hx : (s.call id).cancelled = true → c'.cancelled = true) :
    Inv (moveSooner (s.setCall id c') id) ∧ Frame s (moveSooner (s.setCall id c') id) ∧
    (moveSooner (s.setCall id c') id).call = upd s.call id c' := by
  have F := upd_flags s.call id c' hc hx
  have hcall := call_setCall s id c' hid
  have D := inv_decrease s.call s.calls.length s.heap s.staged id c' I hid ht hc hp hd
  have hlen : (s.setCall id c').calls.length = s.calls.length := by simp [Sys.setCall]
  unfold moveSooner
  simp only
  split
  · rename_i hpos
    have hpos' : s.heap.idxOf id < s.heap.length := hpos
    rw [if_pos hpos'] at D
    refine ⟨?_, ?_, ?_⟩
    · show InvF (s.setCall id c').call (s.setCall id c').calls.length
        (moveLoop (s.setCall id c').key id (s.heap.idxOf id + 1) s.heap (s.heap.idxOf id)) s.staged
      rw [call_setCall s id c' hid, hlen, key_setCall s id c' hid]; exact D
    · refine ⟨rfl, rfl, rfl, by rw [hlen]; exact Nat.le_refl _, ?_, fun _ h => Or.inl h,
        fun j _ h => by show ((s.setCall id c').call j).called = true; rw [hcall]; exact F.1 j h,
        fun j _ h => by show ((s.setCall id c').call j).cancelled = true; rw [hcall]; exact F.2 j h⟩
      show (moveLoop (s.setCall id c').key id (s.heap.idxOf id + 1) s.heap (s.heap.idxOf id)).Perm s.heap
      rw [moveLoop_eq _ _ _ _ _ hpos']
      have hget : s.heap[s.heap.idxOf id] = id := List.getElem_idxOf hpos'
      have hset : s.heap.set (s.heap.idxOf id) id = s.heap := by
        have := List.set_getElem_self hpos'
        rw [hget] at this
        exact this
      rw [hset]
      exact siftdown_perm _ 0 _ _ _ hpos'
    · exact call_setCall s id c' hid
  · rename_i hpos
    have hpos' : ¬ s.heap.idxOf id < s.heap.length := hpos
    rw [if_neg hpos'] at D
    exact ⟨inv_of_eq _ _ _ _ _ (call_setCall s id c' hid) hlen rfl rfl D,
      ⟨rfl, rfl, rfl, by rw [hlen]; exact Nat.le_refl _, List.Perm.refl _, fun _ h => Or.inl h,
        fun j _ h => by show ((s.setCall id c').call j).called = true; rw [hcall]; exact F.1 j h,
        fun j _ h => by show ((s.setCall id c').call j).cancelled = true; rw [hcall]; exact F.2 j h⟩,
      call_setCall s id c' hid⟩

theorem setCall_spec (s : Sys) (id : Nat) (c' : Call) (I : Inv s) (hid : id < s.calls.length)
    (ht : c'.time = (s.call id).time) (hc : c'.called = (s.call id).called)
    (hp : pendingC c' = true → pendingC (s.call id) = true) (hd : 0 ≤ c'.delayed)
    (hx : (s.call id).cancelled = true → c'.cancelled = true) :
    Inv (s.setCall id c') ∧ Frame s (s.setCall id c') := by
  have F := upd_flags s.call id c' hc hx
  have hcall := call_setCall s id c' hid
  have hlen : (s.setCall id c').calls.length = s.calls.length := by simp [Sys.setCall]
  exact ⟨inv_of_eq _ _ _ _ _ (call_setCall s id c' hid) hlen rfl rfl
      (inv_same s.call s.calls.length s.heap s.staged id c' I hid ht hc hp hd),
    ⟨rfl, rfl, rfl, by rw [hlen]; exact Nat.le_refl _, List.Perm.refl _, fun _ h => Or.inl h,
      fun j _ h => by rw [hcall]; exact F.1 j h, fun j _ h => by rw [hcall]; exact F.2 j h⟩⟩

theorem pendingC_iff (c : Call) : pendingC c = true ↔ c.cancelled = false ∧ c.called = false := by
  unfold pendingC; cases c.cancelled <;> cases c.called <;> simp

theorem callLater_inv_aux (s : Sys) (c : Call) (I : Inv s) (hc : c.called = false)
    (hd : 0 ≤ c.delayed) :
    Inv { s with calls := s.calls ++ [c], staged := s.staged ++ [s.calls.length] } := by
  show InvF (fun j => (s.calls ++ [c]).getD j dead) (s.calls ++ [c]).length s.heap
    (s.staged ++ [s.calls.length])
  have h1 : (fun j => (s.calls ++ [c]).getD j dead) = upd s.call s.calls.length c :=
    funext (call_append s c)
  have h2 : (s.calls ++ [c]).length = s.calls.length + 1 := by simp
  rw [h1, h2]
  exact inv_callLater s.call s.calls.length s.heap s.staged c I hc hd

theorem callLater_spec (s : Sys) (d : Int) (k : Nat) (I : Inv s) :
    Inv (callLater s d k).1 ∧ Frame s (callLater s d k).1 := by
  unfold callLater
  split
  · exact ⟨I, Frame.refl s⟩
  · refine ⟨?_, ?_⟩
    · exact callLater_inv_aux s _ I rfl (by simp)
    · have hget : ∀ j, j < s.calls.length → ∀ c : Call, (s.calls ++ [c]).getD j dead = s.call j := by
        intro j hj c
        rw [call_append]; simp [upd]; omega
      refine ⟨rfl, rfl, rfl, by simp, List.Perm.refl _, ?_, ?_, ?_⟩
      · intro j hj
        simp at hj
        rcases hj with h | h
        · exact Or.inl h
        · exact Or.inr (by omega)
      · intro j hj h
        show ((s.calls ++ [_]).getD j dead).called = true
        rw [hget j hj]; exact h
      · intro j hj h
        show ((s.calls ++ [_]).getD j dead).cancelled = true
        rw [hget j hj]; exact h

theorem cancel_spec (s : Sys) (id : Nat) (I : Inv s) (hid : id < s.calls.length) :
    Inv (cancel s id).1 ∧ Frame s (cancel s id).1 := by
  unfold cancel
  simp only
  split
  · exact ⟨I, Frame.refl s⟩
  · split
    · exact ⟨I, Frame.refl s⟩
    · have S := setCall_spec s id { s.call id with cancelled := true } I hid rfl rfl
        (by intro h; simp [pendingC] at h) (I.dnn id) (fun _ => rfl)
      exact ⟨S.1, ⟨S.2.now, S.2.stuck, S.2.scripts, S.2.len, S.2.heap, S.2.staged, S.2.called, S.2.cancelled⟩⟩

theorem reset_spec (s : Sys) (id : Nat) (secs : Int) (I : Inv s) (hid : id < s.calls.length) :
    Inv (reset s id secs).1 ∧ Frame s (reset s id secs).1 := by
  unfold reset
  simp only
  split
  · exact ⟨I, Frame.refl s⟩
  · rename_i hx
    split
    · exact ⟨I, Frame.refl s⟩
    · rename_i hc
      have hpend : pendingC (s.call id) = true := by
        rw [pendingC_iff]; exact ⟨by simpa using hx, by simpa using hc⟩
      split
      · rename_i hlt
        have M := moveSooner_spec s id { s.call id with delayed := 0, time := s.now + secs } I hid
          (by simp; omega) rfl (fun _ => hpend) (Int.le_refl 0) (fun h => h)
        exact ⟨M.1, M.2.1⟩
      · rename_i hlt
        exact setCall_spec s id { s.call id with delayed := s.now + secs - (s.call id).time } I hid rfl rfl
          (fun _ => hpend) (by simp; omega) (fun h => h)

theorem delay_spec (s : Sys) (id : Nat) (secs : Int) (I : Inv s) (hid : id < s.calls.length) :
    Inv (delay s id secs).1 ∧ Frame s (delay s id secs).1 := by
  unfold delay
  simp only
  split
  · exact ⟨I, Frame.refl s⟩
  · rename_i hx
    split
    · exact ⟨I, Frame.refl s⟩
    · rename_i hc
      have hpend : pendingC (s.call id) = true := by
        rw [pendingC_iff]; exact ⟨by simpa using hx, by simpa using hc⟩
      split
      · rename_i hlt
        have M := moveSooner_spec s id
          { s.call id with time := (s.call id).time + ((s.call id).delayed + secs), delayed := 0 } I hid
          (by simp; omega) rfl (fun _ => hpend) (Int.le_refl 0) (fun h => h)
        exact ⟨M.1, M.2.1⟩
      · rename_i hlt
        exact setCall_spec s id { s.call id with delayed := (s.call id).delayed + secs } I hid rfl rfl
          (fun _ => hpend) (by simp; omega) (fun h => h)

theorem resolve_lt (s : Sys) (ref id : Nat) (h : resolve s ref = some id) : id < s.calls.length := by
  unfold resolve at h
  split at h
  · exact absurd h (by simp)
  · simp at h; subst h; exact Nat.mod_lt _ (by omega)

theorem applyOp_spec (s : Sys) (o : Op) (I : Inv s) :
    Inv (applyOp s o).1 ∧ Frame s (applyOp s o).1 := by
  cases o with
  | callLater d k => exact callLater_spec s d k I
  | cancel ref =>
    simp only [applyOp]
    split
    · exact ⟨I, Frame.refl s⟩
    · rename_i id h; exact cancel_spec s id I (resolve_lt s ref id h)
  | reset ref secs =>
    simp only [applyOp]
    split
    · exact ⟨I, Frame.refl s⟩
    · rename_i id h; exact reset_spec s id secs I (resolve_lt s ref id h)
  | delay ref secs =>
    simp only [applyOp]
    split
    · exact ⟨I, Frame.refl s⟩
    · rename_i id h; exact delay_spec s id secs I (resolve_lt s ref id h)

theorem runScript_spec : ∀ (ops : List Op) (s : Sys), Inv s →
    Inv (runScript s ops).1 ∧ Frame s (runScript s ops).1 ∧
    ∀ e ∈ (runScript s ops).2, ∃ o t r, e = Ev.op o t r
  | [], s, I => ⟨I, Frame.refl s, fun e he => by simp [runScript] at he⟩
  | o :: os, s, I => by
    simp only [runScript]
    have A := applyOp_spec s o I
    have R := runScript_spec os (applyOp s o).1 A.1
    refine ⟨R.1, A.2.trans R.2.1, ?_⟩
    intro e he
    rcases List.mem_cons.mp he with h | h
    · exact ⟨_, _, _, h⟩
    · exact R.2.2 e h

end TwistedProps.C08
