import TwistedProps.C08.Sys
/-!
C08 — `_insertNewDelayedCalls`, the `runUntilCurrent` loop and the compaction.
-/
namespace TwistedProps.C08
open Twisted.Reactor.Timers

theorem call_setCall' (s : Sys) (id : Nat) (c : Call) (j : Nat) :
    (s.setCall id c).call j = if id = j ∧ id < s.calls.length then c else s.call j := by
  simp only [Sys.call, Sys.setCall, List.getD_eq_getElem?_getD, List.getElem?_set]
  by_cases e : id = j
  · subst e
    by_cases hl : id < s.calls.length
    · simp [hl]
    · simp [hl]
  · simp [e]

/-- what `_insertNewDelayedCalls` leaves alone: clock, flags, `getTime()` of every call -/
structure View (s s' : Sys) : Prop where
  now : s'.now = s.now
  stuck : s'.stuck = s.stuck
  scripts : s'.scripts = s.scripts
  len : s'.calls.length = s.calls.length
  pending : ∀ j, s'.pending j = s.pending j
  sched : ∀ j, s'.sched j = s.sched j
  called : ∀ j, (s'.call j).called = (s.call j).called
  cancelled : ∀ j, (s'.call j).cancelled = (s.call j).cancelled

theorem View.refl (s : Sys) : View s s := ⟨rfl, rfl, rfl, rfl, fun _ => rfl, fun _ => rfl, fun _ => rfl, fun _ => rfl⟩
theorem View.trans {a b c : Sys} (f : View a b) (g : View b c) : View a c :=
  ⟨g.now.trans f.now, g.stuck.trans f.stuck, g.scripts.trans f.scripts, g.len.trans f.len,
   fun j => (g.pending j).trans (f.pending j), fun j => (g.sched j).trans (f.sched j),
   fun j => (g.called j).trans (f.called j), fun j => (g.cancelled j).trans (f.cancelled j)⟩

theorem activate_view (s : Sys) (id : Nat) :
    View s (s.setCall id { s.call id with time := (s.call id).time + (s.call id).delayed, delayed := 0 }) := by
  refine ⟨rfl, rfl, rfl, by simp [Sys.setCall], ?_, ?_, ?_, ?_⟩ <;> intro j
  · simp only [Sys.pending, call_setCall']; split
    · rename_i h; rw [← h.1]
    · rfl
  · simp only [Sys.sched, call_setCall']; split
    · rename_i h; rw [← h.1]; simp
    · rfl
  · simp only [call_setCall']; split
    · rename_i h; rw [← h.1]
    · rfl
  · simp only [call_setCall']; split
    · rename_i h; rw [← h.1]
    · rfl

theorem insertOne_spec (s : Sys) (id : Nat) (rest : List Nat)
    (I : InvF s.call s.calls.length s.heap (id :: rest)) :
    InvF (insertOne s id).call (insertOne s id).calls.length (insertOne s id).heap rest ∧
    View s (insertOne s id) ∧ (insertOne s id).staged = s.staged := by
  have hmem : id ∈ s.heap ++ id :: rest := by simp
  have hid : id < s.calls.length := I.bound id hmem
  unfold insertOne
  simp only
  split
  · rename_i hx
    refine ⟨?_, ⟨rfl, rfl, rfl, rfl, fun _ => rfl, fun _ => rfl, fun _ => rfl, fun _ => rfl⟩, rfl⟩
    exact inv_drop s.call s.calls.length s.heap rest id I (by simp [pendingC, hx])
  · rename_i hx
    refine ⟨?_, ?_, rfl⟩
    · show InvF (s.setCall id _).call (s.setCall id _).calls.length
        (heappush (s.setCall id _).key s.heap id) rest
      rw [call_setCall s id _ hid, key_setCall s id _ hid]
      have hlen : ∀ c, (s.setCall id c).calls.length = s.calls.length := by intro c; simp [Sys.setCall]
      rw [hlen]
      exact inv_insert s.call s.calls.length s.heap rest id _ I (I.live id hmem) (Int.le_refl 0)
    · have A := activate_view s id
      exact ⟨A.now, A.stuck, A.scripts, A.len, A.pending, A.sched, A.called, A.cancelled⟩

theorem insertFold_spec : ∀ (rest : List Nat) (s : Sys),
    InvF s.call s.calls.length s.heap rest →
    InvF (rest.foldl insertOne s).call (rest.foldl insertOne s).calls.length (rest.foldl insertOne s).heap [] ∧
    View s (rest.foldl insertOne s)
  | [], s, I => ⟨I, View.refl s⟩
  | id :: rest, s, I => by
    simp only [List.foldl_cons]
    have A := insertOne_spec s id rest I
    have B := insertFold_spec rest (insertOne s id) A.1
    exact ⟨B.1, A.2.1.trans B.2⟩

theorem insertNew_spec (s : Sys) (I : Inv s) :
    Inv (insertNew s) ∧ View s (insertNew s) ∧ (insertNew s).staged = [] := by
  have A := insertFold_spec s.staged s I
  refine ⟨A.1, ?_, rfl⟩
  exact ⟨A.2.now, A.2.stuck, A.2.scripts, A.2.len, A.2.pending, A.2.sched, A.2.called, A.2.cancelled⟩

/-! ### the loop -/

theorem sq_step (k : Nat) : (k + 1) * (k + 1 + 1) = k * (k + 1) + 2 * k + 2 := by
  simp only [Nat.mul_add, Nat.add_mul, Nat.mul_one, Nat.one_mul]; omega

theorem countP_le' (p q : Nat → Bool) (l : List Nat) (hq : ∀ x ∈ l, q x = true → p x = true) :
    l.countP q ≤ l.countP p := by
  induction l with
  | nil => simp
  | cons x xs ih =>
    have ih' := ih (fun y hy => hq y (List.mem_cons_of_mem _ hy))
    simp only [List.countP_cons]
    have := hq x (by simp)
    cases hqx : q x <;> cases hpx : p x <;> simp_all <;> omega

theorem countP_lt (p q : Nat → Bool) (l : List Nat) (a : Nat)
    (hq : ∀ x ∈ l, q x = true → p x = true) (ha : a ∈ l) (hpa : p a = true) (hqa : q a = false) :
    l.countP q < l.countP p := by
  induction l with
  | nil => simp at ha
  | cons x xs ih =>
    simp only [List.countP_cons]
    have hle := countP_le' p q xs (fun y hy => hq y (List.mem_cons_of_mem _ hy))
    rcases List.mem_cons.mp ha with h | h
    · subst h; simp [hpa, hqa]; omega
    · have ih' := ih (fun y hy => hq y (List.mem_cons_of_mem _ hy)) h
      have := hq x (by simp)
      cases hqx : q x <;> cases hpx : p x <;> simp_all <;> omega

/-- one turn of the `while` loop: `none` = the loop condition is false -/
def turn (s : Sys) : Option (Sys × List Ev) :=
  match s.heap with
  | [] => none
  | root :: _ =>
    if s.key root ≤ s.now then
      match heappop s.key s.heap with
      | none => none
      | some (id, heap') =>
        let c := s.call id
        let s1 := { s with heap := heap' }
        if c.cancelled then some ({ s1 with canc := s1.canc - 1 }, [])
        else if c.delayed > 0 then
          let s2 := s1.setCall id { c with time := c.time + c.delayed, delayed := 0 }
          some ({ s2 with heap := heappush s2.key s2.heap id }, [])
        else
          let s2 := s1.setCall id { c with called := true }
          let r := runScript s2 (s2.scripts.getD c.script [])
          some (r.1, Ev.run id s1 :: r.2)
    else none

/-- the loop condition -/
def due (s : Sys) : Bool :=
  match s.heap with
  | [] => false
  | root :: _ => decide (s.key root ≤ s.now)

theorem runLoop_succ (fuel : Nat) (s : Sys) :
    runLoop (fuel + 1) s =
      match turn s with
      | none => (s, [])
      | some (s', evs) => ((runLoop fuel s').1, evs ++ (runLoop fuel s').2) := by
  cases hh : s.heap with
  | nil => simp only [turn, runLoop, hh]
  | cons root tl =>
    by_cases hd : s.key root ≤ s.now
    · cases hp : heappop s.key (root :: tl) with
      | none => simp only [turn, runLoop, hh, hd, hp, if_true]
      | some pr =>
        obtain ⟨id, heap'⟩ := pr
        by_cases hx : (s.call id).cancelled = true
        · simp only [turn, runLoop, hh, hd, hp, hx, if_true, List.nil_append]
        · by_cases hdel : (s.call id).delayed > 0
          · simp only [turn, runLoop, hh, hd, hp, hx, hdel, if_true, if_false, List.nil_append, Bool.false_eq_true]
          · simp only [turn, runLoop, hh, hd, hp, hx, hdel, if_true, if_false, List.cons_append, Bool.false_eq_true]
    · simp only [turn, runLoop, hh, hd, if_false]

theorem runLoop_zero (s : Sys) :
    runLoop 0 s = if due s then ({ s with stuck := true }, []) else (s, []) := by
  cases hh : s.heap with
  | nil => simp [due, runLoop, hh]
  | cons root tl => by_cases hd : s.key root ≤ s.now <;> simp [due, runLoop, hh, hd]

theorem heappop_isSome (key : Nat → Int) (h : List Nat) (hne : h ≠ []) : (heappop key h).isSome := by
  rcases List.eq_nil_or_concat h with rfl | ⟨L, b, rfl⟩
  · exact absurd rfl hne
  · simp only [List.concat_eq_append]
    unfold heappop
    rw [show (L ++ [b]).getLast? = some b by simp]
    simp only [List.dropLast_concat]
    cases L <;> simp

theorem turn_none (s : Sys) (h : turn s = none) : due s = false := by
  cases hh : s.heap with
  | nil => simp [due, hh]
  | cons root tl =>
    by_cases hd : s.key root ≤ s.now
    · exfalso
      have hs := heappop_isSome s.key s.heap (by rw [hh]; simp)
      cases hp : heappop s.key s.heap with
      | none => rw [hp] at hs; simp at hs
      | some pr =>
        obtain ⟨id, heap'⟩ := pr
        rw [hh] at hp
        by_cases hx : (s.call id).cancelled = true
        · simp [turn, hh, hd, hp, hx] at h
        · by_cases hdel : (s.call id).delayed > 0 <;> simp [turn, hh, hd, hp, hx, hdel] at h
    · simp [due, hh, hd]

theorem due_false_exit (s : Sys) (I : Inv s) (h : due s = false) : ∀ j ∈ s.heap, s.now < s.key j := by
  cases hh : s.heap with
  | nil => intro j hj; simp at hj
  | cons root tl =>
    intro j hj
    have := isHeap_root_le_mem s.key s.heap I.isHeap j (by rw [hh]; exact hj)
    simp [due, hh] at h
    rw [hh] at this; simp at this; omega

/-- monotone part of a transition -/
structure Mono (s s' : Sys) : Prop where
  now : s'.now = s.now
  scripts : s'.scripts = s.scripts
  len : s.calls.length ≤ s'.calls.length
  called : ∀ j, j < s.calls.length → (s.call j).called = true → (s'.call j).called = true
  cancelled : ∀ j, j < s.calls.length → (s.call j).cancelled = true → (s'.call j).cancelled = true

theorem Mono.refl (s : Sys) : Mono s s := ⟨rfl, rfl, Nat.le_refl _, fun _ _ h => h, fun _ _ h => h⟩
theorem Mono.trans {a b c : Sys} (f : Mono a b) (g : Mono b c) : Mono a c :=
  ⟨g.now.trans f.now, g.scripts.trans f.scripts, Nat.le_trans f.len g.len,
   fun j hj h => g.called j (Nat.lt_of_lt_of_le hj f.len) (f.called j hj h),
   fun j hj h => g.cancelled j (Nat.lt_of_lt_of_le hj f.len) (f.cancelled j hj h)⟩
theorem Frame.toMono {s s' : Sys} (f : Frame s s') : Mono s s' :=
  ⟨f.now, f.scripts, f.len, f.called, f.cancelled⟩

/-- what holds at the moment a call's function is entered (`snap`), in an iteration that started
    with `n0` calls created; `s` is the state at the start of the (rest of the) loop -/
structure RunOK (s : Sys) (n0 : Nat) (id : Nat) (snap : Sys) : Prop where
  /-- it was not created during this iteration -/
  old : id < n0
  /-- it has not run before and was not cancelled -/
  pending : snap.pending id = true
  fresh : (s.call id).called = false ∧ (s.call id).cancelled = false
  /-- not before its time -/
  due : snap.sched id ≤ snap.now
  clock : snap.now = s.now
  /-- no other pending call in the heap is scheduled earlier; nor is any staged one unless it was
      moved before the clock -/
  order : ∀ j, j ≠ id → snap.pending j = true → (j ∈ snap.heap ∨ snap.now ≤ snap.sched j) →
    snap.sched id ≤ snap.sched j
  /-- the only pending calls outside the heap are those created during this iteration -/
  others : ∀ j, j ≠ id → snap.pending j = true → j ∈ snap.heap ∨ n0 ≤ j

theorem RunOK.lift {s s' : Sys} {n0 id : Nat} {snap : Sys} (m : Mono s s') (hn : n0 ≤ s.calls.length)
    (r : RunOK s' n0 id snap) : RunOK s n0 id snap := by
  have hid : id < s.calls.length := Nat.lt_of_lt_of_le r.old hn
  refine ⟨r.old, r.pending, ⟨?_, ?_⟩, r.due, r.clock.trans m.now, r.order, r.others⟩
  · cases h : (s.call id).called
    · rfl
    · have := m.called id hid h; rw [r.fresh.1] at this; exact absurd this (by simp)
  · cases h : (s.call id).cancelled
    · rfl
    · have := m.cancelled id hid h; rw [r.fresh.2] at this; exact absurd this (by simp)

def runIds : List Ev → List Nat
  | [] => []
  | Ev.run id _ :: es => id :: runIds es
  | _ :: es => runIds es

theorem runIds_append (a b : List Ev) : runIds (a ++ b) = runIds a ++ runIds b := by
  induction a with
  | nil => rfl
  | cons e es ih => cases e <;> simp [runIds, ih]

theorem runIds_ops (es : List Ev) (h : ∀ e ∈ es, ∃ o t r, e = Ev.op o t r) : runIds es = [] := by
  induction es with
  | nil => rfl
  | cons e es ih =>
    obtain ⟨o, t, r, he⟩ := h e (by simp)
    subst he
    simp only [runIds]
    exact ih (fun e he => h e (List.mem_cons_of_mem _ he))

theorem mem_runIds (es : List Ev) (id : Nat) : id ∈ runIds es → ∃ snap, Ev.run id snap ∈ es := by
  induction es with
  | nil => simp [runIds]
  | cons e es ih =>
    intro h
    cases e with
    | run id' snap' =>
      simp only [runIds, List.mem_cons] at h
      rcases h with h | h
      · subst h; exact ⟨snap', by simp⟩
      · obtain ⟨sn, hs⟩ := ih h; exact ⟨sn, List.mem_cons_of_mem _ hs⟩
    | _ =>
      simp only [runIds] at h
      obtain ⟨sn, hs⟩ := ih h; exact ⟨sn, List.mem_cons_of_mem _ hs⟩

/-- loop precondition: invariant; the heap holds only calls that existed when the iteration
    started, the staging list only calls created since -/
structure Pre (n0 : Nat) (s : Sys) : Prop where
  inv : Inv s
  heapOld : ∀ j ∈ s.heap, j < n0
  stagedNew : ∀ j ∈ s.staged, n0 ≤ j
  len : n0 ≤ s.calls.length

/-- termination potential of the loop -/
def pot (s : Sys) : Nat :=
  s.heap.length * (s.heap.length + 1) + s.heap.countP (fun j => decide (0 < (s.call j).delayed))

theorem pot_drop (s s' : Sys) (h : s'.heap.length + 1 = s.heap.length) : pot s' + 1 ≤ pot s := by
  unfold pot
  have h1 := List.countP_le_length (p := fun j => decide (0 < (s'.call j).delayed)) (l := s'.heap)
  rw [← h, sq_step]
  omega

structure TurnOK (n0 : Nat) (s s' : Sys) (evs : List Ev) : Prop where
  pre : Pre n0 s'
  mono : Mono s s'
  stuck : s'.stuck = s.stuck
  pot : pot s' + 1 ≤ pot s
  evs : evs = [] ∨ ∃ id snap ops, evs = Ev.run id snap :: ops ∧ (∀ e ∈ ops, ∃ o t r, e = Ev.op o t r) ∧
    RunOK s n0 id snap ∧ (s'.call id).called = true

theorem turn_eq (s : Sys) (root : Nat) (tl : List Nat) (id : Nat) (heap' : List Nat)
    (hh : s.heap = root :: tl) (hd : s.key root ≤ s.now) (hp : heappop s.key s.heap = some (id, heap')) :
    turn s =
      if (s.call id).cancelled then some ({ s with heap := heap', canc := s.canc - 1 }, [])
      else if (s.call id).delayed > 0 then
        some ({ ({ s with heap := heap' } : Sys).setCall id
                  { s.call id with time := (s.call id).time + (s.call id).delayed, delayed := 0 } with
                heap := heappush (({ s with heap := heap' } : Sys).setCall id
                  { s.call id with time := (s.call id).time + (s.call id).delayed, delayed := 0 }).key heap' id }, [])
      else
        some ((runScript (({ s with heap := heap' } : Sys).setCall id { s.call id with called := true })
                ((({ s with heap := heap' } : Sys).setCall id { s.call id with called := true }).scripts.getD
                  (s.call id).script [])).1,
              Ev.run id { s with heap := heap' } ::
              (runScript (({ s with heap := heap' } : Sys).setCall id { s.call id with called := true })
                ((({ s with heap := heap' } : Sys).setCall id { s.call id with called := true }).scripts.getD
                  (s.call id).script [])).2) := by
  rw [hh] at hp
  simp only [turn, hh, hd, hp, if_true]
  rfl

theorem turn_cases (s : Sys) (s' : Sys) (evs : List Ev) (h : turn s = some (s', evs)) :
    ∃ root tl id heap', s.heap = root :: tl ∧ s.key root ≤ s.now ∧ heappop s.key s.heap = some (id, heap') := by
  cases hh : s.heap with
  | nil => simp [turn, hh] at h
  | cons root tl =>
    by_cases hd : s.key root ≤ s.now
    · cases hp : heappop s.key (root :: tl) with
      | none => simp [turn, hh, hd, hp] at h
      | some pr => exact ⟨root, tl, pr.1, pr.2, rfl, hd, rfl⟩
    · simp [turn, hh, hd] at h

theorem turn_spec (n0 : Nat) (s s' : Sys) (evs : List Ev) (R : Pre n0 s)
    (h : turn s = some (s', evs)) : TurnOK n0 s s' evs := by
  obtain ⟨root, tl, id, heap', hh, hdue, hpop⟩ := turn_cases s s' evs h
  rw [turn_eq s root tl id heap' hh hdue hpop] at h
  have hdue : s.key root ≤ s.now := hdue
  have P := heappop_spec s.key s.heap R.inv.isHeap id heap' hpop
  have hroot : id = root := by rw [P.2.2, hh]; simp
  have hidmem : id ∈ s.heap := P.1.mem_iff.mpr (by simp)
  have hidmem' : id ∈ s.heap ++ s.staged := List.mem_append_left _ hidmem
  have hidn : id < s.calls.length := R.inv.bound id hidmem'
  have hsub : ∀ j ∈ heap', j ∈ s.heap := fun j hj => P.1.mem_iff.mpr (List.mem_cons_of_mem _ hj)
  have hlive : (s.call id).called = false := R.inv.live id hidmem'
  have hlen' : heap'.length + 1 = s.heap.length := by have := P.1.length_eq; simp at this; omega
  have hcallS : ∀ c, (({ s with heap := heap' } : Sys).setCall id c).call = upd s.call id c :=
    fun c => call_setCall { s with heap := heap' } id c hidn
  have hkeyS : ∀ c, (({ s with heap := heap' } : Sys).setCall id c).key = fun j => (upd s.call id c j).time :=
    fun c => key_setCall { s with heap := heap' } id c hidn
  have hlenS : ∀ c, (({ s with heap := heap' } : Sys).setCall id c).calls.length = s.calls.length := by
    intro c; simp [Sys.setCall]
  split at h
  · -- cancelled: dropped
    rename_i hx
    simp only [Option.some.injEq, Prod.mk.injEq] at h
    obtain ⟨rfl, rfl⟩ := h
    have I1 : InvF s.call s.calls.length heap' s.staged := by
      have := inv_remove s.call s.calls.length s.heap heap' s.staged id (s.call id) R.inv P.1 P.2.1
        (by simp [pendingC, hx]) (R.inv.dnn id)
      rwa [upd_self] at this
    exact ⟨⟨I1, fun j hj => R.heapOld j (hsub j hj), R.stagedNew, R.len⟩,
      ⟨rfl, rfl, Nat.le_refl _, fun _ _ h => h, fun _ _ h => h⟩, rfl,
      pot_drop s _ hlen', Or.inl rfl⟩
  · rename_i hx
    split at h
    · -- delayed: activate and push back
      rename_i hdel
      simp only [Option.some.injEq, Prod.mk.injEq] at h
      obtain ⟨rfl, rfl⟩ := h
      have I1 := inv_repush s.call s.calls.length s.heap heap' s.staged id
        { s.call id with time := (s.call id).time + (s.call id).delayed, delayed := 0 } R.inv P.1 P.2.1
        hlive (Int.le_refl 0)
      have F := upd_flags s.call id
        { s.call id with time := (s.call id).time + (s.call id).delayed, delayed := 0 } rfl (fun h => h)
      have hperm : (heappush (fun j => (upd s.call id
          { s.call id with time := (s.call id).time + (s.call id).delayed, delayed := 0 } j).time) heap' id).Perm
          s.heap := by
        have hnd := (P.1.append_right s.staged).nodup_iff.mp R.inv.nodup
        have hk : ∀ k ∈ heap', (s.call k).time = (upd s.call id
            { s.call id with time := (s.call id).time + (s.call id).delayed, delayed := 0 } k).time := by
          intro k hk
          have : k ≠ id := fun e => (List.nodup_cons.mp (by simpa using hnd)).1
            (List.mem_append_left _ (e ▸ hk))
          simp [upd, this]
        exact (heappush_spec _ heap' id (heapFrom_congr _ _ 0 heap' hk P.2.1)).2.trans P.1.symm
      refine ⟨⟨?_, ?_, R.stagedNew, by rw [hlenS]; exact R.len⟩, ⟨rfl, rfl, by rw [hlenS]; exact Nat.le_refl _, ?_, ?_⟩, rfl, ?_, Or.inl rfl⟩
      · show InvF (({ s with heap := heap' } : Sys).setCall id _).call
          (({ s with heap := heap' } : Sys).setCall id _).calls.length (heappush _ heap' id) s.staged
        rw [hcallS, hkeyS, hlenS]
        exact I1
      · intro j hj
        have hj' : j ∈ heappush (({ s with heap := heap' } : Sys).setCall id _).key heap' id := hj
        rw [hkeyS] at hj'
        exact R.heapOld j (hperm.mem_iff.mp hj')
      · intro j _ hc
        show ((({ s with heap := heap' } : Sys).setCall id _).call j).called = true
        rw [hcallS]; exact F.1 j hc
      · intro j _ hc
        show ((({ s with heap := heap' } : Sys).setCall id _).call j).cancelled = true
        rw [hcallS]; exact F.2 j hc
      · -- potential: same length, one positive `delayed_time` fewer
        unfold pot
        show (heappush (({ s with heap := heap' } : Sys).setCall id _).key heap' id).length *
            ((heappush (({ s with heap := heap' } : Sys).setCall id _).key heap' id).length + 1) +
            (heappush (({ s with heap := heap' } : Sys).setCall id _).key heap' id).countP
              (fun j => decide (0 < ((({ s with heap := heap' } : Sys).setCall id _).call j).delayed)) + 1 ≤ _
        rw [hkeyS, hcallS, hperm.length_eq, hperm.countP_eq]
        have := countP_lt (fun j => decide (0 < (s.call j).delayed))
          (fun j => decide (0 < (upd s.call id
            { s.call id with time := (s.call id).time + (s.call id).delayed, delayed := 0 } j).delayed))
          s.heap id (by
            intro x _ hq
            by_cases e : x = id
            · subst e; simp [upd] at hq
            · simpa [upd, e] using hq) hidmem (by simpa using hdel) (by simp [upd])
        exact Nat.add_lt_add_left this _
    · -- run
      rename_i hdel
      simp only [Option.some.injEq, Prod.mk.injEq] at h
      obtain ⟨rfl, rfl⟩ := h
      have hd0 : (s.call id).delayed = 0 := by have := R.inv.dnn id; omega
      have I1 := inv_remove s.call s.calls.length s.heap heap' s.staged id
        { s.call id with called := true } R.inv P.1 P.2.1 (by simp [pendingC]) (R.inv.dnn id)
      have I2 : Inv (({ s with heap := heap' } : Sys).setCall id { s.call id with called := true }) := by
        show InvF (({ s with heap := heap' } : Sys).setCall id _).call
          (({ s with heap := heap' } : Sys).setCall id _).calls.length heap' s.staged
        rw [hcallS, hlenS]; exact I1
      have S := runScript_spec
        ((({ s with heap := heap' } : Sys).setCall id { s.call id with called := true }).scripts.getD
          (s.call id).script [])
        _ I2
      have hcalled2 : ((({ s with heap := heap' } : Sys).setCall id { s.call id with called := true }).call id).called = true := by
        rw [hcallS]; simp [upd]
      have F := upd_flags s.call id { s.call id with called := true }
      have hOK : RunOK s n0 id { s with heap := heap' } := by
        refine ⟨R.heapOld id hidmem, ?_, ⟨hlive, by simpa using hx⟩, ?_, rfl, ?_, ?_⟩
        · show pendingC (s.call id) = true
          rw [pendingC_iff]; exact ⟨by simpa using hx, hlive⟩
        · show (s.call id).time + (s.call id).delayed ≤ s.now
          rw [hd0, hroot]; simpa [Sys.key] using hdue
        · intro j hj hpend hor
          show (s.call id).time + (s.call id).delayed ≤ (s.call j).time + (s.call j).delayed
          rcases hor with h | h
          · have h1 := isHeap_root_le_mem s.key s.heap R.inv.isHeap j (hsub j h)
            rw [← P.2.2] at h1
            have h2 := R.inv.dnn j
            simp only [Sys.key] at h1
            omega
          · have h1 : (s.call id).time ≤ s.now := by rw [hroot]; simpa [Sys.key] using hdue
            have h2 : s.now ≤ (s.call j).time + (s.call j).delayed := h
            omega
        · intro j hj hpend
          have hm := R.inv.pend j hpend
          rcases List.mem_append.mp hm with h | h
          · left
            rcases List.mem_cons.mp (P.1.mem_iff.mp h) with h' | h'
            · exact absurd h' hj
            · exact h'
          · right; exact R.stagedNew j h
      refine ⟨⟨S.1, ?_, ?_, ?_⟩, ⟨S.2.1.now, S.2.1.scripts, ?_, ?_, ?_⟩, S.2.1.stuck, ?_,
        Or.inr ⟨id, _, _, rfl, S.2.2, hOK, ?_⟩⟩
      · intro j hj
        exact R.heapOld j (hsub j (S.2.1.heap.mem_iff.mp hj))
      · intro j hj
        rcases S.2.1.staged j hj with h | h
        · exact R.stagedNew j h
        · rw [hlenS] at h; exact Nat.le_trans R.len h
      · exact Nat.le_trans R.len (by have := S.2.1.len; rw [hlenS] at this; exact this)
      · have := S.2.1.len; rw [hlenS] at this; exact this
      · intro j hj hc
        apply S.2.1.called j (by rw [hlenS]; exact hj)
        rw [hcallS]
        by_cases e : j = id
        · rw [e]; simp [upd]
        · simp only [upd, e, if_false]; exact hc
      · intro j hj hc
        apply S.2.1.cancelled j (by rw [hlenS]; exact hj)
        rw [hcallS]
        by_cases e : j = id
        · rw [e]; simp only [upd, if_true]; rw [e] at hc; exact hc
        · simp only [upd, e, if_false]; exact hc
      · apply pot_drop
        rw [S.2.1.heap.length_eq]; exact hlen'
      · exact S.2.1.called id (by rw [hlenS]; exact hidn) hcalled2

/-- the whole loop, from a state `s` satisfying the loop precondition -/
theorem runLoop_spec (n0 : Nat) : ∀ (fuel : Nat) (s : Sys), Pre n0 s →
    Pre n0 (runLoop fuel s).1 ∧ Mono s (runLoop fuel s).1 ∧
    (∀ id snap, Ev.run id snap ∈ (runLoop fuel s).2 →
        RunOK s n0 id snap ∧ ((runLoop fuel s).1.call id).called = true) ∧
    (runIds (runLoop fuel s).2).Nodup ∧
    ((runLoop fuel s).1.stuck = false → ∀ j ∈ (runLoop fuel s).1.heap,
        (runLoop fuel s).1.now < (runLoop fuel s).1.key j) ∧
    (pot s < fuel → s.stuck = false → (runLoop fuel s).1.stuck = false)
  | 0, s, R => by
    rw [runLoop_zero]
    split
    · exact ⟨⟨R.inv, R.heapOld, R.stagedNew, R.len⟩, ⟨rfl, rfl, Nat.le_refl _, fun _ _ h => h, fun _ _ h => h⟩,
        by simp, by simp [runIds], by simp, fun h => by omega⟩
    · rename_i hd
      exact ⟨R, Mono.refl s, by simp, by simp [runIds],
        fun _ => due_false_exit s R.inv (by simpa using hd), fun h => by omega⟩
  | fuel + 1, s, R => by
    rw [runLoop_succ]
    split
    · rename_i ht
      exact ⟨R, Mono.refl s, by simp, by simp [runIds],
        fun _ => due_false_exit s R.inv (turn_none s ht), fun _ h => h⟩
    · rename_i s' evs ht
      have T := turn_spec n0 s s' evs R ht
      have ih := runLoop_spec n0 fuel s' T.pre
      refine ⟨ih.1, T.mono.trans ih.2.1, ?_, ?_, ih.2.2.2.2.1, ?_⟩
      · intro id snap hev
        rcases List.mem_append.mp hev with h | h
        · rcases T.evs with he | ⟨id', snap', ops, he, hops, hok, hc⟩
          · rw [he] at h; simp at h
          · rw [he] at h
            rcases List.mem_cons.mp h with h | h
            · cases h
              exact ⟨hok, ih.2.1.called id (Nat.lt_of_lt_of_le (Nat.lt_of_lt_of_le hok.old R.len) T.mono.len) hc⟩
            · obtain ⟨o, t, r, e⟩ := hops _ h; cases e
        · have := ih.2.2.1 id snap h
          exact ⟨this.1.lift T.mono R.len, this.2⟩
      · rw [runIds_append]
        rcases T.evs with he | ⟨id', snap', ops, he, hops, hok, hc⟩
        · rw [he]; simpa [runIds] using ih.2.2.2.1
        · rw [he]
          simp only [runIds, runIds_ops ops hops, List.cons_append, List.nil_append]
          refine List.nodup_cons.mpr ⟨?_, ih.2.2.2.1⟩
          intro hm
          obtain ⟨sn, hs⟩ := mem_runIds _ _ hm
          have := (ih.2.2.1 id' sn hs).1.fresh.1
          rw [hc] at this; exact absurd this (by simp)
      · intro hf hs
        exact ih.2.2.2.2.2 (by have := T.pot; omega) (by rw [T.stuck]; exact hs)

end TwistedProps.C08
