import TwistedModel.Reactor.Timers
/-!
C08 — lemmas about the transcribed `heapq` (`siftdown`, `siftup`, `heappush`, `heappop`, `heapify`)
and `_moveCallLaterSooner`'s loop: they permute the entries and (re)establish the heap order.
-/
namespace TwistedProps.C08
open Twisted.Reactor.Timers

/-! ### list plumbing -/

theorem getD_set (h : List Nat) (i j v : Nat) :
    (h.set i v).getD j 0 = if i = j ∧ i < h.length then v else h.getD j 0 := by
  simp only [List.getD_eq_getElem?_getD, List.getElem?_set]
  by_cases hij : i = j
  · subst hij
    by_cases hl : i < h.length
    · simp [hl]
    · simp [hl]
  · simp [hij]

theorem length_swap (h : List Nat) (i j : Nat) : (swap h i j).length = h.length := by
  simp [swap]

theorem getD_swap (h : List Nat) (i j k : Nat) (hi : i < h.length) (hj : j < h.length) :
    (swap h i j).getD k 0 = if k = j then h.getD i 0 else if k = i then h.getD j 0 else h.getD k 0 := by
  unfold swap
  rw [getD_set, getD_set]
  simp only [List.length_set]
  by_cases h1 : k = j
  · subst h1; simp [hj]
  · by_cases h2 : k = i
    · subst h2
      have : ¬ j = k := fun e => h1 e.symm
      simp [hi, h1, this]
    · have : ¬ j = k := fun e => h1 e.symm
      have : ¬ i = k := fun e => h2 e.symm
      simp [*]

theorem swap_right (h : List Nat) (i j : Nat) (hi : i < h.length) (hj : j < h.length) :
    (swap h i j).getD j 0 = h.getD i 0 := by rw [getD_swap h i j j hi hj]; simp

theorem swap_left (h : List Nat) (i j : Nat) (hi : i < h.length) (hj : j < h.length) (hne : i ≠ j) :
    (swap h i j).getD i 0 = h.getD j 0 := by rw [getD_swap h i j i hi hj]; simp [hne]

theorem swap_other (h : List Nat) (i j k : Nat) (hi : i < h.length) (hj : j < h.length)
    (h1 : k ≠ i) (h2 : k ≠ j) : (swap h i j).getD k 0 = h.getD k 0 := by
  rw [getD_swap h i j k hi hj]; simp [h1, h2]

theorem swap_perm (h : List Nat) (i j : Nat) (hi : i < h.length) (hj : j < h.length) :
    (swap h i j).Perm h := by
  unfold swap
  have h1 : h.getD j 0 = h[j] := by simp [List.getD_eq_getElem?_getD, hj]
  have h2 : h.getD i 0 = h[i] := by simp [List.getD_eq_getElem?_getD, hi]
  rw [h1, h2]
  exact List.set_set_perm hi hj

/-! ### tree positions -/

/-- `q` lies in the subtree rooted at `p` (parent of `c` is `(c-1)/2`) -/
inductive Desc (p : Nat) : Nat → Prop
  | refl : Desc p p
  | child {q c : Nat} : Desc p q → 0 < c → (c - 1) / 2 = q → Desc p c

theorem Desc.le {p q : Nat} (h : Desc p q) : p ≤ q := by
  induction h with
  | refl => exact Nat.le_refl _
  | child _ hc hq ih => omega

theorem Desc.parent {p q : Nat} (h : Desc p q) (hne : q ≠ p) : 0 < q ∧ Desc p ((q - 1) / 2) := by
  cases h with
  | refl => exact absurd rfl hne
  | child hd hc hq => subst hq; exact ⟨hc, hd⟩

theorem desc_zero (q : Nat) : Desc 0 q := by
  induction q using Nat.strongRecOn with
  | _ q ih =>
    by_cases hq : q = 0
    · subst hq; exact .refl
    · exact .child (ih ((q - 1) / 2) (by omega)) (by omega) rfl

/-! ### heap order -/

/-- every edge whose parent position is ≥ `p` is ordered (`p = 0`: the list is a heap) -/
def HeapFrom (key : Nat → Int) (p : Nat) (h : List Nat) : Prop :=
  ∀ i, 0 < i → i < h.length → p ≤ (i - 1) / 2 → key (h.getD ((i - 1) / 2) 0) ≤ key (h.getD i 0)

abbrev IsHeap (key : Nat → Int) (h : List Nat) : Prop := HeapFrom key 0 h

/-- the entry at `pos` may be too small for its place (it is being bubbled up); everything else
    in the subtrees from `p` on is in order -/
structure Bub (key : Nat → Int) (p : Nat) (h : List Nat) (pos : Nat) : Prop where
  lt : pos < h.length
  desc : Desc p pos
  a : ∀ i, 0 < i → i < h.length → p ≤ (i - 1) / 2 → i ≠ pos → (i - 1) / 2 ≠ pos →
        key (h.getD ((i - 1) / 2) 0) ≤ key (h.getD i 0)
  b : pos ≠ p → ∀ c, 0 < c → c < h.length → (c - 1) / 2 = pos →
        key (h.getD ((pos - 1) / 2) 0) ≤ key (h.getD c 0)
  c : ∀ c, 0 < c → c < h.length → (c - 1) / 2 = pos → key (h.getD pos 0) ≤ key (h.getD c 0)

theorem siftdown_perm (key : Nat → Int) (p : Nat) :
    ∀ fuel h pos, pos < h.length → (siftdown key p fuel h pos).Perm h
  | 0, h, pos, _ => by simp [siftdown]
  | fuel + 1, h, pos, hl => by
    simp only [siftdown]
    split
    · split
      · have hq : (pos - 1) / 2 < h.length := by omega
        exact (siftdown_perm key p fuel _ _ (by rw [length_swap]; exact hq)).trans
          (swap_perm h _ _ hq hl)
      · exact List.Perm.refl _
    · exact List.Perm.refl _

theorem siftdown_heap (key : Nat → Int) (p : Nat) :
    ∀ fuel h pos, pos < fuel → Bub key p h pos → HeapFrom key p (siftdown key p fuel h pos)
  | 0, _, _, hf, _ => by omega
  | fuel + 1, h, pos, hf, B => by
    simp only [siftdown]
    have hple := B.desc.le
    split
    · rename_i hgt
      have hpos : 0 < pos := by omega
      have hne : pos ≠ p := by omega
      have hq : (pos - 1) / 2 < h.length := by have := B.lt; omega
      have hqp : (pos - 1) / 2 ≠ pos := by omega
      have hdq := (B.desc.parent hne).2
      split
      · rename_i hlt
        apply siftdown_heap key p fuel _ _ (by omega)
        refine ⟨by rw [length_swap]; exact hq, hdq, ?_, ?_, ?_⟩
        · intro i hi0 hil hpi hiq hpq
          rw [length_swap] at hil
          have hip : i ≠ pos := fun e => hpq (by rw [e])
          rw [swap_other h _ _ i hq B.lt hiq hip]
          by_cases hpp : (i - 1) / 2 = pos
          · rw [hpp, swap_right h _ _ hq B.lt]
            exact B.b hne i hi0 hil hpp
          · rw [swap_other h _ _ _ hq B.lt hpq hpp]
            exact B.a i hi0 hil hpi hip hpp
        · intro hqne c hc0 hcl hcq
          rw [length_swap] at hcl
          have hq0 := (hdq.parent hqne).1
          have hdqq := (hdq.parent hqne).2
          have hgq : key (h.getD (((pos - 1) / 2 - 1) / 2) 0) ≤ key (h.getD ((pos - 1) / 2) 0) :=
            B.a _ hq0 hq hdqq.le hqp (by omega)
          rw [swap_other h _ _ _ hq B.lt (by omega) (by omega)]
          by_cases hcp : c = pos
          · rw [hcp, swap_right h _ _ hq B.lt]; exact hgq
          · rw [swap_other h _ _ c hq B.lt (by omega) hcp]
            have := B.a c hc0 hcl (by rw [hcq]; exact hdq.le) hcp (by rw [hcq]; exact hqp)
            rw [hcq] at this
            exact Int.le_trans hgq this
        · intro c hc0 hcl hcq
          rw [length_swap] at hcl
          rw [swap_left h _ _ hq B.lt hqp]
          by_cases hcp : c = pos
          · rw [hcp, swap_right h _ _ hq B.lt]; omega
          · rw [swap_other h _ _ c hq B.lt (by omega) hcp]
            have := B.a c hc0 hcl (by rw [hcq]; exact hdq.le) hcp (by rw [hcq]; exact hqp)
            rw [hcq] at this
            omega
      · rename_i hnlt
        intro i hi0 hil hpi
        by_cases hip : i = pos
        · subst hip; omega
        · by_cases hpp : (i - 1) / 2 = pos
          · rw [hpp]; exact B.c i hi0 hil hpp
          · exact B.a i hi0 hil hpi hip hpp
    · rename_i hngt
      have hpe : pos = p := by omega
      intro i hi0 hil hpi
      by_cases hip : i = pos
      · omega
      · by_cases hpp : (i - 1) / 2 = pos
        · rw [hpp]; exact B.c i hi0 hil hpp
        · exact B.a i hi0 hil hpi hip hpp

/-- the entry at `pos` is on its way down (first loop of `siftup`) -/
structure Dsc (key : Nat → Int) (p : Nat) (h : List Nat) (pos : Nat) : Prop where
  lt : pos < h.length
  desc : Desc p pos
  a : ∀ i, 0 < i → i < h.length → p ≤ (i - 1) / 2 → i ≠ pos → (i - 1) / 2 ≠ pos →
        key (h.getD ((i - 1) / 2) 0) ≤ key (h.getD i 0)
  b : pos ≠ p → ∀ c, 0 < c → c < h.length → (c - 1) / 2 = pos →
        key (h.getD ((pos - 1) / 2) 0) ≤ key (h.getD c 0)

theorem smallerChild_spec (key : Nat → Int) (h : List Nat) (pos : Nat) (hp : pos < h.length / 2) :
    0 < smallerChild key h h.length pos ∧ smallerChild key h h.length pos < h.length ∧
    (smallerChild key h h.length pos - 1) / 2 = pos ∧
    ∀ d, 0 < d → d < h.length → (d - 1) / 2 = pos →
      key (h.getD (smallerChild key h h.length pos) 0) ≤ key (h.getD d 0) := by
  unfold smallerChild
  simp only
  split
  · rename_i hc
    refine ⟨by omega, by omega, by omega, ?_⟩
    intro d hd0 hdl hdp
    have : d = 2 * pos + 1 ∨ d = 2 * pos + 1 + 1 := by omega
    rcases this with rfl | rfl
    · have := hc.2; omega
    · exact Int.le_refl _
  · rename_i hc
    refine ⟨by omega, by omega, by omega, ?_⟩
    intro d hd0 hdl hdp
    have : d = 2 * pos + 1 ∨ d = 2 * pos + 1 + 1 := by omega
    rcases this with rfl | rfl
    · exact Int.le_refl _
    · have : key (h.getD (2 * pos + 1) 0) < key (h.getD (2 * pos + 1 + 1) 0) := by
        by_cases hh : key (h.getD (2 * pos + 1) 0) < key (h.getD (2 * pos + 1 + 1) 0)
        · exact hh
        · exact absurd ⟨hdl, hh⟩ hc
      omega

theorem siftupLoop_spec (key : Nat → Int) (p n : Nat) :
    ∀ fuel h pos, h.length = n → n - pos ≤ fuel → Dsc key p h pos →
      (siftupLoop key n fuel h pos).1.Perm h ∧
      Bub key p (siftupLoop key n fuel h pos).1 (siftupLoop key n fuel h pos).2
  | 0, h, pos, hn, hf, D => by have := D.lt; omega
  | fuel + 1, h, pos, hn, hf, D => by
    simp only [siftupLoop]
    split
    · rename_i hlim
      subst hn
      obtain ⟨hc0, hcl, hcp, hmin⟩ := smallerChild_spec key h pos hlim
      generalize smallerChild key h h.length pos = c at hc0 hcl hcp hmin
      have hcpos : c ≠ pos := by omega
      have D' : Dsc key p (swap h c pos) c := by
        refine ⟨by rw [length_swap]; exact hcl, .child D.desc hc0 hcp, ?_, ?_⟩
        · intro i hi0 hil hpi hic hpc
          rw [length_swap] at hil
          by_cases hip : i = pos
          · subst hip
            rw [swap_right h _ _ hcl D.lt, swap_other h _ _ _ hcl D.lt hpc (by omega)]
            exact D.b (by omega) c hc0 hcl hcp
          · rw [swap_other h _ _ i hcl D.lt hic hip]
            by_cases hpp : (i - 1) / 2 = pos
            · rw [hpp, swap_right h _ _ hcl D.lt]
              exact hmin i hi0 hil hpp
            · rw [swap_other h _ _ _ hcl D.lt hpc hpp]
              exact D.a i hi0 hil hpi hip hpp
        · intro _ d hd0 hdl hdc
          rw [length_swap] at hdl
          rw [hcp, swap_right h _ _ hcl D.lt, swap_other h _ _ d hcl D.lt (by omega) (by omega)]
          have := D.a d hd0 hdl (by rw [hdc]; have := D.desc.le; omega) (by omega) (by omega)
          rw [hdc] at this
          exact this
      have ih := siftupLoop_spec key p h.length fuel (swap h c pos) c (length_swap _ _ _) (by omega) D'
      exact ⟨ih.1.trans (swap_perm h _ _ hcl D.lt), ih.2⟩
    · rename_i hlim
      refine ⟨List.Perm.refl _, D.lt, D.desc, D.a, D.b, ?_⟩
      intro c hc0 hcl hcp
      have hcl' : c < h.length := hcl
      have hcp' : (c - 1) / 2 = pos := hcp
      exfalso; omega

theorem siftup_spec (key : Nat → Int) (h : List Nat) (p : Nat) (hp : p < h.length)
    (H : HeapFrom key (p + 1) h) :
    HeapFrom key p (siftup key h p) ∧ (siftup key h p).Perm h := by
  have D : Dsc key p h p := ⟨hp, .refl, fun i hi0 hil hpi hip hpp => H i hi0 hil (by omega),
    fun hne => absurd rfl hne⟩
  have S := siftupLoop_spec key p h.length h.length h p rfl (by omega) D
  unfold siftup
  simp only
  exact ⟨siftdown_heap key p _ _ _ (by omega) S.2, (siftdown_perm key p _ _ _ S.2.lt).trans S.1⟩

theorem getD_append_lt (h l : List Nat) (i : Nat) (hi : i < h.length) :
    (h ++ l).getD i 0 = h.getD i 0 := by
  simp [List.getD_eq_getElem?_getD, List.getElem?_append_left hi]

theorem heappush_spec (key : Nat → Int) (h : List Nat) (x : Nat) (H : IsHeap key h) :
    IsHeap key (heappush key h x) ∧ (heappush key h x).Perm (x :: h) := by
  unfold heappush
  have hl : h.length < (h ++ [x]).length := by simp
  have B : Bub key 0 (h ++ [x]) h.length := by
    refine ⟨hl, desc_zero _, ?_, ?_, ?_⟩
    · intro i hi0 hil hpi hip hpp
      have hil' : i < h.length := by simp at hil; omega
      rw [getD_append_lt _ _ _ hil', getD_append_lt _ _ _ (by omega)]
      exact H i hi0 hil' hpi
    · intro _ c hc0 hcl hcp
      simp at hcl; omega
    · intro c hc0 hcl hcp
      simp at hcl; omega
  exact ⟨siftdown_heap key 0 _ _ _ (by omega) B,
    (siftdown_perm key 0 _ _ _ hl).trans (List.perm_append_singleton x h)⟩

theorem isHeap_root_le (key : Nat → Int) (h : List Nat) (H : IsHeap key h) :
    ∀ i, i < h.length → key (h.getD 0 0) ≤ key (h.getD i 0) := by
  intro i
  induction i using Nat.strongRecOn with
  | _ i ih =>
    intro hi
    by_cases h0 : i = 0
    · subst h0; exact Int.le_refl _
    · have h1 := ih ((i - 1) / 2) (by omega) (by omega)
      have h2 := H i (by omega) hi (by omega)
      exact Int.le_trans h1 h2

theorem isHeap_root_le_mem (key : Nat → Int) (h : List Nat) (H : IsHeap key h) :
    ∀ j ∈ h, key (h.getD 0 0) ≤ key j := by
  intro j hj
  obtain ⟨i, hi, rfl⟩ := List.getElem_of_mem hj
  have := isHeap_root_le key h H i hi
  simpa [List.getD_eq_getElem?_getD, hi] using this

theorem heappop_spec (key : Nat → Int) (h : List Nat) (H : IsHeap key h) (id : Nat) (h' : List Nat)
    (hp : heappop key h = some (id, h')) :
    h.Perm (id :: h') ∧ IsHeap key h' ∧ id = h.getD 0 0 := by
  rcases List.eq_nil_or_concat h with rfl | ⟨L, b, rfl⟩
  · simp [heappop] at hp
  · simp only [List.concat_eq_append] at *
    unfold heappop at hp
    rw [show (L ++ [b]).getLast? = some b by simp] at hp
    simp only [List.dropLast_concat] at hp
    cases L with
    | nil =>
      simp at hp
      obtain ⟨rfl, rfl⟩ := hp
      refine ⟨List.Perm.refl _, ?_, by simp⟩
      intro i _ hil; simp at hil
    | cons ret rest =>
      simp only [Option.some.injEq, Prod.mk.injEq] at hp
      obtain ⟨rfl, rfl⟩ := hp
      have H1 : HeapFrom key (0 + 1) (b :: rest) := by
        intro i hi0 hil hpi
        have hil' : i < rest.length + 1 := by simpa using hil
        have := H i hi0 (by simp; omega) (by omega)
        obtain ⟨k, rfl⟩ : ∃ k, i = k + 1 := ⟨i - 1, by omega⟩
        obtain ⟨m, hm⟩ : ∃ m, (k + 1 - 1) / 2 = m + 1 := ⟨(k + 1 - 1) / 2 - 1, by omega⟩
        rw [hm] at this ⊢
        simp only [List.cons_append, List.getD_cons_succ] at this ⊢
        rw [getD_append_lt _ _ _ (by omega), getD_append_lt _ _ _ (by omega)] at this
        exact this
      have S := siftup_spec key (b :: rest) 0 (by simp) H1
      refine ⟨?_, S.1, by simp⟩
      simp only [List.cons_append]
      refine List.Perm.cons _ ?_
      exact (List.perm_append_singleton b rest).trans S.2.symm

theorem heapifyLoop_spec (key : Nat → Int) :
    ∀ i h, i ≤ h.length / 2 → HeapFrom key i h →
      IsHeap key (heapifyLoop key i h) ∧ (heapifyLoop key i h).Perm h
  | 0, h, _, H => ⟨H, List.Perm.refl _⟩
  | i + 1, h, hi, H => by
    simp only [heapifyLoop]
    have S := siftup_spec key h i (by omega) H
    have ih := heapifyLoop_spec key i (siftup key h i) (by rw [S.2.length_eq]; omega) S.1
    exact ⟨ih.1, ih.2.trans S.2⟩

theorem heapify_spec (key : Nat → Int) (h : List Nat) :
    IsHeap key (heapify key h) ∧ (heapify key h).Perm h := by
  unfold heapify
  apply heapifyLoop_spec key _ h (Nat.le_refl _)
  intro i hi0 hil hpi
  omega

/-- `_moveCallLaterSooner`'s hole-moving loop produces the same list as `siftdown` from the root
    on the list with the element written back -/
theorem moveLoop_eq (key : Nat → Int) (elt : Nat) :
    ∀ fuel g pos, pos < g.length →
      moveLoop key elt fuel g pos = siftdown key 0 fuel (g.set pos elt) pos
  | 0, g, pos, _ => by simp [moveLoop, siftdown]
  | fuel + 1, g, pos, hl => by
    simp only [moveLoop, siftdown]
    by_cases h0 : pos = 0
    · subst h0; simp
    · have hpos : pos > 0 := by omega
      have hq : (pos - 1) / 2 ≠ pos := by omega
      have e1 : (g.set pos elt).getD pos 0 = elt := by rw [getD_set]; simp [hl]
      have e2 : (g.set pos elt).getD ((pos - 1) / 2) 0 = g.getD ((pos - 1) / 2) 0 := by
        rw [getD_set]; simp; intro h; omega
      simp only [h0, hpos, if_true, if_false, e1, e2]
      by_cases hle : key (g.getD ((pos - 1) / 2) 0) ≤ key elt
      · have : ¬ key elt < key (g.getD ((pos - 1) / 2) 0) := by omega
        rw [if_pos hle, if_neg this]
      · have : key elt < key (g.getD ((pos - 1) / 2) 0) := by omega
        simp only [hle, this, if_true, if_false]
        rw [moveLoop_eq key elt fuel _ _ (by simp; omega)]
        congr 1
        unfold swap
        rw [e1, e2]
        apply List.ext_getElem?
        intro k
        simp only [List.getElem?_set, List.length_set]
        by_cases hk1 : k = pos
        · subst hk1; simp [hl]; intro h; omega
        · by_cases hk2 : k = (pos - 1) / 2
          · subst hk2; simp [hl]; intro h; omega
          · have a1 : ¬ pos = k := fun e => hk1 e.symm
            have a2 : ¬ (pos - 1) / 2 = k := fun e => hk2 e.symm
            simp [a1, a2]

end TwistedProps.C08
