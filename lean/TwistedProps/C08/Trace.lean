import TwistedProps.C08.Loop
/-!
C08 — the property as a predicate on the GLOBAL TRACE of a history.

A *reference timer* (`Ref`) is run over the event trace alone (it never looks at the model's
heap, staging list or store): it knows the clock (initial value + the `advance` events), the
number of calls created so far, the number created when the running iteration began, and for
every call its currently scheduled time `T` (set by `callLater`, `reset`, `delay` events that
succeeded) and its status (pending / cancelled / called).  `okAt r e` is what the property
demands of event `e` when the reference timer is in state `r`; `check = always okAt` demands it
of every event of a trace.  This is the same reference timer as the Python oracle of
`harness/corr/C08.py`, which evaluates it on the real reactor's trace.

This file: definitions, the pure trace-level consequences (exactly once, status
characterisation, the non-negative-delay corollary), and the simulation between the reference
timer and the model through `applyOp`, `runScript`, the loop (`turn`, `runLoop`).  The assembly
over whole histories is in `TwistedProps/C08.lean` (`history_trace_ok`).
-/
namespace TwistedProps.C08
open Twisted.Reactor.Timers

inductive St where
  | pending | cancelled | called
deriving DecidableEq, Repr

/-- function update -/
def fset {α : Type} (f : Nat → α) (i : Nat) (v : α) : Nat → α := fun j => if j = i then v else f j

theorem fset_same {α : Type} (f : Nat → α) (i : Nat) (v : α) : fset f i v i = v := by simp [fset]
theorem fset_other {α : Type} (f : Nat → α) (i j : Nat) (v : α) (h : j ≠ i) : fset f i v j = f j := by
  simp [fset, h]

/-- the reference timer -/
structure Ref where
  /-- the clock: initial value plus the advances seen -/
  now : Int
  /-- calls created so far (ids are creation indices) -/
  n : Nat
  /-- calls created when the running (or last) iteration began -/
  n0 : Nat
  /-- inside `runUntilCurrent` -/
  inIter : Bool
  /-- currently scheduled time (`getTime()`) of each call -/
  T : Nat → Int
  st : Nat → St

def Ref.init (base : Int) : Ref :=
  { now := base, n := 0, n0 := 0, inIter := false, T := fun _ => 0, st := fun _ => St.called }

/-- what `cancel`/`reset`/`delay` must answer for a call in a given status -/
def expect : St → Res
  | .pending => .ok
  | .cancelled => .alreadyCancelled
  | .called => .alreadyCalled

def refOp (r : Ref) (o : Op) (t : Nat) (res : Res) : Ref :=
  match o with
  | .callLater d _ =>
    match res with
    | .created _ => { r with n := r.n + 1, T := fset r.T r.n (r.now + d), st := fset r.st r.n St.pending }
    | _ => r
  | .cancel _ => if res = Res.ok then { r with st := fset r.st t St.cancelled } else r
  | .reset _ secs => if res = Res.ok then { r with T := fset r.T t (r.now + secs) } else r
  | .delay _ secs => if res = Res.ok then { r with T := fset r.T t (r.T t + secs) } else r

/-- the reference timer reads one event -/
def refStep (r : Ref) : Ev → Ref
  | .op o t res => refOp r o t res
  | .run id _ => { r with st := fset r.st id St.called }
  | .advance dt => { r with now := r.now + dt }
  | .iterBegin => { r with n0 := r.n, inIter := true }
  | .iterEnd => { r with inIter := false }
  | .timeout _ => r
  | .delayed _ => r
  | .counter _ _ _ => r

def refRun (r : Ref) (evs : List Ev) : Ref := evs.foldl refStep r

/-- what the property demands of a `cancel`/`reset`/`delay` answer -/
def okRef (r : Ref) (t : Nat) (res : Res) : Prop :=
  (r.n = 0 ∧ res = Res.noid) ∨ (t < r.n ∧ res = expect (r.st t))

/-- what the property demands of one event, the reference timer being in state `r` -/
def okAt (r : Ref) : Ev → Prop
  | .op (.callLater d _) _ res => if d < 0 then res = Res.assertion else res = Res.created r.n
  | .op (.cancel _) t res => okRef r t res
  | .op (.reset _ _) t res => okRef r t res
  | .op (.delay _ _) t res => okRef r t res
  /- a call is entered: inside an iteration, at the reference clock; it existed before the
     iteration began; it is pending (never called, never cancelled); not before its scheduled
     time; no other pending call is scheduled earlier — among those that existed before the
     iteration began or are not scheduled before the clock; hence among ALL pending calls when no
     call created in this iteration has been moved before the clock -/
  | .run id snap =>
    r.inIter = true ∧ snap.now = r.now ∧ id < r.n0 ∧ r.n0 ≤ r.n ∧ r.st id = St.pending ∧ r.T id ≤ r.now ∧
    (∀ j, j < r.n → j ≠ id → r.st j = St.pending → (j < r.n0 ∨ r.now ≤ r.T j) → r.T id ≤ r.T j)
  /- the clock does not move inside an iteration -/
  | .advance _ => r.inIter = false
  | .iterBegin => r.inIter = false
  /- an iteration ends: every call that existed when it began and is still pending is not yet due
     (so a call that is not cancelled runs in the first iteration starting at or after its time) -/
  | .iterEnd => r.inIter = true ∧ ∀ j, j < r.n0 → r.st j = St.pending → r.now < r.T j
  | .timeout none => ∀ j, j < r.n → r.st j ≠ St.pending
  | .timeout (some v) => 0 ≤ v ∧ v ≤ longest ∧ ∀ j, j < r.n → r.st j = St.pending → v ≤ max 0 (r.T j - r.now)
  | .delayed l => (∀ id t, (id, t) ∈ l ↔ (id < r.n ∧ r.st id = St.pending ∧ t = r.T id)) ∧ (l.map Prod.fst).Nodup
  | .counter _ _ _ => True

/-- `P` holds of every event of the trace, each in the reference state reached before it -/
def always (P : Ref → Ev → Prop) : Ref → List Ev → Prop
  | _, [] => True
  | r, e :: es => P r e ∧ always P (refStep r e) es

/-- the property on a whole trace -/
def check : Ref → List Ev → Prop := always okAt

theorem refRun_append (r : Ref) (a b : List Ev) : refRun r (a ++ b) = refRun (refRun r a) b := by
  simp [refRun, List.foldl_append]

theorem always_append (P : Ref → Ev → Prop) : ∀ (a b : List Ev) (r : Ref),
    always P r (a ++ b) ↔ always P r a ∧ always P (refRun r a) b
  | [], b, r => by simp [always, refRun]
  | e :: es, b, r => by
    simp only [List.cons_append, always, refRun, List.foldl_cons]
    rw [always_append P es b (refStep r e)]
    simp only [refRun, and_assoc]

theorem always_and (P Q : Ref → Ev → Prop) : ∀ (tr : List Ev) (r : Ref),
    always (fun r e => P r e ∧ Q r e) r tr ↔ always P r tr ∧ always Q r tr
  | [], r => by simp [always]
  | e :: es, r => by
    simp only [always]
    rw [always_and P Q es (refStep r e)]
    constructor
    · rintro ⟨⟨a, b⟩, c, d⟩; exact ⟨⟨a, c⟩, b, d⟩
    · rintro ⟨⟨a, c⟩, b, d⟩; exact ⟨⟨a, b⟩, c, d⟩

/-- every event of a trace satisfying `always P` satisfies `P` in the reference state reached
    just before it -/
theorem always_split (P : Ref → Ev → Prop) (r : Ref) (pre : List Ev) (e : Ev) (post : List Ev)
    (h : always P r (pre ++ e :: post)) : P (refRun r pre) e := by
  rw [always_append] at h
  exact h.2.1

theorem mem_split {α : Type} (l : List α) (a : α) (h : a ∈ l) : ∃ pre post, l = pre ++ a :: post :=
  List.append_of_mem h

/-! ### pure trace-level consequences -/

/-- the reference state is well-formed: ids at or beyond `n` do not exist yet -/
theorem refStep_n_mono (r : Ref) (e : Ev) : r.n ≤ (refStep r e).n := by
  cases e with
  | op o t res =>
    cases o with
    | callLater d k => cases res <;> simp [refStep, refOp]
    | cancel ref => simp only [refStep, refOp]; split <;> simp
    | reset ref secs => simp only [refStep, refOp]; split <;> simp
    | delay ref secs => simp only [refStep, refOp]; split <;> simp
  | _ => simp [refStep]

/-- once a call is called or cancelled (status ≠ pending), its status never changes again -/
theorem refStep_st_final (r : Ref) (e : Ev) (j : Nat) (hj : j < r.n) (hs : r.st j ≠ St.pending)
    (ok : okAt r e) : (refStep r e).st j = r.st j ∨ (∃ snap, e = Ev.run j snap) := by
  cases e with
  | op o t res =>
    left
    cases o with
    | callLater d k =>
      cases res <;> simp only [refStep, refOp]
      rw [fset_other]; omega
    | cancel ref =>
      simp only [refStep, refOp]
      split
      · rename_i hres
        simp only [okAt, okRef, hres] at ok
        rcases ok with ⟨_, h⟩ | ⟨_, h⟩
        · cases h
        · have : t ≠ j ∨ t = j := by omega
          by_cases e : j = t
          · subst e
            cases hst : r.st j <;> rw [hst] at h <;> simp [expect] at h
            exact absurd hst hs
          · show fset r.st t St.cancelled j = r.st j
            rw [fset_other]; exact e
      · rfl
    | reset ref secs => simp only [refStep, refOp]; split <;> rfl
    | delay ref secs => simp only [refStep, refOp]; split <;> rfl
  | run id snap =>
    by_cases e : j = id
    · right; subst e; exact ⟨snap, rfl⟩
    · left; simp only [refStep]; rw [fset_other]; exact e
  | _ => left; rfl

theorem runIds_cons_run (id : Nat) (snap : Sys) (es : List Ev) :
    runIds (Ev.run id snap :: es) = id :: runIds es := rfl

/-- a call whose status is not `pending` is never entered (again) -/
theorem not_pending_never_runs : ∀ (tr : List Ev) (r : Ref) (j : Nat), j < r.n → r.st j ≠ St.pending →
    check r tr → j ∉ runIds tr
  | [], _, _, _, _, _ => by simp [runIds]
  | e :: es, r, j, hj, hs, hc => by
    have hok : okAt r e := hc.1
    have hrest : check (refStep r e) es := hc.2
    have hn := refStep_n_mono r e
    rcases refStep_st_final r e j hj hs hok with h | ⟨snap, h⟩
    · have ih := not_pending_never_runs es (refStep r e) j (by omega) (by rw [h]; exact hs) hrest
      cases e with
      | run id snap =>
        simp only [runIds, List.mem_cons, not_or]
        refine ⟨?_, ih⟩
        intro e; subst e
        simp only [okAt] at hok
        exact hs hok.2.2.2.2.1
      | _ => simpa [runIds] using ih
    · subst h
      simp only [okAt] at hok
      exact absurd hok.2.2.2.2.1 hs

/-- **at most once**: no call id occurs twice in the run log of a trace that passes the check -/
theorem check_runs_nodup : ∀ (tr : List Ev) (r : Ref), check r tr → (runIds tr).Nodup
  | [], _, _ => by simp [runIds]
  | e :: es, r, hc => by
    have ih := check_runs_nodup es (refStep r e) hc.2
    cases e with
    | run id snap =>
      rw [runIds_cons_run]
      refine List.nodup_cons.mpr ⟨?_, ih⟩
      have hok : okAt r (Ev.run id snap) := hc.1
      simp only [okAt] at hok
      apply not_pending_never_runs es (refStep r (Ev.run id snap)) id
      · show id < r.n; omega
      · show fset r.st id St.called id ≠ St.pending
        rw [fset_same]; simp
      · exact hc.2
    | _ => simpa [runIds] using ih

/-! ### the non-negative-delay corollary, at trace level -/

/-- the event does not move a call before the current clock: `reset` with a non-negative
    argument; `delay` with a non-negative argument, or landing at or after the clock -/
def gentleAt (r : Ref) : Ev → Prop
  | .op (.reset _ secs) _ _ => 0 ≤ secs
  | .op (.delay _ secs) t _ => 0 ≤ secs ∨ r.now ≤ r.T t + secs
  | _ => True

/-- no call created during the running iteration is scheduled before the clock -/
def Fresh (r : Ref) : Prop := r.inIter = true → ∀ j, r.n0 ≤ j → j < r.n → r.now ≤ r.T j

theorem fresh_step (r : Ref) (e : Ev) (F : Fresh r) (ok : okAt r e) (g : gentleAt r e) :
    Fresh (refStep r e) := by
  cases e with
  | op o t res =>
    cases o with
    | callLater d k =>
      cases res with
      | created id =>
        intro hi j hj hjn
        simp only [refStep, refOp] at hi hj hjn ⊢
        simp only [okAt] at ok
        have hd : ¬ d < 0 := by
          intro hd; rw [if_pos hd] at ok; cases ok
        by_cases e : j = r.n
        · subst e; rw [fset_same]; omega
        · rw [fset_other _ _ _ _ e]; exact F hi j hj (by omega)
      | _ => exact F
    | cancel ref =>
      simp only [refStep, refOp]; split
      · exact F
      · exact F
    | reset ref secs =>
      simp only [refStep, refOp]; split
      · intro hi j hj hjn
        simp only [gentleAt] at g
        show r.now ≤ fset r.T t (r.now + secs) j
        by_cases e : j = t
        · subst e; rw [fset_same]; omega
        · rw [fset_other _ _ _ _ e]; exact F hi j hj hjn
      · exact F
    | delay ref secs =>
      simp only [refStep, refOp]; split
      · intro hi j hj hjn
        simp only [gentleAt] at g
        show r.now ≤ fset r.T t (r.T t + secs) j
        by_cases e : j = t
        · subst e; rw [fset_same]
          rcases g with g | g
          · have := F hi j hj hjn; omega
          · exact g
        · rw [fset_other _ _ _ _ e]; exact F hi j hj hjn
      · exact F
  | run id snap => exact F
  | advance dt =>
    intro hi
    simp only [okAt] at ok
    simp only [refStep] at hi
    rw [ok] at hi; cases hi
  | iterBegin =>
    intro _ j hj hjn
    simp only [refStep] at hj hjn
    omega
  | iterEnd => intro hi; simp [refStep] at hi
  | timeout v => exact F
  | delayed l => exact F
  | counter a b c => exact F

theorem always_fresh : ∀ (tr : List Ev) (r : Ref), Fresh r → check r tr → always gentleAt r tr →
    always (fun r _ => Fresh r) r tr
  | [], _, _, _, _ => trivial
  | e :: es, r, F, hc, hg =>
    ⟨F, always_fresh es (refStep r e) (fresh_step r e F hc.1 hg.1) hc.2 hg.2⟩

/-- the ordering clause without exception: no other pending call is scheduled earlier -/
def orderAt (r : Ref) : Ev → Prop
  | .run id _ => ∀ j, j < r.n → j ≠ id → r.st j = St.pending → r.T id ≤ r.T j
  | _ => True

theorem order_of_fresh (r : Ref) (e : Ev) (ok : okAt r e) (F : Fresh r) : orderAt r e := by
  cases e with
  | run id snap =>
    simp only [okAt] at ok
    intro j hjn hj hp
    apply ok.2.2.2.2.2.2 j hjn hj hp
    by_cases h : j < r.n0
    · exact Or.inl h
    · exact Or.inr (F ok.1 j (by omega) hjn)
  | _ => trivial

theorem always_order : ∀ (tr : List Ev) (r : Ref), Fresh r → check r tr → always gentleAt r tr →
    always orderAt r tr
  | [], _, _, _, _ => trivial
  | e :: es, r, F, hc, hg =>
    ⟨order_of_fresh r e hc.1 F, always_order es (refStep r e) (fresh_step r e F hc.1 hg.1) hc.2 hg.2⟩

/-! ### simulation: the reference timer follows the model -/

def stOf (c : Call) : St := if c.cancelled then St.cancelled else if c.called then St.called else St.pending

theorem stOf_pending (c : Call) : stOf c = St.pending ↔ pendingC c = true := by
  unfold stOf pendingC; cases c.cancelled <;> cases c.called <;> simp

structure Sim (r : Ref) (s : Sys) : Prop where
  now : r.now = s.now
  n : r.n = s.calls.length
  T : ∀ j, j < r.n → r.T j = s.sched j
  st : ∀ j, j < r.n → r.st j = stOf (s.call j)

theorem Sim.congr {r : Ref} {s s' : Sys} (S : Sim r s) (hn : s'.now = s.now)
    (hl : s'.calls.length = s.calls.length)
    (hT : ∀ j, s'.sched j = s.sched j) (hst : ∀ j, stOf (s'.call j) = stOf (s.call j)) : Sim r s' :=
  ⟨S.now.trans hn.symm, S.n.trans hl.symm, fun j hj => (S.T j hj).trans (hT j).symm,
   fun j hj => (S.st j hj).trans (hst j).symm⟩

theorem View.sim {r : Ref} {s s' : Sys} (S : Sim r s) (V : View s s') : Sim r s' :=
  S.congr V.now V.len V.sched (fun j => by unfold stOf; rw [V.called, V.cancelled])

/-- one stored call is replaced -/
theorem sim_set (r r' : Ref) (s s' : Sys) (id : Nat) (c' : Call) (S : Sim r s)
    (hcall : s'.call = upd s.call id c') (hlen : s'.calls.length = s.calls.length) (hnow : s'.now = s.now)
    (h1 : r'.now = r.now) (h2 : r'.n = r.n)
    (hT : ∀ j, j < r.n → r'.T j = if j = id then c'.time + c'.delayed else r.T j)
    (hst : ∀ j, j < r.n → r'.st j = if j = id then stOf c' else r.st j) : Sim r' s' := by
  refine ⟨by rw [h1, hnow]; exact S.now, by rw [h2, hlen]; exact S.n, ?_, ?_⟩
  · intro j hj
    rw [h2] at hj
    rw [hT j hj]
    show _ = (s'.call j).time + (s'.call j).delayed
    rw [hcall]
    by_cases e : j = id
    · simp [upd, e]
    · simp only [upd, e, if_false]; exact S.T j hj
  · intro j hj
    rw [h2] at hj
    rw [hst j hj, hcall]
    by_cases e : j = id
    · simp [upd, e]
    · simp only [upd, e, if_false]; exact S.st j hj

theorem moveSooner_frame (s : Sys) (id : Nat) :
    (moveSooner s id).call = s.call ∧ (moveSooner s id).calls.length = s.calls.length ∧
    (moveSooner s id).now = s.now := by
  unfold moveSooner; simp only; split <;> exact ⟨rfl, rfl, rfl⟩

theorem setCall_len (s : Sys) (id : Nat) (c : Call) : (s.setCall id c).calls.length = s.calls.length := by
  simp [Sys.setCall]

theorem callLater_sim (r : Ref) (s : Sys) (d : Int) (k : Nat) (S : Sim r s) :
    okAt r (Ev.op (Op.callLater d k) 0 (callLater s d k).2) ∧
    Sim (refStep r (Ev.op (Op.callLater d k) 0 (callLater s d k).2)) (callLater s d k).1 := by
  unfold callLater
  split
  · rename_i hd
    exact ⟨by simp [okAt, hd], S⟩
  · rename_i hd
    refine ⟨by simp only [okAt, if_neg hd]; rw [S.n], ?_⟩
    simp only [refStep, refOp]
    have hcall : ∀ j c, (({ s with calls := s.calls ++ [c], staged := s.staged ++ [s.calls.length] } : Sys)).call j
        = upd s.call s.calls.length c j := fun j c => call_append s c j
    refine ⟨S.now, by simp [S.n], ?_, ?_⟩
    · intro j hj
      simp only at hj
      show fset r.T r.n (r.now + d) j = (Sys.call _ j).time + (Sys.call _ j).delayed
      rw [hcall]
      by_cases e : j = r.n
      · subst e; rw [fset_same]; simp [upd, S.n, S.now]
      · have e' : j ≠ s.calls.length := by rw [← S.n]; exact e
        rw [fset_other _ _ _ _ e]; simp only [upd, e', if_false]
        exact S.T j (by omega)
    · intro j hj
      simp only at hj
      show fset r.st r.n St.pending j = stOf (Sys.call _ j)
      rw [hcall]
      by_cases e : j = r.n
      · subst e; rw [fset_same]; simp [upd, S.n, stOf]
      · have e' : j ≠ s.calls.length := by rw [← S.n]; exact e
        rw [fset_other _ _ _ _ e]; simp only [upd, e', if_false]
        exact S.st j (by omega)

/-- the three statuses of a stored call, seen from both sides -/
theorem status_cases (r : Ref) (s : Sys) (id : Nat) (S : Sim r s) (hid : id < s.calls.length) :
    ((s.call id).cancelled = true ∧ r.st id = St.cancelled) ∨
    ((s.call id).cancelled = false ∧ (s.call id).called = true ∧ r.st id = St.called) ∨
    ((s.call id).cancelled = false ∧ (s.call id).called = false ∧ r.st id = St.pending) := by
  have h := S.st id (by rw [S.n]; exact hid)
  unfold stOf at h
  cases hx : (s.call id).cancelled <;> cases hc : (s.call id).called <;> simp [hx, hc] at h ⊢ <;> exact h

theorem cancel_sim (r : Ref) (s : Sys) (ref id : Nat) (S : Sim r s) (hid : id < s.calls.length) :
    okRef r id (cancel s id).2 ∧ Sim (refOp r (Op.cancel ref) id (cancel s id).2) (cancel s id).1 := by
  have hidr : id < r.n := by rw [S.n]; exact hid
  unfold cancel
  simp only
  rcases status_cases r s id S hid with ⟨hx, hs⟩ | ⟨hx, hc, hs⟩ | ⟨hx, hc, hs⟩
  · rw [if_pos hx]
    exact ⟨Or.inr ⟨hidr, by rw [hs]; rfl⟩, by simpa [refOp] using S⟩
  · rw [if_neg (by simp [hx]), if_pos hc]
    exact ⟨Or.inr ⟨hidr, by rw [hs]; rfl⟩, by simpa [refOp] using S⟩
  · rw [if_neg (by simp [hx]), if_neg (by simp [hc])]
    refine ⟨Or.inr ⟨hidr, by rw [hs]; rfl⟩, ?_⟩
    simp only [refOp, if_true]
    refine sim_set r _ s _ id { s.call id with cancelled := true } S ?_ ?_ rfl rfl rfl ?_ ?_
    · exact call_setCall s id _ hid
    · exact setCall_len s id _
    · intro j hj
      dsimp only
      by_cases e : j = id
      · subst e; simp only [if_true]; exact S.T j hj
      · simp only [e, if_false]
    · intro j hj
      dsimp only
      by_cases e : j = id
      · subst e; rw [fset_same]; simp [stOf]
      · rw [fset_other _ _ _ _ e]; simp only [e, if_false]

theorem reset_sim (r : Ref) (s : Sys) (ref id : Nat) (secs : Int) (S : Sim r s) (hid : id < s.calls.length) :
    okRef r id (reset s id secs).2 ∧ Sim (refOp r (Op.reset ref secs) id (reset s id secs).2) (reset s id secs).1 := by
  have hidr : id < r.n := by rw [S.n]; exact hid
  unfold reset
  simp only
  rcases status_cases r s id S hid with ⟨hx, hs⟩ | ⟨hx, hc, hs⟩ | ⟨hx, hc, hs⟩
  · rw [if_pos hx]
    exact ⟨Or.inr ⟨hidr, by rw [hs]; rfl⟩, by simpa [refOp] using S⟩
  · rw [if_neg (by simp [hx]), if_pos hc]
    exact ⟨Or.inr ⟨hidr, by rw [hs]; rfl⟩, by simpa [refOp] using S⟩
  · rw [if_neg (by simp [hx]), if_neg (by simp [hc])]
    have hstid : stOf (s.call id) = St.pending := by rw [← S.st id hidr]; exact hs
    split
    · refine ⟨Or.inr ⟨hidr, by rw [hs]; rfl⟩, ?_⟩
      simp only [refOp, if_true]
      have M := moveSooner_frame (s.setCall id { s.call id with delayed := 0, time := s.now + secs }) id
      refine sim_set r _ s _ id { s.call id with delayed := 0, time := s.now + secs } S ?_ ?_ ?_ rfl rfl ?_ ?_
      · exact M.1.trans (call_setCall s id _ hid)
      · exact M.2.1.trans (setCall_len s id _)
      · exact M.2.2
      · intro j hj
        dsimp only
        by_cases e : j = id
        · subst e; rw [fset_same]; simp [S.now]
        · rw [fset_other _ _ _ _ e]; simp only [e, if_false]
      · intro j hj
        dsimp only
        by_cases e : j = id
        · subst e; simp only [if_true]; rw [hs]; exact hstid.symm
        · simp only [e, if_false]
    · refine ⟨Or.inr ⟨hidr, by rw [hs]; rfl⟩, ?_⟩
      simp only [refOp, if_true]
      refine sim_set r _ s _ id { s.call id with delayed := s.now + secs - (s.call id).time } S ?_ ?_ ?_ rfl rfl ?_ ?_
      · exact call_setCall s id _ hid
      · exact setCall_len s id _
      · exact rfl
      · intro j hj
        dsimp only
        by_cases e : j = id
        · subst e; rw [fset_same]; simp only [if_true, S.now]; omega
        · rw [fset_other _ _ _ _ e]; simp only [e, if_false]
      · intro j hj
        dsimp only
        by_cases e : j = id
        · subst e; simp only [if_true]; rw [hs]; exact hstid.symm
        · simp only [e, if_false]

theorem delay_sim (r : Ref) (s : Sys) (ref id : Nat) (secs : Int) (S : Sim r s) (hid : id < s.calls.length) :
    okRef r id (delay s id secs).2 ∧ Sim (refOp r (Op.delay ref secs) id (delay s id secs).2) (delay s id secs).1 := by
  have hidr : id < r.n := by rw [S.n]; exact hid
  unfold delay
  simp only
  rcases status_cases r s id S hid with ⟨hx, hs⟩ | ⟨hx, hc, hs⟩ | ⟨hx, hc, hs⟩
  · rw [if_pos hx]
    exact ⟨Or.inr ⟨hidr, by rw [hs]; rfl⟩, by simpa [refOp] using S⟩
  · rw [if_neg (by simp [hx]), if_pos hc]
    exact ⟨Or.inr ⟨hidr, by rw [hs]; rfl⟩, by simpa [refOp] using S⟩
  · rw [if_neg (by simp [hx]), if_neg (by simp [hc])]
    have hstid : stOf (s.call id) = St.pending := by rw [← S.st id hidr]; exact hs
    have hT : r.T id = (s.call id).time + (s.call id).delayed := S.T id hidr
    split
    · refine ⟨Or.inr ⟨hidr, by rw [hs]; rfl⟩, ?_⟩
      simp only [refOp, if_true]
      have M := moveSooner_frame (s.setCall id
        { s.call id with time := (s.call id).time + ((s.call id).delayed + secs), delayed := 0 }) id
      refine sim_set r _ s _ id { s.call id with time := (s.call id).time + ((s.call id).delayed + secs), delayed := 0 } S ?_ ?_ ?_ rfl rfl ?_ ?_
      · exact M.1.trans (call_setCall s id _ hid)
      · exact M.2.1.trans (setCall_len s id _)
      · exact M.2.2
      · intro j hj
        dsimp only
        by_cases e : j = id
        · subst e; rw [fset_same]; simp only [if_true]; omega
        · rw [fset_other _ _ _ _ e]; simp only [e, if_false]
      · intro j hj
        dsimp only
        by_cases e : j = id
        · subst e; simp only [if_true]; rw [hs]; exact hstid.symm
        · simp only [e, if_false]
    · refine ⟨Or.inr ⟨hidr, by rw [hs]; rfl⟩, ?_⟩
      simp only [refOp, if_true]
      refine sim_set r _ s _ id { s.call id with delayed := (s.call id).delayed + secs } S ?_ ?_ ?_ rfl rfl ?_ ?_
      · exact call_setCall s id _ hid
      · exact setCall_len s id _
      · exact rfl
      · intro j hj
        dsimp only
        by_cases e : j = id
        · subst e; rw [fset_same]; simp only [if_true]; omega
        · rw [fset_other _ _ _ _ e]; simp only [e, if_false]
      · intro j hj
        dsimp only
        by_cases e : j = id
        · subst e; simp only [if_true]; rw [hs]; exact hstid.symm
        · simp only [e, if_false]

theorem resolve_none (s : Sys) (ref : Nat) (h : resolve s ref = none) : s.calls.length = 0 := by
  unfold resolve at h
  split at h
  · assumption
  · cases h

theorem applyOp_sim (r : Ref) (s : Sys) (o : Op) (S : Sim r s) :
    okAt r (Ev.op o (applyOp s o).2.1 (applyOp s o).2.2) ∧
    Sim (refStep r (Ev.op o (applyOp s o).2.1 (applyOp s o).2.2)) (applyOp s o).1 := by
  cases o with
  | callLater d k => exact callLater_sim r s d k S
  | cancel ref =>
    simp only [applyOp]
    split
    · rename_i h
      have := resolve_none s ref h
      exact ⟨Or.inl ⟨by rw [S.n]; exact this, rfl⟩, by simpa [refStep, refOp] using S⟩
    · rename_i id h; exact cancel_sim r s ref id S (resolve_lt s ref id h)
  | reset ref secs =>
    simp only [applyOp]
    split
    · rename_i h
      have := resolve_none s ref h
      exact ⟨Or.inl ⟨by rw [S.n]; exact this, rfl⟩, by simpa [refStep, refOp] using S⟩
    · rename_i id h; exact reset_sim r s ref id secs S (resolve_lt s ref id h)
  | delay ref secs =>
    simp only [applyOp]
    split
    · rename_i h
      have := resolve_none s ref h
      exact ⟨Or.inl ⟨by rw [S.n]; exact this, rfl⟩, by simpa [refStep, refOp] using S⟩
    · rename_i id h; exact delay_sim r s ref id secs S (resolve_lt s ref id h)

/-! ### blocks of events produced by the model -/

/-- how the snapshot carried by a `run` event relates to the reference timer (links the
    model-level statements about `snap` — `RunOK`, `noStagedPast` — to the trace-level ones) -/
def linkAt (r : Ref) : Ev → Prop
  | .run id snap => Sim r snap ∧ (∀ j, snap.pending j = true → j < r.n) ∧
      (∀ j, j ≠ id → snap.pending j = true → j ∈ snap.heap ∨ r.n0 ≤ j)
  | _ => True

def okL (r : Ref) (e : Ev) : Prop := okAt r e ∧ linkAt r e

/-- a block of events `evs` emitted by the model, started with the reference timer in `r`,
    ending in model state `s'`: every event passes, the reference timer still follows the model,
    and the block is inside one iteration (or outside all of them) -/
structure Blk (r : Ref) (evs : List Ev) (s' : Sys) : Prop where
  chk : always okL r evs
  sim : Sim (refRun r evs) s'
  n0 : (refRun r evs).n0 = r.n0
  inIter : (refRun r evs).inIter = r.inIter

theorem Blk.nil {r : Ref} {s : Sys} (S : Sim r s) : Blk r [] s := ⟨trivial, S, rfl, rfl⟩

theorem Blk.append {r : Ref} {a b : List Ev} {s1 s2 : Sys} (A : Blk r a s1) (B : Blk (refRun r a) b s2) :
    Blk r (a ++ b) s2 := by
  refine ⟨(always_append okL a b r).mpr ⟨A.chk, B.chk⟩, ?_, ?_, ?_⟩
  · rw [refRun_append]; exact B.sim
  · rw [refRun_append, B.n0, A.n0]
  · rw [refRun_append, B.inIter, A.inIter]

theorem Blk.one {r : Ref} {e : Ev} {s' : Sys} (ok : okL r e) (S : Sim (refStep r e) s')
    (h0 : (refStep r e).n0 = r.n0) (hi : (refStep r e).inIter = r.inIter) : Blk r [e] s' :=
  ⟨⟨ok, trivial⟩, S, h0, hi⟩

theorem refOp_frame (r : Ref) (o : Op) (t : Nat) (res : Res) :
    (refOp r o t res).n0 = r.n0 ∧ (refOp r o t res).inIter = r.inIter := by
  cases o with
  | callLater d k => cases res <;> exact ⟨rfl, rfl⟩
  | cancel ref => simp only [refOp]; split <;> exact ⟨rfl, rfl⟩
  | reset ref secs => simp only [refOp]; split <;> exact ⟨rfl, rfl⟩
  | delay ref secs => simp only [refOp]; split <;> exact ⟨rfl, rfl⟩

theorem applyOp_blk (r : Ref) (s : Sys) (o : Op) (S : Sim r s) :
    Blk r [Ev.op o (applyOp s o).2.1 (applyOp s o).2.2] (applyOp s o).1 := by
  have A := applyOp_sim r s o S
  have F := refOp_frame r o (applyOp s o).2.1 (applyOp s o).2.2
  exact Blk.one ⟨A.1, trivial⟩ A.2 F.1 F.2

theorem runScript_blk : ∀ (ops : List Op) (r : Ref) (s : Sys), Sim r s →
    Blk r (runScript s ops).2 (runScript s ops).1
  | [], r, s, S => Blk.nil S
  | o :: os, r, s, S => by
    simp only [runScript]
    have A := applyOp_blk r s o S
    have B := runScript_blk os _ (applyOp s o).1 A.sim
    exact Blk.append A B

theorem pending_lt (s : Sys) (I : Inv s) (j : Nat) (h : s.pending j = true) : j < s.calls.length := by
  by_cases hj : j < s.calls.length
  · exact hj
  · have := I.out j (by omega)
    simp [Sys.pending, this, dead] at h

/-- one turn of the loop -/
theorem turn_blk (n0 : Nat) (r : Ref) (s s' : Sys) (evs : List Ev) (R : Pre n0 s) (S : Sim r s)
    (hn0 : r.n0 = n0) (hin : r.inIter = true) (h : turn s = some (s', evs)) : Blk r evs s' := by
  have T := turn_spec n0 s s' evs R h
  obtain ⟨root, tl, id, heap', hh, hdue, hpop⟩ := turn_cases s s' evs h
  rw [turn_eq s root tl id heap' hh hdue hpop] at h
  have P := heappop_spec s.key s.heap R.inv.isHeap id heap' hpop
  have hidmem : id ∈ s.heap ++ s.staged := List.mem_append_left _ (P.1.mem_iff.mpr (by simp))
  have hidn : id < s.calls.length := R.inv.bound id hidmem
  have hidr : id < r.n := by rw [S.n]; exact hidn
  split at h
  · simp only [Option.some.injEq, Prod.mk.injEq] at h
    obtain ⟨rfl, rfl⟩ := h
    exact Blk.nil (S.congr rfl rfl (fun _ => rfl) (fun _ => rfl))
  · rename_i hx
    split at h
    · simp only [Option.some.injEq, Prod.mk.injEq] at h
      obtain ⟨rfl, rfl⟩ := h
      have A := activate_view ({ s with heap := heap' } : Sys) id
      have hS1 : Sim r ({ s with heap := heap' } : Sys) := S.congr rfl rfl (fun _ => rfl) (fun _ => rfl)
      exact Blk.nil (View.sim hS1 ⟨A.now, A.stuck, A.scripts, A.len, A.pending, A.sched, A.called, A.cancelled⟩)
    · simp only [Option.some.injEq, Prod.mk.injEq] at h
      obtain ⟨rfl, rfl⟩ := h
      rcases T.evs with he | ⟨id', snap', ops, he, _, hok, _⟩
      · cases he
      · have h1 := (List.cons.inj he).1
        have h2 := Ev.run.inj h1
        obtain ⟨e1, e2⟩ := h2
        subst e1
        rw [← e2] at hok
        have hS1 : Sim r ({ s with heap := heap' } : Sys) := S.congr rfl rfl (fun _ => rfl) (fun _ => rfl)
        have hpend : ∀ j, j < r.n → (r.st j = St.pending ↔ ({ s with heap := heap' } : Sys).pending j = true) := by
          intro j hj
          rw [hS1.st j hj, stOf_pending]; rfl
        have hok1 : okAt r (Ev.run id ({ s with heap := heap' } : Sys)) := by
          simp only [okAt]
          refine ⟨hin, hok.clock.trans S.now.symm, by rw [hn0]; exact hok.old,
            by rw [hn0, S.n]; exact R.len, (hpend id hidr).mpr hok.pending, ?_, ?_⟩
          · have hdue' : s.sched id ≤ s.now := hok.due
            rw [S.T id hidr, S.now]; exact hdue'
          · intro j hjn hj hp hor
            have hp' := (hpend j hjn).mp hp
            have hor' : j ∈ heap' ∨ s.now ≤ s.sched j := by
              rcases hor with h | h
              · rcases hok.others j hj hp' with h' | h'
                · exact Or.inl h'
                · rw [hn0] at h; omega
              · right; rw [← S.now, ← S.T j hjn]; exact h
            have ho : s.sched id ≤ s.sched j := hok.order j hj hp' hor'
            rw [S.T id hidr, S.T j hjn]; exact ho
        have hl1 : linkAt r (Ev.run id ({ s with heap := heap' } : Sys)) := by
          refine ⟨hS1, ?_, ?_⟩
          · intro j hj
            rw [S.n]
            exact pending_lt s R.inv j hj
          · intro j hj hp
            rw [hn0]; exact hok.others j hj hp
        have hS2 : Sim (refStep r (Ev.run id ({ s with heap := heap' } : Sys)))
            (({ s with heap := heap' } : Sys).setCall id { s.call id with called := true }) := by
          refine sim_set r _ s _ id { s.call id with called := true } S ?_ ?_ rfl rfl rfl ?_ ?_
          · exact call_setCall ({ s with heap := heap' } : Sys) id _ hidn
          · exact setCall_len _ id _
          · intro j hj
            show r.T j = _
            by_cases e : j = id
            · subst e; simp only [if_true]; exact S.T j hj
            · simp only [e, if_false]
          · intro j hj
            show fset r.st id St.called j = _
            by_cases e : j = id
            · subst e; rw [fset_same]
              have : (s.call j).cancelled = false := by simpa using hx
              simp [stOf, this]
            · rw [fset_other _ _ _ _ e]; simp only [e, if_false]
        have B := runScript_blk
          (((({ s with heap := heap' } : Sys).setCall id { s.call id with called := true }).scripts.getD
            (s.call id).script [])) _ _ hS2
        have A : Blk r [Ev.run id ({ s with heap := heap' } : Sys)]
            (({ s with heap := heap' } : Sys).setCall id { s.call id with called := true }) :=
          Blk.one ⟨hok1, hl1⟩ hS2 rfl rfl
        exact Blk.append A B

/-- the whole loop -/
theorem runLoop_blk (n0 : Nat) : ∀ (fuel : Nat) (r : Ref) (s : Sys), Pre n0 s → Sim r s →
    r.n0 = n0 → r.inIter = true → Blk r (runLoop fuel s).2 (runLoop fuel s).1
  | 0, r, s, R, S, hn0, hin => by
    rw [runLoop_zero]
    split
    · exact Blk.nil (S.congr rfl rfl (fun _ => rfl) (fun _ => rfl))
    · exact Blk.nil S
  | fuel + 1, r, s, R, S, hn0, hin => by
    rw [runLoop_succ]
    split
    · exact Blk.nil S
    · rename_i s' evs ht
      have T := turn_spec n0 s s' evs R ht
      have A := turn_blk n0 r s s' evs R S hn0 hin ht
      have B := runLoop_blk n0 fuel (refRun r evs) s' T.pre A.sim (A.n0.trans hn0) (A.inIter.trans hin)
      exact Blk.append A B

/-! ### status characterisation: `called` = occurs in the run log, `cancelled` = a `cancel` succeeded -/

/-- some `cancel` of call `id` succeeded in the trace -/
def wasCancelled (id : Nat) (tr : List Ev) : Prop := ∃ ref, Ev.op (Op.cancel ref) id Res.ok ∈ tr

theorem expect_ok (x : St) (h : Res.ok = expect x) : x = St.pending := by
  cases x <;> simp [expect] at h ⊢

theorem step_char (r : Ref) (e : Ev) (ok : okAt r e) (j : Nat) :
    ((j < (refStep r e).n ∧ (refStep r e).st j = St.called) ↔
      ((j < r.n ∧ r.st j = St.called) ∨ ∃ snap, e = Ev.run j snap)) ∧
    ((j < (refStep r e).n ∧ (refStep r e).st j = St.cancelled) ↔
      ((j < r.n ∧ r.st j = St.cancelled) ∨ ∃ ref, e = Ev.op (Op.cancel ref) j Res.ok)) := by
  have triv : ∀ (P : Prop) (e' : Ev), (∀ snap, e' ≠ Ev.run j snap) → (P ↔ (P ∨ ∃ snap, e' = Ev.run j snap)) := by
    intro P e' h
    exact ⟨Or.inl, fun h' => h'.elim id (fun ⟨sn, hs⟩ => absurd hs (h sn))⟩
  have triv2 : ∀ (P : Prop) (e' : Ev), (∀ ref, e' ≠ Ev.op (Op.cancel ref) j Res.ok) →
      (P ↔ (P ∨ ∃ ref, e' = Ev.op (Op.cancel ref) j Res.ok)) := by
    intro P e' h
    exact ⟨Or.inl, fun h' => h'.elim id (fun ⟨sn, hs⟩ => absurd hs (h sn))⟩
  cases e with
  | op o t res =>
    cases o with
    | callLater d k =>
      cases res with
      | created id =>
        simp only [refStep, refOp]
        constructor
        · rw [← triv _ _ (by intro sn h; cases h)]
          by_cases e : j = r.n
          · subst e; rw [fset_same]; simp
          · rw [fset_other _ _ _ _ e]
            constructor
            · rintro ⟨h1, h2⟩; exact ⟨by omega, h2⟩
            · rintro ⟨h1, h2⟩; exact ⟨by omega, h2⟩
        · rw [← triv2 _ _ (by intro sn h; cases h)]
          by_cases e : j = r.n
          · subst e; rw [fset_same]; simp
          · rw [fset_other _ _ _ _ e]
            constructor
            · rintro ⟨h1, h2⟩; exact ⟨by omega, h2⟩
            · rintro ⟨h1, h2⟩; exact ⟨by omega, h2⟩
      | _ =>
        simp only [refStep, refOp]
        exact ⟨triv _ _ (by intro sn h; cases h), triv2 _ _ (by intro sn h; cases h)⟩
    | cancel ref =>
      simp only [refStep, refOp]
      split
      · rename_i hres
        subst hres
        simp only [okAt, okRef] at ok
        have htn : t < r.n ∧ r.st t = St.pending := by
          rcases ok with ⟨_, h⟩ | ⟨h1, h⟩
          · cases h
          · exact ⟨h1, expect_ok _ h⟩
        constructor
        · rw [← triv _ _ (by intro sn h; cases h)]
          show (j < r.n ∧ fset r.st t St.cancelled j = St.called) ↔ _
          by_cases e : j = t
          · subst e; rw [fset_same, htn.2]; simp
          · rw [fset_other _ _ _ _ e]
        · show (j < r.n ∧ fset r.st t St.cancelled j = St.cancelled) ↔ _
          by_cases e : j = t
          · subst e; rw [fset_same]
            constructor
            · intro _; exact Or.inr ⟨ref, rfl⟩
            · intro _; exact ⟨htn.1, rfl⟩
          · rw [fset_other _ _ _ _ e]
            apply triv2
            intro ref' h
            injection h with _ h2 _
            exact e h2.symm
      · rename_i hres
        refine ⟨triv _ _ (by intro sn h; cases h), triv2 _ _ ?_⟩
        intro ref' h
        injection h with _ _ h3
        exact hres h3
    | reset ref secs =>
      have : (refStep r (Ev.op (Op.reset ref secs) t res)).n = r.n ∧
          (refStep r (Ev.op (Op.reset ref secs) t res)).st = r.st := by
        simp only [refStep, refOp]; split <;> exact ⟨rfl, rfl⟩
      rw [this.1, this.2]
      exact ⟨triv _ _ (by intro sn h; cases h), triv2 _ _ (by intro sn h; cases h)⟩
    | delay ref secs =>
      have : (refStep r (Ev.op (Op.delay ref secs) t res)).n = r.n ∧
          (refStep r (Ev.op (Op.delay ref secs) t res)).st = r.st := by
        simp only [refStep, refOp]; split <;> exact ⟨rfl, rfl⟩
      rw [this.1, this.2]
      exact ⟨triv _ _ (by intro sn h; cases h), triv2 _ _ (by intro sn h; cases h)⟩
  | run id snap =>
    simp only [okAt] at ok
    have hidn : id < r.n := by omega
    simp only [refStep]
    constructor
    · by_cases e : j = id
      · subst e; rw [fset_same]
        constructor
        · intro _; exact Or.inr ⟨snap, rfl⟩
        · intro _; exact ⟨hidn, rfl⟩
      · rw [fset_other _ _ _ _ e]
        apply triv
        intro sn h
        injection h with h1 _
        exact e h1.symm
    · rw [← triv2 _ _ (by intro sn h; cases h)]
      by_cases e : j = id
      · subst e; rw [fset_same, ok.2.2.2.2.1]; simp
      · rw [fset_other _ _ _ _ e]
  | advance dt => exact ⟨triv _ _ (by intro sn h; cases h), triv2 _ _ (by intro sn h; cases h)⟩
  | iterBegin => exact ⟨triv _ _ (by intro sn h; cases h), triv2 _ _ (by intro sn h; cases h)⟩
  | iterEnd => exact ⟨triv _ _ (by intro sn h; cases h), triv2 _ _ (by intro sn h; cases h)⟩
  | timeout v => exact ⟨triv _ _ (by intro sn h; cases h), triv2 _ _ (by intro sn h; cases h)⟩
  | delayed l => exact ⟨triv _ _ (by intro sn h; cases h), triv2 _ _ (by intro sn h; cases h)⟩
  | counter a b c => exact ⟨triv _ _ (by intro sn h; cases h), triv2 _ _ (by intro sn h; cases h)⟩

theorem mem_runIds_cons (j : Nat) (e : Ev) (es : List Ev) :
    j ∈ runIds (e :: es) ↔ (∃ snap, e = Ev.run j snap) ∨ j ∈ runIds es := by
  cases e with
  | run id snap =>
    simp only [runIds, List.mem_cons]
    constructor
    · rintro (h | h)
      · subst h; exact Or.inl ⟨snap, rfl⟩
      · exact Or.inr h
    · rintro (⟨sn, h⟩ | h)
      · injection h with h1 _; exact Or.inl h1.symm
      · exact Or.inr h
  | _ =>
    simp only [runIds]
    exact ⟨Or.inr, fun h => h.elim (fun ⟨sn, h⟩ => by cases h) id⟩

theorem wasCancelled_cons (j : Nat) (e : Ev) (es : List Ev) :
    wasCancelled j (e :: es) ↔ (∃ ref, e = Ev.op (Op.cancel ref) j Res.ok) ∨ wasCancelled j es := by
  unfold wasCancelled
  constructor
  · rintro ⟨ref, h⟩
    rcases List.mem_cons.mp h with h | h
    · exact Or.inl ⟨ref, h.symm⟩
    · exact Or.inr ⟨ref, h⟩
  · rintro (⟨ref, h⟩ | ⟨ref, h⟩)
    · exact ⟨ref, by rw [h]; exact List.mem_cons_self⟩
    · exact ⟨ref, List.mem_cons_of_mem _ h⟩

/-- after a trace that passes the check, a call's status is `called` iff it was called at the
    start or occurs in the run log, `cancelled` iff it was so at the start or a `cancel` of it
    succeeded in the trace -/
theorem st_char : ∀ (tr : List Ev) (r : Ref), check r tr → ∀ j,
    ((j < (refRun r tr).n ∧ (refRun r tr).st j = St.called) ↔
      ((j < r.n ∧ r.st j = St.called) ∨ j ∈ runIds tr)) ∧
    ((j < (refRun r tr).n ∧ (refRun r tr).st j = St.cancelled) ↔
      ((j < r.n ∧ r.st j = St.cancelled) ∨ wasCancelled j tr))
  | [], r, _, j => by
    simp [refRun, runIds, wasCancelled]
  | e :: es, r, hc, j => by
    have ih := st_char es (refStep r e) hc.2 j
    have sc := step_char r e hc.1 j
    have hr : refRun r (e :: es) = refRun (refStep r e) es := rfl
    rw [hr, mem_runIds_cons, wasCancelled_cons]
    constructor
    · rw [ih.1, sc.1, or_assoc]
    · rw [ih.2, sc.2, or_assoc]

/-- from the initial reference state: `called` = in the run log; `cancelled` = a `cancel` succeeded;
    hence `pending` = created, never run, never cancelled -/
theorem st_char_init (base : Int) (tr : List Ev) (hc : check (Ref.init base) tr) (j : Nat)
    (hj : j < (refRun (Ref.init base) tr).n) :
    ((refRun (Ref.init base) tr).st j = St.called ↔ j ∈ runIds tr) ∧
    ((refRun (Ref.init base) tr).st j = St.cancelled ↔ wasCancelled j tr) ∧
    ((refRun (Ref.init base) tr).st j = St.pending ↔ (j ∉ runIds tr ∧ ¬ wasCancelled j tr)) := by
  have h := st_char tr (Ref.init base) hc j
  have h0 : ∀ x, ¬ (j < (Ref.init base).n ∧ (Ref.init base).st j = x) := by
    intro x hx; simp [Ref.init] at hx
  have h1 : (refRun (Ref.init base) tr).st j = St.called ↔ j ∈ runIds tr := by
    constructor
    · intro hx; exact (h.1.mp ⟨hj, hx⟩).elim (fun y => absurd y (h0 _)) id
    · intro hx; exact (h.1.mpr (Or.inr hx)).2
  have h2 : (refRun (Ref.init base) tr).st j = St.cancelled ↔ wasCancelled j tr := by
    constructor
    · intro hx; exact (h.2.mp ⟨hj, hx⟩).elim (fun y => absurd y (h0 _)) id
    · intro hx; exact (h.2.mpr (Or.inr hx)).2
  refine ⟨h1, h2, ?_⟩
  rw [← h1, ← h2]
  cases (refRun (Ref.init base) tr).st j <;> simp

theorem refStep_n0_le (r : Ref) (e : Ev) (h : r.n0 ≤ r.n) : (refStep r e).n0 ≤ (refStep r e).n := by
  cases e with
  | op o t res =>
    have F := refOp_frame r o t res
    have M := refStep_n_mono r (Ev.op o t res)
    show (refOp r o t res).n0 ≤ (refStep r (Ev.op o t res)).n
    rw [F.1]; omega
  | iterBegin => exact Nat.le_refl _
  | _ => exact h

/-- the calls that existed when the iteration began are among those created so far -/
theorem n0_le_n : ∀ (tr : List Ev) (r : Ref), r.n0 ≤ r.n → (refRun r tr).n0 ≤ (refRun r tr).n
  | [], _, h => h
  | e :: es, r, h => n0_le_n es (refStep r e) (refStep_n0_le r e h)

end TwistedProps.C08
