import TwistedModel.Transport.FD
import Generated.FD
/-!
C14 — `abstract.FileDescriptor._isSendBufferFull`, regenerated from `src/twisted/internet/abstract.py` by
`harness/py2lean.py` on every run (`lean/Generated/FD.lean`), proved equal to the hand model's predicate
`isSendBufferFull` (`TwistedModel/Transport/FD.lean`): `len(self.dataBuffer)` is the length of the model's
`dataBuffer` (NOT minus `offset` — the code counts the already-sent prefix too), `self._tempDataLen` is
`tempLen`, `self.bufferSize` is `bufferSize`.  Python ints are `Int` in the generated definition; the
model's fields are `Nat`.
-/
open Twisted.Transport.FD
namespace TwistedProps.C14

/-- generated `_isSendBufferFull` = the model's predicate, on every state -/
theorem gen_isSendBufferFull_eq (s : St) :
    Generated.FD.isSendBufferFull s.dataBuffer.length s.tempLen s.bufferSize = isSendBufferFull s := by
  simp only [Generated.FD.isSendBufferFull, isSendBufferFull]
  by_cases h : s.dataBuffer.length + s.tempLen > s.bufferSize
  · have h' : (s.dataBuffer.length : Int) + (s.tempLen : Int) > (s.bufferSize : Int) := by omega
    simp [h, h']
  · have h' : ¬ ((s.dataBuffer.length : Int) + (s.tempLen : Int) > (s.bufferSize : Int)) := by omega
    simp [h, h']

/-- the generated predicate, as a statement about lengths: full ⇔ strictly more than `bufferSize` bytes held -/
theorem gen_isSendBufferFull_iff (n t b : Nat) :
    Generated.FD.isSendBufferFull n t b = true ↔ b < n + t := by
  simp only [Generated.FD.isSendBufferFull, decide_eq_true_eq]
  omega

end TwistedProps.C14
