import TwistedProps.C14.Mono
/-!
C14 — eventual delivery (lemmas for `TwistedProps/C14.lean`): under any schedule of writability events in which
the OS takes at least one byte of a non-empty offer, the buffer of an open connection whose descriptor is in the
writer set drains within (pending bytes) events; at that moment everything accepted has been handed to the OS
and `doWrite` resumes the producer / closes / half-closes exactly as ordered.
-/
open Twisted.Transport.FD
namespace TwistedProps.C14

/-! ### producer callbacks never hand bytes to the OS (they can only buffer) -/

def SentConst (cb : Cb) : Prop := ∀ pid k s, (cb pid k s).sentChunks = s.sentChunks

theorem sc_maybePause {cb : Cb} (hcb : SentConst cb) (s) : (maybePauseProducer cb s).sentChunks = s.sentChunks := by
  unfold maybePauseProducer callProducer callPid
  split
  · split
    · split <;> simp [hcb _ _ _]
    · rfl
  · rfl

theorem sc_connectionLost {cb : Cb} (hcb : SentConst cb) (s) : (connectionLost cb s).sentChunks = s.sentChunks := by
  unfold connectionLost callProducer callPid stopWriting stopReading
  simp only
  split <;> simp [hcb _ _ _]

theorem sc_loseConnection {cb : Cb} (hcb : SentConst cb) (s) : (loseConnection cb s).sentChunks = s.sentChunks := by
  unfold loseConnection
  split
  · split
    · simp [sc_connectionLost hcb, emit, stopWriting, stopReading]
    · rfl
  · rfl

theorem sc_unregister (s) : (unregisterProducer s).sentChunks = s.sentChunks := by
  unfold unregisterProducer; simp only; split <;> rfl

theorem sc_reactorLost {cb : Cb} (hcb : SentConst cb) (r s) : (reactorLost cb r s).sentChunks = s.sentChunks := by
  unfold reactorLost; simp [sc_connectionLost hcb, emit, stopWriting, stopReading]

theorem sc_write {cb : Cb} (hcb : SentConst cb) (d s) : (write cb d s).sentChunks = s.sentChunks := by
  rw [write_eq]; split; rfl; split; rfl; simp [startWriting, sc_maybePause hcb, appendSt]

theorem sc_writeSeq {cb : Cb} (hcb : SentConst cb) (ds s) : (writeSeq cb ds s).sentChunks = s.sentChunks := by
  rw [writeSeq_eq]; split; rfl; simp [startWriting, sc_maybePause hcb, appendSt]

theorem sc_applyP {cb : Cb} (hcb : SentConst cb) (op s) : (applyP cb op s).sentChunks = s.sentChunks := by
  cases op with
  | write d => exact sc_write hcb d s
  | writeSeq ds => exact sc_writeSeq hcb ds s
  | unregister => exact sc_unregister s
  | lose => exact sc_loseConnection hcb s
  | loseWrite => rfl

theorem sc_runScript {cb : Cb} (hcb : SentConst cb) (ops s) : (runScript cb ops s).sentChunks = s.sentChunks := by
  unfold runScript
  induction ops generalizing s with
  | nil => rfl
  | cons op ops ih => simp only [List.foldl_cons]; rw [ih, sc_applyP hcb]

theorem sc_popScript (pid k s) : (popScript pid k s).2.sentChunks = s.sentChunks := by
  unfold popScript
  split
  · rfl
  · split
    · split <;> rfl
    · split <;> rfl
    · rfl

theorem sc_cbAt (d : Nat) : SentConst (cbAt d) := by
  induction d with
  | zero =>
    intro pid k s
    have := sc_popScript pid k s
    simp only [cbAt]
    split
    · exact this
    · exact this
  | succ d ih =>
    intro pid k s
    simp only [cbAt]
    rw [sc_runScript ih, sc_popScript]


/-! ### eventual delivery -/

/-- an OS answer that takes at least one byte of a non-empty offer -/
def Pos : Accept → Prop
  | .n k => 0 < k
  | .all => True
  | .err => False

theorem acceptLen_pos {a n} (hp : Pos a) : ∃ l, acceptLen a n = some l ∧ l ≤ n ∧ (0 < n → 0 < l) := by
  cases a with
  | n k => exact ⟨min k n, rfl, Nat.min_le_right _ _, fun hn => by simp only [Pos] at hp; omega⟩
  | all => exact ⟨n, rfl, Nat.le_refl _, id⟩
  | err => cases hp

/-- `doWrite` must resume the producer before it may do anything else with a drained buffer -/
def needsResume (s : St) : Bool := s.producer.isSome && (!s.streaming || s.producerPaused)

/-- what the reactor does with the value returned by `doWrite` -/
def finish (cb : Cb) : St × Ret → St
  | (s, .none) => s
  | (s, .done) => reactorLost cb .done s
  | (s, .err) => reactorLost cb .err s

theorem tick_eq (cb : Cb) (a s) : tick cb a s = if s.writer then finish cb (doWrite cb a s) else s := by
  unfold tick
  split
  · generalize doWrite cb a s = r
    obtain ⟨t, ret⟩ := r
    cases ret <;> rfl
  · rfl

/-- the control state a partial write leaves alone -/
structure SameCtl (s t : St) : Prop where
  acc : t.accChunks = s.accChunks
  connected : t.connected = s.connected
  disconnected : t.disconnected = s.disconnected
  disconnecting : t.disconnecting = s.disconnecting
  producer : t.producer = s.producer
  streaming : t.streaming = s.streaming
  paused : t.producerPaused = s.producerPaused
  wding : t.writeDisconnecting = s.writeDisconnecting
  wd : t.writeDisconnected = s.writeDisconnected
  sl : t.sendLimit = s.sendLimit
  writer : t.writer = s.writer
  reader : t.reader = s.reader

theorem SameCtl.refl (s : St) : SameCtl s s := ⟨rfl, rfl, rfl, rfl, rfl, rfl, rfl, rfl, rfl, rfl, rfl, rfl⟩

theorem SameCtl.trans {s t u : St} (h1 : SameCtl s t) (h2 : SameCtl t u) : SameCtl s u :=
  ⟨h2.acc.trans h1.acc, h2.connected.trans h1.connected, h2.disconnected.trans h1.disconnected,
   h2.disconnecting.trans h1.disconnecting,
   h2.producer.trans h1.producer, h2.streaming.trans h1.streaming, h2.paused.trans h1.paused,
   h2.wding.trans h1.wding, h2.wd.trans h1.wd, h2.sl.trans h1.sl, h2.writer.trans h1.writer,
   h2.reader.trans h1.reader⟩

theorem sameCtl_merge (s) : SameCtl s (merge s) := by
  unfold merge; split
  · exact ⟨rfl, rfl, rfl, rfl, rfl, rfl, rfl, rfl, rfl, rfl, rfl, rfl⟩
  · exact SameCtl.refl s

theorem sameCtl_acceptSt (s l) : SameCtl s (acceptSt s l) := ⟨rfl, rfl, rfl, rfl, rfl, rfl, rfl, rfl, rfl, rfl, rfl, rfl⟩

/-- with `0 < SEND_LIMIT`, `doWrite` offers the OS a non-empty buffer whenever bytes are pending -/
theorem offered_ne_nil {s} (_h : Core s) (hsl : 0 < s.sendLimit) (hp : s.unsent ≠ []) :
    (merge s).dataBuffer.drop (merge s).offset ≠ [] := by
  unfold merge
  split
  · simpa [St.unsent] using hp
  next hc =>
    simp only [List.length_drop, ne_eq, ← List.length_eq_zero_iff]
    omega

/-- One writability event on a descriptor in the writer set, the OS taking at least one byte of a non-empty
offer: either the buffer is drained by it (`doWrite` reaches its "nothing left to send" branch in a state `t`
with nothing pending, no callback has run so far) or strictly fewer bytes are pending afterwards, nothing else
has changed, and still no callback has run. -/
theorem tick_cases {cb : Cb} {s a} (h : Core s) (hw : s.writer = true) (hsl : 0 < s.sendLimit) (hp : Pos a) :
    (∃ t, Drainable t ∧ t.unsent = [] ∧ SameCtl s t ∧ tick cb a s = finish cb (drained cb t)) ∨
    ((tick cb a s).unsent.length < s.unsent.length ∧ (tick cb a s).unsent ≠ [] ∧ SameCtl s (tick cb a s)) := by
  have hm := core_merge h
  rw [tick_eq, if_pos hw, doWrite_eq]
  obtain ⟨l, hl, hle, hpos⟩ := acceptLen_pos (n := ((merge s).dataBuffer.drop (merge s).offset).length) hp
  rw [hl]
  simp only
  have hsame : SameCtl s (acceptSt (merge s) l) := (sameCtl_merge s).trans (sameCtl_acceptSt _ _)
  split
  next hc =>
    left
    simp only [Bool.and_eq_true, beq_iff_eq] at hc
    have hd := drainable_accept hm hc.1 hc.2
    refine ⟨_, hd, ?_, hsame, rfl⟩
    have ht : (merge s).temp.flatten = [] := hd.temp
    have hu : (acceptSt (merge s) l).unsent = [] := by
      simp only [acceptSt, St.unsent, ht, List.append_nil]
      have : (merge s).offset + l = (merge s).dataBuffer.length := hc.1
      rw [this]; exact List.drop_length
    exact hu
  next hc =>
    right
    simp only [Bool.and_eq_true, beq_iff_eq] at hc
    replace hc : ¬ ((merge s).offset + l = (merge s).dataBuffer.length ∧ (merge s).tempLen = 0) := hc
    simp only [List.length_drop] at hle hpos
    have hcore := core_accept_partial hm hle hc
    have hoff := hm.buf.offLe
    have htl := hm.buf.tempLen
    have hne : (acceptSt (merge s) l).unsent ≠ [] := by
      intro h0
      have := congrArg List.length h0
      simp only [acceptSt, St.unsent, List.length_append, List.length_drop, List.length_nil] at this
      omega
    have hsne : s.unsent ≠ [] := by
      intro h0
      have h1 : (merge s).unsent = [] := by rw [unsent_merge]; exact h0
      have := congrArg List.length h1
      simp only [St.unsent, List.length_append, List.length_drop, List.length_nil] at this
      apply hc
      have hl0 : l = 0 := by omega
      subst hl0
      exact ⟨by show (merge s).offset + 0 = _; omega, by show (merge s).tempLen = 0; omega⟩
    have hoffne := offered_ne_nil h hsl hsne
    have hlpos : 0 < l := hpos (by
      have := List.length_pos_iff.mpr hoffne
      simpa [List.length_drop] using this)
    refine ⟨?_, hne, hsame⟩
    show (acceptSt (merge s) l).unsent.length < s.unsent.length
    rw [← unsent_merge s]
    simp only [acceptSt, St.unsent, List.length_append, List.length_drop]
    omega

/-- a schedule of OS answers, one per writability event -/
def driveOps (σ : Nat → Accept) (j : Nat) : List Op := (List.range j).map (fun i => Op.tick (σ i))

theorem driveOps_succ (σ : Nat → Accept) (j : Nat) :
    driveOps σ (j + 1) = Op.tick (σ 0) :: driveOps (fun i => σ (i + 1)) j := by
  simp [driveOps, List.range_succ_eq_map, List.map_map, Function.comp_def]

theorem run_driveOps_succ (cb : Cb) (σ j s) :
    run cb (driveOps σ (j + 1)) s = run cb (driveOps (fun i => σ (i + 1)) j) (tick cb (σ 0) s) := by
  rw [driveOps_succ]; rfl

theorem run_append (cb : Cb) (xs ys s) : run cb (xs ++ ys) s = run cb ys (run cb xs s) := by
  simp [run, List.foldl_append]

/-- **The drain point.**  From a state with the descriptor in the writer set and at most `n + 1` bytes pending,
under any schedule of positive OS answers: some `j ≤ n` writability events only shrink the buffer (no callback
runs, nothing but the buffer changes, the connection stays as it is), and the next one finds the buffer drained. -/
theorem drain_point {cb : Cb} (hcb : Pres Core cb) (n : Nat) :
    ∀ (σ : Nat → Accept) (s : St), (∀ i, Pos (σ i)) → Core s → s.writer = true → 0 < s.sendLimit →
      s.unsent.length ≤ n + 1 →
      ∃ j, j ≤ n ∧ (∀ i, i ≤ j → SameCtl s (run cb (driveOps σ i) s)) ∧
        ∃ t, Drainable t ∧ t.unsent = [] ∧ SameCtl s t ∧
          run cb (driveOps σ (j + 1)) s = finish cb (drained cb t) := by
  induction n with
  | zero =>
    intro σ s hσ h hw hsl hn
    refine ⟨0, Nat.le_refl _, ?_, ?_⟩
    · intro i hi
      have : i = 0 := by omega
      subst this
      exact SameCtl.refl s
    · rcases tick_cases (cb := cb) h hw hsl (hσ 0) with ⟨t, hd, hu, hs, he⟩ | ⟨hlt, hne, _⟩
      · exact ⟨t, hd, hu, hs, by rw [run_driveOps_succ]; exact he⟩
      · exfalso
        have : (tick cb (σ 0) s).unsent.length = 0 := by omega
        exact hne (List.eq_nil_of_length_eq_zero this)
  | succ n ih =>
    intro σ s hσ h hw hsl hn
    rcases tick_cases (cb := cb) h hw hsl (hσ 0) with ⟨t, hd, hu, hs, he⟩ | ⟨hlt, hne, hs⟩
    · refine ⟨0, Nat.zero_le _, ?_, t, hd, hu, hs, by rw [run_driveOps_succ]; exact he⟩
      intro i hi
      have : i = 0 := by omega
      subst this
      exact SameCtl.refl s
    · have h1 := core_tick hcb h (σ 0)
      obtain ⟨j, hj, hall, t, hd, hu, hst, he⟩ := ih (fun i => σ (i + 1)) (tick cb (σ 0) s) (fun i => hσ (i + 1)) h1
        (by rw [hs.writer]; exact hw) (by rw [hs.sl]; exact hsl) (by omega)
      refine ⟨j + 1, by omega, ?_, t, hd, hu, hs.trans hst, by rw [run_driveOps_succ]; exact he⟩
      intro i hi
      cases i with
      | zero => exact SameCtl.refl s
      | succ i =>
        rw [run_driveOps_succ]
        exact hs.trans (hall i (by omega))


/-! ### what happens at the drain point -/

theorem needsResume_congr {s t : St} (h : SameCtl s t) : needsResume t = needsResume s := by
  simp only [needsResume, h.producer, h.streaming, h.paused]

theorem connectionLost_facts {cb : Cb} (hm : MonoCb cb) (s : St) :
    (connectionLost cb s).connected = false ∧ (connectionLost cb s).accChunks = s.accChunks ∧
      ∀ e ∈ s.log, e ∈ (connectionLost cb s).log := by
  unfold connectionLost
  simp only
  split
  · have h := mono_callProducer hm .stop { s with disconnected := true, connected := false }
    exact ⟨h.conn rfl, h.frozen (Or.inl rfl), h.log⟩
  · exact ⟨rfl, rfl, fun _ h => h⟩

/-- **Settled.**  `u` is the state right after the writability event that drained the buffer of `s` (`s` itself
or `s` after some partial writes).  Every byte accepted up to `s` has been handed to the OS, in order, once;
then, exactly as `doWrite` orders it: a producer that must be resumed (non-streaming, or streaming and paused)
is resumed, on a still open connection, with nothing pending; otherwise, if `loseConnection` had been called,
the connection is closed cleanly (`connectionLost(ConnectionDone)`, nothing pending, no pull producer); otherwise
it stays open (and a requested half-close is carried out). -/
structure Settled (cb : Cb) (s u : St) : Prop where
  sent : u.sent = s.acc
  closed : needsResume s = false → s.disconnecting = true →
    u.connected = false ∧ u.acc = s.acc ∧ ∃ wd late, Ev.lost .done 0 false wd late ∈ u.log
  stays : needsResume s = false → s.disconnecting = false →
    u.connected = true ∧ u.acc = s.acc ∧ u.unsent = [] ∧
      (s.writeDisconnecting = true → u.writeDisconnected = true ∧ Ev.halfClose ∈ u.log)
  resumed : needsResume s = true →
    ∃ pid t, s.producer = some pid ∧ u = cb pid .resume t ∧ t.connected = true ∧ t.unsent = [] ∧
      t.sent = s.acc ∧ t.acc = s.acc ∧ t.log.head? = some (Ev.call pid .resume) ∧
      t.producerPaused = false ∧ t.disconnecting = s.disconnecting

/-- the state in which `doWrite` decides what to do with a drained buffer -/
def drainedBase (t : St) : St := stopWriting { t with dataBuffer := [], offset := 0 }

theorem drained_eq (cb : Cb) (t : St) : drained cb t =
    if needsResume t then (callProducer cb .resume { drainedBase t with producerPaused := false }, Ret.none)
    else if t.disconnecting then (drainedBase t, Ret.done)
    else if t.writeDisconnecting then (emit .halfClose { drainedBase t with writeDisconnected := true }, Ret.none)
    else (drainedBase t, Ret.none) := rfl

/-- the state handed to `resumeProducing` of producer `pid` by the draining `doWrite` -/
def resumeSt (t : St) (pid : Nat) : St := preCall pid .resume { drainedBase t with producerPaused := false }

theorem finish_drained_resume (cb : Cb) {t : St} {pid} (hn : needsResume t = true) (hp : t.producer = some pid) :
    finish cb (drained cb t) = cb pid .resume (resumeSt t pid) := by
  rw [drained_eq, if_pos hn]
  simp only [finish]
  rw [callProducer_eq cb (k := .resume) (s := { drainedBase t with producerPaused := false }) (pid := pid) hp,
    callPid_eq]
  rfl

theorem finish_drained_done (cb : Cb) {t : St} (hn : needsResume t = false) (hd : t.disconnecting = true) :
    finish cb (drained cb t) = reactorLost cb .done (drainedBase t) := by
  rw [drained_eq, hn, if_neg (by simp), if_pos hd]
  rfl

theorem finish_drained_half (cb : Cb) {t : St} (hn : needsResume t = false) (hd : t.disconnecting = false)
    (hw : t.writeDisconnecting = true) :
    finish cb (drained cb t) = emit .halfClose { drainedBase t with writeDisconnected := true } := by
  rw [drained_eq, hn, hd, if_neg (by simp), if_neg (by simp), if_pos hw]
  rfl

theorem finish_drained_idle (cb : Cb) {t : St} (hn : needsResume t = false) (hd : t.disconnecting = false)
    (hw : t.writeDisconnecting = false) : finish cb (drained cb t) = drainedBase t := by
  rw [drained_eq, hn, hd, hw, if_neg (by simp), if_neg (by simp), if_neg (by simp)]
  rfl

theorem unsent_drainedBase {t : St} (hd : Drainable t) : (drainedBase t).unsent = [] := by
  simp [drainedBase, St.unsent, stopWriting, hd.temp]

theorem settle {cb : Cb} (hm : MonoCb cb) (hsc : SentConst cb) {s t : St} (hd : Drainable t)
    (hs : SameCtl s t) (hc : s.connected = true) : Settled cb s (finish cb (drained cb t)) := by
  have hacc : t.acc = s.acc := by simp only [St.acc, hs.acc]
  have hsent : t.sent = s.acc := by rw [hd.stream, hacc]
  have hnr := needsResume_congr hs
  have hu0 := unsent_drainedBase hd
  have hcon : t.connected = true := by rw [hs.connected]; exact hc
  cases hn : needsResume s with
  | true =>
    rw [hn] at hnr
    have hsome : t.producer.isSome = true := by
      simp only [needsResume, Bool.and_eq_true] at hnr; exact hnr.1
    obtain ⟨pid, hpid⟩ := Option.isSome_iff_exists.mp hsome
    rw [finish_drained_resume cb hnr hpid]
    refine ⟨?_, fun h => by simp [hn] at h, fun h => by simp [hn] at h,
      fun _ => ⟨pid, resumeSt t pid, by rw [← hs.producer]; exact hpid, rfl, hcon, hu0, hsent, hacc, rfl, rfl,
        hs.disconnecting⟩⟩
    simp only [St.sent, hsc _ _ _]
    exact hsent
  | false =>
    rw [hn] at hnr
    cases hdis : s.disconnecting with
    | true =>
      have hdis' : t.disconnecting = true := by rw [hs.disconnecting]; exact hdis
      rw [finish_drained_done cb hnr hdis']
      unfold reactorLost
      simp only
      have hf := connectionLost_facts hm
        (emit (lostEv .done (stopWriting (stopReading (drainedBase t)))) (stopWriting (stopReading (drainedBase t))))
      refine ⟨?_, fun _ _ => ⟨hf.1, ?_, ?_⟩, fun _ h => by simp [hdis] at h, fun h => by simp [hn] at h⟩
      · simp only [St.sent, sc_connectionLost hsc]
        exact hsent
      · simp only [St.acc, hf.2.1]
        exact hacc
      · have hpull : (t.producer.isSome && !t.streaming) = false := by
          simp only [needsResume] at hnr
          cases hp : t.producer.isSome <;> cases hst : t.streaming <;> simp_all
        refine ⟨t.writeDisconnected, t.regShut, hf.2.2 _ ?_⟩
        have hl : lostEv .done (stopWriting (stopReading (drainedBase t))) =
            Ev.lost .done 0 false t.writeDisconnected t.regShut := by
          have h1 : (stopWriting (stopReading (drainedBase t))).unsent = [] := hu0
          simp only [lostEv, h1, List.length_nil]
          show Ev.lost .done 0 (t.producer.isSome && !t.streaming) t.writeDisconnected t.regShut = _
          rw [hpull]
        rw [← hl]
        exact List.mem_cons_self
    | false =>
      have hdis' : t.disconnecting = false := by rw [hs.disconnecting]; exact hdis
      cases hwd : t.writeDisconnecting with
      | true =>
        rw [finish_drained_half cb hnr hdis' hwd]
        refine ⟨hsent, fun _ h => by simp [hdis] at h, fun _ _ => ⟨hcon, hacc, hu0, fun _ => ⟨rfl, List.mem_cons_self⟩⟩,
          fun h => by simp [hn] at h⟩
      | false =>
        rw [finish_drained_idle cb hnr hdis' hwd]
        refine ⟨hsent, fun _ h => by simp [hdis] at h, fun _ _ => ⟨hcon, hacc, hu0, fun h => ?_⟩, fun h => by simp [hn] at h⟩
        rw [← hs.wding, hwd] at h; cases h

/-- **Eventual delivery, any callbacks.**  From a state `s` of an open connection whose descriptor is in the
reactor's writer set, under any schedule of OS answers that take at least one byte of a non-empty offer, with
`0 < SEND_LIMIT`: after `j` writability events, `1 ≤ j ≤ max 1 (pending bytes)`, the state is `Settled`; before
that the connection stays open and no callback runs. -/
theorem delivery {cb : Cb} (hcb : Pres Core cb) (hm : MonoCb cb) (hsc : SentConst cb) {s : St} (h : Core s)
    (hc : s.connected = true) (hw : s.writer = true) (hsl : 0 < s.sendLimit)
    (σ : Nat → Accept) (hσ : ∀ i, Pos (σ i)) :
    ∃ j, 0 < j ∧ j ≤ max 1 s.unsent.length ∧
      (∀ i, i < j → (run cb (driveOps σ i) s).connected = true ∧ (run cb (driveOps σ i) s).acc = s.acc) ∧
      Settled cb s (run cb (driveOps σ j) s) := by
  obtain ⟨j, hj, hall, t, hd, _, hst, he⟩ :=
    drain_point hcb (s.unsent.length - 1) σ s hσ h hw hsl (by omega)
  refine ⟨j + 1, by omega, by omega, ?_, ?_⟩
  · intro i hi
    have := hall i (by omega)
    exact ⟨by rw [this.connected]; exact hc, by simp only [St.acc, this.acc]⟩
  · rw [he]
    exact settle hm hsc hd hst hc

end TwistedProps.C14
