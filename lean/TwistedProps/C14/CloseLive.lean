import TwistedProps.C14.Mono
/-!
C14 — no stuck close (lemmas for `TwistedProps/C14.lean`): on an open connection on which `loseConnection` has
been called and no producer is registered, the descriptor is in the reactor's writer set — so the next writability
events flush the buffer and close the connection (`Delivery.lean`).  `loseConnection` and `unregisterProducer`
call `startWriting` for exactly this; `doWrite` leaves the writer set only when it drains the buffer, and then it
closes.  Same architecture as `Invariants.lean`; the callbacks must also be monotone (`MonoCb`: a dead transport
stays dead).
-/
open Twisted.Transport.FD
namespace TwistedProps.C14

def CL (s : St) : Prop :=
  s.connected = true → s.disconnecting = true → s.producer = none → s.writer = true

theorem CL.frame {s t : St} (h : CL s) (h1 : t.connected = s.connected) (h2 : t.disconnecting = s.disconnecting)
    (h3 : t.producer = s.producer) (h4 : t.writer = s.writer) : CL t := by
  unfold CL at *; simp only [h1, h2, h3, h4]; exact h

macro "cframe " h:term : tactic => `(tactic| exact CL.frame $h rfl rfl rfl rfl)

theorem cl_of_writer {s} (h : s.writer = true) : CL s := fun _ _ _ => h
theorem cl_of_dead {s} (h : s.connected = false) : CL s := fun hc => by rw [h] at hc; cases hc
theorem cl_of_producer {s} (h : s.producer.isSome = true) : CL s :=
  fun _ _ hp => by rw [hp] at h; cases h
theorem cl_of_open {s} (h : s.disconnecting = false) : CL s := fun _ hd => by rw [h] at hd; cases hd

structure CLGood (cb : Cb) : Prop where
  cl : Pres CL cb
  mono : MonoCb cb

theorem cl_preCall {s} (h : CL s) (pid k) : CL (preCall pid k s) := by cframe h

theorem cl_callPid {cb : Cb} (g : CLGood cb) {s} (h : CL s) (pid k) : CL (callPid cb pid k s) := by
  rw [callPid_eq]; exact g.cl _ _ _ (cl_preCall h pid k)

theorem cl_callProducer {cb : Cb} (g : CLGood cb) {s} (h : CL s) (k) : CL (callProducer cb k s) := by
  unfold callProducer
  split
  · exact cl_callPid g h _ _
  · exact h

theorem cl_maybePause {cb : Cb} (g : CLGood cb) {s} (h : CL s) : CL (maybePauseProducer cb s) := by
  unfold maybePauseProducer
  split
  · split
    · exact cl_callProducer g (s := { s with producerPaused := true }) (by cframe h) _
    · exact h
  · exact h

theorem cl_write {cb : Cb} {s} (h : CL s) (d) : CL (write cb d s) := by
  rw [write_eq]
  split
  · exact h
  · split
    · exact h
    · exact cl_of_writer rfl

theorem cl_writeSeq {cb : Cb} {s} (h : CL s) (ds) : CL (writeSeq cb ds s) := by
  rw [writeSeq_eq]
  split
  · exact h
  · exact cl_of_writer rfl

theorem cl_unregister (s : St) : CL (unregisterProducer s) := by
  unfold unregisterProducer
  simp only
  split
  · exact cl_of_writer rfl
  next hn =>
    intro hc hd _
    exact absurd (by simp only [Bool.and_eq_true]; exact ⟨hc, hd⟩) hn

theorem connectionLost_dead {cb : Cb} (hm : MonoCb cb) (s : St) : (connectionLost cb s).connected = false := by
  unfold connectionLost
  simp only
  split
  · exact (mono_callProducer hm .stop { s with disconnected := true, connected := false }).conn rfl
  · rfl

theorem cl_connectionLost {cb : Cb} (g : CLGood cb) (s) : CL (connectionLost cb s) :=
  cl_of_dead (connectionLost_dead g.mono s)

theorem cl_loseConnection {cb : Cb} (g : CLGood cb) {s} (h : CL s) : CL (loseConnection cb s) := by
  unfold loseConnection
  split
  · split
    · exact cl_connectionLost g _
    · exact cl_of_writer rfl
  · exact h

theorem cl_reactorLost {cb : Cb} (g : CLGood cb) (r s) : CL (reactorLost cb r s) := by
  unfold reactorLost; exact cl_connectionLost g _

theorem cl_register {cb : Cb} (g : CLGood cb) {s} (h : CL s) (pid st) : CL (registerProducer cb pid st s) := by
  unfold registerProducer
  split
  · exact (by cframe h : CL (emit .raised s))
  · split
    · exact cl_callPid g h _ _
    · simp only
      have h0 : CL { s with producer := some pid, streaming := st, lastCall := none, regShut := s.writeDisconnected } :=
        cl_of_producer rfl
      split
      · exact cl_maybePause g (cl_callProducer g h0 _)
      · exact cl_maybePause g h0

theorem cl_merge {s} (h : CL s) : CL (merge s) := by
  unfold merge; split
  · cframe h
  · exact h

theorem cl_acceptSt {s} (h : CL s) (l) : CL (acceptSt s l) := by cframe h

/-- `doWrite` on a drained buffer leaves the writer set, and then either resumes a producer, or closes, or the
connection was not being closed -/
theorem cl_drained {cb : Cb} (g : CLGood cb) (s) : CL (drained cb s).1 ∨ (drained cb s).2 = .done := by
  unfold drained
  simp only
  split
  next hbr =>
    left
    simp only [Bool.and_eq_true] at hbr
    exact cl_callProducer g
      (s := { stopWriting { s with dataBuffer := [], offset := 0 } with producerPaused := false })
      (cl_of_producer hbr.1) _
  · split
    · exact Or.inr rfl
    next hd =>
      left
      simp only [Bool.not_eq_true] at hd
      split
      · exact cl_of_open hd
      · exact cl_of_open hd

theorem cl_doWrite {cb : Cb} (g : CLGood cb) {s} (h : CL s) (a) :
    CL (doWrite cb a s).1 ∨ (doWrite cb a s).2 ≠ .none := by
  rw [doWrite_eq]
  split
  · exact Or.inr (by simp)
  · split
    · rcases cl_drained g (acceptSt (merge s) _) with h1 | h1
      · exact Or.inl h1
      · exact Or.inr (by rw [h1]; simp)
    · exact Or.inl (cl_acceptSt (cl_merge h) _)

theorem cl_tick {cb : Cb} (g : CLGood cb) {s} (h : CL s) (a) : CL (tick cb a s) := by
  unfold tick
  split
  · have := cl_doWrite g h a
    revert this
    generalize doWrite cb a s = r
    obtain ⟨t, ret⟩ := r
    intro this
    cases ret
    · rcases this with h1 | h1
      · exact h1
      · exact absurd rfl h1
    · exact cl_reactorLost g _ _
    · exact cl_reactorLost g _ _
  · exact h

theorem cl_applyP {cb : Cb} (g : CLGood cb) {s} (h : CL s) (op) : CL (applyP cb op s) := by
  cases op with
  | write d => exact cl_write h d
  | writeSeq ds => exact cl_writeSeq h ds
  | unregister => exact cl_unregister s
  | lose => exact cl_loseConnection g h
  | loseWrite => exact cl_of_writer rfl

theorem cl_runScript {cb : Cb} (g : CLGood cb) (ops) {s} (h : CL s) : CL (runScript cb ops s) := by
  unfold runScript
  induction ops generalizing s with
  | nil => exact h
  | cons op ops ih => exact ih (cl_applyP g h op)

theorem cl_popScript {s} (h : CL s) (pid k) : CL (popScript pid k s).2 := by
  unfold popScript
  split
  · exact h
  · split
    · split
      · exact h
      · cframe h
    · split
      · exact h
      · cframe h
    · exact h

theorem clGood_cbAt (d : Nat) : CLGood (cbAt d) := by
  refine ⟨?_, mono_cbAt d⟩
  induction d with
  | zero =>
    intro pid k s h
    have := cl_popScript h pid k
    simp only [cbAt]
    split
    · exact this
    · cframe this
  | succ d ih =>
    intro pid k s h
    simp only [cbAt]
    exact cl_runScript ⟨ih, mono_cbAt d⟩ _ (cl_popScript h pid k)

theorem cl_applyOp {cb : Cb} (g : CLGood cb) {s} (h : CL s) (op) : CL (applyOp cb op s) := by
  cases op with
  | write d => exact cl_write h d
  | writeSeq ds => exact cl_writeSeq h ds
  | register pid st => exact cl_register g h pid st
  | unregister => exact cl_unregister s
  | lose => exact cl_loseConnection g h
  | loseWrite => exact cl_of_writer rfl
  | pauseT => exact (by cframe h : CL (pauseT s))
  | resumeT =>
    show CL (resumeT s)
    unfold resumeT; split
    · cframe h
    · exact h
  | tick a => exact cl_tick g h a
  | extLost =>
    simp only [applyOp]
    split
    · exact h
    · exact cl_reactorLost g _ _
  | stopConsuming => exact cl_loseConnection g (cl_unregister s)

theorem cl_run {cb : Cb} (g : CLGood cb) (ops) {s} (h : CL s) : CL (run cb ops s) := by
  unfold run
  induction ops generalizing s with
  | nil => exact h
  | cons op ops ih => exact ih (cl_applyOp g h op)

theorem cl_reachable (d sl bs ps ops) : CL (run (cbAt d) ops (init sl bs ps)) :=
  cl_run (clGood_cbAt d) ops (cl_of_open rfl)

end TwistedProps.C14
