import TwistedModel.Transport.FDPy
namespace TwistedProps.C14
open Twisted.Transport.FD

/-- `writeSequence` as it is does to the transport exactly what the model's `writeSeq` does with the elements of the
    iterable - whatever kind of iterable it is (list / tuple, other collection, one-shot iterator or generator). -/
theorem writeSequencePy_eq (cb : Cb) (v : Iovec) (s : St) :
    writeSequencePy cb v s = writeSeq cb v.items s := by
  cases v with
  | seq ds =>
    cases ds <;> simp [writeSequencePy, writeSequenceBody, writeSeq, Iovec.isListOrTuple, Iovec.traverse, Iovec.truthy,
      Iovec.items]
  | coll ds =>
    cases ds <;> simp [writeSequencePy, writeSequenceBody, writeSeq, Iovec.isListOrTuple, Iovec.traverse, Iovec.truthy,
      Iovec.items]
  | once ds =>
    cases ds <;> simp [writeSequencePy, writeSequenceBody, writeSeq, Iovec.isListOrTuple, Iovec.traverse, Iovec.truthy,
      Iovec.items]

theorem applyPy_eq (cb : Cb) (op : PyOp) (s : St) : applyPy cb op s = applyOp cb op.abs s := by
  cases op with
  | base op => rfl
  | writeSeqIt v => simp [applyPy, PyOp.abs, applyOp, writeSequencePy_eq]
  | registerFlag pid f => rfl

theorem runPy_eq (cb : Cb) (ops : List PyOp) (s : St) : runPy cb ops s = run cb (ops.map PyOp.abs) s := by
  induction ops generalizing s with
  | nil => rfl
  | cons op ops ih => simp [runPy, run, List.foldl_cons, applyPy_eq] at ih ⊢; exact ih _

/-- Before the repair (no `list(iovec)`): a one-shot iterable was exhausted by the type-check loop, so a connected, idle
    transport recorded the bytes as written (ghost), buffered nothing, and still asked to be polled for writing. -/
theorem writeSequencePyOld_counterexample :
    let s := writeSequencePyOld (cbAt 0) (.once [[1, 2], [3]]) (init 8 4 [])
    s.acc = [1, 2, 3] ∧ s.unsent = [] ∧ s.sent = [] ∧ s.writer = true := by decide

example : (writeSequencePy (cbAt 0) (.once [[1, 2], [3]]) (init 8 4 [])).unsent = [1, 2, 3] := by decide
example : (writeSequencePy (cbAt 0) (.once []) (init 8 4 [])).writer = false := by decide
example : (writeSequencePy (cbAt 0) (.coll [[], [7]]) (init 8 4 [])).unsent = [7] := by decide

end TwistedProps.C14
