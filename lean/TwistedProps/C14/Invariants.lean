import TwistedModel.Transport.FD
/-!
C14 — state invariants of the transport model and their preservation (lemmas for `TwistedProps/C14.lean`).

`Core` (buffer/ghost consistency `Buf`, the pause invariant `Paused`, the flag invariant `Flag`) and `W`
(pending ⇒ in the writer set) are state invariants.  Every transport operation preserves them *provided the
producer callbacks do* (`Pres`, `Good` — the callbacks are an arbitrary function argument `cb`); `cbAt d`
(scripts of re-entrant transport calls, `d` levels deep) satisfies that contract by induction on `d`;
histories by induction on the list of operations.
-/
open Twisted.Transport.FD
namespace TwistedProps.C14

def OkEv : Ev → Prop
  | .lost .done pending pull wd _ => pending = 0 ∧ (pull = true → wd = true)
  | _ => True

structure Buf (s : St) : Prop where
  tempLen : s.tempLen = s.temp.flatten.length
  offLe : s.offset ≤ s.dataBuffer.length
  stream : s.sent ++ s.unsent = s.acc
  wd : s.writeDisconnected = true → s.dataBuffer = [] ∧ s.tempLen = 0
  nonempty : s.dataBuffer ≠ [] → s.offset < s.dataBuffer.length ∨ 0 < s.tempLen
  closes : ∀ e ∈ s.log, OkEv e
  conn : s.connected = !s.disconnected

def Paused (s : St) : Prop :=
  s.connected = true → s.producer.isSome → s.streaming = true → s.bufferSize < s.unsent.length →
    s.lastCall = some .pause

def Flag (s : St) : Prop :=
  s.producer.isSome → s.lastCall = some .pause → s.producerPaused = true ∧ s.unsent ≠ []

structure Core (s : St) : Prop where
  buf : Buf s
  paused : Paused s
  flag : Flag s

def Pres (P : St → Prop) (cb : Cb) : Prop := ∀ pid k s, P s → P (cb pid k s)

theorem Buf.frame {s t : St} (h : Buf s)
    (h1 : t.tempLen = s.tempLen) (h2 : t.temp = s.temp) (h3 : t.offset = s.offset)
    (h4 : t.dataBuffer = s.dataBuffer) (h5 : t.sentChunks = s.sentChunks) (h6 : t.accChunks = s.accChunks)
    (h7 : t.writeDisconnected = s.writeDisconnected) (h8 : t.connected = s.connected)
    (h9 : t.disconnected = s.disconnected) (h14 : t.log = s.log) : Buf t := by
  have hu : t.unsent = s.unsent := by simp [St.unsent, h2, h3, h4]
  have hs : t.sent = s.sent := by simp [St.sent, h5]
  have ha : t.acc = s.acc := by simp [St.acc, h6]
  obtain ⟨a, b, c, d, e, f, g⟩ := h
  constructor <;> simp only [h1, h2, h3, h4, h7, h8, h9, h14, hu, hs, ha] <;> assumption

theorem Paused.frame {s t : St} (h : Paused s) (h2 : t.temp = s.temp) (h3 : t.offset = s.offset)
    (h4 : t.dataBuffer = s.dataBuffer) (h8 : t.connected = s.connected) (h10 : t.producer = s.producer)
    (h11 : t.streaming = s.streaming) (h12 : t.lastCall = s.lastCall) (h15 : t.bufferSize = s.bufferSize) :
    Paused t := by
  have hu : t.unsent = s.unsent := by simp [St.unsent, h2, h3, h4]
  unfold Paused at *
  simp only [h8, h10, h11, h12, h15, hu]; exact h

theorem Flag.frame {s t : St} (h : Flag s) (h2 : t.temp = s.temp) (h3 : t.offset = s.offset)
    (h4 : t.dataBuffer = s.dataBuffer) (h10 : t.producer = s.producer)
    (h12 : t.lastCall = s.lastCall) (h13 : t.producerPaused = s.producerPaused) : Flag t := by
  have hu : t.unsent = s.unsent := by simp [St.unsent, h2, h3, h4]
  unfold Flag at *
  simp only [h10, h12, h13, hu]; exact h

macro "bframe " h:term : tactic => `(tactic| exact Buf.frame $h rfl rfl rfl rfl rfl rfl rfl rfl rfl rfl)
macro "pframe " h:term : tactic => `(tactic| exact Paused.frame $h rfl rfl rfl rfl rfl rfl rfl rfl)
macro "fframe " h:term : tactic => `(tactic| exact Flag.frame $h rfl rfl rfl rfl rfl rfl)
macro "frame " h:term : tactic =>
  `(tactic| exact ⟨by bframe (Core.buf $h), by pframe (Core.paused $h), by fframe (Core.flag $h)⟩)

theorem core_init (sl bs ps) : Core (init sl bs ps) := by
  refine ⟨?_, ?_, ?_⟩
  · constructor <;> simp [init, St.sent, St.acc, St.unsent]
  · simp [Paused, init]
  · simp [Flag, init]

theorem core_startWriting {s} (h : Core s) : Core (startWriting s) := by frame h
theorem core_stopWriting {s} (h : Core s) : Core (stopWriting s) := by frame h
theorem core_startReading {s} (h : Core s) : Core (startReading s) := by frame h
theorem core_stopReading {s} (h : Core s) : Core (stopReading s) := by frame h
theorem core_loseWrite {s} (h : Core s) : Core (loseWriteConnection s) := by frame h
theorem core_pauseT {s} (h : Core s) : Core (pauseT s) := by frame h
theorem core_resumeT {s} (h : Core s) : Core (resumeT s) := by
  unfold resumeT; split
  · frame h
  · exact h

theorem buf_emit {s e} (h : Buf s) (he : OkEv e) : Buf (emit e s) := by
  refine { h with closes := ?_ }
  intro e' he'
  simp only [emit, List.mem_cons] at he'
  rcases he' with rfl | he'
  · exact he
  · exact h.closes _ he'

theorem core_emit {s e} (h : Core s) (he : OkEv e) : Core (emit e s) :=
  ⟨buf_emit h.buf he, by pframe h.paused, by fframe h.flag⟩

/-! ### basic facts about the buffer -/

theorem unsent_length {s} (h : Buf s) : s.unsent.length = s.dataBuffer.length - s.offset + s.tempLen := by
  simp [St.unsent, h.tempLen]

theorem unsent_ne_of_full {s} (h : Buf s) (hf : s.bufferSize < s.dataBuffer.length + s.tempLen) : s.unsent ≠ [] := by
  intro hu
  have hl := unsent_length h
  rw [hu] at hl
  simp at hl
  have hne : s.dataBuffer ≠ [] := by
    intro h0; rw [h0] at hf; simp at hf; omega
  have := h.nonempty hne
  omega

/-! ### producer callbacks -/

def preCall (pid : Nat) (k : Kind) (s : St) : St :=
  { s with log := Ev.call pid k :: s.log,
           lastCall := if s.producer = some pid then some k else s.lastCall }

theorem callPid_eq (cb : Cb) (pid k s) : callPid cb pid k s = cb pid k (preCall pid k s) := rfl

theorem buf_preCall {s pid k} (h : Buf s) : Buf (preCall pid k s) := by
  have : Buf (emit (Ev.call pid k) s) := buf_emit h trivial
  bframe this

/-- a callback other than `pause` may be made when the buffer is not over the limit -/
theorem core_preCall_low {s pid k} (h : Core s) (hk : k ≠ .pause)
    (hlow : s.connected = true → s.unsent.length ≤ s.bufferSize) : Core (preCall pid k s) := by
  refine ⟨buf_preCall h.buf, ?_, ?_⟩
  · intro hc hp hs hb
    have := hlow hc
    have hb' : s.bufferSize < s.unsent.length := hb
    omega
  · intro hp hl
    simp only [preCall] at hp hl
    split at hl
    · simp at hl; exact absurd hl hk
    · exact h.flag hp hl

theorem core_preCall_pause {s pid} (hb : Buf s) (hpa : s.producer = some pid ∨ Paused s)
    (hpp : s.producerPaused = true) (hne : s.unsent ≠ []) :
    Core (preCall pid .pause s) := by
  refine ⟨buf_preCall hb, ?_, ?_⟩
  · intro hc hp hs hbs
    simp only [preCall]
    split
    · rfl
    · rcases hpa with h | h
      · contradiction
      · exact h hc hp hs hbs
  · intro hp hl
    exact ⟨hpp, hne⟩


theorem callProducer_eq (cb : Cb) {k s pid} (h : s.producer = some pid) :
    callProducer cb k s = callPid cb pid k s := by
  simp [callProducer, h]

theorem core_maybePause {cb : Cb} (hcb : Pres Core cb) {s} (hb : Buf s) (hf : Flag s)
    (hpa : (s.producer.isSome && s.streaming) = false → Paused s) :
    Core (maybePauseProducer cb s) := by
  unfold maybePauseProducer
  split
  next hps =>
    simp only [Bool.and_eq_true] at hps
    split
    next hfull =>
      simp only [isSendBufferFull, decide_eq_true_eq] at hfull
      obtain ⟨pid, hpid⟩ := Option.isSome_iff_exists.mp hps.1
      have ht : ({ s with producerPaused := true } : St).producer = some pid := hpid
      rw [callProducer_eq cb ht, callPid_eq]
      apply hcb
      apply core_preCall_pause
      · bframe hb
      · exact Or.inl ht
      · rfl
      · exact unsent_ne_of_full (s := { s with producerPaused := true }) (by bframe hb) (by simpa using hfull)
    next hfull =>
      simp only [isSendBufferFull, decide_eq_true_eq, Nat.not_lt] at hfull
      refine ⟨hb, ?_, hf⟩
      intro _ _ _ hlt
      have := unsent_length hb
      omega
  next hps =>
    simp only [Bool.not_eq_true] at hps
    exact ⟨hb, hpa hps, hf⟩

/-- the buffering step of `write` / `writeSequence` -/
def appendSt (s : St) (ds : List Bytes) : St :=
  { s with temp := s.temp ++ ds, tempLen := s.tempLen + (ds.map List.length).sum,
           accChunks := ds.flatten :: s.accChunks }

theorem unsent_appendSt (s ds) : (appendSt s ds).unsent = s.unsent ++ ds.flatten := by
  simp [appendSt, St.unsent]

theorem buf_appendSt {s} (h : Buf s) (hwd : s.writeDisconnected = false) (ds) : Buf (appendSt s ds) := by
  constructor
  · simp [appendSt, h.tempLen, List.length_flatten]
  · exact h.offLe
  · have hs : (appendSt s ds).sent = s.sent := rfl
    rw [unsent_appendSt, ← List.append_assoc, hs, h.stream]; simp [appendSt, St.acc]
  · intro hw; simp [appendSt, hwd] at hw
  · intro hne
    rcases h.nonempty hne with h1 | h1
    · exact Or.inl h1
    · right; simp only [appendSt]; omega
  · exact h.closes
  · exact h.conn

theorem flag_appendSt {s} (h : Flag s) (ds) : Flag (appendSt s ds) := by
  intro hp hl
  obtain ⟨a, b⟩ := h hp hl
  refine ⟨a, ?_⟩
  rw [unsent_appendSt]
  intro h0
  exact b (List.append_eq_nil_iff.mp h0).1

theorem paused_of_not {s} (hps : (s.producer.isSome && s.streaming) = false) : Paused s := by
  intro _ hp hs _
  simp [hp, hs] at hps

theorem core_append {cb : Cb} (hcb : Pres Core cb) {s} (h : Core s) (hwd : s.writeDisconnected = false) (ds) :
    Core (startWriting (maybePauseProducer cb (appendSt s ds))) := by
  apply core_startWriting
  exact core_maybePause hcb (buf_appendSt h.buf hwd ds) (flag_appendSt h.flag ds) paused_of_not

theorem write_eq (cb : Cb) (d s) : write cb d s =
    if !s.connected || s.writeDisconnected then s else if d.isEmpty then s
    else startWriting (maybePauseProducer cb (appendSt s [d])) := by
  simp [write, appendSt]

theorem writeSeq_eq (cb : Cb) (ds s) : writeSeq cb ds s =
    if !s.connected || ds.isEmpty || s.writeDisconnected then s
    else startWriting (maybePauseProducer cb (appendSt s ds)) := by
  simp [writeSeq, appendSt]

theorem core_write {cb : Cb} (hcb : Pres Core cb) {s} (h : Core s) (d) : Core (write cb d s) := by
  rw [write_eq]
  split
  · exact h
  next hc =>
    split
    · exact h
    · simp only [Bool.or_eq_true, Bool.not_eq_true', not_or, Bool.not_eq_false, Bool.not_eq_true] at hc
      exact core_append hcb h hc.2 _

theorem core_writeSeq {cb : Cb} (hcb : Pres Core cb) {s} (h : Core s) (ds) : Core (writeSeq cb ds s) := by
  rw [writeSeq_eq]
  split
  · exact h
  next hc =>
    simp only [Bool.or_eq_true, Bool.not_eq_true', not_or, Bool.not_eq_false, Bool.not_eq_true] at hc
    exact core_append hcb h hc.2 _


theorem core_noProducer {s} (h : Core s) : Core { s with producer := none } :=
  ⟨by bframe h.buf, by intro _ hp; simp at hp, by intro hp; simp at hp⟩

theorem core_unregister {s} (h : Core s) : Core (unregisterProducer s) := by
  unfold unregisterProducer
  simp only
  split
  · exact core_startWriting (core_noProducer h)
  · exact core_noProducer h

def pull (s : St) : Bool := s.producer.isSome && !s.streaming

theorem core_lostPre {s} (h : Core s) (pid) :
    Core (preCall pid .stop { s with disconnected := true, connected := false }) := by
  have h1 : Core { s with disconnected := true, connected := false } := by
    refine ⟨{ h.buf with conn := rfl }, ?_, by fframe h.flag⟩
    intro hc; simp at hc
  apply core_preCall_low h1 (by decide)
  intro hc; simp at hc

theorem core_connectionLost {cb : Cb} (hcb : Pres Core cb) {s} (h : Core s) : Core (connectionLost cb s) := by
  unfold connectionLost
  simp only
  apply core_stopWriting
  apply core_stopReading
  have h1 : Core { s with disconnected := true, connected := false } := by
    refine ⟨{ h.buf with conn := rfl }, ?_, by fframe h.flag⟩
    intro hc; simp at hc
  split
  next pid hpid =>
    apply core_noProducer
    have := callProducer_eq cb (k := .stop) (s := { s with disconnected := true, connected := false }) (pid := pid) hpid
    rw [this, callPid_eq]
    apply hcb
    apply core_preCall_low h1 (by decide)
    intro hc; simp at hc
  · exact h1

theorem okEv_lostEv_done {s} (hu : s.unsent = []) (hp : (s.producer.isSome && !s.streaming) = true →
    s.writeDisconnected = true) : OkEv (lostEv .done s) := by
  simp only [lostEv, OkEv, hu, List.length_nil, true_and]
  exact hp

theorem unsent_nil_of_wd {s} (h : Buf s) (hw : s.writeDisconnected = true) : s.unsent = [] := by
  have hl := unsent_length h
  obtain ⟨a, b⟩ := h.wd hw
  rw [a, b] at hl
  simpa using hl

theorem core_loseEmit {s} (h : Core s) (hw : s.writeDisconnected = true) :
    Core (emit (lostEv .done (stopWriting (stopReading s))) (stopWriting (stopReading s))) := by
  apply core_emit (core_stopWriting (core_stopReading h))
  apply okEv_lostEv_done (s := stopWriting (stopReading s))
  · exact unsent_nil_of_wd (s := stopWriting (stopReading s)) (by bframe h.buf) hw
  · intro _; exact hw

theorem core_reactorEmit {s} (h : Core s) (r) (hr : r = .done → s.unsent = [] ∧ pull s = false) :
    Core (emit (lostEv r (stopWriting (stopReading s))) (stopWriting (stopReading s))) := by
  apply core_emit (core_stopWriting (core_stopReading h))
  cases r
  · obtain ⟨a, b⟩ := hr rfl
    apply okEv_lostEv_done (s := stopWriting (stopReading s)) a
    intro hp
    have : pull s = true := hp
    rw [b] at this; cases this
  · trivial
  · trivial

theorem core_loseConnection {cb : Cb} (hcb : Pres Core cb) {s} (h : Core s) : Core (loseConnection cb s) := by
  unfold loseConnection
  split
  · split
    next hw =>
      simp only
      apply core_connectionLost hcb
      apply core_emit (core_stopWriting (core_stopReading h))
      apply okEv_lostEv_done (s := stopWriting (stopReading s))
      · exact unsent_nil_of_wd (s := stopWriting (stopReading s)) (by bframe h.buf) hw
      · intro _; exact hw
    · frame h
  · exact h

theorem core_register {cb : Cb} (hcb : Pres Core cb) {s} (h : Core s) (pid st) :
    Core (registerProducer cb pid st s) := by
  unfold registerProducer
  split
  · exact core_emit h trivial
  next hnone =>
    simp only [Bool.not_eq_true, Option.isSome_eq_false_iff, Option.isNone_iff_eq_none] at hnone
    split
    · rw [callPid_eq]
      apply hcb
      refine ⟨buf_preCall h.buf, ?_, ?_⟩
      · intro _ hp; simp [preCall, hnone] at hp
      · intro hp; simp [preCall, hnone] at hp
    · simp only
      have hb : Buf { s with producer := some pid, streaming := st, lastCall := none, regShut := s.writeDisconnected } := by bframe h.buf
      have hf : Flag { s with producer := some pid, streaming := st, lastCall := none, regShut := s.writeDisconnected } := by
        intro _ hl; simp at hl
      cases st
      · -- pull producer: resumeProducing at once
        have hc : Core (callProducer cb .resume { s with producer := some pid, streaming := false, lastCall := none, regShut := s.writeDisconnected }) := by
          rw [callProducer_eq cb (pid := pid) rfl, callPid_eq]
          apply hcb
          refine ⟨buf_preCall hb, ?_, ?_⟩
          · intro _ _ hs; simp [preCall] at hs
          · intro _ hl; simp [preCall] at hl
        simpa using core_maybePause hcb hc.buf hc.flag (fun _ => hc.paused)
      · simpa using core_maybePause hcb hb hf (fun hn => by simp at hn)


/-! ### doWrite -/

theorem unsent_merge (s : St) : (merge s).unsent = s.unsent := by
  unfold merge; split <;> simp [St.unsent]

theorem core_merge {s} (h : Core s) : Core (merge s) := by
  have hu := unsent_merge s
  unfold merge at hu ⊢
  split at hu
  next hc =>
    simp only [hc, if_true]
    refine ⟨?_, ?_, ?_⟩
    · constructor
      · simp
      · simp
      · rw [hu]; exact h.buf.stream
      · intro hw
        obtain ⟨a, b⟩ := h.buf.wd hw
        have : s.temp.flatten = [] := by
          have := h.buf.tempLen; rw [b] at this; exact List.eq_nil_of_length_eq_zero this.symm
        simp [a, this]
      · intro hne; left; exact List.length_pos_iff.mpr hne
      · exact h.buf.closes
      · exact h.buf.conn
    · intro hc hp hs hb; rw [hu] at hb; exact h.paused hc hp hs hb
    · intro hp hl; rw [hu]; exact h.flag hp hl
  next hc => simp only [hc, if_false]; exact h

/-- the state after the OS took `l` of the offered bytes -/
def acceptSt (s : St) (l : Nat) : St :=
  { s with offset := s.offset + l, sentChunks := (s.dataBuffer.drop s.offset).take l :: s.sentChunks,
           log := Ev.os (s.dataBuffer.drop s.offset) l :: s.log }

theorem stream_acceptSt {s} (h : Buf s) (l) :
    (acceptSt s l).sent ++ (acceptSt s l).unsent = (acceptSt s l).acc := by
  have ha : (acceptSt s l).acc = s.acc := rfl
  rw [ha, ← h.stream]
  simp only [acceptSt, St.sent, St.unsent, List.reverse_cons, List.flatten_append, List.flatten_cons,
    List.flatten_nil, List.append_nil, List.append_assoc]
  congr 1
  rw [← List.append_assoc]
  congr 1
  rw [← List.drop_drop]
  exact List.take_append_drop l _

theorem unsent_acceptSt_length {s} (l) : (acceptSt s l).unsent.length ≤ s.unsent.length := by
  simp only [acceptSt, St.unsent, List.length_append, List.length_drop]; omega

/-- everything but `nonempty` and `Flag` survives a partial write unconditionally -/
theorem core_accept_partial {s} (h : Core s) {l} (hl : l ≤ s.dataBuffer.length - s.offset)
    (hnd : ¬ (s.offset + l = s.dataBuffer.length ∧ s.tempLen = 0)) : Core (acceptSt s l) := by
  have hoff := h.buf.offLe
  have hne : (acceptSt s l).unsent ≠ [] := by
    intro h0
    have := congrArg List.length h0
    simp only [acceptSt, St.unsent, List.length_append, List.length_drop, List.length_nil] at this
    have := h.buf.tempLen
    omega
  refine ⟨?_, ?_, ?_⟩
  · constructor
    · exact h.buf.tempLen
    · show s.offset + l ≤ s.dataBuffer.length; omega
    · exact stream_acceptSt h.buf l
    · exact h.buf.wd
    · intro _
      show s.offset + l < s.dataBuffer.length ∨ 0 < s.tempLen
      omega
    · intro e he
      simp only [acceptSt, List.mem_cons] at he
      rcases he with rfl | he
      · trivial
      · exact h.buf.closes _ he
    · exact h.buf.conn
  · intro hc hp hs hb
    have := unsent_acceptSt_length (s := s) l
    have hb' : s.bufferSize < (acceptSt s l).unsent.length := hb
    exact h.paused hc hp hs (by omega)
  · intro hp hl'
    exact ⟨(h.flag hp hl').1, hne⟩

/-- what `drained` needs of the state in which `offset == len(dataBuffer) and not _tempDataLen` was found -/
structure Drainable (s : St) : Prop where
  tempLen : s.tempLen = 0
  temp : s.temp.flatten = []
  stream : s.sent = s.acc
  closes : ∀ e ∈ s.log, OkEv e
  conn : s.connected = !s.disconnected
  flag : s.producer.isSome → s.lastCall = some .pause → s.producerPaused = true

theorem core_drained {cb : Cb} (hcb : Pres Core cb) {s} (h : Drainable s) :
    Core (drained cb s).1 ∧
    ((drained cb s).2 = .done → (drained cb s).1.unsent = [] ∧ pull (drained cb s).1 = false ∧
      (drained cb s).1.writer = false) := by
  have hb0 : Buf (stopWriting { s with dataBuffer := [], offset := 0 }) := by
    constructor
    · simp [stopWriting, h.tempLen, h.temp]
    · simp [stopWriting]
    · simp only [St.unsent, stopWriting, List.drop_nil, h.temp, List.append_nil]; exact h.stream
    · intro _; exact ⟨rfl, h.tempLen⟩
    · intro hne; simp [stopWriting] at hne
    · exact h.closes
    · exact h.conn
  have hu0 : (stopWriting { s with dataBuffer := [], offset := 0 }).unsent = [] := by
    simp [St.unsent, stopWriting, h.temp]
  have hp0 : Paused (stopWriting { s with dataBuffer := [], offset := 0 }) := by
    intro _ _ _ hb; rw [hu0] at hb; simp at hb
  unfold drained
  simp only
  split
  next hbr =>
    simp only [Bool.and_eq_true, Bool.or_eq_true, Bool.not_eq_true'] at hbr
    refine ⟨?_, by simp⟩
    obtain ⟨pid, hpid⟩ := Option.isSome_iff_exists.mp hbr.1
    have := callProducer_eq cb (k := .resume)
      (s := { stopWriting { s with dataBuffer := [], offset := 0 } with producerPaused := false }) (pid := pid) hpid
    rw [this, callPid_eq]
    apply hcb
    refine ⟨buf_preCall (by bframe hb0), ?_, ?_⟩
    · intro _ _ _ hb
      have : (preCall pid .resume { stopWriting { s with dataBuffer := [], offset := 0 } with producerPaused := false }).unsent = [] := hu0
      rw [this] at hb; simp at hb
    · intro _ hl
      simp only [preCall] at hl
      rw [if_pos hpid] at hl
      simp at hl
  next hbr =>
    have hf0 : Flag (stopWriting { s with dataBuffer := [], offset := 0 }) := by
      intro hp hl
      exfalso
      apply hbr
      have := h.flag hp hl
      simp only [stopWriting] at hp ⊢
      simp [hp, this]
    split
    · refine ⟨⟨hb0, hp0, hf0⟩, fun _ => ⟨hu0, ?_, rfl⟩⟩
      simp only [Bool.and_eq_true, Bool.or_eq_true, Bool.not_eq_true', not_and, not_or] at hbr
      simp only [pull]
      cases hp : (stopWriting { s with dataBuffer := [], offset := 0 }).producer.isSome
      · rfl
      · have := (hbr hp).1
        simp only [Bool.not_eq_false] at this
        simp [this]
    · split
      · refine ⟨?_, by simp⟩
        refine core_emit (e := .halfClose) ?_ trivial
        refine ⟨{ hb0 with wd := fun _ => ⟨rfl, h.tempLen⟩ }, by pframe hp0, by fframe hf0⟩
      · exact ⟨⟨hb0, hp0, hf0⟩, by simp⟩


theorem doWrite_eq (cb : Cb) (a s) : doWrite cb a s =
    match acceptLen a ((merge s).dataBuffer.drop (merge s).offset).length with
    | none => (emit (.osErr ((merge s).dataBuffer.drop (merge s).offset)) (merge s), .err)
    | some l =>
      if ((acceptSt (merge s) l).offset == (acceptSt (merge s) l).dataBuffer.length
          && (acceptSt (merge s) l).tempLen == 0) then drained cb (acceptSt (merge s) l)
      else (acceptSt (merge s) l, .none) := rfl

theorem acceptLen_le {a n l} (h : acceptLen a n = some l) : l ≤ n := by
  cases a <;> simp [acceptLen] at h <;> omega

theorem drainable_accept {s} (h : Core s) {l} (hd : s.offset + l = s.dataBuffer.length) (ht : s.tempLen = 0) :
    Drainable (acceptSt s l) := by
  have hflat : s.temp.flatten = [] := by
    have := h.buf.tempLen; rw [ht] at this; exact List.eq_nil_of_length_eq_zero this.symm
  constructor
  · exact ht
  · exact hflat
  · have := stream_acceptSt h.buf l
    have hu : (acceptSt s l).unsent = [] := by
      simp only [acceptSt, St.unsent, hflat, List.append_nil, hd]
      exact List.drop_length
    rw [hu, List.append_nil] at this
    exact this
  · intro e he
    simp only [acceptSt, List.mem_cons] at he
    rcases he with rfl | he
    · trivial
    · exact h.buf.closes _ he
  · exact h.buf.conn
  · intro hp hl; exact (h.flag hp hl).1

theorem core_doWrite {cb : Cb} (hcb : Pres Core cb) {s} (h : Core s) (a) :
    Core (doWrite cb a s).1 ∧
    ((doWrite cb a s).2 = .done → (doWrite cb a s).1.unsent = [] ∧ pull (doWrite cb a s).1 = false ∧
      (doWrite cb a s).1.writer = false) := by
  have hm := core_merge h
  rw [doWrite_eq]
  split
  · exact ⟨core_emit hm trivial, by simp⟩
  next l hl =>
    have hle := acceptLen_le hl
    simp only [List.length_drop] at hle
    split
    next hc =>
      simp only [Bool.and_eq_true, beq_iff_eq] at hc
      exact core_drained hcb (drainable_accept hm hc.1 hc.2)
    next hc =>
      simp only [Bool.and_eq_true, beq_iff_eq] at hc
      exact ⟨core_accept_partial hm hle hc, by simp⟩

theorem core_reactorLost {cb : Cb} (hcb : Pres Core cb) {s} (h : Core s) (r)
    (hr : r = .done → s.unsent = [] ∧ pull s = false) : Core (reactorLost cb r s) := by
  unfold reactorLost
  simp only
  apply core_connectionLost hcb
  apply core_emit (core_stopWriting (core_stopReading h))
  cases r
  · obtain ⟨a, b⟩ := hr rfl
    apply okEv_lostEv_done (s := stopWriting (stopReading s)) a
    intro hp
    have : pull s = true := hp
    rw [b] at this; cases this
  · trivial
  · trivial

theorem core_tick {cb : Cb} (hcb : Pres Core cb) {s} (h : Core s) (a) : Core (tick cb a s) := by
  unfold tick
  split
  · have := core_doWrite hcb h a
    revert this
    generalize doWrite cb a s = r
    obtain ⟨t, ret⟩ := r
    intro ⟨hc, hd⟩
    cases ret
    · exact hc
    · exact core_reactorLost hcb hc _ (fun _ => ⟨(hd rfl).1, (hd rfl).2.1⟩)
    · exact core_reactorLost hcb hc _ (fun hr => by cases hr)
  · exact h

theorem core_applyP {cb : Cb} (hcb : Pres Core cb) {s} (h : Core s) (op) : Core (applyP cb op s) := by
  cases op
  · exact core_write hcb h _
  · exact core_writeSeq hcb h _
  · exact core_unregister h
  · exact core_loseConnection hcb h
  · exact core_loseWrite h

theorem core_runScript {cb : Cb} (hcb : Pres Core cb) (ops) {s} (h : Core s) : Core (runScript cb ops s) := by
  unfold runScript
  induction ops generalizing s with
  | nil => exact h
  | cons op ops ih => exact ih (core_applyP hcb h op)

theorem core_popScript {s} (h : Core s) (pid k) : Core (popScript pid k s).2 := by
  unfold popScript
  split
  · exact h
  · split
    · split
      · exact h
      · frame h
    · split
      · exact h
      · frame h
    · exact h

theorem pres_cbAt (d : Nat) : Pres Core (cbAt d) := by
  induction d with
  | zero =>
    intro pid k s h
    have := core_popScript h pid k
    simp only [cbAt]
    split
    · exact this
    · frame this
  | succ d ih =>
    intro pid k s h
    simp only [cbAt]
    exact core_runScript ih _ (core_popScript h pid k)

theorem core_applyOp {cb : Cb} (hcb : Pres Core cb) {s} (h : Core s) (op) : Core (applyOp cb op s) := by
  cases op
  · exact core_write hcb h _
  · exact core_writeSeq hcb h _
  · exact core_register hcb h _ _
  · exact core_unregister h
  · exact core_loseConnection hcb h
  · exact core_loseWrite h
  · exact core_pauseT h
  · exact core_resumeT h
  · exact core_tick hcb h _
  · simp only [applyOp]
    split
    · exact h
    · exact core_reactorLost hcb h _ (fun hr => by cases hr)
  · exact core_loseConnection hcb (core_unregister h)

theorem core_run {cb : Cb} (hcb : Pres Core cb) (ops) {s} (h : Core s) : Core (run cb ops s) := by
  unfold run
  induction ops generalizing s with
  | nil => exact h
  | cons op ops ih => exact ih (core_applyOp hcb h op)

/-- every state reachable by any history, any OS behaviour, any producer behaviour, any nesting depth -/
theorem core_reachable (d sl bs ps ops) : Core (run (cbAt d) ops (init sl bs ps)) :=
  core_run (pres_cbAt d) ops (core_init sl bs ps)


/-! ### no stuck data: pending bytes on a connected transport keep it in the reactor's writer set -/

def W (s : St) : Prop := s.connected = true → s.unsent ≠ [] → s.writer = true

def Dead (s : St) : Prop := s.disconnected = true

structure WI (s : St) : Prop where
  core : Core s
  w : W s

structure Good (cb : Cb) : Prop where
  core : Pres Core cb
  wi : Pres WI cb
  dead : ∀ pid k s, Core s → Dead s → Dead (cb pid k s)

theorem W.frame {s t : St} (h : W s) (h2 : t.temp = s.temp) (h3 : t.offset = s.offset)
    (h4 : t.dataBuffer = s.dataBuffer) (h8 : t.connected = s.connected) (h9 : t.writer = s.writer) : W t := by
  have hu : t.unsent = s.unsent := by simp [St.unsent, h2, h3, h4]
  unfold W at *
  simp only [h8, h9, hu]; exact h

macro "wframe " h:term : tactic => `(tactic| exact W.frame $h rfl rfl rfl rfl rfl)

theorem w_of_writer {s} (h : s.writer = true) : W s := fun _ _ => h
theorem w_of_dead {s} (hc : Core s) (h : Dead s) : W s := by
  intro hcon
  have := hc.buf.conn
  rw [h, hcon] at this
  cases this
theorem w_of_empty {s} (h : s.unsent = []) : W s := fun _ hne => absurd h hne

theorem maybePause_cases (cb : Cb) {s} (hb : Buf s) :
    maybePauseProducer cb s = s ∨
    ∃ pid, maybePauseProducer cb s = cb pid .pause (preCall pid .pause { s with producerPaused := true }) ∧
      Core (preCall pid .pause { s with producerPaused := true }) := by
  unfold maybePauseProducer
  split
  next hps =>
    simp only [Bool.and_eq_true] at hps
    split
    next hfull =>
      right
      simp only [isSendBufferFull, decide_eq_true_eq] at hfull
      obtain ⟨pid, hpid⟩ := Option.isSome_iff_exists.mp hps.1
      have ht : ({ s with producerPaused := true } : St).producer = some pid := hpid
      refine ⟨pid, by rw [callProducer_eq cb ht, callPid_eq], ?_⟩
      apply core_preCall_pause
      · bframe hb
      · exact Or.inl ht
      · rfl
      · exact unsent_ne_of_full (s := { s with producerPaused := true }) (by bframe hb) (by simpa using hfull)
    · exact Or.inl rfl
  · exact Or.inl rfl

theorem w_maybePause {cb : Cb} (g : Good cb) {s} (hb : Buf s) (hw : W s) : W (maybePauseProducer cb s) := by
  rcases maybePause_cases cb hb with h | ⟨pid, h, hc⟩
  · rw [h]; exact hw
  · rw [h]; exact (g.wi _ _ _ ⟨hc, by wframe hw⟩).w

theorem dead_maybePause {cb : Cb} (g : Good cb) {s} (hb : Buf s) (hd : Dead s) : Dead (maybePauseProducer cb s) := by
  rcases maybePause_cases cb hb with h | ⟨pid, h, hc⟩
  · rw [h]; exact hd
  · rw [h]; exact g.dead _ _ _ hc hd

theorem wi_write {cb : Cb} (g : Good cb) {s} (h : WI s) (d) : WI (write cb d s) := by
  refine ⟨core_write g.core h.core d, ?_⟩
  rw [write_eq]
  split
  · exact h.w
  · split
    · exact h.w
    · exact w_of_writer rfl

theorem wi_writeSeq {cb : Cb} (g : Good cb) {s} (h : WI s) (ds) : WI (writeSeq cb ds s) := by
  refine ⟨core_writeSeq g.core h.core ds, ?_⟩
  rw [writeSeq_eq]
  split
  · exact h.w
  · exact w_of_writer rfl

theorem wi_unregister {s} (h : WI s) : WI (unregisterProducer s) := by
  refine ⟨core_unregister h.core, ?_⟩
  unfold unregisterProducer
  simp only
  split
  · exact w_of_writer rfl
  · wframe h.w

theorem dead_connectionLost {cb : Cb} (g : Good cb) {s} (h : Core s) : Dead (connectionLost cb s) := by
  unfold connectionLost
  simp only
  split
  next pid hpid =>
    have := callProducer_eq cb (k := .stop) (s := { s with disconnected := true, connected := false }) (pid := pid) hpid
    rw [this, callPid_eq]
    exact g.dead _ _ _ (core_lostPre h pid) rfl
  · rfl

theorem wi_connectionLost {cb : Cb} (g : Good cb) {s} (h : Core s) : WI (connectionLost cb s) :=
  ⟨core_connectionLost g.core h, w_of_dead (core_connectionLost g.core h) (dead_connectionLost g h)⟩

theorem wi_loseConnection {cb : Cb} (g : Good cb) {s} (h : WI s) : WI (loseConnection cb s) := by
  refine ⟨core_loseConnection g.core h.core, ?_⟩
  have hc := core_loseConnection g.core h.core
  unfold loseConnection at hc ⊢
  split
  next h1 =>
    split
    next hw =>
      simp only [h1, hw, if_true] at hc
      exact w_of_dead hc (dead_connectionLost g (core_loseEmit h.core hw))
    · exact w_of_writer rfl
  · exact h.w

theorem wi_loseWrite {s} (h : WI s) : WI (loseWriteConnection s) :=
  ⟨core_loseWrite h.core, w_of_writer rfl⟩

theorem wi_register {cb : Cb} (g : Good cb) {s} (h : WI s) (pid st) : WI (registerProducer cb pid st s) := by
  refine ⟨core_register g.core h.core pid st, ?_⟩
  unfold registerProducer
  split
  · wframe h.w
  next hnone =>
    simp only [Bool.not_eq_true, Option.isSome_eq_false_iff, Option.isNone_iff_eq_none] at hnone
    split
    · rw [callPid_eq]
      refine (g.wi _ _ _ ⟨?_, by wframe h.w⟩).w
      refine ⟨buf_preCall h.core.buf, ?_, ?_⟩
      · intro _ hp; simp [preCall, hnone] at hp
      · intro hp; simp [preCall, hnone] at hp
    · simp only
      have hb : Buf { s with producer := some pid, streaming := st, lastCall := none, regShut := s.writeDisconnected } := by bframe h.core.buf
      cases st
      · have hc : WI (callProducer cb .resume { s with producer := some pid, streaming := false, lastCall := none, regShut := s.writeDisconnected }) := by
          rw [callProducer_eq cb (pid := pid) rfl, callPid_eq]
          apply g.wi
          refine ⟨⟨buf_preCall hb, ?_, ?_⟩, by wframe h.w⟩
          · intro _ _ hs; simp [preCall] at hs
          · intro _ hl; simp [preCall] at hl
        simpa using w_maybePause g hc.core.buf hc.w
      · simpa using w_maybePause g hb (by wframe h.w)

theorem w_merge {s} (h : W s) : W (merge s) := by
  intro hc hne
  rw [unsent_merge] at hne
  have h1 : (merge s).connected = s.connected := by unfold merge; split <;> rfl
  have h2 : (merge s).writer = s.writer := by unfold merge; split <;> rfl
  rw [h2]; rw [h1] at hc
  exact h hc hne

theorem w_accept {s} (h : W s) (l) : W (acceptSt s l) := by
  intro hc hne
  apply h hc
  intro h0
  have := unsent_acceptSt_length (s := s) l
  rw [h0] at this
  exact hne (List.eq_nil_of_length_eq_zero (by simpa using this))

theorem w_drained {cb : Cb} (g : Good cb) {s} (h : Drainable s) : W (drained cb s).1 := by
  have hcore := (core_drained g.core h).1
  have hu0 : (stopWriting { s with dataBuffer := [], offset := 0 }).unsent = [] := by
    simp [St.unsent, stopWriting, h.temp]
  unfold drained at hcore ⊢
  simp only at hcore ⊢
  split
  next hbr =>
    simp only [hbr, if_true] at hcore
    simp only [Bool.and_eq_true] at hbr
    obtain ⟨pid, hpid⟩ := Option.isSome_iff_exists.mp hbr.1
    have := callProducer_eq cb (k := .resume)
      (s := { stopWriting { s with dataBuffer := [], offset := 0 } with producerPaused := false }) (pid := pid) hpid
    rw [this, callPid_eq]
    show W (cb pid Kind.resume _)
    have hb0 : Buf (stopWriting { s with dataBuffer := [], offset := 0 }) := by
      constructor
      · simp [stopWriting, h.tempLen, h.temp]
      · simp [stopWriting]
      · simp only [St.unsent, stopWriting, List.drop_nil, h.temp, List.append_nil]; exact h.stream
      · intro _; exact ⟨rfl, h.tempLen⟩
      · intro hne; simp [stopWriting] at hne
      · exact h.closes
      · exact h.conn
    have hu1 : (preCall pid .resume { stopWriting { s with dataBuffer := [], offset := 0 } with producerPaused := false }).unsent = [] := hu0
    have hcore' : Core (preCall pid .resume { stopWriting { s with dataBuffer := [], offset := 0 } with producerPaused := false }) := by
      refine ⟨buf_preCall (by bframe hb0), ?_, ?_⟩
      · intro _ _ _ hb
        rw [hu1] at hb; simp at hb
      · intro _ hl
        simp only [preCall] at hl
        rw [if_pos hpid] at hl
        simp at hl
    exact (g.wi pid .resume _ ⟨hcore', w_of_empty hu1⟩).w
  · split
    · exact w_of_empty hu0
    · split
      · exact w_of_empty hu0
      · exact w_of_empty hu0

theorem w_doWrite {cb : Cb} (g : Good cb) {s} (h : WI s) (a) : W (doWrite cb a s).1 := by
  have hm := core_merge h.core
  rw [doWrite_eq]
  split
  · have := w_merge h.w; wframe this
  next l hl =>
    split
    next hc =>
      simp only [Bool.and_eq_true, beq_iff_eq] at hc
      exact w_drained g (drainable_accept hm hc.1 hc.2)
    · exact w_accept (w_merge h.w) l

theorem dead_reactorLost {cb : Cb} (g : Good cb) {s} (h : Core s) (r)
    (hr : r = .done → s.unsent = [] ∧ pull s = false) : Dead (reactorLost cb r s) := by
  unfold reactorLost; exact dead_connectionLost g (core_reactorEmit h r hr)

theorem wi_tick {cb : Cb} (g : Good cb) {s} (h : WI s) (a) : WI (tick cb a s) := by
  refine ⟨core_tick g.core h.core a, ?_⟩
  have hc := core_tick g.core h.core a
  have hw := w_doWrite g h a
  have hd := core_doWrite g.core h.core a
  unfold tick at hc ⊢
  split
  next hwr =>
    simp only [hwr, if_true] at hc
    revert hd; revert hw; revert hc
    generalize doWrite cb a s = r
    obtain ⟨t, ret⟩ := r
    intro hc hw ⟨hct, hdone⟩
    cases ret
    · exact hw
    · exact w_of_dead hc (dead_reactorLost g hct _ (fun _ => ⟨(hdone rfl).1, (hdone rfl).2.1⟩))
    · exact w_of_dead hc (dead_reactorLost g hct _ (fun hr => by cases hr))
  · exact h.w

theorem wi_applyP {cb : Cb} (g : Good cb) {s} (h : WI s) (op) : WI (applyP cb op s) := by
  cases op
  · exact wi_write g h _
  · exact wi_writeSeq g h _
  · exact wi_unregister h
  · exact wi_loseConnection g h
  · exact wi_loseWrite h

theorem wi_runScript {cb : Cb} (g : Good cb) (ops) {s} (h : WI s) : WI (runScript cb ops s) := by
  unfold runScript
  induction ops generalizing s with
  | nil => exact h
  | cons op ops ih => exact ih (wi_applyP g h op)


theorem dead_applyP {cb : Cb} (g : Good cb) {s} (h : Core s) (hd : Dead s) (op) : Dead (applyP cb op s) := by
  cases op with
  | write d =>
    simp only [applyP]
    rw [write_eq]
    split
    · exact hd
    next hc =>
      split
      · exact hd
      · simp only [Bool.or_eq_true, Bool.not_eq_true', not_or, Bool.not_eq_false, Bool.not_eq_true] at hc
        exact dead_maybePause g (buf_appendSt h.buf hc.2 _) hd
  | writeSeq ds =>
    simp only [applyP]
    rw [writeSeq_eq]
    split
    · exact hd
    next hc =>
      simp only [Bool.or_eq_true, Bool.not_eq_true', not_or, Bool.not_eq_false, Bool.not_eq_true] at hc
      exact dead_maybePause g (buf_appendSt h.buf hc.2 _) hd
  | unregister =>
    simp only [applyP, unregisterProducer]
    split <;> exact hd
  | lose =>
    simp only [applyP, loseConnection]
    split
    · split
      next hw => exact dead_connectionLost g (core_loseEmit h hw)
      · exact hd
    · exact hd
  | loseWrite => exact hd

theorem dead_popScript {s} (hd : Dead s) (pid k) : Dead (popScript pid k s).2 := by
  unfold popScript
  split
  · exact hd
  · split
    · split <;> exact hd
    · split <;> exact hd
    · exact hd

theorem core_dead_runScript {cb : Cb} (g : Good cb) (ops) {s} (h : Core s) (hd : Dead s) :
    Dead (runScript cb ops s) := by
  unfold runScript
  induction ops generalizing s with
  | nil => exact hd
  | cons op ops ih => exact ih (core_applyP g.core h op) (dead_applyP g h hd op)

theorem wi_popScript {s} (h : WI s) (pid k) : WI (popScript pid k s).2 := by
  refine ⟨core_popScript h.core pid k, ?_⟩
  unfold popScript
  split
  · exact h.w
  · split
    · split
      · exact h.w
      · wframe h.w
    · split
      · exact h.w
      · wframe h.w
    · exact h.w


theorem good_cbAt (d : Nat) : Good (cbAt d) := by
  induction d with
  | zero =>
    refine ⟨pres_cbAt 0, ?_, ?_⟩
    · intro pid k s h
      have := wi_popScript h pid k
      simp only [cbAt]
      split
      · exact this
      · exact ⟨by frame this.core, by wframe this.w⟩
    · intro pid k s _ hd
      have := dead_popScript hd pid k
      simp only [cbAt]
      split
      · exact this
      · exact this
  | succ d ih =>
    refine ⟨pres_cbAt (d + 1), ?_, ?_⟩
    · intro pid k s h
      simp only [cbAt]
      exact wi_runScript ih _ (wi_popScript h pid k)
    · intro pid k s h hd
      simp only [cbAt]
      exact core_dead_runScript ih _ (core_popScript h pid k) (dead_popScript hd pid k)

theorem wi_applyOp {cb : Cb} (g : Good cb) {s} (h : WI s) (op) : WI (applyOp cb op s) := by
  cases op
  · exact wi_write g h _
  · exact wi_writeSeq g h _
  · exact wi_register g h _ _
  · exact wi_unregister h
  · exact wi_loseConnection g h
  · exact wi_loseWrite h
  · exact ⟨core_pauseT h.core, by wframe h.w⟩
  · refine ⟨core_resumeT h.core, ?_⟩
    show W (resumeT s)
    unfold resumeT; split
    · wframe h.w
    · exact h.w
  · exact wi_tick g h _
  · have hc := core_applyOp g.core h.core .extLost
    refine ⟨hc, ?_⟩
    simp only [applyOp] at hc ⊢
    split
    · exact h.w
    next hnd =>
      simp only [hnd] at hc
      exact w_of_dead hc (dead_reactorLost g h.core _ (fun hr => by cases hr))
  · exact wi_loseConnection g (wi_unregister h)

theorem wi_run {cb : Cb} (g : Good cb) (ops) {s} (h : WI s) : WI (run cb ops s) := by
  unfold run
  induction ops generalizing s with
  | nil => exact h
  | cons op ops ih => exact ih (wi_applyOp g h op)

theorem wi_reachable (d sl bs ps ops) : WI (run (cbAt d) ops (init sl bs ps)) :=
  wi_run (good_cbAt d) ops ⟨core_init sl bs ps, w_of_empty (by simp [init, St.unsent])⟩


/-! `SEND_LIMIT` is a constant of the run -/

def SLConst (cb : Cb) : Prop := ∀ pid k s, (cb pid k s).sendLimit = s.sendLimit

theorem sl_maybePause {cb : Cb} (hcb : SLConst cb) (s) : (maybePauseProducer cb s).sendLimit = s.sendLimit := by
  unfold maybePauseProducer callProducer callPid
  split
  · split
    · split <;> simp [hcb _ _ _]
    · rfl
  · rfl

theorem sl_connectionLost {cb : Cb} (hcb : SLConst cb) (s) : (connectionLost cb s).sendLimit = s.sendLimit := by
  unfold connectionLost callProducer callPid stopWriting stopReading
  simp only
  split <;> simp [hcb _ _ _]

theorem sl_loseConnection {cb : Cb} (hcb : SLConst cb) (s) : (loseConnection cb s).sendLimit = s.sendLimit := by
  unfold loseConnection
  split
  · split
    · simp [sl_connectionLost hcb, emit, stopWriting, stopReading]
    · rfl
  · rfl

theorem sl_unregister (s) : (unregisterProducer s).sendLimit = s.sendLimit := by
  unfold unregisterProducer; simp only; split <;> rfl

theorem sl_merge (s) : (merge s).sendLimit = s.sendLimit := by
  unfold merge; split <;> rfl

theorem sl_reactorLost {cb : Cb} (hcb : SLConst cb) (r s) : (reactorLost cb r s).sendLimit = s.sendLimit := by
  unfold reactorLost; simp [sl_connectionLost hcb, emit, stopWriting, stopReading]

theorem sl_doWrite {cb : Cb} (hcb : SLConst cb) (a s) : (doWrite cb a s).1.sendLimit = s.sendLimit := by
  rw [doWrite_eq]
  split
  · simp [emit, sl_merge]
  · split
    · unfold drained callProducer callPid
      simp only
      split
      · split <;> simp [hcb _ _ _, stopWriting, acceptSt, sl_merge]
      · split
        · simp [stopWriting, acceptSt, sl_merge]
        · split <;> simp [stopWriting, acceptSt, sl_merge, emit]
    · simp [acceptSt, sl_merge]

theorem sl_write {cb : Cb} (hcb : SLConst cb) (d s) : (write cb d s).sendLimit = s.sendLimit := by
  rw [write_eq]; split; rfl; split; rfl; simp [startWriting, sl_maybePause hcb, appendSt]

theorem sl_writeSeq {cb : Cb} (hcb : SLConst cb) (ds s) : (writeSeq cb ds s).sendLimit = s.sendLimit := by
  rw [writeSeq_eq]; split; rfl; simp [startWriting, sl_maybePause hcb, appendSt]

theorem sl_applyP {cb : Cb} (hcb : SLConst cb) (op s) : (applyP cb op s).sendLimit = s.sendLimit := by
  cases op with
  | write d => exact sl_write hcb d s
  | writeSeq ds => exact sl_writeSeq hcb ds s
  | unregister => exact sl_unregister s
  | lose => exact sl_loseConnection hcb s
  | loseWrite => rfl

theorem sl_runScript {cb : Cb} (hcb : SLConst cb) (ops s) : (runScript cb ops s).sendLimit = s.sendLimit := by
  unfold runScript
  induction ops generalizing s with
  | nil => rfl
  | cons op ops ih => simp only [List.foldl_cons]; rw [ih, sl_applyP hcb]

theorem sl_popScript (pid k s) : (popScript pid k s).2.sendLimit = s.sendLimit := by
  unfold popScript
  split
  · rfl
  · split
    · split <;> rfl
    · split <;> rfl
    · rfl

theorem sl_cbAt (d : Nat) : SLConst (cbAt d) := by
  induction d with
  | zero =>
    intro pid k s
    have := sl_popScript pid k s
    simp only [cbAt]
    split
    · exact this
    · exact this
  | succ d ih =>
    intro pid k s
    simp only [cbAt]
    rw [sl_runScript ih, sl_popScript]

theorem sl_applyOp {cb : Cb} (hcb : SLConst cb) (op s) : (applyOp cb op s).sendLimit = s.sendLimit := by
  cases op with
  | write d => exact sl_write hcb d s
  | writeSeq ds => exact sl_writeSeq hcb ds s
  | register pid st =>
    simp only [applyOp, registerProducer]
    split
    · rfl
    · split
      · simp [callPid, hcb _ _ _]
      · simp only [sl_maybePause hcb]; split
        · simp [callProducer, callPid, hcb _ _ _]
        · rfl
  | unregister => exact sl_unregister s
  | lose => exact sl_loseConnection hcb s
  | loseWrite => rfl
  | pauseT => rfl
  | resumeT => simp only [applyOp, resumeT]; split <;> rfl
  | tick a =>
    simp only [applyOp, tick]
    split
    · have := sl_doWrite hcb a s
      revert this
      generalize doWrite cb a s = r
      obtain ⟨t, ret⟩ := r
      intro this
      cases ret
      · exact this
      · simp only [sl_reactorLost hcb]; exact this
      · simp only [sl_reactorLost hcb]; exact this
    · rfl
  | extLost => simp only [applyOp]; split; rfl; exact sl_reactorLost hcb _ _
  | stopConsuming => simp only [applyOp, sl_loseConnection hcb, sl_unregister]

theorem sl_run {cb : Cb} (hcb : SLConst cb) (ops s) : (run cb ops s).sendLimit = s.sendLimit := by
  unfold run
  induction ops generalizing s with
  | nil => rfl
  | cons op ops ih => simp only [List.foldl_cons]; rw [ih, sl_applyOp hcb]

end TwistedProps.C14
