import TwistedProps.C14.Invariants
/-!
C14 — monotone facts of every run (lemmas for `TwistedProps/C14.lean`): `SEND_LIMIT` is constant, the accepted
stream and the event log only grow, a dead transport stays dead, a shut write side stays shut and accepts
nothing any more.  Same architecture as `Invariants.lean`: every operation under a contract on the callbacks
(`MonoCb`), `cbAt d` by induction on `d`, histories by induction on the operations.
-/
open Twisted.Transport.FD
namespace TwistedProps.C14

/-! ### monotone facts of every run: what no operation ever undoes -/

/-- `t` is a later state than `s`: `SEND_LIMIT` is the same, the accepted stream and the event log only grow,
a dead transport stays dead, a shut write side stays shut, and once either holds nothing is accepted any more -/
structure Mono (s t : St) : Prop where
  sl : t.sendLimit = s.sendLimit
  acc : ∃ l, t.accChunks = l ++ s.accChunks
  frozen : (s.connected = false ∨ s.writeDisconnected = true) → t.accChunks = s.accChunks
  wd : s.writeDisconnected = true → t.writeDisconnected = true
  conn : s.connected = false → t.connected = false
  log : ∀ e ∈ s.log, e ∈ t.log

theorem Mono.refl (s : St) : Mono s s :=
  ⟨rfl, ⟨[], rfl⟩, fun _ => rfl, id, id, fun _ h => h⟩

theorem Mono.trans {s t u : St} (h1 : Mono s t) (h2 : Mono t u) : Mono s u := by
  refine ⟨h2.sl.trans h1.sl, ?_, ?_, fun h => h2.wd (h1.wd h), fun h => h2.conn (h1.conn h),
    fun e he => h2.log e (h1.log e he)⟩
  · obtain ⟨l1, e1⟩ := h1.acc
    obtain ⟨l2, e2⟩ := h2.acc
    exact ⟨l2 ++ l1, by rw [e2, e1, List.append_assoc]⟩
  · intro h
    rw [← h1.frozen h]
    apply h2.frozen
    rcases h with h | h
    · exact Or.inl (h1.conn h)
    · exact Or.inr (h1.wd h)

/-- a step that touches none of the monotone fields except (possibly) by extending the log -/
theorem Mono.frame {s t : St} (h1 : t.sendLimit = s.sendLimit) (h2 : t.accChunks = s.accChunks)
    (h3 : t.writeDisconnected = s.writeDisconnected) (h4 : t.connected = s.connected)
    (h5 : ∀ e ∈ s.log, e ∈ t.log) : Mono s t :=
  ⟨h1, ⟨[], by simp [h2]⟩, fun _ => h2, fun h => by rw [h3]; exact h, fun h => by rw [h4]; exact h, h5⟩

macro "mframe" : tactic => `(tactic| exact Mono.frame rfl rfl rfl rfl (fun _ h => h))

def MonoCb (cb : Cb) : Prop := ∀ pid k s, Mono s (cb pid k s)

theorem mono_preCall (pid k s) : Mono s (preCall pid k s) :=
  Mono.frame rfl rfl rfl rfl (fun _ h => List.mem_cons_of_mem _ h)

theorem mono_emit (e s) : Mono s (emit e s) :=
  Mono.frame rfl rfl rfl rfl (fun _ h => List.mem_cons_of_mem _ h)

theorem mono_callPid {cb : Cb} (hcb : MonoCb cb) (pid k s) : Mono s (callPid cb pid k s) := by
  rw [callPid_eq]; exact (mono_preCall pid k s).trans (hcb _ _ _)

theorem mono_callProducer {cb : Cb} (hcb : MonoCb cb) (k s) : Mono s (callProducer cb k s) := by
  unfold callProducer
  split
  · exact mono_callPid hcb _ _ _
  · exact Mono.refl s

theorem mono_maybePause {cb : Cb} (hcb : MonoCb cb) (s) : Mono s (maybePauseProducer cb s) := by
  unfold maybePauseProducer
  split
  · split
    · exact (show Mono s { s with producerPaused := true } by mframe).trans (mono_callProducer hcb _ _)
    · exact Mono.refl s
  · exact Mono.refl s

theorem mono_appendSt {s} (hc : s.connected = true) (hw : s.writeDisconnected = false) (ds) :
    Mono s (appendSt s ds) :=
  ⟨rfl, ⟨[ds.flatten], rfl⟩, fun h => by rcases h with h | h <;> simp_all, id, id, fun _ h => h⟩

theorem mono_write {cb : Cb} (hcb : MonoCb cb) (d s) : Mono s (write cb d s) := by
  rw [write_eq]
  split
  · exact Mono.refl s
  next hc =>
    split
    · exact Mono.refl s
    · simp only [Bool.or_eq_true, Bool.not_eq_true', not_or, Bool.not_eq_false, Bool.not_eq_true] at hc
      exact ((mono_appendSt hc.1 hc.2 _).trans (mono_maybePause hcb _)).trans (by mframe)

theorem mono_writeSeq {cb : Cb} (hcb : MonoCb cb) (ds s) : Mono s (writeSeq cb ds s) := by
  rw [writeSeq_eq]
  split
  · exact Mono.refl s
  next hc =>
    simp only [Bool.or_eq_true, Bool.not_eq_true', not_or, Bool.not_eq_false, Bool.not_eq_true] at hc
    exact ((mono_appendSt hc.1.1 hc.2 _).trans (mono_maybePause hcb _)).trans (by mframe)

theorem mono_unregister (s) : Mono s (unregisterProducer s) := by
  unfold unregisterProducer; simp only; split <;> mframe

theorem mono_connectionLost {cb : Cb} (hcb : MonoCb cb) (s) : Mono s (connectionLost cb s) := by
  unfold connectionLost
  simp only
  have h1 : Mono s { s with disconnected := true, connected := false } :=
    ⟨rfl, ⟨[], rfl⟩, fun _ => rfl, id, fun _ => rfl, fun _ h => h⟩
  split
  · exact (h1.trans (mono_callProducer hcb _ _)).trans (by mframe)
  · exact h1.trans (by mframe)

theorem mono_loseConnection {cb : Cb} (hcb : MonoCb cb) (s) : Mono s (loseConnection cb s) := by
  unfold loseConnection
  split
  · split
    · exact (show Mono s (emit (lostEv .done (stopWriting (stopReading s))) (stopWriting (stopReading s))) from
        Mono.frame rfl rfl rfl rfl (fun _ h => List.mem_cons_of_mem _ h)).trans (mono_connectionLost hcb _)
    · mframe
  · exact Mono.refl s

theorem mono_applyP {cb : Cb} (hcb : MonoCb cb) (op s) : Mono s (applyP cb op s) := by
  cases op with
  | write d => exact mono_write hcb d s
  | writeSeq ds => exact mono_writeSeq hcb ds s
  | unregister => exact mono_unregister s
  | lose => exact mono_loseConnection hcb s
  | loseWrite => mframe

theorem mono_runScript {cb : Cb} (hcb : MonoCb cb) (ops s) : Mono s (runScript cb ops s) := by
  unfold runScript
  induction ops generalizing s with
  | nil => exact Mono.refl s
  | cons op ops ih => exact (mono_applyP hcb op s).trans (ih _)

theorem mono_popScript (pid k s) : Mono s (popScript pid k s).2 := by
  unfold popScript
  split
  · exact Mono.refl s
  · split
    · split
      · exact Mono.refl s
      · mframe
    · split
      · exact Mono.refl s
      · mframe
    · exact Mono.refl s

theorem mono_cbAt (d : Nat) : MonoCb (cbAt d) := by
  induction d with
  | zero =>
    intro pid k s
    have := mono_popScript pid k s
    simp only [cbAt]
    split
    · exact this
    · exact this.trans (by mframe)
  | succ d ih =>
    intro pid k s
    simp only [cbAt]
    exact (mono_popScript pid k s).trans (mono_runScript ih _ _)

theorem mono_register {cb : Cb} (hcb : MonoCb cb) (pid st s) : Mono s (registerProducer cb pid st s) := by
  unfold registerProducer
  split
  · exact mono_emit _ _
  · split
    · exact mono_callPid hcb _ _ _
    · simp only
      have h0 : Mono s { s with producer := some pid, streaming := st, lastCall := none, regShut := s.writeDisconnected } := by
        mframe
      split
      · exact (h0.trans (mono_callProducer hcb _ _)).trans (mono_maybePause hcb _)
      · exact h0.trans (mono_maybePause hcb _)

theorem mono_merge (s) : Mono s (merge s) := by
  unfold merge; split
  · mframe
  · exact Mono.refl s

theorem mono_acceptSt (s l) : Mono s (acceptSt s l) :=
  Mono.frame rfl rfl rfl rfl (fun _ h => List.mem_cons_of_mem _ h)

theorem mono_drained {cb : Cb} (hcb : MonoCb cb) (s) : Mono s (drained cb s).1 := by
  unfold drained
  simp only
  have h0 : Mono s (stopWriting { s with dataBuffer := [], offset := 0 }) := by mframe
  split
  · exact (h0.trans (by mframe)).trans (mono_callProducer hcb .resume
      { stopWriting { s with dataBuffer := [], offset := 0 } with producerPaused := false })
  · split
    · exact h0
    · split
      · refine h0.trans ⟨rfl, ⟨[], rfl⟩, fun _ => rfl, fun _ => rfl, id, fun _ h => List.mem_cons_of_mem _ h⟩
      · exact h0

theorem mono_doWrite {cb : Cb} (hcb : MonoCb cb) (a s) : Mono s (doWrite cb a s).1 := by
  rw [doWrite_eq]
  split
  · exact (mono_merge s).trans (mono_emit _ _)
  · split
    · exact ((mono_merge s).trans (mono_acceptSt _ _)).trans (mono_drained hcb _)
    · exact (mono_merge s).trans (mono_acceptSt _ _)

theorem mono_reactorLost {cb : Cb} (hcb : MonoCb cb) (r s) : Mono s (reactorLost cb r s) := by
  unfold reactorLost
  exact (show Mono s (emit (lostEv r (stopWriting (stopReading s))) (stopWriting (stopReading s))) from
    Mono.frame rfl rfl rfl rfl (fun _ h => List.mem_cons_of_mem _ h)).trans (mono_connectionLost hcb _)

theorem mono_tick {cb : Cb} (hcb : MonoCb cb) (a s) : Mono s (tick cb a s) := by
  unfold tick
  split
  · have := mono_doWrite hcb a s
    revert this
    generalize doWrite cb a s = r
    obtain ⟨t, ret⟩ := r
    intro this
    cases ret
    · exact this
    · exact this.trans (mono_reactorLost hcb _ _)
    · exact this.trans (mono_reactorLost hcb _ _)
  · exact Mono.refl s

theorem mono_applyOp {cb : Cb} (hcb : MonoCb cb) (op s) : Mono s (applyOp cb op s) := by
  cases op with
  | write d => exact mono_write hcb d s
  | writeSeq ds => exact mono_writeSeq hcb ds s
  | register pid st => exact mono_register hcb pid st s
  | unregister => exact mono_unregister s
  | lose => exact mono_loseConnection hcb s
  | loseWrite => mframe
  | pauseT => mframe
  | resumeT => simp only [applyOp, resumeT]; split <;> mframe
  | tick a => exact mono_tick hcb a s
  | extLost => simp only [applyOp]; split; exact Mono.refl s; exact mono_reactorLost hcb _ _
  | stopConsuming => exact (mono_unregister s).trans (mono_loseConnection hcb _)

theorem mono_run {cb : Cb} (hcb : MonoCb cb) (ops s) : Mono s (run cb ops s) := by
  unfold run
  induction ops generalizing s with
  | nil => exact Mono.refl s
  | cons op ops ih => exact (mono_applyOp hcb op s).trans (ih _)

end TwistedProps.C14
