import TwistedProps.C14.Invariants
/-!
C14 — the half-closed transport (lemmas for `TwistedProps/C14.lean`).

`doWrite` shuts the write side (`_closeWriteConnection`) only when no producer has to be resumed, in particular
never while a non-streaming producer is registered.  So a non-streaming producer found on a transport whose
write side is shut was registered *after* the shut (`regShut`, a ghost set by `registerProducer`): none of its
writes was ever accepted (`write_dropped`, and the shut is permanent).  `Late` is that state invariant, `LI` adds
the corresponding fact about every `connectionLost` event in the log.  Same architecture as `Invariants.lean`.
-/
open Twisted.Transport.FD
namespace TwistedProps.C14

/-- a non-streaming producer registered on a transport whose write side is shut was registered after the shut -/
def Late (s : St) : Prop :=
  s.writeDisconnected = true → s.producer.isSome = true → s.streaming = false → s.regShut = true

def OkEv2 : Ev → Prop
  | .lost _ _ pull wd late => pull = true → wd = true → late = true
  | _ => True

structure LI (s : St) : Prop where
  late : Late s
  log : ∀ e ∈ s.log, OkEv2 e

theorem LI.frame {s t : St} (h : LI s) (h1 : t.writeDisconnected = s.writeDisconnected)
    (h2 : t.producer = s.producer) (h3 : t.streaming = s.streaming) (h4 : t.regShut = s.regShut)
    (h5 : t.log = s.log) : LI t := by
  obtain ⟨a, b⟩ := h
  constructor
  · unfold Late at *; simp only [h1, h2, h3, h4]; exact a
  · simp only [h5]; exact b

macro "lframe " h:term : tactic => `(tactic| exact LI.frame $h rfl rfl rfl rfl rfl)

theorem li_init (sl bs ps) : LI (init sl bs ps) := by
  constructor
  · intro h; simp [init] at h
  · intro e he; simp [init] at he

theorem li_emit {s e} (h : LI s) (he : OkEv2 e) : LI (emit e s) := by
  refine ⟨h.late, ?_⟩
  intro e' he'
  simp only [emit, List.mem_cons] at he'
  rcases he' with rfl | he'
  · exact he
  · exact h.log _ he'

theorem okEv2_lostEv {s} (h : Late s) (r) : OkEv2 (lostEv r s) := by
  simp only [lostEv, OkEv2, Bool.and_eq_true, Bool.not_eq_true']
  intro hp hw
  exact h hw hp.1 hp.2

theorem li_preCall {s} (h : LI s) (pid k) : LI (preCall pid k s) := by
  have : LI (emit (Ev.call pid k) s) := li_emit h trivial
  lframe this

theorem li_callPid {cb : Cb} (hcb : Pres LI cb) {s} (h : LI s) (pid k) : LI (callPid cb pid k s) := by
  rw [callPid_eq]; exact hcb _ _ _ (li_preCall h pid k)

theorem li_callProducer {cb : Cb} (hcb : Pres LI cb) {s} (h : LI s) (k) : LI (callProducer cb k s) := by
  unfold callProducer
  split
  · exact li_callPid hcb h _ _
  · exact h

theorem li_maybePause {cb : Cb} (hcb : Pres LI cb) {s} (h : LI s) : LI (maybePauseProducer cb s) := by
  unfold maybePauseProducer
  split
  · split
    · exact li_callProducer hcb (s := { s with producerPaused := true }) (by lframe h) _
    · exact h
  · exact h

theorem li_write {cb : Cb} (hcb : Pres LI cb) {s} (h : LI s) (d) : LI (write cb d s) := by
  rw [write_eq]
  split
  · exact h
  · split
    · exact h
    · have := li_maybePause hcb (s := appendSt s [d]) (by lframe h)
      lframe this

theorem li_writeSeq {cb : Cb} (hcb : Pres LI cb) {s} (h : LI s) (ds) : LI (writeSeq cb ds s) := by
  rw [writeSeq_eq]
  split
  · exact h
  · have := li_maybePause hcb (s := appendSt s ds) (by lframe h)
    lframe this

theorem li_noProducer {s} (h : LI s) : LI { s with producer := none } :=
  ⟨by intro _ hp; simp at hp, h.log⟩

theorem li_unregister {s} (h : LI s) : LI (unregisterProducer s) := by
  unfold unregisterProducer
  simp only
  split
  · have := li_noProducer h; lframe this
  · exact li_noProducer h

theorem li_connectionLost {cb : Cb} (hcb : Pres LI cb) {s} (h : LI s) : LI (connectionLost cb s) := by
  unfold connectionLost
  simp only
  have h1 : LI { s with disconnected := true, connected := false } := by lframe h
  split
  · have := li_noProducer (li_callProducer hcb h1 .stop)
    lframe this
  · lframe h1

theorem li_lostEmit {s} (h : LI s) (r) :
    LI (emit (lostEv r (stopWriting (stopReading s))) (stopWriting (stopReading s))) := by
  have h1 : LI (stopWriting (stopReading s)) := by lframe h
  exact li_emit h1 (okEv2_lostEv h1.late r)

theorem li_loseConnection {cb : Cb} (hcb : Pres LI cb) {s} (h : LI s) : LI (loseConnection cb s) := by
  unfold loseConnection
  split
  · split
    · exact li_connectionLost hcb (li_lostEmit h .done)
    · lframe h
  · exact h

theorem li_reactorLost {cb : Cb} (hcb : Pres LI cb) {s} (h : LI s) (r) : LI (reactorLost cb r s) := by
  unfold reactorLost
  exact li_connectionLost hcb (li_lostEmit h r)

theorem li_register {cb : Cb} (hcb : Pres LI cb) {s} (h : LI s) (pid st) : LI (registerProducer cb pid st s) := by
  unfold registerProducer
  split
  · exact li_emit h trivial
  · split
    · exact li_callPid hcb h _ _
    · simp only
      have h0 : LI { s with producer := some pid, streaming := st, lastCall := none, regShut := s.writeDisconnected } :=
        ⟨fun hw _ _ => hw, h.log⟩
      split
      · exact li_maybePause hcb (li_callProducer hcb h0 _)
      · exact li_maybePause hcb h0

theorem li_merge {s} (h : LI s) : LI (merge s) := by
  unfold merge; split
  · lframe h
  · exact h

theorem li_acceptSt {s} (h : LI s) (l) : LI (acceptSt s l) := by
  have : LI (emit (Ev.os (s.dataBuffer.drop s.offset) l) s) := li_emit h trivial
  lframe this

theorem li_drained {cb : Cb} (hcb : Pres LI cb) {s} (h : LI s) : LI (drained cb s).1 := by
  unfold drained
  simp only
  have h0 : LI (stopWriting { s with dataBuffer := [], offset := 0 }) := by lframe h
  split
  · exact li_callProducer hcb
      (s := { stopWriting { s with dataBuffer := [], offset := 0 } with producerPaused := false }) (by lframe h0) _
  next hbr =>
    split
    · exact h0
    · split
      · apply li_emit (e := .halfClose) _ trivial
        refine ⟨?_, h0.log⟩
        intro _ hp hs
        exfalso
        apply hbr
        simp only [stopWriting] at hp hs ⊢
        simp [hp, hs]
      · exact h0

theorem li_doWrite {cb : Cb} (hcb : Pres LI cb) {s} (h : LI s) (a) : LI (doWrite cb a s).1 := by
  rw [doWrite_eq]
  split
  · exact li_emit (li_merge h) trivial
  · split
    · exact li_drained hcb (li_acceptSt (li_merge h) _)
    · exact li_acceptSt (li_merge h) _

theorem li_tick {cb : Cb} (hcb : Pres LI cb) {s} (h : LI s) (a) : LI (tick cb a s) := by
  unfold tick
  split
  · have := li_doWrite hcb h a
    revert this
    generalize doWrite cb a s = r
    obtain ⟨t, ret⟩ := r
    intro this
    cases ret
    · exact this
    · exact li_reactorLost hcb this _
    · exact li_reactorLost hcb this _
  · exact h

theorem li_applyP {cb : Cb} (hcb : Pres LI cb) {s} (h : LI s) (op) : LI (applyP cb op s) := by
  cases op with
  | write d => exact li_write hcb h d
  | writeSeq ds => exact li_writeSeq hcb h ds
  | unregister => exact li_unregister h
  | lose => exact li_loseConnection hcb h
  | loseWrite => exact (by lframe h : LI (loseWriteConnection s))

theorem li_runScript {cb : Cb} (hcb : Pres LI cb) (ops) {s} (h : LI s) : LI (runScript cb ops s) := by
  unfold runScript
  induction ops generalizing s with
  | nil => exact h
  | cons op ops ih => exact ih (li_applyP hcb h op)

theorem li_popScript {s} (h : LI s) (pid k) : LI (popScript pid k s).2 := by
  unfold popScript
  split
  · exact h
  · split
    · split
      · exact h
      · lframe h
    · split
      · exact h
      · lframe h
    · exact h

theorem pres_li_cbAt (d : Nat) : Pres LI (cbAt d) := by
  induction d with
  | zero =>
    intro pid k s h
    have := li_popScript h pid k
    simp only [cbAt]
    split
    · exact this
    · lframe this
  | succ d ih =>
    intro pid k s h
    simp only [cbAt]
    exact li_runScript ih _ (li_popScript h pid k)

theorem li_applyOp {cb : Cb} (hcb : Pres LI cb) {s} (h : LI s) (op) : LI (applyOp cb op s) := by
  cases op with
  | write d => exact li_write hcb h d
  | writeSeq ds => exact li_writeSeq hcb h ds
  | register pid st => exact li_register hcb h pid st
  | unregister => exact li_unregister h
  | lose => exact li_loseConnection hcb h
  | loseWrite => exact (by lframe h : LI (loseWriteConnection s))
  | pauseT => exact (by lframe h : LI (pauseT s))
  | resumeT =>
    show LI (resumeT s)
    unfold resumeT; split
    · lframe h
    · exact h
  | tick a => exact li_tick hcb h a
  | extLost =>
    simp only [applyOp]
    split
    · exact h
    · exact li_reactorLost hcb h _
  | stopConsuming => exact li_loseConnection hcb (li_unregister h)

theorem li_run {cb : Cb} (hcb : Pres LI cb) (ops) {s} (h : LI s) : LI (run cb ops s) := by
  unfold run
  induction ops generalizing s with
  | nil => exact h
  | cons op ops ih => exact ih (li_applyOp hcb h op)

theorem li_reachable (d sl bs ps ops) : LI (run (cbAt d) ops (init sl bs ps)) :=
  li_run (pres_li_cbAt d) ops (li_init sl bs ps)

end TwistedProps.C14
