import TwistedProps.C06.Step
namespace TwistedProps.C06
open Twisted.Defer.LockSem

/-- states reachable from `s0`: small steps of the call stack, and top-level calls when nothing
    of ours is on the stack -/
inductive ReachFrom (s0 : St) : St → Prop
  | refl : ReachFrom s0 s0
  | step {s : St} : ReachFrom s0 s → ReachFrom s0 (step s)
  | call {s : St} (o : Op) : ReachFrom s0 s → s.agenda = [] → ReachFrom s0 { s with agenda := [.op o] }

abbrev Reach (k : Kind) (lim : Nat) : St → Prop := ReachFrom (init k lim)

theorem ReachFrom.trans {a b c : St} (h1 : ReachFrom a b) (h2 : ReachFrom b c) : ReachFrom a c := by
  induction h2 with
  | refl => exact h1
  | step _ ih => exact .step ih
  | call o _ hq ih => exact .call o ih hq

def capOf (k : Kind) (lim : Nat) : Int := match k with | .lock => 1 | .sem => lim

theorem init_inv (k : Kind) (lim : Nat) : Inv (init k lim) := by
  refine ⟨?_, ?_, ?_, ?_, ?_, ?_, ?_, ?_, ?_, ?_, ?_, ?_, ?_, ?_, ?_⟩ <;> cases k <;> simp [init, Core.free, Core.cap, grantLog, live, rr, fr]

theorem reachFrom_ok {s0 s : St} (h : ReachFrom s0 s) (hok : s.ok = true) : s0.ok = true := by
  induction h with
  | refl => exact hok
  | step _ ih => exact ih (step_ok _ hok)
  | call o _ _ ih => exact ih hok

theorem reachFrom_inv {s0 s : St} (h0 : Inv s0) (h : ReachFrom s0 s) (hok : s.ok = true) : Inv s := by
  induction h with
  | refl => exact h0
  | step _ ih => exact step_inv _ (ih (step_ok _ hok)) hok
  | call o _ hq ih =>
    exact (ih hok).congr rfl rfl rfl rfl rfl rfl rfl rfl (by simp [hq, rr]) (by simp [hq, fr])

theorem reach_inv {k : Kind} {lim : Nat} {s : St} (h : Reach k lim s) (hok : s.ok = true) : Inv s :=
  reachFrom_inv (init_inv k lim) h hok

/-! constants of a run: kind/limit (hence `cap`) never change; `cancelled` only grows -/

theorem doRelease_cap (s : St) : (doRelease s).core.cap = s.core.cap := by
  have hs := release_spec s.core
  unfold doRelease
  rcases hr : s.core.release with ⟨c, r⟩
  rw [hr] at hs
  cases r with
  | assertion => rfl
  | idle => exact hs.2.2.2.2
  | woke w => exact hs.2.2.2

theorem doAcquire_cap (s : St) (l : Nat) : (doAcquire s l).core.cap = s.core.cap := by
  have hs := acquire_spec s.core l
  unfold doAcquire
  rcases hr : s.core.acquire l with ⟨c, r⟩
  rw [hr] at hs
  cases r with
  | assertion => rfl
  | queued => exact hs.2.2.2
  | granted => exact hs.2.2.2

theorem doRelease_cancelled (s : St) : (doRelease s).cancelled = s.cancelled := by
  unfold doRelease
  rcases hr : s.core.release with ⟨c, r⟩
  cases r <;> rfl

theorem doAcquire_cancelled (s : St) (l : Nat) : (doAcquire s l).cancelled = s.cancelled := by
  unfold doAcquire
  rcases hr : s.core.acquire l with ⟨c, r⟩
  cases r <;> rfl

theorem cancelAcquire_cap (c : Core) (l : Nat) : (c.cancelAcquire l).cap = c.cap := by
  unfold Core.cancelAcquire Core.cap; rfl

theorem stepOp_cap (s : St) (o : Op) : (stepOp s o).core.cap = s.core.cap := by
  cases o with
  | acquire l cb => simp only [stepOp]; split <;> first | rfl | rw [doAcquire_cap]
  | run l f body => simp only [stepOp]; split <;> first | rfl | rw [doAcquire_cap]
  | release l =>
    simp only [stepOp]
    split
    · split <;> rw [doRelease_cap]
    · rw [doRelease_cap]
  | cancel l =>
    simp only [stepOp]
    split
    · rfl
    · split
      · split <;> exact cancelAcquire_cap _ _
      · split
        · split <;> rfl
        · rfl
  | fire l b =>
    simp only [stepOp]
    split
    · split <;> rfl
    · rfl

theorem step_cap (s : St) : (step s).core.cap = s.core.cap := by
  unfold step
  split
  · rfl
  · next o rest _ => exact stepOp_cap { s with agenda := rest } o
  · split <;> rfl
  · rw [doRelease_cap]
  · rfl

theorem stepOp_cancelled (s : St) (o : Op) (l : Nat) (hl : l ∈ s.cancelled) : l ∈ (stepOp s o).cancelled := by
  cases o with
  | acquire l' cb => simp only [stepOp]; split <;> first | exact hl | (rw [doAcquire_cancelled]; exact hl)
  | run l' f body => simp only [stepOp]; split <;> first | exact hl | (rw [doAcquire_cancelled]; exact hl)
  | release l' =>
    simp only [stepOp]
    split
    · split <;> (rw [doRelease_cancelled]; exact hl)
    · rw [doRelease_cancelled]; exact hl
  | cancel l' =>
    simp only [stepOp]
    split
    · exact hl
    · split
      · split <;> exact List.mem_cons_of_mem _ hl
      · split
        · split <;> exact hl
        · exact hl
  | fire l' b =>
    simp only [stepOp]
    split
    · split <;> exact hl
    · exact hl

theorem step_cancelled (s : St) (l : Nat) (hl : l ∈ s.cancelled) : l ∈ (step s).cancelled := by
  unfold step
  split
  · exact hl
  · next o rest _ => exact stepOp_cancelled { s with agenda := rest } o l hl
  · split <;> exact hl
  · rw [doRelease_cancelled]; exact hl
  · exact hl

theorem reachFrom_cap {s0 s : St} (h : ReachFrom s0 s) : s.core.cap = s0.core.cap := by
  induction h with
  | refl => rfl
  | step _ ih => rw [step_cap]; exact ih
  | call o _ _ ih => exact ih

theorem reachFrom_cancelled {s0 s : St} (h : ReachFrom s0 s) {l : Nat} (hl : l ∈ s0.cancelled) :
    l ∈ s.cancelled := by
  induction h with
  | refl => exact hl
  | step _ ih => exact step_cancelled _ l ih
  | call o _ _ ih => exact ih

theorem init_cap (k : Kind) (lim : Nat) : (init k lim).core.cap = capOf k lim := by
  cases k <;> rfl

end TwistedProps.C06
