import TwistedProps.C06.Inv
namespace TwistedProps.C06
open Twisted.Defer.LockSem

theorem doRelease_ok (s : St) : (doRelease s).ok = s.ok := by
  unfold doRelease
  rcases hr : s.core.release with ⟨c, r⟩
  cases r <;> rfl

theorem doAcquire_ok (s : St) (l : Nat) : (doAcquire s l).ok = s.ok := by
  unfold doAcquire
  rcases hr : s.core.acquire l with ⟨c, r⟩
  cases r <;> rfl

theorem stepOp_inv (s : St) (o : Op) (h : Inv s) (hok : (stepOp s o).ok = true) : Inv (stepOp s o) := by
  cases o with
  | acquire l cb =>
    simp only [stepOp]
    split
    · exact emit_G .bad rfl h
    · next hl => exact doAcquire_inv _ l (register_G s l (.plain cb) h hl)
  | run l f body =>
    simp only [stepOp]
    split
    · exact emit_G .bad rfl h
    · next hl => exact doAcquire_inv _ l (register_G s l (.run f body) h hl)
  | release l =>
    by_cases hwf : s.holdsPlain l = true
    · simp only [stepOp, hwf, if_true]
      simp only [St.holdsPlain, Bool.and_eq_true, decide_eq_true_eq] at hwf
      have hna := h.no_assert hwf.1
      simp only [hna, Bool.false_eq_true, if_false]
      have hp : isRunF (s.kindOf l) = false := by
        cases hk : s.kindOf l with
        | none => rfl
        | some k => cases k with
          | plain cb => rfl
          | run f body => simp [hk, AcqKind.isPlain] at hwf
      have hplain : avail s l = false := by
        unfold avail
        cases hk : s.kindOf l with
        | none => simp [resultF]
        | some k => cases k with
          | plain cb => simp [resultF]
          | run f body => simp [hk, isRunF] at hp
      apply doRelease_inv
      apply unhold_G s l _ _ h hwf.1
      · simp [grantLog_append, grantLog]
      · intro x
        constructor
        · intro hx
          refine ⟨hx, fun e => ?_⟩
          have := (h.rrIn x hx).2; rw [e, hplain] at this; exact absurd this (by simp)
        · exact fun hx => hx.1
      · exact h.rrNd
      · rfl
      · intro hm; have := (h.frIn l hm).2.2; rw [hp] at this; exact absurd this (by simp)
      · intro hm; have := (h.retIn l hm).1; rw [hp] at this; exact absurd this (by simp)
    · simp only [stepOp, hwf, Bool.false_eq_true, if_false] at hok
      rw [doRelease_ok] at hok; simp at hok
  | cancel l =>
    simp only [stepOp]
    split
    · exact emit_G .bad rfl h
    · next hr =>
      have hr' : l ∈ s.reqs := by simpa using hr
      have h1 : Inv (s.emit (.K l)) := emit_G _ rfl h
      split
      · next hw =>
        have h2 := cancel_pending_inv (s.emit (.K l)) l h1 hw hr'
        split
        · exact emit_G _ rfl h2
        · exact emit_G _ rfl h2
      · split
        · next hk hj =>
          split
          · next hl => exact setj_held_inv s l .cancel _ _ h hk hj hl (by simp [St.emit, grantLog_snoc, gOf])
          · exact h1
        · exact h1
  | fire l b =>
    simp only [stepOp]
    split
    · next hk hj =>
      split
      · next hl => exact setj_held_inv s l _ _ _ h hk hj hl (by simp [grantLog_snoc, gOf])
      · next hl => exact setj_free_inv s l _ _ h hl (by simp [grantLog_snoc, gOf])
    · exact emit_G .bad rfl h

theorem stepOp_ok (s : St) (o : Op) (hok : (stepOp s o).ok = true) : s.ok = true := by
  cases o with
  | acquire l cb =>
    simp only [stepOp] at hok
    split at hok
    · exact hok
    · rw [doAcquire_ok] at hok; exact hok
  | run l f body =>
    simp only [stepOp] at hok
    split at hok
    · exact hok
    · rw [doAcquire_ok] at hok; exact hok
  | release l =>
    simp only [stepOp] at hok
    split at hok
    · split at hok <;> (rw [doRelease_ok] at hok; exact hok)
    · rw [doRelease_ok] at hok; simp at hok
  | cancel l =>
    simp only [stepOp] at hok
    split at hok
    · exact hok
    · split at hok
      · split at hok <;> exact hok
      · split at hok
        · split at hok <;> exact hok
        · exact hok
  | fire l b =>
    simp only [stepOp] at hok
    split at hok
    · split at hok <;> exact hok
    · exact hok

theorem step_ok (s : St) (hok : (step s).ok = true) : s.ok = true := by
  unfold step at hok
  split at hok
  · exact hok
  · next o rest _ => exact stepOp_ok { s with agenda := rest } o hok
  · split at hok <;> exact hok
  · rw [doRelease_ok] at hok; exact hok
  · exact hok

theorem step_inv (s : St) (h : Inv s) (hok : (step s).ok = true) : Inv (step s) := by
  unfold step at hok ⊢
  split
  · exact h
  · next o rest hag =>
    simp only [hag] at hok
    apply stepOp_inv _ _ _ hok
    exact h.congr rfl rfl rfl rfl rfl rfl rfl rfl (by simp [hag, rr_cons_op]) (by simp [hag, fr_cons_op])
  · next l rest hag => exact fret_inv s l rest h hag
  · next l o rest hag =>
    have hrr : rr s.agenda = l :: rr rest := by rw [hag, rr_cons_relret]
    have hin := h.rrIn l (by rw [hrr]; simp)
    have hna := h.no_assert hin.1
    have hnd := h.rrNd
    rw [hrr] at hnd
    have hnd' := List.nodup_cons.1 hnd
    simp only [hna, Bool.false_eq_true, if_false]
    apply doRelease_inv
    apply unhold_G s l _ _ h hin.1
    · simp [grantLog_snoc, gOf]
    · intro x
      rw [rr_cons_done, hrr]
      constructor
      · intro hx; exact ⟨List.mem_cons_of_mem _ hx, fun e => hnd'.1 (e ▸ hx)⟩
      · intro hx
        rcases List.mem_cons.1 hx.1 with e | hm
        · exact absurd e hx.2
        · exact hm
    · rw [rr_cons_done]; exact hnd'.2
    · rw [fr_cons_done, hag, fr_cons_relret]
    · intro hm; have := (h.frIn l hm).2.1; simp [avail, this] at hin
    · exact fun _ => hin.2
  · next l o rest hag =>
    exact h.congr rfl rfl rfl rfl rfl rfl rfl (by simp [grantLog_snoc, gOf]) (by simp [hag, rr_cons_done]) (by simp [hag, fr_cons_done])

end TwistedProps.C06
