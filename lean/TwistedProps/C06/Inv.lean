import TwistedModel.Defer.LockSem
namespace TwistedProps.C06
open Twisted.Defer.LockSem


theorem acquire_spec (c : Core) (l : Nat) :
    match c.acquire l with
    | (c', .granted) => 0 < c.free ∧ c'.free = c.free - 1 ∧ c'.waiting = c.waiting ∧ c'.cap = c.cap
    | (c', .queued) => c.free = 0 ∧ c'.free = 0 ∧ c'.waiting = c.waiting ++ [l] ∧ c'.cap = c.cap
    | (c', .assertion) => c.free < 0 ∧ c' = c := by
  unfold Core.acquire Core.free Core.cap
  cases hk : c.kind <;> simp only []
  · cases hl : c.locked <;> simp [hk]
  · by_cases h1 : c.tokens < 0
    · simp [h1, hk]
    · by_cases h2 : c.tokens = 0
      · simp [h2, hk]
      · simp [h1, h2, hk]; omega

theorem relAsserts_iff (c : Core) : c.relAsserts = true ↔ ¬ (c.free < c.cap) := by
  unfold Core.relAsserts Core.free Core.cap
  cases hk : c.kind <;> simp
  · cases c.locked <;> simp

theorem release_spec (c : Core) :
    match c.release with
    | (c', .assertion) => c.relAsserts = true ∧ c' = c
    | (c', .idle) => c.relAsserts = false ∧ c.waiting = [] ∧ c'.waiting = [] ∧ c'.free = c.free + 1 ∧ c'.cap = c.cap
    | (c', .woke w) => c.relAsserts = false ∧ c.waiting = w :: c'.waiting ∧ c'.free = c.free ∧ c'.cap = c.cap := by
  unfold Core.release
  cases ha : c.relAsserts
  · simp only [Bool.false_eq_true, if_false]
    unfold Core.relAsserts at ha
    unfold Core.free Core.cap
    cases hk : c.kind <;> simp only [hk] at ha ⊢
    · cases hw : c.waiting <;> simp_all
    · cases hw : c.waiting <;> simp_all
  · simp

def rr (ag : List Item) : List Nat := ag.filterMap fun | .relret l _ => some l | _ => none

/-- labels of the runs whose function is executing now (its return is on the call stack) -/
def fr (ag : List Item) : List Nat := ag.filterMap fun | .fret l => some l | _ => none

def isRunF : Option AcqKind → Bool
  | some (.run _ _) => true
  | _ => false

/-- "the result of run `l`'s function is available": f has returned, and what it returned is a
    value / an exception / a Deferred that has fired (or was cancelled) -/
def avail (s : St) (l : Nat) : Bool := decide (l ∈ s.returned) && (resultF (s.kindOf l) (s.jst l)).isSome

theorem rr_ops (cb : List Op) : rr (cb.map Item.op) = [] := by
  induction cb with
  | nil => rfl
  | cons o os ih => simpa [rr] using ih

theorem fr_ops (cb : List Op) : fr (cb.map Item.op) = [] := by
  induction cb with
  | nil => rfl
  | cons o os ih => simpa [fr] using ih

theorem rr_cons_op (o : Op) (ag : List Item) : rr (.op o :: ag) = rr ag := by simp [rr]
theorem rr_cons_done (l : Nat) (o : Out) (ag : List Item) : rr (.done l o :: ag) = rr ag := by simp [rr]
theorem rr_cons_fret (l : Nat) (ag : List Item) : rr (.fret l :: ag) = rr ag := by simp [rr]
theorem rr_cons_relret (l : Nat) (o : Out) (ag : List Item) : rr (.relret l o :: ag) = l :: rr ag := by simp [rr]
theorem rr_append (a b : List Item) : rr (a ++ b) = rr a ++ rr b := by simp [rr]
theorem fr_cons_op (o : Op) (ag : List Item) : fr (.op o :: ag) = fr ag := by simp [fr]
theorem fr_cons_done (l : Nat) (o : Out) (ag : List Item) : fr (.done l o :: ag) = fr ag := by simp [fr]
theorem fr_cons_relret (l : Nat) (o : Out) (ag : List Item) : fr (.relret l o :: ag) = fr ag := by simp [fr]
theorem fr_cons_fret (l : Nat) (ag : List Item) : fr (.fret l :: ag) = l :: fr ag := by simp [fr]
theorem fr_append (a b : List Item) : fr (a ++ b) = fr a ++ fr b := by simp [fr]

theorem rr_grantItems (s : St) (l : Nat) : rr (grantItems s l) = [] := by
  unfold grantItems
  cases hk : s.kindOf l with
  | none => simp [rr]
  | some k =>
    cases k with
    | plain cb => simp [rr_ops]
    | run f body => simp [rr_append, rr_ops, rr]

theorem fr_grantItems (s : St) (l : Nat) : fr (grantItems s l) = if isRunF (s.kindOf l) then [l] else [] := by
  unfold grantItems
  cases hk : s.kindOf l with
  | none => simp [fr, isRunF]
  | some k =>
    cases k with
    | plain cb => simp [fr_ops, isRunF]
    | run f body => simp [fr_append, fr_ops, fr, isRunF]

theorem grantLog_append (a b : List Ev) : grantLog (a ++ b) = grantLog a ++ grantLog b := by
  simp [grantLog]

def gOf : Ev → List Nat
  | .g l => [l]
  | _ => []

theorem grantLog_snoc (ev : List Ev) (e : Ev) : grantLog (ev ++ [e]) = grantLog ev ++ gOf e := by
  rw [grantLog_append]; cases e <;> rfl

def live (reqs cancelled : List Nat) : List Nat := reqs.filter fun l => !decide (l ∈ cancelled)

/-- The invariant, generalised to the intermediate points inside one `step`:
    `δ` units of capacity are in transit (taken from a holder, not yet given back to the object /
    taken from the object, not yet given to `mid`), `mid` = the acquisition being granted right now,
    `tail` = the acquisition registered but not yet queued. -/
structure G (s : St) (δ : Int) (mid tail : List Nat) : Prop where
  cap : s.core.free + s.holders.length + δ = s.core.cap
  nonneg : 0 ≤ s.core.free
  sat : s.core.waiting ≠ [] → s.core.free = 0
  fifo : grantLog s.ev ++ mid ++ s.core.waiting ++ tail = live s.reqs s.cancelled
  nodup : s.reqs.Nodup
  canc : ∀ l ∈ s.cancelled, l ∈ s.reqs
  hsub : ∀ l ∈ s.holders, l ∈ grantLog s.ev
  hnd : s.holders.Nodup
  rrIn : ∀ l ∈ rr s.agenda, l ∈ s.holders ∧ avail s l = true
  rrNd : (rr s.agenda).Nodup
  rrAll : ∀ l ∈ s.holders, avail s l = true → l ∈ rr s.agenda
  retSub : ∀ l ∈ s.returned, l ∈ grantLog s.ev
  retIn : ∀ l ∈ s.returned, isRunF (s.kindOf l) = true ∧ (l ∈ s.holders ∨ avail s l = true)
  frIn : ∀ l ∈ fr s.agenda, l ∈ s.holders ∧ l ∉ s.returned ∧ isRunF (s.kindOf l) = true
  frNd : (fr s.agenda).Nodup

abbrev Inv (s : St) : Prop := G s 0 [] []

theorem G.live_nodup {s δ mid tail} (h : G s δ mid tail) :
    (grantLog s.ev ++ mid ++ s.core.waiting ++ tail).Nodup := by
  rw [h.fifo]; exact h.nodup.filter _

theorem grant_inv (s : St) (l : Nat) (h : G s 1 [l] []) : Inv (grant s l) := by
  have hnd := h.live_nodup
  have hlg : l ∉ grantLog s.ev := by
    intro hm
    simp [List.nodup_append] at hnd
    grind
  have hl : l ∉ s.holders := fun hm => hlg (h.hsub l hm)
  have hlret : l ∉ s.returned := fun hm => hlg (h.retSub l hm)
  have hlr : l ∉ rr s.agenda := fun hm => hl (h.rrIn l hm).1
  have hlf : l ∉ fr s.agenda := fun hm => hl (h.frIn l hm).1
  have hav : ∀ x, avail (grant s l) x = avail s x := fun x => rfl
  refine ⟨?_, h.nonneg, h.sat, ?_, h.nodup, h.canc, ?_, ?_, ?_, ?_, ?_, ?_, ?_, ?_, ?_⟩
  · have := h.cap; simp [grant]; omega
  · have := h.fifo; simpa [grant, grantLog_snoc, gOf] using this
  · intro x hx
    simp [grant, grantLog_snoc, gOf] at hx ⊢
    rcases hx with rfl | hx
    · right; trivial
    · left; exact h.hsub x hx
  · simp [grant, hl, h.hnd]
  · intro x hx
    simp only [grant, rr_append, rr_grantItems, List.nil_append] at hx
    have := h.rrIn x hx
    exact ⟨List.mem_cons_of_mem _ this.1, this.2⟩
  · simp only [grant, rr_append, rr_grantItems, List.nil_append]; exact h.rrNd
  · intro x hx hax
    simp only [grant, rr_append, rr_grantItems, List.nil_append]
    rw [hav] at hax
    rcases List.mem_cons.1 hx with rfl | hx
    · simp [avail, hlret] at hax
    · exact h.rrAll x hx hax
  · intro x hx
    simp only [grant, grantLog_snoc, gOf]
    exact List.mem_append_left _ (h.retSub x hx)
  · intro x hx
    have := h.retIn x hx
    refine ⟨this.1, ?_⟩
    rcases this.2 with h1 | h1
    · exact Or.inl (List.mem_cons_of_mem _ h1)
    · exact Or.inr h1
  · intro x hx
    simp only [grant, fr_append, fr_grantItems, List.mem_append] at hx
    rcases hx with hx | hx
    · by_cases hr : isRunF (s.kindOf l) = true
      · simp [hr] at hx; subst hx
        exact ⟨List.mem_cons_self, hlret, hr⟩
      · simp [hr] at hx
    · have := h.frIn x hx
      exact ⟨List.mem_cons_of_mem _ this.1, this.2⟩
  · simp only [grant, fr_append, fr_grantItems]
    by_cases hr : isRunF (s.kindOf l) = true
    · simp [hr, hlf, h.frNd]
    · simp [hr, h.frNd]

theorem doRelease_inv (s : St) (h : G s 1 [] []) : Inv (doRelease s) := by
  have hs := release_spec s.core
  have hc := h.cap
  have hlen : (0:Int) ≤ s.holders.length := by omega
  rcases hr : s.core.release with ⟨c, r⟩
  rw [hr] at hs
  cases r with
  | assertion =>
    have := (relAsserts_iff s.core).1 hs.1
    omega
  | idle =>
    simp only [doRelease, hr]
    obtain ⟨_, hw, hw', hf, hcap⟩ := hs
    refine ⟨?_, ?_, ?_, ?_, h.nodup, h.canc, h.hsub, h.hnd, h.rrIn, h.rrNd, h.rrAll, h.retSub, h.retIn, h.frIn, h.frNd⟩
    · show c.free + s.holders.length + 0 = c.cap; omega
    · show 0 ≤ c.free; have := h.nonneg; omega
    · intro hne; exact absurd hw' hne
    · have := h.fifo; rw [hw] at this; show grantLog s.ev ++ [] ++ c.waiting ++ [] = _; rw [hw']; exact this
  | woke w =>
    simp only [doRelease, hr]
    obtain ⟨_, hw, hf, hcap⟩ := hs
    apply grant_inv
    refine ⟨?_, ?_, ?_, ?_, h.nodup, h.canc, h.hsub, h.hnd, h.rrIn, h.rrNd, h.rrAll, h.retSub, h.retIn, h.frIn, h.frNd⟩
    · show c.free + s.holders.length + 1 = c.cap; omega
    · show 0 ≤ c.free; have := h.nonneg; omega
    · intro _; show c.free = 0; rw [hf]; apply h.sat; rw [hw]; simp
    · have := h.fifo; rw [hw] at this
      show grantLog s.ev ++ [w] ++ c.waiting ++ [] = _
      simpa using this

theorem doAcquire_inv (s : St) (l : Nat) (h : G s 0 [] [l]) : Inv (doAcquire s l) := by
  have hs := acquire_spec s.core l
  have hc := h.cap
  rcases hr : s.core.acquire l with ⟨c, r⟩
  rw [hr] at hs
  cases r with
  | assertion => have := h.nonneg; omega
  | queued =>
    simp only [doAcquire, hr]
    obtain ⟨h0, hf, hw, hcap⟩ := hs
    refine ⟨?_, ?_, ?_, ?_, h.nodup, h.canc, h.hsub, h.hnd, h.rrIn, h.rrNd, h.rrAll, h.retSub, h.retIn, h.frIn, h.frNd⟩
    · show c.free + s.holders.length + 0 = c.cap; omega
    · show 0 ≤ c.free; omega
    · intro _; exact hf
    · have := h.fifo
      show grantLog s.ev ++ [] ++ c.waiting ++ [] = _
      rw [hw]; simpa using this
  | granted =>
    simp only [doAcquire, hr]
    obtain ⟨h0, hf, hw, hcap⟩ := hs
    have hemp : s.core.waiting = [] := by
      by_cases he : s.core.waiting = []
      · exact he
      · have := h.sat he; omega
    apply grant_inv
    refine ⟨?_, ?_, ?_, ?_, h.nodup, h.canc, h.hsub, h.hnd, h.rrIn, h.rrNd, h.rrAll, h.retSub, h.retIn, h.frIn, h.frNd⟩
    · show c.free + s.holders.length + 1 = c.cap; omega
    · show 0 ≤ c.free; omega
    · intro hne; rw [hw, hemp] at hne; exact absurd rfl hne
    · have := h.fifo
      show grantLog s.ev ++ [l] ++ c.waiting ++ [] = _
      rw [hw, hemp]; rw [hemp] at this; simpa using this

theorem G.congr {s s' : St} {δ : Int} {m t : List Nat} (h : G s δ m t)
    (hcore : s'.core = s.core) (hreqs : s'.reqs = s.reqs) (hk : s'.kindOf = s.kindOf)
    (hj : s'.jst = s.jst) (hret : s'.returned = s.returned) (hh : s'.holders = s.holders)
    (hc : s'.cancelled = s.cancelled)
    (hev : grantLog s'.ev = grantLog s.ev) (hag : rr s'.agenda = rr s.agenda)
    (hfr : fr s'.agenda = fr s.agenda) : G s' δ m t := by
  have hav : ∀ x, avail s' x = avail s x := by intro x; simp [avail, hk, hj, hret]
  refine ⟨?_, ?_, ?_, ?_, ?_, ?_, ?_, ?_, ?_, ?_, ?_, ?_, ?_, ?_, ?_⟩
  · rw [hcore, hh]; exact h.cap
  · rw [hcore]; exact h.nonneg
  · rw [hcore]; exact h.sat
  · rw [hcore, hreqs, hc, hev]; exact h.fifo
  · rw [hreqs]; exact h.nodup
  · rw [hreqs, hc]; exact h.canc
  · rw [hh, hev]; exact h.hsub
  · rw [hh]; exact h.hnd
  · intro x hx; rw [hag] at hx; rw [hh, hav]; exact h.rrIn x hx
  · rw [hag]; exact h.rrNd
  · intro x hx ha; rw [hh] at hx; rw [hav] at ha; rw [hag]; exact h.rrAll x hx ha
  · rw [hret, hev]; exact h.retSub
  · intro x hx; rw [hret] at hx; rw [hk, hh, hav]; exact h.retIn x hx
  · intro x hx; rw [hfr] at hx; rw [hh, hret, hk]; exact h.frIn x hx
  · rw [hfr]; exact h.frNd

theorem emit_G {s : St} {δ : Int} {m t : List Nat} (e : Ev) (he : gOf e = []) (h : G s δ m t) :
    G (s.emit e) δ m t :=
  h.congr rfl rfl rfl rfl rfl rfl rfl (by simp [St.emit, grantLog_snoc, he]) rfl rfl

theorem G.grant_req {s : St} {δ : Int} {m t : List Nat} (h : G s δ m t) {x : Nat}
    (hx : x ∈ grantLog s.ev) : x ∈ s.reqs := by
  have h2 : x ∈ live s.reqs s.cancelled := by rw [← h.fifo]; simp [hx]
  exact (List.mem_filter.1 h2).1

theorem G.holder_req {s : St} {δ : Int} {m t : List Nat} (h : G s δ m t) {x : Nat}
    (hx : x ∈ s.holders) : x ∈ s.reqs := h.grant_req (h.hsub x hx)

theorem live_snoc (reqs canc : List Nat) (l : Nat) (hl : l ∉ canc) :
    live (reqs ++ [l]) canc = live reqs canc ++ [l] := by
  simp [live, List.filter_append, hl]

theorem register_G (s : St) (l : Nat) (k : AcqKind) (h : Inv s) (hl : l ∉ s.reqs) :
    G { s with reqs := s.reqs ++ [l],
               kindOf := fun x => if x = l then some k else s.kindOf x,
               ev := s.ev ++ [.q l] } 0 [] [l] := by
  have hne : ∀ x ∈ s.holders, x ≠ l := fun x hx he => hl (he ▸ h.holder_req hx)
  have hne' : ∀ x ∈ s.returned, x ≠ l := fun x hx he => hl (he ▸ h.grant_req (h.retSub x hx))
  have hlc : l ∉ s.cancelled := fun hc => hl (h.canc l hc)
  have hav : ∀ x, x ≠ l → avail { s with reqs := s.reqs ++ [l], kindOf := fun x => if x = l then some k else s.kindOf x, ev := s.ev ++ [.q l] } x = avail s x := by
    intro x hx; simp [avail, hx]
  refine ⟨h.cap, h.nonneg, h.sat, ?_, ?_, ?_, ?_, h.hnd, ?_, h.rrNd, ?_, ?_, ?_, ?_, h.frNd⟩
  · have := h.fifo
    simp only [grantLog_snoc, gOf, live_snoc _ _ _ hlc]
    simp only [List.append_nil] at this ⊢
    rw [this]
  · exact List.nodup_append.2 ⟨h.nodup, by simp, by intro a ha b hb; simp at hb; subst hb; exact fun e => hl (e ▸ ha)⟩
  · intro x hx; simp; exact Or.inl (h.canc x hx)
  · intro x hx; simp only [grantLog_snoc, gOf, List.append_nil]; exact h.hsub x hx
  · intro x hx
    have := h.rrIn x hx
    exact ⟨this.1, by rw [hav x (hne x this.1)]; exact this.2⟩
  · intro x hx ha
    apply h.rrAll x hx
    rw [hav x (hne x hx)] at ha; exact ha
  · intro x hx; simp only [grantLog_snoc, gOf, List.append_nil]; exact h.retSub x hx
  · intro x hx
    have := h.retIn x hx
    have hxl := hne' x hx
    refine ⟨by simp only [hxl, if_false]; exact this.1, ?_⟩
    rw [hav x hxl]; exact this.2
  · intro x hx
    have := h.frIn x hx
    exact ⟨this.1, this.2.1, by simp only [hne x this.1, if_false]; exact this.2.2⟩

theorem G.no_assert {s : St} {m t : List Nat} (h : G s 0 m t) {l : Nat} (hl : l ∈ s.holders) :
    s.core.relAsserts = false := by
  have hpos : 0 < s.holders.length := List.length_pos_of_mem hl
  have hc := h.cap
  cases ha : s.core.relAsserts with
  | false => rfl
  | true => have := (relAsserts_iff s.core).1 ha; omega

/-- a holder gives its capacity back: the ghost bookkeeping before the body of `release()` -/
theorem unhold_G (s : St) (l : Nat) (ev' : List Ev) (ag' : List Item) (h : Inv s)
    (hl : l ∈ s.holders) (hev : grantLog ev' = grantLog s.ev)
    (hag : ∀ x, x ∈ rr ag' ↔ (x ∈ rr s.agenda ∧ x ≠ l)) (hagnd : (rr ag').Nodup)
    (hfr : fr ag' = fr s.agenda) (hlf : l ∉ fr s.agenda) (hlret : l ∈ s.returned → avail s l = true) :
    G { s with holders := s.holders.erase l, ev := ev', agenda := ag' } 1 [] [] := by
  have hpos : 0 < s.holders.length := List.length_pos_of_mem hl
  refine ⟨?_, h.nonneg, h.sat, ?_, h.nodup, h.canc, ?_, h.hnd.erase l, ?_, hagnd, ?_, ?_, ?_, ?_, ?_⟩
  · have := h.cap
    show s.core.free + ((s.holders.erase l).length : Int) + 1 = s.core.cap
    rw [List.length_erase_of_mem hl]; omega
  · show grantLog ev' ++ [] ++ s.core.waiting ++ [] = _
    rw [hev]; exact h.fifo
  · intro x hx
    show x ∈ grantLog ev'
    rw [hev]; exact h.hsub x (List.mem_of_mem_erase hx)
  · intro x hx
    have := (hag x).1 hx
    have h2 := h.rrIn x this.1
    exact ⟨(List.mem_erase_of_ne this.2).2 h2.1, h2.2⟩
  · intro x hx ha
    have hx' := (h.hnd.mem_erase_iff).1 hx
    exact (hag x).2 ⟨h.rrAll x hx'.2 ha, hx'.1⟩
  · intro x hx; show x ∈ grantLog ev'; rw [hev]; exact h.retSub x hx
  · intro x hx
    have := h.retIn x hx
    refine ⟨this.1, ?_⟩
    by_cases hxl : x = l
    · subst hxl; exact Or.inr (hlret hx)
    · rcases this.2 with h1 | h1
      · exact Or.inl ((List.mem_erase_of_ne hxl).2 h1)
      · exact Or.inr h1
  · intro x hx
    have hx' : x ∈ fr s.agenda := hfr ▸ hx
    have := h.frIn x hx'
    have hxl : x ≠ l := fun e => hlf (e ▸ hx')
    exact ⟨(List.mem_erase_of_ne hxl).2 this.1, this.2⟩
  · show (fr ag').Nodup; rw [hfr]; exact h.frNd

theorem live_cancel (reqs canc : List Nat) (l : Nat) :
    live reqs (l :: canc) = (live reqs canc).filter (fun x => x != l) := by
  simp only [live, List.filter_filter]
  congr 1; funext x; by_cases hx : x = l <;> simp [hx]

theorem cancel_pending_inv (s : St) (l : Nat) (h : Inv s) (hl : l ∈ s.core.waiting) (hr : l ∈ s.reqs) :
    Inv { s with core := s.core.cancelAcquire l, cancelled := l :: s.cancelled } := by
  have hnd := h.live_nodup
  simp only [List.append_nil] at hnd
  have hnd' := List.nodup_append.1 hnd
  have hlg : l ∉ grantLog s.ev := fun hg => hnd'.2.2 l hg l hl rfl
  have hfree : (s.core.cancelAcquire l).free = s.core.free := by
    unfold Core.cancelAcquire Core.free; rfl
  have hcap : (s.core.cancelAcquire l).cap = s.core.cap := by
    unfold Core.cancelAcquire Core.cap; rfl
  refine ⟨?_, ?_, ?_, ?_, h.nodup, ?_, h.hsub, h.hnd, h.rrIn, h.rrNd, h.rrAll, h.retSub, h.retIn, h.frIn, h.frNd⟩
  · show (s.core.cancelAcquire l).free + _ + 0 = (s.core.cancelAcquire l).cap
    rw [hfree, hcap]; exact h.cap
  · show 0 ≤ (s.core.cancelAcquire l).free; rw [hfree]; exact h.nonneg
  · intro hne
    show (s.core.cancelAcquire l).free = 0
    rw [hfree]; apply h.sat
    intro he; apply hne; simp [Core.cancelAcquire, he]
  · show grantLog s.ev ++ [] ++ s.core.waiting.erase l ++ [] = live s.reqs (l :: s.cancelled)
    rw [live_cancel, ← h.fifo]
    simp only [List.append_nil, List.filter_append]
    rw [hnd'.2.1.erase_eq_filter]
    congr 1
    symm
    rw [List.filter_eq_self]
    intro a ha
    simp; intro e; exact hlg (e ▸ ha)
  · intro x hx
    simp at hx
    rcases hx with rfl | hx
    · exact hr
    · exact h.canc x hx

theorem avail_setj (s : St) (l : Nat) (o : Out) (x : Nat) (hx : x ≠ l) :
    (decide (x ∈ s.returned) && (resultF (s.kindOf x) ((fun y => if y = l then some o else s.jst y) x)).isSome)
      = avail s x := by
  simp [avail, hx]

/-- `j_l` fires (or is cancelled) after `f` returned it: `_releaseAndReturn` runs -/
theorem setj_held_inv (s : St) (l : Nat) (o : Out) (ev' : List Ev) (body : List Op) (h : Inv s)
    (hk : s.kindOf l = some (.run .dfr body)) (hj : s.jst l = none) (hl : l ∈ s.returned)
    (hev : grantLog ev' = grantLog s.ev) :
    Inv { s with jst := fun y => if y = l then some o else s.jst y, ev := ev',
                 agenda := .relret l o :: s.agenda } := by
  have hna : avail s l = false := by simp [avail, resultF, hk, hj]
  have hlh : l ∈ s.holders := by
    rcases (h.retIn l hl).2 with h1 | h1
    · exact h1
    · rw [hna] at h1; exact absurd h1 (by simp)
  have hlr : l ∉ rr s.agenda := fun hm => by have := (h.rrIn l hm).2; simp [hna] at this
  have hnew : (decide (l ∈ s.returned) && (resultF (s.kindOf l) (some o)).isSome) = true := by
    simp [hl, hk, resultF]
  refine ⟨h.cap, h.nonneg, h.sat, ?_, h.nodup, h.canc, ?_, h.hnd, ?_, ?_, ?_, ?_, ?_, ?_, ?_⟩
  · show grantLog ev' ++ [] ++ s.core.waiting ++ [] = _; rw [hev]; exact h.fifo
  · intro x hx; show x ∈ grantLog ev'; rw [hev]; exact h.hsub x hx
  · intro x hx
    simp only [rr_cons_relret, List.mem_cons] at hx
    by_cases hxl : x = l
    · subst hxl; exact ⟨hlh, by simpa [avail] using hnew⟩
    · rcases hx with hx | hx
      · exact absurd hx hxl
      · have := h.rrIn x hx
        exact ⟨this.1, by simp only [avail]; rw [avail_setj s l o x hxl]; exact this.2⟩
  · simp only [rr_cons_relret]; exact List.nodup_cons.2 ⟨hlr, h.rrNd⟩
  · intro x hx ha
    simp only [rr_cons_relret, List.mem_cons]
    by_cases hxl : x = l
    · exact Or.inl hxl
    · right; apply h.rrAll x hx
      simp only [avail] at ha; rw [avail_setj s l o x hxl] at ha; exact ha
  · intro x hx; show x ∈ grantLog ev'; rw [hev]; exact h.retSub x hx
  · intro x hx
    have := h.retIn x hx
    refine ⟨this.1, ?_⟩
    by_cases hxl : x = l
    · subst hxl; exact Or.inl hlh
    · simp only [avail]; rw [avail_setj s l o x hxl]; exact this.2
  · intro x hx; rw [fr_cons_relret] at hx; exact h.frIn x hx
  · rw [fr_cons_relret]; exact h.frNd

/-- `j_l` fires before `f` has returned it (before `f` is called, from `f`'s body, or after the
    run was cancelled while pending): nobody listens yet -/
theorem setj_free_inv (s : St) (l : Nat) (o : Out) (ev' : List Ev) (h : Inv s)
    (hl : l ∉ s.returned) (hev : grantLog ev' = grantLog s.ev) :
    Inv { s with jst := fun y => if y = l then some o else s.jst y, ev := ev' } := by
  have hne : ∀ x ∈ s.returned, x ≠ l := fun x hx e => hl (e ▸ hx)
  have hav : ∀ x, avail { s with jst := fun y => if y = l then some o else s.jst y, ev := ev' } x = avail s x := by
    intro x
    by_cases hxl : x = l
    · subst hxl; simp [avail, hl]
    · simp only [avail]; rw [avail_setj s l o x hxl]; rfl
  refine ⟨h.cap, h.nonneg, h.sat, ?_, h.nodup, h.canc, ?_, h.hnd, ?_, h.rrNd, ?_, ?_, ?_, h.frIn, h.frNd⟩
  · show grantLog ev' ++ [] ++ s.core.waiting ++ [] = _; rw [hev]; exact h.fifo
  · intro x hx; show x ∈ grantLog ev'; rw [hev]; exact h.hsub x hx
  · intro x hx
    have := h.rrIn x hx
    exact ⟨this.1, by rw [hav]; exact this.2⟩
  · intro x hx ha
    rw [hav] at ha
    exact h.rrAll x hx ha
  · intro x hx; show x ∈ grantLog ev'; rw [hev]; exact h.retSub x hx
  · intro x hx
    have := h.retIn x hx
    exact ⟨this.1, by rw [hav]; exact this.2⟩

/-- the function of run `l` returns -/
theorem fret_inv (s : St) (l : Nat) (rest : List Item) (h : Inv s) (hag : s.agenda = .fret l :: rest) :
    Inv (match s.resultOf l with
      | some o => { s with agenda := .relret l o :: rest, returned := l :: s.returned, ev := s.ev ++ [.fr l] }
      | none => { s with agenda := rest, returned := l :: s.returned, ev := s.ev ++ [.fr l] }) := by
  have hfr : fr s.agenda = l :: fr rest := by rw [hag, fr_cons_fret]
  have hrr : rr s.agenda = rr rest := by rw [hag, rr_cons_fret]
  have hin := h.frIn l (by rw [hfr]; simp)
  have hfnd := h.frNd
  rw [hfr] at hfnd
  have hfnd' := List.nodup_cons.1 hfnd
  have hev : grantLog (s.ev ++ [.fr l]) = grantLog s.ev := by simp [grantLog_snoc, gOf]
  have hlr : l ∉ rr rest := fun hm => by
    have := (h.rrIn l (hrr ▸ hm)).2
    simp [avail, hin.2.1] at this
  -- availability after the return, for every label
  have hav : ∀ (ag : List Item) (x : Nat), x ≠ l →
      avail { s with agenda := ag, returned := l :: s.returned, ev := s.ev ++ [.fr l] } x = avail s x := by
    intro ag x hx; simp [avail, hx]
  have havl : ∀ (ag : List Item),
      avail { s with agenda := ag, returned := l :: s.returned, ev := s.ev ++ [.fr l] } l = (s.resultOf l).isSome := by
    intro ag; simp [avail, St.resultOf]
  have common : ∀ (ag : List Item), rr ag = (if (s.resultOf l).isSome then [l] else []) ++ rr rest → fr ag = fr rest →
      Inv { s with agenda := ag, returned := l :: s.returned, ev := s.ev ++ [.fr l] } := by
    intro ag hrag hfag
    refine ⟨h.cap, h.nonneg, h.sat, ?_, h.nodup, h.canc, ?_, h.hnd, ?_, ?_, ?_, ?_, ?_, ?_, ?_⟩
    · show grantLog (s.ev ++ [.fr l]) ++ [] ++ s.core.waiting ++ [] = _; rw [hev]; exact h.fifo
    · intro x hx; show x ∈ grantLog (s.ev ++ [.fr l]); rw [hev]; exact h.hsub x hx
    · intro x hx
      have hx' : x ∈ (if (s.resultOf l).isSome then [l] else []) ++ rr rest := hrag ▸ hx
      by_cases hxl : x = l
      · subst hxl
        rcases List.mem_append.1 hx' with h1 | h1
        · by_cases hres : (s.resultOf x).isSome = true
          · exact ⟨hin.1, by rw [havl]; exact hres⟩
          · simp [hres] at h1
        · exact absurd h1 hlr
      · rcases List.mem_append.1 hx' with h1 | h1
        · by_cases hres : (s.resultOf l).isSome = true
          · simp [hres] at h1; exact absurd h1 hxl
          · simp [hres] at h1
        · have := h.rrIn x (hrr ▸ h1)
          exact ⟨this.1, by rw [hav ag x hxl]; exact this.2⟩
    · show (rr ag).Nodup
      rw [hrag]
      by_cases hres : (s.resultOf l).isSome = true
      · simp only [hres, if_true, List.singleton_append]
        exact List.nodup_cons.2 ⟨hlr, hrr ▸ h.rrNd⟩
      · simp only [hres]; simpa using hrr ▸ h.rrNd
    · intro x hx ha
      show x ∈ rr ag
      rw [hrag]
      by_cases hxl : x = l
      · subst hxl
        rw [havl] at ha
        simp [ha]
      · rw [hav ag x hxl] at ha
        exact List.mem_append_right _ (hrr ▸ h.rrAll x hx ha)
    · intro x hx
      show x ∈ grantLog (s.ev ++ [.fr l]); rw [hev]
      rcases List.mem_cons.1 hx with rfl | hx
      · exact h.hsub x hin.1
      · exact h.retSub x hx
    · intro x hx
      rcases List.mem_cons.1 hx with rfl | hx
      · exact ⟨hin.2.2, Or.inl hin.1⟩
      · have := h.retIn x hx
        have hxl : x ≠ l := fun e => hin.2.1 (e ▸ hx)
        exact ⟨this.1, by rw [hav ag x hxl]; exact this.2⟩
    · intro x hx
      have hx' : x ∈ fr rest := hfag ▸ hx
      have := h.frIn x (by rw [hfr]; exact List.mem_cons_of_mem _ hx')
      have hxl : x ≠ l := fun e => hfnd'.1 (e ▸ hx')
      exact ⟨this.1, by simp only [List.mem_cons, not_or]; exact ⟨hxl, this.2.1⟩, this.2.2⟩
    · show (fr ag).Nodup; rw [hfag]; exact hfnd'.2
  cases hres : s.resultOf l with
  | none => exact common rest (by simp [hres]) rfl
  | some o => exact common (.relret l o :: rest) (by simp [hres, rr_cons_relret]) (by rw [fr_cons_relret])

end TwistedProps.C06
