import TwistedProps.C06.Reach
namespace TwistedProps.C06
open Twisted.Defer.LockSem

/-- labels of the runs whose `_releaseAndReturn` called `release()`, in order -/
def relLog (ev : List Ev) : List Nat := ev.filterMap fun | .rel l true => some l | _ => none

def rOf : Ev → List Nat
  | .rel l true => [l]
  | _ => []

theorem relLog_append (a b : List Ev) : relLog (a ++ b) = relLog a ++ relLog b := by simp [relLog]

theorem relLog_snoc (ev : List Ev) (e : Ev) : relLog (ev ++ [e]) = relLog ev ++ rOf e := by
  rw [relLog_append]
  cases e with
  | rel l b => cases b <;> rfl
  | _ => rfl

structure R (s : St) : Prop where
  relAvail : ∀ l ∈ relLog s.ev, avail s l = true ∧ l ∈ grantLog s.ev ∧ l ∉ s.holders
  relNd : (relLog s.ev).Nodup
  relAll : ∀ l, isRunF (s.kindOf l) = true → l ∈ grantLog s.ev → l ∈ s.holders ∨ l ∈ relLog s.ev

theorem R.congr {s s' : St} (h : R s) (hk : s'.kindOf = s.kindOf) (hj : s'.jst = s.jst)
    (hret : s'.returned = s.returned) (hh : s'.holders = s.holders) (hg : grantLog s'.ev = grantLog s.ev) (hr : relLog s'.ev = relLog s.ev) :
    R s' := by
  have hav : ∀ x, avail s' x = avail s x := by intro x; simp [avail, hk, hj, hret]
  refine ⟨?_, ?_, ?_⟩
  · intro l hl; rw [hr] at hl; rw [hav, hg, hh]; exact h.relAvail l hl
  · rw [hr]; exact h.relNd
  · intro l hl hgl; rw [hk] at hl; rw [hg] at hgl; rw [hh, hr]; exact h.relAll l hl hgl

theorem emit_R {s : St} (e : Ev) (hg : gOf e = []) (hr : rOf e = []) (h : R s) : R (s.emit e) :=
  h.congr rfl rfl rfl rfl (by simp [St.emit, grantLog_snoc, hg]) (by simp [St.emit, relLog_snoc, hr])

theorem grant_R (s : St) (l : Nat) (h : R s) (hl : l ∉ grantLog s.ev) : R (grant s l) := by
  have hlr : l ∉ relLog s.ev := fun hm => hl (h.relAvail l hm).2.1
  refine ⟨?_, ?_, ?_⟩
  · intro x hx
    simp only [grant, relLog_snoc, rOf, List.append_nil] at hx
    have := h.relAvail x hx
    refine ⟨this.1, ?_, ?_⟩
    · simp only [grant, grantLog_snoc, gOf]; exact List.mem_append_left _ this.2.1
    · simp only [grant, List.mem_cons, not_or]
      exact ⟨fun e => hlr (e ▸ hx), this.2.2⟩
  · simp only [grant, relLog_snoc, rOf, List.append_nil]; exact h.relNd
  · intro x hx hg
    simp only [grant, grantLog_snoc, gOf, List.mem_append, List.mem_singleton] at hg
    simp only [grant, relLog_snoc, rOf, List.append_nil, List.mem_cons]
    rcases hg with hg | rfl
    · rcases h.relAll x hx hg with h1 | h1
      · exact Or.inl (Or.inr h1)
      · exact Or.inr h1
    · exact Or.inl (Or.inl rfl)

theorem doRelease_R (s : St) (hG : G s 1 [] []) (h : R s) : R (doRelease s) := by
  have hs := release_spec s.core
  rcases hr : s.core.release with ⟨c, r⟩
  rw [hr] at hs
  cases r with
  | assertion => simp only [doRelease, hr]; exact emit_R .x rfl rfl h
  | idle => simp only [doRelease, hr]; exact h.congr rfl rfl rfl rfl rfl rfl
  | woke w =>
    simp only [doRelease, hr]
    apply grant_R
    · exact h.congr rfl rfl rfl rfl rfl rfl
    · have hnd := hG.live_nodup
      rw [hs.2.1] at hnd
      simp only [List.append_nil] at hnd
      have := (List.nodup_append.1 hnd).2.2
      intro hm; exact this w hm w (by simp) rfl

theorem doAcquire_R (s : St) (l : Nat) (hG : G s 0 [] [l]) (h : R s) : R (doAcquire s l) := by
  rcases hr : s.core.acquire l with ⟨c, r⟩
  cases r with
  | assertion => simp only [doAcquire, hr]; exact emit_R .xacq rfl rfl h
  | queued => simp only [doAcquire, hr]; exact h.congr rfl rfl rfl rfl rfl rfl
  | granted =>
    simp only [doAcquire, hr]
    apply grant_R
    · exact h.congr rfl rfl rfl rfl rfl rfl
    · have hnd := hG.live_nodup
      have := (List.nodup_append.1 hnd).2.2
      intro hm; exact this l (by simp [hm]) l (by simp) rfl

theorem register_R (s : St) (l : Nat) (k : AcqKind) (hI : Inv s) (h : R s) (hl : l ∉ s.reqs) :
    R { s with reqs := s.reqs ++ [l],
               kindOf := fun x => if x = l then some k else s.kindOf x,
               ev := s.ev ++ [.q l] } := by
  have hne : ∀ x ∈ grantLog s.ev, x ≠ l := fun x hx he => hl (he ▸ hI.grant_req hx)
  refine ⟨?_, ?_, ?_⟩
  · intro x hx
    simp only [relLog_snoc, rOf, List.append_nil] at hx
    have := h.relAvail x hx
    refine ⟨?_, ?_, this.2.2⟩
    · simp only [avail, hne x this.2.1, if_false]; exact this.1
    · simp only [grantLog_snoc, gOf, List.append_nil]; exact this.2.1
  · simp only [relLog_snoc, rOf, List.append_nil]; exact h.relNd
  · intro x hx hg
    simp only [grantLog_snoc, gOf, List.append_nil] at hg
    simp only [hne x hg, if_false] at hx
    simp only [relLog_snoc, rOf, List.append_nil]
    exact h.relAll x hx hg

theorem setj_R (s : St) (l : Nat) (o : Out) (ev' : List Ev) (ag' : List Item) (h : R s)
    (body : List Op)
    (hk : s.kindOf l = some (.run .dfr body)) (hg : grantLog ev' = grantLog s.ev) (hr : relLog ev' = relLog s.ev) :
    R { s with jst := fun y => if y = l then some o else s.jst y, ev := ev', agenda := ag' } := by
  refine ⟨?_, ?_, ?_⟩
  · intro x hx
    simp only [hr] at hx
    have := h.relAvail x hx
    refine ⟨?_, by simp only [hg]; exact this.2.1, this.2.2⟩
    by_cases hxl : x = l
    · subst hxl
      have h1 := this.1
      simp only [avail, Bool.and_eq_true, decide_eq_true_eq] at h1
      simp [avail, h1.1, hk, resultF]
    · simp only [avail]; rw [avail_setj s l o x hxl]; exact this.1
  · simp only [hr]; exact h.relNd
  · intro x hx hgl
    simp only [hg] at hgl; simp only [hr]
    exact h.relAll x hx hgl

theorem unhold_plain_R (s : St) (l : Nat) (ag' : List Item) (h : R s)
    (hp : isRunF (s.kindOf l) = false) :
    R { s with holders := s.holders.erase l, ev := s.ev ++ [.R l, .rel l false], agenda := ag' } := by
  have hg : grantLog (s.ev ++ [.R l, .rel l false]) = grantLog s.ev := by simp [grantLog_append, grantLog]
  have hr : relLog (s.ev ++ [.R l, .rel l false]) = relLog s.ev := by simp [relLog_append, relLog]
  refine ⟨?_, ?_, ?_⟩
  · intro x hx
    simp only [hr] at hx
    have := h.relAvail x hx
    exact ⟨this.1, by simp only [hg]; exact this.2.1, fun hm => this.2.2 (List.mem_of_mem_erase hm)⟩
  · simp only [hr]; exact h.relNd
  · intro x hx hgl
    simp only [hg] at hgl; simp only [hr]
    rcases h.relAll x hx hgl with h1 | h1
    · left
      apply (List.mem_erase_of_ne _).2 h1
      intro e; rw [e, hp] at hx; exact absurd hx (by simp)
    · exact Or.inr h1

theorem unhold_run_R (s : St) (l : Nat) (ag' : List Item) (hI : Inv s) (h : R s)
    (hl : l ∈ s.holders) (ha : avail s l = true) :
    R { s with holders := s.holders.erase l, ev := s.ev ++ [.rel l true], agenda := ag' } := by
  have hlr : l ∉ relLog s.ev := fun hm => (h.relAvail l hm).2.2 hl
  refine ⟨?_, ?_, ?_⟩
  · intro x hx
    simp only [relLog_snoc, rOf, List.mem_append, List.mem_singleton] at hx
    simp only [grantLog_snoc, gOf, List.append_nil]
    rcases hx with hx | rfl
    · have := h.relAvail x hx
      exact ⟨this.1, this.2.1, fun hm => this.2.2 (List.mem_of_mem_erase hm)⟩
    · exact ⟨ha, hI.hsub x hl, fun hm => ((hI.hnd.mem_erase_iff).1 hm).1 rfl⟩
  · simp only [relLog_snoc, rOf]
    exact List.nodup_append.2 ⟨h.relNd, by simp, by intro a ha' b hb; simp at hb; subst hb; exact fun e => hlr (e ▸ ha')⟩
  · intro x hx hgl
    simp only [grantLog_snoc, gOf, List.append_nil] at hgl
    simp only [relLog_snoc, rOf, List.mem_append, List.mem_singleton]
    by_cases hxl : x = l
    · exact Or.inr (Or.inr hxl)
    · rcases h.relAll x hx hgl with h1 | h1
      · exact Or.inl ((List.mem_erase_of_ne hxl).2 h1)
      · exact Or.inr (Or.inl h1)

theorem stepOp_R (s : St) (o : Op) (hI : Inv s) (h : R s) (hok : (stepOp s o).ok = true) : R (stepOp s o) := by
  cases o with
  | acquire l cb =>
    simp only [stepOp]
    split
    · exact emit_R .bad rfl rfl h
    · next hl => exact doAcquire_R _ l (register_G s l (.plain cb) hI hl) (register_R s l _ hI h hl)
  | run l f body =>
    simp only [stepOp]
    split
    · exact emit_R .bad rfl rfl h
    · next hl => exact doAcquire_R _ l (register_G s l (.run f body) hI hl) (register_R s l _ hI h hl)
  | release l =>
    by_cases hwf : s.holdsPlain l = true
    · simp only [stepOp, hwf, if_true]
      simp only [St.holdsPlain, Bool.and_eq_true, decide_eq_true_eq] at hwf
      have hna := hI.no_assert hwf.1
      simp only [hna, Bool.false_eq_true, if_false]
      have hp : isRunF (s.kindOf l) = false := by
        cases hk : s.kindOf l with
        | none => rfl
        | some k => cases k with
          | plain cb => rfl
          | run f body => simp [hk, AcqKind.isPlain] at hwf
      have hplain : avail s l = false := by
        unfold avail
        cases hk : s.kindOf l with
        | none => simp [resultF]
        | some k => cases k with
          | plain cb => simp [resultF]
          | run f body => simp [hk, isRunF] at hp
      apply doRelease_R
      · apply unhold_G s l _ _ hI hwf.1
        · simp [grantLog_append, grantLog]
        · intro x
          constructor
          · intro hx
            refine ⟨hx, fun e => ?_⟩
            have := (hI.rrIn x hx).2; rw [e, hplain] at this; exact absurd this (by simp)
          · exact fun hx => hx.1
        · exact hI.rrNd
        · rfl
        · intro hm; have := (hI.frIn l hm).2.2; rw [hp] at this; exact absurd this (by simp)
        · intro hm; have := (hI.retIn l hm).1; rw [hp] at this; exact absurd this (by simp)
      · exact unhold_plain_R s l _ h hp
    · simp only [stepOp, hwf, Bool.false_eq_true, if_false] at hok
      rw [doRelease_ok] at hok; simp at hok
  | cancel l =>
    simp only [stepOp]
    split
    · exact emit_R .bad rfl rfl h
    · have h1 : R (s.emit (.K l)) := emit_R _ rfl rfl h
      split
      · split
        · exact emit_R _ rfl rfl (h1.congr rfl rfl rfl rfl rfl rfl)
        · exact emit_R _ rfl rfl (h1.congr rfl rfl rfl rfl rfl rfl)
      · split
        · next hk hj =>
          split
          · exact setj_R s l .cancel _ _ h _ hk (by simp [St.emit, grantLog_snoc, gOf]) (by simp [St.emit, relLog_snoc, rOf])
          · exact h1
        · exact h1
  | fire l b =>
    simp only [stepOp]
    split
    · next hk hj =>
      split
      · exact setj_R s l _ _ _ h _ hk (by simp [grantLog_snoc, gOf]) (by simp [relLog_snoc, rOf])
      · exact setj_R s l _ _ _ h _ hk (by simp [grantLog_snoc, gOf]) (by simp [relLog_snoc, rOf])
    · exact emit_R .bad rfl rfl h

theorem fret_R (s : St) (l : Nat) (rest : List Item) (h : R s) :
    R (match s.resultOf l with
      | some o => { s with agenda := .relret l o :: rest, returned := l :: s.returned, ev := s.ev ++ [.fr l] }
      | none => { s with agenda := rest, returned := l :: s.returned, ev := s.ev ++ [.fr l] }) := by
  have common : ∀ (ag : List Item), R { s with agenda := ag, returned := l :: s.returned, ev := s.ev ++ [.fr l] } := by
    intro ag
    refine ⟨?_, ?_, ?_⟩
    · intro x hx
      simp only [relLog_snoc, rOf, List.append_nil] at hx
      have := h.relAvail x hx
      refine ⟨?_, by simp only [grantLog_snoc, gOf, List.append_nil]; exact this.2.1, this.2.2⟩
      have h1 := this.1
      simp only [avail, Bool.and_eq_true, decide_eq_true_eq] at h1 ⊢
      exact ⟨List.mem_cons_of_mem _ h1.1, h1.2⟩
    · simp only [relLog_snoc, rOf, List.append_nil]; exact h.relNd
    · intro x hx hg
      simp only [grantLog_snoc, gOf, List.append_nil] at hg
      simp only [relLog_snoc, rOf, List.append_nil]
      exact h.relAll x hx hg
  cases s.resultOf l with
  | none => exact common rest
  | some o => exact common _

theorem step_R (s : St) (hI : Inv s) (h : R s) (hok : (step s).ok = true) : R (step s) := by
  unfold step at hok ⊢
  split
  · exact h
  · next o rest hag =>
    simp only [hag] at hok
    apply stepOp_R _ _ _ _ hok
    · exact hI.congr rfl rfl rfl rfl rfl rfl rfl rfl (by simp [hag, rr_cons_op]) (by simp [hag, fr_cons_op])
    · exact h.congr rfl rfl rfl rfl rfl rfl
  · next l rest hag => exact fret_R s l rest h
  · next l o rest hag =>
    have hrr : rr s.agenda = l :: rr rest := by rw [hag, rr_cons_relret]
    have hin := hI.rrIn l (by rw [hrr]; simp)
    have hna := hI.no_assert hin.1
    have hnd := hI.rrNd
    rw [hrr] at hnd
    have hnd' := List.nodup_cons.1 hnd
    simp only [hna, Bool.false_eq_true, if_false]
    apply doRelease_R
    · apply unhold_G s l _ _ hI hin.1
      · simp [grantLog_snoc, gOf]
      · intro x
        rw [rr_cons_done, hrr]
        constructor
        · intro hx; exact ⟨List.mem_cons_of_mem _ hx, fun e => hnd'.1 (e ▸ hx)⟩
        · intro hx
          rcases List.mem_cons.1 hx.1 with e | hm
          · exact absurd e hx.2
          · exact hm
      · rw [rr_cons_done]; exact hnd'.2
      · rw [fr_cons_done, hag, fr_cons_relret]
      · intro hm; have := (hI.frIn l hm).2.1; simp [avail, this] at hin
      · exact fun _ => hin.2
    · exact unhold_run_R s l _ hI h hin.1 hin.2
  · next l o rest hag =>
    exact h.congr rfl rfl rfl rfl (by simp [grantLog_snoc, gOf]) (by simp [relLog_snoc, rOf])

theorem init_R (k : Kind) (lim : Nat) : R (init k lim) := by
  refine ⟨?_, ?_, ?_⟩ <;> simp [init, relLog, grantLog]

theorem reach_R {k : Kind} {lim : Nat} {s : St} (h : Reach k lim s) (hok : s.ok = true) : R s := by
  induction h with
  | refl => exact init_R k lim
  | step hs ih =>
    have hok' := step_ok _ hok
    exact step_R _ (reach_inv hs hok') (ih hok') hok
  | call o _ _ ih => exact (ih hok).congr rfl rfl rfl rfl rfl rfl

end TwistedProps.C06
