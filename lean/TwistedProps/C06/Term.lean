import TwistedProps.C06.Reach
/-!
Termination of the call stack: every top-level call returns.  `mu` bounds the number of `step`s
until the agenda is empty (so `drain`/`call`/`exec` with that much fuel reach a quiescent state,
and the quiescence hypotheses of the theorems in `TwistedProps.C06` are met by every history).
-/
namespace TwistedProps.C06
open Twisted.Defer.LockSem

mutual
def opSize : Op → Nat
  | .acquire _ cb => 1 + opsSize cb
  | .run _ _ body => 4 + opsSize body
  | .release _ => 1
  | .cancel _ => 3
  | .fire _ _ => 3
def opsSize : List Op → Nat
  | [] => 0
  | o :: os => opSize o + opsSize os
end

def itemSize : Item → Nat
  | .op o => opSize o
  | .fret _ => 3
  | .relret _ _ => 2
  | .done _ _ => 1

def agSize (ag : List Item) : Nat := (ag.map itemSize).sum

def kindW : Option AcqKind → Nat
  | some (.plain cb) => opsSize cb
  | some (.run _ body) => opsSize body + 3
  | none => 0

def wsum (f : Nat → Nat) (ls : List Nat) : Nat := (ls.map f).sum

def mu (s : St) : Nat := agSize s.agenda + wsum (fun l => kindW (s.kindOf l)) s.core.waiting

/-- pending acquisitions are known requests (holds in every reachable state, well-formed or not) -/
def W (s : St) : Prop := ∀ l ∈ s.core.waiting, l ∈ s.reqs

theorem agSize_append (a b : List Item) : agSize (a ++ b) = agSize a + agSize b := by simp [agSize]
theorem agSize_cons (i : Item) (a : List Item) : agSize (i :: a) = itemSize i + agSize a := by simp [agSize]

theorem agSize_ops (cb : List Op) : agSize (cb.map Item.op) = opsSize cb := by
  induction cb with
  | nil => simp [agSize, opsSize]
  | cons o os ih => simp only [List.map_cons, agSize_cons, ih, itemSize, opsSize]

theorem agSize_grantItems (s : St) (l : Nat) : agSize (grantItems s l) ≤ kindW (s.kindOf l) := by
  unfold grantItems
  cases hk : s.kindOf l with
  | none => simp [agSize, kindW]
  | some k =>
    cases k with
    | plain cb => simp [agSize_ops, kindW]
    | run f body =>
      simp only [agSize_append, agSize_ops, kindW]
      simp [agSize, itemSize]

theorem wsum_erase_le (f : Nat → Nat) (ls : List Nat) (l : Nat) : wsum f (ls.erase l) ≤ wsum f ls := by
  induction ls with
  | nil => simp [wsum]
  | cons a as ih =>
    by_cases h : a = l
    · subst h; simp [wsum]
    · rw [List.erase_cons_tail (by simpa using h)]
      simp only [wsum, List.map_cons, List.sum_cons] at ih ⊢; omega

theorem wsum_congr (f g : Nat → Nat) (ls : List Nat) (h : ∀ x ∈ ls, f x = g x) : wsum f ls = wsum g ls := by
  induction ls with
  | nil => rfl
  | cons a as ih =>
    simp only [wsum, List.map_cons, List.sum_cons] at ih ⊢
    rw [h a (by simp), ih (fun x hx => h x (by simp [hx]))]

theorem wsum_snoc (f : Nat → Nat) (ls : List Nat) (l : Nat) : wsum f (ls ++ [l]) = wsum f ls + f l := by
  simp [wsum]

theorem mu_grant (s : St) (l : Nat) : mu (grant s l) = mu s + agSize (grantItems s l) := by
  simp only [mu, grant, agSize_append]; omega

theorem doRelease_mu (s : St) : mu (doRelease s) ≤ mu s := by
  have hs := release_spec s.core
  rcases hr : s.core.release with ⟨c, r⟩
  rw [hr] at hs
  cases r with
  | assertion => simp only [doRelease, hr]; exact Nat.le_refl _
  | idle =>
    simp only [doRelease, hr]
    simp only [mu, hs.2.1, hs.2.2.1]; exact Nat.le_refl _
  | woke w =>
    simp only [doRelease, hr]
    rw [mu_grant]
    have := agSize_grantItems { s with core := c } w
    simp only [mu, hs.2.1, wsum, List.map_cons, List.sum_cons] at this ⊢
    omega

theorem doAcquire_mu (s : St) (l : Nat) : mu (doAcquire s l) ≤ mu s + kindW (s.kindOf l) := by
  have hs := acquire_spec s.core l
  rcases hr : s.core.acquire l with ⟨c, r⟩
  rw [hr] at hs
  cases r with
  | assertion => simp only [doAcquire, hr]; exact Nat.le_add_right _ _
  | queued =>
    simp only [doAcquire, hr]
    simp only [mu, hs.2.2.1, wsum_snoc]; omega
  | granted =>
    simp only [doAcquire, hr]
    rw [mu_grant]
    have := agSize_grantItems { s with core := c } l
    simp only [mu, hs.2.2.1] at this ⊢
    omega

theorem mu_register (s : St) (l : Nat) (k : AcqKind) (ev' : List Ev) (reqs' : List Nat) (hw : l ∉ s.core.waiting) :
    mu { s with reqs := reqs', kindOf := fun x => if x = l then some k else s.kindOf x, ev := ev' } = mu s := by
  simp only [mu]
  congr 1
  apply wsum_congr
  intro x hx
  have : x ≠ l := fun e => hw (e ▸ hx)
  simp [this]

theorem stepOp_mu (s : St) (o : Op) (hW : W s) : mu (stepOp s o) + 1 ≤ mu s + opSize o := by
  cases o with
  | acquire l cb =>
    simp only [stepOp, opSize]
    split
    · show mu s + 1 ≤ _; omega
    · next hl =>
      have h1 := doAcquire_mu { s with reqs := s.reqs ++ [l], kindOf := fun x => if x = l then some (.plain cb) else s.kindOf x, ev := s.ev ++ [.q l] } l
      rw [mu_register s l _ _ _ (fun hw => hl (hW l hw))] at h1
      simp only [if_true, kindW] at h1
      omega
  | run l f body =>
    simp only [stepOp, opSize]
    split
    · show mu s + 1 ≤ _; omega
    · next hl =>
      have h1 := doAcquire_mu { s with reqs := s.reqs ++ [l], kindOf := fun x => if x = l then some (.run f body) else s.kindOf x, ev := s.ev ++ [.q l] } l
      rw [mu_register s l _ _ _ (fun hw => hl (hW l hw))] at h1
      simp only [if_true, kindW] at h1
      omega
  | release l =>
    simp only [stepOp, opSize]
    split
    · split
      · exact Nat.add_le_add_right (doRelease_mu _) 1
      · exact Nat.add_le_add_right (doRelease_mu _) 1
    · exact Nat.add_le_add_right (doRelease_mu _) 1
  | cancel l =>
    simp only [stepOp, opSize]
    split
    · show mu s + 1 ≤ _; omega
    · split
      · have : wsum (fun l => kindW (s.kindOf l)) (s.core.waiting.erase l) ≤ _ := wsum_erase_le _ _ l
        split <;> (simp only [mu, St.emit, Core.cancelAcquire]; omega)
      · split
        · split
          · simp only [mu, St.emit, agSize_cons, itemSize]; omega
          · show mu s + 1 ≤ _; omega
        · show mu s + 1 ≤ _; omega
  | fire l b =>
    simp only [stepOp, opSize]
    split
    · split
      · simp only [mu, agSize_cons, itemSize]; omega
      · show mu s + 1 ≤ _; omega
    · show mu s + 1 ≤ _; omega

theorem step_mu (s : St) (hW : W s) (hne : s.agenda ≠ []) : mu (step s) < mu s := by
  unfold step
  split
  · next h => exact absurd h hne
  · next o rest hag =>
    have := stepOp_mu { s with agenda := rest } o hW
    simp only [mu, hag, agSize_cons, itemSize] at this ⊢
    omega
  · next l rest hag =>
    split <;> (simp only [mu, hag, agSize_cons, itemSize]; omega)
  · next l o rest hag =>
    dsimp only
    refine Nat.lt_of_le_of_lt (doRelease_mu _) ?_
    simp only [mu, hag, agSize_cons, itemSize]; omega
  · next l o rest hag =>
    simp only [mu, hag, agSize_cons, itemSize]; omega

/-! `W` is an invariant of every step (no well-formedness needed) -/

theorem doRelease_W (s : St) (h : W s) : W (doRelease s) := by
  have hs := release_spec s.core
  rcases hr : s.core.release with ⟨c, r⟩
  rw [hr] at hs
  cases r with
  | assertion => simp only [doRelease, hr]; exact h
  | idle => simp only [doRelease, hr]; intro x hx; rw [show c.waiting = [] from hs.2.2.1] at hx; simp at hx
  | woke w =>
    simp only [doRelease, hr]
    intro x hx
    have hx' : x ∈ c.waiting := hx
    exact h x (by rw [hs.2.1]; exact List.mem_cons_of_mem _ hx')

theorem doAcquire_W (s : St) (l : Nat) (h : W s) (hl : l ∈ s.reqs) : W (doAcquire s l) := by
  have hs := acquire_spec s.core l
  rcases hr : s.core.acquire l with ⟨c, r⟩
  rw [hr] at hs
  cases r with
  | assertion => simp only [doAcquire, hr]; exact h
  | queued =>
    simp only [doAcquire, hr]
    intro x hx
    rw [show c.waiting = s.core.waiting ++ [l] from hs.2.2.1] at hx
    rcases List.mem_append.1 hx with hx | hx
    · exact h x hx
    · simp at hx; subst hx; exact hl
  | granted =>
    simp only [doAcquire, hr]
    intro x hx
    have hx' : x ∈ c.waiting := hx
    rw [show c.waiting = s.core.waiting from hs.2.2.1] at hx'
    exact h x hx'

theorem stepOp_W (s : St) (o : Op) (h : W s) : W (stepOp s o) := by
  cases o with
  | acquire l cb =>
    simp only [stepOp]
    split
    · exact h
    · exact doAcquire_W _ l (fun x hx => List.mem_append_left _ (h x hx)) (by simp)
  | run l f body =>
    simp only [stepOp]
    split
    · exact h
    · exact doAcquire_W _ l (fun x hx => List.mem_append_left _ (h x hx)) (by simp)
  | release l =>
    simp only [stepOp]
    split
    · split <;> exact doRelease_W _ h
    · exact doRelease_W _ h
  | cancel l =>
    simp only [stepOp]
    split
    · exact h
    · split
      · split <;> exact fun x hx => h x (List.mem_of_mem_erase hx)
      · split
        · split <;> exact h
        · exact h
  | fire l b =>
    simp only [stepOp]
    split
    · split <;> exact h
    · exact h

theorem step_W (s : St) (h : W s) : W (step s) := by
  unfold step
  split
  · exact h
  · next o rest _ => exact stepOp_W { s with agenda := rest } o h
  · split <;> exact h
  · exact doRelease_W _ h
  · exact h

theorem reach_W {k : Kind} {lim : Nat} {s : St} (h : Reach k lim s) : W s := by
  induction h with
  | refl => intro x hx; simp [init] at hx
  | step _ ih => exact step_W _ ih
  | call o _ _ ih => exact ih

theorem drain_W (n : Nat) (s : St) (h : W s) : W (drain n s) := by
  induction n generalizing s with
  | zero => exact h
  | succ n ih =>
    unfold drain
    split
    · exact h
    · exact ih _ (step_W _ h)

/-- with `mu s` fuel the call stack runs empty -/
theorem drain_quiescent (n : Nat) (s : St) (hW : W s) (hn : mu s ≤ n) : (drain n s).agenda = [] := by
  induction n generalizing s with
  | zero =>
    cases hag : s.agenda with
    | nil => simpa [drain] using hag
    | cons i rest =>
      cases i <;> (simp only [mu, hag, agSize_cons, itemSize] at hn; try cases ‹Op› <;> simp [opSize] at hn) <;> omega
  | succ n ih =>
    unfold drain
    split
    · next h => exact h
    · next i rest hag =>
      have := step_mu s hW (by rw [hag]; simp)
      exact ih _ (step_W _ hW) (by omega)

end TwistedProps.C06
