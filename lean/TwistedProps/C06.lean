import TwistedProps.C06.Run
import TwistedProps.C06.Term
/-!
C06 — DeferredLock and DeferredSemaphore are safe, fair and lose no capacity.

Statement (fixed): for any interleaving of acquire, release by holders, cancellation of pending
or already granted acquisitions, and run() with functions that succeed, fail or return Deferreds
that fire later, the number of holders never exceeds the limit (one for a lock) and a pending
acquisition is granted as soon as capacity is free, in request order.  A cancelled pending
acquisition is never granted and takes no capacity, and run() releases exactly once, after its
function's result is available.

Setting.  `Twisted.Defer.LockSem` is a small-step model: `St.agenda` is the Python call stack of
pending callback work, `step` executes its top item, a top-level call (`ReachFrom.call`) is made
only when the stack is empty.  `Reach k lim s` = `s` is reachable from the fresh primitive of kind
`k` (limit `lim`) by ANY sequence of calls from the grammar `Op` (acquire with an arbitrary nested
callback script, run with f ∈ {value, raise, Deferred} after an arbitrary nested body, release,
cancel, fire) — unbounded, and
including every intermediate state in the middle of re-entrant callbacks.  `s.ok = true` is the
property's own precondition: every `release` so far was made on behalf of a plain acquisition
that held the primitive at that moment (`St.holdsPlain`, decidable, evaluated by the model as the
history runs).  Lemmas: `TwistedProps/C06/{Inv,Step,Reach,Run,Term}.lean`.
-/
namespace TwistedProps.C06
open Twisted.Defer.LockSem


theorem drain_reach {s0 s : St} (h : ReachFrom s0 s) (n : Nat) : ReachFrom s0 (drain n s) := by
  induction n generalizing s with
  | zero => exact h
  | succ n ih =>
    unfold drain
    split
    · exact h
    · exact ih (.step h)

theorem call_reach {s0 s : St} (h : ReachFrom s0 s) (hq : s.agenda = []) (fuel : Nat) (o : Op) :
    ReachFrom s0 (call fuel s o) := drain_reach (.call o h hq) fuel

/-- a concrete re-entrant history on a lock -/
def demoOps : List Op :=
  [.acquire 1 [], .acquire 2 [.release 2, .acquire 5 []], .run 3 .dfr [.acquire 6 [], .cancel 3], .acquire 4 [],
   .cancel 4, .release 1, .fire 3 true]

def demo : St := exec 100 (init .lock 1) demoOps

example : demo.ok = true ∧ demo.agenda.length = 0 ∧ grantLog demo.ev = [1, 2, 3, 6] ∧ demo.holders = [6]
    ∧ demo.cancelled = [4] ∧ demo.core.waiting = [5] := by decide


/-- **No capacity lost or invented**: in every reachable state — also in the middle of nested
    callbacks — what the object reports free (`tokens`, or `not locked`) plus the number of current
    holders is the limit. -/
theorem capacity_conserved {k : Kind} {lim : Nat} {s : St} (h : Reach k lim s) (hok : s.ok = true) :
    s.core.free + s.holders.length = capOf k lim ∧ 0 ≤ s.core.free := by
  have hi := reach_inv h hok
  have := hi.cap
  rw [reachFrom_cap h, init_cap] at this
  exact ⟨by omega, hi.nonneg⟩

/-- **Safety**: never more holders than the limit (one for a lock). -/
theorem holders_le_limit {k : Kind} {lim : Nat} {s : St} (h : Reach k lim s) (hok : s.ok = true) :
    (s.holders.length : Int) ≤ capOf k lim := by
  have := capacity_conserved h hok; omega

theorem lock_at_most_one_holder {lim : Nat} {s : St} (h : Reach .lock lim s) (hok : s.ok = true) :
    s.holders.length ≤ 1 := by
  have := holders_le_limit h hok; simp [capOf] at this; omega

/-- **Granted as soon as capacity is free**: whenever somebody is pending, every unit of capacity
    is held — in every reachable state (a release hands its unit to the head of the queue within
    the same `release()` call, before anything else runs). -/
theorem granted_as_soon_as_free {k : Kind} {lim : Nat} {s : St} (h : Reach k lim s) (hok : s.ok = true)
    (hw : s.core.waiting ≠ []) : s.core.free = 0 ∧ (s.holders.length : Int) = capOf k lim := by
  have hf := (reach_inv h hok).sat hw
  have := capacity_conserved h hok
  exact ⟨hf, by omega⟩

/-- **FIFO**: the acquisitions granted so far, in the order they were granted, followed by the
    pending ones in queue order, are exactly the requests in request order minus the cancelled
    ones.  (So the grant order is the request order, nobody is overtaken, and the queue holds
    exactly the requests that are neither granted nor cancelled.) -/
theorem grant_fifo {k : Kind} {lim : Nat} {s : St} (h : Reach k lim s) (hok : s.ok = true) :
    grantLog s.ev ++ s.core.waiting = s.reqs.filter (fun l => !decide (l ∈ s.cancelled)) ∧ s.reqs.Nodup := by
  have hi := reach_inv h hok
  have := hi.fifo
  simp only [List.append_nil] at this
  exact ⟨this, hi.nodup⟩

/-- consequence: if `a` was requested before `b`, `a` was not cancelled and `b` has been granted,
    then `a` was granted before `b` (as positions in the grant log). -/
theorem no_overtaking {k : Kind} {lim : Nat} {s : St} (h : Reach k lim s) (hok : s.ok = true) :
    grantLog s.ev <+: s.reqs.filter (fun l => !decide (l ∈ s.cancelled)) := by
  rw [← (grant_fifo h hok).1]; exact List.prefix_append _ _

/-- **A cancelled pending acquisition is never granted**: once `l` is cancelled, in every state
    reachable afterwards it has not been granted, does not hold and is not queued. -/
theorem cancelled_never_granted {k : Kind} {lim : Nat} {s s' : St} {l : Nat} (h : Reach k lim s)
    (hc : l ∈ s.cancelled) (hfut : ReachFrom s s') (hok : s'.ok = true) :
    l ∉ grantLog s'.ev ∧ l ∉ s'.holders ∧ l ∉ s'.core.waiting := by
  have hr : Reach k lim s' := ReachFrom.trans h hfut
  have hc' : l ∈ s'.cancelled := reachFrom_cancelled hfut hc
  have hi := reach_inv hr hok
  have hmem : ∀ x, x ∈ grantLog s'.ev ++ s'.core.waiting → x ∉ s'.cancelled := by
    intro x hx
    have hf := hi.fifo
    simp only [List.append_nil] at hf
    rw [hf] at hx
    have := (List.mem_filter.1 hx).2
    simpa [live] using this
  refine ⟨fun hg => hmem l (List.mem_append_left _ hg) hc', fun hh => ?_, fun hw => hmem l (List.mem_append_right _ hw) hc'⟩
  exact hmem l (List.mem_append_left _ (hi.hsub l hh)) hc'

/-- **…and takes no capacity**: cancelling a pending acquisition only removes it from the queue —
    free capacity, holders and grant log are untouched. -/
theorem cancel_pending_takes_nothing (s : St) (l : Nat) (hr : l ∈ s.reqs) (hw : l ∈ s.core.waiting) :
    let s' := stepOp s (.cancel l)
    s'.core.free = s.core.free ∧ s'.holders = s.holders ∧ grantLog s'.ev = grantLog s.ev
      ∧ s'.core.waiting = s.core.waiting.erase l ∧ l ∈ s'.cancelled := by
  have hfree : (s.core.cancelAcquire l).free = s.core.free := by unfold Core.cancelAcquire Core.free; rfl
  simp only [stepOp, hr, not_true_eq_false, if_false, St.emit, hw, if_true]
  have hfree' : ({ s.core with waiting := s.core.waiting.erase l } : Core).free = s.core.free := hfree
  split <;> (simp only [Core.cancelAcquire, grantLog_append, hfree']; simp [grantLog])

/-- a well-formed history never trips the assertions of `release()` / `acquire()` -/
theorem holder_release_never_asserts {k : Kind} {lim : Nat} {s : St} (h : Reach k lim s) (hok : s.ok = true)
    {l : Nat} (hl : l ∈ s.holders) : s.core.relAsserts = false :=
  (reach_inv h hok).no_assert hl

/-! ### run(): releases exactly once, after its function's result is available

`relLog s.ev` lists, in order, the runs whose `_releaseAndReturn` has called `release()`;
`avail s l` = "the result of run `l`'s function is available": `f` has returned (after running its
body) a value / an exception, or a Deferred that has fired (or was cancelled);
`l ∈ grantLog s.ev` = `f` has been called. -/

/-- at most once -/
theorem run_releases_at_most_once {k : Kind} {lim : Nat} {s : St} (h : Reach k lim s) (hok : s.ok = true)
    (l : Nat) : (relLog s.ev).count l ≤ 1 :=
  List.nodup_iff_count.1 (reach_R h hok).relNd l

/-- only after `f` was called and its result is available; and the run then no longer holds -/
theorem run_release_after_result {k : Kind} {lim : Nat} {s : St} (h : Reach k lim s) (hok : s.ok = true)
    {l : Nat} (hl : l ∈ relLog s.ev) : l ∈ grantLog s.ev ∧ avail s l = true ∧ l ∉ s.holders := by
  have := (reach_R h hok).relAvail l hl
  exact ⟨this.2.1, this.1, this.2.2⟩

/-- a run that holds and whose result is available has its release on the call stack right now
    (it is the continuation of the frame that made the result available) … -/
theorem run_release_is_pending {k : Kind} {lim : Nat} {s : St} (h : Reach k lim s) (hok : s.ok = true)
    {l : Nat} (hh : l ∈ s.holders) (ha : avail s l = true) : l ∈ rr s.agenda :=
  (reach_inv h hok).rrAll l hh ha

/-- … hence **exactly once**: whenever the call stack is empty, every run whose function was called
    and whose result is available has released (once, by `run_releases_at_most_once`) and holds
    nothing; and a run whose result is not yet available still holds. -/
theorem run_releases_exactly_once_after_result {k : Kind} {lim : Nat} {s : St} (h : Reach k lim s)
    (hok : s.ok = true) (hq : s.agenda = []) {l : Nat} (hrun : isRunF (s.kindOf l) = true)
    (hg : l ∈ grantLog s.ev) :
    (avail s l = true → (relLog s.ev).count l = 1 ∧ l ∉ s.holders) ∧
    (avail s l = false → (relLog s.ev).count l = 0 ∧ l ∈ s.holders) := by
  have hR := reach_R h hok
  have hI := reach_inv h hok
  constructor
  · intro ha
    have hnh : l ∉ s.holders := by
      intro hh
      have := hI.rrAll l hh ha
      rw [hq] at this; simp [rr] at this
    rcases hR.relAll l hrun hg with h1 | h1
    · exact absurd h1 hnh
    · have h2 := run_releases_at_most_once h hok l
      have h3 : 0 < (relLog s.ev).count l := List.count_pos_iff.2 h1
      exact ⟨by omega, hnh⟩
  · intro ha
    have hnr : l ∉ relLog s.ev := by
      intro hm
      have := (hR.relAvail l hm).1
      rw [ha] at this; exact absurd this (by simp)
    rcases hR.relAll l hrun hg with h1 | h1
    · exact ⟨List.count_eq_zero.2 hnr, h1⟩
    · exact absurd h1 hnr

/-- **C06** — the headline: for every history of calls (well-formed = releases by holders), in
    every reachable state: capacity is conserved, holders ≤ limit, pending ⇒ saturated, grant order
    ++ queue = request order minus cancelled, nothing cancelled is granted/holding/queued, and
    runs release at most once and only after their result is available. -/
theorem safe_fair_no_capacity_lost {k : Kind} {lim : Nat} {s : St} (h : Reach k lim s) (hok : s.ok = true) :
    (s.core.free + s.holders.length = capOf k lim ∧ 0 ≤ s.core.free)
    ∧ ((s.holders.length : Int) ≤ capOf k lim)
    ∧ (s.core.waiting ≠ [] → s.core.free = 0 ∧ (s.holders.length : Int) = capOf k lim)
    ∧ (grantLog s.ev ++ s.core.waiting = s.reqs.filter (fun l => !decide (l ∈ s.cancelled)))
    ∧ (∀ l ∈ s.cancelled, l ∉ grantLog s.ev ∧ l ∉ s.holders ∧ l ∉ s.core.waiting)
    ∧ (∀ l, (relLog s.ev).count l ≤ 1)
    ∧ (∀ l ∈ relLog s.ev, l ∈ grantLog s.ev ∧ avail s l = true ∧ l ∉ s.holders)
    ∧ (∀ l ∈ s.holders, avail s l = true → l ∈ rr s.agenda) :=
  ⟨capacity_conserved h hok, holders_le_limit h hok, granted_as_soon_as_free h hok, (grant_fifo h hok).1,
   fun _ hc => cancelled_never_granted h hc .refl hok, run_releases_at_most_once h hok,
   fun _ hl => run_release_after_result h hok hl, fun _ hh ha => run_release_is_pending h hok hh ha⟩

/-! ### every call returns: the quiescent states the statements above speak about are always reached -/

/-- From every reachable state (well-formed or not) the call stack runs empty within `mu s` steps
    (`mu` = size of the work on the stack + size of the callbacks of the pending acquisitions):
    nested grant callbacks cannot re-enter for ever, every top-level call returns. -/
theorem every_call_returns {k : Kind} {lim : Nat} {s : St} (h : Reach k lim s) :
    ReachFrom s (drain (mu s) s) ∧ (drain (mu s) s).agenda = [] :=
  ⟨drain_reach .refl _, drain_quiescent _ s (reach_W h) (Nat.le_refl _)⟩

/-- the executable form used by the driver: enough fuel ⇒ `call` ends with an empty stack -/
theorem call_quiescent {k : Kind} {lim : Nat} {s : St} (h : Reach k lim s) (o : Op) (fuel : Nat)
    (hf : mu { s with agenda := [.op o] } ≤ fuel) : (call fuel s o).agenda = [] :=
  drain_quiescent fuel _ (fun x hx => reach_W h x hx) hf

/-! ### non-vacuity: the hypotheses are met by non-trivial histories -/

/-- every `exec` of top-level calls stays inside `Reach` as long as each call returns (stack empty) -/
theorem exec_reach {k : Kind} {lim : Nat} (fuel : Nat) :
    ∀ (ops : List Op) (s : St), Reach k lim s → s.agenda = [] →
      (∀ n, n < ops.length → (exec fuel s (ops.take (n + 1))).agenda = []) → Reach k lim (exec fuel s ops)
  | [], _, h, _, _ => h
  | o :: os, s, h, hq, hall => by
    have h1 : (call fuel s o).agenda = [] := by
      have := hall 0 (by simp); simpa [exec] using this
    exact exec_reach fuel os (call fuel s o) (call_reach h hq fuel o) h1
      (fun n hn => by have := hall (n + 1) (by simp; omega); simpa [exec] using this)

theorem demo_reach : Reach .lock 1 demo :=
  exec_reach 100 demoOps (init .lock 1) .refl rfl (by decide)

/-- the demo history (re-entrant release+acquire in a grant callback, a cancelled waiter, a run
    whose function re-enters — acquires 6, cancels itself — and then waits on its Deferred)
    instantiates the headline: lock held by 6 with 5 pending behind it, grants 1,2,3,6 in request
    order, 4 cancelled and never granted, run 3 released exactly once after its Deferred fired -/
example : demo.ok = true ∧ demo.holders.length = 1 ∧ demo.core.free = 0
    ∧ grantLog demo.ev = [1, 2, 3, 6] ∧ demo.reqs = [1, 2, 3, 4, 6, 5] ∧ demo.cancelled = [4] ∧ demo.core.waiting = [5]
    ∧ relLog demo.ev = [3] ∧ avail demo 3 = true := by decide

/-- a semaphore of 2 with three requests: the third waits while both units are held -/
def demoSem : St := exec 100 (init .sem 2) [.acquire 1 [], .run 2 .dfr [], .acquire 3 [.release 3]]

example : demoSem.ok = true ∧ demoSem.core.waiting = [3] ∧ demoSem.core.free = 0 ∧ demoSem.holders.length = 2
    ∧ avail demoSem 2 = false ∧ relLog demoSem.ev = [] := by decide

/-- the precondition matters and is evaluated: a release by a non-holder flips `ok` (and the code
    then hands out more capacity than the limit — the theorems do not cover such histories) -/
example : (exec 100 (init .sem 2) [.acquire 1 [], .release 1, .acquire 2 [], .release 1]).ok = false := by decide

end TwistedProps.C06
