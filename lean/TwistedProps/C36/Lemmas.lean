import TwistedModel.Ssh.Channel
/-! Helper definitions and lemmas for `TwistedProps/C36.lean` (statements of the property live there). -/
namespace TwistedProps.C36
open Twisted.Ssh.Channel

/-! ### measures -/
def mLen : Msg → Nat
  | .data d => d.length | .ext _ d => d.length | _ => 0
def mAdj : Msg → Nat
  | .adjust n => n | _ => 0
def mData : Msg → Bytes
  | .data d => d | _ => []
def mExt (t : Nat) : Msg → Bytes
  | .ext t' d => if t' = t then d else [] | _ => []

def lenSum (ms : List Msg) : Nat := (ms.map mLen).sum
def adjSum (ms : List Msg) : Nat := (ms.map mAdj).sum
def dataCat (ms : List Msg) : Bytes := ms.flatMap mData
def extCat (t : Nat) (ms : List Msg) : Bytes := ms.flatMap (mExt t)

@[simp] theorem lenSum_nil : lenSum [] = 0 := rfl
@[simp] theorem lenSum_append (a b : List Msg) : lenSum (a ++ b) = lenSum a + lenSum b := by
  simp [lenSum, List.map_append, List.sum_append]
@[simp] theorem lenSum_cons (m : Msg) (b : List Msg) : lenSum (m :: b) = mLen m + lenSum b := by
  simp [lenSum]
@[simp] theorem adjSum_nil : adjSum [] = 0 := rfl
@[simp] theorem adjSum_append (a b : List Msg) : adjSum (a ++ b) = adjSum a + adjSum b := by
  simp [adjSum, List.map_append, List.sum_append]
@[simp] theorem adjSum_cons (m : Msg) (b : List Msg) : adjSum (m :: b) = mAdj m + adjSum b := by
  simp [adjSum]
@[simp] theorem dataCat_nil : dataCat [] = [] := rfl
@[simp] theorem dataCat_append (a b : List Msg) : dataCat (a ++ b) = dataCat a ++ dataCat b := by
  simp [dataCat, List.flatMap_append]
@[simp] theorem dataCat_cons (m : Msg) (b : List Msg) : dataCat (m :: b) = mData m ++ dataCat b := by
  simp [dataCat]
@[simp] theorem extCat_nil (t : Nat) : extCat t [] = [] := rfl
@[simp] theorem extCat_append (t : Nat) (a b : List Msg) : extCat t (a ++ b) = extCat t a ++ extCat t b := by
  simp [extCat, List.flatMap_append]
@[simp] theorem extCat_cons (t : Nat) (m : Msg) (b : List Msg) : extCat t (m :: b) = mExt t m ++ extCat t b := by
  simp [extCat]

@[simp] theorem sentMsgs_nil : sentMsgs [] = [] := rfl
@[simp] theorem sentMsgs_send (m : Msg) (os : List Out) : sentMsgs (.send m :: os) = m :: sentMsgs os := rfl
theorem sentMsgs_append (a b : List Out) : sentMsgs (a ++ b) = sentMsgs a ++ sentMsgs b := by
  induction a with
  | nil => rfl
  | cons o a ih => cases o <;> simp [sentMsgs, ih]
@[simp] theorem sentMsgs_map_send (ms : List Msg) : sentMsgs (ms.map Out.send) = ms := by
  induction ms with
  | nil => rfl
  | cons m ms ih => simp [ih]

/-! ### chunks -/
theorem chunksAux_len (rmp : Nat) : ∀ (fuel : Nat) (d : Bytes),
    ((chunksAux rmp fuel d).map List.length).sum ≤ d.length := by
  intro fuel
  induction fuel with
  | zero => intro d; simp [chunksAux]
  | succ f ih =>
    intro d
    simp only [chunksAux]
    split
    · simp
    · have := ih (d.drop rmp)
      simp only [List.map_cons, List.sum_cons, List.length_take, List.length_drop] at *
      omega

theorem chunksAux_each (rmp : Nat) : ∀ (fuel : Nat) (d : Bytes),
    ∀ x ∈ chunksAux rmp fuel d, x.length ≤ rmp := by
  intro fuel
  induction fuel with
  | zero => intro d x hx; simp [chunksAux] at hx
  | succ f ih =>
    intro d x hx
    simp only [chunksAux] at hx
    split at hx
    · simp at hx
    · rcases List.mem_cons.mp hx with h | h
      · subst h; simp [List.length_take]; omega
      · exact ih _ _ h

theorem chunksAux_flatten (rmp : Nat) (hr : 1 ≤ rmp) : ∀ (fuel : Nat) (d : Bytes), d.length ≤ fuel →
    (chunksAux rmp fuel d).flatten = d := by
  intro fuel
  induction fuel with
  | zero => intro d h; have : d = [] := List.eq_nil_of_length_eq_zero (by omega); simp [chunksAux, this]
  | succ f ih =>
    intro d h
    simp only [chunksAux]
    split
    · next h0 => simp [h0]
    · next h0 =>
      have hl : 0 < d.length := List.length_pos_iff.mpr h0
      have := ih (d.drop rmp) (by simp [List.length_drop]; omega)
      simp [this]

theorem chunks_flatten (rmp : Nat) (hr : 1 ≤ rmp) (d : Bytes) : (chunks rmp d).flatten = d :=
  chunksAux_flatten rmp hr _ _ (Nat.le_refl _)


/-! ### sendClose / loseConnection -/
section frames
variable (c : Chan)
@[simp] theorem sendClose_buf : (sendClose c).1.buf = c.buf := by unfold sendClose; split <;> (try split) <;> rfl
@[simp] theorem sendClose_extBuf : (sendClose c).1.extBuf = c.extBuf := by unfold sendClose; split <;> (try split) <;> rfl
@[simp] theorem sendClose_rwl : (sendClose c).1.rwl = c.rwl := by unfold sendClose; split <;> (try split) <;> rfl
@[simp] theorem sendClose_rmp : (sendClose c).1.rmp = c.rmp := by unfold sendClose; split <;> (try split) <;> rfl
@[simp] theorem sendClose_lwl : (sendClose c).1.lwl = c.lwl := by unfold sendClose; split <;> (try split) <;> rfl
@[simp] theorem sendClose_lmp : (sendClose c).1.lmp = c.lmp := by unfold sendClose; split <;> (try split) <;> rfl
@[simp] theorem sendClose_lwSize : (sendClose c).1.lwSize = c.lwSize := by unfold sendClose; split <;> (try split) <;> rfl
@[simp] theorem sendClose_closing : (sendClose c).1.closing = c.closing := by unfold sendClose; split <;> (try split) <;> rfl
@[simp] theorem sendClose_remoteClosed : (sendClose c).1.remoteClosed = c.remoteClosed := by unfold sendClose; split <;> (try split) <;> rfl
@[simp] theorem sendClose_localClosed : (sendClose c).1.localClosed = true := by
  unfold sendClose; split <;> (try split) <;> simp_all
theorem sendClose_gone : (sendClose c).1.gone = (c.gone || (!c.localClosed && c.remoteClosed)) := by
  unfold sendClose; split <;> (try split) <;> simp_all
theorem sendClose_sent : sentMsgs (sendClose c).2 = if c.localClosed then [] else [Msg.close] := by
  unfold sendClose; split <;> (try split) <;> simp_all [sentMsgs]

@[simp] theorem lose_buf : (loseConnection c).1.buf = c.buf := by unfold loseConnection; split <;> simp
@[simp] theorem lose_extBuf : (loseConnection c).1.extBuf = c.extBuf := by unfold loseConnection; split <;> simp
@[simp] theorem lose_rwl : (loseConnection c).1.rwl = c.rwl := by unfold loseConnection; split <;> simp
@[simp] theorem lose_rmp : (loseConnection c).1.rmp = c.rmp := by unfold loseConnection; split <;> simp
@[simp] theorem lose_lwl : (loseConnection c).1.lwl = c.lwl := by unfold loseConnection; split <;> simp
@[simp] theorem lose_lmp : (loseConnection c).1.lmp = c.lmp := by unfold loseConnection; split <;> simp
@[simp] theorem lose_lwSize : (loseConnection c).1.lwSize = c.lwSize := by unfold loseConnection; split <;> simp
@[simp] theorem lose_closing : (loseConnection c).1.closing = true := by unfold loseConnection; split <;> simp
@[simp] theorem lose_remoteClosed : (loseConnection c).1.remoteClosed = c.remoteClosed := by unfold loseConnection; split <;> simp
theorem lose_localClosed : (loseConnection c).1.localClosed = (c.localClosed || (decide (c.buf = []) && decide (c.extBuf = []))) := by
  unfold loseConnection; split <;> simp_all
theorem lose_sent : sentMsgs (loseConnection c).2 =
    if c.localClosed = false ∧ c.buf = [] ∧ c.extBuf = [] then [Msg.close] else [] := by
  unfold loseConnection; cases h : c.localClosed <;> split <;> simp_all [sendClose_sent]
end frames


/-! ### write -/
theorem sentMsgs_emit (c : Chan) (ms : List Msg) : sentMsgs (emit c ms) = if c.localClosed then [] else ms := by
  unfold emit; split <;> simp

section write
variable (c : Chan) (d : Bytes)
theorem write_buf : (write c d).1.buf = if c.buf ≠ [] then c.buf ++ d else d.drop c.rwl := by
  unfold write; split <;> simp; split <;> simp
@[simp] theorem write_extBuf : (write c d).1.extBuf = c.extBuf := by
  unfold write; split <;> simp; split <;> simp
theorem write_rwl : (write c d).1.rwl = if c.buf ≠ [] then c.rwl else c.rwl - (d.take c.rwl).length := by
  unfold write; split <;> simp; split <;> simp
@[simp] theorem write_rmp : (write c d).1.rmp = c.rmp := by
  unfold write; split <;> simp; split <;> simp
@[simp] theorem write_lwl : (write c d).1.lwl = c.lwl := by
  unfold write; split <;> simp; split <;> simp
@[simp] theorem write_lmp : (write c d).1.lmp = c.lmp := by
  unfold write; split <;> simp; split <;> simp
@[simp] theorem write_lwSize : (write c d).1.lwSize = c.lwSize := by
  unfold write; split <;> simp; split <;> simp
@[simp] theorem write_closing : (write c d).1.closing = c.closing := by
  unfold write; split <;> simp; split <;> simp_all
@[simp] theorem write_remoteClosed : (write c d).1.remoteClosed = c.remoteClosed := by
  unfold write; split <;> simp; split <;> simp
theorem write_localClosed : (write c d).1.localClosed =
    (c.localClosed || (decide (c.buf = []) && c.closing && decide (d.drop c.rwl = []) && decide (c.extBuf = []))) := by
  unfold write; split <;> simp_all; split <;> simp_all [lose_localClosed] <;> grind
theorem write_sent : sentMsgs (write c d).2 =
    if c.buf ≠ [] then [] else
      (if c.localClosed then [] else (chunks c.rmp (d.take c.rwl)).map Msg.data) ++
      (if c.closing = true ∧ d.drop c.rwl = [] ∧ c.extBuf = [] ∧ c.localClosed = false then [Msg.close] else []) := by
  unfold write; split
  · simp
  · simp only []
    split
    · simp_all [sentMsgs_append, sentMsgs_emit, lose_sent, and_comm]
    · simp_all [sentMsgs_emit]; grind
end write


/-! ### writeExtended -/
section wx
variable (c : Chan) (t : Nat) (d : Bytes)
@[simp] theorem wx_buf : (writeExtended c t d).1.buf = c.buf := by
  unfold writeExtended; split <;> simp; split <;> simp
theorem wx_extBuf : (writeExtended c t d).1.extBuf =
    if c.extBuf ≠ [] then bufferExt c.extBuf t d else if d.length ≤ c.rwl then [] else [(t, d.drop c.rwl)] := by
  unfold writeExtended; split <;> simp; split <;> simp
theorem wx_rwl : (writeExtended c t d).1.rwl = if c.extBuf ≠ [] then c.rwl else c.rwl - (d.take c.rwl).length := by
  unfold writeExtended; split <;> simp; split <;> simp
@[simp] theorem wx_rmp : (writeExtended c t d).1.rmp = c.rmp := by
  unfold writeExtended; split <;> simp; split <;> simp
@[simp] theorem wx_lwl : (writeExtended c t d).1.lwl = c.lwl := by
  unfold writeExtended; split <;> simp; split <;> simp
@[simp] theorem wx_lmp : (writeExtended c t d).1.lmp = c.lmp := by
  unfold writeExtended; split <;> simp; split <;> simp
@[simp] theorem wx_lwSize : (writeExtended c t d).1.lwSize = c.lwSize := by
  unfold writeExtended; split <;> simp; split <;> simp
@[simp] theorem wx_closing : (writeExtended c t d).1.closing = c.closing := by
  unfold writeExtended; split <;> simp; split <;> simp_all
@[simp] theorem wx_remoteClosed : (writeExtended c t d).1.remoteClosed = c.remoteClosed := by
  unfold writeExtended; split <;> simp; split <;> simp
theorem wx_localClosed : (writeExtended c t d).1.localClosed =
    (c.localClosed || (decide (c.extBuf = []) && c.closing && decide (c.buf = []) && decide (d.length ≤ c.rwl))) := by
  unfold writeExtended; split <;> simp_all; split <;> simp_all [lose_localClosed] <;> grind
theorem wx_sent : sentMsgs (writeExtended c t d).2 =
    if c.extBuf ≠ [] then [] else
      (if c.localClosed then [] else (chunks c.rmp (d.take c.rwl)).map (Msg.ext t)) ++
      (if c.closing = true ∧ d.length ≤ c.rwl ∧ c.buf = [] ∧ c.localClosed = false then [Msg.close] else []) := by
  unfold writeExtended; split
  · simp
  · simp only []
    split
    · simp_all [sentMsgs_append, sentMsgs_emit, lose_sent]; grind
    · simp_all [sentMsgs_emit]
end wx


/-! ### packets made from chunks -/
theorem lenSum_chunks_data (r : Nat) (d : Bytes) : lenSum ((chunks r d).map Msg.data) ≤ d.length := by
  have := chunksAux_len r d.length d
  simpa [lenSum, chunks, List.map_map, Function.comp_def, mLen] using this
theorem lenSum_chunks_ext (r t : Nat) (d : Bytes) : lenSum ((chunks r d).map (Msg.ext t)) ≤ d.length := by
  have := chunksAux_len r d.length d
  simpa [lenSum, chunks, List.map_map, Function.comp_def, mLen] using this
theorem mem_chunks_data (r : Nat) (d : Bytes) : ∀ m ∈ (chunks r d).map Msg.data, mLen m ≤ r := by
  intro m hm
  obtain ⟨x, hx, rfl⟩ := List.mem_map.mp hm
  exact chunksAux_each r _ _ x hx
theorem mem_chunks_ext (r t : Nat) (d : Bytes) : ∀ m ∈ (chunks r d).map (Msg.ext t), mLen m ≤ r := by
  intro m hm
  obtain ⟨x, hx, rfl⟩ := List.mem_map.mp hm
  exact chunksAux_each r _ _ x hx
theorem dataCat_map_data (xs : List Bytes) : dataCat (xs.map Msg.data) = xs.flatten := by
  induction xs with
  | nil => rfl
  | cons x xs ih => simp [ih, mData]
theorem dataCat_map_ext (t : Nat) (xs : List Bytes) : dataCat (xs.map (Msg.ext t)) = [] := by
  induction xs with
  | nil => rfl
  | cons x xs ih => simp [ih, mData]
theorem extCat_map_data (t : Nat) (xs : List Bytes) : extCat t (xs.map Msg.data) = [] := by
  induction xs with
  | nil => rfl
  | cons x xs ih => simp [ih, mExt]
theorem extCat_map_ext (t' t : Nat) (xs : List Bytes) :
    extCat t' (xs.map (Msg.ext t)) = if t = t' then xs.flatten else [] := by
  induction xs with
  | nil => simp
  | cons x xs ih => by_cases h : t = t' <;> simp_all [mExt]
theorem adjSum_map_data (xs : List Bytes) : adjSum (xs.map Msg.data) = 0 := by
  induction xs with
  | nil => rfl
  | cons x xs ih => simp [ih, mAdj]
theorem adjSum_map_ext (t : Nat) (xs : List Bytes) : adjSum (xs.map (Msg.ext t)) = 0 := by
  induction xs with
  | nil => rfl
  | cons x xs ih => simp [ih, mAdj]
theorem close_not_mem_map_data (xs : List Bytes) : Msg.close ∉ xs.map Msg.data := by simp
theorem close_not_mem_map_ext (t : Nat) (xs : List Bytes) : Msg.close ∉ xs.map (Msg.ext t) := by simp

/-! ### buffered extended data -/
def extOf (t : Nat) (b : List (Nat × Bytes)) : Bytes := b.flatMap (fun e => if e.1 = t then e.2 else [])
def extBytes (b : List (Nat × Bytes)) : Nat := (b.map (fun e => e.2.length)).sum

@[simp] theorem extOf_nil (t : Nat) : extOf t [] = [] := rfl
@[simp] theorem extOf_cons (t : Nat) (e : Nat × Bytes) (b : List (Nat × Bytes)) :
    extOf t (e :: b) = (if e.1 = t then e.2 else []) ++ extOf t b := by simp [extOf]
@[simp] theorem extOf_append (t : Nat) (a b : List (Nat × Bytes)) : extOf t (a ++ b) = extOf t a ++ extOf t b := by
  simp [extOf, List.flatMap_append]
@[simp] theorem extBytes_nil : extBytes [] = 0 := rfl
@[simp] theorem extBytes_cons (e : Nat × Bytes) (b : List (Nat × Bytes)) :
    extBytes (e :: b) = e.2.length + extBytes b := by simp [extBytes]

theorem extOf_bufferExt (t' : Nat) : ∀ (b : List (Nat × Bytes)) (t : Nat) (d : Bytes),
    extOf t' (bufferExt b t d) = extOf t' b ++ (if t = t' then d else []) := by
  intro b
  induction b with
  | nil => intro t d; simp [bufferExt]
  | cons e es ih =>
    intro t d
    cases es with
    | nil =>
      simp only [bufferExt]
      by_cases h1 : e.1 = t <;> by_cases h2 : t = t' <;> simp_all
    | cons e' es => simp only [bufferExt, extOf_cons]; rw [ih]; simp


/-! ### facts shared by every sender-side call -/
/-- well-formedness kept by every call: a removed channel is locally closed -/
def Wf (c : Chan) : Prop := c.gone = true → c.localClosed = true

structure SFacts (c c' : Chan) (out : List Out) : Prop where
  rmp : c'.rmp = c.rmp
  lwl : c'.lwl = c.lwl
  lmp : c'.lmp = c.lmp
  lwSize : c'.lwSize = c.lwSize
  window : lenSum (sentMsgs out) + c'.rwl ≤ c.rwl
  maxpkt : ∀ m ∈ sentMsgs out, mLen m ≤ c.rmp
  noadj : adjSum (sentMsgs out) = 0
  after : c.localClosed = true → sentMsgs out = []
  mono : c.localClosed = true → c'.localClosed = true
  wf : Wf c → Wf c'
  quiet : Out.refused ∉ out ∧ Out.keyError ∉ out
  closes : Msg.close ∈ sentMsgs out → c'.localClosed = true

theorem not_refused_emit (c : Chan) (ms : List Msg) : Out.refused ∉ emit c ms := by
  unfold emit; split <;> simp
theorem not_keyError_emit (c : Chan) (ms : List Msg) : Out.keyError ∉ emit c ms := by
  unfold emit; split <;> simp

theorem SFacts.refl (c : Chan) : SFacts c c [] := by
  constructor <;> simp [Wf]

theorem SFacts.trans {c c1 c2 : Chan} {o1 o2 : List Out} (h1 : SFacts c c1 o1) (h2 : SFacts c1 c2 o2) :
    SFacts c c2 (o1 ++ o2) := by
  constructor
  · rw [h2.rmp, h1.rmp]
  · rw [h2.lwl, h1.lwl]
  · rw [h2.lmp, h1.lmp]
  · rw [h2.lwSize, h1.lwSize]
  · have := h1.window; have := h2.window; simp [sentMsgs_append]; omega
  · intro m hm
    simp [sentMsgs_append] at hm
    rcases hm with hm | hm
    · exact h1.maxpkt m hm
    · have := h2.maxpkt m hm; rw [h1.rmp] at this; exact this
  · simp [sentMsgs_append, h1.noadj, h2.noadj]
  · intro h; simp [sentMsgs_append, h1.after h, h2.after (h1.mono h)]
  · intro h; exact h2.mono (h1.mono h)
  · intro h; exact h2.wf (h1.wf h)
  · have := h1.quiet; have := h2.quiet; simp_all
  · intro h
    simp only [sentMsgs_append, List.mem_append] at h
    rcases h with h | h
    · exact h2.mono (h1.closes h)
    · exact h2.closes h

theorem sfacts_sendClose (c : Chan) : SFacts c (sendClose c).1 (sendClose c).2 := by
  refine ⟨by simp, by simp, by simp, by simp, ?_, ?_, ?_, ?_, ?_, ?_, ?_, ?_⟩ <;> (try simp only [sendClose_sent, sendClose_rwl, sendClose_localClosed])
  · split <;> simp [mLen]
  · split <;> simp [mLen]
  · split <;> simp [mAdj]
  · intro h; simp [h]
  · simp
  · intro _; simp [Wf]
  · unfold sendClose; split <;> (try split) <;> simp
  · intro _; simp

theorem wf_lose (c : Chan) (h : Wf c) : Wf (loseConnection c).1 := by
  unfold loseConnection; split
  · simp [Wf]
  · exact h

theorem sfacts_lose (c : Chan) : SFacts c (loseConnection c).1 (loseConnection c).2 := by
  refine ⟨by simp, by simp, by simp, by simp, ?_, ?_, ?_, ?_, ?_, ?_, ?_, ?_⟩ <;> (try simp only [lose_sent, lose_rwl, lose_localClosed])
  · split <;> simp [mLen]
  · split <;> simp [mLen]
  · split <;> simp [mAdj]
  · intro h; simp [h]
  · intro h; simp [h]
  · exact wf_lose c
  · unfold loseConnection; split
    · exact (sfacts_sendClose _).quiet
    · simp
  · intro h
    split at h
    · next hc => simp [hc]
    · simp at h

theorem wf_write (c : Chan) (d : Bytes) (h : Wf c) : Wf (write c d).1 := by
  unfold write; split
  · exact h
  · simp only []; split
    · exact wf_lose _ h
    · exact h

theorem wf_wx (c : Chan) (t : Nat) (d : Bytes) (h : Wf c) : Wf (writeExtended c t d).1 := by
  unfold writeExtended; split
  · exact h
  · simp only []; split
    · exact wf_lose _ h
    · exact h

theorem sfacts_write (c : Chan) (d : Bytes) : SFacts c (write c d).1 (write c d).2 := by
  refine ⟨by simp, by simp, by simp, by simp, ?_, ?_, ?_, ?_, ?_, ?_, ?_, ?_⟩ <;> (try simp only [write_sent, write_rwl, write_localClosed])
  · split
    · simp
    · have := lenSum_chunks_data c.rmp (d.take c.rwl)
      have h2 : (d.take c.rwl).length ≤ c.rwl := by simp [List.length_take]; omega
      generalize d.take c.rwl = now at this h2 ⊢
      split <;> split <;> simp [mLen] <;> omega
  · intro m hm
    split at hm
    · simp at hm
    · simp only [List.mem_append] at hm
      rcases hm with hm | hm
      · split at hm
        · simp at hm
        · exact mem_chunks_data _ _ m hm
      · split at hm <;> simp at hm
        subst hm; simp [mLen]
  · split
    · simp
    · split <;> split <;> simp [adjSum_map_data, mAdj]
  · intro h; simp [h]
  · intro h; simp [h]
  · exact wf_write c d
  · unfold write; split
    · simp
    · simp only []; split
      · have := (sfacts_lose { c with buf := d.drop c.rwl, areWriting := c.areWriting && decide (d.length ≤ c.rwl),
                                      rwl := c.rwl - (d.take c.rwl).length }).quiet
        simp only [List.mem_append, not_or]
        exact ⟨⟨not_refused_emit _ _, this.1⟩, ⟨not_keyError_emit _ _, this.2⟩⟩
      · exact ⟨not_refused_emit _ _, not_keyError_emit _ _⟩
  · intro h
    by_cases hb : c.buf ≠ []
    · simp [hb] at h
    · by_cases hc : c.closing = true ∧ d.drop c.rwl = [] ∧ c.extBuf = [] ∧ c.localClosed = false
      · simp at hb; simp [hb, hc]
      · exfalso
        rw [if_neg hb, if_neg hc] at h
        split at h <;> simp at h

theorem sfacts_wx (c : Chan) (t : Nat) (d : Bytes) : SFacts c (writeExtended c t d).1 (writeExtended c t d).2 := by
  refine ⟨by simp, by simp, by simp, by simp, ?_, ?_, ?_, ?_, ?_, ?_, ?_, ?_⟩ <;> (try simp only [wx_sent, wx_rwl, wx_localClosed])
  · split
    · simp
    · have := lenSum_chunks_ext c.rmp t (d.take c.rwl)
      have h2 : (d.take c.rwl).length ≤ c.rwl := by simp [List.length_take]; omega
      generalize d.take c.rwl = now at this h2 ⊢
      split <;> split <;> simp [mLen] <;> omega
  · intro m hm
    split at hm
    · simp at hm
    · simp only [List.mem_append] at hm
      rcases hm with hm | hm
      · split at hm
        · simp at hm
        · exact mem_chunks_ext _ _ _ m hm
      · split at hm <;> simp at hm
        subst hm; simp [mLen]
  · split
    · simp
    · split <;> split <;> simp [adjSum_map_ext, mAdj]
  · intro h; simp [h]
  · intro h; simp [h]
  · exact wf_wx c t d
  · unfold writeExtended; split
    · simp
    · simp only []; split
      · have := (sfacts_lose { c with extBuf := if d.length ≤ c.rwl then [] else [(t, d.drop c.rwl)],
                                      areWriting := c.areWriting && decide (d.length ≤ c.rwl),
                                      rwl := c.rwl - (d.take c.rwl).length }).quiet
        simp only [List.mem_append, not_or]
        exact ⟨⟨not_refused_emit _ _, this.1⟩, ⟨not_keyError_emit _ _, this.2⟩⟩
      · exact ⟨not_refused_emit _ _, not_keyError_emit _ _⟩
  · intro h
    by_cases hb : c.extBuf ≠ []
    · simp [hb] at h
    · by_cases hc : c.closing = true ∧ d.length ≤ c.rwl ∧ c.buf = [] ∧ c.localClosed = false
      · simp at hb; simp [hb, hc]
      · exfalso
        rw [if_neg hb, if_neg hc] at h
        split at h <;> simp at h

theorem sfacts_flushExt : ∀ (es : List (Nat × Bytes)) (c : Chan), SFacts c (flushExt c es).1 (flushExt c es).2 := by
  intro es
  induction es with
  | nil => intro c; exact SFacts.refl c
  | cons e es ih =>
    intro c
    simp only [flushExt]
    exact (sfacts_wx c e.1 e.2).trans (ih _)


/-! ### addWindowBytes -/
theorem sfacts_reframe {c c0 c' : Chan} {o : List Out} (h : SFacts c0 c' o)
    (e1 : c0.rmp = c.rmp) (e2 : c0.lwl = c.lwl) (e3 : c0.lmp = c.lmp) (e4 : c0.lwSize = c.lwSize)
    (e5 : c0.rwl = c.rwl) (e6 : c0.localClosed = c.localClosed) (e7 : c0.gone = c.gone) : SFacts c c' o :=
  ⟨h.rmp.trans e1, h.lwl.trans e2, h.lmp.trans e3, h.lwSize.trans e4, e5 ▸ h.window, e1 ▸ h.maxpkt, h.noadj,
   fun hc => h.after (e6 ▸ hc), fun hc => h.mono (e6 ▸ hc), fun hw => h.wf (by unfold Wf at *; rw [e6, e7]; exact hw), h.quiet, h.closes⟩

theorem sfacts_flushBuf (c : Chan) : SFacts c (flushBuf c).1 (flushBuf c).2 := by
  unfold flushBuf; split
  · exact sfacts_reframe (sfacts_write { c with buf := [] } c.buf) rfl rfl rfl rfl rfl rfl rfl
  · exact SFacts.refl c

theorem sfacts_flushExtBuf (c : Chan) : SFacts c (flushExtBuf c).1 (flushExtBuf c).2 := by
  unfold flushExtBuf; split
  · have h2 := sfacts_reframe (c := c) (sfacts_flushExt c.extBuf { c with extBuf := [], closing := false })
      rfl rfl rfl rfl rfl rfl rfl
    simp only []
    split
    · exact h2.trans (sfacts_lose _)
    · exact h2
  · exact SFacts.refl c

theorem sfacts_addWindow (c : Chan) (n : Nat) :
    SFacts { c with rwl := c.rwl + n } (addWindowBytes c n).1 (addWindowBytes c n).2 := by
  unfold addWindowBytes
  simp only []
  exact (sfacts_reframe (c := { c with rwl := c.rwl + n })
    (sfacts_flushBuf { c with rwl := c.rwl + n, areWriting := c.areWriting || !c.closing })
    rfl rfl rfl rfl rfl rfl rfl).trans (sfacts_flushExtBuf _)


/-! ### one call of any kind -/
def inLen : In → Nat
  | .recv (.data d) => d.length
  | .recv (.ext _ d) => d.length
  | _ => 0
def adjIn1 : In → Nat
  | .recv (.adjust n) => n
  | _ => 0
/-- the incoming packet (if it is data) respects the receiver's window and maximum packet size -/
def Fits (c : Chan) (i : In) : Prop := inLen i ≤ c.lwl ∧ inLen i ≤ c.lmp
instance (c : Chan) (i : In) : Decidable (Fits c i) := by unfold Fits; infer_instance

structure GFacts (c : Chan) (i : In) (c' : Chan) (out : List Out) : Prop where
  rmp : c'.rmp = c.rmp
  lmp : c'.lmp = c.lmp
  lwSize : c'.lwSize = c.lwSize
  window : lenSum (sentMsgs out) + c'.rwl ≤ c.rwl + adjIn1 i
  maxpkt : ∀ m ∈ sentMsgs out, mLen m ≤ c.rmp
  after : c.localClosed = true → sentMsgs out = []
  mono : c.localClosed = true → c'.localClosed = true
  wf : Wf c → Wf c'
  lwl : Fits c i → (c'.lwl + inLen i = c.lwl + adjSum (sentMsgs out)) ∨ (c'.lwl = c.lwl ∧ sentMsgs out = [])
  notRefused : Fits c i → Out.refused ∉ out
  closes : Msg.close ∈ sentMsgs out → c'.localClosed = true

theorem gfacts_of_sfacts {c c' : Chan} {o : List Out} {i : In} (h : SFacts c c' o) (hi : inLen i = 0) :
    GFacts c i c' o :=
  ⟨h.rmp, h.lmp, h.lwSize, Nat.le_trans h.window (Nat.le_add_right _ _), h.maxpkt, h.after, h.mono, h.wf,
   fun _ => Or.inl (by rw [h.lwl, h.noadj, hi]), fun _ => h.quiet.1, h.closes⟩

theorem gfacts_recvData (c : Chan) (len : Nat) (ev : Out) (i : In) (hi : inLen i = len) (hev : ev ≠ Out.refused)
    (hev' : sentMsgs [ev] = []) :
    GFacts c i (recvData c len ev).1 (recvData c len ev).2 := by
  unfold recvData
  split
  · next hbad =>
    have h := sfacts_sendClose c
    refine ⟨h.rmp, h.lmp, h.lwSize, ?_, ?_, ?_, h.mono, h.wf, ?_, ?_, fun _ => by simp⟩
    · have := h.window; simp [sentMsgs] at *; omega
    · simpa [sentMsgs] using h.maxpkt
    · simpa [sentMsgs] using h.after
    · intro hf; unfold Fits at hf; omega
    · intro hf; unfold Fits at hf; omega
  · next hok =>
    simp only []
    split
    · split
      · next hlc =>
        refine ⟨rfl, rfl, rfl, by simp [hev'], by simp [hev'], by simp [hev'], by simp, fun h => h, ?_, ?_, by simp [hev']⟩
        · intro _; left; simp [hev', hi]; omega
        · simp [hev.symm]
      · next hlc =>
        refine ⟨rfl, rfl, rfl, ?_, ?_, ?_, by simp, fun h => h, ?_, ?_, ?_⟩
        · have : sentMsgs [Out.send (Msg.adjust (c.lwSize - (c.lwl - len))), ev] = [Msg.adjust (c.lwSize - (c.lwl - len))] := by
            show _ :: sentMsgs [ev] = _; rw [hev']
          simp [this, mLen]
        · have : sentMsgs [Out.send (Msg.adjust (c.lwSize - (c.lwl - len))), ev] = [Msg.adjust (c.lwSize - (c.lwl - len))] := by
            show _ :: sentMsgs [ev] = _; rw [hev']
          simp [this, mLen]
        · intro h; simp [h] at hlc
        · intro _; left
          have : sentMsgs [Out.send (Msg.adjust (c.lwSize - (c.lwl - len))), ev] = [Msg.adjust (c.lwSize - (c.lwl - len))] := by
            show _ :: sentMsgs [ev] = _; rw [hev']
          simp [this, mAdj, hi]; omega
        · simp [hev.symm]
        · have : sentMsgs [Out.send (Msg.adjust (c.lwSize - (c.lwl - len))), ev] = [Msg.adjust (c.lwSize - (c.lwl - len))] := by
            show _ :: sentMsgs [ev] = _; rw [hev']
          simp [this]
    · refine ⟨rfl, rfl, rfl, by simp [hev'], by simp [hev'], by simp [hev'], by simp, fun h => h, ?_, ?_, by simp [hev']⟩
      · intro _; left; simp [hev', hi]; omega
      · simp [hev.symm]


theorem sfacts_recvClose (c : Chan) : SFacts c (recvClose c).1 (recvClose c).2 := by
  have h := sfacts_lose c
  unfold recvClose
  simp only []
  split
  · refine ⟨h.rmp, h.lwl, h.lmp, h.lwSize, ?_, ?_, ?_, ?_, h.mono, ?_, ?_, ?_⟩
    · simpa [sentMsgs_append, sentMsgs] using h.window
    · simpa [sentMsgs_append, sentMsgs] using h.maxpkt
    · simpa [sentMsgs_append, sentMsgs] using h.noadj
    · simpa [sentMsgs_append, sentMsgs] using h.after
    · next hc => intro _ _; exact hc.1
    · have := h.quiet; simp_all
    · next hc => intro _; exact hc.1
  · next hc =>
    refine ⟨h.rmp, h.lwl, h.lmp, h.lwSize, h.window, h.maxpkt, h.noadj, h.after, h.mono, ?_, h.quiet, h.closes⟩
    exact fun hw hg => h.wf hw hg

theorem gfacts_step (c : Chan) (i : In) : GFacts c i (step c i).1 (step c i).2 := by
  cases i with
  | write d => exact gfacts_of_sfacts (sfacts_write c d) rfl
  | writeExt t d => exact gfacts_of_sfacts (sfacts_wx c t d) rfl
  | lose => exact gfacts_of_sfacts (sfacts_lose c) rfl
  | recv m =>
    simp only [step]
    split
    · refine ⟨rfl, rfl, rfl, by simp [sentMsgs], by simp [sentMsgs], by simp [sentMsgs], fun h => h, fun h => h, ?_, by simp, by simp [sentMsgs]⟩
      intro _; right; simp [sentMsgs]
    · cases m with
      | data d => exact gfacts_recvData c d.length _ _ rfl (by simp) rfl
      | ext t d => exact gfacts_recvData c d.length _ _ rfl (by simp) rfl
      | close => exact gfacts_of_sfacts (sfacts_recvClose c) rfl
      | adjust n =>
        have h := sfacts_addWindow c n
        exact ⟨h.rmp, h.lmp, h.lwSize, h.window, h.maxpkt, h.after, h.mono, h.wf,
          fun _ => Or.inl (by rw [h.lwl, h.noadj]; rfl), fun _ => h.quiet.1, h.closes⟩


/-! ### histories on one endpoint -/
def adjIn (ins : List In) : Nat := (ins.map adjIn1).sum

theorem run_rmp (ins : List In) : ∀ c : Chan, (run c ins).1.rmp = c.rmp := by
  induction ins with
  | nil => intro c; rfl
  | cons i is ih => intro c; simp only [run]; rw [ih, (gfacts_step c i).rmp]

/-! ### the connected pair -/
/-- what the sender `s` may still send, what is in flight towards `r`, and the adjusts `r` has already
announced but `s` has not yet seen, are all covered by `r`'s local window -/
def Dir (s r : Chan) (qsr qrs : List Msg) : Prop :=
  s.rwl + lenSum qsr + adjSum qrs ≤ r.lwl ∧ (∀ m ∈ qsr, mLen m ≤ r.lmp) ∧ s.rmp = r.lmp

def PInv (p : Pair) : Prop := Dir p.a p.b p.qab p.qba ∧ Dir p.b p.a p.qba p.qab

theorem pinv_endpoint (X Y : Chan) (qxy qyx qyx' : List Msg) (i : In)
    (hl : lenSum qyx = inLen i + lenSum qyx') (ha : adjSum qyx = adjIn1 i + adjSum qyx')
    (hsub : ∀ m ∈ qyx', m ∈ qyx) (hfit : inLen i = 0 ∨ ∃ m ∈ qyx, inLen i = mLen m)
    (h1 : Dir X Y qxy qyx) (h2 : Dir Y X qyx qxy) :
    Fits X i ∧ Dir (step X i).1 Y (qxy ++ sentMsgs (step X i).2) qyx' ∧
      Dir Y (step X i).1 qyx' (qxy ++ sentMsgs (step X i).2) := by
  have g := gfacts_step X i
  obtain ⟨h1a, h1b, h1c⟩ := h1
  obtain ⟨h2a, h2b, h2c⟩ := h2
  have hf : Fits X i := by
    constructor
    · omega
    · rcases hfit with h | ⟨m, hm, h⟩
      · omega
      · rw [h]; exact h2b m hm
  refine ⟨hf, ⟨?_, ?_, ?_⟩, ⟨?_, ?_, ?_⟩⟩
  · have := g.window; simp only [lenSum_append]; omega
  · intro m hm
    rcases List.mem_append.mp hm with hm | hm
    · exact h1b m hm
    · have := g.maxpkt m hm; omega
  · rw [g.rmp]; exact h1c
  · simp only [adjSum_append]
    rcases g.lwl hf with h | ⟨h, h0⟩
    · omega
    · rw [h0]; simp; omega
  · intro m hm; rw [g.lmp]; exact h2b m (hsub m hm)
  · rw [g.lmp]; exact h2c

/-- the calls a well-behaved application makes, and deliveries of queued packets (no packet is
handed in out of band) -/
def Conforming : POp → Prop
  | .act _ (.recv _) => False
  | _ => True

theorem pinv_pstep (p : Pair) (o : POp) (ho : Conforming o) (h : PInv p) :
    PInv (pstep p o).1 ∧ ∀ x ∈ (pstep p o).2, x.2 ≠ Out.refused := by
  obtain ⟨hab, hba⟩ := h
  cases o with
  | act s i =>
    have hi : inLen i = 0 ∧ adjIn1 i = 0 := by
      cases i with
      | recv m => exact absurd ho (by cases s <;> exact fun h => h)
      | _ => exact ⟨rfl, rfl⟩
    cases s with
    | A =>
      have := pinv_endpoint p.a p.b p.qab p.qba p.qba i (by omega) (by omega) (fun _ h => h) (Or.inl hi.1) hab hba
      refine ⟨⟨this.2.1, this.2.2⟩, ?_⟩
      intro x hx
      simp only [pstep, List.mem_map] at hx
      obtain ⟨o, ho', rfl⟩ := hx
      intro he; exact (gfacts_step p.a i).notRefused this.1 (he ▸ ho')
    | B =>
      have := pinv_endpoint p.b p.a p.qba p.qab p.qab i (by omega) (by omega) (fun _ h => h) (Or.inl hi.1) hba hab
      refine ⟨⟨this.2.2, this.2.1⟩, ?_⟩
      intro x hx
      simp only [pstep, List.mem_map] at hx
      obtain ⟨o, ho', rfl⟩ := hx
      intro he; exact (gfacts_step p.b i).notRefused this.1 (he ▸ ho')
  | deliver s =>
    cases s with
    | A =>
      cases hq : p.qba with
      | nil => simp only [pstep, hq]; exact ⟨⟨hab, hba⟩, by simp⟩
      | cons m q =>
        have hm : lenSum p.qba = inLen (.recv m) + lenSum q ∧ adjSum p.qba = adjIn1 (.recv m) + adjSum q ∧
            inLen (.recv m) = mLen m := by
          rw [hq]; cases m <;> simp [inLen, adjIn1, mLen, mAdj]
        have := pinv_endpoint p.a p.b p.qab p.qba q (.recv m) hm.1 hm.2.1
          (fun x hx => by rw [hq]; exact List.mem_cons_of_mem _ hx)
          (Or.inr ⟨m, by rw [hq]; exact List.mem_cons_self, hm.2.2⟩) hab hba
        simp only [pstep, hq]
        refine ⟨⟨this.2.1, this.2.2⟩, ?_⟩
        intro x hx
        simp only [List.mem_map] at hx
        obtain ⟨o, ho', rfl⟩ := hx
        intro he; exact (gfacts_step p.a (.recv m)).notRefused this.1 (he ▸ ho')
    | B =>
      cases hq : p.qab with
      | nil => simp only [pstep, hq]; exact ⟨⟨hab, hba⟩, by simp⟩
      | cons m q =>
        have hm : lenSum p.qab = inLen (.recv m) + lenSum q ∧ adjSum p.qab = adjIn1 (.recv m) + adjSum q ∧
            inLen (.recv m) = mLen m := by
          rw [hq]; cases m <;> simp [inLen, adjIn1, mLen, mAdj]
        have := pinv_endpoint p.b p.a p.qba p.qab q (.recv m) hm.1 hm.2.1
          (fun x hx => by rw [hq]; exact List.mem_cons_of_mem _ hx)
          (Or.inr ⟨m, by rw [hq]; exact List.mem_cons_self, hm.2.2⟩) hba hab
        simp only [pstep, hq]
        refine ⟨⟨this.2.2, this.2.1⟩, ?_⟩
        intro x hx
        simp only [List.mem_map] at hx
        obtain ⟨o, ho', rfl⟩ := hx
        intro he; exact (gfacts_step p.b (.recv m)).notRefused this.1 (he ▸ ho')

theorem pinv_init (lwA lmpA lwB lmpB : Nat) : PInv (Pair.init lwA lmpA lwB lmpB) := by
  simp [PInv, Dir, Pair.init, fresh]

/-! ### streams: what was written = what was sent ++ what is buffered -/
def Streams (c c' : Chan) (out : List Out) (wn : Bytes) (we : Nat → Bytes) : Prop :=
  dataCat (sentMsgs out) ++ c'.buf = c.buf ++ wn ∧
  ∀ t, extCat t (sentMsgs out) ++ extOf t c'.extBuf = extOf t c.extBuf ++ we t

theorem Streams.refl (c : Chan) : Streams c c [] [] (fun _ => []) := by simp [Streams]

theorem Streams.trans {c c1 c2 : Chan} {o1 o2 : List Out} {w1 w2 : Bytes} {e1 e2 : Nat → Bytes}
    (h1 : Streams c c1 o1 w1 e1) (h2 : Streams c1 c2 o2 w2 e2) :
    Streams c c2 (o1 ++ o2) (w1 ++ w2) (fun t => e1 t ++ e2 t) := by
  constructor
  · simp only [sentMsgs_append, dataCat_append, List.append_assoc]; rw [h2.1, ← List.append_assoc, h1.1]; simp
  · intro t
    simp only [sentMsgs_append, extCat_append, List.append_assoc]; rw [h2.2 t, ← List.append_assoc, h1.2 t]; simp

theorem streams_sendClose (c : Chan) : Streams c (sendClose c).1 (sendClose c).2 [] (fun _ => []) := by
  simp only [Streams, sendClose_sent, sendClose_buf, sendClose_extBuf]
  split <;> simp [mData, mExt]

theorem streams_lose (c : Chan) : Streams c (loseConnection c).1 (loseConnection c).2 [] (fun _ => []) := by
  simp only [Streams, lose_sent, lose_buf, lose_extBuf]
  split <;> simp [mData, mExt]

theorem streams_write (c : Chan) (d : Bytes) (hc : c.localClosed = false) (hr : 1 ≤ c.rmp) :
    Streams c (write c d).1 (write c d).2 d (fun _ => []) := by
  simp only [Streams, write_sent, write_buf, write_extBuf, hc]
  split
  · simp
  · next hb =>
    simp only [ne_eq, Decidable.not_not] at hb
    constructor
    · simp only [Bool.false_eq_true, if_false, dataCat_append, dataCat_map_data, chunks_flatten _ hr, hb]
      split <;> simp [mData]
    · intro t
      simp only [Bool.false_eq_true, if_false, extCat_append, extCat_map_data]
      split <;> simp [mExt]

theorem streams_wx (c : Chan) (t : Nat) (d : Bytes) (hc : c.localClosed = false) (hr : 1 ≤ c.rmp) :
    Streams c (writeExtended c t d).1 (writeExtended c t d).2 [] (fun t' => if t = t' then d else []) := by
  simp only [Streams, wx_sent, wx_buf, wx_extBuf, hc]
  split
  · simp [extOf_bufferExt]
  · next hb =>
    simp only [ne_eq, Decidable.not_not] at hb
    constructor
    · simp only [Bool.false_eq_true, if_false, dataCat_append, dataCat_map_ext]
      split <;> simp [mData]
    · intro t'
      simp only [Bool.false_eq_true, if_false, extCat_append, extCat_map_ext, chunks_flatten _ hr, hb]
      by_cases ht : t = t' <;> by_cases hl : d.length ≤ c.rwl <;> simp [ht, hl, List.take_of_length_le]
      all_goals (split <;> simp [mExt])


theorem Streams.congr {c c' : Chan} {o : List Out} {w w' : Bytes} {e e' : Nat → Bytes}
    (h : Streams c c' o w e) (hw : w = w') (he : ∀ t, e t = e' t) : Streams c c' o w' e' := by
  subst hw; have : e = e' := funext he; subst this; exact h

theorem Streams.reframe {c c0 c' : Chan} {o : List Out} {w : Bytes} {e : Nat → Bytes}
    (h : Streams c0 c' o w e) (hb : c0.buf = c.buf) (he : c0.extBuf = c.extBuf) : Streams c c' o w e := by
  unfold Streams at *; rw [← hb, ← he]; exact h

theorem streams_flushExt : ∀ (es : List (Nat × Bytes)) (c : Chan), c.localClosed = false → c.closing = false →
    1 ≤ c.rmp →
    Streams c (flushExt c es).1 (flushExt c es).2 [] (fun t => extOf t es) ∧
      (flushExt c es).1.localClosed = false ∧ (flushExt c es).1.closing = false ∧
      Msg.close ∉ sentMsgs (flushExt c es).2 := by
  intro es
  induction es with
  | nil => intro c h1 h2 _; exact ⟨Streams.refl c, h1, h2, by simp [flushExt]⟩
  | cons e es ih =>
    intro c h1 h2 hr
    simp only [flushExt]
    have hw := streams_wx c e.1 e.2 h1 hr
    have hl : (writeExtended c e.1 e.2).1.localClosed = false := by simp [wx_localClosed, h1, h2]
    have := ih (writeExtended c e.1 e.2).1 hl (by simp [h2]) (by simp [hr])
    refine ⟨(hw.trans this.1).congr (by simp) (fun t => by simp), this.2.1, this.2.2.1, ?_⟩
    simp only [sentMsgs_append, List.mem_append, not_or]
    refine ⟨?_, this.2.2.2⟩
    simp only [wx_sent, h2]
    split <;> simp

theorem streams_flushBuf (c : Chan) (hc : c.localClosed = false) (hr : 1 ≤ c.rmp) :
    Streams c (flushBuf c).1 (flushBuf c).2 [] (fun _ => []) := by
  unfold flushBuf; split
  · have := streams_write { c with buf := [] } c.buf hc hr
    unfold Streams at *
    simpa using this
  · exact Streams.refl c

theorem streams_flushExtBuf (c : Chan) (hc : c.localClosed = false) (hr : 1 ≤ c.rmp) :
    Streams c (flushExtBuf c).1 (flushExtBuf c).2 [] (fun _ => []) := by
  unfold flushExtBuf; split
  · have h := streams_flushExt c.extBuf { c with extBuf := [], closing := false } hc rfl hr
    have h1 : Streams c (flushExt { c with extBuf := [], closing := false } c.extBuf).1
        (flushExt { c with extBuf := [], closing := false } c.extBuf).2 [] (fun _ => []) := by
      have := h.1; unfold Streams at *; simpa using this
    simp only []
    split
    · exact (h1.trans (streams_lose _)).congr (by simp) (fun t => by simp)
    · exact h1
  · exact Streams.refl c

theorem flushBuf_extBuf (c : Chan) : (flushBuf c).1.extBuf = c.extBuf := by
  unfold flushBuf; split <;> simp

theorem flushBuf_closed_extBuf (c : Chan) (hc : c.localClosed = false)
    (h : (flushBuf c).1.localClosed = true) : c.extBuf = [] := by
  unfold flushBuf at h; split at h
  · simp [write_localClosed, hc] at h; exact h.2
  · simp [hc] at h

theorem streams_addWindow (c : Chan) (n : Nat) (hc : c.localClosed = false) (hr : 1 ≤ c.rmp) :
    Streams c (addWindowBytes c n).1 (addWindowBytes c n).2 [] (fun _ => []) := by
  unfold addWindowBytes
  simp only []
  generalize hc0 : ({ c with rwl := c.rwl + n, areWriting := c.areWriting || !c.closing } : Chan) = c0
  have e1 : c0.buf = c.buf := by subst hc0; rfl
  have e2 : c0.extBuf = c.extBuf := by subst hc0; rfl
  have e3 : c0.localClosed = false := by subst hc0; exact hc
  have e4 : 1 ≤ c0.rmp := by subst hc0; exact hr
  have h1 := (streams_flushBuf c0 e3 e4).reframe e1 e2
  by_cases hl : (flushBuf c0).1.localClosed = false
  · have h2 := streams_flushExtBuf (flushBuf c0).1 hl (by rw [(sfacts_flushBuf c0).rmp]; exact e4)
    exact (h1.trans h2).congr (by simp) (fun t => by simp)
  · simp at hl
    have : (flushBuf c0).1.extBuf = [] := by rw [flushBuf_extBuf]; exact flushBuf_closed_extBuf c0 e3 hl
    have h2 : flushExtBuf (flushBuf c0).1 = ((flushBuf c0).1, []) := by
      unfold flushExtBuf; simp [this]
    rw [h2]; simpa using h1


theorem streams_recvData (c : Chan) (len : Nat) (ev : Out) (hev : sentMsgs [ev] = []) :
    Streams c (recvData c len ev).1 (recvData c len ev).2 [] (fun _ => []) := by
  unfold recvData
  split
  · have := streams_sendClose c
    unfold Streams at *; simpa [sentMsgs] using this
  · simp only []
    have e2 : ∀ n, sentMsgs [Out.send (Msg.adjust n), ev] = [Msg.adjust n] := by
      intro n; show _ :: sentMsgs [ev] = _; rw [hev]
    split
    · split <;> simp [Streams, hev, e2, mData, mExt]
    · simp [Streams, hev]

theorem streams_recvClose (c : Chan) : Streams c (recvClose c).1 (recvClose c).2 [] (fun _ => []) := by
  have h := streams_lose c
  unfold recvClose
  simp only []
  split
  · unfold Streams at *; simpa [sentMsgs_append, sentMsgs] using h
  · exact h

def dataIn1 : In → Bytes
  | .write d => d
  | _ => []
def extIn1 (t : Nat) : In → Bytes
  | .writeExt t' d => if t' = t then d else []
  | _ => []
def dataIn (ins : List In) : Bytes := ins.flatMap dataIn1
def extIn (t : Nat) (ins : List In) : Bytes := ins.flatMap (extIn1 t)

theorem streams_step (c : Chan) (i : In) (hc : c.localClosed = false) (hr : 1 ≤ c.rmp) :
    Streams c (step c i).1 (step c i).2 (dataIn1 i) (fun t => extIn1 t i) := by
  cases i with
  | write d => exact streams_write c d hc hr
  | writeExt t d => exact streams_wx c t d hc hr
  | lose => exact streams_lose c
  | recv m =>
    simp only [step]
    split
    · simp [Streams, sentMsgs, dataIn1, extIn1]
    · cases m with
      | data d => exact streams_recvData c d.length _ rfl
      | ext t d => exact streams_recvData c d.length _ rfl
      | close => exact streams_recvClose c
      | adjust n => exact streams_addWindow c n hc hr

theorem step_mono (c : Chan) (i : In) (h : c.localClosed = true) : (step c i).1.localClosed = true :=
  (gfacts_step c i).mono h

theorem run_mono (ins : List In) : ∀ c : Chan, c.localClosed = true → (run c ins).1.localClosed = true := by
  induction ins with
  | nil => intro c h; exact h
  | cons i is ih => intro c h; simp only [run]; exact ih _ (step_mono c i h)

theorem streams_run (ins : List In) : ∀ c : Chan, 1 ≤ c.rmp → (run c ins).1.localClosed = false →
    Streams c (run c ins).1 (run c ins).2 (dataIn ins) (fun t => extIn t ins) := by
  induction ins with
  | nil => intro c _ _; exact Streams.refl c
  | cons i is ih =>
    intro c hr hf
    simp only [run] at hf ⊢
    have h1 : (step c i).1.localClosed = false := by
      cases h : (step c i).1.localClosed
      · rfl
      · rw [run_mono is _ h] at hf; exact absurd hf (by simp)
    have h0 : c.localClosed = false := by
      cases h : c.localClosed
      · rfl
      · rw [step_mono c i h] at h1; exact absurd h1 (by simp)
    have hs := streams_step c i h0 hr
    have := ih (step c i).1 (by rw [(gfacts_step c i).rmp]; exact hr) hf
    exact (hs.trans this).congr (by simp [dataIn]) (fun t => by simp [extIn])

/-! ### enough window empties the buffers -/
theorem flushBuf_all (c : Chan) (h : c.buf.length ≤ c.rwl) :
    (flushBuf c).1.buf = [] ∧ (flushBuf c).1.rwl = c.rwl - c.buf.length ∧ (flushBuf c).1.extBuf = c.extBuf := by
  unfold flushBuf; split
  · simp [write_buf, write_rwl, List.drop_eq_nil_of_le h, List.length_take, Nat.min_eq_right h]
  · next hb => simp at hb; simp [hb]

theorem flushExt_all : ∀ (es : List (Nat × Bytes)) (c : Chan), c.extBuf = [] → c.closing = false →
    extBytes es ≤ c.rwl → (flushExt c es).1.extBuf = [] ∧ (flushExt c es).1.buf = c.buf := by
  intro es
  induction es with
  | nil => intro c h _ _; exact ⟨h, rfl⟩
  | cons e es ih =>
    intro c h1 h2 h3
    simp only [extBytes_cons] at h3
    simp only [flushExt]
    have hl : e.2.length ≤ c.rwl := by omega
    have := ih (writeExtended c e.1 e.2).1 (by simp [wx_extBuf, h1, hl]) (by simp [h2])
      (by simp [wx_rwl, h1, List.length_take, Nat.min_eq_right hl]; omega)
    simpa using this

theorem flushExtBuf_all (c : Chan) (h : extBytes c.extBuf ≤ c.rwl) :
    (flushExtBuf c).1.extBuf = [] ∧ (flushExtBuf c).1.buf = c.buf := by
  unfold flushExtBuf; split
  · have := flushExt_all c.extBuf { c with extBuf := [], closing := false } rfl rfl h
    simp only []
    split
    · simpa using this
    · exact this
  · next hb => simp at hb; simp [hb]

theorem addWindow_all (c : Chan) (n : Nat) (h : c.buf.length + extBytes c.extBuf ≤ c.rwl + n) :
    (addWindowBytes c n).1.buf = [] ∧ (addWindowBytes c n).1.extBuf = [] := by
  unfold addWindowBytes
  simp only []
  have h1 := flushBuf_all { c with rwl := c.rwl + n, areWriting := c.areWriting || !c.closing } (by simp; omega)
  have h2 := flushExtBuf_all (flushBuf { c with rwl := c.rwl + n, areWriting := c.areWriting || !c.closing }).1
    (by rw [h1.2.2, h1.2.1]; simp; omega)
  exact ⟨by rw [h2.2]; exact h1.1, h2.1⟩

theorem run_wf (ins : List In) : ∀ c : Chan, Wf c → Wf (run c ins).1 := by
  induction ins with
  | nil => intro c h; exact h
  | cons i is ih => intro c h; simp only [run]; exact ih _ ((gfacts_step c i).wf h)

/-! ### a close is sent only when nothing is buffered, and it is the last packet of its call -/
def CloseOK (c' : Chan) (out : List Out) : Prop :=
  Msg.close ∈ sentMsgs out →
    c'.buf = [] ∧ c'.extBuf = [] ∧ ∃ ms, sentMsgs out = ms ++ [Msg.close] ∧ Msg.close ∉ ms

theorem closeok_lose (c : Chan) : CloseOK (loseConnection c).1 (loseConnection c).2 := by
  intro h
  simp only [lose_sent] at h ⊢
  split at h
  · next hc => simp only [lose_buf, lose_extBuf]; exact ⟨hc.2.1, hc.2.2, [], by simp [hc]⟩
  · simp at h

theorem closeok_write (c : Chan) (d : Bytes) : CloseOK (write c d).1 (write c d).2 := by
  intro h
  by_cases hb : c.buf ≠ []
  · simp [write_sent, hb] at h
  · by_cases hc : c.closing = true ∧ d.drop c.rwl = [] ∧ c.extBuf = [] ∧ c.localClosed = false
    · refine ⟨by rw [write_buf, if_neg hb]; exact hc.2.1, by simp [hc.2.2.1],
        (if c.localClosed then [] else (chunks c.rmp (d.take c.rwl)).map Msg.data), ?_, ?_⟩
      · rw [write_sent, if_neg hb, if_pos hc]
      · split <;> simp
    · exfalso
      rw [write_sent, if_neg hb, if_neg hc] at h
      split at h <;> simp at h

theorem closeok_wx (c : Chan) (t : Nat) (d : Bytes) : CloseOK (writeExtended c t d).1 (writeExtended c t d).2 := by
  intro h
  by_cases hb : c.extBuf ≠ []
  · simp [wx_sent, hb] at h
  · by_cases hc : c.closing = true ∧ d.length ≤ c.rwl ∧ c.buf = [] ∧ c.localClosed = false
    · refine ⟨by simp [hc.2.2.1], by rw [wx_extBuf, if_neg hb, if_pos hc.2.1],
        (if c.localClosed then [] else (chunks c.rmp (d.take c.rwl)).map (Msg.ext t)), ?_, ?_⟩
      · rw [wx_sent, if_neg hb, if_pos hc]
      · split <;> simp
    · exfalso
      rw [wx_sent, if_neg hb, if_neg hc] at h
      split at h <;> simp at h

theorem noclose_flushExt : ∀ (es : List (Nat × Bytes)) (c : Chan), c.closing = false →
    Msg.close ∉ sentMsgs (flushExt c es).2 := by
  intro es
  induction es with
  | nil => intro c _; simp [flushExt]
  | cons e es ih =>
    intro c h
    simp only [flushExt, sentMsgs_append, List.mem_append, not_or]
    refine ⟨?_, ih _ (by simp [h])⟩
    simp only [wx_sent, h]
    split <;> simp

theorem closeok_flushBuf (c : Chan) : CloseOK (flushBuf c).1 (flushBuf c).2 := by
  unfold flushBuf; split
  · exact closeok_write _ _
  · intro h; simp at h

theorem closeok_flushExtBuf (c : Chan) : CloseOK (flushExtBuf c).1 (flushExtBuf c).2 := by
  unfold flushExtBuf; split
  · have hn := noclose_flushExt c.extBuf { c with extBuf := [], closing := false } rfl
    simp only []
    split
    · intro h
      simp only [sentMsgs_append, List.mem_append] at h
      rcases h with h | h
      · exact absurd h hn
      · obtain ⟨h1, h2, ms, h3, h4⟩ := closeok_lose _ h
        refine ⟨h1, h2, sentMsgs (flushExt { c with extBuf := [], closing := false } c.extBuf).2 ++ ms, ?_, ?_⟩
        · simp only [sentMsgs_append, h3, List.append_assoc]
        · simp only [List.mem_append, not_or]; exact ⟨hn, h4⟩
    · intro h; exact absurd h hn
  · intro h; simp at h

theorem closeok_addWindow (c : Chan) (n : Nat) : CloseOK (addWindowBytes c n).1 (addWindowBytes c n).2 := by
  unfold addWindowBytes
  simp only []
  generalize ({ c with rwl := c.rwl + n, areWriting := c.areWriting || !c.closing } : Chan) = c0
  intro h
  simp only [sentMsgs_append, List.mem_append] at h
  by_cases h1 : Msg.close ∈ sentMsgs (flushBuf c0).2
  · obtain ⟨hb, he, ms, h3, h4⟩ := closeok_flushBuf c0 h1
    have h2 : flushExtBuf (flushBuf c0).1 = ((flushBuf c0).1, []) := by
      unfold flushExtBuf; simp [he]
    rw [h2]
    exact ⟨hb, he, ms, by simp [h3], h4⟩
  · have h2 : Msg.close ∈ sentMsgs (flushExtBuf (flushBuf c0).1).2 := by
      rcases h with h | h
      · exact absurd h h1
      · exact h
    obtain ⟨hb, he, ms, h3, h4⟩ := closeok_flushExtBuf _ h2
    refine ⟨hb, he, sentMsgs (flushBuf c0).2 ++ ms, ?_, ?_⟩
    · simp only [sentMsgs_append, h3, List.append_assoc]
    · simp only [List.mem_append, not_or]; exact ⟨h1, h4⟩

theorem closeok_recvClose (c : Chan) : CloseOK (recvClose c).1 (recvClose c).2 := by
  have h := closeok_lose c
  unfold recvClose
  simp only []
  split
  · unfold CloseOK at *; simpa [sentMsgs_append, sentMsgs] using h
  · exact h

theorem closeok_recvData (c : Chan) (len : Nat) (ev : Out) (hev : sentMsgs [ev] = [])
    (hfit : len ≤ c.lwl ∧ len ≤ c.lmp) : CloseOK (recvData c len ev).1 (recvData c len ev).2 := by
  unfold recvData
  rw [if_neg (by omega)]
  simp only []
  have e2 : ∀ n, sentMsgs [Out.send (Msg.adjust n), ev] = [Msg.adjust n] := by
    intro n; show _ :: sentMsgs [ev] = _; rw [hev]
  intro h
  split at h
  · split at h <;> simp [hev, e2] at h
  · simp [hev] at h

theorem closeok_step (c : Chan) (i : In) (hfit : Fits c i) : CloseOK (step c i).1 (step c i).2 := by
  cases i with
  | write d => exact closeok_write c d
  | writeExt t d => exact closeok_wx c t d
  | lose => exact closeok_lose c
  | recv m =>
    simp only [step]
    split
    · intro h; simp [sentMsgs] at h
    · cases m with
      | data d => exact closeok_recvData c d.length _ rfl hfit
      | ext t d => exact closeok_recvData c d.length _ rfl hfit
      | close => exact closeok_recvClose c
      | adjust n => exact closeok_addWindow c n


theorem run_after (ins : List In) : ∀ c : Chan, c.localClosed = true → sentMsgs (run c ins).2 = [] := by
  induction ins with
  | nil => intro c _; rfl
  | cons i is ih =>
    intro c h
    simp only [run, sentMsgs_append, (gfacts_step c i).after h, ih _ (step_mono c i h), List.append_nil]

theorem run_open_noclose (ins : List In) : ∀ c : Chan, (run c ins).1.localClosed = false →
    Msg.close ∉ sentMsgs (run c ins).2 := by
  induction ins with
  | nil => intro c _; simp [run]
  | cons i is ih =>
    intro c hf
    simp only [run] at hf ⊢
    simp only [sentMsgs_append, List.mem_append, not_or]
    refine ⟨fun h => ?_, ih _ hf⟩
    have := run_mono is _ ((gfacts_step c i).closes h)
    rw [this] at hf; exact absurd hf (by simp)

theorem run_append (xs ys : List In) : ∀ c : Chan,
    run c (xs ++ ys) = ((run (run c xs).1 ys).1, (run c xs).2 ++ (run (run c xs).1 ys).2) := by
  induction xs with
  | nil => intro c; simp [run]
  | cons x xs ih => intro c; simp [run, ih]

/-! ### the receiver replenishes its window -/
theorem step_lwl_pos (c : Chan) (i : In) (h1 : 0 < c.lwl ∧ c.lwl ≤ c.lwSize)
    (hopen : (step c i).1.localClosed = false) :
    0 < (step c i).1.lwl ∧ (step c i).1.lwl ≤ (step c i).1.lwSize := by
  cases i with
  | write d => show 0 < (write c d).1.lwl ∧ (write c d).1.lwl ≤ (write c d).1.lwSize; rw [(sfacts_write c d).lwl, (sfacts_write c d).lwSize]; exact h1
  | writeExt t d =>
    show 0 < (writeExtended c t d).1.lwl ∧ (writeExtended c t d).1.lwl ≤ (writeExtended c t d).1.lwSize
    rw [(sfacts_wx c t d).lwl, (sfacts_wx c t d).lwSize]; exact h1
  | lose =>
    show 0 < (loseConnection c).1.lwl ∧ (loseConnection c).1.lwl ≤ (loseConnection c).1.lwSize
    rw [(sfacts_lose c).lwl, (sfacts_lose c).lwSize]; exact h1
  | recv m =>
    simp only [step] at hopen ⊢
    split
    · exact h1
    · next hg =>
      rw [if_neg hg] at hopen
      cases m with
      | close => rw [(sfacts_recvClose c).lwl, (sfacts_recvClose c).lwSize]; exact h1
      | adjust n => rw [(sfacts_addWindow c n).lwl, (sfacts_addWindow c n).lwSize]; exact h1
      | data d =>
        simp only [recvData] at hopen ⊢
        split
        · next hbad => rw [if_pos hbad] at hopen; simp at hopen
        · split
          · split
            · next hlc => rw [if_neg ‹_›, if_pos ‹_›, if_pos hlc] at hopen; simp [hlc] at hopen
            · simp; omega
          · simp; omega
      | ext t d =>
        simp only [recvData] at hopen ⊢
        split
        · next hbad => rw [if_pos hbad] at hopen; simp at hopen
        · split
          · split
            · next hlc => rw [if_neg ‹_›, if_pos ‹_›, if_pos hlc] at hopen; simp [hlc] at hopen
            · simp; omega
          · simp; omega

end TwistedProps.C36
