import TwistedProps.C36.Pair
/-! Second part of the pair proof for C36: exact accounting that survives the sender's close. -/
namespace TwistedProps.C36
open Twisted.Ssh.Channel

/-! ### exact accounting that survives the sender's close: only what was written before the CLOSE counts -/
/-- what the receiver has been handed, followed by what is in flight, followed by what the sender (if it has
not closed) still buffers, is exactly what was written while the sender was open -/
def Link2 (s : Chan) (q : List Msg) (gd : Bytes) (ge : Nat → Bytes) (wd : Bytes) (we : Nat → Bytes) : Prop :=
  gd ++ dataCat q ++ (if s.localClosed then [] else s.buf) = wd ∧
  ∀ t, ge t ++ extCat t q ++ (if s.localClosed then [] else extOf t s.extBuf) = we t

theorem link2_send (X : Chan) (i : In) (q : List Msg) (gd : Bytes) (ge : Nat → Bytes) (wd : Bytes) (we : Nat → Bytes)
    (hr : 1 ≤ X.rmp) (hf : Fits X i) (h : Link2 X q gd ge wd we) :
    Link2 (step X i).1 (q ++ sentMsgs (step X i).2) gd ge (wd ++ if X.localClosed then [] else dataIn1 i)
      (fun t => we t ++ if X.localClosed then [] else extIn1 t i) := by
  cases hc : X.localClosed
  · have hs := streams_step X i hc hr
    unfold Streams at hs
    have hbuf : (if (step X i).1.localClosed then [] else (step X i).1.buf) = (step X i).1.buf ∧
        ∀ t, (if (step X i).1.localClosed then [] else extOf t (step X i).1.extBuf) = extOf t (step X i).1.extBuf := by
      cases hc' : (step X i).1.localClosed
      · simp
      · obtain ⟨hb, he, _⟩ := closeok_step X i hf (step_opens X i hc hc')
        simp [hb, he]
    unfold Link2 at h ⊢
    simp only [hc, Bool.false_eq_true, if_false] at h ⊢
    constructor
    · rw [hbuf.1, dataCat_append, ← h.1]
      simp only [List.append_assoc]
      rw [hs.1]
    · intro t
      have hs2 := hs.2 t
      simp only [] at hs2
      rw [hbuf.2 t, extCat_append, ← h.2 t]
      simp only [List.append_assoc]
      rw [hs2]
  · have h0 := (gfacts_step X i).after hc
    have h1 := step_mono X i hc
    unfold Link2 at h ⊢
    simp only [hc, if_true, h0, h1, List.append_nil] at h ⊢
    exact h

theorem link2_recv (Y : Chan) (q q' : List Msg) (d : Bytes) (x : Nat → Bytes) (gd : Bytes) (ge : Nat → Bytes)
    (wd : Bytes) (we : Nat → Bytes) (hd : dataCat q = d ++ dataCat q') (he : ∀ t, extCat t q = x t ++ extCat t q')
    (h : Link2 Y q gd ge wd we) : Link2 Y q' (gd ++ d) (fun t => ge t ++ x t) wd we := by
  constructor
  · rw [← h.1, hd]; simp
  · intro t; simp only []; rw [← h.2 t, he t]; simp

theorem Link2.congr {s : Chan} {q : List Msg} {gd gd' : Bytes} {ge ge' : Nat → Bytes} {wd wd' : Bytes}
    {we we' : Nat → Bytes} (h : Link2 s q gd ge wd we) (e1 : gd = gd') (e2 : ∀ t, ge t = ge' t) (e3 : wd = wd')
    (e4 : ∀ t, we t = we' t) : Link2 s q gd' ge' wd' we' := by
  have := funext e2; have := funext e4; subst_vars; exact h

theorem links2_endpoint (X Y : Chan) (qxy qyx qyx' : List Msg) (i : In) (hev : Ev i qyx qyx')
    (h1 : Half X Y qxy qyx) (h2 : Half Y X qyx qxy)
    {gd : Bytes} {ge : Nat → Bytes} {wd : Bytes} {we : Nat → Bytes}
    {gd' : Bytes} {ge' : Nat → Bytes} {wd' : Bytes} {we' : Nat → Bytes}
    (lx : Link2 X qxy gd ge wd we) (ly : Link2 Y qyx gd' ge' wd' we') :
    Link2 (step X i).1 (qxy ++ sentMsgs (step X i).2) gd ge (wd ++ if X.localClosed then [] else dataIn1 i)
      (fun t => we t ++ if X.localClosed then [] else extIn1 t i) ∧
    Link2 Y qyx' (gd' ++ gotData (step X i).2) (fun t => ge' t ++ gotExt t (step X i).2) wd' we' := by
  obtain ⟨hf, hl, _, _⟩ := half_endpoint X Y qxy qyx qyx' i hev h1 h2
  obtain ⟨_, _, hd, he, _, _⟩ := ev_sums hev
  have hg := step_got X i hf hl
  refine ⟨link2_send X i qxy gd ge wd we h1.rmp1 hf lx, ?_⟩
  exact link2_recv Y qyx qyx' _ _ gd' ge' wd' we' (by rw [hg.1]; exact hd) (fun t => by rw [hg.2 t]; exact he t) ly

/-- side `s` has not sent its CLOSE -/
def sideOpen (s : Side) (p : Pair) : Bool :=
  match s with
  | .A => !p.a.localClosed
  | .B => !p.b.localClosed

/-- the bytes side `s` passed to `write` before it sent its CLOSE, along the run of `ops` from `p` -/
def wroteOpen (s : Side) : Pair → List POp → Bytes
  | _, [] => []
  | p, o :: os => (if sideOpen s p then wrote1 s o else []) ++ wroteOpen s (pstep p o).1 os
/-- … and to `writeExtended(t, …)` -/
def wroteExtOpen (s : Side) (t : Nat) : Pair → List POp → Bytes
  | _, [] => []
  | p, o :: os => (if sideOpen s p then wroteE1 s t o else []) ++ wroteExtOpen s t (pstep p o).1 os

structure PLinks2 (p : Pair) (outs : List (Side × Out)) (wA : Bytes) (xA : Nat → Bytes) (wB : Bytes)
    (xB : Nat → Bytes) : Prop where
  q : QInv p
  ab : Link2 p.a p.qab (gotD .B outs) (fun t => gotE .B t outs) wA xA
  ba : Link2 p.b p.qba (gotD .A outs) (fun t => gotE .A t outs) wB xB

theorem plinks2_pstep (p : Pair) (o : POp) (outs : List (Side × Out)) (wA : Bytes) (xA : Nat → Bytes) (wB : Bytes)
    (xB : Nat → Bytes) (ho : Conforming o) (h : PLinks2 p outs wA xA wB xB) :
    PLinks2 (pstep p o).1 (outs ++ (pstep p o).2)
      (wA ++ if sideOpen .A p then wrote1 .A o else []) (fun t => xA t ++ if sideOpen .A p then wroteE1 .A t o else [])
      (wB ++ if sideOpen .B p then wrote1 .B o else []) (fun t => xB t ++ if sideOpen .B p then wroteE1 .B t o else []) := by
  obtain ⟨⟨hab, hba⟩, lab, lba⟩ := h
  cases o with
  | act s i =>
    have hi : ∀ m, i ≠ .recv m := by
      intro m hm; subst hm; cases s <;> exact ho
    cases s with
    | A =>
      obtain ⟨_, hl, k1, k2⟩ := half_endpoint p.a p.b p.qab p.qba p.qba i (ev_user _ hi) hab hba
      obtain ⟨l1, l2⟩ := links2_endpoint p.a p.b p.qab p.qba p.qba i (ev_user _ hi) hab hba lab lba
      refine ⟨⟨k1, k2⟩, ?_, ?_⟩
      · exact l1.congr (by simp [pstep, gotD_append, gotD_map]) (fun t => by simp [pstep, gotE_append, gotE_map])
          (by cases hc : p.a.localClosed <;> simp [sideOpen, wrote1, hc]) (fun t => by cases hc : p.a.localClosed <;> simp [sideOpen, wroteE1, hc])
      · exact l2.congr (by simp [pstep, gotD_append, gotD_map]) (fun t => by simp [pstep, gotE_append, gotE_map])
          (by simp [wrote1]) (fun t => by simp [wroteE1])
    | B =>
      obtain ⟨_, hl, k1, k2⟩ := half_endpoint p.b p.a p.qba p.qab p.qab i (ev_user _ hi) hba hab
      obtain ⟨l1, l2⟩ := links2_endpoint p.b p.a p.qba p.qab p.qab i (ev_user _ hi) hba hab lba lab
      refine ⟨⟨k2, k1⟩, ?_, ?_⟩
      · exact l2.congr (by simp [pstep, gotD_append, gotD_map]) (fun t => by simp [pstep, gotE_append, gotE_map])
          (by simp [wrote1]) (fun t => by simp [wroteE1])
      · exact l1.congr (by simp [pstep, gotD_append, gotD_map]) (fun t => by simp [pstep, gotE_append, gotE_map])
          (by cases hc : p.b.localClosed <;> simp [sideOpen, wrote1, hc]) (fun t => by cases hc : p.b.localClosed <;> simp [sideOpen, wroteE1, hc])
  | deliver s =>
    cases s with
    | A =>
      cases hq : p.qba with
      | nil =>
        simp only [pstep, hq, List.append_nil]
        exact ⟨⟨hab, hba⟩, lab.congr rfl (fun _ => rfl) (by simp [wrote1]) (fun t => by simp [wroteE1]),
          lba.congr rfl (fun _ => rfl) (by simp [wrote1]) (fun t => by simp [wroteE1])⟩
      | cons m q =>
        have hev : Ev (.recv m) p.qba q := Or.inr ⟨m, rfl, hq⟩
        obtain ⟨_, hl, k1, k2⟩ := half_endpoint p.a p.b p.qab p.qba q _ hev hab hba
        obtain ⟨l1, l2⟩ := links2_endpoint p.a p.b p.qab p.qba q _ hev hab hba lab lba
        simp only [pstep, hq]
        refine ⟨⟨k1, k2⟩, ?_, ?_⟩
        · exact l1.congr (by simp [gotD_append, gotD_map]) (fun t => by simp [gotE_append, gotE_map])
            (by simp [wrote1, dataIn1]) (fun t => by simp [wroteE1, extIn1])
        · exact l2.congr (by simp [gotD_append, gotD_map]) (fun t => by simp [gotE_append, gotE_map])
            (by simp [wrote1]) (fun t => by simp [wroteE1])
    | B =>
      cases hq : p.qab with
      | nil =>
        simp only [pstep, hq, List.append_nil]
        exact ⟨⟨hab, hba⟩, lab.congr rfl (fun _ => rfl) (by simp [wrote1]) (fun t => by simp [wroteE1]),
          lba.congr rfl (fun _ => rfl) (by simp [wrote1]) (fun t => by simp [wroteE1])⟩
      | cons m q =>
        have hev : Ev (.recv m) p.qab q := Or.inr ⟨m, rfl, hq⟩
        obtain ⟨_, hl, k1, k2⟩ := half_endpoint p.b p.a p.qba p.qab q _ hev hba hab
        obtain ⟨l1, l2⟩ := links2_endpoint p.b p.a p.qba p.qab q _ hev hba hab lba lab
        simp only [pstep, hq]
        refine ⟨⟨k2, k1⟩, ?_, ?_⟩
        · exact l2.congr (by simp [gotD_append, gotD_map]) (fun t => by simp [gotE_append, gotE_map])
            (by simp [wrote1]) (fun t => by simp [wroteE1])
        · exact l1.congr (by simp [gotD_append, gotD_map]) (fun t => by simp [gotE_append, gotE_map])
            (by simp [wrote1, dataIn1]) (fun t => by simp [wroteE1, extIn1])

theorem plinks2_prun (ops : List POp) : ∀ (p : Pair) (outs0 : List (Side × Out)) (wA : Bytes) (xA : Nat → Bytes)
    (wB : Bytes) (xB : Nat → Bytes), PLinks2 p outs0 wA xA wB xB → (∀ o ∈ ops, Conforming o) →
    PLinks2 (prun p ops).1 (outs0 ++ (prun p ops).2)
      (wA ++ wroteOpen .A p ops) (fun t => xA t ++ wroteExtOpen .A t p ops)
      (wB ++ wroteOpen .B p ops) (fun t => xB t ++ wroteExtOpen .B t p ops) := by
  induction ops with
  | nil => intro p outs0 wA xA wB xB h _; simpa [prun, wroteOpen, wroteExtOpen] using h
  | cons o os ih =>
    intro p outs0 wA xA wB xB h hc
    have h1 := plinks2_pstep p o outs0 wA xA wB xB (hc o List.mem_cons_self) h
    have h2 := ih _ _ _ _ _ _ h1 (fun o' ho' => hc o' (List.mem_cons_of_mem _ ho'))
    simp only [prun, wroteOpen, wroteExtOpen]
    simpa [List.append_assoc] using h2

theorem plinks2_run (lwA lmpA lwB lmpB : Nat) (hA : 1 ≤ lmpA) (hB : 1 ≤ lmpB) (ops : List POp)
    (hops : ∀ o ∈ ops, Conforming o) :
    let p0 := Pair.init lwA lmpA lwB lmpB
    PLinks2 (prun p0 ops).1 (prun p0 ops).2 (wroteOpen .A p0 ops) (fun t => wroteExtOpen .A t p0 ops)
      (wroteOpen .B p0 ops) (fun t => wroteExtOpen .B t p0 ops) := by
  intro p0
  have h0 : PLinks2 p0 [] [] (fun _ => []) [] (fun _ => []) := by
    refine ⟨(plinks_init lwA lmpA lwB lmpB hA hB).q, ?_, ?_⟩ <;> simp [Link2, p0, Pair.init, fresh]
  have := plinks2_prun ops p0 [] [] (fun _ => []) [] (fun _ => []) h0 hops
  simpa using this

end TwistedProps.C36
