import TwistedProps.C36.Lemmas
namespace TwistedProps.C36
open Twisted.Ssh.Channel

/-! ### what a call hands to the application -/
def oData : Out → Bytes
  | .gotData d => d | _ => []
def oExt (t : Nat) : Out → Bytes
  | .gotExt t' d => if t' = t then d else [] | _ => []
def gotData (os : List Out) : Bytes := os.flatMap oData
def gotExt (t : Nat) (os : List Out) : Bytes := os.flatMap (oExt t)

@[simp] theorem gotData_nil : gotData [] = [] := rfl
@[simp] theorem gotExt_nil (t : Nat) : gotExt t [] = [] := rfl
@[simp] theorem gotData_append (a b : List Out) : gotData (a ++ b) = gotData a ++ gotData b := by
  simp [gotData, List.flatMap_append]
@[simp] theorem gotExt_append (t : Nat) (a b : List Out) : gotExt t (a ++ b) = gotExt t a ++ gotExt t b := by
  simp [gotExt, List.flatMap_append]
@[simp] theorem gotData_cons (o : Out) (b : List Out) : gotData (o :: b) = oData o ++ gotData b := by
  simp [gotData]
@[simp] theorem gotExt_cons (t : Nat) (o : Out) (b : List Out) : gotExt t (o :: b) = oExt t o ++ gotExt t b := by
  simp [gotExt]

/-- the call delivers nothing to the application -/
def Ctl (os : List Out) : Prop := ∀ o ∈ os, oData o = [] ∧ ∀ t, oExt t o = []

theorem Ctl.nil : Ctl [] := by intro o h; simp at h
theorem Ctl.append {a b : List Out} (ha : Ctl a) (hb : Ctl b) : Ctl (a ++ b) := by
  intro o h; rcases List.mem_append.mp h with h | h
  · exact ha o h
  · exact hb o h
theorem Ctl.gotData {os : List Out} (h : Ctl os) : gotData os = [] := by
  induction os with
  | nil => rfl
  | cons o os ih =>
    simp only [gotData_cons, (h o List.mem_cons_self).1, List.nil_append]
    exact ih (fun o' ho' => h o' (List.mem_cons_of_mem _ ho'))
theorem Ctl.gotExt {os : List Out} (h : Ctl os) (t : Nat) : gotExt t os = [] := by
  induction os with
  | nil => rfl
  | cons o os ih =>
    simp only [gotExt_cons, (h o List.mem_cons_self).2 t, List.nil_append]
    exact ih (fun o' ho' => h o' (List.mem_cons_of_mem _ ho'))
theorem ctl_emit (c : Chan) (ms : List Msg) : Ctl (emit c ms) := by
  unfold emit; split
  · exact Ctl.nil
  · intro o h; obtain ⟨m, _, rfl⟩ := List.mem_map.mp h; simp [oData, oExt]
theorem ctl_sendClose (c : Chan) : Ctl (sendClose c).2 := by
  unfold sendClose; split
  · exact Ctl.nil
  · split
    · intro o h; simp at h; rcases h with rfl | rfl <;> simp [oData, oExt]
    · intro o h; simp at h; subst h; simp [oData, oExt]

/-- a removed channel has seen the peer's CLOSE -/
def G (c : Chan) : Prop := c.gone = true → c.remoteClosed = true

theorem lenSum_chunks_data_eq (r : Nat) (hr : 1 ≤ r) (d : Bytes) : lenSum ((chunks r d).map Msg.data) = d.length := by
  have h := chunks_flatten r hr d
  have : lenSum ((chunks r d).map Msg.data) = (chunks r d).flatten.length := by
    simp [lenSum, List.length_flatten, List.map_map, Function.comp_def, mLen]
  rw [this, h]
theorem lenSum_chunks_ext_eq (r t : Nat) (hr : 1 ≤ r) (d : Bytes) : lenSum ((chunks r d).map (Msg.ext t)) = d.length := by
  have h := chunks_flatten r hr d
  have : lenSum ((chunks r d).map (Msg.ext t)) = (chunks r d).flatten.length := by
    simp [lenSum, List.length_flatten, List.map_map, Function.comp_def, mLen]
  rw [this, h]

/-- more facts shared by every sender-side call (all transitive) -/
structure TFacts (c c' : Chan) (out : List Out) : Prop where
  rmp : c'.rmp = c.rmp
  mono : c.localClosed = true → c'.localClosed = true
  opens : c.localClosed = false → c'.localClosed = true → Msg.close ∈ sentMsgs out
  weq : 1 ≤ c.rmp → c'.localClosed = false → lenSum (sentMsgs out) + c'.rwl = c.rwl
  ctl : Ctl out
  rc : c'.remoteClosed = c.remoteClosed
  g : G c → G c'

theorem TFacts.refl (c : Chan) : TFacts c c [] := by
  refine ⟨rfl, fun h => h, ?_, ?_, Ctl.nil, rfl, fun h => h⟩
  · intro h1 h2; rw [h1] at h2; exact absurd h2 (by simp)
  · intro _ _; simp

theorem TFacts.trans {c c1 c2 : Chan} {o1 o2 : List Out} (h1 : TFacts c c1 o1) (h2 : TFacts c1 c2 o2) :
    TFacts c c2 (o1 ++ o2) := by
  refine ⟨h2.rmp.trans h1.rmp, fun h => h2.mono (h1.mono h), ?_, ?_, h1.ctl.append h2.ctl, h2.rc.trans h1.rc,
    fun h => h2.g (h1.g h)⟩
  · intro ha hb
    simp only [sentMsgs_append, List.mem_append]
    cases hm : c1.localClosed
    · exact Or.inr (h2.opens hm hb)
    · exact Or.inl (h1.opens ha hm)
  · intro hr hb
    have hm : c1.localClosed = false := by
      cases hm : c1.localClosed
      · rfl
      · rw [h2.mono hm] at hb; exact absurd hb (by simp)
    have e1 := h1.weq hr hm
    have e2 := h2.weq (by rw [h1.rmp]; exact hr) hb
    simp only [sentMsgs_append, lenSum_append]; omega

theorem TFacts.reframe {c c0 c' : Chan} {o : List Out} (h : TFacts c0 c' o)
    (e1 : c0.rmp = c.rmp) (e5 : c0.rwl = c.rwl) (e6 : c0.localClosed = c.localClosed) (e7 : c0.gone = c.gone)
    (e8 : c0.remoteClosed = c.remoteClosed) : TFacts c c' o :=
  ⟨h.rmp.trans e1, fun hc => h.mono (e6 ▸ hc), fun ha hb => h.opens (e6 ▸ ha) hb,
   fun hr hb => e5 ▸ h.weq (e1 ▸ hr) hb, h.ctl, h.rc.trans e8, fun hg => h.g (by unfold G at *; rw [e7, e8]; exact hg)⟩

theorem tfacts_sendClose (c : Chan) : TFacts c (sendClose c).1 (sendClose c).2 := by
  refine ⟨by simp, fun _ => by simp, ?_, ?_, ctl_sendClose c, by simp, ?_⟩
  · intro h _; simp [sendClose_sent, h]
  · intro _ h; simp at h
  · intro hg; unfold G at *; rw [sendClose_gone, sendClose_remoteClosed]
    intro h; cases hgone : c.gone
    · simp [hgone] at h; exact h.2
    · exact hg hgone

theorem tfacts_lose (c : Chan) : TFacts c (loseConnection c).1 (loseConnection c).2 := by
  unfold loseConnection; split
  · exact (tfacts_sendClose { c with closing := true }).reframe rfl rfl rfl rfl rfl
  · exact TFacts.refl _ |>.reframe rfl rfl rfl rfl rfl

theorem ctl_write (c : Chan) (d : Bytes) : Ctl (write c d).2 := by
  unfold write; split
  · exact Ctl.nil
  · simp only []; split
    · exact (ctl_emit _ _).append (tfacts_lose _).ctl
    · exact ctl_emit _ _

theorem ctl_wx (c : Chan) (t : Nat) (d : Bytes) : Ctl (writeExtended c t d).2 := by
  unfold writeExtended; split
  · exact Ctl.nil
  · simp only []; split
    · exact (ctl_emit _ _).append (tfacts_lose _).ctl
    · exact ctl_emit _ _

theorem g_write (c : Chan) (d : Bytes) (h : G c) : G (write c d).1 := by
  unfold write; split
  · exact h
  · simp only []; split
    · exact (tfacts_lose _).g h
    · exact h

theorem g_wx (c : Chan) (t : Nat) (d : Bytes) (h : G c) : G (writeExtended c t d).1 := by
  unfold writeExtended; split
  · exact h
  · simp only []; split
    · exact (tfacts_lose _).g h
    · exact h

theorem tfacts_write (c : Chan) (d : Bytes) : TFacts c (write c d).1 (write c d).2 := by
  refine ⟨by simp, (sfacts_write c d).mono, ?_, ?_, ctl_write c d, by simp, g_write c d⟩
  · intro h1 h2
    simp only [write_localClosed, h1, Bool.false_or, Bool.and_eq_true, decide_eq_true_eq] at h2
    simp [write_sent, h1, h2]
  · intro hr h2
    simp only [write_localClosed, Bool.or_eq_false_iff] at h2
    simp only [write_sent, write_rwl, h2.1]
    split
    · simp
    · have h3 : (d.take c.rwl).length ≤ c.rwl := by simp [List.length_take]; omega
      simp only [Bool.false_eq_true, if_false, lenSum_append, lenSum_chunks_data_eq _ hr]
      split <;> simp [mLen] <;> omega

theorem tfacts_wx (c : Chan) (t : Nat) (d : Bytes) : TFacts c (writeExtended c t d).1 (writeExtended c t d).2 := by
  refine ⟨by simp, (sfacts_wx c t d).mono, ?_, ?_, ctl_wx c t d, by simp, g_wx c t d⟩
  · intro h1 h2
    simp only [wx_localClosed, h1, Bool.false_or, Bool.and_eq_true, decide_eq_true_eq] at h2
    simp [wx_sent, h1, h2]
  · intro hr h2
    simp only [wx_localClosed, Bool.or_eq_false_iff] at h2
    simp only [wx_sent, wx_rwl, h2.1]
    split
    · simp
    · have h3 : (d.take c.rwl).length ≤ c.rwl := by simp [List.length_take]; omega
      simp only [Bool.false_eq_true, if_false, lenSum_append, lenSum_chunks_ext_eq _ _ hr]
      split <;> simp [mLen] <;> omega

theorem tfacts_flushExt : ∀ (es : List (Nat × Bytes)) (c : Chan), TFacts c (flushExt c es).1 (flushExt c es).2 := by
  intro es
  induction es with
  | nil => intro c; exact TFacts.refl c
  | cons e es ih => intro c; simp only [flushExt]; exact (tfacts_wx c e.1 e.2).trans (ih _)

theorem tfacts_flushBuf (c : Chan) : TFacts c (flushBuf c).1 (flushBuf c).2 := by
  unfold flushBuf; split
  · exact (tfacts_write { c with buf := [] } c.buf).reframe rfl rfl rfl rfl rfl
  · exact TFacts.refl c

theorem tfacts_flushExtBuf (c : Chan) : TFacts c (flushExtBuf c).1 (flushExtBuf c).2 := by
  unfold flushExtBuf; split
  · have h2 := (tfacts_flushExt c.extBuf { c with extBuf := [], closing := false }).reframe (c := c) rfl rfl rfl rfl rfl
    simp only []
    split
    · exact h2.trans (tfacts_lose _)
    · exact h2
  · exact TFacts.refl c

theorem tfacts_addWindow (c : Chan) (n : Nat) :
    TFacts { c with rwl := c.rwl + n } (addWindowBytes c n).1 (addWindowBytes c n).2 := by
  unfold addWindowBytes
  simp only []
  exact ((tfacts_flushBuf { c with rwl := c.rwl + n, areWriting := c.areWriting || !c.closing }).reframe
    (c := { c with rwl := c.rwl + n }) rfl rfl rfl rfl rfl).trans (tfacts_flushExtBuf _)

/-! ### data is buffered only when the window is used up -/
def Jb (c : Chan) : Prop := c.buf ≠ [] → c.rwl = 0
def Je (c : Chan) : Prop := c.extBuf ≠ [] → c.rwl = 0
def J (c : Chan) : Prop := Jb c ∧ Je c

theorem jb_frame {c c' : Chan} (h : Jb c) (e1 : c'.buf = c.buf) (e2 : c'.rwl = c.rwl) : Jb c' := by
  unfold Jb at *; rw [e1, e2]; exact h
theorem je_frame {c c' : Chan} (h : Je c) (e1 : c'.extBuf = c.extBuf) (e2 : c'.rwl = c.rwl) : Je c' := by
  unfold Je at *; rw [e1, e2]; exact h

theorem jb_write (c : Chan) (d : Bytes) (h : c.buf = [] ∨ Jb c) : Jb (write c d).1 := by
  unfold Jb at *
  rw [write_buf, write_rwl]
  split
  · next hb => intro _; rcases h with h | h
               · exact absurd h hb
               · exact h hb
  · intro hd
    have : c.rwl < d.length := by
      false_or_by_contra
      exact hd (List.drop_eq_nil_of_le (by omega))
    simp [List.length_take]; omega

theorem je_write (c : Chan) (d : Bytes) (h : Je c) : Je (write c d).1 := by
  unfold Je at *
  rw [write_extBuf, write_rwl]
  intro he; have := h he
  split <;> omega

theorem bufferExt_ne_nil : ∀ (b : List (Nat × Bytes)) (t : Nat) (d : Bytes), bufferExt b t d ≠ [] := by
  intro b
  induction b with
  | nil => intro t d; simp [bufferExt]
  | cons e es ih =>
    intro t d
    cases es with
    | nil => simp only [bufferExt]; split <;> simp
    | cons e' es => simp [bufferExt]

theorem je_wx (c : Chan) (t : Nat) (d : Bytes) (h : c.extBuf = [] ∨ Je c) : Je (writeExtended c t d).1 := by
  unfold Je at *
  rw [wx_extBuf, wx_rwl]
  split
  · next hb => intro _; rcases h with h | h
               · exact absurd h hb
               · exact h hb
  · split
    · intro h'; exact absurd rfl h'
    · intro _; simp [List.length_take]; omega

theorem jb_wx (c : Chan) (t : Nat) (d : Bytes) (h : Jb c) : Jb (writeExtended c t d).1 := by
  unfold Jb at *
  rw [wx_buf, wx_rwl]
  intro he; have := h he
  split <;> omega

theorem j_flushExt : ∀ (es : List (Nat × Bytes)) (c : Chan),
    (Jb c → Jb (flushExt c es).1) ∧ ((c.extBuf = [] ∨ Je c) → Je (flushExt c es).1) := by
  intro es
  induction es with
  | nil =>
    intro c; refine ⟨fun h => h, fun h => ?_⟩
    rcases h with h | h
    · intro h'; exact absurd h h'
    · exact h
  | cons e es ih =>
    intro c
    simp only [flushExt]
    exact ⟨fun h => (ih _).1 (jb_wx c e.1 e.2 h), fun h => (ih _).2 (Or.inr (je_wx c e.1 e.2 h))⟩

theorem jb_flushBuf (c : Chan) : Jb (flushBuf c).1 := by
  unfold flushBuf; split
  · exact jb_write _ _ (Or.inl rfl)
  · next hb => intro h; exact absurd h hb

theorem j_flushExtBuf (c : Chan) (h : Jb c) : J (flushExtBuf c).1 := by
  unfold flushExtBuf; split
  · have h1 := j_flushExt c.extBuf { c with extBuf := [], closing := false }
    have hb := h1.1 (jb_frame h rfl rfl)
    have he := h1.2 (Or.inl rfl)
    simp only []
    split
    · exact ⟨jb_frame hb (by simp) (by simp), je_frame he (by simp) (by simp)⟩
    · exact ⟨hb, he⟩
  · next hb => exact ⟨h, fun h' => absurd h' hb⟩

theorem j_addWindow (c : Chan) (n : Nat) : J (addWindowBytes c n).1 := by
  unfold addWindowBytes
  exact j_flushExtBuf _ (jb_flushBuf _)

/-! ### only a requested close closes (when nothing is refused) -/
def K (c : Chan) : Prop := c.localClosed = true → c.closing = true

theorem k_lose (c : Chan) : K (loseConnection c).1 := fun _ => lose_closing c

theorem k_write (c : Chan) (d : Bytes) (h : K c) : K (write c d).1 := by
  unfold K at *
  rw [write_closing, write_localClosed]
  intro h'
  cases hl : c.localClosed
  · simp [hl] at h'; exact h'.1.1.2
  · exact h hl

theorem k_wx (c : Chan) (t : Nat) (d : Bytes) (h : K c) : K (writeExtended c t d).1 := by
  unfold K at *
  rw [wx_closing, wx_localClosed]
  intro h'
  cases hl : c.localClosed
  · simp [hl] at h'; exact h'.1.1.2
  · exact h hl

theorem k_flushExt : ∀ (es : List (Nat × Bytes)) (c : Chan), K c → K (flushExt c es).1 := by
  intro es
  induction es with
  | nil => intro c h; exact h
  | cons e es ih => intro c h; simp only [flushExt]; exact ih _ (k_wx c e.1 e.2 h)

theorem k_flushBuf (c : Chan) (h : K c) : K (flushBuf c).1 := by
  unfold flushBuf; split
  · exact k_write _ _ h
  · exact h

theorem k_flushExtBuf (c : Chan) (h : K c) : K (flushExtBuf c).1 := by
  unfold flushExtBuf; split
  · simp only []
    split
    · exact k_lose _
    · next hc =>
      apply k_flushExt
      intro hl
      have := h hl
      exact absurd this hc
  · exact h

theorem k_addWindow (c : Chan) (n : Nat) (h : K c) : K (addWindowBytes c n).1 := by
  unfold addWindowBytes
  exact k_flushExtBuf _ (k_flushBuf _ h)

/-! ### the receiving calls -/
theorem recvData_fit (c : Chan) (len : Nat) (ev : Out) (hf : len ≤ c.lwl ∧ len ≤ c.lmp) :
    ∃ l' outs, recvData c len ev = ({ c with lwl := l' }, outs ++ [ev]) ∧
      (outs = [] ∨ ∃ n, outs = [Out.send (Msg.adjust n)]) ∧ l' + len = c.lwl + adjSum (sentMsgs outs) := by
  unfold recvData
  rw [if_neg (by omega)]
  simp only []
  split
  · split
    · exact ⟨_, [], rfl, Or.inl rfl, by simp; omega⟩
    · exact ⟨_, [.send (.adjust (c.lwSize - (c.lwl - len)))], rfl, Or.inr ⟨_, rfl⟩, by simp [mAdj]; omega⟩
  · exact ⟨_, [], rfl, Or.inl rfl, by simp; omega⟩

theorem recvData_unfit (c : Chan) (len : Nat) (ev : Out) (hf : ¬ (len ≤ c.lwl ∧ len ≤ c.lmp)) :
    recvData c len ev = ((sendClose c).1, Out.refused :: (sendClose c).2) := by
  unfold recvData
  rw [if_pos (by omega)]

section rc
variable (c : Chan)
@[simp] theorem recvClose_buf : (recvClose c).1.buf = c.buf := by unfold recvClose; simp only []; split <;> simp
@[simp] theorem recvClose_extBuf : (recvClose c).1.extBuf = c.extBuf := by unfold recvClose; simp only []; split <;> simp
@[simp] theorem recvClose_rwl : (recvClose c).1.rwl = c.rwl := by unfold recvClose; simp only []; split <;> simp
@[simp] theorem recvClose_closing : (recvClose c).1.closing = true := by unfold recvClose; simp only []; split <;> simp
@[simp] theorem recvClose_remoteClosed : (recvClose c).1.remoteClosed = true := by unfold recvClose; simp only []; split <;> simp
theorem recvClose_localClosed : (recvClose c).1.localClosed = (loseConnection c).1.localClosed := by
  unfold recvClose; simp only []; split <;> simp
theorem recvClose_sent : sentMsgs (recvClose c).2 = sentMsgs (loseConnection c).2 := by
  unfold recvClose; simp only []; split <;> simp [sentMsgs_append, sentMsgs]
theorem ctl_recvClose : Ctl (recvClose c).2 := by
  unfold recvClose; simp only []; split
  · refine (tfacts_lose c).ctl.append ?_
    intro o h; simp at h; subst h; simp [oData, oExt]
  · exact (tfacts_lose c).ctl
end rc

def inData : In → Bytes
  | .recv m => mData m | _ => []
def inExt (t : Nat) : In → Bytes
  | .recv m => mExt t m | _ => []

/-- the packet (if the call is a packet) is for a channel that still exists -/
def Live (c : Chan) (i : In) : Prop := ∀ m, i = .recv m → c.gone = false

theorem step_opens (c : Chan) (i : In) (h1 : c.localClosed = false) (h2 : (step c i).1.localClosed = true) :
    Msg.close ∈ sentMsgs (step c i).2 := by
  cases i with
  | write d => exact (tfacts_write c d).opens h1 h2
  | writeExt t d => exact (tfacts_wx c t d).opens h1 h2
  | lose => exact (tfacts_lose c).opens h1 h2
  | recv m =>
    simp only [step] at h2 ⊢
    split
    · next hg => rw [if_pos hg, h1] at h2; exact absurd h2 (by simp)
    · next hg =>
      rw [if_neg hg] at h2
      have hd : ∀ len ev, (recvData c len ev).1.localClosed = true → Msg.close ∈ sentMsgs (recvData c len ev).2 := by
        intro len ev h2
        by_cases hf : len ≤ c.lwl ∧ len ≤ c.lmp
        · obtain ⟨l', outs, e, _, _⟩ := recvData_fit c len ev hf
          rw [e] at h2; simp [h1] at h2
        · rw [recvData_unfit c len ev hf]
          simp [sentMsgs, sendClose_sent, h1]
      cases m with
      | data d => exact hd _ _ h2
      | ext t d => exact hd _ _ h2
      | adjust n => exact (tfacts_addWindow c n).opens h1 h2
      | close =>
        simp only [recvClose_localClosed] at h2
        simp only [recvClose_sent]
        exact (tfacts_lose c).opens h1 h2

theorem step_weq (c : Chan) (i : In) (hw : Wf c) (hr : 1 ≤ c.rmp) (h2 : (step c i).1.localClosed = false) :
    lenSum (sentMsgs (step c i).2) + (step c i).1.rwl = c.rwl + adjIn1 i := by
  cases i with
  | write d => exact (tfacts_write c d).weq hr h2
  | writeExt t d => exact (tfacts_wx c t d).weq hr h2
  | lose => exact (tfacts_lose c).weq hr h2
  | recv m =>
    simp only [step] at h2 ⊢
    split
    · next hg => rw [if_pos hg, hw hg] at h2; exact absurd h2 (by simp)
    · next hg =>
      rw [if_neg hg] at h2
      have hd : ∀ len ev, sentMsgs [ev] = [] → (recvData c len ev).1.localClosed = false →
          lenSum (sentMsgs (recvData c len ev).2) + (recvData c len ev).1.rwl = c.rwl := by
        intro len ev hev h2
        by_cases hf : len ≤ c.lwl ∧ len ≤ c.lmp
        · obtain ⟨l', outs, e, ho, _⟩ := recvData_fit c len ev hf
          rw [e]
          rcases ho with rfl | ⟨n, rfl⟩
          · simp [hev]
          · simp [hev, mLen]
        · rw [recvData_unfit c len ev hf] at h2; simp at h2
      cases m with
      | data d => simpa [adjIn1] using hd d.length _ rfl h2
      | ext t d => simpa [adjIn1] using hd d.length _ rfl h2
      | adjust n => exact (tfacts_addWindow c n).weq hr h2
      | close =>
        simp only [recvClose_localClosed] at h2
        simp only [recvClose_sent, recvClose_rwl, adjIn1]
        have := (tfacts_lose c).weq hr h2
        simpa using this

theorem step_lwl_eq (c : Chan) (i : In) (hf : Fits c i) (hl : Live c i) :
    (step c i).1.lwl + inLen i = c.lwl + adjSum (sentMsgs (step c i).2) := by
  cases i with
  | write d => simp [step, inLen, (sfacts_write c d).noadj]
  | writeExt t d => simp [step, inLen, (sfacts_wx c t d).noadj]
  | lose => simp [step, inLen, (sfacts_lose c).noadj]
  | recv m =>
    have hg := hl m rfl
    simp only [step, hg, Bool.false_eq_true, if_false]
    have hd : ∀ len ev, sentMsgs [ev] = [] → len ≤ c.lwl ∧ len ≤ c.lmp →
        (recvData c len ev).1.lwl + len = c.lwl + adjSum (sentMsgs (recvData c len ev).2) := by
      intro len ev hev hf
      obtain ⟨l', outs, e, ho, h⟩ := recvData_fit c len ev hf
      rw [e]; simp only [sentMsgs_append, hev, List.append_nil]; exact h
    cases m with
    | data d => exact hd d.length _ rfl hf
    | ext t d => exact hd d.length _ rfl hf
    | adjust n => simp [inLen, (sfacts_addWindow c n).lwl, (sfacts_addWindow c n).noadj]
    | close => simp [inLen, (sfacts_recvClose c).lwl, (sfacts_recvClose c).noadj]

theorem ctl_addWindow (c : Chan) (n : Nat) : Ctl (addWindowBytes c n).2 := (tfacts_addWindow c n).ctl

theorem step_got (c : Chan) (i : In) (hf : Fits c i) (hl : Live c i) :
    gotData (step c i).2 = inData i ∧ ∀ t, gotExt t (step c i).2 = inExt t i := by
  cases i with
  | write d => exact ⟨(ctl_write c d).gotData, fun t => (ctl_write c d).gotExt t⟩
  | writeExt t d => exact ⟨(ctl_wx c t d).gotData, fun t' => (ctl_wx c t d).gotExt t'⟩
  | lose => exact ⟨(tfacts_lose c).ctl.gotData, fun t => (tfacts_lose c).ctl.gotExt t⟩
  | recv m =>
    have hg := hl m rfl
    simp only [step, hg, Bool.false_eq_true, if_false]
    have hd : ∀ len ev, len ≤ c.lwl ∧ len ≤ c.lmp →
        gotData (recvData c len ev).2 = oData ev ∧ ∀ t, gotExt t (recvData c len ev).2 = oExt t ev := by
      intro len ev hf
      obtain ⟨l', outs, e, ho, h⟩ := recvData_fit c len ev hf
      rw [e]
      rcases ho with rfl | ⟨n, rfl⟩ <;> simp [oData, oExt]
    cases m with
    | data d => simpa [oData, oExt, inData, inExt, mData, mExt] using hd d.length (.gotData d) hf
    | ext t d => simpa [oData, oExt, inData, inExt, mData, mExt] using hd d.length (.gotExt t d) hf
    | adjust n => exact ⟨(ctl_addWindow c n).gotData, fun t => (ctl_addWindow c n).gotExt t⟩
    | close => exact ⟨(ctl_recvClose c).gotData, fun t => (ctl_recvClose c).gotExt t⟩

theorem step_rc_other (c : Chan) (i : In) (hi : i ≠ .recv .close) (hf : Fits c i) :
    (step c i).1.remoteClosed = c.remoteClosed := by
  cases i with
  | write d => exact (tfacts_write c d).rc
  | writeExt t d => exact (tfacts_wx c t d).rc
  | lose => exact (tfacts_lose c).rc
  | recv m =>
    simp only [step]
    split
    · rfl
    · have hd : ∀ len ev, len ≤ c.lwl ∧ len ≤ c.lmp → (recvData c len ev).1.remoteClosed = c.remoteClosed := by
        intro len ev hf
        obtain ⟨l', outs, e, _, _⟩ := recvData_fit c len ev hf
        rw [e]
      cases m with
      | data d => exact hd _ _ hf
      | ext t d => exact hd _ _ hf
      | adjust n => exact (tfacts_addWindow c n).rc
      | close => exact absurd rfl hi

theorem step_rc_close (c : Chan) (hg : c.gone = false) : (step c (.recv .close)).1.remoteClosed = true := by
  simp [step, hg]

theorem g_recvClose (c : Chan) : G (recvClose c).1 := fun _ => recvClose_remoteClosed c

theorem step_G (c : Chan) (i : In) (h : G c) : G (step c i).1 := by
  cases i with
  | write d => exact (tfacts_write c d).g h
  | writeExt t d => exact (tfacts_wx c t d).g h
  | lose => exact (tfacts_lose c).g h
  | recv m =>
    simp only [step]
    split
    · exact h
    · have hd : ∀ len ev, G (recvData c len ev).1 := by
        intro len ev
        by_cases hf : len ≤ c.lwl ∧ len ≤ c.lmp
        · obtain ⟨l', outs, e, _, _⟩ := recvData_fit c len ev hf
          rw [e]; exact h
        · rw [recvData_unfit c len ev hf]; exact (tfacts_sendClose c).g h
      cases m with
      | data d => exact hd _ _
      | ext t d => exact hd _ _
      | adjust n => exact (tfacts_addWindow c n).g h
      | close => exact g_recvClose c

theorem step_J (c : Chan) (i : In) (h : J c) : J (step c i).1 := by
  cases i with
  | write d => exact ⟨jb_write c d (Or.inr h.1), je_write c d h.2⟩
  | writeExt t d => exact ⟨jb_wx c t d h.1, je_wx c t d (Or.inr h.2)⟩
  | lose => exact ⟨jb_frame h.1 (lose_buf c) (lose_rwl c), je_frame h.2 (lose_extBuf c) (lose_rwl c)⟩
  | recv m =>
    simp only [step]
    split
    · exact h
    · have hd : ∀ len ev, J (recvData c len ev).1 := by
        intro len ev
        by_cases hf : len ≤ c.lwl ∧ len ≤ c.lmp
        · obtain ⟨l', outs, e, _, _⟩ := recvData_fit c len ev hf
          rw [e]; exact h
        · rw [recvData_unfit c len ev hf]
          exact ⟨jb_frame h.1 (by simp) (by simp), je_frame h.2 (by simp) (by simp)⟩
      cases m with
      | data d => exact hd _ _
      | ext t d => exact hd _ _
      | adjust n => exact j_addWindow c n
      | close => exact ⟨jb_frame h.1 (by simp) (by simp), je_frame h.2 (by simp) (by simp)⟩

theorem step_K (c : Chan) (i : In) (h : K c) (hf : Fits c i) : K (step c i).1 := by
  cases i with
  | write d => exact k_write c d h
  | writeExt t d => exact k_wx c t d h
  | lose => exact k_lose c
  | recv m =>
    simp only [step]
    split
    · exact h
    · have hd : ∀ len ev, len ≤ c.lwl ∧ len ≤ c.lmp → K (recvData c len ev).1 := by
        intro len ev hf
        obtain ⟨l', outs, e, _, _⟩ := recvData_fit c len ev hf
        rw [e]; exact h
      cases m with
      | data d => exact hd _ _ hf
      | ext t d => exact hd _ _ hf
      | adjust n => exact k_addWindow c n h
      | close => exact fun _ => recvClose_closing c

theorem step_nokey (c : Chan) (i : In) (hl : Live c i) : Out.keyError ∉ (step c i).2 := by
  cases i with
  | write d => exact (sfacts_write c d).quiet.2
  | writeExt t d => exact (sfacts_wx c t d).quiet.2
  | lose => exact (sfacts_lose c).quiet.2
  | recv m =>
    have hg := hl m rfl
    simp only [step, hg, Bool.false_eq_true, if_false]
    have hd : ∀ len ev, ev ≠ Out.keyError → Out.keyError ∉ (recvData c len ev).2 := by
      intro len ev hev
      by_cases hf : len ≤ c.lwl ∧ len ≤ c.lmp
      · obtain ⟨l', outs, e, ho, _⟩ := recvData_fit c len ev hf
        rw [e]
        rcases ho with rfl | ⟨n, rfl⟩ <;> simp [hev.symm]
      · rw [recvData_unfit c len ev hf]
        have := (sfacts_sendClose c).quiet.2
        simp [this]
    cases m with
    | data d => exact hd _ _ (by simp)
    | ext t d => exact hd _ _ (by simp)
    | adjust n => exact (sfacts_addWindow c n).quiet.2
    | close => exact (sfacts_recvClose c).quiet.2

/-- while a channel (with a local window size ≥ 1) is open its local window is positive (and at most its size) -/
def Wpos (c : Chan) : Prop := 0 < c.lwSize → c.localClosed = false → 0 < c.lwl ∧ c.lwl ≤ c.lwSize

theorem step_Wpos (c : Chan) (i : In) (h : Wpos c) : Wpos (step c i).1 := by
  intro hs ho
  have hc : c.localClosed = false := by
    cases hc : c.localClosed
    · rfl
    · rw [step_mono c i hc] at ho; exact absurd ho (by simp)
  exact step_lwl_pos c i (h (by rw [← (gfacts_step c i).lwSize]; exact hs) hc) ho

/-! ### the connected pair: state invariant of one direction -/
/-- everything the proof needs about the direction `s → r` (sender `s`, receiver `r`, `qsr` in flight
towards `r`, `qrs` in flight back) -/
structure Half (s r : Chan) (qsr qrs : List Msg) : Prop where
  dir : Dir s r qsr qrs
  rmp1 : 1 ≤ s.rmp
  wf : Wf s
  g : G r
  /-- nothing follows a CLOSE in a queue: while `s` is open no CLOSE is in flight … -/
  opn : s.localClosed = false → Msg.close ∉ qsr ∧ r.remoteClosed = false
  /-- … and once `s` has closed, its CLOSE is the last packet in flight or has been received and the
  queue is empty for ever -/
  cls : s.localClosed = true →
    (r.remoteClosed = true ∧ qsr = []) ∨ (r.remoteClosed = false ∧ ∃ q, qsr = q ++ [Msg.close] ∧ Msg.close ∉ q)
  /-- credit is conserved exactly while the sender is open -/
  credit : s.localClosed = false → s.rwl + lenSum qsr + adjSum qrs = r.lwl
  j : J s
  k : K s
  wpos : Wpos r

/-- the event at endpoint X: an application call (queue towards X untouched) or the delivery of the
oldest packet queued for X -/
def Ev (i : In) (qyx qyx' : List Msg) : Prop :=
  ((∀ m, i ≠ .recv m) ∧ qyx' = qyx) ∨ (∃ m, i = .recv m ∧ qyx = m :: qyx')

theorem ev_sums {i : In} {qyx qyx' : List Msg} (h : Ev i qyx qyx') :
    lenSum qyx = inLen i + lenSum qyx' ∧ adjSum qyx = adjIn1 i + adjSum qyx' ∧
    dataCat qyx = inData i ++ dataCat qyx' ∧ (∀ t, extCat t qyx = inExt t i ++ extCat t qyx') ∧
    (∀ m ∈ qyx', m ∈ qyx) ∧ (inLen i = 0 ∨ ∃ m ∈ qyx, inLen i = mLen m) := by
  rcases h with ⟨hi, rfl⟩ | ⟨m, rfl, rfl⟩
  · cases i with
    | recv m => exact absurd rfl (hi m)
    | _ => simp [inLen, adjIn1, inData, inExt]
  · refine ⟨?_, ?_, ?_, ?_, fun x hx => List.mem_cons_of_mem _ hx, Or.inr ⟨m, List.mem_cons_self, ?_⟩⟩ <;>
      cases m <;> simp [inLen, adjIn1, mLen, mAdj, inData, inExt]

theorem half_live {X Y : Chan} {qxy qyx : List Msg} (h2 : Half Y X qyx qxy) (hne : qyx ≠ []) : X.gone = false := by
  cases hg : X.gone
  · rfl
  · have hr := h2.g hg
    cases hy : Y.localClosed
    · have := (h2.opn hy).2; rw [hr] at this; exact absurd this (by simp)
    · rcases h2.cls hy with ⟨_, h⟩ | ⟨h, _⟩
      · exact absurd h hne
      · rw [hr] at h; exact absurd h (by simp)

/-- the stream bookkeeping of one direction: what the receiver has been handed (`gd`, `ge t`), followed
by what is in flight, followed by what the sender still buffers, is what was written (`wd`, `we t`);
after the sender has closed, later writes are the (lost) remainder -/
def Link (s : Chan) (q : List Msg) (gd : Bytes) (ge : Nat → Bytes) (wd : Bytes) (we : Nat → Bytes) : Prop :=
  (∃ rest, gd ++ dataCat q ++ rest = wd ∧ (s.localClosed = false → rest = s.buf)) ∧
  (∀ t, ∃ rest, ge t ++ extCat t q ++ rest = we t ∧ (s.localClosed = false → rest = extOf t s.extBuf))

theorem link_send (X : Chan) (i : In) (q : List Msg) (gd : Bytes) (ge : Nat → Bytes) (wd : Bytes) (we : Nat → Bytes)
    (hr : 1 ≤ X.rmp) (h : Link X q gd ge wd we) :
    Link (step X i).1 (q ++ sentMsgs (step X i).2) gd ge (wd ++ dataIn1 i) (fun t => we t ++ extIn1 t i) := by
  cases hc : X.localClosed
  · have hs := streams_step X i hc hr
    unfold Streams at hs
    constructor
    · obtain ⟨rest, e, hrest⟩ := h.1
      refine ⟨(step X i).1.buf, ?_, fun _ => rfl⟩
      rw [hrest hc] at e
      rw [dataCat_append, ← e]
      simp only [List.append_assoc]
      rw [hs.1]
    · intro t
      obtain ⟨rest, e, hrest⟩ := h.2 t
      refine ⟨extOf t (step X i).1.extBuf, ?_, fun _ => rfl⟩
      rw [hrest hc] at e
      have hs2 := hs.2 t
      simp only [] at hs2 ⊢
      rw [extCat_append, ← e]
      simp only [List.append_assoc]
      rw [hs2]
  · have h0 := (gfacts_step X i).after hc
    have h1 := step_mono X i hc
    rw [h0, List.append_nil]
    constructor
    · obtain ⟨rest, e, _⟩ := h.1
      exact ⟨rest ++ dataIn1 i, by rw [← e]; simp, fun h' => by rw [h1] at h'; exact absurd h' (by simp)⟩
    · intro t
      obtain ⟨rest, e, _⟩ := h.2 t
      exact ⟨rest ++ extIn1 t i, by simp only []; rw [← e]; simp, fun h' => by rw [h1] at h'; exact absurd h' (by simp)⟩

theorem link_recv (Y : Chan) (q q' : List Msg) (d : Bytes) (x : Nat → Bytes) (gd : Bytes) (ge : Nat → Bytes)
    (wd : Bytes) (we : Nat → Bytes) (hd : dataCat q = d ++ dataCat q') (he : ∀ t, extCat t q = x t ++ extCat t q')
    (h : Link Y q gd ge wd we) : Link Y q' (gd ++ d) (fun t => ge t ++ x t) wd we := by
  constructor
  · obtain ⟨rest, e, hrest⟩ := h.1
    exact ⟨rest, by rw [← e, hd]; simp, hrest⟩
  · intro t
    obtain ⟨rest, e, hrest⟩ := h.2 t
    exact ⟨rest, by simp only []; rw [← e, he t]; simp, hrest⟩

theorem ev_not_close {X Y : Chan} {i : In} {qxy qyx qyx' : List Msg} (h2 : Half Y X qyx qxy)
    (hev : Ev i qyx qyx') (hy : Y.localClosed = false) : i ≠ .recv .close := by
  rcases hev with ⟨hi, _⟩ | ⟨m, rfl, rfl⟩
  · exact hi _
  · intro h; injection h with h; subst h
    exact (h2.opn hy).1 List.mem_cons_self

theorem half_endpoint (X Y : Chan) (qxy qyx qyx' : List Msg) (i : In) (hev : Ev i qyx qyx')
    (h1 : Half X Y qxy qyx) (h2 : Half Y X qyx qxy) :
    Fits X i ∧ Live X i ∧ Half (step X i).1 Y (qxy ++ sentMsgs (step X i).2) qyx' ∧
      Half Y (step X i).1 qyx' (qxy ++ sentMsgs (step X i).2) := by
  obtain ⟨hl, ha, _, _, hsub, hfit⟩ := ev_sums hev
  obtain ⟨hf, d1, d2⟩ := pinv_endpoint X Y qxy qyx qyx' i hl ha hsub hfit h1.dir h2.dir
  have g := gfacts_step X i
  have hlive : Live X i := by
    intro m hm
    rcases hev with ⟨hi, _⟩ | ⟨m', _, hq⟩
    · exact absurd hm (hi m)
    · exact half_live h2 (by rw [hq]; simp)
  have hopen : (step X i).1.localClosed = false → X.localClosed = false := by
    intro h; cases hc : X.localClosed
    · rfl
    · rw [g.mono hc] at h; exact absurd h (by simp)
  refine ⟨hf, hlive, ⟨d1, by rw [g.rmp]; exact h1.rmp1, g.wf h1.wf, h1.g, ?_, ?_, ?_, step_J X i h1.j,
    step_K X i h1.k hf, h1.wpos⟩, ⟨d2, h2.rmp1, h2.wf, step_G X i h2.g, ?_, ?_, ?_, h2.j, h2.k, step_Wpos X i h2.wpos⟩⟩
  · -- X' open: no CLOSE in flight
    intro ho
    have hx := hopen ho
    obtain ⟨hn, hrc⟩ := h1.opn hx
    refine ⟨?_, hrc⟩
    simp only [List.mem_append, not_or]
    refine ⟨hn, fun hc => ?_⟩
    rw [g.closes hc] at ho; exact absurd ho (by simp)
  · -- X' closed
    intro hc'
    cases hx : X.localClosed
    · obtain ⟨hn, hrc⟩ := h1.opn hx
      obtain ⟨_, _, ms, hms, hnot⟩ := closeok_step X i hf (step_opens X i hx hc')
      refine Or.inr ⟨hrc, qxy ++ ms, by rw [hms, List.append_assoc], ?_⟩
      simp only [List.mem_append, not_or]; exact ⟨hn, hnot⟩
    · rw [g.after hx, List.append_nil]; exact h1.cls hx
  · -- credit X → Y
    intro ho
    have hx := hopen ho
    have e1 := h1.credit hx
    have e2 := step_weq X i h1.wf h1.rmp1 ho
    simp only [lenSum_append]; omega
  · -- Y open: no CLOSE in flight towards X
    intro hy
    obtain ⟨hn, hrc⟩ := h2.opn hy
    refine ⟨fun h => hn (hsub _ h), ?_⟩
    rw [step_rc_other X i (ev_not_close h2 hev hy) hf]; exact hrc
  · -- Y closed
    intro hy
    rcases h2.cls hy with ⟨hrc, hq⟩ | ⟨hrc, q, hq, hnot⟩
    · rcases hev with ⟨hi, rfl⟩ | ⟨m, _, hq'⟩
      · exact Or.inl ⟨by rw [step_rc_other X i (hi _) hf]; exact hrc, hq⟩
      · rw [hq] at hq'; exact absurd hq' (by simp)
    · rcases hev with ⟨hi, rfl⟩ | ⟨m, rfl, hq'⟩
      · exact Or.inr ⟨by rw [step_rc_other X _ (hi _) hf]; exact hrc, q, hq, hnot⟩
      · cases q with
        | nil =>
          simp only [List.nil_append] at hq
          rw [hq] at hq'; injection hq' with hm ht; subst hm; subst ht
          exact Or.inl ⟨step_rc_close X (hlive _ rfl), rfl⟩
        | cons m' q'' =>
          rw [hq] at hq'; simp only [List.cons_append] at hq'
          injection hq' with hm ht; subst hm; subst ht
          have hne : m' ≠ Msg.close := fun h => hnot (h ▸ List.mem_cons_self)
          refine Or.inr ⟨?_, q'', rfl, fun h => hnot (List.mem_cons_of_mem _ h)⟩
          rw [step_rc_other X _ (by intro h; injection h with h; exact hne h) hf]; exact hrc
  · -- credit Y → X
    intro hy
    have e1 := h2.credit hy
    have e2 := step_lwl_eq X i hf hlive
    simp only [adjSum_append]; omega

theorem Link.congr {s : Chan} {q : List Msg} {gd gd' : Bytes} {ge ge' : Nat → Bytes} {wd wd' : Bytes}
    {we we' : Nat → Bytes} (h : Link s q gd ge wd we) (e1 : gd = gd') (e2 : ∀ t, ge t = ge' t) (e3 : wd = wd')
    (e4 : ∀ t, we t = we' t) : Link s q gd' ge' wd' we' := by
  have := funext e2; have := funext e4; subst_vars; exact h

theorem links_endpoint (X Y : Chan) (qxy qyx qyx' : List Msg) (i : In) (hev : Ev i qyx qyx')
    (h1 : Half X Y qxy qyx) (h2 : Half Y X qyx qxy)
    {gd : Bytes} {ge : Nat → Bytes} {wd : Bytes} {we : Nat → Bytes}
    {gd' : Bytes} {ge' : Nat → Bytes} {wd' : Bytes} {we' : Nat → Bytes}
    (lx : Link X qxy gd ge wd we) (ly : Link Y qyx gd' ge' wd' we') :
    Link (step X i).1 (qxy ++ sentMsgs (step X i).2) gd ge (wd ++ dataIn1 i) (fun t => we t ++ extIn1 t i) ∧
    Link Y qyx' (gd' ++ gotData (step X i).2) (fun t => ge' t ++ gotExt t (step X i).2) wd' we' := by
  obtain ⟨hf, hl, _, _⟩ := half_endpoint X Y qxy qyx qyx' i hev h1 h2
  obtain ⟨_, _, hd, he, _, _⟩ := ev_sums hev
  have hg := step_got X i hf hl
  refine ⟨link_send X i qxy gd ge wd we h1.rmp1 lx, ?_⟩
  exact link_recv Y qyx qyx' _ _ gd' ge' wd' we' (by rw [hg.1]; exact hd) (fun t => by rw [hg.2 t]; exact he t) ly

/-! ### the pair, with what each side has written and been handed so far -/
def gotD (s : Side) (l : List (Side × Out)) : Bytes := l.flatMap (fun x => if x.1 = s then oData x.2 else [])
def gotE (s : Side) (t : Nat) (l : List (Side × Out)) : Bytes :=
  l.flatMap (fun x => if x.1 = s then oExt t x.2 else [])
def wrote1 (s : Side) : POp → Bytes
  | .act s' i => if s' = s then dataIn1 i else []
  | _ => []
def wroteE1 (s : Side) (t : Nat) : POp → Bytes
  | .act s' i => if s' = s then extIn1 t i else []
  | _ => []
/-- the bytes side `s` has passed to `write`, in order -/
def wrote (s : Side) (ops : List POp) : Bytes := ops.flatMap (wrote1 s)
/-- the bytes side `s` has passed to `writeExtended(t, …)`, in order -/
def wroteExt (s : Side) (t : Nat) (ops : List POp) : Bytes := ops.flatMap (wroteE1 s t)

@[simp] theorem gotD_nil (s : Side) : gotD s [] = [] := rfl
@[simp] theorem gotE_nil (s : Side) (t : Nat) : gotE s t [] = [] := rfl
@[simp] theorem wrote_nil (s : Side) : wrote s [] = [] := rfl
@[simp] theorem wroteExt_nil (s : Side) (t : Nat) : wroteExt s t [] = [] := rfl
theorem gotD_append (s : Side) (a b : List (Side × Out)) : gotD s (a ++ b) = gotD s a ++ gotD s b := by
  simp [gotD, List.flatMap_append]
theorem gotE_append (s : Side) (t : Nat) (a b : List (Side × Out)) : gotE s t (a ++ b) = gotE s t a ++ gotE s t b := by
  simp [gotE, List.flatMap_append]
theorem wrote_append (s : Side) (a b : List POp) : wrote s (a ++ b) = wrote s a ++ wrote s b := by
  simp [wrote, List.flatMap_append]
theorem wroteExt_append (s : Side) (t : Nat) (a b : List POp) : wroteExt s t (a ++ b) = wroteExt s t a ++ wroteExt s t b := by
  simp [wroteExt, List.flatMap_append]
theorem wrote_cons (s : Side) (o : POp) (b : List POp) : wrote s (o :: b) = wrote1 s o ++ wrote s b := by
  simp [wrote]
theorem wroteExt_cons (s : Side) (t : Nat) (o : POp) (b : List POp) : wroteExt s t (o :: b) = wroteE1 s t o ++ wroteExt s t b := by
  simp [wroteExt]

theorem gotD_map (s s' : Side) (out : List Out) :
    gotD s (out.map (fun o => (s', o))) = if s' = s then gotData out else [] := by
  induction out with
  | nil => simp
  | cons o os ih =>
    simp only [List.map_cons, gotD, List.flatMap_cons] at ih ⊢
    rw [ih]; split <;> simp
theorem gotE_map (s s' : Side) (t : Nat) (out : List Out) :
    gotE s t (out.map (fun o => (s', o))) = if s' = s then gotExt t out else [] := by
  induction out with
  | nil => simp
  | cons o os ih =>
    simp only [List.map_cons, gotE, List.flatMap_cons] at ih ⊢
    rw [ih]; split <;> simp

structure QInv (p : Pair) : Prop where
  ab : Half p.a p.b p.qab p.qba
  ba : Half p.b p.a p.qba p.qab

/-- the invariant of a run: `outs` is everything observable so far, `ops` the history so far -/
structure PLinks (p : Pair) (outs : List (Side × Out)) (ops : List POp) : Prop where
  q : QInv p
  ab : Link p.a p.qab (gotD .B outs) (fun t => gotE .B t outs) (wrote .A ops) (fun t => wroteExt .A t ops)
  ba : Link p.b p.qba (gotD .A outs) (fun t => gotE .A t outs) (wrote .B ops) (fun t => wroteExt .B t ops)

theorem ev_user {i : In} (q : List Msg) (hi : ∀ m, i ≠ .recv m) : Ev i q q := Or.inl ⟨hi, rfl⟩

theorem plinks_pstep (p : Pair) (o : POp) (outs : List (Side × Out)) (ops : List POp) (ho : Conforming o)
    (h : PLinks p outs ops) :
    PLinks (pstep p o).1 (outs ++ (pstep p o).2) (ops ++ [o]) ∧ ∀ x ∈ (pstep p o).2, x.2 ≠ Out.keyError := by
  obtain ⟨⟨hab, hba⟩, lab, lba⟩ := h
  have nokey : ∀ (s : Side) (X : Chan) (i : In), Live X i →
      ∀ x ∈ (step X i).2.map (fun o => (s, o)), x.2 ≠ Out.keyError := by
    intro s X i hl x hx
    obtain ⟨o', ho', rfl⟩ := List.mem_map.mp hx
    intro he; exact step_nokey X i hl (he ▸ ho')
  cases o with
  | act s i =>
    have hi : ∀ m, i ≠ .recv m := by
      intro m hm; subst hm; cases s <;> exact ho
    cases s with
    | A =>
      obtain ⟨_, hl, k1, k2⟩ := half_endpoint p.a p.b p.qab p.qba p.qba i (ev_user _ hi) hab hba
      obtain ⟨l1, l2⟩ := links_endpoint p.a p.b p.qab p.qba p.qba i (ev_user _ hi) hab hba lab lba
      refine ⟨⟨⟨k1, k2⟩, ?_, ?_⟩, nokey _ _ _ hl⟩
      · exact l1.congr (by simp [pstep, gotD_append, gotD_map]) (fun t => by simp [pstep, gotE_append, gotE_map])
          (by simp [wrote_append, wrote_cons, wrote1]) (fun t => by simp [wroteExt_append, wroteExt_cons, wroteE1])
      · exact l2.congr (by simp [pstep, gotD_append, gotD_map]) (fun t => by simp [pstep, gotE_append, gotE_map])
          (by simp [wrote_append, wrote_cons, wrote1]) (fun t => by simp [wroteExt_append, wroteExt_cons, wroteE1])
    | B =>
      obtain ⟨_, hl, k1, k2⟩ := half_endpoint p.b p.a p.qba p.qab p.qab i (ev_user _ hi) hba hab
      obtain ⟨l1, l2⟩ := links_endpoint p.b p.a p.qba p.qab p.qab i (ev_user _ hi) hba hab lba lab
      refine ⟨⟨⟨k2, k1⟩, ?_, ?_⟩, nokey _ _ _ hl⟩
      · exact l2.congr (by simp [pstep, gotD_append, gotD_map]) (fun t => by simp [pstep, gotE_append, gotE_map])
          (by simp [wrote_append, wrote_cons, wrote1]) (fun t => by simp [wroteExt_append, wroteExt_cons, wroteE1])
      · exact l1.congr (by simp [pstep, gotD_append, gotD_map]) (fun t => by simp [pstep, gotE_append, gotE_map])
          (by simp [wrote_append, wrote_cons, wrote1]) (fun t => by simp [wroteExt_append, wroteExt_cons, wroteE1])
  | deliver s =>
    cases s with
    | A =>
      cases hq : p.qba with
      | nil =>
        simp only [pstep, hq, List.append_nil]
        refine ⟨⟨⟨hab, hba⟩, ?_, ?_⟩, by simp⟩
        · exact lab.congr rfl (fun _ => rfl) (by simp [wrote_append, wrote_cons, wrote1]) (fun t => by simp [wroteExt_append, wroteExt_cons, wroteE1])
        · exact lba.congr rfl (fun _ => rfl) (by simp [wrote_append, wrote_cons, wrote1]) (fun t => by simp [wroteExt_append, wroteExt_cons, wroteE1])
      | cons m q =>
        have hev : Ev (.recv m) p.qba q := Or.inr ⟨m, rfl, hq⟩
        obtain ⟨_, hl, k1, k2⟩ := half_endpoint p.a p.b p.qab p.qba q _ hev hab hba
        obtain ⟨l1, l2⟩ := links_endpoint p.a p.b p.qab p.qba q _ hev hab hba lab lba
        simp only [pstep, hq]
        refine ⟨⟨⟨k1, k2⟩, ?_, ?_⟩, nokey _ _ _ hl⟩
        · exact l1.congr (by simp [gotD_append, gotD_map]) (fun t => by simp [gotE_append, gotE_map])
            (by simp [wrote_append, wrote_cons, wrote1, dataIn1]) (fun t => by simp [wroteExt_append, wroteExt_cons, wroteE1, extIn1])
        · exact l2.congr (by simp [gotD_append, gotD_map]) (fun t => by simp [gotE_append, gotE_map])
            (by simp [wrote_append, wrote_cons, wrote1]) (fun t => by simp [wroteExt_append, wroteExt_cons, wroteE1])
    | B =>
      cases hq : p.qab with
      | nil =>
        simp only [pstep, hq, List.append_nil]
        refine ⟨⟨⟨hab, hba⟩, ?_, ?_⟩, by simp⟩
        · exact lab.congr rfl (fun _ => rfl) (by simp [wrote_append, wrote_cons, wrote1]) (fun t => by simp [wroteExt_append, wroteExt_cons, wroteE1])
        · exact lba.congr rfl (fun _ => rfl) (by simp [wrote_append, wrote_cons, wrote1]) (fun t => by simp [wroteExt_append, wroteExt_cons, wroteE1])
      | cons m q =>
        have hev : Ev (.recv m) p.qab q := Or.inr ⟨m, rfl, hq⟩
        obtain ⟨_, hl, k1, k2⟩ := half_endpoint p.b p.a p.qba p.qab q _ hev hba hab
        obtain ⟨l1, l2⟩ := links_endpoint p.b p.a p.qba p.qab q _ hev hba hab lba lab
        simp only [pstep, hq]
        refine ⟨⟨⟨k2, k1⟩, ?_, ?_⟩, nokey _ _ _ hl⟩
        · exact l2.congr (by simp [gotD_append, gotD_map]) (fun t => by simp [gotE_append, gotE_map])
            (by simp [wrote_append, wrote_cons, wrote1]) (fun t => by simp [wroteExt_append, wroteExt_cons, wroteE1])
        · exact l1.congr (by simp [gotD_append, gotD_map]) (fun t => by simp [gotE_append, gotE_map])
            (by simp [wrote_append, wrote_cons, wrote1, dataIn1]) (fun t => by simp [wroteExt_append, wroteExt_cons, wroteE1, extIn1])

theorem plinks_prun (ops : List POp) : ∀ (p : Pair) (outs0 : List (Side × Out)) (ops0 : List POp),
    PLinks p outs0 ops0 → (∀ o ∈ ops, Conforming o) →
    PLinks (prun p ops).1 (outs0 ++ (prun p ops).2) (ops0 ++ ops) ∧ ∀ x ∈ (prun p ops).2, x.2 ≠ Out.keyError := by
  induction ops with
  | nil => intro p outs0 ops0 h _; simp only [prun, List.append_nil]; exact ⟨h, by simp⟩
  | cons o os ih =>
    intro p outs0 ops0 h hc
    obtain ⟨h1, k1⟩ := plinks_pstep p o outs0 ops0 (hc o List.mem_cons_self) h
    obtain ⟨h2, k2⟩ := ih _ _ _ h1 (fun o' ho' => hc o' (List.mem_cons_of_mem _ ho'))
    simp only [prun]
    refine ⟨?_, ?_⟩
    · have e1 : outs0 ++ ((pstep p o).2 ++ (prun (pstep p o).1 os).2) = outs0 ++ (pstep p o).2 ++ (prun (pstep p o).1 os).2 := by
        simp
      have e2 : ops0 ++ o :: os = ops0 ++ [o] ++ os := by simp
      rw [e1, e2]; exact h2
    · intro x hx
      rcases List.mem_append.mp hx with hx | hx
      · exact k1 x hx
      · exact k2 x hx

theorem half_init (lwS lmpS lwR lmpR : Nat) (hr : 1 ≤ lmpR) :
    Half (fresh lwR lmpR lwS lmpS) (fresh lwS lmpS lwR lmpR) [] [] := by
  refine ⟨by simp [Dir, fresh], hr, by simp [Wf, fresh], by simp [G, fresh], by simp [fresh], by simp [fresh],
    by simp [fresh], ⟨by simp [Jb, fresh], by simp [Je, fresh]⟩, by simp [K, fresh], ?_⟩
  intro h _; simp only [fresh] at h ⊢; omega

theorem plinks_init (lwA lmpA lwB lmpB : Nat) (hA : 1 ≤ lmpA) (hB : 1 ≤ lmpB) :
    PLinks (Pair.init lwA lmpA lwB lmpB) [] [] := by
  refine ⟨⟨half_init lwA lmpA lwB lmpB hB, half_init lwB lmpB lwA lmpA hA⟩, ?_, ?_⟩ <;>
  · simp only [Link, Pair.init, fresh]
    exact ⟨⟨[], by simp⟩, fun t => ⟨[], by simp⟩⟩

/-- everything the pair theorems need, for a run from the open handshake -/
theorem plinks_run (lwA lmpA lwB lmpB : Nat) (hA : 1 ≤ lmpA) (hB : 1 ≤ lmpB) (ops : List POp)
    (hops : ∀ o ∈ ops, Conforming o) :
    PLinks (prun (Pair.init lwA lmpA lwB lmpB) ops).1 (prun (Pair.init lwA lmpA lwB lmpB) ops).2 ops ∧
    ∀ x ∈ (prun (Pair.init lwA lmpA lwB lmpB) ops).2, x.2 ≠ Out.keyError := by
  have := plinks_prun ops _ [] [] (plinks_init lwA lmpA lwB lmpB hA hB) hops
  simpa using this

theorem Link.prefix {s : Chan} {q : List Msg} {gd : Bytes} {ge : Nat → Bytes} {wd : Bytes} {we : Nat → Bytes}
    (h : Link s q gd ge wd we) : gd <+: wd ∧ ∀ t, ge t <+: we t := by
  constructor
  · obtain ⟨rest, e, _⟩ := h.1
    exact ⟨dataCat q ++ rest, by rw [← e]; simp⟩
  · intro t
    obtain ⟨rest, e, _⟩ := h.2 t
    exact ⟨extCat t q ++ rest, by rw [← e]; simp⟩

theorem Link.exact {s : Chan} {q : List Msg} {gd : Bytes} {ge : Nat → Bytes} {wd : Bytes} {we : Nat → Bytes}
    (h : Link s q gd ge wd we) (ho : s.localClosed = false) :
    gd ++ dataCat q ++ s.buf = wd ∧ ∀ t, ge t ++ extCat t q ++ extOf t s.extBuf = we t := by
  constructor
  · obtain ⟨rest, e, hr⟩ := h.1
    rw [← hr ho]; exact e
  · intro t
    obtain ⟨rest, e, hr⟩ := h.2 t
    rw [← hr ho]; exact e

/-- quiescence in one direction: both queues empty, sender and receiver open, receiver's window size
≥ 1: the sender's buffers are empty -/
theorem half_quiescent {s r : Chan} (h : Half s r [] []) (hw : 0 < r.lwSize) (hs : s.localClosed = false)
    (hr : r.localClosed = false) : s.buf = [] ∧ s.extBuf = [] := by
  have hcr := h.credit hs
  simp only [lenSum_nil, adjSum_nil, Nat.add_zero] at hcr
  have hpos := (h.wpos hw hr).1
  have hrwl : s.rwl ≠ 0 := by omega
  constructor
  · cases hb : s.buf with
    | nil => rfl
    | cons x xs => exact absurd (h.j.1 (by rw [hb]; simp)) hrwl
  · cases hb : s.extBuf with
    | nil => rfl
    | cons x xs => exact absurd (h.j.2 (by rw [hb]; simp)) hrwl

theorem k_open {c : Chan} (h : K c) (hc : c.closing = false) : c.localClosed = false := by
  cases hl : c.localClosed
  · rfl
  · rw [h hl] at hc; exact absurd hc (by simp)

theorem pstep_lwSize (p : Pair) (o : POp) :
    (pstep p o).1.a.lwSize = p.a.lwSize ∧ (pstep p o).1.b.lwSize = p.b.lwSize := by
  cases o with
  | act s i => cases s <;> simp [pstep, (gfacts_step _ i).lwSize]
  | deliver s =>
    cases s with
    | A => cases hq : p.qba <;> simp [pstep, hq, (gfacts_step _ _).lwSize]
    | B => cases hq : p.qab <;> simp [pstep, hq, (gfacts_step _ _).lwSize]

theorem prun_lwSize (ops : List POp) : ∀ p : Pair,
    (prun p ops).1.a.lwSize = p.a.lwSize ∧ (prun p ops).1.b.lwSize = p.b.lwSize := by
  induction ops with
  | nil => intro p; exact ⟨rfl, rfl⟩
  | cons o os ih =>
    intro p; simp only [prun]
    exact ⟨(ih _).1.trans (pstep_lwSize p o).1, (ih _).2.trans (pstep_lwSize p o).2⟩

theorem half_close_last {s r : Chan} {qsr qrs : List Msg} (h : Half s r qsr qrs) (hc : Msg.close ∈ qsr) :
    ∃ q, qsr = q ++ [Msg.close] ∧ Msg.close ∉ q := by
  cases hs : s.localClosed
  · exact absurd hc (h.opn hs).1
  · rcases h.cls hs with ⟨_, hq⟩ | ⟨_, hq⟩
    · rw [hq] at hc; simp at hc
    · exact hq

end TwistedProps.C36
