import TwistedModel.Defer.Core
import TwistedModel.Defer.Spec
import TwistedProps.C01.Program
import TwistedProps.C01.LeafProgram
import TwistedProps.C01.Refine
/-!
C01 — Deferred callback chains compute what a sequential interpreter predicts.

Model: `TwistedModel/Defer/Core.lean` (the chain-stack `_runCallbacks` of the repaired code) and
`TwistedModel/Defer/Spec.lean` (recursive reference interpreter).  Programs are arbitrary lists of operations
(`Op`) over any number `n` of Deferreds; callables are data (`Beh`).  Tags number the add operations, so "tag order"
is "order added".
-/
namespace TwistedProps.C01
open Twisted.Defer.Core

/-! ## 0. `_runCallbacks` terminates -/

/-- every iteration of `while chain:` strictly decreases `2 * (pending callbacks) + (chain depth)` — this is what
    makes `Core.loop` a total function (it is the `decreasing_by` obligation of its definition) -/
theorem runCallbacks_terminates {c c' : Conf} (h : stepConf c = some c') : c'.measure < c.measure :=
  stepConf_decreases h

/-- `loop` stops only where the Python loop stops: nothing left on the chain stack -/
theorem loop_final (c : Conf) : stepConf (loop c) = none := by
  induction c using loop.induct with
  | case1 c h => rw [loop]; split <;> simp_all
  | case2 c c' h ih =>
    rw [loop]; split
    · simp_all
    · rename_i c'' h2
      rw [h] at h2; cases h2
      exact ih

theorem loop_chain_empty (c : Conf) : (loop c).chain = [] := by
  have h := loop_final c
  unfold stepConf at h
  split at h
  · assumption
  · split at h
    · simp at h
    · split at h
      · simp at h
      · split at h <;> simp at h

/-- `runCallbacks` (budget = the measure) never stops for lack of budget: it ends with an empty chain stack -/
theorem runCallbacks_runs_to_completion (c : Conf) : stepConf (iterate c.measure c) = none := by
  rw [← loop_eq_iterate c _ (Nat.le_refl _)]
  exact loop_final c

/-- the chain-stack implementation answers every program -/
theorem exec_total (s : State) (ops : List Op) : ∃ s', exec s ops = some s' := by
  induction ops generalizing s with
  | nil => exact ⟨s, rfl⟩
  | cons op ops ih =>
    have hstep : ∃ r, stepWith coreRun s op = some r := by
      unfold stepWith coreRun
      cases op <;> simp only <;> repeat' split
      all_goals first
        | exact ⟨_, rfl⟩
        | simp
    obtain ⟨⟨s1, o⟩, h1⟩ := hstep
    obtain ⟨s', h2⟩ := ih s1
    exact ⟨s', by simp only [exec, execWith, h1] at h2 ⊢; exact h2⟩

/-! ## 1. every callable runs at most once -/

/-- **At most once.**  For every program over any number of Deferreds: no add operation's pair of callables is
    invoked twice (tags in the trace are pairwise different). -/
theorem each_callback_at_most_once (n : Nat) (prog : List Op) (s : State) (h : exec (init n) prog = some s) :
    (s.trace.map (·.tag)).Nodup := by
  have hi := execWith_inv coreRun_seqShrinks (init_inv n) h
  apply nodup_of_perDeferred
  · intro d
    exact (List.pairwise_append.1 (hi.sorted d)).1
  · intro d d' hne t ht ht'
    exact hi.disj d d' hne t (List.mem_append_left _ ht) (List.mem_append_left _ ht')

/-- …and a callable that has run is no longer pending anywhere -/
theorem ran_not_pending (n : Nat) (prog : List Op) (s : State) (h : exec (init n) prog = some s)
    (e : Entry) (he : e ∈ s.trace) (d : Nat) : e.tag ∉ cellTags s.cells d := by
  have hi := execWith_inv coreRun_seqShrinks (init_inv n) h
  intro hp
  have h1 : e.tag ∈ seqOf s.cells s.trace e.d := List.mem_append_left _ (mem_traceTags.2 ⟨e, he, rfl, rfl⟩)
  have h2 : e.tag ∈ seqOf s.cells s.trace d := List.mem_append_right _ hp
  by_cases hd : e.d = d
  · subst hd
    have := (List.pairwise_append.1 (hi.sorted e.d)).2.2 _ (mem_traceTags.2 ⟨e, he, rfl, rfl⟩) _ hp
    omega
  · exact hi.disj _ _ hd _ h1 h2

/-! ## 2. in the order added, per Deferred -/

/-- **Added order.**  For every program and every Deferred `d`: the callables of `d` are invoked in strictly
    increasing tag order, i.e. in the order the program added them; and whatever is still pending on `d` was added
    after everything that has run on `d`, and is itself in added order. -/
theorem callbacks_in_added_order (n : Nat) (prog : List Op) (s : State) (h : exec (init n) prog = some s) (d : Nat) :
    (traceTags s.trace d ++ cellTags s.cells d).Pairwise (· < ·) :=
  (execWith_inv coreRun_seqShrinks (init_inv n) h).sorted d

/-- tags are the numbers of add operations that happened -/
theorem tags_below_counter (n : Nat) (prog : List Op) (s : State) (h : exec (init n) prog = some s)
    (e : Entry) (he : e ∈ s.trace) : e.tag < s.nadds :=
  (execWith_inv coreRun_seqShrinks (init_inv n) h).bound e.d e.tag
    (List.mem_append_left _ (mem_traceTags.2 ⟨e, he, rfl, rfl⟩))


/-! ## 3. input = the previous callable's output (or the fired value) -/

/-- **Input = previous output.**  Take any program and any Deferred `d` that is a *leaf* of it (`isLeaf`, a static
    decidable check: no callable of the program returns `d`, and the callables added to `d` return no Deferred —
    the other Deferreds may chain, pause and nest in any way, balanced or not).  Then, of the callables invoked on
    `d`, in invocation order: each one's input is exactly the previous one's output (`chained`); the first one's
    input is a value the program fired `d` with; and the result `d` holds now is the last one's output.
    (For Deferreds that take part in chaining, "previous output" is a Deferred and the input is what the reference
    interpreter hands over — that is part 4.) -/
theorem input_is_previous_output (n : Nat) (prog : List Op) (s : State) (h : exec (init n) prog = some s)
    (d : Nat) (hleaf : isLeaf d prog = true) :
    chained (dTrace s.trace d) ∧
    (∀ e, (dTrace s.trace d).head? = some e → Fired d prog e.input) ∧
    (∀ c last, s.cells[d]? = some c → (dTrace s.trace d).getLast? = some last → c.result = last.output) := by
  have hops : ∀ op ∈ prog, opLeafOK d op = true := by
    intro op hop
    simp only [isLeaf, List.all_eq_true] at hleaf
    exact hleaf op hop
  have hi := exec_leaf (F := Fired d prog) (init_leaf _ d n) hops
    (fun k hk => Or.inl ⟨k, rfl, hk⟩) (fun e he => Or.inr ⟨e, rfl, he⟩) h
  exact ⟨hi.chain, hi.firedB, hi.last⟩

/-- a leaf (Deferred 2) with success, error and combined callables, next to two Deferreds that chain -/
def demoLeaf : List Op :=
  [.add 0 (.user (.retDef 1)) .passthru, .add 2 (.user (.raise 4)) .passthru, .add 2 (.user (.value 8)) .passthru,
   .add 2 .passthru (.user (.retFail 6)), .callback 0 1, .pause 2, .callback 2 3,
   .add 2 (.user (.value 9)) (.user (.value 5)), .unpause 2, .errback 1 0]

example : isLeaf 2 demoLeaf = true := by decide
example : (exec (init 3) demoLeaf).map (fun s => (dTrace s.trace 2).map (fun e => (e.tag, e.input, e.output))) =
    some [(1, .ok 3, .fail 4), (3, .fail 4, .fail 6), (4, .fail 6, .ok 5)] := by decide

/-! non-vacuity: a program in which Deferred 0 waits for Deferred 1, is paused meanwhile, and Deferred 1 has a
    callable behind the continuation — every callable runs, once, in order -/
def demo : List Op :=
  [.add 0 (.user (.retDef 1)) .passthru, .add 0 (.user (.value 7)) (.user (.value 7)), .callback 0 1,
   .add 1 (.user (.value 9)) (.user (.value 9)), .pause 0, .callback 1 5, .unpause 0]

example : (exec (init 2) demo).map (fun s => s.trace.map (fun e => (e.d, e.tag, e.input))) =
    some [(0, 0, .ok 1), (1, 2, .pyNone), (0, 1, .ok 5)] := by decide

example : (exec (init 2) demo).map (fun s => s.cells.map (fun c => (c.result, c.paused, c.callbacks))) =
    some [(.ok 7, 0, []), (.ok 9, 0, [])] := by decide

/-! ## 4. the chain-stack implementation against the recursive reference interpreter

FULL STATEMENT (the property): for every program `prog` inside the statement's domain — `unpause` never outnumbers
`pause` on a Deferred, no callable returns the Deferred it is attached to (Twisted warns) —

    Spec.history (init n) prog  ≈  history (init n) prog

where `≈` is: same outcome of every operation, after every operation the same `called` / `result` / pending callables
of every Deferred, and the same invocations with the same inputs and outputs per Deferred (the interleaving of two
different Deferreds' chains inside one operation is not fixed by the statement, and does differ when a callable returns
a Deferred that is itself in the middle of its chain).

PROVED below: (a) `run_refines_spec_partial` — exact equality (`=`, including interleaving and pause counts) for every
program in which no callable returns a Deferred, with arbitrary (even unbalanced) pause/unpause, adds before and after
firing, errback/callback routing through `passthru` slots; (b) `chain_stack_is_call_stack` — the structural reason the
iterative loop equals nested recursion, for ALL heaps: walking a stack `top ++ below` = walking `top` to completion,
then `below`; (c) the reference interpreter never runs out of its fuel on such programs (it returns `some`).

MISSING for the full statement: the induction that uses (b) to replace the recursive calls of `Spec.run` (resume →
`run c`, `addBoth(resume)` → `run j`) by pushes on the chain stack.  It needs the heap invariants
`called ↔ result set`, `paused = user pauses + continuations outstanding` (this is where balance is used),
`a fired, unpaused Deferred with a plain result that is not on the stack has no callbacks` (so stealing = appending a
continuation and running it), and a commutation argument for a Deferred returned while it is mid-chain (the
implementation parks the continuation and finishes the Deferreds above first; the reference runs it at once).  None of
this is proved here; the claim for chaining programs rests on the differential tie and the reference-interpreter oracle
of `harness/corr/C01.py` (both interpreters are run on every case; exhaustive short programs + random ones) and on the
concrete evaluations below. -/

/-- **Refinement, non-chaining fragment** (partial: see the comment above for the full statement and what is missing).
    For every program whose callables return no Deferred: the recursive reference interpreter and the chain-stack
    implementation produce the same outcome and the same state (heap, trace, counters) after every operation. -/
theorem run_refines_spec_partial (n : Nat) (prog : List Op) (h : noChaining prog = true) :
    Twisted.Defer.Spec.history (init n) prog = history (init n) prog := by
  have hops : ∀ op ∈ prog, opPlain op = true := by
    intro op hop
    simp only [noChaining, List.all_eq_true] at h
    exact h op hop
  exact traceWith_plain (init_plain n) hops

/-- …in particular the reference interpreter answers (its fuel suffices) and the final states agree -/
theorem run_refines_spec_partial_final (n : Nat) (prog : List Op) (h : noChaining prog = true) :
    ∃ s, Twisted.Defer.Spec.exec (init n) prog = some s ∧ exec (init n) prog = some s := by
  have hops : ∀ op ∈ prog, opPlain op = true := by
    intro op hop
    simp only [noChaining, List.all_eq_true] at h
    exact h op hop
  obtain ⟨s, hs⟩ := exec_total (init n) prog
  refine ⟨s, ?_, hs⟩
  rw [← hs]
  have key : ∀ (st : State) (ops : List Op), Plain st.cells → (∀ op ∈ ops, opPlain op = true) →
      execWith Twisted.Defer.Spec.specRun st ops = execWith coreRun st ops := by
    intro st ops
    induction ops generalizing st with
    | nil => intros; rfl
    | cons op ops ih =>
      intro hp ho
      have h1 := stepWith_plain hp (ho op (by simp))
      simp only [execWith, h1.1]
      cases hst : stepWith coreRun st op with
      | none => rfl
      | some r =>
        obtain ⟨s1, o⟩ := r
        exact ih s1 (h1.2 (s1, o) hst) (fun op' h' => ho op' (by simp [h']))
  exact key (init n) prog (init_plain n) hops

/-- **The chain stack is a call stack** (all heaps, all stacks): the iterative walk over `chain ++ below` is the walk
    over `chain` run to completion followed by the walk over `below`. -/
theorem chain_stack_is_call_stack (c : Conf) (below : List Nat) :
    loop { c with chain := c.chain ++ below } = loop { loop c with chain := below } :=
  loop_chain_append c below

/-- a non-chaining program with pauses, an unbalanced unpause, late adds and error routing -/
def demoPlain : List Op :=
  [.add 0 (.user (.raise 2)) .passthru, .pause 0, .callback 0 1, .add 0 .passthru (.user (.value 3)), .unpause 0,
   .unpause 1, .add 1 (.user (.value 4)) (.user (.retFail 5)), .errback 1 6, .pause 1, .pause 1,
   .add 0 (.user (.retFail 7)) (.user (.value 8)), .callback 0 9]

example : noChaining demoPlain = true := by decide
example : (history (init 2) demoPlain).map (fun h => h.map (fun p => (p.1, p.2.trace.length))) =
    some [(.ok, 0), (.ok, 0), (.ok, 0), (.ok, 0), (.ok, 2), (.ok, 2), (.ok, 2), (.ok, 2), (.ok, 2), (.ok, 2),
          (.ok, 3), (.alreadyCalled, 3)] := by decide

/-! Concrete chaining programs on which both interpreters are evaluated by the kernel (examples, not the theorem):
    the two witnesses of the defects repaired in `_runCallbacks` and the demo above. -/

/-- witness 1: Deferred 0 waits for 1 and is paused when 1 fires; 1 has a callable behind the continuation -/
def witnessPausedChainee : List Op :=
  [.add 0 (.user (.retDef 1)) .passthru, .callback 0 1, .add 1 (.user (.value 3)) (.user (.value 3)), .pause 0,
   .callback 1 5]

/-- witness 2: Deferred 1 is returned a second time while it is in the middle of its own chain -/
def witnessMidChain : List Op :=
  [.add 0 (.user (.retDef 1)) .passthru, .add 0 (.user (.retDef 1)) .passthru,
   .add 0 (.user (.value 2)) (.user (.value 2)), .callback 0 1, .add 1 (.user (.value 7)) (.user (.value 7)),
   .callback 1 5]

example : Twisted.Defer.Spec.history (init 2) witnessPausedChainee = history (init 2) witnessPausedChainee := by decide
example : (exec (init 2) witnessPausedChainee).map (fun s => s.trace.map (fun e => (e.d, e.tag, e.input))) =
    some [(0, 0, .ok 1), (1, 1, .pyNone)] := by decide
example : Twisted.Defer.Spec.history (init 2) witnessMidChain = history (init 2) witnessMidChain := by decide
example : (exec (init 2) witnessMidChain).map (fun s => (s.trace.map (fun e => (e.d, e.tag, e.input)),
      s.cells.map (·.result))) =
    some ([(0, 0, .ok 1), (0, 1, .ok 5), (1, 3, .pyNone), (0, 2, .ok 7)], [.ok 2, .pyNone]) := by decide
example : Twisted.Defer.Spec.history (init 2) demo = history (init 2) demo := by decide

end TwistedProps.C01
