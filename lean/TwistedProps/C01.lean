import TwistedModel.Defer.Core
import TwistedModel.Defer.Spec
import TwistedProps.C01.Program
import TwistedProps.C01.LeafProgram
import TwistedProps.C01.Refine
import TwistedProps.C01.ChainProg
import TwistedProps.C01.ValueBlind
/-!
C01 — Deferred callback chains compute what a sequential interpreter predicts.

Model: `TwistedModel/Defer/Core.lean` (the chain-stack `_runCallbacks` of the repaired code) and
`TwistedModel/Defer/Spec.lean` (recursive reference interpreter).  Programs are arbitrary lists of operations
(`Op`) over any number `n` of Deferreds; callables are data (`Beh`).  Tags number the add operations, so "tag order"
is "order added".
-/
namespace TwistedProps.C01
open Twisted.Defer.Core

/-! ## 0. `_runCallbacks` terminates -/

/-- every iteration of `while chain:` strictly decreases `2 * (pending callbacks) + (chain depth)` — this is what
    makes `Core.loop` a total function (it is the `decreasing_by` obligation of its definition) -/
theorem runCallbacks_terminates {c c' : Conf} (h : stepConf c = some c') : c'.measure < c.measure :=
  stepConf_decreases h

/-- `loop` stops only where the Python loop stops: nothing left on the chain stack -/
theorem loop_final (c : Conf) : stepConf (loop c) = none := by
  induction c using loop.induct with
  | case1 c h => rw [loop]; split <;> simp_all
  | case2 c c' h ih =>
    rw [loop]; split
    · simp_all
    · rename_i c'' h2
      rw [h] at h2; cases h2
      exact ih

theorem loop_chain_empty (c : Conf) : (loop c).chain = [] := by
  have h := loop_final c
  unfold stepConf at h
  split at h
  · assumption
  · split at h
    · simp at h
    · split at h
      · simp at h
      · split at h <;> simp at h

/-- `runCallbacks` (budget = the measure) never stops for lack of budget: it ends with an empty chain stack -/
theorem runCallbacks_runs_to_completion (c : Conf) : stepConf (iterate c.measure c) = none := by
  rw [← loop_eq_iterate c _ (Nat.le_refl _)]
  exact loop_final c

/-- the chain-stack implementation answers every program -/
theorem exec_total (s : State) (ops : List Op) : ∃ s', exec s ops = some s' := by
  induction ops generalizing s with
  | nil => exact ⟨s, rfl⟩
  | cons op ops ih =>
    have hstep : ∃ r, stepWith coreRun s op = some r := by
      unfold stepWith coreRun
      cases op <;> simp only <;> repeat' split
      all_goals first
        | exact ⟨_, rfl⟩
        | simp
    obtain ⟨⟨s1, o⟩, h1⟩ := hstep
    obtain ⟨s', h2⟩ := ih s1
    exact ⟨s', by simp only [exec, execWith, h1] at h2 ⊢; exact h2⟩

/-! ## 1. every callable runs at most once -/

/-- **At most once.**  For every program over any number of Deferreds: no add operation's pair of callables is
    invoked twice (tags in the trace are pairwise different). -/
theorem each_callback_at_most_once (n : Nat) (prog : List Op) (s : State) (h : exec (init n) prog = some s) :
    (s.trace.map (·.tag)).Nodup := by
  have hi := execWith_inv coreRun_seqShrinks (init_inv n) h
  apply nodup_of_perDeferred
  · intro d
    exact (List.pairwise_append.1 (hi.sorted d)).1
  · intro d d' hne t ht ht'
    exact hi.disj d d' hne t (List.mem_append_left _ ht) (List.mem_append_left _ ht')

/-- …and a callable that has run is no longer pending anywhere -/
theorem ran_not_pending (n : Nat) (prog : List Op) (s : State) (h : exec (init n) prog = some s)
    (e : Entry) (he : e ∈ s.trace) (d : Nat) : e.tag ∉ cellTags s.cells d := by
  have hi := execWith_inv coreRun_seqShrinks (init_inv n) h
  intro hp
  have h1 : e.tag ∈ seqOf s.cells s.trace e.d := List.mem_append_left _ (mem_traceTags.2 ⟨e, he, rfl, rfl⟩)
  have h2 : e.tag ∈ seqOf s.cells s.trace d := List.mem_append_right _ hp
  by_cases hd : e.d = d
  · subst hd
    have := (List.pairwise_append.1 (hi.sorted e.d)).2.2 _ (mem_traceTags.2 ⟨e, he, rfl, rfl⟩) _ hp
    omega
  · exact hi.disj _ _ hd _ h1 h2

/-! ## 2. in the order added, per Deferred -/

/-- **Added order.**  For every program and every Deferred `d`: the callables of `d` are invoked in strictly
    increasing tag order, i.e. in the order the program added them; and whatever is still pending on `d` was added
    after everything that has run on `d`, and is itself in added order. -/
theorem callbacks_in_added_order (n : Nat) (prog : List Op) (s : State) (h : exec (init n) prog = some s) (d : Nat) :
    (traceTags s.trace d ++ cellTags s.cells d).Pairwise (· < ·) :=
  (execWith_inv coreRun_seqShrinks (init_inv n) h).sorted d

/-- tags are the numbers of add operations that happened -/
theorem tags_below_counter (n : Nat) (prog : List Op) (s : State) (h : exec (init n) prog = some s)
    (e : Entry) (he : e ∈ s.trace) : e.tag < s.nadds :=
  (execWith_inv coreRun_seqShrinks (init_inv n) h).bound e.d e.tag
    (List.mem_append_left _ (mem_traceTags.2 ⟨e, he, rfl, rfl⟩))


/-! ## 3. input = the previous callable's output (or the fired value) -/

/-- **Input = previous output.**  Take any program and any Deferred `d` that is a *leaf* of it (`isLeaf`, a static
    decidable check: no callable of the program returns `d`, and the callables added to `d` return no Deferred —
    the other Deferreds may chain, pause and nest in any way, balanced or not).  Then, of the callables invoked on
    `d`, in invocation order: each one's input is exactly the previous one's output (`chained`); the first one's
    input is a value the program fired `d` with; and the result `d` holds now is the last one's output.
    (For Deferreds that take part in chaining, "previous output" is a Deferred and the input is what the reference
    interpreter hands over — that is part 4.) -/
theorem input_is_previous_output (n : Nat) (prog : List Op) (s : State) (h : exec (init n) prog = some s)
    (d : Nat) (hleaf : isLeaf d prog = true) :
    chained (dTrace s.trace d) ∧
    (∀ e, (dTrace s.trace d).head? = some e → Fired d prog e.input) ∧
    (∀ c last, s.cells[d]? = some c → (dTrace s.trace d).getLast? = some last → c.result = last.output) := by
  have hops : ∀ op ∈ prog, opLeafOK d op = true := by
    intro op hop
    simp only [isLeaf, List.all_eq_true] at hleaf
    exact hleaf op hop
  have hi := exec_leaf (F := Fired d prog) (init_leaf _ d n) hops
    (fun k hk => Or.inl ⟨k, rfl, hk⟩) (fun e he => Or.inr ⟨e, rfl, he⟩) h
  exact ⟨hi.chain, hi.firedB, hi.last⟩

/-- a leaf (Deferred 2) with success, error and combined callables, next to two Deferreds that chain -/
def demoLeaf : List Op :=
  [.add 0 (.user (.retDef 1)) .passthru, .add 2 (.user (.raise 4)) .passthru, .add 2 (.user (.value 8)) .passthru,
   .add 2 .passthru (.user (.retFail 6)), .callback 0 1, .pause 2, .callback 2 3,
   .add 2 (.user (.value 9)) (.user (.value 5)), .unpause 2, .errback 1 0]

example : isLeaf 2 demoLeaf = true := by decide
example : (exec (init 3) demoLeaf).map (fun s => (dTrace s.trace 2).map (fun e => (e.tag, e.input, e.output))) =
    some [(1, .ok 3, .fail 4), (3, .fail 4, .fail 6), (4, .fail 6, .ok 5)] := by decide

/-! non-vacuity: a program in which Deferred 0 waits for Deferred 1, is paused meanwhile, and Deferred 1 has a
    callable behind the continuation — every callable runs, once, in order -/
def demo : List Op :=
  [.add 0 (.user (.retDef 1)) .passthru, .add 0 (.user (.value 7)) (.user (.value 7)), .callback 0 1,
   .add 1 (.user (.value 9)) (.user (.value 9)), .pause 0, .callback 1 5, .unpause 0]

example : (exec (init 2) demo).map (fun s => s.trace.map (fun e => (e.d, e.tag, e.input))) =
    some [(0, 0, .ok 1), (1, 2, .pyNone), (0, 1, .ok 5)] := by decide

example : (exec (init 2) demo).map (fun s => s.cells.map (fun c => (c.result, c.paused, c.callbacks))) =
    some [(.ok 7, 0, []), (.ok 9, 0, [])] := by decide

/-! ## 4. the chain-stack implementation against the recursive reference interpreter

THE STATEMENT (the property): for every program `prog` inside the statement's domain — `unpause` never outnumbers
`pause` on a Deferred, no callable returns the Deferred it is attached to (Twisted warns) —

    Spec.history (init n) prog  =  history (init n) prog

i.e. the recursive reference interpreter of the documented chaining rules (`TwistedModel/Defer/Spec.lean`: nesting is
the call stack; the `_runningCallbacks` guard keeps a Deferred whose loop is on the call stack from being re-entered; a
returned Deferred that has fired, is not paused and has nothing left to run hands its result over at once) and the
chain-stack implementation produce the same outcome of every operation and, after every operation, the same heap
(`called` / `result` / `paused` / pending callables and continuations of every Deferred), the same invocations with the
same inputs and outputs in the same global order, the same counters.  This is PROVED: `run_refines_spec` — for ALL
programs of the domain: callables returning fired / unfired / paused / waiting Deferreds, Deferreds returned while they
are in the middle of their own chain, several Deferreds waiting on one, results stolen, pauses while waiting.

How: `sim` (`TwistedProps/C01/ChainRun.lean`) is the induction that replaces the recursive calls of `Spec.run`
(resume → `run c`) by pushes on the chain stack with `chain_stack_is_call_stack`; the list of running Deferreds of the
recursion is the chain stack below the top.  It rests on the invariants `Good3` (`ChainDefs.lean`, `ChainIdle.lean`),
preserved by every iteration of the loop (`stepConf_good`, `stepConf_good3`) and every operation of a program
(`stepWith_good`):  `called ↔ result set`;  `paused ≥ user pauses + outstanding continuations` (this is where balance
is used);  a Deferred holding a Deferred is paused;  a continuation belongs to a fired Deferred;  no callable returns
its own Deferred;  a fired, unpaused Deferred with a plain result that is not on the stack has no callbacks (`Idle` —
so a returned Deferred that must be waited for although it is fired, unpaused and holds a plain result IS on the stack,
which is exactly when the reference's guard declines to re-enter it);  the Deferreds below the top of the stack are not
paused and the stack has no duplicates.

Also kept: `run_refines_spec_nonchaining` (programs OUTSIDE the domain as far as pauses go: arbitrary unbalanced
pause/unpause, provided no callable returns a Deferred) and `chain_stack_is_call_stack` (all heaps).

STILL MISSING (not part of the refinement): `input_is_previous_output` for non-leaf Deferreds as a statement about the
implementation alone.  Literally it is false there — after a Deferred has resumed a waiting one its result is `None`,
so its next callable receives `None`, not the previous output; and the input after a callable that returned Deferred
`j` is what `j` handed over — stating it needs a ghost log of hand-overs.  For every program of the domain the inputs
are those of the reference interpreter (`run_refines_spec`), whose `resume` hands over exactly the returned Deferred's
result at that time. -/

/-- **Refinement, non-chaining programs with arbitrary (also unbalanced) pauses.**
    For every program whose callables return no Deferred: the recursive reference interpreter and the chain-stack
    implementation produce the same outcome and the same state (heap, trace, counters) after every operation. -/
theorem run_refines_spec_nonchaining (n : Nat) (prog : List Op) (h : noChaining prog = true) :
    Twisted.Defer.Spec.history (init n) prog = history (init n) prog := by
  have hops : ∀ op ∈ prog, opPlain op = true := by
    intro op hop
    simp only [noChaining, List.all_eq_true] at h
    exact h op hop
  exact traceWith_plain (init_plain n) hops

/-- …in particular the reference interpreter answers (its fuel suffices) and the final states agree -/
theorem run_refines_spec_nonchaining_final (n : Nat) (prog : List Op) (h : noChaining prog = true) :
    ∃ s, Twisted.Defer.Spec.exec (init n) prog = some s ∧ exec (init n) prog = some s := by
  have hops : ∀ op ∈ prog, opPlain op = true := by
    intro op hop
    simp only [noChaining, List.all_eq_true] at h
    exact h op hop
  obtain ⟨s, hs⟩ := exec_total (init n) prog
  refine ⟨s, ?_, hs⟩
  rw [← hs]
  have key : ∀ (st : State) (ops : List Op), Plain st.cells → (∀ op ∈ ops, opPlain op = true) →
      execWith Twisted.Defer.Spec.specRun st ops = execWith coreRun st ops := by
    intro st ops
    induction ops generalizing st with
    | nil => intros; rfl
    | cons op ops ih =>
      intro hp ho
      have h1 := stepWith_plain hp (ho op (by simp))
      simp only [execWith, h1.1]
      cases hst : stepWith coreRun st op with
      | none => rfl
      | some r =>
        obtain ⟨s1, o⟩ := r
        exact ih s1 (h1.2 (s1, o) hst) (fun op' h' => ho op' (by simp [h']))
  exact key (init n) prog (init_plain n) hops

/-- **The chain stack is a call stack** (all heaps, all stacks): the iterative walk over `chain ++ below` is the walk
    over `chain` run to completion followed by the walk over `below`. -/
theorem chain_stack_is_call_stack (c : Conf) (below : List Nat) :
    loop { c with chain := c.chain ++ below } = loop { loop c with chain := below } :=
  loop_chain_append c below

/-- **Refinement (the property, full).**  For every program inside the statement's domain (`inDomain`, static:
    `unpause` never outnumbers `pause`, no callable returns its own Deferred), over any number of Deferreds: the
    recursive reference interpreter and the chain-stack implementation produce the same outcome and the same state
    (heap, trace, counters) after every operation. -/
theorem run_refines_spec (n : Nat) (prog : List Op) (hdom : inDomain prog = true) :
    Twisted.Defer.Spec.history (init n) prog = history (init n) prog :=
  history_good n prog hdom

/-- …in particular the per-Deferred observable of the statement: for each Deferred the same invocations
    (callable tag, input, output) in the same order, the same result, the same pending callbacks — after every
    operation -/
theorem run_refines_spec_perDeferred (n : Nat) (prog : List Op) (hdom : inDomain prog = true) (d : Nat) :
    (Twisted.Defer.Spec.history (init n) prog).map (fun h => h.map (fun p => (p.1, dTrace p.2.trace d, p.2.cells[d]?))) =
    (history (init n) prog).map (fun h => h.map (fun p => (p.1, dTrace p.2.trace d, p.2.cells[d]?))) := by
  rw [run_refines_spec n prog hdom]

/-- …and the reference interpreter answers (its fuel suffices) with the implementation's final state -/
theorem run_refines_spec_final (n : Nat) (prog : List Op) (hdom : inDomain prog = true) :
    ∃ s, Twisted.Defer.Spec.exec (init n) prog = some s ∧ exec (init n) prog = some s := by
  obtain ⟨s, hs⟩ := exec_total (init n) prog
  refine ⟨s, ?_, hs⟩
  have key : ∀ (up : Nat → Int) (st : State) (ops : List Op), GoodRest up st.cells → domOK up ops = true →
      execWith Twisted.Defer.Spec.specRun st ops = execWith coreRun st ops := by
    intro up st ops
    induction ops generalizing up st with
    | nil => intros; rfl
    | cons op ops ih =>
      intro hg hd
      simp only [domOK, Bool.and_eq_true] at hd
      obtain ⟨r, hr⟩ := stepWith_core_some st op
      obtain ⟨s1, o⟩ := r
      have h1 := stepWith_good hg hd.1 hr
      simp only [execWith, h1.1, hr]
      exact ih _ s1 h1.2 hd.2
  rw [← hs]
  exact key _ (init n) prog (init_rest n) hdom

/-- the heap-level core: on a configuration satisfying the invariants, a `_runCallbacks` walk from a fired Deferred
    is exactly the recursive `run` -/
theorem runCallbacks_refines_recursion {up : Nat → Int} {h : Heap} {d : Nat}
    (hg : Good3 up { cells := h.1, trace := h.2, chain := [d] }) :
    Twisted.Defer.Spec.specRun h d = coreRun h d :=
  specRun_eq_coreRun_of (up := up) (G := Good3 up) (fun c h => h.1) (fun c c' hg h => stepConf_good3 hg h)
    (fun c ext hg => loop_good3_append c ext hg) hg

/-- the invariants of §4 hold after every program of the domain; in particular every fired, unpaused Deferred that
    holds a plain result has run all its callbacks -/
theorem domain_heap_invariants (n : Nat) (prog : List Op) (hdom : inDomain prog = true) (s : State)
    (h : exec (init n) prog = some s) : ∃ up, GoodRest up s.cells :=
  exec_good prog (init_rest n) hdom s h

/-- A Deferred returned while it is in the middle of its chain, and two Deferreds then waiting on one.  Deferred 1
    waits for 2, Deferred 0 for 1; 2 fires: it resumes 1, which resumes 0, whose next callable returns 2 — which still
    has a callable to run and whose loop is on the stack.  It is not re-entered (`_runningCallbacks`): Deferred 1
    finishes first, then 2; both return the unfired Deferred 3, which hands its result to 1. -/
def witnessTwoWaiters : List Op :=
  [.add 1 (.user (.retDef 2)) .passthru, .callback 1 0, .add 0 (.user (.retDef 1)) .passthru,
   .add 0 (.user (.retDef 2)) .passthru, .callback 0 0, .add 1 (.user (.retDef 3)) .passthru,
   .add 2 (.user (.retDef 3)) .passthru, .callback 2 5, .callback 3 7]

/-- the same with Deferred 2 having NOTHING left to run when it is returned (its loop still on the stack): its result
    is used at once, Deferred 0 goes on and reaches Deferred 3 before Deferred 1 does -/
def witnessIdleRunning : List Op :=
  [.add 1 (.user (.retDef 2)) .passthru, .callback 1 0, .add 0 (.user (.retDef 1)) .passthru,
   .add 0 (.user (.retDef 2)) .passthru, .add 0 (.user (.retDef 3)) .passthru, .callback 0 0,
   .add 1 (.user (.retDef 3)) .passthru, .callback 2 5, .callback 3 7]

example : inDomain witnessTwoWaiters = true ∧ inDomain witnessIdleRunning = true := by decide
example : (exec (init 4) witnessTwoWaiters).map (fun s => s.cells.map (·.result)) =
    some [.pyNone, .ok 7, .pyNone, .pyNone] := by decide
example : (Twisted.Defer.Spec.exec (init 4) witnessTwoWaiters).map (fun s => s.cells.map (·.result)) =
    some [.pyNone, .ok 7, .pyNone, .pyNone] := by decide
example : (exec (init 4) witnessIdleRunning).map (fun s => s.cells.map (·.result)) =
    some [.ok 7, .pyNone, .pyNone, .pyNone] := by decide
example : (Twisted.Defer.Spec.exec (init 4) witnessIdleRunning).map (fun s => s.cells.map (·.result)) =
    some [.ok 7, .pyNone, .pyNone, .pyNone] := by decide

/-- non-vacuity: stealing from a fired Deferred, a chain of three, a pause while waiting, an errback resumed,
    late adds, a second wait on the same Deferred -/
def demoChain : List Op :=
  [.callback 2 5, .add 0 (.user (.retDef 1)) .passthru, .add 1 (.user (.retDef 2)) .passthru, .pause 1, .callback 0 1,
   .callback 1 2, .add 0 .passthru (.user (.value 3)), .unpause 1, .add 2 (.user (.raise 4)) .passthru,
   .add 1 (.user (.retDef 2)) .passthru, .add 0 (.user (.retFail 6)) (.user (.value 8))]

example : inDomain demoChain = true := by decide
example : (exec (init 3) demoChain).map (fun s => (s.trace.map (fun e => (e.d, e.tag, e.input, e.output)),
      s.cells.map (·.result))) =
    some ([(0, 0, .ok 1, .dref 1), (1, 1, .ok 2, .dref 2), (2, 3, .pyNone, .fail 4), (1, 4, .pyNone, .dref 2),
           (0, 5, .ok 5, .fail 6)], [.fail 6, .fail 4, .pyNone]) := by decide
example : inDomain demo = true := by decide

/-- a non-chaining program with pauses, an unbalanced unpause, late adds and error routing -/
def demoPlain : List Op :=
  [.add 0 (.user (.raise 2)) .passthru, .pause 0, .callback 0 1, .add 0 .passthru (.user (.value 3)), .unpause 0,
   .unpause 1, .add 1 (.user (.value 4)) (.user (.retFail 5)), .errback 1 6, .pause 1, .pause 1,
   .add 0 (.user (.retFail 7)) (.user (.value 8)), .callback 0 9]

example : noChaining demoPlain = true := by decide
example : (history (init 2) demoPlain).map (fun h => h.map (fun p => (p.1, p.2.trace.length))) =
    some [(.ok, 0), (.ok, 0), (.ok, 0), (.ok, 0), (.ok, 2), (.ok, 2), (.ok, 2), (.ok, 2), (.ok, 2), (.ok, 2),
          (.ok, 3), (.alreadyCalled, 3)] := by decide

/-! Concrete chaining programs on which both interpreters are evaluated by the kernel (examples, not the theorem):
    the two witnesses of the defects repaired in `_runCallbacks` and the demo above. -/

/-- witness 1: Deferred 0 waits for 1 and is paused when 1 fires; 1 has a callable behind the continuation -/
def witnessPausedChainee : List Op :=
  [.add 0 (.user (.retDef 1)) .passthru, .callback 0 1, .add 1 (.user (.value 3)) (.user (.value 3)), .pause 0,
   .callback 1 5]

/-- witness 2: Deferred 1 is returned a second time while it is in the middle of its own chain -/
def witnessMidChain : List Op :=
  [.add 0 (.user (.retDef 1)) .passthru, .add 0 (.user (.retDef 1)) .passthru,
   .add 0 (.user (.value 2)) (.user (.value 2)), .callback 0 1, .add 1 (.user (.value 7)) (.user (.value 7)),
   .callback 1 5]

example : Twisted.Defer.Spec.history (init 2) witnessPausedChainee = history (init 2) witnessPausedChainee := by decide
example : (exec (init 2) witnessPausedChainee).map (fun s => s.trace.map (fun e => (e.d, e.tag, e.input))) =
    some [(0, 0, .ok 1), (1, 1, .pyNone)] := by decide
example : Twisted.Defer.Spec.history (init 2) witnessMidChain = history (init 2) witnessMidChain := by decide
example : (exec (init 2) witnessMidChain).map (fun s => (s.trace.map (fun e => (e.d, e.tag, e.input)),
      s.cells.map (·.result))) =
    some ([(0, 0, .ok 1), (0, 1, .ok 5), (1, 3, .pyNone), (0, 2, .ok 7)], [.ok 2, .pyNone]) := by decide
example : Twisted.Defer.Spec.history (init 2) demo = history (init 2) demo := by decide
example : inDomain witnessPausedChainee = true ∧ inDomain witnessMidChain = true := by decide

/-! ## 5. the model is blind to values

The check runs programs that fire / return `None` (and Failures, Deferreds of subclasses, callables with extra
arguments) through this model with `None` written as the opaque value 9.  Nothing is lost: renaming the plain values of a
program by ANY function `f` (injective or not) renames the run and changes nothing else — outcomes of the operations,
which callables run and when, called / paused / pending callbacks of every Deferred after every operation. -/
theorem run_value_blind (f : Nat → Nat) (n : Nat) (ops : List Op) :
    history (init n) (ops.map (VB.mapOp f))
      = (history (init n) ops).map (List.map fun r => (r.1, VB.mapState f r.2)) := by
  have h := VB.history_map f (init n) ops
  rwa [VB.init_map] at h

/-- non-vacuity: value 9 renamed to 0 in a program with a steal, a wait and an errback -/
def demoRename : List Op :=
  [.callback 1 9, .add 0 (.user (.retDef 1)) .passthru, .add 0 (.user (.value 9)) (.user (.value 2)), .callback 0 1,
   .add 1 (.user (.raise 3)) .passthru, .add 1 .passthru (.user (.value 9))]
example : (history (init 2) (demoRename.map (VB.mapOp fun n => if n = 9 then 0 else n))).map
      (fun h => h.map (fun p => p.2.cells.map (·.result))) =
    some [[.unset, .ok 0], [.unset, .ok 0], [.unset, .ok 0], [.ok 0, .pyNone], [.ok 0, .fail 3], [.ok 0, .ok 0]] := by
  decide
example : (history (init 2) demoRename).map (fun h => h.map (fun p => p.2.cells.map (·.result))) =
    some [[.unset, .ok 9], [.unset, .ok 9], [.unset, .ok 9], [.ok 9, .pyNone], [.ok 9, .fail 3], [.ok 9, .ok 9]] := by
  decide

end TwistedProps.C01
