import TwistedModel.Reactor.Looping
import Generated.Looping
/-!
C10 — the arithmetic kernels of `LoopingCall`, regenerated from `src/twisted/internet/task.py` by
`harness/py2lean.py` on every run (`lean/Generated/Looping.lean`), proved equal to the hand model's
functions (`TwistedModel/Reactor/Looping.lean`) on the model's domain: integer ticks.

* `Generated.Looping.intervalOf starttime interval t`   ← `LoopingCall._intervalOf(t)`
* `Generated.Looping.howLong starttime interval when`   ← the `howLong` closure of `_scheduleFrom(when)`

The translator renders Python's `%` as `Int.fmod` (floored, sign of the divisor) and `int(a / b)` as
`Int.tdiv` (under the exactness assumption printed in the generated file); the model uses `Int.emod` and
`Int.tdiv`.  `fmod` and `emod` agree for a divisor ≥ 0, which is every interval `start()` accepts
(`interval < 0` raises `ValueError` before anything is scheduled).  `when == when + untilNextInterval`
is translated literally and proved equivalent, on integers, to the model's `untilNextInterval == 0`.

A zero divisor is not modelled by the translator (Lean's `tdiv`/`fmod` are total, Python raises
`ZeroDivisionError`): `howLong` returns before its `%` when `interval == 0` (part of the generated
definition, so `gen_howLong_eq` covers interval 0), and `counter()` returns before calling `_intervalOf`
when `interval == 0` (model: `counter`), so `_intervalOf` only ever runs with `interval > 0`.

If the Python source of either function changes meaning, these proofs stop checking and `./check C10`
reports the broken tie.
-/
namespace TwistedProps.C10
open Twisted.Reactor.Looping

/-- generated `_intervalOf` = the model's, for every state and time -/
theorem gen_intervalOf_eq (s : St) (t : Int) :
    Generated.Looping.intervalOf s.starttime s.interval t = intervalOf s t := rfl

/-- generated `howLong` = the model's, for every interval `start()` accepts (`≥ 0`; `0` included) -/
theorem gen_howLong_eq (s : St) (when : Int) (hI : 0 ≤ s.interval) :
    Generated.Looping.howLong s.starttime s.interval when = howLong s when := by
  simp only [Generated.Looping.howLong, howLong, Int.fmod_eq_emod_of_nonneg _ hI]
  by_cases h0 : s.interval = 0
  · simp [h0]
  · simp only [h0, decide_false, beq_iff_eq, Bool.false_eq_true, if_false]
    by_cases h1 : s.interval - (when - s.starttime) % s.interval = 0
    · simp [h1]
    · have : ¬ (when = when + (s.interval - (when - s.starttime) % s.interval)) := by omega
      simp [h1, this]

/-- the model's `_scheduleFrom(when)` arms the call at `now +` the GENERATED `howLong` -/
theorem gen_scheduleFrom_eq (s : St) (when : Int) (hI : 0 ≤ s.interval) :
    (scheduleFrom s when).call
      = some (s.now + Generated.Looping.howLong s.starttime s.interval when) := by
  rw [gen_howLong_eq s when hI]; rfl

/-- the generated `howLong` never returns a non-positive delay for a positive interval, and never more
    than one interval (directly over the generated definition) -/
theorem gen_howLong_range (st I w : Int) (hI : 0 < I) :
    0 < Generated.Looping.howLong st I w ∧ Generated.Looping.howLong st I w ≤ I := by
  have h1 := Int.emod_lt_of_pos (w - st) hI
  have h2 := Int.emod_nonneg (w - st) (Int.ne_of_gt hI)
  have h0 : ¬ I = 0 := by omega
  simp only [Generated.Looping.howLong, Int.fmod_eq_emod_of_nonneg _ (Int.le_of_lt hI), h0, decide_false,
    Bool.false_eq_true, if_false]
  split <;> omega

end TwistedProps.C10
