import TwistedModel.App.ClientService
import TwistedProps.C58.Ids
import TwistedProps.C58.Defs
import TwistedProps.C58.Handler
import TwistedProps.C58.Inv
import TwistedProps.C58.Consumers
import TwistedProps.C58.TimeUnit
/-!
C58 — ClientService keeps one connection and resolves every waiter.

Statement (properties.jsonl): for any history of start and stop, whenConnected calls (with or without failure
limits), connection attempts that succeed, fail, hang or are cancelled, connections that later drop,
prepareConnection hooks that succeed or fail, and clock advances, there is never more than one open connection
or attempt in progress, and retries wait the retry policy's delay for the current number of consecutive
failures.  Every whenConnected Deferred fires at most once and no later than the next connection, its failure
limit or the stop of the service, every stopService Deferred fires once any connection is closed, and no event
is rejected as invalid for the service's state.

The code FALSIFIES the full statement on the `prepareConnection` paths (a hook that raises, or that returns a
Deferred which is still pending when the connection drops or the service stops): see the three
`…_counterexample` theorems, replayed on the real service by the oracle (known-findings.txt keys
prepare-drop-rejected, prepare-reject-leaks-connection, stop-during-prepare).  What is proved:

The history space includes what the APPLICATION protocol's own `connectionLost` handler does while a loss is
delivered (event `dropH i acts raises`: user code run by `_ReconnectingProtocolProxy.connectionLost` before the
service is notified — it may call whenConnected / startService / stopService, and it may raise any exception).
`HookFree` admits every such event, so every theorem below quantifies over them; in addition
`drop_notifies_whatever_the_handler_does` (ALL states), `unsolicited_drop_schedules_retry_partial`,
`every_loss_completes_stop_partial` and `started_service_is_never_idle_partial` say that a loss is always noticed.
Consumers of the Deferreds may call `startService()` from their callbacks (`runC`, re-entrant start postponed by
automat): `consumer_restart_is_a_start_event` reduces every such history to a plain one, for ALL histories.

Time is a natural number of units in the model; `step_time_unit` / `run_time_unit` (TwistedProps/C58/TimeUnit.lean, ALL states,
events, policies) show that the unit is arbitrary, which is how the tie plays fractional delays (units of 1/2, 1/4, 1/8 s).

* for ALL histories (every event, any hook): every whenConnected and stopService Deferred fires at most once,
  none is lost, a fired one is never still waiting (`whenConnected_fires_at_most_once`, `stopService_fires_at_most_once`,
  `every_deferred_waiting_or_fired`);
* for ALL histories in which the hook, if installed, returns normally (`HookFree`: events `csucc:raise` and
  `csucc:defer` do not occur — everything else does: start/stop in any order, any number of waiters with any
  limits, attempts that succeed, fail, hang, are cancelled by stop, connections that drop, any clock advances,
  any retry policy): the rest of the statement, as the `…_partial` theorems below.  They are named `_partial`
  only because of the `HookFree` hypothesis; the missing part is exactly the set of histories through
  `csucc:raise` / `csucc:defer`, where the statement is false.
-/
namespace TwistedProps.C58
open Twisted.App.ClientService

/-- no event of the history involves a hook that raises or returns a Deferred -/
def HookFree (h : List Ev) : Prop := ∀ e ∈ h, hookFree e = true

instance (h : List Ev) : Decidable (HookFree h) := by unfold HookFree; infer_instance

theorem run_append (pol : Nat → Nat) (s : St) (h : List Ev) (e : Ev) :
    run pol s (h ++ [e]) = (step pol (run pol s h) e).1 := by
  induction h generalizing s with
  | nil => rfl
  | cons a as ih => exact ih _

theorem consecutiveFailures_append (pol : Nat → Nat) (s : St) (k : Nat) (h : List Ev) (e : Ev) :
    consecutiveFailures pol s k (h ++ [e]) = failures (consecutiveFailures pol s k h) (run pol s h) e := by
  induction h generalizing s k with
  | nil => rfl
  | cons a as ih => exact ih _ _

theorem good_init : Good init := by simp [Good, init]

/-- the invariant holds after every hook-free history, and `failedAttempts` is the environment's count -/
theorem good_run (pol : Nat → Nat) (s : St) (k : Nat) (h : List Ev) (hg : Good s) (hk : s.failed = k)
    (hf : HookFree h) : Good (run pol s h) ∧ (run pol s h).failed = consecutiveFailures pol s k h := by
  induction h generalizing s k with
  | nil => exact ⟨hg, hk⟩
  | cons e es ih =>
    have he : hookFree e = true := hf e (by simp)
    have hs := good_step pol s e hg he
    exact ih _ _ hs.1 (hk ▸ hs.2.2.1) (fun x hx => hf x (by simp [hx]))

theorem hookFree_split {h : List Ev} {e : Ev} (hf : HookFree (h ++ [e])) : HookFree h ∧ hookFree e = true :=
  ⟨fun x hx => hf x (by simp [hx]), hf e (by simp)⟩

/-! ### no event is rejected -/

/-- FULL STATEMENT (false, see `no_rejected_event_counterexample`): the same without `HookFree`.
    Proved: after any hook-free history, whatever event comes next is accepted (`NoTransition` is never raised). -/
theorem no_rejected_event_partial (pol : Nat → Nat) (h : List Ev) (e : Ev) (hf : HookFree (h ++ [e])) :
    (step pol (run pol init h) e).2 ≠ .rejected :=
  (good_step pol _ e (good_run pol init 0 h good_init rfl (hookFree_split hf).1).1 (hookFree_split hf).2).2.1

/-- a connection that drops while `prepareConnection`'s Deferred is pending is rejected (`NoTransition`) -/
theorem no_rejected_event_counterexample :
    (step (fun n => n + 1) (run (fun n => n + 1) init [.start, .csucc .defer]) (.drop 0)).2 = .rejected := by decide

/-! ### one connection or attempt -/

/-- connections open plus attempts in progress (an endpoint attempt, or a connection still being prepared
    counts once as a connection) -/
def inProgress (s : St) : Nat := s.conns.length + (if s.att = .pending then 1 else 0)

/-- FULL STATEMENT (false, see the counterexample): without `HookFree`. -/
theorem at_most_one_connection_or_attempt_partial (pol : Nat → Nat) (h : List Ev) (hf : HookFree h) :
    inProgress (run pol init h) ≤ 1 := by
  have hg := (good_run pol init 0 h good_init rfl hf).1
  generalize run pol init h = s at hg
  rcases s with ⟨ms, running, cur, att, conns, nconn, timer, failed, waiters, nwait, fired, stopWaiters, nstop, stopFired⟩
  cases ms <;> simp_all [Good, inProgress]

/-- the hook rejects the first connection; it stays open, and after the retry delay there are two -/
theorem at_most_one_connection_or_attempt_counterexample :
    inProgress (run (fun n => n + 1) init [.start, .csucc .raise, .adv 5]) = 2
    ∧ (run (fun n => n + 1) init [.start, .csucc .raise, .adv 5, .csucc .ok]).conns.length = 2 := by decide

/-- and a retry timer never coexists with a connection or an attempt -/
theorem retry_pending_means_nothing_open_partial (pol : Nat → Nat) (h : List Ev) (hf : HookFree h) :
    (run pol init h).timer ≠ none → inProgress (run pol init h) = 0 := by
  have hg := (good_run pol init 0 h good_init rfl hf).1
  generalize run pol init h = s at hg
  rcases s with ⟨ms, running, cur, att, conns, nconn, timer, failed, waiters, nwait, fired, stopWaiters, nstop, stopFired⟩
  cases ms <;> simp_all [Good, inProgress]

/-! ### retry delay -/

/-- Whenever an event makes the service schedule a retry, the delay is the policy's value for the number of
    consecutive failures counted BY THE ENVIRONMENT (`consecutiveFailures`: failed attempts and unsolicited
    drops since the last established connection — no reference to `failedAttempts`). Any policy. -/
theorem retry_delay_is_policy_of_failure_count_partial (pol : Nat → Nat) (h : List Ev) (e : Ev)
    (hf : HookFree (h ++ [e])) (r : Nat)
    (hnone : (run pol init h).timer = none) (hsome : (run pol init (h ++ [e])).timer = some r) :
    r = pol (consecutiveFailures pol init 0 (h ++ [e])) := by
  have hr := good_run pol init 0 h good_init rfl (hookFree_split hf).1
  have hs := good_step pol _ e hr.1 (hookFree_split hf).2
  rw [run_append] at hsome
  rw [consecutiveFailures_append, ← hr.2, ← hs.2.2.1]
  exact hs.2.2.2.1 r hnone hsome

/-- the retry then happens exactly when the clock has advanced by that delay: while it is pending the only
    thing that changes it is the clock, and a new attempt starts only on startService, on the close that
    completes a restart, or when the pending retry's remaining time has elapsed -/
theorem attempt_starts_only_on_start_or_due_retry_partial (pol : Nat → Nat) (h : List Ev) (e : Ev)
    (hf : HookFree (h ++ [e])) (h0 : (run pol init h).att = .none) (h1 : (run pol init (h ++ [e])).att = .pending) :
    e = .start ∨ (∃ i, e = .drop i) ∨ (∃ t r, e = .adv t ∧ (run pol init h).timer = some r ∧ r ≤ t)
      ∨ ∃ i acts r, e = .dropH i acts r := by
  have hr := good_run pol init 0 h good_init rfl (hookFree_split hf).1
  have hs := good_step pol _ e hr.1 (hookFree_split hf).2
  rw [run_append] at h1
  exact hs.2.2.2.2.2.2.2 h0 h1

/-! ### whenConnected Deferreds -/

/-- ALL histories: no whenConnected Deferred fires twice. -/
theorem whenConnected_fires_at_most_once (pol : Nat → Nat) (h : List Ev) :
    ((run pol init h).fired.map (·.1)).Nodup := by
  have hp := (idInv_run pol init h idInv_init).1
  have hn : (wids (run pol init h)).Nodup := hp.nodup_iff.mpr List.nodup_range
  exact (List.nodup_append.mp hn).2.1

/-- ALL histories: every whenConnected / stopService Deferred handed out is either still held by the service
    or has fired — never both, never neither. -/
theorem every_deferred_waiting_or_fired (pol : Nat → Nat) (h : List Ev) :
    let s := run pol init h
    (∀ i, i < s.nwait ↔ (i ∈ s.waiters.map (·.1) ∨ i ∈ s.fired.map (·.1)))
    ∧ (∀ i, ¬ (i ∈ s.waiters.map (·.1) ∧ i ∈ s.fired.map (·.1)))
    ∧ (∀ i, i < s.nstop ↔ (i ∈ s.stopWaiters ∨ i ∈ s.stopFired))
    ∧ (∀ i, ¬ (i ∈ s.stopWaiters ∧ i ∈ s.stopFired)) := by
  intro s
  have hi := idInv_run pol init h idInv_init
  have hw : (wids s).Nodup := hi.1.nodup_iff.mpr List.nodup_range
  have hs : (sids s).Nodup := hi.2.nodup_iff.mpr List.nodup_range
  refine ⟨fun i => ?_, fun i hc => ?_, fun i => ?_, fun i hc => ?_⟩
  · rw [← List.mem_append, ← List.mem_range]; exact (hi.1.mem_iff).symm
  · exact (List.nodup_append.mp hw).2.2 _ hc.1 _ hc.2 rfl
  · rw [← List.mem_append, ← List.mem_range]; exact (hi.2.mem_iff).symm
  · exact (List.nodup_append.mp hs).2.2 _ hc.1 _ hc.2 rfl

/-- ALL histories: no stopService Deferred fires twice. -/
theorem stopService_fires_at_most_once (pol : Nat → Nat) (h : List Ev) :
    (run pol init h).stopFired.Nodup := by
  have hp := (idInv_run pol init h idInv_init).2
  have hn : (sids (run pol init h)).Nodup := hp.nodup_iff.mpr List.nodup_range
  exact (List.nodup_append.mp hn).2.1

/-- deadline 1: the event that establishes a connection fires every waiting Deferred with that connection -/
theorem whenConnected_resolved_by_next_connection_partial (pol : Nat → Nat) (h : List Ev) (e : Ev)
    (hf : HookFree (h ++ [e])) (hs : isSuccess (run pol init h) e = true) :
    (run pol init (h ++ [e])).waiters = []
    ∧ ∃ c, ∀ w ∈ (run pol init h).waiters, (w.1, WRes.conn c) ∈ (run pol init (h ++ [e])).fired := by
  have hr := good_run pol init 0 h good_init rfl (hookFree_split hf).1
  have hst := (good_step pol _ e hr.1 (hookFree_split hf).2).2.2.2.2.1 hs
  rw [run_append]
  refine ⟨hst.1, ?_⟩
  obtain ⟨c, hc⟩ := hst.2
  refine ⟨c, fun w hw => ?_⟩
  rw [hc]
  exact List.mem_append_right _ (List.mem_map.mpr ⟨w, hw, rfl⟩)

theorem mem_failedWhenConnecting (s : St) (w : Nat × Option Nat) (hw : w ∈ s.waiters) :
    match w.2 with
    | none => w ∈ (failedWhenConnecting s).waiters
    | some r => if r ≤ 1 then (w.1, WRes.failed) ∈ (failedWhenConnecting s).fired
                else (w.1, some (r - 1)) ∈ (failedWhenConnecting s).waiters := by
  obtain ⟨i, k⟩ := w
  cases k with
  | none =>
    simp only [failedWhenConnecting, List.mem_map, List.mem_filter]
    exact ⟨(i, none), ⟨hw, by simp [isReady]⟩, by simp [decrement]⟩
  | some r =>
    by_cases hr : r ≤ 1
    · simp only [hr, if_true, failedWhenConnecting, List.mem_append, List.mem_map, List.mem_filter]
      exact Or.inr ⟨(i, some r), ⟨hw, by simp [isReady, hr]⟩, rfl⟩
    · simp only [hr, if_false, failedWhenConnecting, List.mem_map, List.mem_filter]
      exact ⟨(i, some r), ⟨hw, by simp [isReady, hr]⟩, by simp [decrement]⟩

/-- deadline 2: when the attempt in progress fails, a waiting Deferred with one failure left fails now, one with
    more left has one fewer, one without a limit keeps waiting (so a Deferred registered with
    `failAfterFailures = k` fails at the k-th failed attempt at the latest) -/
theorem whenConnected_resolved_by_failure_limit_partial (pol : Nat → Nat) (h : List Ev) (e : Ev)
    (hf : HookFree (h ++ [e])) (hs : attemptFails (run pol init h) e = true)
    (w : Nat × Option Nat) (hw : w ∈ (run pol init h).waiters) :
    match w.2 with
    | none => w ∈ (run pol init (h ++ [e])).waiters
    | some r => if r ≤ 1 then (w.1, WRes.failed) ∈ (run pol init (h ++ [e])).fired
                else (w.1, some (r - 1)) ∈ (run pol init (h ++ [e])).waiters := by
  have hr := good_run pol init 0 h good_init rfl (hookFree_split hf).1
  have hst := (good_step pol _ e hr.1 (hookFree_split hf).2).2.2.2.2.2.1 hs
  rw [run_append, hst]
  exact mem_failedWhenConnecting _ w hw

/-- a Deferred is registered with exactly the limit it was asked for, or answered at once -/
theorem whenConnected_registers_limit (pol : Nat → Nat) (s : St) (k : Option Nat) :
    let s' := (step pol s (.when k)).1
    (s'.waiters = s.waiters ++ [(s.nwait, k)] ∧ s'.fired = s.fired)
    ∨ (s'.waiters = s.waiters ∧ ∃ r, s'.fired = s.fired ++ [(s.nwait, r)]) := by
  simp only [step, mWhen]
  split
  · exact Or.inr ⟨rfl, _, rfl⟩
  · exact Or.inr ⟨rfl, _, rfl⟩
  · exact Or.inl ⟨rfl, rfl⟩

/-- deadline 3: once stopService has been called, the service has not been started again, and every stopService
    Deferred has fired, no whenConnected Deferred is still waiting -/
theorem whenConnected_resolved_by_stop_partial (pol : Nat → Nat) (h : List Ev) (hf : HookFree h) :
    let s := run pol init h
    0 < s.nstop → s.running = false → s.stopWaiters = [] → s.waiters = [] := by
  have hg := (good_run pol init 0 h good_init rfl hf).1
  generalize run pol init h = s at hg
  rcases s with ⟨ms, running, cur, att, conns, nconn, timer, failed, waiters, nwait, fired, stopWaiters, nstop, stopFired⟩
  cases ms <;> simp_all [Good] <;> omega

/-! ### stopService Deferreds -/

/-- a stopService Deferred fires only at an event after which no connection is open -/
theorem stopService_fires_only_when_closed_partial (pol : Nat → Nat) (h : List Ev) (e : Ev)
    (hf : HookFree (h ++ [e])) (hne : (run pol init (h ++ [e])).stopFired ≠ (run pol init h).stopFired) :
    (run pol init (h ++ [e])).conns = [] := by
  have hr := good_run pol init 0 h good_init rfl (hookFree_split hf).1
  rw [run_append] at hne ⊢
  exact (good_step pol _ e hr.1 (hookFree_split hf).2).2.2.2.2.2.2.1 hne

/-- … and as soon as no connection is open they have all fired -/
theorem stopService_fires_once_closed_partial (pol : Nat → Nat) (h : List Ev) (hf : HookFree h) :
    (run pol init h).conns = [] → (run pol init h).stopWaiters = [] := by
  have hg := (good_run pol init 0 h good_init rfl hf).1
  generalize run pol init h = s at hg
  rcases s with ⟨ms, running, cur, att, conns, nconn, timer, failed, waiters, nwait, fired, stopWaiters, nstop, stopFired⟩
  cases ms <;> simp_all [Good]

/-- stopService while `prepareConnection`'s Deferred is pending: the stopService Deferred has fired, the
    established connection is still open and nobody will close it -/
theorem stopService_counterexample :
    let s := run (fun n => n + 1) init [.start, .csucc .defer, .stop]
    s.stopFired = [0] ∧ s.conns = [⟨0, false⟩] ∧ s.ms = .stopped := by decide

/-! ### the loss of a connection is always noticed (whatever the application's `connectionLost` handler does) -/

/-- ALL states (good or not, any hook): the state of the service after a loss does not depend on whether the
    application's handler raises — the notification is in a `finally` — and neither does acceptance of the event;
    a handler that makes no calls leaves exactly the state of a plain `Protocol`'s. -/
theorem drop_notifies_whatever_the_handler_does (pol : Nat → Nat) (s : St) (i : Nat) (acts : List Act) (r : Bool) :
    (step pol s (.dropH i acts r)).1 = (step pol s (.dropH i acts false)).1
    ∧ ((step pol s (.dropH i acts r)).2 = .rejected ↔ (step pol s (.dropH i acts false)).2 = .rejected)
    ∧ (step pol s (.dropH i [] r)).1 = (step pol s (.drop i)).1 := by
  refine ⟨?_, ?_, ?_⟩
  · simp only [step, proxyConnectionLost]; split <;> rfl
  · simp only [step, proxyConnectionLost]
    split
    · generalize (clientDisconnected pol _).2 = b
      cases b <;> cases r <;> simp
    · simp
  · rw [drop_eq_dropH]; simp only [step, proxyConnectionLost]; split <;> rfl

/-- a started service is never idle: exactly one of {its connection, an attempt in progress, a scheduled retry} exists
    (this is what fails when a loss goes unnoticed) -/
theorem started_service_is_never_idle_partial (pol : Nat → Nat) (h : List Ev) (hf : HookFree h) :
    (run pol init h).running = true →
      inProgress (run pol init h) + (if (run pol init h).timer.isSome then 1 else 0) = 1 := by
  have hg := (good_run pol init 0 h good_init rfl hf).1
  generalize run pol init h = s at hg
  rcases s with ⟨ms, running, cur, att, conns, nconn, timer, failed, waiters, nwait, fired, stopWaiters, nstop, stopFired⟩
  cases ms <;> simp_all [Good, inProgress]

/-- When a connection that nobody asked to close is lost — with a plain handler, a handler that calls back into the
    service (without stopping it), a handler that raises an `Exception` or a `BaseException` — the service has
    noticed by the time the event returns: nothing is open, the failure counts, the retry is scheduled after
    `policy(consecutive failures)`, and a `whenConnected` issued now waits for the NEXT connection instead of being
    answered with the dead one. -/
theorem unsolicited_drop_schedules_retry_partial (pol : Nat → Nat) (h : List Ev) (e : Ev)
    (hf : HookFree (h ++ [e])) (hd : connectionDrops (run pol init h) e = true) :
    let s' := run pol init (h ++ [e])
    inProgress s' = 0
    ∧ consecutiveFailures pol init 0 (h ++ [e]) = consecutiveFailures pol init 0 h + 1
    ∧ s'.timer = some (pol (consecutiveFailures pol init 0 (h ++ [e])))
    ∧ ∀ k, (step pol s' (.when k)).1.waiters = s'.waiters ++ [(s'.nwait, k)]
          ∧ (step pol s' (.when k)).1.fired = s'.fired := by
  intro s'
  have hr := good_run pol init 0 h good_init rfl (hookFree_split hf).1
  have hr' := good_run pol init 0 (h ++ [e]) good_init rfl hf
  have hs := good_step_drops pol _ e hr.1 hd
  have hs' : s' = (step pol (run pol init h) e).1 := run_append pol init h e
  rw [← hs'] at hs
  obtain ⟨h1, h2, h3, h4⟩ := hs
  have hsucc : isSuccess (run pol init h) e = false := by
    cases e <;> simp_all [isSuccess, connectionDrops]
  refine ⟨by simp [inProgress, h3, h4], ?_, ?_, fun k => ?_⟩
  · rw [consecutiveFailures_append]; simp [failures, hd, hsucc]
  · rw [h2, ← hr'.2]
  · simp [step, mWhen, h1]

/-- Every loss of a connection (requested or not, any handler) leaves nothing open and every stopService Deferred
    fired — or, if the service was restarted meanwhile, fired and the new attempt under way. -/
theorem every_loss_completes_stop_partial (pol : Nat → Nat) (h : List Ev) (i : Nat) (acts : List Act) (r : Bool)
    (hf : HookFree h) (hi : i < (run pol init h).conns.length) :
    let s' := run pol init (h ++ [.dropH i acts r])
    s'.conns = [] ∧ s'.stopWaiters = [] ∧ ∀ j, j < s'.nstop → j ∈ s'.stopFired := by
  intro s'
  have hr := good_run pol init 0 h good_init rfl hf
  have hf' : HookFree (h ++ [.dropH i acts r]) := by
    intro x hx
    rcases List.mem_append.mp hx with hx | hx
    · exact hf x hx
    · rw [List.mem_singleton.mp hx]; rfl
  have hg' := (good_run pol init 0 _ good_init rfl hf').1
  have hs' : s' = (step pol (run pol init h) (.dropH i acts r)).1 := run_append pol init h _
  have hc : s'.conns = [] := hs' ▸ dropH_conns_nil pol _ i acts r hr.1 hi
  have hw : s'.stopWaiters = [] := by
    have hg'' : Good s' := hg'
    generalize s' = t at hc hg''
    rcases t with ⟨ms, running, cur, att, conns, nconn, timer, failed, waiters, nwait, fired, stopWaiters, nstop, stopFired⟩
    cases ms <;> simp_all [Good]
  refine ⟨hc, hw, fun j hj => ?_⟩
  have := (every_deferred_waiting_or_fired pol (h ++ [.dropH i acts r])).2.2.1 j
  rcases this.mp hj with hm | hm
  · have hm' : j ∈ s'.stopWaiters := hm
    rw [hw] at hm'; cases hm'
  · exact hm

/-! ### the unit of time -/

/-- ALL histories, any policy, any `k > 0`: with every duration (policy delays, clock advances) expressed in a unit `k`
    times finer, the service accepts / rejects exactly the same events and ends in the same state, its pending retry in
    the finer unit (`run_time_unit`, TwistedProps/C58/TimeUnit.lean).  The tie uses it with units of 1/2, 1/4, 1/8 s. -/
theorem time_unit_is_arbitrary (k : Nat) (hk : 0 < k) (pol : Nat → Nat) (h : List Ev) :
    run (fun n => k * pol n) init (h.map (scaleEv k)) = scaleSt k (run pol init h)
    ∧ (exec (fun n => k * pol n) init (h.map (scaleEv k))).map (·.2) = (exec pol init h).map (·.2) :=
  run_time_unit k hk pol init h

-- non-vacuity: in quarter units the retry after two failures is 4 * policy(2) away and comes exactly then
example : (run (fun n => 4 * (n + 1)) init ([Ev.start, .cfail, .adv 2, .cfail].map (scaleEv 4))).timer = some 12
    ∧ (run (fun n => 4 * (n + 1)) init ([Ev.start, .cfail, .adv 2, .cfail, .adv 2, .adv 1].map (scaleEv 4))).ms = .connecting := by decide

/-! ### consumers that restart the service from a callback of a stopService / whenConnected Deferred -/

/-- no event of the history involves a hook that raises or returns a Deferred -/
def HookFreeC (h : List EvC) : Prop := ∀ e ∈ h, hookFree e.ev = true

instance (h : List EvC) : Decidable (HookFreeC h) := by unfold HookFreeC; infer_instance

/-- ALL histories, any flags, any state: a history whose consumers call `startService()` when their Deferred fires
    (a re-entrant start, postponed by automat) is the plain history with those starts written out as `start` events /
    `startService` calls of the `connectionLost` handler; hook-freeness is preserved.  Every theorem above therefore
    holds for such histories — the next four are the instances used by the oracle. -/
theorem consumer_restart_is_a_start_event (pol : Nat → Nat) (fl : Flags) (s : St) (h : List EvC) :
    runC pol fl s h = run pol s (expand pol fl s h) ∧ (HookFreeC h → HookFree (expand pol fl s h)) :=
  ⟨runC_eq_run_expand pol fl s h, hookFree_expand pol fl s h⟩

theorem good_runC (pol : Nat → Nat) (fl : Flags) (h : List EvC) (hf : HookFreeC h) : Good (runC pol fl init h) := by
  rw [runC_eq_run_expand]
  exact (good_run pol init 0 _ good_init rfl (hookFree_expand pol fl init h hf)).1

theorem no_rejected_event_restarting_consumers_partial (pol : Nat → Nat) (fl fl' : Flags) (h : List EvC) (e : Ev)
    (hf : HookFreeC h) (he : hookFree e = true) : (stepC pol fl' (runC pol fl init h) e).2 ≠ .rejected := by
  obtain ⟨e', _, _, h2, h3⟩ := stepC_outcome pol fl' (runC pol fl init h) e
  rw [h3]
  exact (good_step pol _ e' (good_runC pol fl h hf) (h2 ▸ he)).2.1

theorem at_most_one_connection_or_attempt_restarting_consumers_partial (pol : Nat → Nat) (fl : Flags) (h : List EvC)
    (hf : HookFreeC h) : inProgress (runC pol fl init h) ≤ 1 := by
  rw [runC_eq_run_expand]
  exact at_most_one_connection_or_attempt_partial pol _ (hookFree_expand pol fl init h hf)

theorem started_service_is_never_idle_restarting_consumers_partial (pol : Nat → Nat) (fl : Flags) (h : List EvC)
    (hf : HookFreeC h) : (runC pol fl init h).running = true →
      inProgress (runC pol fl init h) + (if (runC pol fl init h).timer.isSome then 1 else 0) = 1 := by
  rw [runC_eq_run_expand]
  exact started_service_is_never_idle_partial pol _ (hookFree_expand pol fl init h hf)

theorem stopService_fires_once_closed_restarting_consumers_partial (pol : Nat → Nat) (fl : Flags) (h : List EvC)
    (hf : HookFreeC h) : (runC pol fl init h).conns = [] → (runC pol fl init h).stopWaiters = [] := by
  rw [runC_eq_run_expand]
  exact stopService_fires_once_closed_partial pol _ (hookFree_expand pol fl init h hf)

-- non-vacuity: `stopService().addCallback(lambda _: svc.startService())` while waiting to retry restarts at once;
-- a whenConnected consumer that restarts on CancelledError does so when the closing connection is finally lost
example : (runC id ⟨[], []⟩ init [⟨.start, false⟩, ⟨.cfail, false⟩, ⟨.stop, true⟩]).ms = .connecting
    ∧ (runC id ⟨[], []⟩ init [⟨.start, false⟩, ⟨.cfail, false⟩, ⟨.stop, true⟩]).stopFired = [0]
    ∧ expand id ⟨[], []⟩ init [⟨.start, false⟩, ⟨.cfail, false⟩, ⟨.stop, true⟩] = [.start, .cfail, .stop, .start] := by decide
example : expand id ⟨[], []⟩ init [⟨.start, false⟩, ⟨.csucc .plain, false⟩, ⟨.stop, false⟩, ⟨.when none, true⟩,
      ⟨.dropH 0 [.stop] true, false⟩]
    = [.start, .csucc .plain, .stop, .when none, .dropH 0 [.stop] true, .start] := by decide

/-! ### non-vacuity: a long hook-free history exercising every state, and the theorems' hypotheses on it -/

def demo : List Ev :=
  [.when (some 2), .start, .cfail, .adv 2, .cfail, .adv 5, .csucc .plain, .when none, .drop 0, .adv 1,
   .csucc .ok, .stop, .when none, .start, .stop, .drop 0, .when (some 1), .start, .stop]

example : HookFree demo := by decide
example : (run (fun n => 2 * n) init demo).ms = .stopped ∧ (run (fun n => 2 * n) init demo).nwait = 4
    ∧ (run (fun n => 2 * n) init demo).fired.map (·.1) = [0, 1, 2, 3]
    ∧ (run (fun n => 2 * n) init demo).stopFired = [0, 1, 2] := by decide
-- retry delay: after the second consecutive failure the retry is scheduled policy(2) = 4 away
example : (run (fun n => 2 * n) init [.start, .cfail, .adv 2]).timer = none
    ∧ (run (fun n => 2 * n) init [.start, .cfail, .adv 2, .cfail]).timer = some 4
    ∧ consecutiveFailures (fun n => 2 * n) init 0 [.start, .cfail, .adv 2, .cfail] = 2 := by decide
-- deadline 1 and 2 hypotheses are satisfiable with waiters present
example : isSuccess (run id init [.when none, .start]) (.csucc .plain) = true
    ∧ (run id init [.when none, .start]).waiters = [(0, none)] := by decide
example : attemptFails (run id init [.when (some 1), .when (some 2), .start]) .cfail = true
    ∧ (run id init [.when (some 1), .when (some 2), .start, .cfail]).waiters = [(1, some 1)]
    ∧ (run id init [.when (some 1), .when (some 2), .start, .cfail]).fired = [(0, .failed)] := by decide
-- stop Deferreds: pending while the connection is closing, fired by the drop
example : (run id init [.start, .csucc .plain, .stop]).stopWaiters = [0]
    ∧ (run id init [.start, .csucc .plain, .stop]).conns = [⟨0, true⟩]
    ∧ (run id init [.start, .csucc .plain, .stop, .drop 0]).stopFired = [0] := by decide

/-- a hook-free history through every kind of handler: raising on an unsolicited loss, re-entrant (whenConnected,
    stop + start = restart) on it, raising while the service is stopping -/
def demoH : List Ev :=
  [.start, .csucc .plain, .when none, .dropH 0 [] true, .when (some 2), .adv 1, .adv 1, .csucc .plain,
   .dropH 0 [.when none, .stop, .start] true, .cfail, .adv 9, .csucc .plain, .stop, .when none, .dropH 0 [.start, .stop] true]

example : HookFree demoH := by decide
example : (run (fun n => 2 * n) init demoH).ms = .stopped
    ∧ (run (fun n => 2 * n) init demoH).fired = [(0, .conn 0), (1, .conn 1), (2, .conn 1), (3, .cancelled)]
    ∧ (run (fun n => 2 * n) init demoH).stopFired = [0, 1, 2] := by decide
-- the handler raises while an established connection drops: hypothesis of `unsolicited_drop_schedules_retry_partial`
-- holds, the retry is policy(1) away, the next whenConnected waits, the caller sees the handler's exception
example : connectionDrops (run (fun n => 2 * n) init [.start, .csucc .plain]) (.dropH 0 [] true) = true
    ∧ (run (fun n => 2 * n) init [.start, .csucc .plain, .dropH 0 [] true]).timer = some 2
    ∧ (step (fun n => 2 * n) (run (fun n => 2 * n) init [.start, .csucc .plain]) (.dropH 0 [] true)).2 = .raised
    ∧ (run (fun n => 2 * n) init [.start, .csucc .plain, .dropH 0 [] true, .when none]).waiters = [(0, none)] := by decide
-- a handler that re-enters without stopping: still a failure; one that stops the service: not a failure, all stop Deferreds fire
example : connectionDrops (run id init [.start, .csucc .plain]) (.dropH 0 [.when none, .start] true) = true
    ∧ connectionDrops (run id init [.start, .csucc .plain]) (.dropH 0 [.stop] true) = false
    ∧ (run id init [.start, .csucc .plain, .dropH 0 [.stop, .stop] true]).stopFired = [0, 1]
    ∧ (run id init [.start, .csucc .plain, .dropH 0 [.stop, .stop] true]).ms = .stopped := by decide
-- `every_loss_completes_stop_partial`: hypothesis satisfiable with stop Deferreds pending
example : 0 < (run id init [.start, .csucc .plain, .stop, .stop]).conns.length
    ∧ (run id init [.start, .csucc .plain, .stop, .stop]).stopWaiters = [0, 1]
    ∧ (run id init [.start, .csucc .plain, .stop, .stop, .dropH 0 [.stop] true]).stopFired = [0, 1, 2] := by decide
-- `started_service_is_never_idle_partial` is about something: running with a retry pending / with a connection
example : (run id init [.start, .csucc .plain, .dropH 0 [] true]).running = true
    ∧ (run id init [.start, .csucc .plain, .dropH 0 [] true]).timer = some 1 := by decide

end TwistedProps.C58
