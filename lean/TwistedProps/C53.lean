import TwistedProps.C53.Shift
/-!
C53 — rotating log files lose and reorder nothing.

For any sequence of text and byte writes to a size-rotated log file with any rotation length, optional
retention count and reopenings, the retained rotated files (oldest first) followed by the current file
hold exactly a suffix of everything written, with nothing lost, duplicated or reordered inside that
suffix, every rotated file was at least the rotation length when rotated, and with a retention count
exactly the newest rotated files are kept.  A crash during rotation never reorders retained data and,
without a retention count, loses none.

Vocabulary (`TwistedProps/C53/Shift.lean`): `retained fs` = contents of the rotated files in descending
index order (oldest first) followed by the current file; `op_crash` = the statement for one operation at
every cut `(k, p)` of its primitive trace.  Model: `TwistedModel/Fs/LogFile.lean` (files are numbered:
`0` = current, `i` = `path.i`; the decimal naming is glue, see there).  `WellCounted`: the counted length of
a write (characters for text) is at most the number of bytes written.
-/
namespace TwistedProps.C53
open Twisted.Fs Twisted.Fs.LogFile

/-- one completed operation of a live `LogFile`: `(size, directory)` ↦ `(size', directory')` -/
def stepOp (cfg : Cfg) (st : Nat × Fs) (op : Op) : Nat × Fs :=
  ((opTrace cfg st.1 st.2 op).2, run (opTrace cfg st.1 st.2 op).1 st.2)

def runOps (cfg : Cfg) (st : Nat × Fs) (ops : List Op) : Nat × Fs := ops.foldl (stepOp cfg) st

/-- everything written, in order -/
def written (ops : List Op) : Bytes := ops.flatMap dataOf

/-- `len()` of a `str` never exceeds the length of its UTF-8 encoding; for `bytes` they are equal -/
def WellCounted : Op → Prop
  | .write d n => n ≤ d.length
  | .reopen => True

/-- a live `LogFile`: the current file exists and the counted `size` does not exceed its real size -/
def Live (st : Nat × Fs) : Prop := exists_ st.2 (rot 0) = true ∧ st.1 ≤ (content st.2 0).length

/-- `LogFile(name, directory, …)` on any directory: `_openFile` -/
def openLog (fs : Fs) : Nat × Fs := ((openFile fs).2, run (openFile fs).1 fs)

theorem live_openLog (fs : Fs) : Live (openLog fs) := by
  unfold openLog openFile Live
  cases h : get fs (rot 0) with
  | none => simp [exists_, content, get_apply_create]
  | some c => simp [exists_, content, h]

theorem step_complete (cfg : Cfg) (st : Nat × Fs) (op : Op) (hl : Live st) :
    let S := (stepOp cfg st op).2
    (∃ R, R <:+ retained st.2 ∧ (cfg.maxRot = none → R = retained st.2) ∧ retained S = R ++ dataOf op) ∧
    get S (rot 0) = some (if rotates cfg st.1 op then dataOf op else content st.2 0 ++ dataOf op) ∧
    (∀ i, get S (rot (i + 1)) =
      if rotates cfg st.1 op then (if i = 0 then get st.2 (rot 0) else keepGet cfg.maxRot st.2 i)
      else get st.2 (rot (i + 1))) := by
  intro S
  obtain ⟨R, q, r1, r2, _, r4, r5⟩ := op_crash cfg st.1 st.2 op ((opTrace cfg st.1 st.2 op).1.length) 0 hl.1
  simp only [crashAt_ge _ _ _ _ (Nat.le_refl _)] at r4 r5
  obtain ⟨a1, a2, a3⟩ := r4 (Nat.le_refl _)
  exact ⟨⟨R, r1, r2, by rw [← a1]; exact r5⟩, a2, a3⟩

theorem live_step (cfg : Cfg) (st : Nat × Fs) (op : Op) (hl : Live st) (hw : WellCounted op) :
    Live (stepOp cfg st op) := by
  obtain ⟨_, h0, _⟩ := step_complete cfg st op hl
  refine ⟨by simp [exists_, h0], ?_⟩
  show (opTrace cfg st.1 st.2 op).2 ≤ (content (stepOp cfg st op).2 0).length
  simp only [content, h0, Option.getD_some]
  obtain ⟨c0, hc0⟩ : ∃ c, get st.2 (rot 0) = some c := by
    have := hl.1; simp only [exists_] at this
    cases h : get st.2 (rot 0) with
    | none => simp [h] at this
    | some c => exact ⟨c, rfl⟩
  have hsz : st.1 ≤ c0.length := by have := hl.2; simpa [content, hc0] using this
  cases op with
  | reopen => simp [opTrace, openFile, hc0, rotates, dataOf, content]
  | write d n =>
    have hn : n ≤ d.length := hw
    by_cases hrot : cfg.rotateLength ≠ 0 ∧ cfg.rotateLength ≤ st.1
    · simp only [opTrace]; rw [if_pos hrot]; simp [rotates, hrot, dataOf]; exact hn
    · simp only [opTrace]; rw [if_neg hrot]; simp [rotates, hrot, dataOf, content, hc0]; omega

/-- **C53, histories.**  For any sequence of writes (text or bytes) and reopenings of a live `LogFile`
    with any rotation length and retention count: the retained data (rotated files oldest first, then the
    current file) is a suffix of what was retained at the start followed by everything written — nothing
    lost, duplicated or reordered inside it — and without a retention count it is all of it. -/
theorem retained_is_suffix_of_written (cfg : Cfg) (st : Nat × Fs) (ops : List Op) (hl : Live st)
    (hw : ∀ op ∈ ops, WellCounted op) :
    retained (runOps cfg st ops).2 <:+ retained st.2 ++ written ops ∧
    (cfg.maxRot = none → retained (runOps cfg st ops).2 = retained st.2 ++ written ops) ∧
    Live (runOps cfg st ops) := by
  induction ops generalizing st with
  | nil => simp [runOps, written, hl]
  | cons op rest ih =>
    obtain ⟨⟨R, r1, r2, r3⟩, _, _⟩ := step_complete cfg st op hl
    have hl' := live_step cfg st op hl (hw op (by simp))
    obtain ⟨i1, i2, i3⟩ := ih (stepOp cfg st op) hl' (fun o ho => hw o (by simp [ho]))
    have hw' : written (op :: rest) = dataOf op ++ written rest := by simp [written]
    refine ⟨?_, ?_, i3⟩
    · show retained (runOps cfg (stepOp cfg st op) rest).2 <:+ _
      rw [hw', ← List.append_assoc]
      refine i1.trans ?_
      rw [r3]
      exact suffix_append_right _ (suffix_append_right _ r1)
    · intro hn
      show retained (runOps cfg (stepOp cfg st op) rest).2 = _
      rw [i2 hn, r3, r2 hn, hw', List.append_assoc]

/-- from an empty directory: the retained data is a suffix of everything written -/
theorem fresh_retained_is_suffix_of_written (cfg : Cfg) (ops : List Op) (hw : ∀ op ∈ ops, WellCounted op) :
    retained (runOps cfg (openLog []) ops).2 <:+ written ops ∧
    (cfg.maxRot = none → retained (runOps cfg (openLog []) ops).2 = written ops) := by
  obtain ⟨h1, h2, _⟩ := retained_is_suffix_of_written cfg (openLog []) ops (live_openLog []) hw
  have : retained (openLog []).2 = [] := by decide
  rw [this] at h1 h2
  exact ⟨by simpa using h1, fun hn => by simpa using h2 hn⟩

/-- **C53, crash.**  After any history, an operation killed at any cut `(k, p)` — inside `rotate()`: after
    any number of its renames/removes, between the rename of the current file and the creation of the new
    one, or in the middle of the write: the retained data is still a suffix of (start ++ everything
    written ++ a prefix of the interrupted write), in order; without a retention count it is all of it. -/
theorem crash_never_reorders (cfg : Cfg) (st : Nat × Fs) (ops : List Op) (op : Op) (k p : Nat) (hl : Live st)
    (hw : ∀ o ∈ ops, WellCounted o) :
    let stn := runOps cfg st ops
    let S := crashAt (opTrace cfg stn.1 stn.2 op).1 k p stn.2
    ∃ q, q <+: dataOf op ∧ retained S <:+ retained st.2 ++ written ops ++ q ∧
      (cfg.maxRot = none → retained S = retained st.2 ++ written ops ++ q) := by
  intro stn S
  obtain ⟨h1, h2, h3⟩ := retained_is_suffix_of_written cfg st ops hl hw
  obtain ⟨R, q, r1, r2, r3, _, r5⟩ := op_crash cfg stn.1 stn.2 op k p h3.1
  refine ⟨q, r3, ?_, fun hn => ?_⟩
  · show retained S <:+ _
    rw [r5]; exact suffix_append_right _ (r1.trans h1)
  · show retained S = _
    rw [r5, r2 hn, h2 hn]

/-- every rotated file holds at least `rotateLength` bytes -/
def AllLong (cfg : Cfg) (fs : Fs) : Prop :=
  ∀ i c, get fs (rot (i + 1)) = some c → cfg.rotateLength ≤ c.length

theorem allLong_step (cfg : Cfg) (st : Nat × Fs) (op : Op) (hl : Live st) (ha : AllLong cfg st.2) :
    AllLong cfg (stepOp cfg st op).2 := by
  obtain ⟨_, _, h2⟩ := step_complete cfg st op hl
  intro i c hc
  rw [h2 i] at hc
  cases hr : rotates cfg st.1 op with
  | false => rw [hr] at hc; exact ha i c (by simpa using hc)
  | true =>
    rw [hr] at hc
    simp only [if_true] at hc
    by_cases hi : i = 0
    · -- the file that has just been rotated: it was the current file, at least `size ≥ rotateLength` long
      simp only [hi, if_true] at hc
      have hsz := hl.2
      simp only [content, hc, Option.getD_some] at hsz
      cases op with
      | reopen => simp [rotates] at hr
      | write d n =>
        simp only [rotates, decide_eq_true_eq] at hr
        omega
    · simp only [hi, if_false] at hc
      obtain ⟨j, rfl⟩ : ∃ j, i = j + 1 := ⟨i - 1, by omega⟩
      apply ha j c
      unfold keepGet at hc
      cases hm : cfg.maxRot with
      | none => simpa [hm] using hc
      | some n =>
        rw [hm] at hc
        by_cases hn : n ≤ j + 1
        · simp [hn] at hc
        · simpa [hn] using hc

/-- **C53, rotation length.**  `write()` rotates only when the counted size has reached `rotateLength`, and
    the counted size never exceeds the real size (text is counted before UTF-8 encoding — the inequality
    goes the safe way): every rotated file was at least `rotateLength` bytes long when it was rotated, and
    stays so. -/
theorem rotated_file_at_least_rotateLength (cfg : Cfg) (st : Nat × Fs) (ops : List Op) (hl : Live st)
    (ha : AllLong cfg st.2) (hw : ∀ op ∈ ops, WellCounted op) : AllLong cfg (runOps cfg st ops).2 := by
  induction ops generalizing st with
  | nil => exact ha
  | cons op rest ih =>
    exact ih (stepOp cfg st op) (live_step cfg st op hl (hw op (by simp))) (allLong_step cfg st op hl ha)
      (fun o ho => hw o (by simp [ho]))

/-- exactly the rotated files `1 … m` exist -/
def Contig (m : Nat) (fs : Fs) : Prop := ∀ i, exists_ fs (rot (i + 1)) = true ↔ i + 1 ≤ m

/-- number of rotations a history performs -/
def rotCount (cfg : Cfg) : Nat × Fs → List Op → Nat
  | _, [] => 0
  | st, op :: rest => (if rotates cfg st.1 op then 1 else 0) + rotCount cfg (stepOp cfg st op) rest

theorem contig_step (cfg : Cfg) (N : Nat) (hN : cfg.maxRot = some N) (h1 : 1 ≤ N) (st : Nat × Fs) (op : Op)
    (hl : Live st) (m : Nat) (hc : Contig m st.2) :
    Contig (min (m + (if rotates cfg st.1 op then 1 else 0)) (if rotates cfg st.1 op then N else m))
      (stepOp cfg st op).2 := by
  obtain ⟨_, _, h2⟩ := step_complete cfg st op hl
  intro i
  simp only [exists_, h2 i]
  cases hr : rotates cfg st.1 op with
  | false =>
    have := hc i
    simp only [exists_] at this
    simp only [Bool.false_eq_true, if_false, Nat.add_zero, Nat.min_self]
    exact this
  | true =>
    simp only [if_true]
    by_cases hi : i = 0
    · subst hi
      have := hl.1
      simp only [exists_] at this
      simp only [if_true, this, true_iff]
      omega
    · simp only [hi, if_false]
      obtain ⟨j, rfl⟩ : ∃ j, i = j + 1 := ⟨i - 1, by omega⟩
      have hj := hc j
      simp only [exists_] at hj
      unfold keepGet
      rw [hN]
      by_cases hn : N ≤ j + 1
      · simp only [hn, if_true, Option.isSome_none, Bool.false_eq_true, false_iff]; omega
      · simp only [hn, if_false, hj]; omega

/-- **C53, retention.**  With a retention count `N ≥ 1`, starting from a directory with no rotated files,
    after any history exactly the rotated files `1 … min(rotations, N)` exist: the newest `N` (or all, if
    fewer rotations happened) — which, with `retained_is_suffix_of_written`, hold the newest data. -/
theorem retention_keeps_newest_N (cfg : Cfg) (N : Nat) (hN : cfg.maxRot = some N) (h1 : 1 ≤ N)
    (st : Nat × Fs) (ops : List Op) (hl : Live st) (m : Nat) (hm : m ≤ N) (hc : Contig m st.2)
    (hw : ∀ op ∈ ops, WellCounted op) :
    Contig (min (m + rotCount cfg st ops) N) (runOps cfg st ops).2 := by
  induction ops generalizing st m with
  | nil => simp only [rotCount, Nat.add_zero, runOps, List.foldl_nil]; rwa [Nat.min_eq_left hm]
  | cons op rest ih =>
    have hs := contig_step cfg N hN h1 st op hl m hc
    have hl' := live_step cfg st op hl (hw op (by simp))
    cases hr : rotates cfg st.1 op with
    | false =>
      rw [hr] at hs
      simp only [Bool.false_eq_true, if_false, Nat.add_zero, Nat.min_self] at hs
      have := ih (stepOp cfg st op) hl' m hm hs (fun o ho => hw o (by simp [ho]))
      simpa [rotCount, hr, runOps] using this
    | true =>
      rw [hr] at hs
      simp only [if_true] at hs
      have := ih (stepOp cfg st op) hl' (min (m + 1) N) (Nat.min_le_right _ _) hs (fun o ho => hw o (by simp [ho]))
      have e : min (min (m + 1) N + rotCount cfg (stepOp cfg st op) rest) N =
          min (m + (1 + rotCount cfg (stepOp cfg st op) rest)) N := by omega
      rw [e] at this
      simpa [rotCount, hr, runOps] using this

/-- a retention count of 0 behaves like 1: the file just rotated is always kept
    (`maxRotatedFiles=0` is outside the property's domain; recorded here because the proof of
    `retention_keeps_newest_N` needs `1 ≤ N`) -/
theorem retention_zero_keeps_one (cfg : Cfg) (h0 : cfg.maxRot = some 0) (st : Nat × Fs) (d : Bytes) (n : Nat)
    (hl : Live st) (hr : rotates cfg st.1 (.write d n) = true) :
    exists_ (stepOp cfg st (.write d n)).2 (rot 1) = true := by
  obtain ⟨_, _, h2⟩ := step_complete cfg st (.write d n) hl
  have := h2 0
  rw [hr] at this
  simp only [if_true] at this
  simp only [exists_, this]
  exact hl.1

/-! ### non-vacuity -/

/-- rotateLength 2, no retention: "ab", "cd", "e" → `path.2`="ab", `path.1`="cd", current "e": all of it -/
example :
    let cfg : Cfg := { rotateLength := 2, maxRot := none }
    let fin := runOps cfg (openLog []) [.write [97, 98] 2, .write [99, 100] 2, .write [101] 1]
    retained fin.2 = [97, 98, 99, 100, 101] ∧ get fin.2 (rot 2) = some [97, 98] ∧ get fin.2 (rot 1) = some [99, 100] ∧
      rotCount cfg (openLog []) [.write [97, 98] 2, .write [99, 100] 2, .write [101] 1] = 2 := by decide

/-- the same with `maxRotatedFiles = 1`: only the newest rotated file survives — a proper suffix -/
example :
    let cfg : Cfg := { rotateLength := 2, maxRot := some 1 }
    let fin := runOps cfg (openLog []) [.write [97, 98] 2, .write [99, 100] 2, .write [101] 1]
    retained fin.2 = [99, 100, 101] ∧ get fin.2 (rot 2) = none := by decide

/-- killed inside `rotate()` after `path.1 → path.2`, before `path → path.1`: a gap at index 1, order intact -/
example :
    let cfg : Cfg := { rotateLength := 2, maxRot := none }
    let st := runOps cfg (openLog []) [.write [97, 98] 2, .write [99, 100] 2]
    let S := crashAt (opTrace cfg st.1 st.2 (.write [101] 1)).1 1 0 st.2
    get S (rot 1) = none ∧ get S (rot 2) = some [97, 98] ∧ retained S = [97, 98, 99, 100] := by decide

/-- multi-byte text: "é" is counted as 1 but written as 2 bytes — the file rotates later, never earlier -/
example : WellCounted (.write [195, 169] 1) := by simp [WellCounted]

/-! ### the enlarged history language: writes refused by the encoder, write permission taken away and given back

`XOp` (`TwistedModel/Fs/LogFile.lean`): `.op` — the operations above; `.fail` — a `write(text)` whose text has no
UTF-8 encoding (`rotate()` may have run, nothing is written); `.perm b` — the directory or the file becomes
read-only (`b = true`) or writable again: while it is read-only `rotate()` returns at once.  Every theorem above
is re-stated over these histories. -/

/-- the retained data depends on the contents of the files only (not on the order of the directory) -/
theorem retained_congr {a b : Fs} (h : ∀ n, get a n = get b n) : retained a = retained b := by
  have ha : Bounded (max (maxIdx a) (maxIdx b)) a := fun j hj => bounded_maxIdx a j (by omega)
  have hb : Bounded (max (maxIdx a) (maxIdx b)) b := fun j hj => bounded_maxIdx b j (by omega)
  have hc : content a = content b := by funext i; simp [content, h]
  rw [retained_eq ha, retained_eq hb]
  simp only [retainedUpTo, hc]

/-- writing nothing changes no file -/
theorem get_apply_write_nil (fs : Fs) (n m : Name) : get (Prim.apply fs (.write n [])) m = get fs m := by
  rw [get_apply_write]
  by_cases h : m = n
  · subst h; cases get fs m <;> simp
  · simp [h]

/-- **a refused write is a write of nothing, minus the (empty) write itself**: same rotation, same `size` -/
theorem failTrace_eq (cfg : Cfg) (size : Nat) (fs : Fs) :
    (failTrace cfg size fs).1 ++ [.write (rot 0) []] = (opTrace cfg size fs (.write [] 0)).1 ∧
    (failTrace cfg size fs).2 = (opTrace cfg size fs (.write [] 0)).2 := by
  unfold failTrace opTrace
  by_cases h : cfg.rotateLength ≠ 0 ∧ cfg.rotateLength ≤ size
  · simp [h]
  · simp [h]

/-- … and it leaves every file as that write of nothing does -/
theorem failTrace_files (cfg : Cfg) (size : Nat) (fs : Fs) (n : Name) :
    get (run (failTrace cfg size fs).1 fs) n = get (stepOp cfg (size, fs) (.write [] 0)).2 n := by
  unfold stepOp
  rw [← (failTrace_eq cfg size fs).1, run_append]
  simp only [run_cons, run_nil]
  rw [get_apply_write_nil]

def xdataOf : XOp → Bytes
  | .op o => dataOf o
  | .fail => []
  | .perm _ => []

/-- everything written by an enlarged history, in order -/
def xwritten (xs : List XOp) : Bytes := xs.flatMap xdataOf

def XWellCounted : XOp → Prop
  | .op o => WellCounted o
  | .fail => True
  | .perm _ => True

/-- state of a live `LogFile` in the enlarged language: `(size, readOnly, directory)` -/
def xstep (cfg : Cfg) (st : Nat × Bool × Fs) (x : XOp) : Nat × Bool × Fs :=
  ((xopTrace cfg st.1 st.2.1 st.2.2 x).2.1, (xopTrace cfg st.1 st.2.1 st.2.2 x).2.2,
    run (xopTrace cfg st.1 st.2.1 st.2.2 x).1 st.2.2)

def xrunOps (cfg : Cfg) (st : Nat × Bool × Fs) (xs : List XOp) : Nat × Bool × Fs := xs.foldl (xstep cfg) st

/-- the configuration an operation runs under -/
def effCfg (cfg : Cfg) (ro : Bool) : Cfg := if ro then noRotate cfg else cfg

theorem effCfg_maxRot (cfg : Cfg) (ro : Bool) : (effCfg cfg ro).maxRot = cfg.maxRot := by
  cases ro <;> rfl

/-- one step of the enlarged language: the retained data is a suffix `R` of what was retained (all of it without
    a retention count) followed by the data of the step; the log stays live; rotated files stay long enough -/
theorem xstep_ok (cfg : Cfg) (st : Nat × Bool × Fs) (x : XOp) (hl : Live (st.1, st.2.2)) (hw : XWellCounted x) :
    (∃ R, R <:+ retained st.2.2 ∧ (cfg.maxRot = none → R = retained st.2.2) ∧
      retained (xstep cfg st x).2.2 = R ++ xdataOf x) ∧
    Live ((xstep cfg st x).1, (xstep cfg st x).2.2) ∧
    (AllLong cfg st.2.2 → AllLong cfg (xstep cfg st x).2.2) := by
  obtain ⟨size, ro, fs⟩ := st
  cases x with
  | perm b =>
    refine ⟨⟨retained fs, List.suffix_refl _, fun _ => rfl, ?_⟩, ?_, fun h => ?_⟩
    · simp [xstep, xopTrace, xdataOf]
    · simpa [xstep, xopTrace] using hl
    · simpa [xstep, xopTrace] using h
  | op o =>
    have hs : (xstep cfg (size, ro, fs) (.op o)).2.2 = (stepOp (effCfg cfg ro) (size, fs) o).2 := by
      simp [xstep, xopTrace, stepOp, effCfg]
    have hs1 : (xstep cfg (size, ro, fs) (.op o)).1 = (stepOp (effCfg cfg ro) (size, fs) o).1 := by
      simp [xstep, xopTrace, stepOp, effCfg]
    obtain ⟨⟨R, r1, r2, r3⟩, _, _⟩ := step_complete (effCfg cfg ro) (size, fs) o hl
    refine ⟨⟨R, r1, fun hn => r2 (by rw [effCfg_maxRot]; exact hn), ?_⟩, ?_, fun h => ?_⟩
    · rw [hs]; exact r3
    · have := live_step (effCfg cfg ro) (size, fs) o hl hw
      rw [hs, hs1]; exact this
    · rw [hs]
      cases ro with
      | false => exact allLong_step cfg (size, fs) o hl h
      | true =>
        -- no rotation: the rotated files are untouched
        obtain ⟨_, _, h2⟩ := step_complete (noRotate cfg) (size, fs) o hl
        intro i c hc
        have hr : rotates (noRotate cfg) size o = false := by cases o <;> simp [rotates, noRotate]
        have := h2 i
        simp only [hr, Bool.false_eq_true, if_false] at this
        exact h i c (by rw [← this]; exact hc)
  | fail =>
    have hg : ∀ n, get (xstep cfg (size, ro, fs) .fail).2.2 n =
        get (stepOp (effCfg cfg ro) (size, fs) (.write [] 0)).2 n := by
      intro n
      have := failTrace_files (effCfg cfg ro) size fs n
      simpa [xstep, xopTrace, effCfg] using this
    have hs1 : (xstep cfg (size, ro, fs) .fail).1 = (stepOp (effCfg cfg ro) (size, fs) (.write [] 0)).1 := by
      have := (failTrace_eq (effCfg cfg ro) size fs).2
      simpa [xstep, xopTrace, stepOp, effCfg] using this
    obtain ⟨⟨R, r1, r2, r3⟩, _, _⟩ := step_complete (effCfg cfg ro) (size, fs) (.write [] 0) hl
    have hlive := live_step (effCfg cfg ro) (size, fs) (.write [] 0) hl (by simp [WellCounted])
    refine ⟨⟨R, r1, fun hn => r2 (by rw [effCfg_maxRot]; exact hn), ?_⟩, ?_, fun h => ?_⟩
    · rw [retained_congr hg, r3]; simp [xdataOf, dataOf]
    · refine ⟨?_, ?_⟩
      · show exists_ _ (rot 0) = true
        simp only [exists_, hg]; exact hlive.1
      · show _ ≤ (content _ 0).length
        simp only [content, hg, hs1]; exact hlive.2
    · intro i c hc
      rw [hg] at hc
      cases ro with
      | false => exact allLong_step cfg (size, fs) (.write [] 0) hl h i c hc
      | true =>
        obtain ⟨_, _, h2⟩ := step_complete (noRotate cfg) (size, fs) (.write [] 0) hl
        have hr : rotates (noRotate cfg) size (.write [] 0) = false := by simp [rotates, noRotate]
        have := h2 i
        simp only [hr, Bool.false_eq_true, if_false] at this
        exact h i c (by rw [← this]; exact hc)

/-- **C53, histories, enlarged.**  `retained_is_suffix_of_written` and `rotated_file_at_least_rotateLength` for
    histories in which writes may be refused by the encoder and the write permission comes and goes. -/
theorem x_retained_is_suffix_of_written (cfg : Cfg) (st : Nat × Bool × Fs) (xs : List XOp)
    (hl : Live (st.1, st.2.2)) (hw : ∀ x ∈ xs, XWellCounted x) :
    retained (xrunOps cfg st xs).2.2 <:+ retained st.2.2 ++ xwritten xs ∧
    (cfg.maxRot = none → retained (xrunOps cfg st xs).2.2 = retained st.2.2 ++ xwritten xs) ∧
    Live ((xrunOps cfg st xs).1, (xrunOps cfg st xs).2.2) ∧
    (AllLong cfg st.2.2 → AllLong cfg (xrunOps cfg st xs).2.2) := by
  induction xs generalizing st with
  | nil => simp [xrunOps, xwritten, hl]
  | cons x rest ih =>
    obtain ⟨⟨R, r1, r2, r3⟩, hl', ha'⟩ := xstep_ok cfg st x hl (hw x (by simp))
    obtain ⟨i1, i2, i3, i4⟩ := ih (xstep cfg st x) hl' (fun o ho => hw o (by simp [ho]))
    have hw' : xwritten (x :: rest) = xdataOf x ++ xwritten rest := by simp [xwritten]
    refine ⟨?_, ?_, i3, fun h => i4 (ha' h)⟩
    · show retained (xrunOps cfg (xstep cfg st x) rest).2.2 <:+ _
      rw [hw', ← List.append_assoc]
      refine i1.trans ?_
      rw [r3]
      exact suffix_append_right _ (suffix_append_right _ r1)
    · intro hn
      show retained (xrunOps cfg (xstep cfg st x) rest).2.2 = _
      rw [i2 hn, r3, r2 hn, hw', List.append_assoc]

theorem crashAt_append_lt (A B : List Prim) (k p : Nat) (fs : Fs) (h : k < A.length) :
    crashAt (A ++ B) k p fs = crashAt A k p fs := by
  simp only [crashAt, List.take_append_of_le_length (Nat.le_of_lt h), List.drop_append_of_le_length (Nat.le_of_lt h)]
  cases hd : A.drop k with
  | nil =>
    exfalso
    have := congrArg List.length hd
    simp at this
    omega
  | cons a t => cases a <;> simp

/-- **one step of the enlarged language, every crash point**: as `op_crash` -/
theorem xop_crash (cfg : Cfg) (size : Nat) (ro : Bool) (fs : Fs) (x : XOp) (k p : Nat)
    (hcur : exists_ fs (rot 0) = true) :
    ∃ R q, R <:+ retained fs ∧ (cfg.maxRot = none → R = retained fs) ∧ q <+: xdataOf x ∧
      retained (crashAt (xopTrace cfg size ro fs x).1 k p fs) = R ++ q := by
  cases x with
  | perm b =>
    exact ⟨retained fs, [], List.suffix_refl _, fun _ => rfl, List.nil_prefix, by simp [xopTrace, crashAt]⟩
  | op o =>
    obtain ⟨R, q, r1, r2, r3, _, r5⟩ := op_crash (effCfg cfg ro) size fs o k p hcur
    refine ⟨R, q, r1, fun hn => r2 (by rw [effCfg_maxRot]; exact hn), r3, ?_⟩
    have : (xopTrace cfg size ro fs (.op o)).1 = (opTrace (effCfg cfg ro) size fs o).1 := by
      simp [xopTrace, effCfg]
    rw [this]; exact r5
  | fail =>
    have ht : (xopTrace cfg size ro fs .fail).1 = (failTrace (effCfg cfg ro) size fs).1 := by
      simp [xopTrace, effCfg]
    rw [ht]
    by_cases hk : k < (failTrace (effCfg cfg ro) size fs).1.length
    · obtain ⟨R, q, r1, r2, r3, _, r5⟩ := op_crash (effCfg cfg ro) size fs (.write [] 0) k p hcur
      refine ⟨R, q, r1, fun hn => r2 (by rw [effCfg_maxRot]; exact hn), by simpa [xdataOf, dataOf] using r3, ?_⟩
      rw [← (failTrace_eq (effCfg cfg ro) size fs).1, crashAt_append_lt _ _ _ _ _ hk] at r5
      exact r5
    · obtain ⟨R, q, r1, r2, r3, _, r5⟩ := op_crash (effCfg cfg ro) size fs (.write [] 0)
        (opTrace (effCfg cfg ro) size fs (.write [] 0)).1.length 0 hcur
      refine ⟨R, q, r1, fun hn => r2 (by rw [effCfg_maxRot]; exact hn), by simpa [xdataOf, dataOf] using r3, ?_⟩
      rw [crashAt_ge _ _ _ _ (Nat.le_refl _)] at r5
      rw [crashAt_ge _ _ _ _ (Nat.le_of_not_lt hk), ← r5]
      exact retained_congr (fun n => failTrace_files (effCfg cfg ro) size fs n)

/-- **C53, crash, enlarged.**  After any enlarged history, a step killed at any cut of its primitive trace: the
    retained data is a suffix of (start ++ everything written ++ a prefix of the interrupted write), in order;
    all of it without a retention count. -/
theorem x_crash_never_reorders (cfg : Cfg) (st : Nat × Bool × Fs) (xs : List XOp) (x : XOp) (k p : Nat)
    (hl : Live (st.1, st.2.2)) (hw : ∀ o ∈ xs, XWellCounted o) :
    let stn := xrunOps cfg st xs
    let S := crashAt (xopTrace cfg stn.1 stn.2.1 stn.2.2 x).1 k p stn.2.2
    ∃ q, q <+: xdataOf x ∧ retained S <:+ retained st.2.2 ++ xwritten xs ++ q ∧
      (cfg.maxRot = none → retained S = retained st.2.2 ++ xwritten xs ++ q) := by
  intro stn S
  obtain ⟨h1, h2, h3, _⟩ := x_retained_is_suffix_of_written cfg st xs hl hw
  obtain ⟨R, q, r1, r2, r3, r5⟩ := xop_crash cfg stn.1 stn.2.1 stn.2.2 x k p h3.1
  refine ⟨q, r3, ?_, fun hn => ?_⟩
  · show retained S <:+ _
    rw [r5]; exact suffix_append_right _ (r1.trans h1)
  · show retained S = _
    rw [r5, r2 hn, h2 hn]

/-- a history of the basic language is a history of the enlarged one (nothing refused, always writable) -/
theorem xrunOps_op (cfg : Cfg) (st : Nat × Fs) (ops : List Op) :
    xrunOps cfg (st.1, false, st.2) (ops.map .op) =
      ((runOps cfg st ops).1, false, (runOps cfg st ops).2) := by
  induction ops generalizing st with
  | nil => rfl
  | cons o rest ih =>
    have : xstep cfg (st.1, false, st.2) (.op o) = ((stepOp cfg st o).1, false, (stepOp cfg st o).2) := by
      simp [xstep, xopTrace, stepOp]
    simp only [List.map_cons, xrunOps, List.foldl_cons, runOps] at ih ⊢
    rw [this]
    exact ih (stepOp cfg st o)

/-! non-vacuity: rotateLength 2; "ab", a refused text (rotates: "ab" → `path.1`), read-only, "cd", "ef" (no rotation
    although 4 ≥ 2), writable again, "g" (rotates: "cdef" → `path.1`, "ab" → `path.2`) -/
example :
    let cfg : Cfg := { rotateLength := 2, maxRot := none }
    let xs : List XOp := [.op (.write [97, 98] 2), .fail, .perm true, .op (.write [99, 100] 2), .op (.write [101, 102] 2),
      .perm false, .op (.write [103] 1)]
    let fin := xrunOps cfg ((openLog []).1, false, (openLog []).2) xs
    retained fin.2.2 = [97, 98, 99, 100, 101, 102, 103] ∧ get fin.2.2 (rot 2) = some [97, 98] ∧
      get fin.2.2 (rot 1) = some [99, 100, 101, 102] ∧ get fin.2.2 (rot 0) = some [103] ∧ get fin.2.2 (rot 3) = none := by decide

end TwistedProps.C53
