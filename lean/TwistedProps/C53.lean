import TwistedProps.C53.Shift
/-!
C53 — rotating log files lose and reorder nothing.

For any sequence of text and byte writes to a size-rotated log file with any rotation length, optional
retention count and reopenings, the retained rotated files (oldest first) followed by the current file
hold exactly a suffix of everything written, with nothing lost, duplicated or reordered inside that
suffix, every rotated file was at least the rotation length when rotated, and with a retention count
exactly the newest rotated files are kept.  A crash during rotation never reorders retained data and,
without a retention count, loses none.

Vocabulary (`TwistedProps/C53/Shift.lean`): `retained fs` = contents of the rotated files in descending
index order (oldest first) followed by the current file; `op_crash` = the statement for one operation at
every cut `(k, p)` of its primitive trace.  Model: `TwistedModel/Fs/LogFile.lean` (files are numbered:
`0` = current, `i` = `path.i`; the decimal naming is glue, see there).  `WellCounted`: the counted length of
a write (characters for text) is at most the number of bytes written.
-/
namespace TwistedProps.C53
open Twisted.Fs Twisted.Fs.LogFile

/-- one completed operation of a live `LogFile`: `(size, directory)` ↦ `(size', directory')` -/
def stepOp (cfg : Cfg) (st : Nat × Fs) (op : Op) : Nat × Fs :=
  ((opTrace cfg st.1 st.2 op).2, run (opTrace cfg st.1 st.2 op).1 st.2)

def runOps (cfg : Cfg) (st : Nat × Fs) (ops : List Op) : Nat × Fs := ops.foldl (stepOp cfg) st

/-- everything written, in order -/
def written (ops : List Op) : Bytes := ops.flatMap dataOf

/-- `len()` of a `str` never exceeds the length of its UTF-8 encoding; for `bytes` they are equal -/
def WellCounted : Op → Prop
  | .write d n => n ≤ d.length
  | .reopen => True

/-- a live `LogFile`: the current file exists and the counted `size` does not exceed its real size -/
def Live (st : Nat × Fs) : Prop := exists_ st.2 (rot 0) = true ∧ st.1 ≤ (content st.2 0).length

/-- `LogFile(name, directory, …)` on any directory: `_openFile` -/
def openLog (fs : Fs) : Nat × Fs := ((openFile fs).2, run (openFile fs).1 fs)

theorem live_openLog (fs : Fs) : Live (openLog fs) := by
  unfold openLog openFile Live
  cases h : get fs (rot 0) with
  | none => simp [exists_, content, get_apply_create]
  | some c => simp [exists_, content, h]

theorem step_complete (cfg : Cfg) (st : Nat × Fs) (op : Op) (hl : Live st) :
    let S := (stepOp cfg st op).2
    (∃ R, R <:+ retained st.2 ∧ (cfg.maxRot = none → R = retained st.2) ∧ retained S = R ++ dataOf op) ∧
    get S (rot 0) = some (if rotates cfg st.1 op then dataOf op else content st.2 0 ++ dataOf op) ∧
    (∀ i, get S (rot (i + 1)) =
      if rotates cfg st.1 op then (if i = 0 then get st.2 (rot 0) else keepGet cfg.maxRot st.2 i)
      else get st.2 (rot (i + 1))) := by
  intro S
  obtain ⟨R, q, r1, r2, _, r4, r5⟩ := op_crash cfg st.1 st.2 op ((opTrace cfg st.1 st.2 op).1.length) 0 hl.1
  simp only [crashAt_ge _ _ _ _ (Nat.le_refl _)] at r4 r5
  obtain ⟨a1, a2, a3⟩ := r4 (Nat.le_refl _)
  exact ⟨⟨R, r1, r2, by rw [← a1]; exact r5⟩, a2, a3⟩

theorem live_step (cfg : Cfg) (st : Nat × Fs) (op : Op) (hl : Live st) (hw : WellCounted op) :
    Live (stepOp cfg st op) := by
  obtain ⟨_, h0, _⟩ := step_complete cfg st op hl
  refine ⟨by simp [exists_, h0], ?_⟩
  show (opTrace cfg st.1 st.2 op).2 ≤ (content (stepOp cfg st op).2 0).length
  simp only [content, h0, Option.getD_some]
  obtain ⟨c0, hc0⟩ : ∃ c, get st.2 (rot 0) = some c := by
    have := hl.1; simp only [exists_] at this
    cases h : get st.2 (rot 0) with
    | none => simp [h] at this
    | some c => exact ⟨c, rfl⟩
  have hsz : st.1 ≤ c0.length := by have := hl.2; simpa [content, hc0] using this
  cases op with
  | reopen => simp [opTrace, openFile, hc0, rotates, dataOf, content]
  | write d n =>
    have hn : n ≤ d.length := hw
    by_cases hrot : cfg.rotateLength ≠ 0 ∧ cfg.rotateLength ≤ st.1
    · simp only [opTrace]; rw [if_pos hrot]; simp [rotates, hrot, dataOf]; exact hn
    · simp only [opTrace]; rw [if_neg hrot]; simp [rotates, hrot, dataOf, content, hc0]; omega

/-- **C53, histories.**  For any sequence of writes (text or bytes) and reopenings of a live `LogFile`
    with any rotation length and retention count: the retained data (rotated files oldest first, then the
    current file) is a suffix of what was retained at the start followed by everything written — nothing
    lost, duplicated or reordered inside it — and without a retention count it is all of it. -/
theorem retained_is_suffix_of_written (cfg : Cfg) (st : Nat × Fs) (ops : List Op) (hl : Live st)
    (hw : ∀ op ∈ ops, WellCounted op) :
    retained (runOps cfg st ops).2 <:+ retained st.2 ++ written ops ∧
    (cfg.maxRot = none → retained (runOps cfg st ops).2 = retained st.2 ++ written ops) ∧
    Live (runOps cfg st ops) := by
  induction ops generalizing st with
  | nil => simp [runOps, written, hl]
  | cons op rest ih =>
    obtain ⟨⟨R, r1, r2, r3⟩, _, _⟩ := step_complete cfg st op hl
    have hl' := live_step cfg st op hl (hw op (by simp))
    obtain ⟨i1, i2, i3⟩ := ih (stepOp cfg st op) hl' (fun o ho => hw o (by simp [ho]))
    have hw' : written (op :: rest) = dataOf op ++ written rest := by simp [written]
    refine ⟨?_, ?_, i3⟩
    · show retained (runOps cfg (stepOp cfg st op) rest).2 <:+ _
      rw [hw', ← List.append_assoc]
      refine i1.trans ?_
      rw [r3]
      exact suffix_append_right _ (suffix_append_right _ r1)
    · intro hn
      show retained (runOps cfg (stepOp cfg st op) rest).2 = _
      rw [i2 hn, r3, r2 hn, hw', List.append_assoc]

/-- from an empty directory: the retained data is a suffix of everything written -/
theorem fresh_retained_is_suffix_of_written (cfg : Cfg) (ops : List Op) (hw : ∀ op ∈ ops, WellCounted op) :
    retained (runOps cfg (openLog []) ops).2 <:+ written ops ∧
    (cfg.maxRot = none → retained (runOps cfg (openLog []) ops).2 = written ops) := by
  obtain ⟨h1, h2, _⟩ := retained_is_suffix_of_written cfg (openLog []) ops (live_openLog []) hw
  have : retained (openLog []).2 = [] := by decide
  rw [this] at h1 h2
  exact ⟨by simpa using h1, fun hn => by simpa using h2 hn⟩

/-- **C53, crash.**  After any history, an operation killed at any cut `(k, p)` — inside `rotate()`: after
    any number of its renames/removes, between the rename of the current file and the creation of the new
    one, or in the middle of the write: the retained data is still a suffix of (start ++ everything
    written ++ a prefix of the interrupted write), in order; without a retention count it is all of it. -/
theorem crash_never_reorders (cfg : Cfg) (st : Nat × Fs) (ops : List Op) (op : Op) (k p : Nat) (hl : Live st)
    (hw : ∀ o ∈ ops, WellCounted o) :
    let stn := runOps cfg st ops
    let S := crashAt (opTrace cfg stn.1 stn.2 op).1 k p stn.2
    ∃ q, q <+: dataOf op ∧ retained S <:+ retained st.2 ++ written ops ++ q ∧
      (cfg.maxRot = none → retained S = retained st.2 ++ written ops ++ q) := by
  intro stn S
  obtain ⟨h1, h2, h3⟩ := retained_is_suffix_of_written cfg st ops hl hw
  obtain ⟨R, q, r1, r2, r3, _, r5⟩ := op_crash cfg stn.1 stn.2 op k p h3.1
  refine ⟨q, r3, ?_, fun hn => ?_⟩
  · show retained S <:+ _
    rw [r5]; exact suffix_append_right _ (r1.trans h1)
  · show retained S = _
    rw [r5, r2 hn, h2 hn]

/-- every rotated file holds at least `rotateLength` bytes -/
def AllLong (cfg : Cfg) (fs : Fs) : Prop :=
  ∀ i c, get fs (rot (i + 1)) = some c → cfg.rotateLength ≤ c.length

theorem allLong_step (cfg : Cfg) (st : Nat × Fs) (op : Op) (hl : Live st) (ha : AllLong cfg st.2) :
    AllLong cfg (stepOp cfg st op).2 := by
  obtain ⟨_, _, h2⟩ := step_complete cfg st op hl
  intro i c hc
  rw [h2 i] at hc
  cases hr : rotates cfg st.1 op with
  | false => rw [hr] at hc; exact ha i c (by simpa using hc)
  | true =>
    rw [hr] at hc
    simp only [if_true] at hc
    by_cases hi : i = 0
    · -- the file that has just been rotated: it was the current file, at least `size ≥ rotateLength` long
      simp only [hi, if_true] at hc
      have hsz := hl.2
      simp only [content, hc, Option.getD_some] at hsz
      cases op with
      | reopen => simp [rotates] at hr
      | write d n =>
        simp only [rotates, decide_eq_true_eq] at hr
        omega
    · simp only [hi, if_false] at hc
      obtain ⟨j, rfl⟩ : ∃ j, i = j + 1 := ⟨i - 1, by omega⟩
      apply ha j c
      unfold keepGet at hc
      cases hm : cfg.maxRot with
      | none => simpa [hm] using hc
      | some n =>
        rw [hm] at hc
        by_cases hn : n ≤ j + 1
        · simp [hn] at hc
        · simpa [hn] using hc

/-- **C53, rotation length.**  `write()` rotates only when the counted size has reached `rotateLength`, and
    the counted size never exceeds the real size (text is counted before UTF-8 encoding — the inequality
    goes the safe way): every rotated file was at least `rotateLength` bytes long when it was rotated, and
    stays so. -/
theorem rotated_file_at_least_rotateLength (cfg : Cfg) (st : Nat × Fs) (ops : List Op) (hl : Live st)
    (ha : AllLong cfg st.2) (hw : ∀ op ∈ ops, WellCounted op) : AllLong cfg (runOps cfg st ops).2 := by
  induction ops generalizing st with
  | nil => exact ha
  | cons op rest ih =>
    exact ih (stepOp cfg st op) (live_step cfg st op hl (hw op (by simp))) (allLong_step cfg st op hl ha)
      (fun o ho => hw o (by simp [ho]))

/-- exactly the rotated files `1 … m` exist -/
def Contig (m : Nat) (fs : Fs) : Prop := ∀ i, exists_ fs (rot (i + 1)) = true ↔ i + 1 ≤ m

/-- number of rotations a history performs -/
def rotCount (cfg : Cfg) : Nat × Fs → List Op → Nat
  | _, [] => 0
  | st, op :: rest => (if rotates cfg st.1 op then 1 else 0) + rotCount cfg (stepOp cfg st op) rest

theorem contig_step (cfg : Cfg) (N : Nat) (hN : cfg.maxRot = some N) (h1 : 1 ≤ N) (st : Nat × Fs) (op : Op)
    (hl : Live st) (m : Nat) (hc : Contig m st.2) :
    Contig (min (m + (if rotates cfg st.1 op then 1 else 0)) (if rotates cfg st.1 op then N else m))
      (stepOp cfg st op).2 := by
  obtain ⟨_, _, h2⟩ := step_complete cfg st op hl
  intro i
  simp only [exists_, h2 i]
  cases hr : rotates cfg st.1 op with
  | false =>
    have := hc i
    simp only [exists_] at this
    simp only [Bool.false_eq_true, if_false, Nat.add_zero, Nat.min_self]
    exact this
  | true =>
    simp only [if_true]
    by_cases hi : i = 0
    · subst hi
      have := hl.1
      simp only [exists_] at this
      simp only [if_true, this, true_iff]
      omega
    · simp only [hi, if_false]
      obtain ⟨j, rfl⟩ : ∃ j, i = j + 1 := ⟨i - 1, by omega⟩
      have hj := hc j
      simp only [exists_] at hj
      unfold keepGet
      rw [hN]
      by_cases hn : N ≤ j + 1
      · simp only [hn, if_true, Option.isSome_none, Bool.false_eq_true, false_iff]; omega
      · simp only [hn, if_false, hj]; omega

/-- **C53, retention.**  With a retention count `N ≥ 1`, starting from a directory with no rotated files,
    after any history exactly the rotated files `1 … min(rotations, N)` exist: the newest `N` (or all, if
    fewer rotations happened) — which, with `retained_is_suffix_of_written`, hold the newest data. -/
theorem retention_keeps_newest_N (cfg : Cfg) (N : Nat) (hN : cfg.maxRot = some N) (h1 : 1 ≤ N)
    (st : Nat × Fs) (ops : List Op) (hl : Live st) (m : Nat) (hm : m ≤ N) (hc : Contig m st.2)
    (hw : ∀ op ∈ ops, WellCounted op) :
    Contig (min (m + rotCount cfg st ops) N) (runOps cfg st ops).2 := by
  induction ops generalizing st m with
  | nil => simp only [rotCount, Nat.add_zero, runOps, List.foldl_nil]; rwa [Nat.min_eq_left hm]
  | cons op rest ih =>
    have hs := contig_step cfg N hN h1 st op hl m hc
    have hl' := live_step cfg st op hl (hw op (by simp))
    cases hr : rotates cfg st.1 op with
    | false =>
      rw [hr] at hs
      simp only [Bool.false_eq_true, if_false, Nat.add_zero, Nat.min_self] at hs
      have := ih (stepOp cfg st op) hl' m hm hs (fun o ho => hw o (by simp [ho]))
      simpa [rotCount, hr, runOps] using this
    | true =>
      rw [hr] at hs
      simp only [if_true] at hs
      have := ih (stepOp cfg st op) hl' (min (m + 1) N) (Nat.min_le_right _ _) hs (fun o ho => hw o (by simp [ho]))
      have e : min (min (m + 1) N + rotCount cfg (stepOp cfg st op) rest) N =
          min (m + (1 + rotCount cfg (stepOp cfg st op) rest)) N := by omega
      rw [e] at this
      simpa [rotCount, hr, runOps] using this

/-- a retention count of 0 behaves like 1: the file just rotated is always kept
    (`maxRotatedFiles=0` is outside the property's domain; recorded here because the proof of
    `retention_keeps_newest_N` needs `1 ≤ N`) -/
theorem retention_zero_keeps_one (cfg : Cfg) (h0 : cfg.maxRot = some 0) (st : Nat × Fs) (d : Bytes) (n : Nat)
    (hl : Live st) (hr : rotates cfg st.1 (.write d n) = true) :
    exists_ (stepOp cfg st (.write d n)).2 (rot 1) = true := by
  obtain ⟨_, _, h2⟩ := step_complete cfg st (.write d n) hl
  have := h2 0
  rw [hr] at this
  simp only [if_true] at this
  simp only [exists_, this]
  exact hl.1

/-! ### non-vacuity -/

/-- rotateLength 2, no retention: "ab", "cd", "e" → `path.2`="ab", `path.1`="cd", current "e": all of it -/
example :
    let cfg : Cfg := { rotateLength := 2, maxRot := none }
    let fin := runOps cfg (openLog []) [.write [97, 98] 2, .write [99, 100] 2, .write [101] 1]
    retained fin.2 = [97, 98, 99, 100, 101] ∧ get fin.2 (rot 2) = some [97, 98] ∧ get fin.2 (rot 1) = some [99, 100] ∧
      rotCount cfg (openLog []) [.write [97, 98] 2, .write [99, 100] 2, .write [101] 1] = 2 := by decide

/-- the same with `maxRotatedFiles = 1`: only the newest rotated file survives — a proper suffix -/
example :
    let cfg : Cfg := { rotateLength := 2, maxRot := some 1 }
    let fin := runOps cfg (openLog []) [.write [97, 98] 2, .write [99, 100] 2, .write [101] 1]
    retained fin.2 = [99, 100, 101] ∧ get fin.2 (rot 2) = none := by decide

/-- killed inside `rotate()` after `path.1 → path.2`, before `path → path.1`: a gap at index 1, order intact -/
example :
    let cfg : Cfg := { rotateLength := 2, maxRot := none }
    let st := runOps cfg (openLog []) [.write [97, 98] 2, .write [99, 100] 2]
    let S := crashAt (opTrace cfg st.1 st.2 (.write [101] 1)).1 1 0 st.2
    get S (rot 1) = none ∧ get S (rot 2) = some [97, 98] ∧ retained S = [97, 98, 99, 100] := by decide

/-- multi-byte text: "é" is counted as 1 but written as 2 bytes — the file rotates later, never earlier -/
example : WellCounted (.write [195, 169] 1) := by simp [WellCounted]

end TwistedProps.C53
