import TwistedModel.Amp.Box
import TwistedModel.Amp.Args
import TwistedProps.C30.Framing
import TwistedProps.C30.Args
import TwistedProps.C30.DateTime
import TwistedProps.C30.Decimal
/-!
C30 — AMP wire format and argument types round-trip.

Part 1 (wire): for every list of boxes (dicts of 1..255-byte keys, ≤ 65535-byte values) and
EVERY segmentation of the concatenation of their `AmpBox.serialize()` outputs, a fresh
`BinaryBoxProtocol` receives exactly those boxes, never trips `lengthLimitExceeded` and keeps
nothing unprocessed.  `serialize`/`sendBox` accept exactly the representable boxes: an empty
key, an over-long key or value, and (for `sendBox`) an empty box are refused and nothing is
written, so what the peer parses is exactly the accepted boxes (`stream_roundtrip`).
Non-`bytes` keys/values (`TypeError`) are outside the model: oracle on the real code only.

Part 2 (argument types): `fromString (toString v) = v` for EVERY argument type of the statement
(`arg_roundtrip`), whenever `toString` succeeds (it refuses lone surrogates, list elements and AmpList
values longer than 65535 bytes, naive datetimes, …):
  * Integer, String, Unicode (UTF-8), Boolean — transcribed and proved outright;
  * Decimal — `Decimal.__str__` and the `Decimal(str)` grammar transcribed; `Decimal(str(d)) == d` for every
    sign/coefficient/exponent and for ±Infinity, ±NaN, ±sNaN with payloads (`decimal_roundtrip`);
  * DateTime — the fixed-width 32-character text and the nine `int()` slices transcribed, a datetime being its
    FIELDS + `utcoffset()`; equal up to the minute resolution of the offset, which the repaired `toString`
    rounds TOWARDS ZERO (`datetime_roundtrip`, `offsetMinutes_spec`, `normDT_whole_minutes`);
  * ListOf to any depth; AmpList with any schema (optional arguments, nested AmpLists): rows → boxes by
    `toBox`, `serialize`, `parseString` (Part 1!), `fromBox` (`ampList_roundtrip_generic`, `row_roundtrip_aux`);
  * Float and Path — `repr`/`float` and `os.path.abspath` are PARAMETERS (`Ext`), their round-trip /
    idempotence (CPython facts) are hypotheses of the theorem, not transcriptions.
-/
namespace TwistedProps.C30
open Twisted.Amp.Box

/-- a box as the statement describes it: a dict (distinct keys) whose keys have 1..255 bytes
    and whose values have at most 65535 bytes -/
def wfBox (b : Box) : Prop := (b.map (·.1)).Nodup ∧ ∀ kv ∈ b, wfItem kv

instance (b : Box) : Decidable (wfBox b) := by unfold wfBox; infer_instance

/-- the bytes `AmpBox.serialize` produces for a representable box -/
def wire (b : Box) : Bytes := itemsWire (sortItems b)

/-- what the peer holds after parsing: the same dict, iterated in key order -/
theorem sortItems_perm (b : Box) : (sortItems b).Perm b := sortItems_perm' b

theorem serialize_wf (b : Box) (h : ∀ kv ∈ b, wfItem kv) : serialize b = .ok (wire b) :=
  encodeItems_ok _ fun kv hkv => h kv ((sortItems_perm b).mem_iff.mp hkv)

/-- `AmpBox.serialize` succeeds exactly on boxes all of whose keys have 1..255 bytes and whose
    values have ≤ 65535 bytes (an empty box included: `AmpList` rows rely on that). -/
theorem serialize_accepts_iff (b : Box) : (∃ w, serialize b = .ok w) ↔ ∀ kv ∈ b, wfItem kv := by
  constructor
  · rintro ⟨w, hw⟩ kv hkv
    exact encodeItems_wf _ w hw kv ((sortItems_perm b).mem_iff.mpr hkv)
  · intro h; exact ⟨_, serialize_wf b h⟩

/-- **Refusal at send time**: `sendBox` writes something exactly for non-empty boxes with
    1..255-byte keys and ≤ 65535-byte values, and what it writes is `wire b`. -/
theorem sendBox_accepts_iff (b : Box) (w : Bytes) :
    sendBox b = .ok w ↔ (b ≠ [] ∧ (∀ kv ∈ b, wfItem kv) ∧ w = wire b) := by
  cases b with
  | nil => simp [sendBox]
  | cons x xs =>
    simp only [sendBox, List.isEmpty_cons, Bool.false_eq_true, if_false, ne_eq, reduceCtorEq,
      not_false_eq_true, true_and]
    constructor
    · intro h
      have hwf := (serialize_accepts_iff (x :: xs)).mp ⟨w, h⟩
      rw [serialize_wf _ hwf] at h
      exact ⟨hwf, by simpa using h.symm⟩
    · rintro ⟨hwf, rfl⟩; exact serialize_wf _ hwf

/-- the refusals spelled out: an empty box, an empty key, a key over 255 bytes or a value over
    65535 bytes make `sendBox` raise -/
theorem sendBox_refuses (b : Box)
    (hbad : b = [] ∨ ∃ kv ∈ b, kv.1 = [] ∨ kv.1.length > 255 ∨ kv.2.length > 65535) :
    ∃ e, sendBox b = .error e := by
  cases hs : sendBox b with
  | error e => exact ⟨e, rfl⟩
  | ok w =>
    exfalso
    obtain ⟨hne, hwf, _⟩ := (sendBox_accepts_iff b w).mp hs
    rcases hbad with rfl | ⟨kv, hkv, hb⟩
    · exact hne rfl
    · have := hwf kv hkv
      simp only [wfItem] at this
      rcases hb with hb | hb | hb
      · rw [hb] at this; simp at this
      · omega
      · omega

/-- Why an empty key MUST be refused at send time (it was not, before the repair): on the wire
    a zero-length string in key position is the terminator.  Had an item with an empty key been
    written, the receiver would close the current box there and read the *value* of that item as
    the beginning of the next box — for every value and every following data. -/
theorem empty_key_would_terminate_box (R : List Box) (cur : Box) (v tail : Bytes) :
    loop boxRecv (inBox R cur) (itemWire ([], v) ++ tail)
      = loop boxRecv (idle (R ++ [cur])) (pack16 v.length ++ v ++ tail) := by
  have := step_end_inBox R cur (pack16 v.length ++ v ++ tail)
  simpa [itemWire, List.append_assoc] using this

/-- one serialized box in front of anything, parsed from between boxes -/
theorem parse_box (R : List Box) (b : Box) (tail : Bytes) (h : wfBox b) :
    loop boxRecv (idle R) (wire b ++ tail) = loop boxRecv (idle (R ++ [sortItems b])) tail := by
  have hp := sortItems_perm b
  exact parse_items_idle R (sortItems b) tail
    (fun kv hkv => h.2 kv (hp.mem_iff.mp hkv))
    ((hp.map (·.1)).nodup_iff.mpr h.1)

theorem parse_boxes (R : List Box) (boxes : List Box) (h : ∀ b ∈ boxes, wfBox b) :
    loop boxRecv (idle R) (boxes.map wire).flatten = (idle (R ++ boxes.map sortItems), some []) := by
  induction boxes generalizing R with
  | nil => simpa using loop_nil boxRecv (idle R)
  | cons b bs ih =>
    simp only [List.map_cons, List.flatten_cons]
    rw [parse_box R b _ (h b (by simp)), ih _ (fun x hx => h x (by simp [hx]))]
    simp

/-- **C30, wire format** (headline): for all boxes as in the statement and ALL segmentations
    `cs` of the concatenated serializations, a fresh `BinaryBoxProtocol` ends between boxes having
    delivered exactly those boxes in order (each iterated in key order), with no leftover bytes
    and without `lengthLimitExceeded`. -/
theorem parse_serialize (boxes : List Box) (cs : List Bytes) (hwf : ∀ b ∈ boxes, wfBox b)
    (hcs : cs.flatten = (boxes.map wire).flatten) :
    receive cs = ⟨idle (boxes.map sortItems), [], false⟩ := by
  have h := parse_boxes [] boxes hwf
  rw [← hcs] at h
  exact feedAll_eq boxRecv cs Proto.initial _ _ (loop_nil _ _) (by simpa [Proto.initial, idle, Core.initial, MAX_KEY_LENGTH] using h)

/-- `parseString(b"".join(box.serialize() for box in boxes)) == boxes` — the framing used by
    `AmpList.toStringProto` / `fromStringProto` (rows may be empty boxes there) -/
theorem parseString_serialize (boxes : List Box) (hwf : ∀ b ∈ boxes, wfBox b) :
    parseString (boxes.map wire).flatten = boxes.map sortItems := by
  simp only [parseString]
  rw [parse_serialize boxes [(boxes.map wire).flatten] hwf (by simp)]
  rfl

/-- `sorted(items)` is the same dict: every key looks up to the same value -/
theorem insertItem_lookup (x : Bytes × Bytes) (ys : Box) (hx : x.1 ∉ ys.map (·.1)) (k : Bytes) :
    (insertItem x ys).lookup k = (x :: ys).lookup k := by
  induction ys with
  | nil => rfl
  | cons y ys ih =>
    have hxy : x.1 ≠ y.1 := fun h => hx (by simp [h])
    have ih := ih (fun h => hx (by simp only [List.map_cons, List.mem_cons]; exact Or.inr h))
    obtain ⟨xk, xv⟩ := x
    obtain ⟨yk, yv⟩ := y
    simp only [insertItem]
    split
    · simp only [List.lookup_cons] at ih ⊢
      rw [ih]
      by_cases h1 : k = yk
      · subst h1
        have : (k == xk) = false := by simpa using fun h => hxy h.symm
        simp [this]
      · have : (k == yk) = false := by simpa using h1
        simp [this]
    · rfl

theorem sortItems_lookup (b : Box) (hnd : (b.map (·.1)).Nodup) (k : Bytes) :
    (sortItems b).lookup k = b.lookup k := by
  induction b with
  | nil => rfl
  | cons x xs ih =>
    simp only [List.map_cons, List.nodup_cons] at hnd
    have hx : x.1 ∉ (sortItems xs).map (·.1) := fun h =>
      hnd.1 (((sortItems_perm xs).map (·.1)).mem_iff.mp h)
    simp only [sortItems]
    rw [insertItem_lookup x _ hx k]
    obtain ⟨xk, xv⟩ := x
    simp only [List.lookup_cons, ih hnd.2]

/-- the same in the statement's words: the boxes received are, one for one, equal to the boxes
    sent as dicts (every key looks up to the same value; same items), nothing is left over -/
theorem received_boxes_equal (boxes : List Box) (cs : List Bytes) (hwf : ∀ b ∈ boxes, wfBox b)
    (hcs : cs.flatten = (boxes.map wire).flatten) :
    (receive cs).core.received.length = boxes.length
    ∧ (∀ i (h1 : i < (receive cs).core.received.length) (h2 : i < boxes.length) (k : Bytes),
        ((receive cs).core.received[i]).lookup k = (boxes[i]).lookup k
        ∧ ((receive cs).core.received[i]).Perm boxes[i])
    ∧ (receive cs).exceeded = false ∧ (receive cs).unprocessed = [] := by
  rw [parse_serialize boxes cs hwf hcs]
  refine ⟨by simp [idle], ?_, rfl, rfl⟩
  intro i h1 h2 k
  simp only [idle, List.getElem_map]
  exact ⟨sortItems_lookup _ (hwf _ (List.getElem_mem h2)).1 k, sortItems_perm _⟩

/-- can this dict be put on the wire? (decidable form of the statement's precondition) -/
def representable (b : Box) : Bool := !b.isEmpty && b.all fun kv => decide (wfItem kv)

theorem sendAll_wire (bs : List Box) :
    (sendAll bs).1 = ((bs.filter representable).map wire).flatten := by
  induction bs with
  | nil => rfl
  | cons b bs ih =>
    by_cases hr : representable b = true
    · have hwf : ∀ kv ∈ b, wfItem kv := by
        simp only [representable, Bool.and_eq_true, List.all_eq_true, decide_eq_true_eq] at hr
        exact hr.2
      have hne : b ≠ [] := by
        intro h; subst h; simp [representable] at hr
      have hs : sendBox b = .ok (wire b) := (sendBox_accepts_iff b _).mpr ⟨hne, hwf, rfl⟩
      simp [sendAll, hs, hr, ih]
    · have hs : ∃ e, sendBox b = .error e := by
        cases hsb : sendBox b with
        | error e => exact ⟨e, rfl⟩
        | ok w =>
          exfalso
          obtain ⟨hne, hwf, _⟩ := (sendBox_accepts_iff b w).mp hsb
          apply hr
          simp only [representable, Bool.and_eq_true, List.all_eq_true, decide_eq_true_eq]
          refine ⟨?_, hwf⟩
          cases b with
          | nil => exact absurd rfl hne
          | cons _ _ => rfl
      obtain ⟨e, he⟩ := hs
      simp [sendAll, he, hr, ih]

/-- **C30, refusal instead of corruption**: send ANY dicts with `sendBox` (unrepresentable ones
    are refused and write nothing), cut the bytes written ANYWHERE: the peer receives exactly the
    representable boxes, in order, and its parser ends between boxes. -/
theorem stream_roundtrip (bs : List Box) (cs : List Bytes)
    (hdict : ∀ b ∈ bs, (b.map (·.1)).Nodup) (hcs : cs.flatten = (sendAll bs).1) :
    receive cs = ⟨idle ((bs.filter representable).map sortItems), [], false⟩ := by
  apply parse_serialize
  · intro b hb
    have hb' := List.mem_filter.mp hb
    refine ⟨hdict b hb'.1, ?_⟩
    have := hb'.2
    simp only [representable, Bool.and_eq_true, List.all_eq_true, decide_eq_true_eq] at this
    exact this.2
  · rw [hcs, sendAll_wire]

/-! ### Non-vacuity (wire) -/

/-- `{b"b": b"2", b"a": b""}` then `{b"k": b"v"}`, delivered in three ragged pieces -/
example :
    let boxes : List Box := [[([98], [50]), ([97], [])], [([107], [118])]]
    (∀ b ∈ boxes, wfBox b) ∧
    [[0, 1, 97, 0], [0, 0, 1, 98, 0, 1, 50, 0], [0, 0, 1, 107, 0, 1, 118, 0, 0]].flatten = (boxes.map wire).flatten := by
  decide

example : receive [[0, 1, 97, 0], [0, 0, 1, 98, 0, 1, 50, 0], [0, 0, 1, 107, 0, 1, 118, 0, 0]]
    = ⟨idle [[([97], []), ([98], [50])], [([107], [118])]], [], false⟩ :=
  parse_serialize [[([98], [50]), ([97], [])], [([107], [118])]] _ (by decide) (by decide)

example : (match sendBox [([], [120]), ([97], [49])] with | .error .emptyKey => true | _ => false) = true := by decide
example : (match sendBox [] with | .error .noEmptyBoxes => true | _ => false) = true := by decide
example : ∃ e, sendBox [([97], List.replicate 65536 0)] = .error e :=
  sendBox_refuses _ (Or.inr ⟨_, List.mem_singleton.mpr rfl, Or.inr (Or.inr (by
    show (List.replicate 65536 (0 : UInt8)).length > 65535
    rw [List.length_replicate]; omega))⟩)
example : (sendAll [[([97], [49])], [], [([], [120])], [([98], [])]]).1 = [0, 1, 97, 0, 1, 49, 0, 0, 0, 1, 98, 0, 0, 0, 0] := by decide

/-! ## Part 2 — argument types -/
section Arguments
open Twisted.Amp.Args

/-- **Integer**: `int(b"%d" % n) == n` for every integer, of any size and sign -/
theorem integer_roundtrip (i : Int) : intFromString (intToString i) = .ok i := by
  simp only [intFromString, pyInt_intToString]

/-- **Unicode**: whatever `str.encode("utf-8")` produces, strict `bytes.decode("utf-8")` maps back
    to the same code points -/
theorem unicode_roundtrip (cs : List Nat) (bs : Bytes) (h : utf8Encode cs = some bs) :
    utf8Decode bs = some cs := utf8Decode_encode cs bs h

/-- … and encoding is refused (`UnicodeEncodeError`) exactly when the text holds a lone surrogate -/
theorem unicode_encodable_iff (cs : List Nat) :
    (utf8Encode cs).isSome = cs.all fun c => decide (c < 0x110000) && !isSurrogate c :=
  utf8Encode_isSome cs

/-- **Boolean** -/
theorem boolean_roundtrip (b : Bool) : boolFromString (boolToString b) = .ok b := by
  cases b <;> rfl

/-- **ListOf**, for any element codec that round-trips on the elements of the list: the
    16-bit length-prefixed framing splits back into exactly the elements, in order -/
theorem listOf_roundtrip_generic {α : Type} (enc : α → Except ArgErr Bytes) (dec : Bytes → Except ArgErr α)
    (xs : List α) (w : Bytes) (hx : ∀ x ∈ xs, ∀ s, enc x = .ok s → dec s = .ok x)
    (h : listToString enc xs = .ok w) : listFromString dec w = .ok xs := by
  obtain ⟨ss, h1, h2⟩ := listOf_roundtrip enc dec xs w [] hx h
  simp only [listFromString, splitStrings, h1, List.nil_append, h2]

/-- `ListOf.toString` refuses (`struct.error`) an element whose serialized form exceeds 65535 bytes -/
theorem listOf_refuses_long {α : Type} (enc : α → Except ArgErr Bytes) (x : α) (xs : List α) (s : Bytes)
    (hs : enc x = .ok s) (hl : s.length > 65535) : listToString enc (x :: xs) = .error .structError := by
  simp [listToString, hs, hl]

/-- what `AmpList.toStringProto` wrote: the rows' boxes, each representable, concatenated -/
theorem ampListToString_boxes {ρ : Type} (toBox : ρ → Except ArgErr Box) (rows : List ρ) (w : Bytes)
    (h : ampListToString toBox rows = .ok w) :
    ∃ bs : List Box, mapExcept toBox rows = .ok bs ∧ (∀ b ∈ bs, ∀ kv ∈ b, wfItem kv)
      ∧ w = (bs.map wire).flatten := by
  induction rows generalizing w with
  | nil =>
    simp only [ampListToString] at h
    cases h
    exact ⟨[], rfl, by simp, rfl⟩
  | cons r rs ih =>
    simp only [ampListToString] at h
    split at h
    · cases h
    · rename_i b hb
      split at h
      · cases h
      · rename_i w1 hw1
        split at h
        · cases h
        · rename_i ws hws
          cases h
          obtain ⟨bs, hf, hwf, rfl⟩ := ih ws hws
          have hwfb := (serialize_accepts_iff b).mp ⟨w1, hw1⟩
          rw [serialize_wf b hwfb] at hw1
          cases hw1
          refine ⟨b :: bs, by simp only [mapExcept, hb, hf], ?_, by simp⟩
          intro b' hb'
          simp only [List.mem_cons] at hb'
          rcases hb' with rfl | hb'
          · exact hwfb
          · exact hwf b' hb'

/-- **AmpList framing**, for any row codec: if every row's box has distinct keys and decodes (from
    the key-sorted box the parser delivers) to `f row`, the whole list decodes to `rows.map f` -/
theorem ampList_roundtrip_generic {ρ σ : Type} (toBox : ρ → Except ArgErr Box) (fromBox : Box → Except ArgErr σ) (f : ρ → σ)
    (rows : List ρ) (w : Bytes)
    (hx : ∀ r ∈ rows, ∀ b, toBox r = .ok b → (b.map (·.1)).Nodup ∧ fromBox (sortItems b) = .ok (f r))
    (h : ampListToString toBox rows = .ok w) : ampListFromString fromBox w = .ok (rows.map f) := by
  obtain ⟨bs, hf, hwf, rfl⟩ := ampListToString_boxes toBox rows w h
  have hwfB : ∀ b ∈ bs, wfBox b := by
    intro b hb
    obtain ⟨r, hr, hrb⟩ := mapExcept_mem toBox rows bs hf b hb
    exact ⟨(hx r hr b hrb).1, hwf b hb⟩
  have hp := parse_serialize bs [(bs.map wire).flatten] hwfB (by simp)
  simp only [ampListFromString, parseStringChecked, hp, idle]
  simp only [Bool.false_eq_true, if_false]
  exact mapExcept_roundtrip toBox fromBox f rows bs hf (fun r hr b hb => (hx r hr b hb).2)

/-! the family -/

/-- a `datetime` as `DateTime` promises to deliver it: the UTC offset cut to whole minutes (towards zero) -/
def normDT (d : DT) : DT :=
  match d.off with
  | some o => { d with off := some (offsetMinutes o * 60000000) }
  | none => d

/-- **DateTime**: every value `toString` accepts (aware, `|utcoffset| < 1 day`) decodes to the same
    fields, the offset cut to whole minutes towards zero -/
theorem datetime_roundtrip (d : DT) (w : Bytes) (hv : d.validFields) (h : dtToString d = .ok w) :
    dtFromString w = .ok (normDT d) := by
  obtain ⟨y, mo, dd, hh, mi, s, us, off⟩ := d
  cases off with
  | none => simp [dtToString] at h
  | some o =>
    by_cases hr : o ≤ -86400000000 ∨ 86400000000 ≤ o
    · simp [dtToString, hr] at h
    · exact dtFromString_toString y mo dd hh mi s us o hv (by omega) (by omega) w h


mutual
/-- the value the statement promises after a round trip: equal, `DateTime`s up to the minute
    resolution of their UTC offset -/
def normVal (X : Ext) : (t : Ty) → Val X t → Val X t
  | .int, v => v
  | .str, v => v
  | .uni, v => v
  | .bool, v => v
  | .float, v => v
  | .dec, v => v
  | .dt, v => normDT v
  | .path, v => v
  | .list t, v => List.map (normVal X t) v
  | .amplist s, v => List.map (normRow X s) v
def normRow (X : Ext) : (s : Schema) → Row X s → Row X s
  | .nil, r => r
  | .cons _ true _ rest, (none, r) => (none, normRow X rest r)
  | .cons _ true t rest, (some v, r) => (some (normVal X t v), normRow X rest r)
  | .cons _ false t rest, (v, r) => (normVal X t v, normRow X rest r)
end

mutual
/-- the values that exist in Python: every `DT` inside is a real `datetime` (fields in range), every
    path is what a `FilePath` holds (`abspath` of something, so `abspath` leaves it alone) -/
def ValidVal (X : Ext) : (t : Ty) → Val X t → Prop
  | .int, _ => True
  | .str, _ => True
  | .uni, _ => True
  | .bool, _ => True
  | .float, _ => True
  | .dec, _ => True
  | .dt, v => DT.validFields v
  | .path, v => X.abspath v = v
  | .list t, (v : List (Val X t)) => ∀ x ∈ v, ValidVal X t x
  | .amplist s, (v : List (Row X s)) => ∀ r ∈ v, ValidRow X s r
def ValidRow (X : Ext) : (s : Schema) → Row X s → Prop
  | .nil, _ => True
  | .cons _ true _ rest, (none, r) => ValidRow X rest r
  | .cons _ true t rest, (some v, r) => ValidVal X t v ∧ ValidRow X rest r
  | .cons _ false t rest, (v, r) => ValidVal X t v ∧ ValidRow X rest r
end

theorem lookup_none_of_not_mem (b : Box) (k : Bytes) (h : k ∉ b.map (·.1)) : b.lookup k = none := by
  induction b with
  | nil => rfl
  | cons x xs ih =>
    obtain ⟨xk, xv⟩ := x
    simp only [List.map_cons, List.mem_cons, not_or] at h
    have : (k == xk) = false := by simpa using h.1
    simp only [List.lookup_cons, this]
    exact ih h.2

/-- the keys `_objectsToStrings` puts in a row's box are schema names, in schema order -/
theorem rowToBox_keys (X : Ext) : (s : Schema) → (r : Row X s) → (b : Box) → rowToBox X s r = .ok b →
    (b.map (·.1)).Sublist s.names
  | .nil, _, b, h => by
    simp only [rowToBox] at h; cases h; simp [Schema.names]
  | .cons name true t rest, (none, r), b, h => by
    simp only [rowToBox] at h
    exact (rowToBox_keys X rest r b h).cons name
  | .cons name true t rest, (some v, r), b, h => by
    simp only [rowToBox] at h
    split at h
    · cases h
    · split at h
      · cases h
      · rename_i b' hb'
        cases h
        exact (rowToBox_keys X rest r b' hb').cons_cons name
  | .cons name false t rest, (v, r), b, h => by
    simp only [rowToBox] at h
    split at h
    · cases h
    · split at h
      · cases h
      · rename_i b' hb'
        cases h
        exact (rowToBox_keys X rest r b' hb').cons_cons name

theorem supported_list (t : Ty) (h : (Ty.list t).supported = true) : t.supported = true := by
  cases t <;> simp_all [Ty.supported]

mutual
theorem arg_roundtrip_aux (X : Ext) (hC : X.float.RoundTrips) : (t : Ty) → t.supported = true → (v : Val X t) → ValidVal X t v →
    (w : Bytes) → Twisted.Amp.Args.toString X t v = .ok w → fromString X t w = .ok (normVal X t v)
  | .int, _, v, _, w, h => by
    simp only [Twisted.Amp.Args.toString] at h; cases h; exact integer_roundtrip v
  | .str, _, v, _, w, h => by
    simp only [Twisted.Amp.Args.toString] at h; cases h; rfl
  | .uni, _, v, _, w, h => by
    simp only [Twisted.Amp.Args.toString] at h
    split at h
    · rename_i b hb
      cases h
      simp only [fromString, unicode_roundtrip v w hb, normVal]
    · cases h
  | .bool, _, v, _, w, h => by
    simp only [Twisted.Amp.Args.toString] at h; cases h; exact boolean_roundtrip v
  | .float, _, v, _, w, h => by
    simp only [Twisted.Amp.Args.toString] at h; cases h
    simp only [fromString, hC v, normVal]
  | .dec, _, v, _, w, h => by
    simp only [Twisted.Amp.Args.toString] at h; cases h
    simp only [fromString, normVal]
    exact decFromString_toString v
  | .path, _, v, hv, w, h => by
    simp only [Twisted.Amp.Args.toString] at h
    simp only [ValidVal] at hv
    split at h
    · rename_i b hb
      cases h
      simp only [fromString, unicode_roundtrip v w hb, normVal, hv]
    · cases h
  | .dt, _, v, hv, w, h => by
    simp only [Twisted.Amp.Args.toString] at h
    simp only [fromString, normVal]
    exact datetime_roundtrip v w hv h
  | .list t, hs, v, hv, w, h => by
    simp only [Twisted.Amp.Args.toString] at h
    simp only [fromString, normVal]
    simp only [ValidVal] at hv
    exact listOf_roundtrip_generic_map (Twisted.Amp.Args.toString X t) (fromString X t) (normVal X t) v w
      (fun x hx s hs' => arg_roundtrip_aux X hC t (supported_list t hs) x (hv x hx) s hs') h
  | .amplist s, hs, v, hv, w, h => by
    simp only [Twisted.Amp.Args.toString] at h
    simp only [fromString, normVal]
    simp only [Ty.supported, Bool.and_eq_true, decide_eq_true_eq] at hs
    refine ampList_roundtrip_generic (rowToBox X s) (rowFromBox X s) (normRow X s) v w ?_ h
    simp only [ValidVal] at hv
    intro r hr b hb
    have hsub := rowToBox_keys X s r b hb
    have hnd : (b.map (·.1)).Nodup := hsub.nodup hs.1
    exact ⟨hnd, row_roundtrip_aux X hC s hs.2 hs.1 r (hv r hr) b hb (sortItems b) (fun k _ => sortItems_lookup b hnd k)⟩
theorem row_roundtrip_aux (X : Ext) (hC : X.float.RoundTrips) : (s : Schema) → s.supported = true → s.names.Nodup →
    (r : Row X s) → ValidRow X s r → (b : Box) → rowToBox X s r = .ok b → (B : Box) → (∀ k ∈ s.names, B.lookup k = b.lookup k) →
    rowFromBox X s B = .ok (normRow X s r)
  | .nil, _, _, r, _, b, h, B, hB => by
    simp only [rowFromBox, normRow]
    rfl
  | .cons name true t rest, hs, hn, (none, r), hv, b, h, B, hB => by
    simp only [ValidRow] at hv
    simp only [rowToBox] at h
    simp only [Schema.supported, Bool.and_eq_true] at hs
    simp only [Schema.names, List.nodup_cons] at hn
    have hk : name ∉ b.map (·.1) := fun hm => hn.1 ((rowToBox_keys X rest r b h).subset hm)
    have h1 : B.lookup name = none := by
      rw [hB name (by simp [Schema.names]), lookup_none_of_not_mem b name hk]
    simp only [rowFromBox, h1, normRow]
    rw [row_roundtrip_aux X hC rest hs.2 hn.2 r hv b h B (fun k hk' => hB k (by simp [Schema.names, hk']))]
  | .cons name true t rest, hs, hn, (some v, r), hv, b, h, B, hB => by
    simp only [ValidRow] at hv
    simp only [rowToBox] at h
    split at h
    · cases h
    · rename_i w hw
      split at h
      · cases h
      · rename_i b' hb'
        cases h
        simp only [Schema.supported, Bool.and_eq_true] at hs
        simp only [Schema.names, List.nodup_cons] at hn
        have h1 : B.lookup name = some w := by
          rw [hB name (by simp [Schema.names])]; simp
        have hrest : ∀ k ∈ rest.names, B.lookup k = b'.lookup k := by
          intro k hk
          rw [hB k (by simp [Schema.names, hk])]
          have : (k == name) = false := by
            simpa using fun (hkn : k = name) => hn.1 (hkn ▸ hk)
          simp only [List.lookup_cons, this]
        simp only [rowFromBox, h1, normRow, arg_roundtrip_aux X hC t hs.1 v hv.1 w hw,
          row_roundtrip_aux X hC rest hs.2 hn.2 r hv.2 b' hb' B hrest]
  | .cons name false t rest, hs, hn, (v, r), hv, b, h, B, hB => by
    simp only [ValidRow] at hv
    simp only [rowToBox] at h
    split at h
    · cases h
    · rename_i w hw
      split at h
      · cases h
      · rename_i b' hb'
        cases h
        simp only [Schema.supported, Bool.and_eq_true] at hs
        simp only [Schema.names, List.nodup_cons] at hn
        have h1 : B.lookup name = some w := by
          rw [hB name (by simp [Schema.names])]; simp
        have hrest : ∀ k ∈ rest.names, B.lookup k = b'.lookup k := by
          intro k hk
          rw [hB k (by simp [Schema.names, hk])]
          have : (k == name) = false := by
            simpa using fun (hkn : k = name) => hn.1 (hkn ▸ hk)
          simp only [List.lookup_cons, this]
        simp only [rowFromBox, h1, normRow, arg_roundtrip_aux X hC t hs.1 v hv.1 w hw,
          row_roundtrip_aux X hC rest hs.2 hn.2 r hv.2 b' hb' B hrest]
end


/-- **C30, argument types.**  For EVERY argument type of the statement — Integer, String, Unicode, Float,
    Boolean, Decimal, DateTime, Path, `ListOf` (any depth) and `AmpList` (any schema with distinct names,
    optional arguments, nested `AmpList`s) — every value that `toString`/`toStringProto` accepts decodes
    to an equal value, a `DateTime` up to the minute resolution of its UTC offset (`normVal`: the offset
    is cut to whole minutes towards zero, everything else is untouched).
    Hypotheses, each a fact about CPython rather than about Twisted:
    `hF` — `float(repr(x)) == x` (the `FloatCodec` parameter: IEEE formatting is not transcribed),
    `ValidVal` — the `datetime`s inside are real `datetime` objects and the paths are what a `FilePath`
    holds (`os.path.abspath` — a parameter too — leaves them alone),
    `t.supported` — no `ListOf(AmpList(…))` (excluded by `ListOf`'s docstring; the real code raises
    `TypeError`), schema names distinct. -/
theorem arg_roundtrip (X : Ext) (hF : X.float.RoundTrips) (t : Ty) (ht : t.supported = true)
    (v : Val X t) (hv : ValidVal X t v) (w : Bytes) (h : Twisted.Amp.Args.toString X t v = .ok w) :
    fromString X t w = .ok (normVal X t v) :=
  arg_roundtrip_aux X hF t ht v hv w h

/-- a `datetime` whose offset is a whole number of minutes comes back exactly -/
theorem normDT_whole_minutes (d : DT) (m : Int) (h : d.off = some (m * 60000000)) : normDT d = d := by
  obtain ⟨y, mo, dd, hh, mi, s, us, off⟩ := d
  simp only at h
  subst h
  simp only [normDT]
  congr 2
  unfold offsetMinutes
  split <;> omega

/-- … and in general the decoded offset is the encoded one moved towards zero by less than a minute -/
theorem offsetMinutes_spec (o : Int) :
    (0 ≤ o → 0 ≤ offsetMinutes o * 60000000 ∧ offsetMinutes o * 60000000 ≤ o ∧ o < offsetMinutes o * 60000000 + 60000000)
    ∧ (o ≤ 0 → offsetMinutes o * 60000000 ≤ 0 ∧ o ≤ offsetMinutes o * 60000000 ∧ offsetMinutes o * 60000000 - 60000000 < o) := by
  unfold offsetMinutes
  constructor <;> intro h <;> split <;> omega

/-- `DateTime.toString` refuses exactly naive values and offsets of a day or more -/
theorem datetime_accepts_iff (d : DT) : (∃ w, dtToString d = .ok w) ↔ ∃ o, d.off = some o ∧ -86400000000 < o ∧ o < 86400000000 := by
  obtain ⟨y, mo, dd, hh, mi, s, us, off⟩ := d
  cases off with
  | none => simp [dtToString]
  | some o =>
    by_cases hr : o ≤ -86400000000 ∨ 86400000000 ≤ o
    · simp only [dtToString, hr, if_true]
      constructor
      · rintro ⟨w, hw⟩; cases hw
      · rintro ⟨o', ho', h1, h2⟩; cases ho'; omega
    · simp only [dtToString, hr, if_false]
      exact ⟨fun _ => ⟨o, rfl, by omega, by omega⟩, fun _ => ⟨_, rfl⟩⟩

/-- **Decimal** on its own: `Decimal(str(d)) == d` for every `Decimal`, the specials included -/
theorem decimal_roundtrip (d : Dec) : decFromString (decToString d) = .ok d := decFromString_toString d


mutual
/-- no `DateTime` anywhere inside the type -/
def noDateTime : Ty → Bool
  | .dt => false
  | .list t => noDateTime t
  | .amplist s => noDateTimeS s
  | _ => true
def noDateTimeS : Schema → Bool
  | .nil => true
  | .cons _ _ t rest => noDateTime t && noDateTimeS rest
end

mutual
/-- without a `DateTime` inside, "equal up to the offset resolution" is plain equality -/
theorem normVal_id (X : Ext) : (t : Ty) → noDateTime t = true → (v : Val X t) → normVal X t v = v
  | .int, _, _ => rfl
  | .str, _, _ => rfl
  | .uni, _, _ => rfl
  | .bool, _, _ => rfl
  | .float, _, _ => rfl
  | .dec, _, _ => rfl
  | .path, _, _ => rfl
  | .dt, h, _ => by simp [noDateTime] at h
  | .list t, h, v => by
    simp only [noDateTime] at h
    simp only [normVal]
    exact (List.map_congr_left (fun x _ => normVal_id X t h x)).trans (List.map_id v)
  | .amplist s, h, v => by
    simp only [noDateTime] at h
    simp only [normVal]
    exact (List.map_congr_left (fun x _ => normRow_id X s h x)).trans (List.map_id v)
theorem normRow_id (X : Ext) : (s : Schema) → noDateTimeS s = true → (r : Row X s) → normRow X s r = r
  | .nil, _, _ => rfl
  | .cons _ true t rest, h, (none, r) => by
    simp only [noDateTimeS, Bool.and_eq_true] at h
    simp only [normRow, normRow_id X rest h.2 r]
    rfl
  | .cons _ true t rest, h, (some v, r) => by
    simp only [noDateTimeS, Bool.and_eq_true] at h
    simp only [normRow, normRow_id X rest h.2 r, normVal_id X t h.1 v]
    rfl
  | .cons _ false t rest, h, (v, r) => by
    simp only [noDateTimeS, Bool.and_eq_true] at h
    simp only [normRow, normRow_id X rest h.2 r, normVal_id X t h.1 v]
    rfl
end

/-- what `Path.fromString` returns is again a value a `FilePath` holds (given that `abspath` is idempotent) -/
theorem path_decoded_valid (X : Ext) (hA : X.AbspathIdempotent) (s : Bytes) (p : List Nat)
    (h : fromString X .path s = .ok p) : ValidVal X .path p := by
  simp only [fromString] at h
  split at h
  · cases h; exact hA _
  · cases h

theorem mkDateTime_off (y mo d h mi s us m : Int) (dt : DT) (hmk : mkDateTime y mo d h mi s us m = some dt) :
    dt.off = some (m * 60000000) := by
  unfold mkDateTime at hmk
  split at hmk
  · cases hmk; rfl
  · cases hmk

/-- what `DateTime.fromString` returns has a whole-minute offset: encoding it again loses nothing -/
theorem datetime_decoded_whole_minutes (s : Bytes) (d : DT) (h : dtFromString s = .ok d) :
    ∃ m : Int, d.off = some (m * 60000000) := by
  unfold dtFromString at h
  split at h
  · cases h
  · split at h
    · rename_i d' hd'
      cases h
      unfold dtParse at hd'
      split at hd'
      · have step : ∀ {α : Type} (o : Option α) (f : α → Option DT), o.bind f = some d → ∃ a, f a = some d := by
          intro α o f h
          cases o with
          | none => simp at h
          | some a => exact ⟨a, by simpa using h⟩
        simp only [Option.bind_eq_bind] at hd'
        obtain ⟨_, hd'⟩ := step _ _ hd'
        obtain ⟨_, hd'⟩ := step _ _ hd'
        obtain ⟨_, hd'⟩ := step _ _ hd'
        obtain ⟨_, hd'⟩ := step _ _ hd'
        obtain ⟨_, hd'⟩ := step _ _ hd'
        obtain ⟨_, hd'⟩ := step _ _ hd'
        obtain ⟨_, hd'⟩ := step _ _ hd'
        obtain ⟨_, hd'⟩ := step _ _ hd'
        obtain ⟨_, hd'⟩ := step _ _ hd'
        split at hd'
        · exact ⟨_, mkDateTime_off _ _ _ _ _ _ _ _ _ (by simpa using hd')⟩
        · split at hd'
          · exact ⟨_, mkDateTime_off _ _ _ _ _ _ _ _ _ (by simpa using hd')⟩
          · simp at hd'
      · cases hd'
    · cases h

/-! ### Non-vacuity (arguments) -/

example : intToString (-1204) = [45, 49, 50, 48, 52] := by
  show 45 :: natToDec 1204 = _
  rw [natToDec_unfold, natToDec_unfold, natToDec_unfold, natToDec_unfold]
  decide
example : (match intFromString [32, 43, 49, 95, 48, 10] with | .ok 10 => true | _ => false) = true := by decide
example : utf8Encode [0x41, 0xE9, 0x20AC, 0x1F600] = some [0x41, 0xC3, 0xA9, 0xE2, 0x82, 0xAC, 0xF0, 0x9F, 0x98, 0x80] := by decide
example : utf8Decode [0x41, 0xC3, 0xA9, 0xE2, 0x82, 0xAC, 0xF0, 0x9F, 0x98, 0x80] = some [0x41, 0xE9, 0x20AC, 0x1F600] := by decide
example : utf8Encode [0x61, 0xD800] = none := by decide
-- a leading U+FEFF is a character of the value (not a byte order mark to strip); text that is not NFC stays as it is
example : utf8Encode [0xFEFF, 0x61] = some [0xEF, 0xBB, 0xBF, 0x61] := by decide
example : utf8Decode [0xEF, 0xBB, 0xBF, 0x61] = some [0xFEFF, 0x61] := by decide
example : utf8Decode [0x65, 0xCC, 0x81, 0xE2, 0x84, 0xAB] = some [0x65, 0x301, 0x212B] := by decide
example : utf8Decode [0xC0, 0x80] = none ∧ utf8Decode [0xED, 0xA0, 0x80] = none ∧ utf8Decode [0xF4, 0x90, 0x80, 0x80] = none := by decide
/-- a stand-in for the platform parameters in the examples: floats as their text, `abspath` = identity -/
def exX : Ext := ⟨⟨Bytes, id, some⟩, id⟩

theorem exX_float : exX.float.RoundTrips := fun _ => rfl

/-- `ListOf(ListOf(Unicode()))` of `[["é", ""], []]` -/
example : (match Twisted.Amp.Args.toString exX (.list (.list .uni)) ([[[0xE9], []], []] : List (List (List Nat))) with
    | .ok w => w == [0, 6, 0, 2, 0xC3, 0xA9, 0, 0, 0, 0] | _ => false) = true := by decide

/-- `2012-01-23T12:34:56.054321` at UTC−01:00:30 is written with `-01:00` … -/
example : dtToString ⟨2012, 1, 23, 12, 34, 56, 54321, some (-3630000000)⟩
    = .ok [50, 48, 49, 50, 45, 48, 49, 45, 50, 51, 84, 49, 50, 58, 51, 52, 58, 53, 54, 46, 48, 53, 52, 51, 50, 49,
           45, 48, 49, 58, 48, 48] := by
  rw [dtToString_explicit _ _ _ _ _ _ _ _ (by decide) (by decide) (by decide)]
  rfl

/-- … and comes back with the offset −01:00 -/
example : dtFromString [50, 48, 49, 50, 45, 48, 49, 45, 50, 51, 84, 49, 50, 58, 51, 52, 58, 53, 54, 46, 48, 53, 52, 51, 50, 49,
           45, 48, 49, 58, 48, 48] = .ok (normDT ⟨2012, 1, 23, 12, 34, 56, 54321, some (-3630000000)⟩) :=
  datetime_roundtrip _ _ (by decide) (by
    rw [dtToString_explicit _ _ _ _ _ _ _ _ (by decide) (by decide) (by decide)]; rfl)

example : normDT ⟨2012, 1, 23, 12, 34, 56, 54321, some (-3630000000)⟩ = ⟨2012, 1, 23, 12, 34, 56, 54321, some (-3600000000)⟩ := by
  decide

/-- the offset −23:59:59 is written `-23:59` (flooring gave the undecodable `-24:00`) -/
example : offsetMinutes (-86399000000) = -1439 := by decide

/-- `int()` leniency, ignored separators and an out-of-range offset are accepted by `fromString`; 30 February is not -/
example : (match dtFromString [32, 48, 49, 50, 120, 48, 49, 121, 50, 51, 122, 49, 50, 97, 51, 52, 98, 53, 54, 99, 48, 53, 52, 51, 50, 49,
      43, 57, 57, 100, 57, 57] with
    | .ok d => d == ⟨12, 1, 23, 12, 34, 56, 54321, some ((99 * 60 + 99) * 60000000)⟩ | _ => false) = true := by decide
example : (match dtFromString [50, 48, 49, 50, 45, 48, 50, 45, 51, 48, 84, 49, 50, 58, 51, 52, 58, 53, 54, 46, 48, 53, 52, 51, 50, 49,
      43, 48, 49, 58, 48, 48] with
    | .error .valueError => true | _ => false) = true := by decide

/-- `Decimal("-12.34")`, `Decimal("1.5E+2")`, `Decimal(" -sNaN0_07 ")`, `Decimal("iNfInItY")` -/
example : (match decFromString [45, 49, 50, 46, 51, 52] with | .ok d => d == .fin true 1234 (-2) | _ => false) = true := by decide
example : (match decFromString [49, 46, 53, 69, 43, 50] with | .ok d => d == .fin false 15 1 | _ => false) = true := by decide
example : (match decFromString [32, 45, 115, 78, 97, 78, 48, 95, 48, 55, 32] with | .ok d => d == .nan true true 7 | _ => false) = true := by
  decide
example : (match decFromString [105, 78, 102, 73, 110, 73, 116, 89] with | .ok d => d == .inf false | _ => false) = true := by decide
example : (match decFromString [49, 69] with | .error .invalidOperation => true | _ => false) = true := by decide

theorem natToDec_1234 : natToDec 1234 = [49, 50, 51, 52] := by
  rw [natToDec_unfold, natToDec_unfold, natToDec_unfold, natToDec_unfold]; decide
theorem natToDec_15 : natToDec 15 = [49, 53] := by
  rw [natToDec_unfold, natToDec_unfold]; decide
theorem natToDec_2 : natToDec 2 = [50] := by
  rw [natToDec_unfold]; decide

/-- `str(Decimal((1, (1,2,3,4), -2))) == "-12.34"`, `str(Decimal((0, (1,5), 1))) == "1.5E+2"`,
    `str(Decimal((0, (1,), -7))) == "1E-7"` -/
example : decToString (.fin true 1234 (-2)) = [45, 49, 50, 46, 51, 52] := by
  simp only [decToString, natToDec_1234]; decide
example : decToString (.fin false 15 1) = [49, 46, 53, 69, 43, 50] := by
  simp only [decToString, natToDec_15, fmtPlusD]
  have hc : ¬ ((1 : Int) ≤ 0 ∧ 1 + (([49, 53] : List UInt8).length : Int) > -6) := by decide
  simp only [if_neg hc]
  rw [show (1 + (([49, 53] : List UInt8).length : Int) - 1).natAbs = 2 from by decide, natToDec_2]
  decide

/-- an `AmpList([(b"u", Unicode(optional=True)), (b"s", String())])` of `[{u: "é", s: b"a"}, {u: None, s: b""}]`:
    two boxes, keys in sorted order -/
def exSchema : Ty := .amplist (.cons [117] true .uni (.cons [115] false .str .nil))
def exRows : Val exX exSchema := [(some [0xE9], ([97], ())), (none, ([], ()))]
def exWire : Bytes := [0, 1, 115, 0, 1, 97, 0, 1, 117, 0, 2, 0xC3, 0xA9, 0, 0, 0, 1, 115, 0, 0, 0, 0]

example : Twisted.Amp.Args.toString exX exSchema exRows = .ok exWire := by rfl

example : fromString exX exSchema exWire = .ok exRows :=
  arg_roundtrip exX exX_float exSchema (by decide) exRows (by
    intro r hr
    rcases List.mem_cons.mp hr with rfl | hr
    · exact ⟨trivial, trivial, trivial⟩
    rcases List.mem_cons.mp hr with rfl | hr
    · exact ⟨trivial, trivial⟩
    · cases hr) exWire (by rfl)

/-- a row without its required key is `KeyError` -/
example : (match rowFromBox exX (.cons [117] true .uni (.cons [115] false .str .nil)) [([117], [65])] with
    | .error .keyError => true | _ => false) = true := by decide


end Arguments

end TwistedProps.C30
