import TwistedModel.Amp.Box
import TwistedModel.Amp.Args
import TwistedProps.C30.Framing
import TwistedProps.C30.Args
/-!
C30 — AMP wire format and argument types round-trip.

Part 1 (wire): for every list of boxes (dicts of 1..255-byte keys, ≤ 65535-byte values) and
EVERY segmentation of the concatenation of their `AmpBox.serialize()` outputs, a fresh
`BinaryBoxProtocol` receives exactly those boxes, never trips `lengthLimitExceeded` and keeps
nothing unprocessed.  `serialize`/`sendBox` accept exactly the representable boxes: an empty
key, an over-long key or value, and (for `sendBox`) an empty box are refused and nothing is
written, so what the peer parses is exactly the accepted boxes (`stream_roundtrip`).
Non-`bytes` keys/values (`TypeError`) are outside the model: oracle on the real code only.

Part 2 (argument types): `fromString (toString v) = v` for Integer, String, Unicode (UTF-8),
Boolean and `ListOf` of these to any nesting depth, whenever `toString` succeeds (it refuses
exactly lone surrogates and list elements longer than 65535 bytes).  Float, Decimal, DateTime,
Path and AmpList are NOT proved here — differential testing in `harness/corr/C30.py`.
-/
namespace TwistedProps.C30
open Twisted.Amp.Box

/-- a box as the statement describes it: a dict (distinct keys) whose keys have 1..255 bytes
    and whose values have at most 65535 bytes -/
def wfBox (b : Box) : Prop := (b.map (·.1)).Nodup ∧ ∀ kv ∈ b, wfItem kv

instance (b : Box) : Decidable (wfBox b) := by unfold wfBox; infer_instance

/-- the bytes `AmpBox.serialize` produces for a representable box -/
def wire (b : Box) : Bytes := itemsWire (sortItems b)

/-- what the peer holds after parsing: the same dict, iterated in key order -/
theorem sortItems_perm (b : Box) : (sortItems b).Perm b := sortItems_perm' b

theorem serialize_wf (b : Box) (h : ∀ kv ∈ b, wfItem kv) : serialize b = .ok (wire b) :=
  encodeItems_ok _ fun kv hkv => h kv ((sortItems_perm b).mem_iff.mp hkv)

/-- `AmpBox.serialize` succeeds exactly on boxes all of whose keys have 1..255 bytes and whose
    values have ≤ 65535 bytes (an empty box included: `AmpList` rows rely on that). -/
theorem serialize_accepts_iff (b : Box) : (∃ w, serialize b = .ok w) ↔ ∀ kv ∈ b, wfItem kv := by
  constructor
  · rintro ⟨w, hw⟩ kv hkv
    exact encodeItems_wf _ w hw kv ((sortItems_perm b).mem_iff.mpr hkv)
  · intro h; exact ⟨_, serialize_wf b h⟩

/-- **Refusal at send time**: `sendBox` writes something exactly for non-empty boxes with
    1..255-byte keys and ≤ 65535-byte values, and what it writes is `wire b`. -/
theorem sendBox_accepts_iff (b : Box) (w : Bytes) :
    sendBox b = .ok w ↔ (b ≠ [] ∧ (∀ kv ∈ b, wfItem kv) ∧ w = wire b) := by
  cases b with
  | nil => simp [sendBox]
  | cons x xs =>
    simp only [sendBox, List.isEmpty_cons, Bool.false_eq_true, if_false, ne_eq, reduceCtorEq,
      not_false_eq_true, true_and]
    constructor
    · intro h
      have hwf := (serialize_accepts_iff (x :: xs)).mp ⟨w, h⟩
      rw [serialize_wf _ hwf] at h
      exact ⟨hwf, by simpa using h.symm⟩
    · rintro ⟨hwf, rfl⟩; exact serialize_wf _ hwf

/-- the refusals spelled out: an empty box, an empty key, a key over 255 bytes or a value over
    65535 bytes make `sendBox` raise -/
theorem sendBox_refuses (b : Box)
    (hbad : b = [] ∨ ∃ kv ∈ b, kv.1 = [] ∨ kv.1.length > 255 ∨ kv.2.length > 65535) :
    ∃ e, sendBox b = .error e := by
  cases hs : sendBox b with
  | error e => exact ⟨e, rfl⟩
  | ok w =>
    exfalso
    obtain ⟨hne, hwf, _⟩ := (sendBox_accepts_iff b w).mp hs
    rcases hbad with rfl | ⟨kv, hkv, hb⟩
    · exact hne rfl
    · have := hwf kv hkv
      simp only [wfItem] at this
      rcases hb with hb | hb | hb
      · rw [hb] at this; simp at this
      · omega
      · omega

/-- Why an empty key MUST be refused at send time (it was not, before the repair): on the wire
    a zero-length string in key position is the terminator.  Had an item with an empty key been
    written, the receiver would close the current box there and read the *value* of that item as
    the beginning of the next box — for every value and every following data. -/
theorem empty_key_would_terminate_box (R : List Box) (cur : Box) (v tail : Bytes) :
    loop boxRecv (inBox R cur) (itemWire ([], v) ++ tail)
      = loop boxRecv (idle (R ++ [cur])) (pack16 v.length ++ v ++ tail) := by
  have := step_end_inBox R cur (pack16 v.length ++ v ++ tail)
  simpa [itemWire, List.append_assoc] using this

/-- one serialized box in front of anything, parsed from between boxes -/
theorem parse_box (R : List Box) (b : Box) (tail : Bytes) (h : wfBox b) :
    loop boxRecv (idle R) (wire b ++ tail) = loop boxRecv (idle (R ++ [sortItems b])) tail := by
  have hp := sortItems_perm b
  exact parse_items_idle R (sortItems b) tail
    (fun kv hkv => h.2 kv (hp.mem_iff.mp hkv))
    ((hp.map (·.1)).nodup_iff.mpr h.1)

theorem parse_boxes (R : List Box) (boxes : List Box) (h : ∀ b ∈ boxes, wfBox b) :
    loop boxRecv (idle R) (boxes.map wire).flatten = (idle (R ++ boxes.map sortItems), some []) := by
  induction boxes generalizing R with
  | nil => simpa using loop_nil boxRecv (idle R)
  | cons b bs ih =>
    simp only [List.map_cons, List.flatten_cons]
    rw [parse_box R b _ (h b (by simp)), ih _ (fun x hx => h x (by simp [hx]))]
    simp

/-- **C30, wire format** (headline): for all boxes as in the statement and ALL segmentations
    `cs` of the concatenated serializations, a fresh `BinaryBoxProtocol` ends between boxes having
    delivered exactly those boxes in order (each iterated in key order), with no leftover bytes
    and without `lengthLimitExceeded`. -/
theorem parse_serialize (boxes : List Box) (cs : List Bytes) (hwf : ∀ b ∈ boxes, wfBox b)
    (hcs : cs.flatten = (boxes.map wire).flatten) :
    receive cs = ⟨idle (boxes.map sortItems), [], false⟩ := by
  have h := parse_boxes [] boxes hwf
  rw [← hcs] at h
  exact feedAll_eq boxRecv cs Proto.initial _ _ (loop_nil _ _) (by simpa [Proto.initial, idle, Core.initial, MAX_KEY_LENGTH] using h)

/-- `parseString(b"".join(box.serialize() for box in boxes)) == boxes` — the framing used by
    `AmpList.toStringProto` / `fromStringProto` (rows may be empty boxes there) -/
theorem parseString_serialize (boxes : List Box) (hwf : ∀ b ∈ boxes, wfBox b) :
    parseString (boxes.map wire).flatten = boxes.map sortItems := by
  simp only [parseString]
  rw [parse_serialize boxes [(boxes.map wire).flatten] hwf (by simp)]
  rfl

/-- `sorted(items)` is the same dict: every key looks up to the same value -/
theorem insertItem_lookup (x : Bytes × Bytes) (ys : Box) (hx : x.1 ∉ ys.map (·.1)) (k : Bytes) :
    (insertItem x ys).lookup k = (x :: ys).lookup k := by
  induction ys with
  | nil => rfl
  | cons y ys ih =>
    have hxy : x.1 ≠ y.1 := fun h => hx (by simp [h])
    have ih := ih (fun h => hx (by simp only [List.map_cons, List.mem_cons]; exact Or.inr h))
    obtain ⟨xk, xv⟩ := x
    obtain ⟨yk, yv⟩ := y
    simp only [insertItem]
    split
    · simp only [List.lookup_cons] at ih ⊢
      rw [ih]
      by_cases h1 : k = yk
      · subst h1
        have : (k == xk) = false := by simpa using fun h => hxy h.symm
        simp [this]
      · have : (k == yk) = false := by simpa using h1
        simp [this]
    · rfl

theorem sortItems_lookup (b : Box) (hnd : (b.map (·.1)).Nodup) (k : Bytes) :
    (sortItems b).lookup k = b.lookup k := by
  induction b with
  | nil => rfl
  | cons x xs ih =>
    simp only [List.map_cons, List.nodup_cons] at hnd
    have hx : x.1 ∉ (sortItems xs).map (·.1) := fun h =>
      hnd.1 (((sortItems_perm xs).map (·.1)).mem_iff.mp h)
    simp only [sortItems]
    rw [insertItem_lookup x _ hx k]
    obtain ⟨xk, xv⟩ := x
    simp only [List.lookup_cons, ih hnd.2]

/-- the same in the statement's words: the boxes received are, one for one, equal to the boxes
    sent as dicts (every key looks up to the same value; same items), nothing is left over -/
theorem received_boxes_equal (boxes : List Box) (cs : List Bytes) (hwf : ∀ b ∈ boxes, wfBox b)
    (hcs : cs.flatten = (boxes.map wire).flatten) :
    (receive cs).core.received.length = boxes.length
    ∧ (∀ i (h1 : i < (receive cs).core.received.length) (h2 : i < boxes.length) (k : Bytes),
        ((receive cs).core.received[i]).lookup k = (boxes[i]).lookup k
        ∧ ((receive cs).core.received[i]).Perm boxes[i])
    ∧ (receive cs).exceeded = false ∧ (receive cs).unprocessed = [] := by
  rw [parse_serialize boxes cs hwf hcs]
  refine ⟨by simp [idle], ?_, rfl, rfl⟩
  intro i h1 h2 k
  simp only [idle, List.getElem_map]
  exact ⟨sortItems_lookup _ (hwf _ (List.getElem_mem h2)).1 k, sortItems_perm _⟩

/-- can this dict be put on the wire? (decidable form of the statement's precondition) -/
def representable (b : Box) : Bool := !b.isEmpty && b.all fun kv => decide (wfItem kv)

theorem sendAll_wire (bs : List Box) :
    (sendAll bs).1 = ((bs.filter representable).map wire).flatten := by
  induction bs with
  | nil => rfl
  | cons b bs ih =>
    by_cases hr : representable b = true
    · have hwf : ∀ kv ∈ b, wfItem kv := by
        simp only [representable, Bool.and_eq_true, List.all_eq_true, decide_eq_true_eq] at hr
        exact hr.2
      have hne : b ≠ [] := by
        intro h; subst h; simp [representable] at hr
      have hs : sendBox b = .ok (wire b) := (sendBox_accepts_iff b _).mpr ⟨hne, hwf, rfl⟩
      simp [sendAll, hs, hr, ih]
    · have hs : ∃ e, sendBox b = .error e := by
        cases hsb : sendBox b with
        | error e => exact ⟨e, rfl⟩
        | ok w =>
          exfalso
          obtain ⟨hne, hwf, _⟩ := (sendBox_accepts_iff b w).mp hsb
          apply hr
          simp only [representable, Bool.and_eq_true, List.all_eq_true, decide_eq_true_eq]
          refine ⟨?_, hwf⟩
          cases b with
          | nil => exact absurd rfl hne
          | cons _ _ => rfl
      obtain ⟨e, he⟩ := hs
      simp [sendAll, he, hr, ih]

/-- **C30, refusal instead of corruption**: send ANY dicts with `sendBox` (unrepresentable ones
    are refused and write nothing), cut the bytes written ANYWHERE: the peer receives exactly the
    representable boxes, in order, and its parser ends between boxes. -/
theorem stream_roundtrip (bs : List Box) (cs : List Bytes)
    (hdict : ∀ b ∈ bs, (b.map (·.1)).Nodup) (hcs : cs.flatten = (sendAll bs).1) :
    receive cs = ⟨idle ((bs.filter representable).map sortItems), [], false⟩ := by
  apply parse_serialize
  · intro b hb
    have hb' := List.mem_filter.mp hb
    refine ⟨hdict b hb'.1, ?_⟩
    have := hb'.2
    simp only [representable, Bool.and_eq_true, List.all_eq_true, decide_eq_true_eq] at this
    exact this.2
  · rw [hcs, sendAll_wire]

/-! ### Non-vacuity (wire) -/

/-- `{b"b": b"2", b"a": b""}` then `{b"k": b"v"}`, delivered in three ragged pieces -/
example :
    let boxes : List Box := [[([98], [50]), ([97], [])], [([107], [118])]]
    (∀ b ∈ boxes, wfBox b) ∧
    [[0, 1, 97, 0], [0, 0, 1, 98, 0, 1, 50, 0], [0, 0, 1, 107, 0, 1, 118, 0, 0]].flatten = (boxes.map wire).flatten := by
  decide

example : receive [[0, 1, 97, 0], [0, 0, 1, 98, 0, 1, 50, 0], [0, 0, 1, 107, 0, 1, 118, 0, 0]]
    = ⟨idle [[([97], []), ([98], [50])], [([107], [118])]], [], false⟩ :=
  parse_serialize [[([98], [50]), ([97], [])], [([107], [118])]] _ (by decide) (by decide)

example : (match sendBox [([], [120]), ([97], [49])] with | .error .emptyKey => true | _ => false) = true := by decide
example : (match sendBox [] with | .error .noEmptyBoxes => true | _ => false) = true := by decide
example : ∃ e, sendBox [([97], List.replicate 65536 0)] = .error e :=
  sendBox_refuses _ (Or.inr ⟨_, List.mem_singleton.mpr rfl, Or.inr (Or.inr (by
    show (List.replicate 65536 (0 : UInt8)).length > 65535
    rw [List.length_replicate]; omega))⟩)
example : (sendAll [[([97], [49])], [], [([], [120])], [([98], [])]]).1 = [0, 1, 97, 0, 1, 49, 0, 0, 0, 1, 98, 0, 0, 0, 0] := by decide

/-! ## Part 2 — argument types -/
section Arguments
open Twisted.Amp.Args

/-- **Integer**: `int(b"%d" % n) == n` for every integer, of any size and sign -/
theorem integer_roundtrip (i : Int) : intFromString (intToString i) = .ok i := by
  simp only [intFromString, pyInt_intToString]

/-- **Unicode**: whatever `str.encode("utf-8")` produces, strict `bytes.decode("utf-8")` maps back
    to the same code points -/
theorem unicode_roundtrip (cs : List Nat) (bs : Bytes) (h : utf8Encode cs = some bs) :
    utf8Decode bs = some cs := utf8Decode_encode cs bs h

/-- … and encoding is refused (`UnicodeEncodeError`) exactly when the text holds a lone surrogate -/
theorem unicode_encodable_iff (cs : List Nat) :
    (utf8Encode cs).isSome = cs.all fun c => decide (c < 0x110000) && !isSurrogate c :=
  utf8Encode_isSome cs

/-- **Boolean** -/
theorem boolean_roundtrip (b : Bool) : boolFromString (boolToString b) = .ok b := by
  cases b <;> rfl

/-- **ListOf**, for any element codec that round-trips on the elements of the list: the
    16-bit length-prefixed framing splits back into exactly the elements, in order -/
theorem listOf_roundtrip_generic {α : Type} (enc : α → Except ArgErr Bytes) (dec : Bytes → Except ArgErr α)
    (xs : List α) (w : Bytes) (hx : ∀ x ∈ xs, ∀ s, enc x = .ok s → dec s = .ok x)
    (h : listToString enc xs = .ok w) : listFromString dec w = .ok xs := by
  obtain ⟨ss, h1, h2⟩ := listOf_roundtrip enc dec xs w [] hx h
  simp only [listFromString, splitStrings, h1, List.nil_append, h2]

/-- `ListOf.toString` refuses (`struct.error`) an element whose serialized form exceeds 65535 bytes -/
theorem listOf_refuses_long {α : Type} (enc : α → Except ArgErr Bytes) (x : α) (xs : List α) (s : Bytes)
    (hs : enc x = .ok s) (hl : s.length > 65535) : listToString enc (x :: xs) = .error .structError := by
  simp [listToString, hs, hl]

/-- **C30, argument types — PARTIAL.**  Full statement: for EVERY argument type (Integer, String,
    Unicode, Float, Boolean, Decimal, DateTime, ListOf, AmpList, Path) `fromString (toString v) = v`
    (DateTime up to the minute resolution of its offset).  Proved here: Integer, String, Unicode,
    Boolean and `ListOf` of these to any nesting depth — every value that `toString` accepts decodes
    to an equal value.  Missing: Float (`repr`/`float`), Decimal (`str`/`decimal.Decimal`), DateTime
    (fixed-width text + tzinfo), Path (`FilePath` normalisation) have no Lean model — they are
    exercised by the oracle on the real code only (differential testing, `harness/corr/C30.py`);
    for AmpList only the box framing is proved (`parseString_serialize`), the per-field
    `toBox`/`fromBox` plumbing is tested, not modelled. -/
theorem arg_roundtrip_partial (t : Ty) (v : Val t) (w : Bytes) (h : Twisted.Amp.Args.toString t v = .ok w) :
    fromString t w = .ok v := by
  induction t generalizing w with
  | int =>
    simp only [Twisted.Amp.Args.toString] at h
    cases h
    exact integer_roundtrip v
  | str =>
    simp only [Twisted.Amp.Args.toString] at h
    cases h
    rfl
  | uni =>
    simp only [Twisted.Amp.Args.toString] at h
    split at h
    · rename_i b hb
      cases h
      simp only [fromString, unicode_roundtrip v w hb]
    · cases h
  | bool =>
    simp only [Twisted.Amp.Args.toString] at h
    cases h
    exact boolean_roundtrip v
  | list t ih =>
    simp only [Twisted.Amp.Args.toString] at h
    exact listOf_roundtrip_generic (Twisted.Amp.Args.toString t) (fromString t) v w
      (fun x _ s hs => ih x s hs) h

/-! ### Non-vacuity (arguments) -/

example : intToString (-1204) = [45, 49, 50, 48, 52] := by
  show 45 :: natToDec 1204 = _
  rw [natToDec_unfold, natToDec_unfold, natToDec_unfold, natToDec_unfold]
  decide
example : (match intFromString [32, 43, 49, 95, 48, 10] with | .ok 10 => true | _ => false) = true := by decide
example : utf8Encode [0x41, 0xE9, 0x20AC, 0x1F600] = some [0x41, 0xC3, 0xA9, 0xE2, 0x82, 0xAC, 0xF0, 0x9F, 0x98, 0x80] := by decide
example : utf8Decode [0x41, 0xC3, 0xA9, 0xE2, 0x82, 0xAC, 0xF0, 0x9F, 0x98, 0x80] = some [0x41, 0xE9, 0x20AC, 0x1F600] := by decide
example : utf8Encode [0x61, 0xD800] = none := by decide
example : utf8Decode [0xC0, 0x80] = none ∧ utf8Decode [0xED, 0xA0, 0x80] = none ∧ utf8Decode [0xF4, 0x90, 0x80, 0x80] = none := by decide
/-- `ListOf(ListOf(Unicode()))` of `[["é", ""], []]` -/
example : (match Twisted.Amp.Args.toString (.list (.list .uni)) ([[[0xE9], []], []] : List (List (List Nat))) with
    | .ok w => w == [0, 6, 0, 2, 0xC3, 0xA9, 0, 0, 0, 0] | _ => false) = true := by decide

end Arguments

end TwistedProps.C30
