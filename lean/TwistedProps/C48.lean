import TwistedProps.C48.Opaque
/-!
C48 — HTTP Digest credentials verify exactly the right responses.

Statement (given): for any challenge issued by a Digest credential factory and any client response
(computed with the right or a wrong password, for the issued or a tampered nonce and opaque, from the
same or another client address, within or beyond the challenge lifetime), the decoded credentials accept
a password iff the response was computed with that password over an unaltered challenge issued to that
address within its lifetime.  Any malformed or tampered response is rejected as an ordinary login
failure, never another exception.

Model: `TwistedModel/Cred/Digest.lean` (the repaired `credentials.py`, fix b5baeb8).  All theorems are
for every byte string / clock value / address / list of issued challenges — no size bounds.

Hypotheses, all explicit:
* `hinj : ∀ f, Function.Injective (H f)` — the hash functions are symbolic and injective (collisions of
  MD5/SHA-1 are outside the model);
* `Unforged` — Dolev-Yao: a client that does not know `privateKey` presents, as the digest part of the
  opaque, either a digest it was handed in an issued opaque or something that is not the keyed digest of
  anything;
* `Challenge.WF` (decidable) — the issued nonce and the client address contain no `,` (hexlify output / IP
  literal) and the clock value is within `int()`'s 4300-digit limit.
Lifetime is on the integer seconds the code embeds (`int(_getTime())`); "same address" is equality after
the code's own normalisation (`None`, `""`, `b""` are one address).

Histories (§5): a factory keeps nothing between calls but its key, so the model of a history of responses
presented to ONE factory (`decodeAll`) decodes them one by one; `history_accepts_iff` is the headline for
the `i`-th response of any history.  That the real factory is history-independent in the same way is what
the differential tie checks (driver op `runh`: the same response presented several times, at different
clock values and from different addresses).
-/
namespace TwistedProps.C48
open Twisted.Py Twisted.Cred.Digest

/-! ## 1. Only the documented login failure -/

/-- Whatever the response bytes, the clock, the address: when `decode` raises, it raises `LoginFailed`.
    (The model's primitives do produce `binascii.Error` and `UnicodeDecodeError`; the theorem says the
    `try/except`s of the repaired code catch every one of them.) -/
theorem decode_fails_only_with_loginFailed (H : Hash) (pk realm : Bytes) (now : Int)
    (response method : Bytes) (host : Option Bytes) (e : Err)
    (h : decode H pk realm now response method host = .error e) : e = .loginFailed := by
  unfold decode at h
  repeat' split at h
  all_goals first | (cases h; done) | (cases h; rfl) | skip
  · rename_i e' heq; cases h; exact buildAuth_err _ _ _ heq
  · rename_i e' heq; cases h; exact verifyOpaque_err _ _ _ _ _ _ _ heq


/-- non-vacuity: a truncated base64 part (`binascii.Error` inside) and a non-ASCII field name
    (`UnicodeDecodeError` inside) both come out as `LoginFailed`; and `b64decode` alone does fail. -/
example : (match decode toyH [1, 2] (s "realm") 100
      (s "username=\"u\", nonce=\"n\", opaque=\"abc-Q\"") (s "GET") none with
    | .error .loginFailed => true | _ => false) = true := by decide +kernel
example : (match decode toyH [1, 2] (s "realm") 100 [0xff, 0x6b, 0x3d, 0x76] (s "GET") none with
    | .error .loginFailed => true | _ => false) = true := by decide +kernel
example : (match b64decode (s "Q") with | .error .binasciiError => true | _ => false) = true := by
  decide +kernel

/-- `checkPassword` returns a boolean for every credentials object and every password: the guard
    `_responseIsComputable` covers each `KeyError` (`algorithms[algo]`) and `TypeError`
    (`hash.update(None)`) site of `calcHA1/calcHA2/calcResponse`. -/
theorem checkPassword_never_raises (H : Hash) (c : Creds) (pw : Bytes) :
    ∃ b, checkPassword H c pw = .ok b := by
  unfold checkPassword
  by_cases hc : computable c = true
  · obtain ⟨x, hx⟩ := expectedResponse_ok H c pw hc
    simp [hc, hx]
  · simp only [Bool.not_eq_true] at hc
    simp [hc]

/-- non-vacuity: the unguarded computation does raise (unknown algorithm → `KeyError`, no uri →
    `TypeError`), `checkPassword` answers `False`. -/
example : (match expectedResponse toyH ⟨s "u", s "GET", s "r", [(s "nonce", s "n"), (s "algorithm", s "bogus")]⟩ (s "pw") with
    | .error .keyError => true | _ => false) = true := by decide +kernel
example : (match expectedResponse toyH ⟨s "u", s "GET", s "r", [(s "nonce", s "n")]⟩ (s "pw") with
    | .error .typeError => true | _ => false) = true := by decide +kernel
example : (match checkPassword toyH ⟨s "u", s "GET", s "r", [(s "nonce", s "n"), (s "algorithm", s "bogus")]⟩ (s "pw") with
    | .ok false => true | _ => false) = true := by decide +kernel

/-! ## 2. The opaque: exactly the issued one, from its address, within its lifetime -/

/-- **If**: the opaque of an issued challenge, presented unaltered with its nonce from its address,
    verifies exactly as long as the challenge is within its lifetime. -/
theorem issued_opaque_verifies_iff_within_lifetime (H : Hash) (pk : Bytes) (c : Challenge) (hwf : c.WF)
    (now : Int) :
    verifyOpaque H pk now (c.opaque H pk) c.nonce c.ip = .ok () ↔ now - c.t ≤ lifetime := by
  obtain ⟨hn, hip, hd⟩ := hwf
  rw [verifyOpaque_ok_iff]
  unfold Challenge.opaque
  rw [generateOpaque_eq]
  constructor
  · rintro ⟨key, kt, w, ho, _, hk, hw, hl⟩
    have hlen := congrArg (splitOn 45) ho
    rw [splitOn_append_sep _ _ _ (mac_no_dash _ _ _), splitOn_append_sep _ _ _ (mac_no_dash _ _ _)] at hlen
    simp only [List.cons.injEq] at hlen
    have hkey : opaqueKey c.nonce (normIp c.ip) c.t = key := by
      have h2 : splitOn 45 (b64encode (opaqueKey c.nonce (normIp c.ip) c.t)) = splitOn 45 (b64encode key) := hlen.2
      rw [splitOn_of_not_mem _ _ (fun hx => (b64encode_mem _ _ hx).1 rfl),
          splitOn_of_not_mem _ _ (fun hx => (b64encode_mem _ _ hx).1 rfl)] at h2
      simp only [List.cons.injEq, and_true] at h2
      have h3 := congrArg b64decode h2
      rw [b64decode_b64encode, b64decode_b64encode] at h3
      exact Except.ok.inj h3
    subst hkey
    rw [opaqueKey_split _ _ _ hn hip] at hk
    simp only [List.cons.injEq, true_and, and_true] at hk
    subst hk
    rw [pyInt_decimal _ hd] at hw
    cases hw
    exact hl
  · intro hl
    exact ⟨_, decimal c.t, c.t, rfl, mac_no_dash _ _ _, opaqueKey_split _ _ _ hn hip, pyInt_decimal _ hd, hl⟩



/-- **Only if**: under injective `H` and the Dolev-Yao hypothesis, an opaque that verifies is
    byte-for-byte the opaque of an issued challenge, presented with that challenge's nonce, from that
    challenge's address, within its lifetime. -/
theorem verified_opaque_was_issued (H : Hash) (hinj : ∀ f, Function.Injective (H f)) (pk : Bytes)
    (issued : List Challenge) (hwf : ∀ c ∈ issued, c.WF) (now : Int) (o n : Bytes) (ip : Option Bytes)
    (hdy : Unforged H pk issued o) (h : verifyOpaque H pk now o n ip = .ok ()) :
    ∃ c ∈ issued, o = c.opaque H pk ∧ n = c.nonce ∧ normIp ip = normIp c.ip ∧ now - c.t ≤ lifetime := by
  rw [verifyOpaque_ok_iff] at h
  obtain ⟨key, kt, w, ho, hm, hk, hw, hl⟩ := h
  have hp : presentedDigest o = mac H pk key := by
    unfold presentedDigest
    rw [ho, splitOn_append_sep _ _ _ hm]; rfl
  rcases hdy with ⟨c, hc, hpc⟩ | hno
  · have hkey : key = c.key := mac_inj H hinj pk _ _ (by rw [← hp, hpc])
    obtain ⟨hn, hip, hd⟩ := hwf c hc
    subst hkey
    unfold Challenge.key at hk
    rw [opaqueKey_split _ _ _ hn hip] at hk
    simp only [List.cons.injEq, and_true] at hk
    obtain ⟨h1, h2, h3⟩ := hk
    subst h3
    rw [pyInt_decimal _ hd] at hw
    cases hw
    refine ⟨c, hc, ?_, h1.symm, h2.symm, hl⟩
    rw [ho]; unfold Challenge.opaque; rw [generateOpaque_eq]; rfl
  · exact absurd hp.symm (hno key)

/-- a concrete issued challenge for the examples -/
def exC : Challenge := ⟨s "9b61ee03", some (s "10.2.3.4"), 7⟩

theorem exC_wf : exC.WF := by decide +kernel

/-- non-vacuity: the hypotheses are satisfiable and both outcomes occur — in time at 907, expired at 908;
    a tampered copy (pad bits changed, junk inside the base64) is refused although it decodes to the same
    key. -/
example : verifyOpaque toyH [1, 2] 907 (exC.opaque toyH [1, 2]) exC.nonce exC.ip = .ok () :=
  (issued_opaque_verifies_iff_within_lifetime toyH [1, 2] exC exC_wf 907).mpr (by decide)
example : verifyOpaque toyH [1, 2] 908 (exC.opaque toyH [1, 2]) exC.nonce exC.ip ≠ .ok () :=
  fun h => absurd ((issued_opaque_verifies_iff_within_lifetime toyH [1, 2] exC exC_wf 908).mp h) (by decide)
example : Unforged toyH [1, 2] [exC] (exC.opaque toyH [1, 2]) :=
  Or.inl ⟨exC, by simp, by decide +kernel⟩
example : (match verifyOpaque toyH [1, 2] 100 (exC.opaque toyH [1, 2] ++ [61, 122]) exC.nonce exC.ip with
    | .error .loginFailed => true | _ => false) = true := by decide +kernel

/-! ## 3. The password: exactly the one the response was computed with -/

/-- `checkPassword(p)` is `True` exactly when the response field is the RFC 2617 digest of `p` over the
    fields of the response. -/
theorem checkPassword_true_iff_computedWith (H : Hash) (c : Creds) (p : Bytes) :
    checkPassword H c p = .ok true ↔ ComputedWith H c p := by
  unfold checkPassword ComputedWith
  by_cases hc : computable c = true
  · obtain ⟨x, hx⟩ := expectedResponse_ok H c p hc
    simp only [hc, Bool.not_true, Bool.false_eq_true, if_false, hx, true_and]
    constructor
    · intro h
      simp only [Except.ok.injEq, beq_iff_eq] at h
      exact ⟨x, rfl, h.symm⟩
    · rintro ⟨y, hy, hr⟩
      cases hy
      simp [hr]
  · simp only [Bool.not_eq_true] at hc
    simp [hc]

/-- For injective `H`: if the response was computed with password `p'`, then `checkPassword(p)` is `True`
    for `p = p'` and for no other password. -/
theorem checkPassword_iff_right_password (H : Hash) (hinj : ∀ f, Function.Injective (H f)) (c : Creds)
    (p p' : Bytes) (hresp : ComputedWith H c p') : checkPassword H c p = .ok true ↔ p = p' := by
  rw [checkPassword_true_iff_computedWith]
  constructor
  · rintro ⟨_, x, hx, hr⟩
    obtain ⟨_, y, hy, hr'⟩ := hresp
    rw [hr] at hr'
    cases hr'
    exact expectedResponse_inj H hinj c p p' x hx hy
  · rintro rfl; exact hresp

/-- a concrete response for the examples: algorithm md5-sess, qop auth, computed with password "pw" -/
def exCreds : Creds :=
  let f : Fields := [(s "username", s "u"), (s "nonce", s "9b61ee03"), (s "uri", s "/x"), (s "algorithm", s "MD5-sess"),
    (s "qop", s "auth"), (s "nc", s "00000001"), (s "cnonce", s "abcd")]
  let c0 : Creds := ⟨s "u", s "GET", s "realm", f⟩
  match expectedResponse toyH c0 (s "pw") with
  | .ok x => ⟨s "u", s "GET", s "realm", f ++ [(s "response", x)]⟩
  | .error _ => c0

/-- `Except` has no `DecidableEq`: concrete results go through a `Bool` test -/
def isOkB (x : Except Err Bool) (b : Bool) : Bool :=
  match x with
  | .ok v => v == b
  | .error _ => false

theorem eq_of_isOkB (x : Except Err Bool) (b : Bool) (h : isOkB x b = true) : x = .ok b := by
  cases x with
  | error e => simp [isOkB] at h
  | ok v => simp only [isOkB, beq_iff_eq] at h; rw [h]

example : ComputedWith toyH exCreds (s "pw") := by
  rw [← checkPassword_true_iff_computedWith]; exact eq_of_isOkB _ _ (by decide +kernel)
example : checkPassword toyH exCreds (s "pw") = .ok true ∧ checkPassword toyH exCreds (s "pW") = .ok false :=
  ⟨eq_of_isOkB _ _ (by decide +kernel), eq_of_isOkB _ _ (by decide +kernel)⟩

/-! ## 4. Headline: `decode` + `checkPassword` on any response bytes -/

/-- **C48.**  For every factory key and realm, every list of issued challenges, every clock value, every
    response header (any bytes at all), request method and client address: the decoded credentials accept
    password `p` **iff** the header parses to fields with a non-empty username whose response digest was
    computed with `p`, and whose nonce and opaque are byte-for-byte those of one issued challenge, issued
    to this address, not older than its lifetime. -/
theorem accepts_iff_right_password_unaltered_challenge_same_client_within_lifetime
    (H : Hash) (hinj : ∀ f, Function.Injective (H f)) (pk realm : Bytes)
    (issued : List Challenge) (hwf : ∀ c ∈ issued, c.WF)
    (now : Int) (response method : Bytes) (host : Option Bytes)
    (hdy : ∀ auth o, parseResponse response = .ok auth → auth.get (s "opaque") = some o →
      Unforged H pk issued o)
    (p : Bytes) :
    Accepts H pk realm now response method host p ↔
      ∃ auth user n o, parseResponse response = .ok auth ∧ auth.get (s "username") = some user ∧ user ≠ []
        ∧ auth.get (s "nonce") = some n ∧ auth.get (s "opaque") = some o
        ∧ ComputedWith H ⟨user, method, realm, auth⟩ p
        ∧ ∃ c ∈ issued, n = c.nonce ∧ o = c.opaque H pk ∧ normIp host = normIp c.ip
            ∧ now - c.t ≤ lifetime := by
  unfold Accepts
  constructor
  · rintro ⟨creds, hd, hp⟩
    rw [decode_ok_iff] at hd
    obtain ⟨auth, user, n, o, hparse, hu, hne, hn, ho, hv, rfl⟩ := hd
    obtain ⟨c, hc, h1, h2, h3, h4⟩ :=
      verified_opaque_was_issued H hinj pk issued hwf now o n host (hdy auth o hparse ho) hv
    exact ⟨auth, user, n, o, hparse, hu, hne, hn, ho,
      (checkPassword_true_iff_computedWith H _ p).mp hp, c, hc, h2, h1, h3, h4⟩
  · rintro ⟨auth, user, n, o, hparse, hu, hne, hn, ho, hcw, c, hc, rfl, rfl, hip, hl⟩
    refine ⟨⟨user, method, realm, auth⟩, ?_, (checkPassword_true_iff_computedWith H _ p).mpr hcw⟩
    rw [decode_ok_iff]
    refine ⟨auth, user, _, _, hparse, hu, hne, hn, ho, ?_, rfl⟩
    rw [verifyOpaque_congr_ip H pk now _ _ host c.ip hip]
    exact (issued_opaque_verifies_iff_within_lifetime H pk c (hwf c hc) now).mpr hl

/-- …and at most one password: if the response was computed with `p'`, the credentials accept `p` iff
    `p = p'` and they accept `p'`. -/
theorem accepts_only_the_password_used
    (H : Hash) (hinj : ∀ f, Function.Injective (H f)) (pk realm : Bytes)
    (now : Int) (response method : Bytes) (host : Option Bytes)
    (auth : Fields) (user : Bytes) (hparse : parseResponse response = .ok auth)
    (hu : auth.get (s "username") = some user)
    (p' : Bytes) (hcw : ComputedWith H ⟨user, method, realm, auth⟩ p') (p : Bytes) :
    Accepts H pk realm now response method host p ↔
      p = p' ∧ Accepts H pk realm now response method host p' := by
  unfold Accepts
  constructor
  · rintro ⟨creds, hd, hp⟩
    have hd' := hd
    rw [decode_ok_iff] at hd'
    obtain ⟨auth', user', n, o, hparse', hu', hne, hn, ho, hv, rfl⟩ := hd'
    rw [hparse] at hparse'; cases hparse'
    rw [hu] at hu'; cases hu'
    have hpp := (checkPassword_iff_right_password H hinj _ p p' hcw).mp hp
    subst hpp
    exact ⟨rfl, _, hd, hp⟩
  · rintro ⟨rfl, h⟩; exact h

/-- non-vacuity of the headline: a whole header, parsed by the model of the regular expression, carrying
    `exC`'s nonce and opaque and a digest computed with "pw", is accepted with "pw" at second 907 from
    10.2.3.4 and not with "pW"; at second 908, or from 10.2.3.5, it is refused. -/
def exHeader : Bytes :=
  s "username=\"u\", realm=\"realm\", nonce=\"9b61ee03\", uri=\"/x\", algorithm=MD5-sess, qop=auth, nc=00000001, cnonce=\"abcd\", response=\""
    ++ ((exCreds.fields.get (s "response")).getD []) ++ s "\",\r\n opaque=\"" ++ exC.opaque toyH [1, 2] ++ s "\""

def acceptsB (now : Int) (host : Option Bytes) (p : Bytes) : Bool :=
  match decode toyH [1, 2] (s "realm") now exHeader (s "GET") host with
  | .ok c => (match checkPassword toyH c p with | .ok b => b | .error _ => false)
  | .error _ => false

example : acceptsB 907 (some (s "10.2.3.4")) (s "pw") = true ∧ acceptsB 907 (some (s "10.2.3.4")) (s "pW") = false
    ∧ acceptsB 908 (some (s "10.2.3.4")) (s "pw") = false ∧ acceptsB 907 (some (s "10.2.3.5")) (s "pw") = false := by
  decide +kernel

/-! ## 5. Histories: several responses presented to one factory -/

/-- A response is judged alone: whatever was presented to the factory before it (`pre`) and whatever
    follows (`post`), the outcome of its `decode` is the outcome it has on a fresh factory. -/
theorem history_each_response_judged_alone (H : Hash) (pk realm : Bytes) (pre post : List Request)
    (r : Request) :
    (decodeAll H pk realm (pre ++ r :: post))[pre.length]? =
      some (decode H pk realm r.now r.response r.method r.host) := by
  unfold decodeAll
  simp

/-- `decodeAll` answers every request of the history, in order. -/
theorem history_length (H : Hash) (pk realm : Bytes) (reqs : List Request) :
    (decodeAll H pk realm reqs).length = reqs.length := by
  unfold decodeAll; simp

/-- **C48 over histories.**  In any history of responses presented to one factory, the credentials
    decoded from the `i`-th accept password `p` iff THAT response parses to fields with a non-empty
    username whose digest was computed with `p` and whose nonce and opaque are byte-for-byte those of an
    issued challenge, issued to the address it comes from, not older than its lifetime at the moment it is
    presented — earlier acceptances or refusals (of this or any other response) change nothing. -/
theorem history_accepts_iff
    (H : Hash) (hinj : ∀ f, Function.Injective (H f)) (pk realm : Bytes)
    (issued : List Challenge) (hwf : ∀ c ∈ issued, c.WF)
    (reqs : List Request) (i : Nat) (r : Request) (hr : reqs[i]? = some r)
    (hdy : ∀ auth o, parseResponse r.response = .ok auth → auth.get (s "opaque") = some o →
      Unforged H pk issued o)
    (p : Bytes) :
    (∃ creds, (decodeAll H pk realm reqs)[i]? = some (.ok creds) ∧ checkPassword H creds p = .ok true) ↔
      ∃ auth user n o, parseResponse r.response = .ok auth ∧ auth.get (s "username") = some user ∧ user ≠ []
        ∧ auth.get (s "nonce") = some n ∧ auth.get (s "opaque") = some o
        ∧ ComputedWith H ⟨user, r.method, realm, auth⟩ p
        ∧ ∃ c ∈ issued, n = c.nonce ∧ o = c.opaque H pk ∧ normIp r.host = normIp c.ip
            ∧ r.now - c.t ≤ lifetime := by
  rw [← accepts_iff_right_password_unaltered_challenge_same_client_within_lifetime H hinj pk realm issued hwf
    r.now r.response r.method r.host hdy p]
  unfold Accepts decodeAll
  simp only [List.getElem?_map, hr, Option.map_some, Option.some.injEq]

/-- non-vacuity: `exHeader` presented three times to one factory — in time from its address, after the
    lifetime, in time again: accepted, refused, accepted; from another address in between: refused. -/
def histB (reqs : List (Int × Option Bytes)) (p : Bytes) : List Bool :=
  (decodeAll toyH [1, 2] (s "realm") (reqs.map fun (t, h) => ⟨t, exHeader, s "GET", h⟩)).map fun
    | .ok c => (match checkPassword toyH c p with | .ok b => b | .error _ => false)
    | .error _ => false

example : histB [(907, some (s "10.2.3.4")), (908, some (s "10.2.3.4")), (100, some (s "10.2.3.5")),
    (907, some (s "10.2.3.4"))] (s "pw") = [true, false, false, true] := by decide +kernel

end TwistedProps.C48
