import TwistedModel.App.ClientService
import TwistedProps.C58.Defs
/-!
C58, part 2b — `_ReconnectingProtocolProxy.connectionLost`: the application protocol's own `connectionLost` handler
runs BEFORE the service is told about the loss.  It is user code: it may call startService / stopService /
whenConnected (the machine still believes in the connection, whose transport is already gone) and it may raise.
`Mid` is the invariant of that window; whatever the handler does, the notification that follows (`finally`) is
accepted and re-establishes `Good`.
-/
namespace TwistedProps.C58
open Twisted.App.ClientService

/-- the machine between "the transport is gone" and "the service has been told": it is in one of the three states
    that own a connection, and the environment has no connection, attempt or retry left -/
def Mid (s : St) : Prop :=
  s.att = .none ∧ s.conns = [] ∧ s.timer = none ∧
  match s.ms with
  | .connected => s.running = true ∧ s.stopWaiters = [] ∧ s.waiters = []
  | .disconnecting => s.running = false ∧ s.stopWaiters ≠ [] ∧ 0 < s.nstop
  | .restarting => s.running = true ∧ s.stopWaiters ≠ [] ∧ 0 < s.nstop
  | _ => False

/-- losing the connection of a good state: it was THE connection, open iff the machine is `Connected` -/
theorem good_erase (s : St) (i : Nat) (hg : Good s) (hi : i < s.conns.length) :
    Mid { s with conns := s.conns.eraseIdx i } ∧ s.timer = none ∧ s.att = .none
    ∧ s.conns[i]? = some ⟨s.cur, !decide (s.ms = .connected)⟩ := by
  rcases s with ⟨ms, running, cur, att, conns, nconn, timer, failed, waiters, nwait, fired, stopWaiters, nstop, stopFired⟩
  cases ms <;> simp_all [Good, Mid] <;> omega

/-- one call from the handler: still in the window; only `stopService` leaves `Connected` -/
theorem mid_stepAct (pol : Nat → Nat) (s : St) (a : Act) (hm : Mid s) :
    Mid (stepAct pol s a) ∧ (stepAct pol s a).failed = s.failed ∧ (stepAct pol s a).stopFired = s.stopFired
    ∧ ((stepAct pol s a).ms = .connected ↔ s.ms = .connected ∧ a ≠ .stop) := by
  rcases s with ⟨ms, running, cur, att, conns, nconn, timer, failed, waiters, nwait, fired, stopWaiters, nstop, stopFired⟩
  cases a <;> cases ms <;> simp_all [Mid, stepAct, mStart, mStop, mWhen, waitForStop, markClosing]

/-- the whole handler -/
theorem mid_foldl (pol : Nat → Nat) (acts : List Act) (s : St) (hm : Mid s) :
    Mid (acts.foldl (stepAct pol) s) ∧ (acts.foldl (stepAct pol) s).failed = s.failed
    ∧ (acts.foldl (stepAct pol) s).stopFired = s.stopFired
    ∧ ((acts.foldl (stepAct pol) s).ms = .connected ↔ s.ms = .connected ∧ Act.stop ∉ acts) := by
  induction acts generalizing s with
  | nil => simp [hm]
  | cons a as ih =>
    have h1 := mid_stepAct pol s a hm
    have h2 := ih _ h1.1
    refine ⟨h2.1, h2.2.1.trans h1.2.1, h2.2.2.1.trans h1.2.2.1, ?_⟩
    rw [List.foldl_cons, h2.2.2.2, h1.2.2.2, List.mem_cons]
    constructor
    · rintro ⟨⟨h, hne⟩, hn⟩; exact ⟨h, fun hc => hc.elim (fun e => hne e.symm) hn⟩
    · rintro ⟨h, hn⟩; exact ⟨⟨h, fun e => hn (Or.inl e.symm)⟩, fun hc => hn (Or.inr hc)⟩

/-- the notification at the end of the window is always accepted and re-establishes the invariant; from
    `Connected` it schedules the retry -/
theorem mid_clientDisconnected (pol : Nat → Nat) (s : St) (hm : Mid s) :
    Good (clientDisconnected pol s).1 ∧ (clientDisconnected pol s).2 = true
    ∧ (clientDisconnected pol s).1.conns = []
    ∧ (clientDisconnected pol s).1.failed = (if s.ms = .connected then s.failed + 1 else s.failed)
    ∧ (∀ t, (clientDisconnected pol s).1.timer = some t → t = pol (clientDisconnected pol s).1.failed)
    ∧ (s.ms = .connected → (clientDisconnected pol s).1.ms = .waiting
        ∧ (clientDisconnected pol s).1.timer = some (pol (clientDisconnected pol s).1.failed)
        ∧ (clientDisconnected pol s).1.att = .none) := by
  rcases s with ⟨ms, running, cur, att, conns, nconn, timer, failed, waiters, nwait, fired, stopWaiters, nstop, stopFired⟩
  cases ms <;> simp_all [Mid, Good, clientDisconnected, waitForRetry, disconnectingFinished, finishStopping, unawait,
    attemptConnection]

/-- the state after the loss of a connection does not depend on whether the handler raises: the notification is in a
    `finally` (ALL states, good or not) -/
theorem proxyConnectionLost_state (pol : Nat → Nat) (s : St) (acts : List Act) (r : Bool) :
    (proxyConnectionLost pol s acts r).1 = (clientDisconnected pol (acts.foldl (stepAct pol) s)).1 := rfl

/-- Everything the loss of a connection does to a good state, whatever the application's handler does. -/
theorem good_step_dropH (pol : Nat → Nat) (s : St) (i : Nat) (acts : List Act) (r : Bool) (hg : Good s) :
    let e := Ev.dropH i acts r
    let s' := (step pol s e).1
    Good s' ∧ (step pol s e).2 ≠ .rejected
    ∧ s'.failed = failures s.failed s e
    ∧ (∀ t, s.timer = none → s'.timer = some t → t = pol s'.failed)
    ∧ (s'.stopFired ≠ s.stopFired → s'.conns = [])
    ∧ (connectionDrops s e = true → s'.ms = .waiting ∧ s'.timer = some (pol s'.failed) ∧ s'.conns = [] ∧ s'.att = .none) := by
  intro e s'
  by_cases hi : i < s.conns.length
  · obtain ⟨hm0, _, _, hc⟩ := good_erase s i hg hi
    obtain ⟨hm1, hf1, hsf1, hms1⟩ := mid_foldl pol acts _ hm0
    obtain ⟨g1, g2, g3, g4, g5, g6⟩ := mid_clientDisconnected pol _ hm1
    have hs' : s' = (clientDisconnected pol (acts.foldl (stepAct pol) { s with conns := s.conns.eraseIdx i })).1 := by
      simp only [s', e, step, hi, if_true, proxyConnectionLost]
    have hdrop : connectionDrops s e = decide (s.ms = .connected ∧ Act.stop ∉ acts) := by
      simp only [e, connectionDrops, hc]
      by_cases h1 : s.ms = .connected <;> by_cases h2 : Act.stop ∈ acts <;> simp [h1, h2]
    refine ⟨?_, ?_, ?_, ?_, ?_, fun hd => ?_⟩
    · rw [hs']; exact g1
    · simp only [e, step, hi, if_true, proxyConnectionLost, g2]
      cases r <;> simp
    · rw [hs', g4, hf1]
      simp only [failures, isSuccess, attemptFails, hdrop, e, Bool.false_or]
      simp only [hms1]
      by_cases h : s.ms = .connected ∧ Act.stop ∉ acts <;> simp [h]
    · intro t _ ht; rw [hs'] at ht ⊢; exact g5 t ht
    · intro _; rw [hs']; exact g3
    · rw [hdrop, decide_eq_true_iff] at hd
      have := g6 (hms1.mpr hd)
      rw [hs']
      exact ⟨this.1, this.2.1, g3, this.2.2⟩
  · have hs' : s' = s := by simp only [s', e, step, hi, if_false]
    have hnone : s.conns[i]? = none := List.getElem?_eq_none (Nat.le_of_not_lt hi)
    have hdrop : connectionDrops s e = false := by simp only [e, connectionDrops, hnone]
    refine ⟨?_, ?_, ?_, fun t h0 ht => ?_, fun h => ?_, fun hd => ?_⟩
    · rw [hs']; exact hg
    · simp only [e, step, hi, if_false]; simp
    · rw [hs']; simp [failures, isSuccess, attemptFails, hdrop, e]
    · rw [hs', h0] at ht; cases ht
    · rw [hs'] at h; exact absurd rfl h
    · rw [hdrop] at hd; cases hd

/-- after the loss of a connection of a good state has been delivered nothing is open, whatever the handler did -/
theorem dropH_conns_nil (pol : Nat → Nat) (s : St) (i : Nat) (acts : List Act) (r : Bool) (hg : Good s)
    (hi : i < s.conns.length) : (step pol s (.dropH i acts r)).1.conns = [] := by
  have hm1 := (mid_foldl pol acts _ (good_erase s i hg hi).1).1
  simp only [step, hi, if_true, proxyConnectionLost]
  exact (mid_clientDisconnected pol _ hm1).2.2.1

end TwistedProps.C58
