import TwistedModel.App.ClientService
import TwistedProps.C58.Defs
import TwistedProps.C58.Handler
/-!
C58, part 2c — what every single event does to a state satisfying the invariant `Good`.
-/
namespace TwistedProps.C58
open Twisted.App.ClientService

local macro "crunch" : tactic => `(tactic|
  simp_all [step, Good, mStart, mStop, mWhen, outcome, connectionMade, connectionFailed, clientDisconnected, reconnect,
      attemptConnection, waitForRetry, waitForStop, unawait, finishStopping, failedWhenConnecting,
      disconnectingFinished, markClosing, failures, isSuccess, attemptFails, connectionDrops])

/-- Everything one event does to a good state (one exhaustive case analysis: 7 states × 13 event shapes). -/
theorem good_step (pol : Nat → Nat) (s : St) (e : Ev) (hg : Good s) (he : hookFree e = true) :
    let s' := (step pol s e).1
    Good s' ∧ (step pol s e).2 ≠ .rejected
    ∧ s'.failed = failures s.failed s e
    ∧ (∀ r, s.timer = none → s'.timer = some r → r = pol s'.failed)
    ∧ (isSuccess s e = true → s'.waiters = [] ∧ ∃ c, s'.fired = s.fired ++ s.waiters.map fun w => (w.1, WRes.conn c))
    ∧ (attemptFails s e = true → s' = failedWhenConnecting (waitForRetry pol { s with ms := .waiting, att := .none }))
    ∧ (s'.stopFired ≠ s.stopFired → s'.conns = [])
    ∧ (s.att = .none → s'.att = .pending → e = .start ∨ (∃ i, e = .drop i) ∨ (∃ t r, e = .adv t ∧ s.timer = some r ∧ r ≤ t)
        ∨ ∃ i acts r, e = .dropH i acts r) := by
  by_cases hd : ∃ i acts r, e = .dropH i acts r
  · obtain ⟨i, acts, r, rfl⟩ := hd
    obtain ⟨g1, g2, g3, g4, g5, _⟩ := good_step_dropH pol s i acts r hg
    exact ⟨g1, g2, g3, g4, by simp [isSuccess], by simp [attemptFails], g5, fun _ _ => by simp⟩
  rcases s with ⟨ms, running, cur, att, conns, nconn, timer, failed, waiters, nwait, fired, stopWaiters, nstop, stopFired⟩
  cases e with
  | csucc p =>
    cases p <;> simp [hookFree] at he <;> cases ms <;> cases timer <;> crunch
    all_goals exact ⟨_, fun _ _ _ => rfl⟩
  | adv t =>
    cases timer with
    | none => cases ms <;> crunch
    | some r => by_cases h : r ≤ t <;> simp only [step, h, ↓reduceIte] <;> cases ms <;> crunch
  | drop i => cases i <;> cases ms <;> cases timer <;> crunch
  | dropH i acts r => exact absurd ⟨i, acts, r, rfl⟩ hd
  | _ => cases ms <;> cases timer <;> crunch

/-- a plain `Protocol`'s handler does nothing -/
theorem drop_eq_dropH (pol : Nat → Nat) (s : St) (i : Nat) : step pol s (.drop i) = step pol s (.dropH i [] false) := by
  have h : ∀ x : St × Bool, outcome x = (x.1, if !x.2 then .rejected else if false then .raised else .ok) := by
    rintro ⟨a, b⟩; cases b <;> rfl
  simp only [step, proxyConnectionLost, List.foldl_nil]
  split
  · exact h _
  · rfl

/-- The loss of a connection that nobody asked to close — with ANY application handler (plain, re-entrant, raising) —
    is noticed at once: the machine is `Waiting`, the retry is scheduled after the policy's delay for the new
    failure count, and nothing is left open. -/
theorem good_step_drops (pol : Nat → Nat) (s : St) (e : Ev) (hg : Good s) (hd : connectionDrops s e = true) :
    let s' := (step pol s e).1
    s'.ms = .waiting ∧ s'.timer = some (pol s'.failed) ∧ s'.conns = [] ∧ s'.att = .none := by
  cases e with
  | dropH i acts r => exact (good_step_dropH pol s i acts r hg).2.2.2.2.2 hd
  | drop i =>
    rw [drop_eq_dropH]
    refine (good_step_dropH pol s i [] false hg).2.2.2.2.2 ?_
    simpa [connectionDrops] using hd
  | _ => simp [connectionDrops] at hd

end TwistedProps.C58
