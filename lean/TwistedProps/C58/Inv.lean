import TwistedModel.App.ClientService
/-!
C58, part 2 — the reachability invariant of the service for histories whose `prepareConnection` hook (if any)
always returns normally, and what every single event does to a state satisfying it.
-/
namespace TwistedProps.C58
open Twisted.App.ClientService

/-- the event does not involve a `prepareConnection` hook that raises or returns a Deferred -/
def hookFree : Ev → Bool
  | .csucc .raise | .csucc .defer => false
  | _ => true

/-- What the environment looks like in each machine state: the real content of "no event is rejected".
    E.g. in `Connecting` the endpoint's Deferred is pending and NO connection is open — which is exactly what
    fails while a `prepareConnection` Deferred is pending (see the counterexamples). -/
def Good (s : St) : Prop :=
  match s.ms with
  | .init => s.running = false ∧ s.att = .none ∧ s.conns = [] ∧ s.timer = none ∧ s.stopWaiters = [] ∧ s.nstop = 0
  | .connecting => s.running = true ∧ s.att = .pending ∧ s.conns = [] ∧ s.timer = none ∧ s.stopWaiters = []
  | .waiting => s.running = true ∧ s.att = .none ∧ s.conns = [] ∧ s.timer.isSome = true ∧ s.stopWaiters = []
  | .connected => s.running = true ∧ s.att = .none ∧ s.conns = [⟨s.cur, false⟩] ∧ s.timer = none ∧ s.stopWaiters = [] ∧ s.waiters = []
  | .disconnecting => s.running = false ∧ s.att = .none ∧ s.conns = [⟨s.cur, true⟩] ∧ s.timer = none ∧ s.stopWaiters ≠ [] ∧ 0 < s.nstop
  | .restarting => s.running = true ∧ s.att = .none ∧ s.conns = [⟨s.cur, true⟩] ∧ s.timer = none ∧ s.stopWaiters ≠ [] ∧ 0 < s.nstop
  | .stopped => s.running = false ∧ s.att = .none ∧ s.conns = [] ∧ s.timer = none ∧ s.stopWaiters = [] ∧ s.waiters = [] ∧ 0 < s.nstop

/-! ### the environment's own view of an event (no machine state involved) -/

/-- a connection is established and accepted -/
def isSuccess (s : St) : Ev → Bool
  | .csucc .plain | .csucc .ok => decide (s.att = .pending)
  | .prepok => match s.att with | .preparing _ => true | _ => false
  | _ => false

/-- the attempt in progress fails (refused, or rejected by the hook) -/
def attemptFails (s : St) : Ev → Bool
  | .cfail | .csucc .raise => decide (s.att = .pending)
  | .prepfail => match s.att with | .preparing _ => true | _ => false
  | _ => false

/-- an open connection that nobody asked to close is lost -/
def connectionDrops (s : St) : Ev → Bool
  | .drop i => match s.conns[i]? with | some c => !c.closing | none => false
  | _ => false

/-- number of consecutive failures after event `e` in state `s`, given `k` before it -/
def failures (k : Nat) (s : St) (e : Ev) : Nat :=
  if isSuccess s e then 0 else if attemptFails s e || connectionDrops s e then k + 1 else k

/-- number of consecutive failures (failed attempts and unsolicited drops since the last established connection)
    at the end of history `h` from state `s`, seen from the environment -/
def consecutiveFailures (pol : Nat → Nat) : St → Nat → List Ev → Nat
  | _, k, [] => k
  | s, k, e :: es => consecutiveFailures pol (step pol s e).1 (failures k s e) es

local macro "crunch" : tactic => `(tactic|
  simp_all [step, Good, mStart, mStop, mWhen, outcome, connectionMade, connectionFailed, clientDisconnected, reconnect,
      attemptConnection, waitForRetry, waitForStop, unawait, finishStopping, failedWhenConnecting,
      disconnectingFinished, markClosing, failures, isSuccess, attemptFails, connectionDrops])

/-- Everything one event does to a good state (one exhaustive case analysis: 7 states × 13 event shapes). -/
theorem good_step (pol : Nat → Nat) (s : St) (e : Ev) (hg : Good s) (he : hookFree e = true) :
    let s' := (step pol s e).1
    Good s' ∧ (step pol s e).2 ≠ .rejected
    ∧ s'.failed = failures s.failed s e
    ∧ (∀ r, s.timer = none → s'.timer = some r → r = pol s'.failed)
    ∧ (isSuccess s e = true → s'.waiters = [] ∧ ∃ c, s'.fired = s.fired ++ s.waiters.map fun w => (w.1, WRes.conn c))
    ∧ (attemptFails s e = true → s' = failedWhenConnecting (waitForRetry pol { s with ms := .waiting, att := .none }))
    ∧ (s'.stopFired ≠ s.stopFired → s'.conns = [])
    ∧ (s.att = .none → s'.att = .pending → e = .start ∨ (∃ i, e = .drop i) ∨ ∃ t r, e = .adv t ∧ s.timer = some r ∧ r ≤ t) := by
  rcases s with ⟨ms, running, cur, att, conns, nconn, timer, failed, waiters, nwait, fired, stopWaiters, nstop, stopFired⟩
  cases e with
  | csucc p =>
    cases p <;> simp [hookFree] at he <;> cases ms <;> cases timer <;> crunch
    all_goals exact ⟨_, fun _ _ _ => rfl⟩
  | adv t =>
    cases timer with
    | none => cases ms <;> crunch
    | some r => by_cases h : r ≤ t <;> simp only [step, h, ↓reduceIte] <;> cases ms <;> crunch
  | drop i => cases i <;> cases ms <;> cases timer <;> crunch
  | _ => cases ms <;> cases timer <;> crunch

end TwistedProps.C58
