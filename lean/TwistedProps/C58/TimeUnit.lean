import TwistedModel.App.ClientService
/-!
C58, part 5 — time-unit invariance.  The model measures time in natural numbers; the real service is driven with
floating-point seconds.  `step_time_unit` / `run_time_unit`: expressing every duration (the policy's delays, the clock
advances, the pending retry) in a unit `k` times finer changes nothing but that unit — so a history played on the
real service with delays of `(a*n+b)/k` seconds and advances of `t/k` seconds (harness/corr/C58.py, `case["scale"] = k`)
is the natural-number history `a*n+b`, `adv t` of the model, whose unit is then `1/k` second.
-/
namespace TwistedProps.C58
open Twisted.App.ClientService

/-- the same state with the pending retry's remaining time expressed in a unit `k` times finer -/
def scaleSt (k : Nat) (s : St) : St := { s with timer := s.timer.map (k * ·) }

/-- the same event with the clock advance expressed in the finer unit -/
def scaleEv (k : Nat) : Ev → Ev
  | .adv t => .adv (k * t)
  | e => e

theorem scale_unawait (k : Nat) (s : St) (r : WRes) : unawait (scaleSt k s) r = scaleSt k (unawait s r) := rfl
theorem scale_finishStopping (k : Nat) (s : St) : finishStopping (scaleSt k s) = scaleSt k (finishStopping s) := rfl
theorem scale_waitForStop (k : Nat) (s : St) : waitForStop (scaleSt k s) = scaleSt k (waitForStop s) := rfl
theorem scale_waitForRetry (k : Nat) (pol : Nat → Nat) (s : St) :
    waitForRetry (fun n => k * pol n) (scaleSt k s) = scaleSt k (waitForRetry pol s) := rfl
theorem scale_attemptConnection (k : Nat) (s : St) : attemptConnection (scaleSt k s) = scaleSt k (attemptConnection s) := rfl
theorem scale_failedWhenConnecting (k : Nat) (s : St) :
    failedWhenConnecting (scaleSt k s) = scaleSt k (failedWhenConnecting s) := rfl
theorem scale_disconnectingFinished (k : Nat) (s : St) :
    disconnectingFinished (scaleSt k s) = scaleSt k (disconnectingFinished s) := rfl

theorem scale_connectionFailed (k : Nat) (pol : Nat → Nat) (s : St) :
    connectionFailed (fun n => k * pol n) (scaleSt k s) = (scaleSt k (connectionFailed pol s).1, (connectionFailed pol s).2) := by
  rcases s with ⟨ms, running, cur, att, conns, nconn, timer, failed, waiters, nwait, fired, stopWaiters, nstop, stopFired⟩
  cases ms <;> rfl

theorem scale_connectionMade (k : Nat) (pol : Nat → Nat) (s : St) (c : Nat) :
    connectionMade (fun n => k * pol n) (scaleSt k s) c = (scaleSt k (connectionMade pol s c).1, (connectionMade pol s c).2) := by
  rcases s with ⟨ms, running, cur, att, conns, nconn, timer, failed, waiters, nwait, fired, stopWaiters, nstop, stopFired⟩
  cases ms <;> rfl

theorem scale_clientDisconnected (k : Nat) (pol : Nat → Nat) (s : St) :
    clientDisconnected (fun n => k * pol n) (scaleSt k s)
      = (scaleSt k (clientDisconnected pol s).1, (clientDisconnected pol s).2) := by
  rcases s with ⟨ms, running, cur, att, conns, nconn, timer, failed, waiters, nwait, fired, stopWaiters, nstop, stopFired⟩
  cases ms <;> rfl

theorem scale_reconnect (k : Nat) (s : St) : reconnect (scaleSt k s) = (scaleSt k (reconnect s).1, (reconnect s).2) := by
  rcases s with ⟨ms, running, cur, att, conns, nconn, timer, failed, waiters, nwait, fired, stopWaiters, nstop, stopFired⟩
  cases ms <;> rfl

theorem scale_mStart (k : Nat) (s : St) : mStart (scaleSt k s) = scaleSt k (mStart s) := by
  rcases s with ⟨ms, running, cur, att, conns, nconn, timer, failed, waiters, nwait, fired, stopWaiters, nstop, stopFired⟩
  cases ms <;> rfl

theorem scale_mStop (k : Nat) (pol : Nat → Nat) (s : St) :
    mStop (fun n => k * pol n) (scaleSt k s) = scaleSt k (mStop pol s) := by
  rcases s with ⟨ms, running, cur, att, conns, nconn, timer, failed, waiters, nwait, fired, stopWaiters, nstop, stopFired⟩
  cases ms <;> try rfl
  · cases att <;> rfl

theorem scale_mWhen (k : Nat) (s : St) (l : Option Nat) : mWhen (scaleSt k s) l = scaleSt k (mWhen s l) := by
  rcases s with ⟨ms, running, cur, att, conns, nconn, timer, failed, waiters, nwait, fired, stopWaiters, nstop, stopFired⟩
  cases ms <;> rfl

theorem scale_stepAct (k : Nat) (pol : Nat → Nat) (s : St) (a : Act) :
    stepAct (fun n => k * pol n) (scaleSt k s) a = scaleSt k (stepAct pol s a) := by
  cases a with
  | start =>
    simp only [stepAct]
    have : (scaleSt k s).running = s.running := rfl
    rw [this]
    split
    · rfl
    · exact scale_mStart k { s with running := true }
  | stop => exact scale_mStop k pol { s with running := false }
  | «when» l => exact scale_mWhen k s l

theorem scale_foldl_stepAct (k : Nat) (pol : Nat → Nat) (acts : List Act) (s : St) :
    acts.foldl (stepAct (fun n => k * pol n)) (scaleSt k s) = scaleSt k (acts.foldl (stepAct pol) s) := by
  induction acts generalizing s with
  | nil => rfl
  | cons a as ih => simp only [List.foldl_cons, scale_stepAct, ih]

theorem scale_outcome (k : Nat) (r : St × Bool) :
    outcome (scaleSt k r.1, r.2) = (scaleSt k (outcome r).1, (outcome r).2) := rfl

/-- TIME-UNIT INVARIANCE (any state, any event, any policy, any `k > 0`): running the service with every duration
    — the policy's delays, the clock advances, the pending retry — expressed in a unit `k` times finer gives the same
    outcome and the same state (in the finer unit).  This is what lets the tie play histories whose delays are
    fractions of a second against the natural-number model. -/
theorem step_time_unit (k : Nat) (hk : 0 < k) (pol : Nat → Nat) (s : St) (e : Ev) :
    step (fun n => k * pol n) (scaleSt k s) (scaleEv k e) = (scaleSt k (step pol s e).1, (step pol s e).2) := by
  cases e with
  | start =>
    simp only [step, scaleEv]
    have : (scaleSt k s).running = s.running := rfl
    rw [this]
    split
    · rfl
    · rw [← scale_mStart]; rfl
  | stop => simp only [step, scaleEv]; rw [← scale_mStop]; rfl
  | «when» l => simp only [step, scaleEv]; rw [← scale_mWhen]
  | csucc p =>
    rcases s with ⟨ms, running, cur, att, conns, nconn, timer, failed, waiters, nwait, fired, stopWaiters, nstop, stopFired⟩
    cases att <;> cases p <;> cases ms <;> rfl
  | cfail =>
    rcases s with ⟨ms, running, cur, att, conns, nconn, timer, failed, waiters, nwait, fired, stopWaiters, nstop, stopFired⟩
    cases att <;> cases ms <;> rfl
  | prepok =>
    rcases s with ⟨ms, running, cur, att, conns, nconn, timer, failed, waiters, nwait, fired, stopWaiters, nstop, stopFired⟩
    cases att <;> cases ms <;> rfl
  | prepfail =>
    rcases s with ⟨ms, running, cur, att, conns, nconn, timer, failed, waiters, nwait, fired, stopWaiters, nstop, stopFired⟩
    cases att <;> cases ms <;> rfl
  | drop i =>
    simp only [step, scaleEv]
    have : (scaleSt k s).conns = s.conns := rfl
    rw [this]
    split
    · rcases s with ⟨ms, running, cur, att, conns, nconn, timer, failed, waiters, nwait, fired, stopWaiters, nstop, stopFired⟩
      cases ms <;> rfl
    · rfl
  | dropH i acts r =>
    simp only [step, scaleEv, proxyConnectionLost]
    have : (scaleSt k s).conns = s.conns := rfl
    rw [this]
    split
    · have h1 := scale_foldl_stepAct k pol acts { s with conns := s.conns.eraseIdx i }
      have h2 := scale_clientDisconnected k pol (acts.foldl (stepAct pol) { s with conns := s.conns.eraseIdx i })
      have h3 : ({ scaleSt k s with conns := s.conns.eraseIdx i } : St) = scaleSt k { s with conns := s.conns.eraseIdx i } := rfl
      rw [h3, h1, h2]
    · rfl
  | adv t =>
    rcases s with ⟨ms, running, cur, att, conns, nconn, timer, failed, waiters, nwait, fired, stopWaiters, nstop, stopFired⟩
    cases timer with
    | none => rfl
    | some r =>
      simp only [step, scaleEv, scaleSt, Option.map_some]
      by_cases h : r ≤ t
      · have h' : k * r ≤ k * t := Nat.mul_le_mul_left k h
        simp only [h, h', if_true]
        cases ms <;> rfl
      · have h' : ¬ k * r ≤ k * t := fun hc => h (Nat.le_of_mul_le_mul_left hc hk)
        simp only [h, h', if_false, Option.map_some, Nat.mul_sub]

/-- … and therefore for whole histories -/
theorem run_time_unit (k : Nat) (hk : 0 < k) (pol : Nat → Nat) (s : St) (h : List Ev) :
    run (fun n => k * pol n) (scaleSt k s) (h.map (scaleEv k)) = scaleSt k (run pol s h)
    ∧ (exec (fun n => k * pol n) (scaleSt k s) (h.map (scaleEv k))).map (·.2) = (exec pol s h).map (·.2) := by
  induction h generalizing s with
  | nil => exact ⟨rfl, rfl⟩
  | cons e es ih =>
    simp only [List.map_cons, run, exec, step_time_unit k hk pol s e]
    exact ⟨(ih _).1, by rw [(ih _).2]⟩

-- non-vacuity: quarter-second units — policy 2n quarters; the retry after the first failure comes after 2 quarters
example : (run (fun n => 4 * (2 * n)) (scaleSt 4 init) ([Ev.start, .cfail, .adv 1, .adv 1].map (scaleEv 4))).ms = .connecting
    ∧ (run (fun n => 4 * (2 * n)) (scaleSt 4 init) ([Ev.start, .cfail, .adv 1].map (scaleEv 4))).timer = some 4 := by decide

end TwistedProps.C58
