import TwistedModel.App.ClientService
import TwistedProps.C58.Defs
/-!
C58, part 3 — consumers that call `startService()` from a callback of a whenConnected / stopService Deferred.
The re-entrant start is postponed by automat to the end of the transition that fired the Deferred, so it is
nothing but an ordinary `start` (a `startService` call of the `connectionLost` handler, when it happens inside one)
issued right after the call that fired the Deferred: every history with restarting consumers (`runC`) IS a plain
history (`run`) with those starts written out — `runC_eq_run_expand` — and all theorems about plain histories apply.
-/
namespace TwistedProps.C58
open Twisted.App.ClientService

theorem step_start_fst (pol : Nat → Nat) (s : St) : (step pol s .start).1 = stepAct pol s .start := by
  simp only [step, stepAct]; split <;> rfl

theorem run_app (pol : Nat → Nat) (s : St) (a b : List Ev) : run pol s (a ++ b) = run pol (run pol s a) b := by
  induction a generalizing s with
  | nil => rfl
  | cons e es ih => exact ih _

/-- the handler program with the consumers' restarts written out -/
def expandActs (pol : Nat → Nat) (fl : Flags) : St → List Act → List Act
  | _, [] => []
  | s, a :: as =>
    let s' := stepAct pol s a
    if restartDue fl s s' then a :: .start :: expandActs pol fl (stepAct pol s' .start) as
    else a :: expandActs pol fl s' as

theorem foldl_expandActs (pol : Nat → Nat) (fl : Flags) (acts : List Act) (s : St) :
    acts.foldl (fun t a => afterC pol fl t (stepAct pol t a)) s = (expandActs pol fl s acts).foldl (stepAct pol) s := by
  induction acts generalizing s with
  | nil => rfl
  | cons a as ih =>
    simp only [List.foldl_cons, expandActs, afterC]
    split
    · simp only [List.foldl_cons]; exact ih _
    · simp only [List.foldl_cons]; exact ih _

/-- the event with the consumers' restarts written out: inside the handler program, and as a `start` event after it -/
def expandEv (pol : Nat → Nat) (fl : Flags) (s : St) : Ev → List Ev
  | .dropH i acts raises =>
    if i < s.conns.length then
      let s0 := { s with conns := s.conns.eraseIdx i }
      let acts' := expandActs pol fl s0 acts
      let s1 := acts'.foldl (stepAct pol) s0
      .dropH i acts' raises :: (if restartDue fl s1 (clientDisconnected pol s1).1 then [.start] else [])
    else [.dropH i acts raises]
  | e => e :: (if restartDue fl s (step pol s e).1 then [.start] else [])

theorem stepC_eq_run_expandEv (pol : Nat → Nat) (fl : Flags) (s : St) (e : Ev) :
    (stepC pol fl s e).1 = run pol s (expandEv pol fl s e) := by
  cases e with
  | dropH i acts raises =>
    simp only [stepC, expandEv]
    split
    · rename_i hi
      simp only [foldl_expandActs]
      simp only [afterC]
      split
      · simp only [run, step_start_fst]
        simp only [step, hi, if_true, proxyConnectionLost]
      · simp only [run, step, hi, if_true, proxyConnectionLost]
    · rename_i hi
      simp only [run, step, hi, if_false]
  | _ =>
    simp only [stepC, expandEv, afterC]
    split <;> simp only [run, step_start_fst]

/-- … and the outcome of the event is the outcome of its expansion's first event (the written-out `start`s are
    never rejected: `step … .start` always answers `ok`/`dup`) -/
theorem stepC_outcome (pol : Nat → Nat) (fl : Flags) (s : St) (e : Ev) :
    ∃ e' rest, expandEv pol fl s e = e' :: rest ∧ hookFree e' = hookFree e ∧ (stepC pol fl s e).2 = (step pol s e').2 := by
  cases e with
  | dropH i acts raises =>
    simp only [stepC, expandEv]
    split
    · rename_i hi
      refine ⟨_, _, rfl, rfl, ?_⟩
      simp only [foldl_expandActs]
      simp only [step, hi, if_true, proxyConnectionLost]
    · rename_i hi
      refine ⟨_, _, rfl, rfl, ?_⟩
      simp only [step, hi, if_false]
  | _ => exact ⟨_, _, rfl, rfl, rfl⟩

/-- the whole history with the restarts written out -/
def expand (pol : Nat → Nat) : Flags → St → List EvC → List Ev
  | _, _, [] => []
  | fl, s, e :: es =>
    let fl' := flag fl s e
    expandEv pol fl' s e.ev ++ expand pol fl' (stepC pol fl' s e.ev).1 es

/-- A history with restarting consumers is the plain history with their `start`s written out. -/
theorem runC_eq_run_expand (pol : Nat → Nat) (fl : Flags) (s : St) (h : List EvC) :
    runC pol fl s h = run pol s (expand pol fl s h) := by
  induction h generalizing fl s with
  | nil => rfl
  | cons e es ih =>
    simp only [runC, expand, run_app, ← stepC_eq_run_expandEv]
    exact ih _ _

theorem hookFree_expandEv (pol : Nat → Nat) (fl : Flags) (s : St) (e : Ev) (he : hookFree e = true) :
    ∀ x ∈ expandEv pol fl s e, hookFree x = true := by
  intro x hx
  cases e with
  | dropH i acts raises =>
    simp only [expandEv] at hx
    split at hx
    · simp only [List.mem_cons] at hx
      rcases hx with rfl | hx
      · rfl
      · split at hx <;> simp at hx; subst hx; rfl
    · simp only [List.mem_singleton] at hx; subst hx; rfl
  | _ =>
    simp only [expandEv, List.mem_cons] at hx
    rcases hx with rfl | hx
    · exact he
    · split at hx <;> simp at hx; subst hx; rfl

theorem hookFree_expand (pol : Nat → Nat) (fl : Flags) (s : St) (h : List EvC)
    (hf : ∀ e ∈ h, hookFree e.ev = true) : ∀ x ∈ expand pol fl s h, hookFree x = true := by
  induction h generalizing fl s with
  | nil => intro x hx; cases hx
  | cons e es ih =>
    intro x hx
    simp only [expand, List.mem_append] at hx
    rcases hx with hx | hx
    · exact hookFree_expandEv pol _ s e.ev (hf e (by simp)) x hx
    · exact ih _ _ (fun y hy => hf y (by simp [hy])) x hx

end TwistedProps.C58
