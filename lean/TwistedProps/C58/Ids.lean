import TwistedModel.App.ClientService
/-!
C58, part 1 — bookkeeping of the Deferreds handed out, for ALL histories (every event, with or without a
`prepareConnection` hook, accepted or rejected): the ids in `awaitingConnected` together with the ids already
fired are always a permutation of the ids handed out, and the same for the stopService Deferreds.  Hence
no Deferred is fired twice, none is lost, and a fired one is never also waiting.
-/
namespace TwistedProps.C58
open Twisted.App.ClientService

/-- ids of the whenConnected Deferreds still in `awaitingConnected`, then those fired -/
def wids (s : St) : List Nat := s.waiters.map (·.1) ++ s.fired.map (·.1)
/-- ids of the stopService Deferreds still in `stopWaiters`, then those fired -/
def sids (s : St) : List Nat := s.stopWaiters ++ s.stopFired

/-- `s'` has the same Deferreds as `s`, possibly moved from waiting to fired -/
def Keeps (s' s : St) : Prop :=
  (wids s').Perm (wids s) ∧ s'.nwait = s.nwait ∧ (sids s').Perm (sids s) ∧ s'.nstop = s.nstop

theorem Keeps.refl (s : St) : Keeps s s := ⟨.refl _, rfl, .refl _, rfl⟩

theorem Keeps.trans {a b c : St} (h1 : Keeps a b) (h2 : Keeps b c) : Keeps a c :=
  ⟨h1.1.trans h2.1, h1.2.1.trans h2.2.1, h1.2.2.1.trans h2.2.2.1, h1.2.2.2.trans h2.2.2.2⟩

theorem Keeps.of_eq {s' s : St} (h1 : s'.waiters = s.waiters) (h2 : s'.fired = s.fired) (h3 : s'.nwait = s.nwait)
    (h4 : s'.stopWaiters = s.stopWaiters) (h5 : s'.stopFired = s.stopFired) (h6 : s'.nstop = s.nstop) : Keeps s' s := by
  refine ⟨?_, h3, ?_, h6⟩
  · simp [wids, h1, h2]
  · simp [sids, h4, h5]

theorem keeps_unawait (s : St) (r : WRes) : Keeps (unawait s r) s := by
  refine ⟨?_, rfl, .refl _, rfl⟩
  simp only [wids, unawait, List.map_nil, List.nil_append, List.map_append, List.map_map]
  exact List.perm_append_comm

theorem keeps_finishStopping (s : St) : Keeps (finishStopping s) s := by
  refine ⟨.refl _, rfl, ?_, rfl⟩
  simp only [sids, finishStopping, List.nil_append]
  exact List.perm_append_comm

theorem map_fst_decrement (l : List (Nat × Option Nat)) : (l.map decrement).map (·.1) = l.map (·.1) := by
  induction l with
  | nil => rfl
  | cons w l ih =>
    simp only [List.map_cons, ih]
    congr 1
    unfold decrement; cases w.2 <;> rfl

theorem keeps_failedWhenConnecting (s : St) : Keeps (failedWhenConnecting s) s := by
  refine ⟨?_, rfl, .refl _, rfl⟩
  simp only [wids, failedWhenConnecting, List.map_append, map_fst_decrement]
  rw [List.map_map]
  have hf : ((s.waiters.filter isReady).map ((·.1) ∘ fun w => (w.1, WRes.failed))) = (s.waiters.filter isReady).map (·.1) := by
    apply List.map_congr_left; intro a _; rfl
  rw [hf]
  have hp : ((s.waiters.filter fun w => !isReady w).map (·.1) ++ (s.waiters.filter isReady).map (·.1)).Perm
      (s.waiters.map (·.1)) := by
    rw [← List.map_append]
    apply List.Perm.map
    exact List.perm_append_comm.trans (List.filter_append_perm isReady s.waiters)
  calc ((s.waiters.filter fun w => !isReady w).map (·.1) ++ (s.fired.map (·.1) ++ (s.waiters.filter isReady).map (·.1)))
      |>.Perm ((s.waiters.filter fun w => !isReady w).map (·.1) ++ ((s.waiters.filter isReady).map (·.1) ++ s.fired.map (·.1))) :=
        List.Perm.append_left _ List.perm_append_comm
    _ |>.Perm (s.waiters.map (·.1) ++ s.fired.map (·.1)) := by
        rw [← List.append_assoc]; exact List.Perm.append_right _ hp

theorem keeps_connectionFailed (pol : Nat → Nat) (s : St) : Keeps (connectionFailed pol s).1 s := by
  unfold connectionFailed
  split
  · exact (keeps_failedWhenConnecting _).trans (Keeps.of_eq rfl rfl rfl rfl rfl rfl)
  · exact Keeps.of_eq rfl rfl rfl rfl rfl rfl
  · exact ((keeps_finishStopping _).trans (keeps_unawait _ _)).trans (Keeps.of_eq rfl rfl rfl rfl rfl rfl)
  · exact Keeps.refl _

theorem keeps_connectionMade (pol : Nat → Nat) (s : St) (c : Nat) : Keeps (connectionMade pol s c).1 s := by
  unfold connectionMade
  split
  · exact (keeps_unawait _ _).trans (Keeps.of_eq rfl rfl rfl rfl rfl rfl)
  · exact keeps_connectionFailed pol s

theorem keeps_clientDisconnected (pol : Nat → Nat) (s : St) : Keeps (clientDisconnected pol s).1 s := by
  unfold clientDisconnected
  split
  · exact Keeps.of_eq rfl rfl rfl rfl rfl rfl
  · exact ((keeps_finishStopping _).trans (keeps_unawait _ _)).trans (Keeps.of_eq rfl rfl rfl rfl rfl rfl)
  · exact (keeps_finishStopping _).trans (Keeps.of_eq rfl rfl rfl rfl rfl rfl)
  · exact Keeps.refl _

theorem keeps_reconnect (s : St) : Keeps (reconnect s).1 s := by
  unfold reconnect
  split
  · exact Keeps.of_eq rfl rfl rfl rfl rfl rfl
  · exact Keeps.refl _

theorem keeps_mStart (s : St) : Keeps (mStart s) s := by
  unfold mStart
  split <;> first | exact Keeps.of_eq rfl rfl rfl rfl rfl rfl | exact Keeps.refl _

/-- the whenConnected / stopService Deferreds handed out so far are exactly: waiting ++ fired -/
def IdInv (s : St) : Prop := (wids s).Perm (List.range s.nwait) ∧ (sids s).Perm (List.range s.nstop)

theorem IdInv.keeps {s' s : St} (h : Keeps s' s) (hi : IdInv s) : IdInv s' :=
  ⟨h.2.1 ▸ h.1.trans hi.1, h.2.2.2 ▸ h.2.2.1.trans hi.2⟩

/-- one more stopService Deferred, waiting or fired at once -/
def OneMoreStop (s' s : St) : Prop :=
  (wids s').Perm (wids s) ∧ s'.nwait = s.nwait ∧ (sids s').Perm (sids s ++ [s.nstop]) ∧ s'.nstop = s.nstop + 1

theorem IdInv.oneMoreStop {s' s : St} (h : OneMoreStop s' s) (hi : IdInv s) : IdInv s' := by
  refine ⟨h.2.1 ▸ h.1.trans hi.1, ?_⟩
  rw [h.2.2.2, List.range_succ]
  exact h.2.2.1.trans (List.Perm.append_right _ hi.2)

theorem OneMoreStop.then_keeps {a b c : St} (h1 : Keeps a b) (h2 : OneMoreStop b c) : OneMoreStop a c :=
  ⟨h1.1.trans h2.1, h1.2.1.trans h2.2.1, h1.2.2.1.trans h2.2.2.1, h1.2.2.2.trans h2.2.2.2⟩

theorem oneMore_waitForStop (s : St) : OneMoreStop (waitForStop s) s := by
  refine ⟨.refl _, rfl, ?_, rfl⟩
  simp only [sids, waitForStop, List.append_assoc]
  exact List.Perm.append_left _ List.perm_append_comm

theorem oneMore_of_eq {s' s t : St} (h : OneMoreStop s' t) (h1 : t.waiters = s.waiters) (h2 : t.fired = s.fired)
    (h3 : t.nwait = s.nwait) (h4 : t.stopWaiters = s.stopWaiters) (h5 : t.stopFired = s.stopFired)
    (h6 : t.nstop = s.nstop) : OneMoreStop s' s := by
  obtain ⟨a, b, c, d⟩ := h
  refine ⟨?_, b.trans h3, ?_, d.trans (by rw [h6])⟩
  · simpa [wids, h1, h2] using a
  · simpa [sids, h4, h5, h6] using c

theorem oneMore_mStop (pol : Nat → Nat) (s : St) : OneMoreStop (mStop pol s) s := by
  unfold mStop
  split
  · -- init
    refine OneMoreStop.then_keeps (keeps_unawait _ _) ?_
    exact ⟨.refl _, rfl, by simp [sids], rfl⟩
  · exact ⟨.refl _, rfl, by simp [sids], rfl⟩
  · -- connecting
    have hw := oneMore_of_eq (oneMore_waitForStop { s with ms := .disconnecting }) rfl rfl rfl rfl rfl rfl
    dsimp only
    split
    · exact hw
    · exact OneMoreStop.then_keeps
        ((keeps_connectionFailed pol _).trans (Keeps.of_eq rfl rfl rfl rfl rfl rfl)) hw
  · -- waiting
    have hw := oneMore_of_eq (oneMore_waitForStop { s with ms := .stopped }) rfl rfl rfl rfl rfl rfl
    exact OneMoreStop.then_keeps
      ((keeps_finishStopping _).trans ((Keeps.of_eq rfl rfl rfl rfl rfl rfl).trans (keeps_unawait _ _))) hw
  · -- connected
    have hw := oneMore_of_eq (oneMore_waitForStop { s with ms := .disconnecting }) rfl rfl rfl rfl rfl rfl
    exact OneMoreStop.then_keeps (Keeps.of_eq rfl rfl rfl rfl rfl rfl) hw
  all_goals exact oneMore_of_eq (oneMore_waitForStop { s with ms := .disconnecting }) rfl rfl rfl rfl rfl rfl

theorem idInv_mWhen (s : St) (k : Option Nat) (hi : IdInv s) : IdInv (mWhen s k) := by
  obtain ⟨hw, hs⟩ := hi
  unfold mWhen
  split
  all_goals
    refine ⟨?_, hs⟩
    simp only [wids, List.map_append, List.map_cons, List.map_nil, List.range_succ]
  · rw [← List.append_assoc]; exact List.Perm.append_right _ hw
  · rw [← List.append_assoc]; exact List.Perm.append_right _ hw
  · have : (s.waiters.map (·.1) ++ [s.nwait] ++ s.fired.map (·.1)).Perm
        ((s.waiters.map (·.1) ++ s.fired.map (·.1)) ++ [s.nwait]) := by
      rw [List.append_assoc, List.append_assoc]
      exact List.Perm.append_left _ List.perm_append_comm
    exact this.trans (List.Perm.append_right _ hw)

/-- a service call made from inside the application's `connectionLost` handler keeps the books -/
theorem idInv_stepAct (pol : Nat → Nat) (s : St) (a : Act) (hi : IdInv s) : IdInv (stepAct pol s a) := by
  cases a with
  | «when» k => exact idInv_mWhen s k hi
  | start =>
    simp only [stepAct]; split
    · exact hi
    · exact hi.keeps ((keeps_mStart _).trans (Keeps.of_eq rfl rfl rfl rfl rfl rfl))
  | stop => exact IdInv.oneMoreStop (oneMore_of_eq (oneMore_mStop pol { s with running := false }) rfl rfl rfl rfl rfl rfl) hi

theorem idInv_foldl_stepAct (pol : Nat → Nat) (acts : List Act) (s : St) (hi : IdInv s) :
    IdInv (acts.foldl (stepAct pol) s) := by
  induction acts generalizing s with
  | nil => exact hi
  | cons a as ih => exact ih _ (idInv_stepAct pol s a hi)

theorem idInv_proxyConnectionLost (pol : Nat → Nat) (s : St) (acts : List Act) (r : Bool) (hi : IdInv s) :
    IdInv (proxyConnectionLost pol s acts r).1 :=
  (idInv_foldl_stepAct pol acts s hi).keeps (keeps_clientDisconnected pol _)

theorem idInv_step (pol : Nat → Nat) (s : St) (e : Ev) (hi : IdInv s) : IdInv (step pol s e).1 := by
  cases e with
  | dropH i acts r =>
    simp only [step]; split
    · exact idInv_proxyConnectionLost pol _ acts r (hi.keeps (Keeps.of_eq rfl rfl rfl rfl rfl rfl))
    · exact hi
  | start =>
    simp only [step]; split
    · exact hi
    · exact hi.keeps ((keeps_mStart _).trans (Keeps.of_eq rfl rfl rfl rfl rfl rfl))
  | stop => exact IdInv.oneMoreStop (oneMore_of_eq (oneMore_mStop pol { s with running := false }) rfl rfl rfl rfl rfl rfl) hi
  | «when» k => exact idInv_mWhen s k hi
  | csucc p =>
    simp only [step]; split
    · cases p
      · exact hi.keeps ((keeps_connectionMade pol _ _).trans (Keeps.of_eq rfl rfl rfl rfl rfl rfl))
      · exact hi.keeps ((keeps_connectionMade pol _ _).trans (Keeps.of_eq rfl rfl rfl rfl rfl rfl))
      · exact hi.keeps ((keeps_connectionFailed pol _).trans (Keeps.of_eq rfl rfl rfl rfl rfl rfl))
      · exact hi.keeps (Keeps.of_eq rfl rfl rfl rfl rfl rfl)
    · exact hi
  | cfail =>
    simp only [step]; split
    · exact hi.keeps ((keeps_connectionFailed pol _).trans (Keeps.of_eq rfl rfl rfl rfl rfl rfl))
    · exact hi
  | prepok =>
    simp only [step]; split
    · exact hi.keeps ((keeps_connectionMade pol _ _).trans (Keeps.of_eq rfl rfl rfl rfl rfl rfl))
    · exact hi
  | prepfail =>
    simp only [step]; split
    · exact hi.keeps ((keeps_connectionFailed pol _).trans (Keeps.of_eq rfl rfl rfl rfl rfl rfl))
    · exact hi
  | drop i =>
    simp only [step]; split
    · exact hi.keeps ((keeps_clientDisconnected pol _).trans (Keeps.of_eq rfl rfl rfl rfl rfl rfl))
    · exact hi
  | adv t =>
    simp only [step]; split
    · exact hi
    · split
      · exact hi.keeps ((keeps_reconnect _).trans (Keeps.of_eq rfl rfl rfl rfl rfl rfl))
      · exact hi.keeps (Keeps.of_eq rfl rfl rfl rfl rfl rfl)

theorem idInv_init : IdInv init := ⟨by simp [wids, init], by simp [sids, init]⟩

theorem idInv_run (pol : Nat → Nat) (s : St) (h : List Ev) (hi : IdInv s) : IdInv (run pol s h) := by
  induction h generalizing s with
  | nil => exact hi
  | cons e es ih => exact ih _ (idInv_step pol s e hi)

end TwistedProps.C58
