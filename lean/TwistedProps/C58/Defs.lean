import TwistedModel.App.ClientService
/-!
C58, part 2a — the reachability invariant of the service for histories whose `prepareConnection` hook (if any)
always returns normally, and the environment's own reading of an event.
-/
namespace TwistedProps.C58
open Twisted.App.ClientService

/-- the event does not involve a `prepareConnection` hook that raises or returns a Deferred -/
def hookFree : Ev → Bool
  | .csucc .raise | .csucc .defer => false
  | _ => true

/-- What the environment looks like in each machine state: the real content of "no event is rejected".
    E.g. in `Connecting` the endpoint's Deferred is pending and NO connection is open — which is exactly what
    fails while a `prepareConnection` Deferred is pending (see the counterexamples). -/
def Good (s : St) : Prop :=
  match s.ms with
  | .init => s.running = false ∧ s.att = .none ∧ s.conns = [] ∧ s.timer = none ∧ s.stopWaiters = [] ∧ s.nstop = 0
  | .connecting => s.running = true ∧ s.att = .pending ∧ s.conns = [] ∧ s.timer = none ∧ s.stopWaiters = []
  | .waiting => s.running = true ∧ s.att = .none ∧ s.conns = [] ∧ s.timer.isSome = true ∧ s.stopWaiters = []
  | .connected => s.running = true ∧ s.att = .none ∧ s.conns = [⟨s.cur, false⟩] ∧ s.timer = none ∧ s.stopWaiters = [] ∧ s.waiters = []
  | .disconnecting => s.running = false ∧ s.att = .none ∧ s.conns = [⟨s.cur, true⟩] ∧ s.timer = none ∧ s.stopWaiters ≠ [] ∧ 0 < s.nstop
  | .restarting => s.running = true ∧ s.att = .none ∧ s.conns = [⟨s.cur, true⟩] ∧ s.timer = none ∧ s.stopWaiters ≠ [] ∧ 0 < s.nstop
  | .stopped => s.running = false ∧ s.att = .none ∧ s.conns = [] ∧ s.timer = none ∧ s.stopWaiters = [] ∧ s.waiters = [] ∧ 0 < s.nstop

/-! ### the environment's own view of an event (no machine state involved) -/

/-- a connection is established and accepted -/
def isSuccess (s : St) : Ev → Bool
  | .csucc .plain | .csucc .ok => decide (s.att = .pending)
  | .prepok => match s.att with | .preparing _ => true | _ => false
  | _ => false

/-- the attempt in progress fails (refused, or rejected by the hook) -/
def attemptFails (s : St) : Ev → Bool
  | .cfail | .csucc .raise => decide (s.att = .pending)
  | .prepfail => match s.att with | .preparing _ => true | _ => false
  | _ => false

/-- an open connection that nobody asked to close is lost -/
def connectionDrops (s : St) : Ev → Bool
  | .drop i => match s.conns[i]? with | some c => !c.closing | none => false
  -- … and the application's handler did not itself ask the service to stop before the loss was fully delivered
  | .dropH i acts _ => match s.conns[i]? with | some c => !c.closing && !acts.contains .stop | none => false
  | _ => false

/-- number of consecutive failures after event `e` in state `s`, given `k` before it -/
def failures (k : Nat) (s : St) (e : Ev) : Nat :=
  if isSuccess s e then 0 else if attemptFails s e || connectionDrops s e then k + 1 else k

/-- number of consecutive failures (failed attempts and unsolicited drops since the last established connection)
    at the end of history `h` from state `s`, seen from the environment -/
def consecutiveFailures (pol : Nat → Nat) : St → Nat → List Ev → Nat
  | _, k, [] => k
  | s, k, e :: es => consecutiveFailures pol (step pol s e).1 (failures k s e) es

end TwistedProps.C58
