import TwistedProps.C39.Run
import TwistedProps.C39.Seg
/-!
C39 — telnet option negotiation always converges.

Statement (fixed): for two telnet endpoints whose policies accept the options they themselves request,
any sequence of enable and disable requests issued by either side, and any interleaving of in-flight
negotiation messages, every request's Deferred fires exactly once and negotiation terminates without
message loops.  Once all messages are delivered, both sides agree, for every option, on whether it is
enabled on each side.

Setting (`TwistedModel/Telnet/Negotiate.lean`): endpoints A (`false`) and B (`true`), each with its
`options` map (any number of options) and a fixed policy `pol side` (what `enableLocal` / `enableRemote`
answer); a history `ops` is any list of `Op.req side cmd option` (the public `will/wont/do/dont`) and
`Op.deliver side` (the oldest command in flight to `side` is received) — requests and deliveries
interleave arbitrarily, the two directions are FIFO.  `run pol Sys.init ops` is the final system and the
trace of events (commands written, Deferreds fired, hooks called, exceptions).

Hypothesis `wf pol ops`: every `do(o)` in the history is issued by an endpoint whose own `enableRemote`
accepts `o`.  (The statement's precondition also asks this of `will(o)`/`enableLocal`; the proofs do not
need that half, so the theorems cover more histories than the statement.)  Without the hypothesis
`will_no_true`'s `assert self.enableRemote(option)` fails — `needs_hypothesis` below.

Proof architecture: the system projected on one option and one direction ("link": P's `us`, Q's `him`,
the WILL/WONT and DO/DONT of that option in flight) moves like the abstract machine of `C39/Link.lean`
or stays put (`C39/Refine.lean`, `link_step`); a link has 40 reachable configurations (`R`, closed under
all steps by kernel `decide`), on which the facts used here are checked one by one; Deferred identities
are tracked by a ledger invariant (`C39/Once.lean`, `J`).  Everything is by induction over the history,
for every option at once — no bound on options, requests or schedule length.
-/
namespace TwistedProps.C39
open Twisted.Telnet.Negotiate

/-- **No handler ever raises**: in particular the two `assert False` cells (`will_yes_true`,
    `do_yes_true`) and the `enableRemote` assertion of `will_no_true` are unreachable, and
    `onResult` is never `None` when a handler fires it. -/
theorem handlers_total_on_reachable (pol : Bool → Policy) (ops : List Op) (h : wf pol ops) :
    raisedIn (run pol Sys.init ops).2 = false :=
  run_noraise pol ops _ (Inv_init pol) h

/-- **Every request's Deferred fires exactly once.**  Request number `i` (`i < numReq ops`) owns
    Deferred `i`.  At every moment no Deferred has fired twice and only Deferreds of issued requests
    have fired; a Deferred that has not fired yet is pending in exactly one `onResult` cell; and when
    nothing is in flight every one of them has fired exactly once. -/
theorem every_request_deferred_fires_once (pol : Bool → Policy) (ops : List Op) (h : wf pol ops) :
    let r := run pol Sys.init ops
    (firedIds r.2).Nodup ∧
    (∀ i ∈ firedIds r.2, i < numReq ops) ∧
    (∀ i, i < numReq ops → i ∈ firedIds r.2 ∨ ∃ sl, slotVal r.1 sl = some i) ∧
    (r.1.inbox false = [] → r.1.inbox true = [] → ∀ i, i < numReq ops → (firedIds r.2).count i = 1) := by
  intro r
  have hJ : J r.1 (firedIds r.2) := by
    have := run_J pol ops Sys.init [] (Inv_init pol) h J_init
    simpa using this
  have hn : r.1.nextId = numReq ops := by
    have := run_nextId pol ops Sys.init
    rw [show Sys.init.nextId = 0 from rfl, Nat.zero_add] at this
    exact this
  have hinv : Inv pol r.1 := run_inv pol ops _ (Inv_init pol) h
  refine ⟨hJ.nodup, ?_, ?_, ?_⟩
  · intro i hi; rw [← hn]; exact hJ.flt i hi
  · intro i hi; rw [← hn] at hi; exact hJ.total i hi
  · intro hA hB i hi
    rw [← hn] at hi
    rcases hJ.total i hi with hf | ⟨sl, hs⟩
    · rw [hJ.nodup.count, if_pos hf]
    · exfalso
      obtain ⟨x, o, u⟩ := sl
      have q1 := R_quiescent _ (hinv o x) (by cases x <;> simp [link, hA, hB, projPQ])
        (by cases x <;> simp [link, hA, hB, projQP])
      have q2 := R_quiescent _ (hinv o (!x)) (by cases x <;> simp [link, hA, hB, projPQ])
        (by cases x <;> simp [link, hA, hB, projQP])
      obtain ⟨hus, hhim⟩ := inv_has pol r.1 hinv x o
      simp only [link, erase, Bool.not_not] at q1 q2
      cases u
      · have := hhim q2.2.2
        simp [slotVal, sel, this] at hs
      · have := hus q1.2.1
        simp [slotVal, sel, this] at hs

/-- **No message loops, per option and direction**: the commands ever written about option `o` in
    the direction whose enabling side is `p` number at most twice the requests made about it. -/
theorem no_message_loops_per_link (pol : Bool → Policy) (ops : List Op) (h : wf pol ops)
    (o : Nat) (p : Bool) :
    sentOn o p (run pol Sys.init ops).2 ≤ 2 * reqOn o p ops := by
  have := run_sent pol ops o p Sys.init (Inv_init pol) h
  have h0 : phi (link pol Sys.init o p) = 0 := by
    have : link pol Sys.init o p = linit ((pol p).localOK o) ((pol (!p)).remoteOK o) := rfl
    rw [this]
    cases (pol p).localOK o <;> cases (pol (!p)).remoteOK o <;> decide
  omega

/-- **No message loops, in total**: at most two commands are ever written per request made. -/
theorem no_message_loops (pol : Bool → Policy) (ops : List Op) (h : wf pol ops) :
    sentCount (run pol Sys.init ops).2 ≤ 2 * numReq ops := by
  rw [← sentKeys_length, ← reqKeys_length]
  apply length_le_of_count_le 2 _ _ _ (Nat.le_refl _)
  intro k
  obtain ⟨o, p⟩ := k
  rw [sentKeys_count, reqKeys_count]
  exact no_message_loops_per_link pol ops h o p

/-- **Negotiation terminates**: however requests and deliveries interleave, the deliveries that
    actually hand a command to an endpoint number at most twice the requests — so after the last
    request at most that many deliveries can still happen, in any order, before both channels are
    empty (commands in flight + delivered = written, `run_conservation`). -/
theorem negotiation_terminates (pol : Bool → Policy) (ops : List Op) (h : wf pol ops) :
    effDeliveries pol Sys.init ops + inflight (run pol Sys.init ops).1 ≤ 2 * numReq ops := by
  have a := run_conservation pol ops Sys.init
  have b := no_message_loops pol ops h
  have c : inflight Sys.init = 0 := rfl
  omega

/-- **Agreement at quiescence**: with nothing in flight, for every option A's view of its own side
    equals B's view of A's side and vice versa, and no negotiation is pending anywhere. -/
theorem agreement_at_quiescence (pol : Bool → Policy) (ops : List Op) (h : wf pol ops) :
    let s := (run pol Sys.init ops).1
    s.inbox false = [] → s.inbox true = [] → ∀ o,
      (s.opts false o).us.state = (s.opts true o).him.state ∧
      (s.opts false o).him.state = (s.opts true o).us.state ∧
      (s.opts false o).us.negotiating = false ∧ (s.opts false o).him.negotiating = false ∧
      (s.opts true o).us.negotiating = false ∧ (s.opts true o).him.negotiating = false := by
  intro s hA hB o
  have hinv : Inv pol s := run_inv pol ops _ (Inv_init pol) h
  have q1 := R_quiescent _ (hinv o false) (by simp [link, hB, projPQ]) (by simp [link, hA, projQP])
  have q2 := R_quiescent _ (hinv o true) (by simp [link, hA, projPQ]) (by simp [link, hB, projQP])
  simp only [link, erase, Bool.not_false, Bool.not_true] at q1 q2
  exact ⟨q1.1, q2.1.symm, q1.2.1, q2.2.2, q2.2.1, q1.2.2⟩

/-- **C39** — the property as one statement. -/
theorem negotiation_converges (pol : Bool → Policy) (ops : List Op) (h : wf pol ops) :
    let r := run pol Sys.init ops
    -- no handler raises (the `assert False` cells are unreachable)
    raisedIn r.2 = false ∧
    -- no Deferred fires twice, and only Deferreds of issued requests fire
    (firedIds r.2).Nodup ∧ (∀ i ∈ firedIds r.2, i < numReq ops) ∧
    -- no message loops: ≤ 2 commands per request; effective deliveries are bounded by the same number
    sentCount r.2 ≤ 2 * numReq ops ∧
    effDeliveries pol Sys.init ops + inflight r.1 ≤ 2 * numReq ops ∧
    -- once everything is delivered: every request's Deferred has fired exactly once, both sides agree
    (r.1.inbox false = [] → r.1.inbox true = [] →
      (∀ i, i < numReq ops → (firedIds r.2).count i = 1) ∧
      ∀ o, (r.1.opts false o).us.state = (r.1.opts true o).him.state ∧
           (r.1.opts false o).him.state = (r.1.opts true o).us.state ∧
           (r.1.opts false o).us.negotiating = false ∧ (r.1.opts false o).him.negotiating = false ∧
           (r.1.opts true o).us.negotiating = false ∧ (r.1.opts true o).him.negotiating = false) := by
  intro r
  obtain ⟨f1, f2, _, f4⟩ := every_request_deferred_fires_once pol ops h
  exact ⟨handlers_total_on_reachable pol ops h, f1, f2, no_message_loops pol ops h,
    negotiation_terminates pol ops h,
    fun hA hB => ⟨f4 hA hB, agreement_at_quiescence pol ops h hA hB⟩⟩

/-- **C39 for every segmentation of the two byte streams and for synchronous transports.**  An extended
    history (`TwistedModel/Telnet/NegotiateSeg.lean`) also contains `bytes side n` (the next `n` bytes in
    flight arrive as one `dataReceived` segment — a fragment of a command, several commands, or a cut anywhere
    between) and `sreq side cmd option` (a request on a transport whose `write` delivers synchronously, so the
    peer's answers arrive before `will()/do()` returns).  Its run is the command-level run of the primitive
    history it unfolds to (`mrun_is_run`), with the same requests (`mrun_requests`), so everything
    `negotiation_converges` says holds for it, for its trace `tr` (the concatenated event groups). -/
theorem negotiation_converges_segmented (pol : Bool → Policy) (ops : List MOp) (h : mwf pol ops) :
    let r := mrun pol MSys.init ops
    let tr := r.2.1.flatten
    raisedIn tr = false ∧
    (firedIds tr).Nodup ∧ (∀ i ∈ firedIds tr, i < mnumReq ops) ∧
    sentCount tr ≤ 2 * mnumReq ops ∧ inflight r.1.sys ≤ 2 * mnumReq ops ∧
    (r.1.sys.inbox false = [] → r.1.sys.inbox true = [] →
      (∀ i, i < mnumReq ops → (firedIds tr).count i = 1) ∧
      ∀ o, (r.1.sys.opts false o).us.state = (r.1.sys.opts true o).him.state ∧
           (r.1.sys.opts false o).him.state = (r.1.sys.opts true o).us.state ∧
           (r.1.sys.opts false o).us.negotiating = false ∧ (r.1.sys.opts false o).him.negotiating = false ∧
           (r.1.sys.opts true o).us.negotiating = false ∧ (r.1.sys.opts true o).him.negotiating = false) := by
  intro r tr
  obtain ⟨w, n⟩ := mrun_requests pol ops MSys.init h
  have e : run pol Sys.init r.2.2 = (r.1.sys, tr) := mrun_is_run pol ops MSys.init
  have c := negotiation_converges pol r.2.2 w
  simp only [e] at c
  have n' : numReq r.2.2 = mnumReq ops := n
  rw [n'] at c
  obtain ⟨c1, c2, c3, c4, c5, c6⟩ := c
  exact ⟨c1, c2, c3, c4, by omega, c6⟩

/-- the pump started by a request after a well-formed history empties both channels -/
theorem drain_empties (pol : Bool → Policy) (hist : List Op) (h : wf pol hist) (fuel : Nat)
    (hf : 2 * numReq hist < fuel) :
    (run pol (run pol Sys.init hist).1 (drainOps pol fuel (run pol Sys.init hist).1)).1.inbox false = [] ∧
    (run pol (run pol Sys.init hist).1 (drainOps pol fuel (run pol Sys.init hist).1)).1.inbox true = [] := by
  rcases drain_progress pol fuel (run pol Sys.init hist).1 with h1 | h1
  · exact h1
  · exfalso
    have w : wf pol (hist ++ drainOps pol fuel (run pol Sys.init hist).1) := by
      intro p hp
      rcases List.mem_append.mp hp with hp | hp
      · exact h p hp
      · obtain ⟨y, hy⟩ := drainOps_deliver pol _ _ p hp
        rw [hy]; rfl
    have t := negotiation_terminates pol _ w
    rw [effDeliveries_append, numReq_append, drainOps_numReq] at t
    omega

/-- **A request on a synchronous transport returns with nothing in flight**: if the request writes its command,
    the pump it starts (answers, answers to answers, …) ends with both channels empty — within the number of
    rounds the model allows it, so no message loop can be started this way either. -/
theorem synchronous_request_quiesces (pol : Bool → Policy) (ops : List MOp) (x : Bool) (c : Cmd) (o : Nat)
    (h : mwf pol (ops ++ [.sreq x c o])) :
    let ms := (mrun pol MSys.init ops).1
    let r := mstep pol ms (.sreq x c o)
    hasSent (step pol ms.sys (.req x c o)).2 = true →
      r.1.sys.inbox false = [] ∧ r.1.sys.inbox true = [] := by
  intro ms r hs
  have hops : mwf pol ops := fun p hp => h p (List.mem_append.mpr (Or.inl hp))
  have hop : wfOp pol (.req x c o) = true := h (.sreq x c o) (by simp)
  obtain ⟨w, n⟩ := mrun_requests pol ops MSys.init hops
  have e : run pol Sys.init (mrun pol MSys.init ops).2.2 = (ms.sys, _) := mrun_is_run pol ops MSys.init
  have hid : ms.sys.nextId = numReq (mrun pol MSys.init ops).2.2 := by
    have := run_nextId pol (mrun pol MSys.init ops).2.2 Sys.init
    rw [e] at this
    simpa [Sys.init] using this
  let hist := (mrun pol MSys.init ops).2.2 ++ [Op.req x c o]
  have whist : wf pol hist := by
    intro p hp
    rcases List.mem_append.mp hp with hp | hp
    · exact w p hp
    · simp at hp; rw [hp]; exact hop
  have es : (run pol Sys.init hist).1 = (step pol ms.sys (.req x c o)).1 := by
    simp only [hist, run_append, e, run_cons, run_nil]
  have nh : numReq hist = ms.sys.nextId + 1 := by
    simp only [hist, numReq_append, hid]; simp [numReq, List.filter_cons, isReqOp]
  have d := drain_empties pol hist whist (2 * (ms.sys.nextId + 1) + 2) (by omega)
  simp only [es] at d
  have er : r.1.sys = (run pol (step pol ms.sys (.req x c o)).1
      (drainOps pol (2 * (ms.sys.nextId + 1) + 2) (step pol ms.sys (.req x c o)).1)).1 := by
    simp only [r, mstep, mops, hs, if_true, run_cons]
  rw [er]
  exact d

/-! ### Non-vacuity and sharpness -/

/-- everything accepted on both sides -/
def polAll : Bool → Policy := fun _ => ⟨fun _ => true, fun _ => true⟩
/-- B refuses everything, A accepts everything -/
def polBno : Bool → Policy := fun side => ⟨fun _ => !side, fun _ => !side⟩

/-- crossing requests on two options, both directions, then a simultaneous disable; all delivered -/
def demo : List Op :=
  [.req false .WILL 1, .req true .DO 1, .req true .WILL 3, .req false .DO 31,
   .deliver true, .deliver false, .deliver true, .deliver false, .deliver false, .deliver true,
   .req false .WONT 1, .req true .DONT 1, .deliver false, .deliver true, .deliver true, .deliver false]

example : wf polAll demo := by decide

/-- the hypotheses and the quiescence premise are satisfiable together on a non-trivial history: six
    requests, eight commands, all six Deferreds fired, option 3 enabled on B's side, option 1 disabled
    again -/
example :
    let r := run polAll Sys.init demo
    r.1.inbox false = [] ∧ r.1.inbox true = [] ∧ numReq demo = 6 ∧ sentCount r.2 = 8 ∧
    firedIds r.2 = [1, 0, 3, 2, 4, 5] ∧ effDeliveries polAll Sys.init demo = 8 ∧
    (r.1.opts true 3).us.state = true ∧ (r.1.opts false 3).him.state = true ∧
    (r.1.opts false 1).us.state = false := by decide

/-- a refusal: B's policy rejects; A's Deferred fires (with `OptionRefused`), two commands for one request
    — the bound 2 is attained -/
example :
    let ops := [Op.req false .WILL 1, .deliver true, .deliver false]
    wf polBno ops ∧ (run polBno Sys.init ops).2 =
      [(false, .sent .WILL 1), (true, .hook .enableRemote 1), (true, .sent .DONT 1), (false, .fired 0 .refused)] := by
  decide

/-- before quiescence a Deferred can be pending: "exactly once" needs the quiescence premise -/
example : firedIds (run polAll Sys.init [.req false .WILL 1, .deliver true]).2 = [] := by decide

/-- an extended history: two requests, both commands in ONE segment cut after 4 bytes then the rest; a
    request on a synchronous transport (answered before it returns: one group of five events); a segment
    that ends inside a command leaves it in flight -/
def demoSeg : List MOp :=
  [.req false .WILL 1, .req false .DO 3, .bytes true 4, .bytes true 2, .bytes false 6,
   .sreq true .WILL 31, .req false .WONT 1, .bytes true 2]

example : mwf polAll demoSeg := by decide

example :
    let r := mrun polAll MSys.init demoSeg
    mnumReq demoSeg = 4 ∧ r.2.2.length = 10 ∧ r.2.1.map List.length = [1, 1, 2, 2, 4, 5, 1, 0] ∧
    r.1.sys.inbox false = [] ∧ r.1.sys.inbox true = [(.WONT, 1)] ∧ r.1.part true = 2 ∧
    firedIds r.2.1.flatten = [0, 1, 2] ∧ (r.1.sys.opts true 31).us.state = true := by decide

/-- a request on a synchronous transport that writes: answered and acknowledged before it returns, nothing in flight;
    the premises of `synchronous_request_quiesces` are satisfiable -/
example :
    let ops := [MOp.req false .WILL 1, .sreq true .DO 3]
    mwf polAll ops ∧ hasSent (step polAll (mrun polAll MSys.init [MOp.req false .WILL 1]).1.sys (.req true .DO 3)).2 = true ∧
    (mrun polAll MSys.init ops).1.sys.inbox false = [] ∧ (mrun polAll MSys.init ops).1.sys.inbox true = [] ∧
    firedIds (mrun polAll MSys.init ops).2.1.flatten = [0, 1] := by decide

/-- the hypothesis is needed: an endpoint that calls `do(1)` while its own `enableRemote` refuses 1
    trips the assertion in `will_no_true` when the peer agrees -/
theorem needs_hypothesis :
    let ops := [Op.req true .DO 1, .deliver false, .deliver true]
    ¬ wf polBno ops ∧ raisedIn (run polBno Sys.init ops).2 = true := by decide

end TwistedProps.C39
