import TwistedModel.Dns.Proto
/-!
C33, lemmas on the TCP framing of `DNSProtocol.dataReceived` that do not depend on what the decoder
returns: the reference (`spec`: cut the stream at the length prefixes, decode frame after frame), the
loop run on a whole stream is the reference (`tcpLoop_none_eq_spec`), a connection between two calls
is determined by the unconsumed tail of the stream (`tcpLoop_stateOf`), the reference is
compositional (`spec_append_ok`, `spec_append_raised`), feeding any segmentation is the reference on
the concatenation (`feed_same_spec`), the frames of `writeMessage`'s encoding of a list of packets are
those packets (`frames_encode`).
-/
namespace TwistedProps.C33
open Twisted.Py Twisted.Dns.Wire Twisted.Dns.Proto

/-- the 2-byte big-endian number a stream starts with -/
def be16 (s : Bytes) : Nat := beToNat (s.take 2)

/-- the stream starts with a complete frame: a length prefix and that many bytes -/
abbrev HasFrame (s : Bytes) : Prop := 2 ≤ s.length ∧ be16 s ≤ s.length - 2

/-- cutting a stream at the length prefixes: its complete frames, in order -/
def frames (s : Bytes) : List Bytes :=
  if _h : HasFrame s then (s.drop 2).take (be16 s) :: frames ((s.drop 2).drop (be16 s)) else []
termination_by s.length
decreasing_by simp only [List.length_drop]; omega

/-- … and the incomplete tail after the last complete frame -/
def rest (s : Bytes) : Bytes :=
  if _h : HasFrame s then rest ((s.drop 2).drop (be16 s)) else s
termination_by s.length
decreasing_by simp only [List.length_drop]; omega

/-- `length`/`buffer` of a connection that has received the incomplete tail `r` and nothing else -/
def stateOf (r : Bytes) (live : List Nat) : Tcp :=
  if 2 ≤ r.length then ⟨some (be16 r), r.drop 2, live⟩ else ⟨none, r, live⟩

theorem stateOf_live (r : Bytes) (live : List Nat) : (stateOf r live).live = live := by
  unfold stateOf; split <;> rfl

def push (r : TcpResult) (d : Delivery) : TcpResult := { r with delivered := d :: r.delivered }
def pushAll (r : TcpResult) (ds : List Delivery) : TcpResult := { r with delivered := ds ++ r.delivered }

/-- The reference: what a `DNSProtocol` does with a whole stream, defined by cutting it at the length
    prefixes — decode frame after frame, hand each message over, stop at the first frame that does
    not decode (state = the one the exception leaves behind), else keep the incomplete tail. -/
def spec (s : Bytes) (live : List Nat) : TcpResult :=
  if _h : HasFrame s then
    match decodeMsg ((s.drop 2).take (be16 s)) with
    | .error e => ⟨⟨some (be16 s), s.drop 2, live⟩, [], some e⟩
    | .ok m => push (spec ((s.drop 2).drop (be16 s)) (deliver m live).2) (deliver m live).1
  else ⟨stateOf s live, [], none⟩
termination_by s.length
decreasing_by simp only [List.length_drop]; omega

/-- the same reference over the list of frames -/
def deliverSeq (live : List Nat) : List Bytes → List Delivery × Option Err × List Nat
  | [] => ([], none, live)
  | f :: fs =>
    match decodeMsg f with
    | .error e => ([], some e, live)
    | .ok m =>
      let r := deliverSeq (deliver m live).2 fs
      ((deliver m live).1 :: r.1, r.2.1, r.2.2)

theorem spec_eq_deliverSeq (s : Bytes) (live : List Nat) :
    (spec s live).delivered = (deliverSeq live (frames s)).1 ∧
    (spec s live).raised = (deliverSeq live (frames s)).2.1 ∧
    (spec s live).state.live = (deliverSeq live (frames s)).2.2 := by
  fun_induction spec s live with
  | case1 s live h e he =>
    rw [frames, dif_pos h]; simp only [deliverSeq, he]; exact ⟨trivial, trivial, trivial⟩
  | case2 s live h m hm ih =>
    rw [frames, dif_pos h]; simp only [deliverSeq, hm, push]
    exact ⟨by rw [ih.1], ih.2.1, ih.2.2⟩
  | case3 s live h =>
    rw [frames, dif_neg h]; simp only [deliverSeq, stateOf_live]; exact ⟨trivial, trivial, trivial⟩

/-- the tail is incomplete -/
theorem rest_noFrame (s : Bytes) : ¬ HasFrame (rest s) := by
  fun_induction rest s with
  | case1 s h ih => exact ih
  | case2 s h => exact h

theorem rest_of_noFrame {s : Bytes} (h : ¬ HasFrame s) : rest s = s := by
  rw [rest, dif_neg h]

/-- without an exception, the state the reference ends in is that of its incomplete tail -/
theorem spec_state (s : Bytes) (live : List Nat) (h : (spec s live).raised = none) :
    (spec s live).state = stateOf (rest s) (spec s live).state.live := by
  fun_induction spec s live with
  | case1 s live h e he => cases h
  | case2 s live hf m hm ih =>
    rw [rest, dif_pos hf]
    exact ih h
  | case3 s live hf =>
    rw [rest_of_noFrame hf]
    simp only [stateOf]; split <;> rfl

/-! ### the loop on a whole stream is the reference -/

theorem unpackBE_take2 {b : Bytes} (h : 2 ≤ b.length) : unpackBE 2 (b.take 2) = .ok (be16 b) := by
  simp only [unpackBE, List.length_take, be16]
  rw [if_pos (by omega)]

theorem tcpLoop_nil (length : Option Nat) (live : List Nat) :
    tcpLoop length [] live = ⟨⟨length, [], live⟩, [], none⟩ := by
  rw [tcpLoop]; simp

theorem tcpLoop_none_eq_spec (s : Bytes) (live : List Nat) : tcpLoop none s live = spec s live := by
  fun_induction spec s live with
  | case1 s live h e he =>
    have hne : s ≠ [] := by intro h0; subst h0; exact absurd h.1 (by simp)
    rw [tcpLoop, if_neg hne]
    have hs : tcpStep none s live = .raise (some (be16 s)) (s.drop 2) e := by
      simp only [tcpStep, if_pos h.1, unpackBE_take2 h.1, chunkStep, List.length_drop, if_pos h.2, he]
    split <;> rename_i hh <;> rw [hs] at hh <;> cases hh
    rfl
  | case2 s live h m hm ih =>
    have hne : s ≠ [] := by intro h0; subst h0; exact absurd h.1 (by simp)
    rw [tcpLoop, if_neg hne]
    have hs : tcpStep none s live = .cont (deliver m live).1 ((s.drop 2).drop (be16 s)) (deliver m live).2 := by
      simp only [tcpStep, if_pos h.1, unpackBE_take2 h.1, chunkStep, List.length_drop, if_pos h.2, hm]
    split <;> rename_i hh <;> rw [hs] at hh <;> cases hh
    simp only [ih, push]
  | case3 s live h =>
    by_cases hne : s = []
    · subst hne; rw [tcpLoop_nil]; simp [stateOf]
    · rw [tcpLoop, if_neg hne]
      by_cases h2 : 2 ≤ s.length
      · have hL : ¬ be16 s ≤ s.length - 2 := fun hc => h ⟨h2, hc⟩
        have hs : tcpStep none s live = .brk (some (be16 s)) (s.drop 2) := by
          simp only [tcpStep, if_pos h2, unpackBE_take2 h2, chunkStep, List.length_drop, if_neg hL]
        split <;> rename_i hh <;> rw [hs] at hh <;> cases hh
        simp only [stateOf, if_pos h2]
      · have hs : tcpStep none s live = .brk none s := by
          simp only [tcpStep, if_neg h2, chunkStep]
        split <;> rename_i hh <;> rw [hs] at hh <;> cases hh
        simp only [stateOf, if_neg h2]

/-! ### between two calls a connection is its unconsumed tail -/

theorem take2_append {r d : Bytes} (h : 2 ≤ r.length) : (r ++ d).take 2 = r.take 2 := by
  rw [List.take_append_of_le_length h]

theorem be16_append {r d : Bytes} (h : 2 ≤ r.length) : be16 (r ++ d) = be16 r := by
  simp only [be16, take2_append h]

theorem drop2_append {r d : Bytes} (h : 2 ≤ r.length) : (r ++ d).drop 2 = r.drop 2 ++ d := by
  rw [List.drop_append_of_le_length h]

/-- `dataReceived` on a connection that holds the incomplete tail `r` = the loop run from scratch on
    `r ++ data`: the length prefix already consumed into `self.length` is the one that would be read. -/
theorem dataReceived_stateOf (r : Bytes) (live : List Nat) (hr : ¬ HasFrame r) (data : Bytes) :
    (stateOf r live).dataReceived data = tcpLoop none (r ++ data) live := by
  unfold Tcp.dataReceived stateOf
  by_cases h2 : 2 ≤ r.length
  · simp only [if_pos h2]
    have hL : r.length - 2 < be16 r := by
      have : ¬ be16 r ≤ r.length - 2 := fun hc => hr ⟨h2, hc⟩
      omega
    have hne : r ++ data ≠ [] := by
      intro h0; have := congrArg List.length h0; simp only [List.length_append, List.length_nil] at this; omega
    by_cases hb : r.drop 2 ++ data = []
    · -- nothing after the prefix: both sides stop with `length` set
      rw [hb, tcpLoop_nil, tcpLoop, if_neg hne]
      have hl : (r ++ data).length = 2 := by
        have := congrArg List.length hb
        simp only [List.length_append, List.length_drop, List.length_nil] at this
        simp only [List.length_append]; omega
      have hs : tcpStep none (r ++ data) live = .brk (some (be16 r)) [] := by
        simp only [tcpStep, if_pos (show 2 ≤ (r ++ data).length by omega), unpackBE_take2 (show 2 ≤ (r ++ data).length by omega),
          be16_append h2, drop2_append h2, hb, chunkStep, List.length_nil]
        rw [if_neg (by omega)]
      split <;> rename_i hh <;> rw [hs] at hh <;> cases hh
      rfl
    · rw [tcpLoop, if_neg hb]
      conv => rhs; rw [tcpLoop, if_neg hne]
      have hs : tcpStep none (r ++ data) live = tcpStep (some (be16 r)) (r.drop 2 ++ data) live := by
        simp only [tcpStep, if_pos (show 2 ≤ (r ++ data).length by simp; omega),
          unpackBE_take2 (show 2 ≤ (r ++ data).length by simp; omega), be16_append h2, drop2_append h2]
      rw [hs]
  · simp only [if_neg h2]

/-! ### the reference is compositional -/

theorem hasFrame_append {s : Bytes} (h : HasFrame s) (t : Bytes) : HasFrame (s ++ t) := by
  refine ⟨by simp; omega, ?_⟩
  rw [be16_append h.1, List.length_append]
  have := h.2
  omega

theorem spec_append_ok (s t : Bytes) (live : List Nat) (h : (spec s live).raised = none) :
    spec (s ++ t) live = pushAll (spec (rest s ++ t) (spec s live).state.live) (spec s live).delivered := by
  fun_induction spec s live with
  | case1 s live hf e he => cases h
  | case2 s live hf m hm ih =>
    have ih := ih h
    rw [rest, dif_pos hf]
    conv => lhs; rw [spec, dif_pos (hasFrame_append hf t)]
    have e1 : be16 (s ++ t) = be16 s := be16_append hf.1
    have hL : be16 s ≤ (s.drop 2).length := by simp only [List.length_drop]; exact hf.2
    rw [e1, drop2_append hf.1, List.take_append_of_le_length hL, List.drop_append_of_le_length hL]
    simp only [hm, ih, push, pushAll, List.cons_append]
  | case3 s live hf =>
    rw [rest_of_noFrame hf]
    simp only [pushAll, List.nil_append]
    simp only [stateOf]; split <;> rfl

theorem spec_append_raised (s t : Bytes) (live : List Nat) (e : Err) (h : (spec s live).raised = some e) :
    (spec (s ++ t) live).delivered = (spec s live).delivered ∧ (spec (s ++ t) live).raised = some e := by
  fun_induction spec s live with
  | case1 s live hf e' he =>
    conv => lhs; rw [spec, dif_pos (hasFrame_append hf t)]
    conv => rhs; rw [spec, dif_pos (hasFrame_append hf t)]
    have e1 : be16 (s ++ t) = be16 s := be16_append hf.1
    have hL : be16 s ≤ (s.drop 2).length := by simp only [List.length_drop]; exact hf.2
    rw [e1, drop2_append hf.1, List.take_append_of_le_length hL]
    simp only [he]
    exact ⟨trivial, h⟩
  | case2 s live hf m hm ih =>
    have ih := ih h
    conv => lhs; rw [spec, dif_pos (hasFrame_append hf t)]
    conv => rhs; rw [spec, dif_pos (hasFrame_append hf t)]
    have e1 : be16 (s ++ t) = be16 s := be16_append hf.1
    have hL : be16 s ≤ (s.drop 2).length := by simp only [List.length_drop]; exact hf.2
    rw [e1, drop2_append hf.1, List.take_append_of_le_length hL, List.drop_append_of_le_length hL]
    simp only [hm, push]
    exact ⟨by rw [ih.1], ih.2⟩
  | case3 s live hf => cases h

/-! ### feeding a segmentation -/

/-- equal in everything the outside sees: what was handed over, what was raised, and — when nothing was
    raised — the attributes of the protocol -/
def Same (a b : TcpResult) : Prop :=
  a.delivered = b.delivered ∧ a.raised = b.raised ∧ (a.raised = none → a.state = b.state)

theorem spec_noFrame {r : Bytes} (hr : ¬ HasFrame r) (live : List Nat) : spec r live = ⟨stateOf r live, [], none⟩ := by
  rw [spec, dif_neg hr]

/-- From a connection holding the incomplete tail `r`, feeding the segments `cs` one by one is the
    reference on `r ++ cs.flatten`. -/
theorem feed_same_spec (cs : List Bytes) : ∀ (r : Bytes) (live : List Nat), ¬ HasFrame r →
    Same ((stateOf r live).feed cs) (spec (r ++ cs.flatten) live) := by
  induction cs with
  | nil =>
    intro r live hr
    simp only [Tcp.feed, List.flatten_nil, List.append_nil, spec_noFrame hr]
    exact ⟨rfl, rfl, fun _ => rfl⟩
  | cons c cs ih =>
    intro r live hr
    have hstep : (stateOf r live).dataReceived c = spec (r ++ c) live := by
      rw [dataReceived_stateOf r live hr, tcpLoop_none_eq_spec]
    simp only [Tcp.feed, hstep, List.flatten_cons, ← List.append_assoc]
    cases hra : (spec (r ++ c) live).raised with
    | some e =>
      simp only
      have := spec_append_raised (r ++ c) cs.flatten live e hra
      exact ⟨this.1.symm, by rw [hra, this.2], fun h => by rw [hra] at h; cases h⟩
    | none =>
      simp only
      have hst := spec_state (r ++ c) live hra
      have hcomp := spec_append_ok (r ++ c) cs.flatten live hra
      have := ih (rest (r ++ c)) (spec (r ++ c) live).state.live (rest_noFrame _)
      rw [← hst] at this
      rw [hcomp]
      simp only [pushAll]
      exact ⟨by rw [this.1], this.2.1, this.2.2⟩

/-! ### streams made of encoded frames -/

theorem be16_beN (n : Nat) (h : n < 65536) (t : Bytes) : be16 (beN 2 n ++ t) = n := by
  simp only [be16, beN, List.nil_append, List.cons_append, List.take, beToNat, List.foldl, UInt8.toNat_ofNat']
  omega

theorem beN2_length (n : Nat) : (beN 2 n).length = 2 := by simp [beN]

/-- what `DNSProtocol.writeMessage` puts on the wire for each message: `struct.pack("!H", len(s)) + s` -/
def encodeFrames : List Bytes → Bytes
  | [] => []
  | f :: fs => beN 2 f.length ++ f ++ encodeFrames fs

theorem frames_encode (fs : List Bytes) (hl : ∀ f ∈ fs, f.length < 65536) (tail : Bytes) (ht : ¬ HasFrame tail) :
    frames (encodeFrames fs ++ tail) = fs ∧ rest (encodeFrames fs ++ tail) = tail := by
  induction fs with
  | nil => simp only [encodeFrames, List.nil_append]; rw [frames, dif_neg ht, rest_of_noFrame ht]; exact ⟨rfl, rfl⟩
  | cons f fs ih =>
    have ih := ih (fun x hx => hl x (by simp [hx]))
    have hf := hl f (by simp)
    have e : encodeFrames (f :: fs) ++ tail = beN 2 f.length ++ (f ++ (encodeFrames fs ++ tail)) := by
      simp only [encodeFrames, List.append_assoc]
    have hb : be16 (encodeFrames (f :: fs) ++ tail) = f.length := by rw [e, be16_beN _ hf]
    have hd : (encodeFrames (f :: fs) ++ tail).drop 2 = f ++ (encodeFrames fs ++ tail) := by
      rw [e, List.drop_append_of_le_length (by rw [beN2_length]; exact Nat.le_refl 2), List.drop_of_length_le (by rw [beN2_length]; exact Nat.le_refl 2), List.nil_append]
    have hF : HasFrame (encodeFrames (f :: fs) ++ tail) := by
      refine ⟨?_, ?_⟩
      · rw [e, List.length_append, beN2_length]; omega
      · rw [hb, e]; simp only [List.length_append, beN2_length]; omega
    rw [frames, dif_pos hF, rest, dif_pos hF, hb, hd, List.take_left' rfl, List.drop_left' rfl, ih.1, ih.2]
    exact ⟨rfl, rfl⟩

end TwistedProps.C33
