import TwistedProps.C27.Chain
import TwistedProps.C27.Resolve
import TwistedProps.C27.Rfc3986
import TwistedProps.C27.Schedule
/-!
C27 — redirect following resolves targets correctly and confines credentials.

Model: `TwistedModel/Http/Redirect.lean` (`RedirectAgent` / `BrowserLikeRedirectAgent` of
twisted/web/client.py over a scripted inner agent).  `run cfg method uri headers rs` is
`agent.request(method, uri, headers)` when the inner agent answers the successive requests
with the responses `rs` (and then stops answering); its first component is the list of ALL
requests the inner agent received, the caller's own request first.

Every theorem below is for every configuration (redirect limit, configured sensitive names),
every initial request and every finite chain of responses `rs` — codes, `Location` values
(absolute / scheme-relative / path-only; any scheme, host, port, path, query, fragment) and
chain length are unconstrained.  There are no well-formedness hypotheses: the statements are
about what the agent does with whatever `urljoin` returns; the lemmas of `C27/Resolve.lean`
say what `urljoin` returns.
-/
namespace TwistedProps.C27
open Twisted.Http.Redirect

/-- the two agents of twisted.web.client -/
inductive Agent where
  | redirectAgent
  | browserLikeRedirectAgent
  deriving DecidableEq

def Agent.config : Agent → Nat → List String → Config
  | .redirectAgent => strict
  | .browserLikeRedirectAgent => browserLike

/-- all requests issued to the inner agent, the caller's first -/
abbrev requests (cfg : Config) (method : String) (uri : Uri) (headers : Option (List Header))
    (rs : List Resp) : List Req :=
  (run cfg method uri headers rs).1

/-! ### 1. each target is resolved against the URI of the request that received the redirect -/

/-- **Resolution.**  Request `k+1` exists only because response `k` (the answer to request `k`)
    carried a `Location`, and its URI is the first `Location` value resolved against the URI
    of request `k` — for every `k`, not only the first hop. -/
theorem resolves_against_receiving_request_uri (cfg : Config) (method : String) (uri : Uri)
    (headers : Option (List Header)) (rs : List Resp) (k : Nat) (req req' : Req)
    (h1 : (requests cfg method uri headers rs)[k]? = some req)
    (h2 : (requests cfg method uri headers rs)[k + 1]? = some req') :
    ∃ r l ls, rs[k]? = some r ∧ r.locs = l :: ls ∧ req'.uri = urljoin req.uri l := by
  simp only [requests, run_requests] at h1 h2
  obtain ⟨hk, hk', r, hr, f, e1, e2, _⟩ := adjacent cfg rs _ 0 k req req' h1 h2
  obtain ⟨l, ls, hl, ht⟩ := f.target
  refine ⟨r, l, ls, hr, hl, ?_⟩
  rw [← e1, ← e2]
  exact ht

/-- the first request is the caller's -/
theorem first_request (cfg : Config) (method : String) (uri : Uri)
    (headers : Option (List Header)) (rs : List Resp) :
    (requests cfg method uri headers rs)[0]? =
      some { method := method, uri := uri, headers := headers } := rfl

/-- a path-only `Location` keeps the redirect on the origin of the request that received it
    (so a chain of relative redirects after a cross-origin hop stays on the NEW origin) -/
theorem relative_location_stays_on_receiving_origin (cfg : Config) (method : String) (uri : Uri)
    (headers : Option (List Header)) (rs : List Resp) (k : Nat) (req req' : Req) (r : Resp) (l : Ref)
    (ls : List Ref)
    (h1 : (requests cfg method uri headers rs)[k]? = some req)
    (h2 : (requests cfg method uri headers rs)[k + 1]? = some req')
    (hr : rs[k]? = some r) (hl : r.locs = l :: ls) (hrel : l.kind = .rel) :
    req'.uri.origin = req.uri.origin := by
  obtain ⟨r', l', ls', hr', hl', e⟩ :=
    resolves_against_receiving_request_uri cfg method uri headers rs k req req' h1 h2
  rw [hr] at hr'
  injection hr' with hr'
  subst hr'
  rw [hl] at hl'
  injection hl' with hl' _
  subst hl'
  rw [e]
  exact urljoin_rel_origin _ _ hrel

/-- **Resolution is RFC 3986 resolution.**  On well-formed input (base path empty or absolute
    without empty interior segments; `Location` likewise, and free of dot segments when it
    carries an authority — the decidable predicates `WfBasePath`, `WfRef` of `C27/Rfc3986.lean`)
    the URI of request `k+1` is the RFC 3986 §5.2.2 target of the first `Location` of response
    `k` relative to the URI of request `k` (fragment per RFC 7231 §7.1.2). -/
theorem resolves_per_rfc3986 (cfg : Config) (method : String) (uri : Uri)
    (headers : Option (List Header)) (rs : List Resp) (k : Nat) (req req' : Req) (r : Resp) (l : Ref)
    (ls : List Ref)
    (h1 : (requests cfg method uri headers rs)[k]? = some req)
    (h2 : (requests cfg method uri headers rs)[k + 1]? = some req')
    (hr : rs[k]? = some r) (hl : r.locs = l :: ls)
    (hb : WfBasePath req.uri.path) (hw : WfRef l) :
    req'.uri = rfcResolve req.uri l := by
  obtain ⟨r', l', ls', hr', hl', e⟩ :=
    resolves_against_receiving_request_uri cfg method uri headers rs k req req' h1 h2
  rw [hr] at hr'
  injection hr' with hr'
  subst hr'
  rw [hl] at hl'
  injection hl' with hl' _
  subst hl'
  rw [e]
  exact urljoin_eq_rfc3986 _ _ hb hw

/-! ### 2. at most `redirectLimit` redirects are followed -/

/-- **Limit.**  The inner agent receives the caller's request and at most `limit` more. -/
theorem at_most_limit_redirects (cfg : Config) (method : String) (uri : Uri)
    (headers : Option (List Header)) (rs : List Resp) :
    (requests cfg method uri headers rs).length ≤ cfg.limit + 1 := by
  have := length_le cfg rs (start method uri headers) 0 (Nat.zero_le _)
  simpa [requests, run_requests, start] using this

/-! ### 3. methods -/

/-- the rule for any configuration: a followed redirect either has a code of
    `_redirectResponses`, was received by a GET or HEAD and keeps the method, or has a code
    of `_seeOtherResponses` and becomes a GET -/
theorem method_rule (cfg : Config) (method : String) (uri : Uri)
    (headers : Option (List Header)) (rs : List Resp) (k : Nat) (req req' : Req)
    (h1 : (requests cfg method uri headers rs)[k]? = some req)
    (h2 : (requests cfg method uri headers rs)[k + 1]? = some req') :
    ∃ r, rs[k]? = some r ∧
      ((r.code ∈ cfg.redirectCodes ∧ req'.method = req.method ∧ (req.method = "GET" ∨ req.method = "HEAD")) ∨
       (r.code ∉ cfg.redirectCodes ∧ r.code ∈ cfg.seeOtherCodes ∧ req'.method = "GET")) := by
  simp only [requests, run_requests] at h1 h2
  obtain ⟨hk, hk', r, hr, f, e1, e2, _⟩ := adjacent cfg rs _ 0 k req req' h1 h2
  refine ⟨r, hr, ?_⟩
  rw [← e1, ← e2]
  exact f.method

/-- **Methods.**  For both agents, any limit and any configured names: a followed response has
    one of the five redirect codes; 307 and 308 keep the method (and are followed for GET and
    HEAD only); 303 switches to GET; 301/302 keep the method for `RedirectAgent` (followed for
    GET and HEAD only — "behaves like 307") and switch to GET for `BrowserLikeRedirectAgent`
    ("behave like 303"). -/
theorem method_preserved_or_switched_as_documented (agent : Agent) (limit : Nat) (names : List String)
    (method : String) (uri : Uri) (headers : Option (List Header)) (rs : List Resp) (k : Nat)
    (req req' : Req)
    (h1 : (requests (agent.config limit names) method uri headers rs)[k]? = some req)
    (h2 : (requests (agent.config limit names) method uri headers rs)[k + 1]? = some req') :
    ∃ r, rs[k]? = some r ∧ r.code ∈ [301, 302, 303, 307, 308] ∧
      (r.code = 307 ∨ r.code = 308 →
        req'.method = req.method ∧ (req.method = "GET" ∨ req.method = "HEAD")) ∧
      (r.code = 303 → req'.method = "GET") ∧
      (r.code = 301 ∨ r.code = 302 →
        (agent = .redirectAgent → req'.method = req.method ∧ (req.method = "GET" ∨ req.method = "HEAD")) ∧
        (agent = .browserLikeRedirectAgent → req'.method = "GET")) := by
  obtain ⟨r, hr, hm⟩ := method_rule _ method uri headers rs k req req' h1 h2
  refine ⟨r, hr, ?_⟩
  cases agent with
  | redirectAgent =>
    simp only [Agent.config, strict, List.mem_cons, List.not_mem_nil, or_false] at hm
    simp only [List.mem_cons, List.not_mem_nil, or_false]
    rcases hm with ⟨hc, hm⟩ | ⟨hn, hc, hm⟩
    · exact ⟨by omega, fun _ => hm, fun h => by omega, fun _ => ⟨fun _ => hm, fun h => by cases h⟩⟩
    · exact ⟨by omega, fun h => by omega, fun _ => hm, fun h => by omega⟩
  | browserLikeRedirectAgent =>
    simp only [Agent.config, browserLike, List.mem_cons, List.not_mem_nil, or_false] at hm
    simp only [List.mem_cons, List.not_mem_nil, or_false]
    rcases hm with ⟨hc, hm⟩ | ⟨hn, hc, hm⟩
    · exact ⟨by omega, fun _ => hm, fun h => by omega, fun h => by omega⟩
    · exact ⟨by omega, fun h => by omega, fun _ => hm, fun _ => ⟨fun h => (by cases h), fun _ => hm⟩⟩

/-! ### 4. credentials -/

/-- `Authorization`, `Cookie`, `Proxy-Authorization` (and `Cookie2`, `WWW-Authenticate`) and
    every configured name are sensitive, for both agents -/
theorem sensitive_names (agent : Agent) (limit : Nat) (names : List String) (n : String)
    (h : n ∈ names ∨ n ∈ ["authorization", "cookie", "proxy-authorization", "cookie2", "www-authenticate"]) :
    n ∈ (agent.config limit names).sensitive := by
  have : n ∈ names ++ defaultSensitive := by
    rcases h with h | h
    · exact List.mem_append_left _ h
    · apply List.mem_append_right
      simp only [defaultSensitive]
      simp only [List.mem_cons, List.not_mem_nil, or_false] at h ⊢
      rcases h with h | h | h | h | h <;> simp [h]
  cases agent <;> exact this

/-- **Confinement.**  Whatever the chain does — cross-origin hops, hops back, scheme or port
    changes, relative hops in between — a request that carries a header with a sensitive name
    goes to the origin (scheme, host, effective port) of the original request. -/
theorem sensitive_headers_only_to_original_origin (cfg : Config) (method : String) (uri : Uri)
    (headers : Option (List Header)) (rs : List Resp) (req : Req)
    (hreq : req ∈ requests cfg method uri headers rs)
    (hs : List Header) (hh : req.headers = some hs) (p : Header) (hp : p ∈ hs)
    (hsens : p.1 ∈ cfg.sensitive) :
    req.uri.origin = uri.origin := by
  simp only [requests, run_requests] at hreq
  have h0 : Confined cfg (start method uri headers).uri (start method uri headers).req :=
    fun _ _ _ _ _ => rfl
  exact confined_all cfg rs _ 0 h0 req hreq hs hh p hp hsens

/-- nothing else is lost and nothing is invented: `None` stays `None`; otherwise every request
    carries a sub-collection of the caller's headers containing all the non-sensitive ones -/
theorem other_headers_always_sent (cfg : Config) (method : String) (uri : Uri)
    (headers : Option (List Header)) (rs : List Resp) (req : Req)
    (hreq : req ∈ requests cfg method uri headers rs) :
    (headers = none ∧ req.headers = none) ∨
    ∃ hs hs', headers = some hs ∧ req.headers = some hs' ∧ (∀ p ∈ hs', p ∈ hs) ∧
      (∀ p ∈ hs, ¬ p.1 ∈ cfg.sensitive → p ∈ hs') := by
  simp only [requests, run_requests] at hreq
  exact kept_all cfg rs _ 0 req hreq

/-- and the credentials are not dropped needlessly: while the whole chain stays on the original
    origin, every request carries exactly the caller's headers -/
theorem same_origin_chain_keeps_all_headers (cfg : Config) (method : String) (uri : Uri)
    (headers : Option (List Header)) (rs : List Resp)
    (hall : ∀ req ∈ requests cfg method uri headers rs, req.uri.origin = uri.origin)
    (req : Req) (hreq : req ∈ requests cfg method uri headers rs) :
    req.headers = headers := by
  simp only [requests, run_requests] at hreq hall
  exact same_origin_keeps cfg rs _ 0 hall req hreq

/-! ### 5. one agent object, several requests, answers in any interleaving

The four clauses above are about `run`: one request through a fresh agent.  The agent object holds only its
configuration, so they hold for every request made through a shared agent, in whatever order the inner agent
answers the requests in flight: `schedule cfg pool sched` (TwistedModel/Http/Redirect.lean) delivers the scripted
responses chain by chain as `sched` says. -/

/-- **Independence.**  Whatever the other chains are and however the deliveries interleave, once chain `j` has been
    given as many deliveries as its script is long it has sent exactly the requests of `run` and its caller has seen
    exactly `run`'s outcome. -/
theorem interleaving_independent (cfg : Config) (calls : List Call) (sched : List Nat) (j : Nat) (c : Call)
    (hc : calls[j]? = some c) (hfull : c.resps.length ≤ sched.count j) :
    ((schedule cfg (calls.map Call.take) sched)[j]?).map Flight.result =
      some (run cfg c.method c.uri c.headers c.resps) := by
  rw [schedule_getElem?, List.getElem?_map, hc]
  simp only [Option.map_some, Call.take]
  rw [iter_follow cfg c.resps _ 0 _ _ hfull]
  rfl

/-- a schedule that serves every chain to the end leaves the pool at `runMany` (what the driver prints) -/
theorem complete_schedule_eq_runMany (cfg : Config) (calls : List Call) (sched : List Nat)
    (hfull : ∀ j c, calls[j]? = some c → c.resps.length ≤ sched.count j) :
    (schedule cfg (calls.map Call.take) sched).map Flight.result = runMany cfg calls := by
  apply List.ext_getElem?
  intro j
  rw [List.getElem?_map]
  cases hc : calls[j]? with
  | none =>
    simp [runMany, hc, schedule_getElem?]
  | some c =>
    rw [interleaving_independent cfg calls sched j c hc (hfull j c hc)]
    simp [runMany, hc]

/-- at ANY moment of ANY interleaving, what chain `j` has sent is an initial part of what `run` sends -/
theorem interleaved_requests_prefix (cfg : Config) (calls : List Call) (sched : List Nat) (j : Nat) (c : Call)
    (f : Flight) (hc : calls[j]? = some c) (hf : (schedule cfg (calls.map Call.take) sched)[j]? = some f) :
    f.sent <+: requests cfg c.method c.uri c.headers c.resps := by
  rw [schedule_getElem?, List.getElem?_map, hc] at hf
  simp only [Option.map_some, Call.take, Option.some.injEq] at hf
  subst hf
  exact iter_sent_prefix cfg _ c.resps _ 0 _

/-- **Confinement under interleaving.**  At any moment of any interleaving of any requests through one agent, a
    request of chain `j` that carries a header with a sensitive name goes to the origin of chain `j`'s original
    request — not to that of another request the agent is serving or has served. -/
theorem interleaved_sensitive_headers_only_to_original_origin (cfg : Config) (calls : List Call)
    (sched : List Nat) (j : Nat) (c : Call) (f : Flight) (hc : calls[j]? = some c)
    (hf : (schedule cfg (calls.map Call.take) sched)[j]? = some f)
    (req : Req) (hreq : req ∈ f.sent)
    (hs : List Header) (hh : req.headers = some hs) (p : Header) (hp : p ∈ hs)
    (hsens : p.1 ∈ cfg.sensitive) :
    req.uri.origin = c.uri.origin :=
  sensitive_headers_only_to_original_origin cfg c.method c.uri c.headers c.resps req
    ((interleaved_requests_prefix cfg calls sched j c f hc hf).subset hreq) hs hh p hp hsens

/-- and at most `limit` redirects are followed for each chain, whatever the agent is doing besides -/
theorem interleaved_at_most_limit_redirects (cfg : Config) (calls : List Call) (sched : List Nat) (j : Nat)
    (c : Call) (f : Flight) (hc : calls[j]? = some c)
    (hf : (schedule cfg (calls.map Call.take) sched)[j]? = some f) :
    f.sent.length ≤ cfg.limit + 1 :=
  Nat.le_trans (interleaved_requests_prefix cfg calls sched j c f hc hf).length_le
    (at_most_limit_redirects cfg c.method c.uri c.headers c.resps)

/-! ### non-vacuity: concrete chains -/

def ua : Uri := { scheme := .http, auth := { host := "a", port := none }, path := ["", "x", "y"], query := "", frag := "" }
def toB : Ref := { kind := .abs .http { host := "b", port := none }, path := ["", "p", "q"], query := "", frag := "" }
def relR : Ref := { kind := .rel, path := ["r"], query := "", frag := "" }
def upR : Ref := { kind := .rel, path := ["..", "s"], query := "k", frag := "" }
def backA : Ref := { kind := .net { host := "a", port := some 80 }, path := ["", "z"], query := "", frag := "" }
def creds : Option (List Header) := some [("authorization", "s"), ("accept", "v"), ("x-api-key", "t")]

/-- the witness of the defect that was repaired: the third request goes to `http://b/p/r`
    (it went to `http://a/x/r`), the fourth to `http://b/s?k` -/
example :
    (requests (strict 20 []) "GET" ua none
        [⟨302, [toB]⟩, ⟨302, [relR]⟩, ⟨307, [upR]⟩, ⟨200, []⟩]).map (fun q => q.uri.text) =
      ["http://a/x/y", "http://b/p/q", "http://b/p/r", "http://b/s?k"] := by decide

/-- RFC 3986 §5.4.1 / §5.4.2 examples (base `http://a/b/c/d?q`): the independent
    transcription gives the RFC's answers, and so does `urljoin` -/
def rfcBase : Uri := { scheme := .http, auth := { host := "a", port := none }, path := ["", "b", "c", "d"], query := "q", frag := "" }
def relP (p : List String) (q : String := "") (f : String := "") : Ref := { kind := .rel, path := p, query := q, frag := f }

example :
    ([relP ["g"], relP [".", "g"], relP ["g", ""], relP ["", "g"], relP [""] "y", relP ["g"] "y", relP [""] "" "s",
      relP ["g"] "" "s", relP [""], relP ["."], relP [".", ""], relP [".."], relP ["..", ""], relP ["..", "g"],
      relP ["..", ".."], relP ["..", "..", ""], relP ["..", "..", "g"], relP ["..", "..", "..", "g"],
      relP ["", ".", "g"], relP ["", "..", "g"], relP ["g."], relP [".g"], relP ["g.."], relP ["..g"],
      relP [".", "..", "g"], relP [".", "g", "."], relP ["g", ".", "h"], relP ["g", "..", "h"]].map
        fun r => (rfcResolve rfcBase r).text) =
      ["http://a/b/c/g", "http://a/b/c/g", "http://a/b/c/g/", "http://a/g", "http://a/b/c/d?y", "http://a/b/c/g?y",
       "http://a/b/c/d?q#s", "http://a/b/c/g#s", "http://a/b/c/d?q", "http://a/b/c/", "http://a/b/c/", "http://a/b/",
       "http://a/b/", "http://a/b/g", "http://a/", "http://a/", "http://a/g", "http://a/g", "http://a/g", "http://a/g",
       "http://a/b/c/g.", "http://a/b/c/.g", "http://a/b/c/g..", "http://a/b/c/..g", "http://a/b/g", "http://a/b/c/g/",
       "http://a/b/c/g/h", "http://a/b/c/h"] := by decide

example : urljoin rfcBase (relP ["..", "..", "..", "g"] "k" "s") = rfcResolve rfcBase (relP ["..", "..", "..", "g"] "k" "s") ∧
    (urljoin rfcBase (relP ["..", "..", "..", "g"] "k" "s")).text = "http://a/g?k#s" := by decide

/-- the hypothesis on interior segments is needed: urllib drops the empty segment of
    `http://a/b//c/d` when merging, RFC 3986 keeps it -/
example :
    (urljoin { rfcBase with path := ["", "b", "", "c", "d"], query := "" } (relP ["e"])).text = "http://a/b/c/e" ∧
    (rfcResolve { rfcBase with path := ["", "b", "", "c", "d"], query := "" } (relP ["e"])).text = "http://a/b//c/e" := by
  decide

/-- limit 2: the third redirect is not followed -/
example :
    (run (strict 2 []) "GET" ua none [⟨302, [relR]⟩, ⟨302, [relR]⟩, ⟨302, [relR]⟩, ⟨302, [relR]⟩]).1.length = 3 ∧
    (run (strict 2 []) "GET" ua none [⟨302, [relR]⟩, ⟨302, [relR]⟩, ⟨302, [relR]⟩, ⟨302, [relR]⟩]).2 =
      .infinite 302 ua := by decide

/-- methods: POST + 303 → GET for both; POST + 308 is not followed by either agent (the
    browser-like agent re-issued it as GET before the repair); POST + 301 → GET only for the
    browser-like agent; HEAD + 307 stays HEAD -/
example :
    (requests (strict 20 []) "POST" ua none [⟨303, [relR]⟩]).map (·.method) = ["POST", "GET"] ∧
    (requests (browserLike 20 []) "POST" ua none [⟨308, [relR]⟩]).map (·.method) = ["POST"] ∧
    (run (browserLike 20 []) "POST" ua none [⟨308, [relR]⟩]).2 = .pageRedirect 308 ua ∧
    (requests (browserLike 20 []) "POST" ua none [⟨301, [relR]⟩]).map (·.method) = ["POST", "GET"] ∧
    (requests (strict 20 []) "POST" ua none [⟨301, [relR]⟩]).map (·.method) = ["POST"] ∧
    (requests (browserLike 20 []) "HEAD" ua none [⟨307, [relR]⟩, ⟨308, [relR]⟩]).map (·.method) =
      ["HEAD", "HEAD", "HEAD"] := by decide

/-- credentials: a → a (same origin, explicit default port) keeps everything; a → b strips the
    sensitive names (default and configured) and they do not come back on the hop back to a -/
example :
    (requests (strict 20 ["x-api-key"]) "GET" ua creds
        [⟨302, [backA]⟩, ⟨302, [toB]⟩, ⟨302, [backA]⟩]).map (·.headers) =
      [creds, creds, some [("accept", "v")], some [("accept", "v")]] := by decide

/-- two requests through one agent, the answers interleaved (chain 0, chain 1, chain 0, chain 1, …): chain 0 is
    resolved against ITS URIs and chain 1 — to origin `b`, then redirected to `a` — gets no credentials there,
    exactly as when each runs alone -/
def ub : Uri := { scheme := .http, auth := { host := "b", port := none }, path := ["", "k"], query := "", frag := "" }
def callA : Call := { method := "GET", uri := ua, headers := creds, resps := [⟨302, [toB]⟩, ⟨302, [relR]⟩, ⟨200, []⟩] }
def callB : Call := { method := "GET", uri := ub, headers := creds, resps := [⟨302, [backA]⟩, ⟨200, []⟩] }

example :
    (schedule (strict 20 []) [callA.take, callB.take] [0, 1, 0, 1, 0, 1]).map Flight.result =
      runMany (strict 20 []) [callA, callB] ∧
    ((schedule (strict 20 []) [callA.take, callB.take] [0, 1, 0]).map fun f => f.sent.map fun q => q.uri.text) =
      [["http://a/x/y", "http://b/p/q", "http://b/p/r"], ["http://b/k", "http://a:80/z"]] ∧
    ((runMany (strict 20 []) [callA, callB]).map fun t => t.1.map fun q => q.headers) =
      [[creds, some [("accept", "v"), ("x-api-key", "t")], some [("accept", "v"), ("x-api-key", "t")]],
       [creds, some [("accept", "v"), ("x-api-key", "t")]]] := by decide

end TwistedProps.C27
