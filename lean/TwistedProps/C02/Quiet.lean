import TwistedProps.C02.Basic
/-!
C02 — the depth invariant.  If no callback in the heap fires another Deferred (`Cb.fire`) or resumes
a generator (`Cb.gotResult`), then `_runCallbacks` running at depth `D` never enters a frame deeper
than `D+1`, whatever the heap, the chain and the fuel: the `chain` list replaces the recursion.
-/
namespace TwistedProps.C02
open Twisted.Defer.Depth

/-- callbacks that do not call back into Deferred machinery -/
def quietCb : Cb → Bool
  | .fire _ => false
  | .gotResult _ _ => false
  | _ => true

/-- every Deferred of the heap only has quiet callbacks; nothing deeper than `K` so far -/
structure Ok (K : Nat) (st : St) : Prop where
  quiet : ∀ i, ∀ cb ∈ (st.get i).callbacks, quietCb cb = true
  depth : st.maxDepth ≤ K
  probes : ∀ p ∈ st.probes, p ≤ K

theorem Ok.set {K : Nat} {st : St} (h : Ok K st) (i : Nat) (d : Dfd)
    (hd : ∀ cb ∈ d.callbacks, quietCb cb = true) : Ok K (st.set i d) := by
  refine ⟨?_, h.depth, h.probes⟩
  intro j cb hcb
  rcases get_set_cases st i j d with e | e
  · rw [e] at hcb; exact hd cb hcb
  · rw [e] at hcb; exact h.quiet j cb hcb

theorem Ok.enter {K : Nat} {st : St} (h : Ok K st) (D : Nat) (hD : D ≤ K) : Ok K (st.enter D) :=
  ⟨h.quiet, by simp only [maxDepth_enter]; exact Nat.max_le.mpr ⟨h.depth, hD⟩, h.probes⟩

theorem Ok.log {K : Nat} {st : St} (h : Ok K st) (D : Nat) (hD : D ≤ K) : Ok K (st.log D) :=
  ⟨h.quiet, h.depth, by
    intro p hp
    simp only [probes_log, List.mem_cons] at hp
    rcases hp with rfl | hp
    · exact hD
    · exact h.probes p hp⟩

theorem Ok.oof {K : Nat} {st : St} (h : Ok K st) : Ok K st.outOfFuel := ⟨h.quiet, h.depth, h.probes⟩

/-- a quiet callback leaves the heap alone and enters only its own frame -/
theorem callCb_quiet {K : Nat} (f D : Nat) (cb : Cb) (arg : Res) (st : St)
    (hq : quietCb cb = true) (h : Ok K st) (hD : D ≤ K) : Ok K (callCb f D cb arg st).1 := by
  cases f with
  | zero => exact h.oof
  | succ f =>
    cases cb with
    | cont ch => exact h.enter D hD
    | probe => exact (h.enter D hD).log D hD
    | ret j => exact h.enter D hD
    | const v => exact h.enter D hD
    | raise e => exact h.enter D hD
    | fire j => simp [quietCb] at hq
    | gotResult w g => simp [quietCb] at hq

/-- the two loops of `_runCallbacks`, together, by induction on the fuel -/
theorem loops_ok {K : Nat} (f : Nat) :
    (∀ D chain st, Ok K st → D + 1 ≤ K → Ok K (outer f D chain st)) ∧
    (∀ D cur rest st, Ok K st → D + 1 ≤ K → Ok K (inner f D cur rest st)) := by
  induction f with
  | zero => exact ⟨fun _ _ _ h _ => h.oof, fun _ _ _ _ h _ => h.oof⟩
  | succ f ih =>
    obtain ⟨ihO, ihI⟩ := ih
    constructor
    · intro D chain st h hD
      cases chain with
      | nil => exact h
      | cons cur rest =>
        rw [outer_cons]
        split
        · exact ihO D rest st h hD
        · exact ihI D cur rest st h hD
    · intro D cur rest st h hD
      cases hcbs : (st.get cur).callbacks with
      | nil => rw [inner_nil _ _ _ _ _ hcbs]; exact ihO D rest st h hD
      | cons cb cbs =>
        have hall : ∀ c ∈ cb :: cbs, quietCb c = true := by
          intro c hc; exact h.quiet cur c (by rw [hcbs]; exact hc)
        have hcbsq : ∀ c ∈ cbs, quietCb c = true := fun c hc => hall c (List.mem_cons_of_mem _ hc)
        by_cases hc : ∃ ch, cb = .cont ch
        · obtain ⟨ch, rfl⟩ := hc
          rw [inner_cont _ _ _ _ _ _ _ hcbs]
          apply ihO _ _ _ _ hD
          unfold handOver
          have h1 : Ok K (st.set cur { st.get cur with callbacks := cbs }) := h.set _ _ hcbsq
          have h2 := h1.set ch { (st.set cur { st.get cur with callbacks := cbs }).get ch with
                                  result := (st.get cur).result } (h1.quiet ch)
          have h3 := h2.set cur { (St.set (st.set cur { st.get cur with callbacks := cbs }) ch
              { (st.set cur { st.get cur with callbacks := cbs }).get ch with
                                  result := (st.get cur).result }).get cur with result := .val 0 } (h2.quiet cur)
          exact h3.set ch _ (h3.quiet ch)
        · have hc' : ∀ ch, cb ≠ .cont ch := fun ch e => hc ⟨ch, e⟩
          rw [inner_user _ _ _ _ _ _ _ hcbs hc']
          have hb : Ok K (beforeCb cur cbs st) := by
            unfold beforeCb
            have h1 : Ok K (st.set cur { st.get cur with callbacks := cbs }) := h.set _ _ hcbsq
            exact h1.set cur _ (h1.quiet cur)
          have hcall := callCb_quiet f (D+1) cb (st.get cur).result _ (hall cb (List.mem_cons_self ..)) hb hD
          generalize (callCb f (D+1) cb (st.get cur).result (beforeCb cur cbs st)).1 = s1 at hcall
          generalize (callCb f (D+1) cb (st.get cur).result (beforeCb cur cbs st)).2 = r
          unfold afterCb
          have h1 : Ok K (s1.set cur { s1.get cur with running := false, result := r }) :=
            hcall.set cur _ (hcall.quiet cur)
          generalize (s1.set cur { s1.get cur with running := false, result := r }) = s2 at h1
          cases r with
          | dfd j =>
            simp only
            split
            · apply ihO _ _ _ _ hD
              have h2 := h1.set cur { s2.get cur with paused := (s2.get cur).paused + 1 } (h1.quiet cur)
              apply h2.set
              intro c hc
              rw [List.mem_append] at hc
              rcases hc with hc | hc
              · exact h2.quiet j c hc
              · simp only [List.mem_singleton] at hc; subst hc; rfl
            · apply ihI _ _ _ _ _ hD
              have h2 := h1.set j { s2.get j with result := .val 0 } (h1.quiet j)
              exact h2.set cur _ (h2.quiet cur)
          | none => exact ihI _ _ _ _ h1 hD
          | val v => exact ihI _ _ _ _ h1 hD
          | fail e => exact ihI _ _ _ _ h1 hD

theorem runCallbacks_ok {K : Nat} (f D self : Nat) (st : St) (h : Ok K st) (hD : D + 1 ≤ K) :
    Ok K (runCallbacks f D self st) := by
  cases f with
  | zero => exact h.oof
  | succ f =>
    rw [runCallbacks_succ]
    have h1 := h.enter D (by omega)
    split
    · exact h1
    · exact (loops_ok f).1 D [self] _ h1 hD

theorem fireD_ok {K : Nat} (f D i : Nat) (r : Res) (st : St) (h : Ok K st) (hD : D + 3 ≤ K) :
    Ok K (fireD f D i r st).1 := by
  cases f with
  | zero => exact h.oof
  | succ f =>
    rw [fireD_succ]
    have h1 := (h.enter D (by omega)).enter (D+1) (by omega)
    split
    · exact h1
    · exact runCallbacks_ok f (D+2) i _ (h1.set i _ (h1.quiet i)) (by omega)

end TwistedProps.C02

namespace TwistedProps.C02
open Twisted.Defer.Depth

/-- top-level operations that install no re-entrant callback and start no generator -/
def quietOp : Op → Bool
  | .add _ cb => quietCb cb
  | .start _ => false
  | _ => true

theorem Ok.raisedUpd {K : Nat} {st : St} (h : Ok K st) (n : Nat) : Ok K { st with raised := n } :=
  ⟨h.quiet, h.depth, h.probes⟩

theorem step_ok (f : Nat) (st : St) (op : Op) (h : Ok 4 st) (hq : quietOp op = true) :
    Ok 4 (step f st op) := by
  cases op with
  | fire i v =>
    have := fireD_ok f 1 i (.val v) st h (by omega)
    simp only [step]
    split
    · exact this.raisedUpd _
    · exact this
  | fail i e =>
    have := fireD_ok f 1 i (.fail e) st h (by omega)
    simp only [step]
    split
    · exact this.raisedUpd _
    · exact this
  | pause i => exact h.set i _ (h.quiet i)
  | unpause i =>
    simp only [step]
    have h1 := h.enter 1 (by omega)
    have h2 := h1.set i { (st.enter 1).get i with paused := ((st.enter 1).get i).paused - 1 } (h1.quiet i)
    split
    · exact h2
    · split
      · exact runCallbacks_ok f 2 i _ h2 (by omega)
      · exact h2
  | add i cb =>
    have hcb : quietCb cb = true := hq
    have key : ∀ A, A + 2 ≤ 4 →
        Ok 4 (if (((st.enter A).set i { (st.enter A).get i with
                    callbacks := ((st.enter A).get i).callbacks ++ [cb] }).get i).called
              then runCallbacks f (A+1) i ((st.enter A).set i { (st.enter A).get i with
                    callbacks := ((st.enter A).get i).callbacks ++ [cb] })
              else (st.enter A).set i { (st.enter A).get i with
                    callbacks := ((st.enter A).get i).callbacks ++ [cb] }) := by
      intro A hA
      have h1 := h.enter A (by omega)
      have h2 : Ok 4 ((st.enter A).set i
          { (st.enter A).get i with callbacks := ((st.enter A).get i).callbacks ++ [cb] }) := by
        apply h1.set
        intro c hc
        rw [List.mem_append] at hc
        rcases hc with hc | hc
        · exact h1.quiet i c hc
        · simp only [List.mem_singleton] at hc; subst hc; exact hcb
      split
      · exact runCallbacks_ok f (A+1) i _ h2 (by omega)
      · exact h2
    cases cb <;> first | exact key 1 (by omega) | (simp [quietCb] at hcb)
  | start g => simp [quietOp] at hq

theorem exec_ok (f : Nat) (ops : List Op) (st : St) (h : Ok 4 st)
    (hq : ∀ op ∈ ops, quietOp op = true) : Ok 4 (exec f st ops) := by
  induction ops generalizing st with
  | nil => exact h
  | cons op ops ih =>
    show Ok 4 (exec f (step f st op) ops)
    exact ih _ (step_ok f st op h (hq op (List.mem_cons_self ..)))
      (fun o ho => hq o (List.mem_cons_of_mem _ ho))

end TwistedProps.C02
